/-
Helper lemmas for Props/C10 (CAM part): characterisation of `check`, and for every monitor of
`FlexModel.Fac.CamSpec` a one-step simulation relation with the model `FlexModel.Fac.Cam`.
-/
import FlexModel.Fac.CamSpec

namespace FlexModel.Fac.CamLemmas
open FlexModel.Fac FlexModel.Fac.Cam FlexModel.Fac.CamSpec Generated.Fac

theorem check_inactive (s : State) (now d : Nat) (ok : Bool) (h : s.active = false) :
    check s now d ok = (s, none) := by
  simp [check, h]

/-- everything one needs to know about an emitting check -/
theorem check_some (s : State) (now d : Nat) (ok : Bool) (c : CamOut)
    (h : (check s now d ok).2 = some c) :
    s.active = true ∧ ok = true ∧ ∃ r cond, s.cur = some r ∧ trigger s r now d = some cond ∧
      c = { t := now, cond := cond, lf := includeLf s now, special := includeSpecial s now && s.cfg.hasSpecialData,
            vlf := includeVlf s now (includeLf s now) (includeSpecial s now), tw := s.cfg.twoWheeler,
            gdt := gdtOf r, rid := r.rid } ∧
      (check s now d ok).1 = afterSend { s with armed := true } r now cond (includeLf s now) (includeSpecial s now)
            (includeVlf s now (includeLf s now) (includeSpecial s now)) := by
  unfold check at h ⊢
  split at h
  · simp at h
  · split at h
    · simp at h
    · rename_i r hr
      split at h
      · simp at h
      · rename_i cond hc
        split at h
        · rename_i hok
          simp at h
          simp_all
        · simp at h

theorem check_none (s : State) (now d : Nat) (ok : Bool)
    (h : (check s now d ok).2 = none) :
    (s.active = false ∧ (check s now d ok).1 = s) ∨ (s.active = true ∧ (check s now d ok).1 = { s with armed := true } ∧
      (s.cur = none ∨ ok = false ∨ ∃ r, s.cur = some r ∧ trigger s r now d = none)) := by
  unfold check at h ⊢
  split
  · rename_i ha; left; simp at ha; exact ⟨ha, rfl⟩
  · rename_i ha
    right
    simp at ha
    refine ⟨ha, ?_⟩
    split
    · rename_i hc; simp [hc]
    · rename_i r hr
      split
      · rename_i ht; simp; right; right; exact ⟨r, hr, ht⟩
      · split
        · rename_i hok; simp_all
        · rename_i hok; simp_all

/-! silent -/
theorem silent_sim (s : State) (m : SilentSt) (op : Op) (hR : m.active = s.active) :
    ∃ m', silentMon m (op, (step s op).2) = some m' ∧ m'.active = (step s op).1.active := by
  cases op with
  | start =>
    by_cases ha : s.active = true <;> simp [step, ha, silentMon]
  | stop => simp [step, silentMon]
  | report r => simp [step, silentMon, hR]
  | check now d ok =>
    simp only [step]
    cases hc : (check s now d ok).2 with
    | none =>
      rcases check_none s now d ok hc with ⟨_, h⟩ | ⟨_, h, _⟩ <;> simp [silentMon, h, hR]
    | some c =>
      obtain ⟨ha, _, r, cond, _, _, _, hs⟩ := check_some s now d ok c hc
      simp [silentMon, hR, ha, hs, afterSend]

/-! min gap -/
theorem trigger_elapsed (s : State) (r : Tpv) (now d cond t : Nat)
    (h : trigger s r now d = some cond) (ht : s.lastCamTime = some t) : t + T_GEN_CAM_DCC ≤ now := by
  unfold trigger at h
  rw [ht] at h
  simp only at h
  split at h
  · omega
  · split at h
    · omega
    · simp at h

theorem minGap_sim (s : State) (m : MinGapSt) (op : Op)
    (hR : m.active = s.active ∧ m.last = s.lastCamTime) :
    ∃ m', minGapMon m (op, (step s op).2) = some m' ∧
      (m'.active = (step s op).1.active ∧ m'.last = (step s op).1.lastCamTime) := by
  obtain ⟨hA, hL⟩ := hR
  cases op with
  | start =>
    by_cases ha : s.active = true <;> simp [step, ha, minGapMon, hA, hL]
  | stop => simp [step, minGapMon, hL]
  | report r => simp [step, minGapMon, hA, hL]
  | check now d ok =>
    simp only [step]
    cases hc : (check s now d ok).2 with
    | none =>
      rcases check_none s now d ok hc with ⟨_, h⟩ | ⟨_, h, _⟩ <;> simp [minGapMon, h, hA, hL]
    | some c =>
      obtain ⟨ha, _, r, cond, _, htr, hcx, hs⟩ := check_some s now d ok c hc
      have hct : c.t = now := by rw [hcx]
      have hgap : noneOrSince m.last T_GenCamMin now = true := by
        rw [hL]
        cases hl : s.lastCamTime with
        | none => rfl
        | some t =>
          have := trigger_elapsed s r now d cond t htr hl
          have h100 : T_GEN_CAM_DCC = 100 := by decide
          simp only [noneOrSince, T_GenCamMin]
          apply decide_eq_true
          omega
      simp [minGapMon, hct, hgap, hs, afterSend, hA, ha]

/-! LF -/
def LfRel (s : State) (m : LfSt) : Prop :=
  m.active = s.active ∧ m.lastLf = s.lastLf ∧ (s.camCount = 0 → s.lastLf = none)

theorem includeLf_eq (s : State) (now : Nat) (h : s.camCount = 0 → s.lastLf = none) :
    includeLf s now = noneOrSince s.lastLf T_LF now := by
  have h500 : T_GEN_CAM_LF_MS = 500 := by decide
  unfold includeLf due noneOrSince T_LF
  by_cases h0 : s.camCount = 0
  · simp [h0, h h0]
  · cases hl : s.lastLf with
    | none => simp
    | some l =>
      simp only [h500]
      have : (s.camCount == 0) = false := by simp [h0]
      rw [this]
      simp

theorem lf_sim (s : State) (m : LfSt) (op : Op) (hR : LfRel s m) :
    ∃ m', lfMon m (op, (step s op).2) = some m' ∧ LfRel (step s op).1 m' := by
  obtain ⟨hA, hL, h0⟩ := hR
  cases op with
  | start =>
    by_cases ha : s.active = true <;> simp [step, ha, lfMon, hA, hL, LfRel] <;> exact h0
  | stop => simp [step, lfMon, hL, LfRel]; exact h0
  | report r => simp [step, lfMon, hA, hL, LfRel]; exact h0
  | check now d ok =>
    simp only [step]
    cases hc : (check s now d ok).2 with
    | none =>
      rcases check_none s now d ok hc with ⟨_, h⟩ | ⟨_, h, _⟩ <;> simp [lfMon, h, hA, hL, LfRel] <;> exact h0
    | some c =>
      obtain ⟨ha, _, r, cond, _, htr, hcx, hs⟩ := check_some s now d ok c hc
      have hlf : c.lf = noneOrSince m.lastLf T_LF now := by
        rw [hcx, hL]; exact includeLf_eq s now h0
      simp only [lfMon, hlf, if_true, hs]
      refine ⟨_, rfl, ?_⟩
      simp only [LfRel, afterSend, hA, ha, true_and]
      rw [← hlf, hcx]
      simp [hL]

/-! latest report, generationDeltaTime -/
theorem latest_sim (s : State) (m : LatestSt) (op : Op) (hR : m.cur = s.cur) :
    ∃ m', latestMon m (op, (step s op).2) = some m' ∧ m'.cur = (step s op).1.cur := by
  cases op with
  | start =>
    by_cases ha : s.active = true <;> simp [step, ha, latestMon, hR]
  | stop => simp [step, latestMon, hR]
  | report r => simp [step, latestMon]
  | check now d ok =>
    simp only [step]
    cases hc : (check s now d ok).2 with
    | none =>
      rcases check_none s now d ok hc with ⟨_, h⟩ | ⟨_, h, _⟩ <;> simp [latestMon, h, hR]
    | some c =>
      obtain ⟨ha, _, r, cond, hcur, htr, hcx, hs⟩ := check_some s now d ok c hc
      have hg : gdtOk r c.gdt = true := by
        rw [hcx]; unfold gdtOk gdtOf; cases r.its <;> simp
      have h1 : c.rid = r.rid := by rw [hcx]
      have h2 : c.t = now := by rw [hcx]
      simp [latestMon, hR, hcur, hg, h1, h2, hs, afterSend]

/-! invariants: T_GenCamMin ≤ T_GenCam ≤ T_GenCamMax, timer armed iff active -/
def CamInv (s : State) : Prop :=
  T_GEN_CAM_MIN ≤ s.tGenCam ∧ s.tGenCam ≤ T_GEN_CAM_MAX ∧ s.armed = s.active

theorem afterSend_tgen (s : State) (r : Tpv) (now cond : Nat) (a b c : Bool) :
    T_GEN_CAM_MIN ≤ (afterSend s r now cond a b c).tGenCam ∧ (afterSend s r now cond a b c).tGenCam ≤ T_GEN_CAM_MAX := by
  have hmm : T_GEN_CAM_MIN ≤ T_GEN_CAM_MAX := by decide
  unfold afterSend clampT
  simp only
  split <;> (try split) <;> simp <;> omega

theorem inv_init (cfg : Cfg) : CamInv (init cfg) := by
  refine ⟨?_, ?_, rfl⟩ <;> simp only [init] <;> decide

theorem inv_step (s : State) (op : Op) (h : CamInv s) : CamInv (step s op).1 := by
  obtain ⟨h1, h2, h3⟩ := h
  cases op with
  | start =>
    by_cases ha : s.active = true
    · simp [step, ha, CamInv]; exact ⟨h1, h2, by rw [h3, ha]⟩
    · simp [step, ha, CamInv]; decide
  | stop => simp [step, CamInv]; exact ⟨h1, h2⟩
  | report r => simp [step, CamInv]; exact ⟨h1, h2, h3⟩
  | check now d ok =>
    simp only [step]
    cases hc : (check s now d ok).2 with
    | none =>
      rcases check_none s now d ok hc with ⟨_, h⟩ | ⟨ha, h, _⟩
      · rw [h]; exact ⟨h1, h2, h3⟩
      · rw [h]; exact ⟨h1, h2, by simp [ha]⟩
    | some c =>
      obtain ⟨ha, _, r, cond, _, _, _, hs⟩ := check_some s now d ok c hc
      rw [hs]
      have := afterSend_tgen { s with armed := true } r now cond (includeLf s now) (includeSpecial s now)
            (includeVlf s now (includeLf s now) (includeSpecial s now))
      refine ⟨this.1, this.2, ?_⟩
      simp [afterSend, ha]

/-! max gap -/
theorem trigger_none (s : State) (r : Tpv) (now d : Nat) (h : trigger s r now d = none) :
    ∃ t, s.lastCamTime = some t ∧ ¬ (now ≥ t + s.tGenCam ∧ now ≥ t + T_GEN_CAM_DCC) ∧
      ¬ (now ≥ t + T_GEN_CAM_DCC ∧ dynamics s r d = true) := by
  unfold trigger at h
  cases hl : s.lastCamTime with
  | none => rw [hl] at h; simp at h
  | some t =>
    rw [hl] at h
    simp only at h
    refine ⟨t, rfl, ?_, ?_⟩
    · split at h
      · simp at h
      · split at h
        · simp at h
        · assumption
    · split at h
      · simp at h
      · assumption

def MaxRel (s : State) (m : MaxGapSt) : Prop :=
  m.active = s.active ∧ m.hasCur = s.cur.isSome ∧ m.last = s.lastCamTime ∧
  T_GEN_CAM_MIN ≤ s.tGenCam ∧ s.tGenCam ≤ T_GEN_CAM_MAX ∧
  (∀ t, m.last = some t → ∃ p, m.prev = some p ∧ (m.clean = true → p ≤ t + T_GenCamMax))

theorem maxGap_sim (P : Nat) (s : State) (m : MaxGapSt) (op : Op) (hR : MaxRel s m) :
    ∃ m', maxGapMon P m (op, (step s op).2) = some m' ∧ MaxRel (step s op).1 m' := by
  obtain ⟨hA, hC, hL, h1, h2, hP⟩ := hR
  have hmin : T_GEN_CAM_MIN = 100 := by decide
  have hmax : T_GEN_CAM_MAX = 1000 := by decide
  have hdcc : T_GEN_CAM_DCC = 100 := by decide
  cases op with
  | start =>
    by_cases ha : s.active = true
    · simp [step, ha, maxGapMon, hA, MaxRel]; exact ⟨hC, hL, h1, h2, hP⟩
    · simp [step, ha, maxGapMon, hA, MaxRel, hC]; decide
  | stop => simp [step, maxGapMon, MaxRel]; exact ⟨hC, hL, h1, h2, hP⟩
  | report r => simp [step, maxGapMon, MaxRel]; exact ⟨hA, hL, h1, h2, hP⟩
  | check now d ok =>
    simp only [step]
    cases hc : (check s now d ok).2 with
    | none =>
      rcases check_none s now d ok hc with ⟨ha, h⟩ | ⟨ha, h, hwhy⟩
      · rw [h]
        simp [maxGapMon, hA, ha]; exact ⟨hA, hC, hL, h1, h2, hP⟩
      · rw [h]
        have hact : (!m.active) = false := by simp [hA, ha]
        -- a serviceable check that emitted nothing: the trigger did not fire
        have key : (m.hasCur && ok && near m.prev now P) = true →
            ∃ t, s.lastCamTime = some t ∧ now < t + T_GenCamMax := by
          intro hg
          simp only [Bool.and_eq_true] at hg
          obtain ⟨⟨hcur, hok⟩, _⟩ := hg
          rcases hwhy with hn | hn | ⟨r, hr, htn⟩
          · rw [hC, hn] at hcur; simp at hcur
          · rw [hn] at hok; simp at hok
          · obtain ⟨t, ht, hno, _⟩ := trigger_none s r now d htn
            refine ⟨t, ht, ?_⟩
            simp only [T_GenCamMax]
            omega
        by_cases hg : (m.hasCur && ok && near m.prev now P) = true
        · obtain ⟨t, ht, hlt⟩ := key hg
          have hml : m.last = some t := by rw [hL, ht]
          have hb : beyond (some t) (T_GenCamMax + P) now = false := by
            simp only [beyond]; apply decide_eq_false; omega
          have hmon : maxGapMon P m (Op.check now d ok, none) =
              some { m with prev := some now, clean := m.clean && true } := by
            simp [maxGapMon, hact, hg, hml, hb]
          refine ⟨_, hmon, ?_⟩
          refine ⟨hA, hC, hL, h1, h2, ?_⟩
          intro t' ht'
          refine ⟨now, rfl, ?_⟩
          intro _
          have : t' = t := by
            have : m.last = some t' := ht'
            rw [hml] at this; exact (Option.some.inj this).symm
          omega
        · have hgf : (m.hasCur && ok && near m.prev now P) = false := by simpa using hg
          have hmon : maxGapMon P m (Op.check now d ok, none) =
              some { m with prev := some now, clean := false } := by
            simp [maxGapMon, hact, hgf]
          refine ⟨_, hmon, ?_⟩
          refine ⟨hA, hC, hL, h1, h2, ?_⟩
          intro t ht
          exact ⟨now, rfl, fun h => by simp at h⟩
    | some c =>
      obtain ⟨ha, hok, r, cond, hcur, htr, hcx, hs⟩ := check_some s now d ok c hc
      have hact : (!m.active) = false := by simp [hA, ha]
      have hcond : (m.clean && (m.hasCur && ok && near m.prev now P)) = true →
          within m.last (T_GenCamMax + P) now = true := by
        intro hg
        simp only [Bool.and_eq_true] at hg
        obtain ⟨hcl, ⟨_, hnear⟩⟩ := hg
        cases hml : m.last with
        | none => rfl
        | some t =>
          obtain ⟨p, hp, hpb⟩ := hP t hml
          have := hpb hcl
          rw [hp] at hnear
          simp only [near, decide_eq_true_eq] at hnear
          simp only [within]
          apply decide_eq_true
          omega
      have hmon : maxGapMon P m (Op.check now d ok, some c) =
          some { m with last := some now, prev := some now, clean := true } := by
        simp only [maxGapMon, hact]
        simp only [Bool.false_eq_true, if_false]
        rw [if_pos hcond]
      refine ⟨_, hmon, ?_⟩
      rw [hs]
      have hb := afterSend_tgen { s with armed := true } r now cond (includeLf s now) (includeSpecial s now)
            (includeVlf s now (includeLf s now) (includeSpecial s now))
      refine ⟨by simp [afterSend, hA], by simp [afterSend, hC], by simp [afterSend], hb.1, hb.2, ?_⟩
      intro t ht
      have : t = now := by simp at ht; exact ht.symm
      exact ⟨now, rfl, fun _ => by omega⟩

/-! responsiveness -/
def RespRel (s : State) (m : RespSt) : Prop :=
  m.active = s.active ∧ m.cur = s.cur ∧ m.last = s.lastCamTime ∧ m.refHeading = s.lastHeading ∧
  m.refPos = s.lastHasPos ∧ m.refSpeed = s.lastSpeed

theorem circDiff_le_headingDiff (a b : Nat) : circDiff a b ≤ headingDiff a b := by
  have hw : CAM_HEADING_WRAP_CDEG = 18000 := by decide
  unfold circDiff headingDiff absDiff
  simp only [hw]
  repeat' split
  all_goals omega

theorem specDyn_dynamics (s : State) (m : RespSt) (r : Tpv) (d : Nat)
    (h4 : m.refHeading = s.lastHeading) (h5 : m.refPos = s.lastHasPos) (h6 : m.refSpeed = s.lastSpeed)
    (h : specDyn m r d = true) : dynamics s r d = true := by
  have hh : CAM_HEADING_THRESHOLD_CDEG = 400 := by decide
  have hp : CAM_POS_THRESHOLD_MM = 4000 := by decide
  have hv : CAM_SPEED_THRESHOLD_MMS = 500 := by decide
  unfold dynamics
  cases hlh : s.lastHeading with
  | none => rfl
  | some lh =>
    simp only
    unfold specDyn at h
    rw [h4, h5, h6, hlh] at h
    simp only [Bool.or_eq_true] at h ⊢
    rcases h with (h | h) | h
    · left; left
      cases hrh : r.heading with
      | none => rw [hrh] at h; simp at h
      | some hd =>
        rw [hrh] at h
        simp only [decide_eq_true_eq] at h ⊢
        have := circDiff_le_headingDiff hd lh
        omega
    · left; right
      simp only [Bool.and_eq_true, decide_eq_true_eq] at h ⊢
      exact ⟨h.1, by omega⟩
    · right
      cases hrv : r.speed with
      | none => rw [hrv] at h; simp at h
      | some v =>
        cases hlv : s.lastSpeed with
        | none => rw [hrv, hlv] at h; simp at h
        | some w =>
          rw [hrv, hlv] at h
          simp only [decide_eq_true_eq] at h ⊢
          unfold absDiff
          split <;> omega

theorem resp_sim (s : State) (m : RespSt) (op : Op) (hR : RespRel s m) :
    ∃ m', respMon m (op, (step s op).2) = some m' ∧ RespRel (step s op).1 m' := by
  obtain ⟨hA, hC, hL, h4, h5, h6⟩ := hR
  have hdcc : T_GEN_CAM_DCC = 100 := by decide
  cases op with
  | start =>
    by_cases ha : s.active = true
    · simp [step, ha, respMon, hA, RespRel]; exact ⟨hC, hL, h4, h5, h6⟩
    · simp [step, ha, respMon, hA, RespRel, hC]
  | stop => simp [step, respMon, RespRel]; exact ⟨hC, hL, h4, h5, h6⟩
  | report r => simp [step, respMon, RespRel]; exact ⟨hA, hL, h4, h5, h6⟩
  | check now d ok =>
    simp only [step]
    cases hc : (check s now d ok).2 with
    | none =>
      rcases check_none s now d ok hc with ⟨ha, h⟩ | ⟨ha, h, hwhy⟩
      · rw [h]
        exact ⟨m, by simp [respMon, hA, ha], hA, hC, hL, h4, h5, h6⟩
      · rw [h]
        have hact : (!m.active) = false := by simp [hA, ha]
        refine ⟨m, ?_, hA, hC, hL, h4, h5, h6⟩
        simp only [respMon, hact, Bool.false_eq_true, if_false]
        cases hcur : m.cur with
        | none => rfl
        | some r =>
          simp only
          rw [if_neg]
          rintro ⟨hok, hsince, hdyn⟩
          rcases hwhy with hn | hn | ⟨r', hr', htn⟩
          · rw [hC, hn] at hcur; simp at hcur
          · rw [hn] at hok; simp at hok
          · have : r' = r := by rw [hC, hr'] at hcur; exact Option.some.inj hcur
            subst this
            obtain ⟨t, ht, _, hno⟩ := trigger_none s r' now d htn
            apply hno
            rw [hL, ht] at hsince
            simp only [since, T_GenCamMin] at hsince
            have hsince := of_decide_eq_true hsince
            exact ⟨by omega, specDyn_dynamics s m r' d h4 h5 h6 hdyn⟩
    | some c =>
      obtain ⟨ha, hok, r, cond, hcur, htr, hcx, hs⟩ := check_some s now d ok c hc
      have hact : (!m.active) = false := by simp [hA, ha]
      have hmc : m.cur = some r := by rw [hC, hcur]
      rw [hs]
      refine ⟨_, by simp only [respMon, hact, Bool.false_eq_true, if_false, hmc]; rfl, ?_⟩
      cases hh : r.heading <;> cases hv : r.speed <;> simp [RespRel, afterSend, hA, hcur, h4, h5, h6, hh, hv]

end FlexModel.Fac.CamLemmas

import FlexModel.Proto
import FlexModel.Fac.CamTM
namespace FlexModel.Fac.Cam
open FlexModel.Proto

def optNat? (s : String) : Option (Option Nat) :=
  if s == "-" then some none else (nat? s).map some
def optInt? (s : String) : Option (Option Int) :=
  if s == "-" then some none else (int? s).map some

def b (x : Bool) : String := if x then "1" else "0"

def showPos : Option Pos → String
  | none => "-"
  | some p => s!"{p.1},{p.2}"

def stLine (s : State) : String :=
  s!"st {b s.active} {s.live} {b s.tracked} {s.tGenCam} {s.nGenCam} {s.camCount} {showPos s.lastPos}"

def fail? : String → Option Fail
  | "0" => some .none | "1" => some .build | "2" => some .encode | "3" => some .btp | "4" => some .ldm
  | _ => none

/-- one op per line:
  init role tw hasSpecial ldmIsolated restartHold holdSticky | start | stop | report rid its|- heading|- speed|- lat7|- lon7|-
  | expire tracked | check now dist fail      (dist = haversine distance [mm] of the model's reference position and the
  current report's position, from the harness's independent oracle: the driver runs the step with `hav := fun _ _ => dist`) -/
def camStep (s : State) (t : List String) : State × String :=
  match t with
  | ["init", role, tw, sp, iso, hold, sticky] =>
    match nat? role, nat? tw, nat? sp, nat? iso, nat? hold, nat? sticky with
    | some role, some tw, some sp, some iso, some hold, some sticky =>
      let s' := init { role := role, twoWheeler := tw != 0, hasSpecialData := sp != 0, ldmIsolated := iso != 0,
                       restartHold := hold != 0, holdSticky := sticky != 0 }
      (s', stLine s')
    | _, _, _, _, _, _ => (s, "bad-op")
  | ["start"] => let s' := (step (fun _ _ => 0) s .start).1; (s', stLine s')
  | ["stop"] => let s' := (step (fun _ _ => 0) s .stop).1; (s', stLine s')
  | ["report", rid, its, h, v, la, lo] =>
    match nat? rid, optNat? its, optNat? h, optNat? v, optInt? la, optInt? lo with
    | some rid, some its, some h, some v, some la, some lo =>
      let pos := match la, lo with | some a, some c => some (a, c) | _, _ => none
      let s' := (step (fun _ _ => 0) s (.report { rid := rid, its := its, heading := h, speed := v, pos := pos })).1
      (s', stLine s')
    | _, _, _, _, _, _ => (s, "bad-op")
  | ["expire", tr] =>
    match nat? tr with
    | some tr => let s' := (step (fun _ _ => 0) s (.expire (tr != 0))).1; (s', stLine s')
    | none => (s, "bad-op")
  | ["check", now, dist, f] =>
    match nat? now, nat? dist, fail? f with
    | some now, some dist, some f =>
      let (s', o) := step (fun _ _ => dist) s (.check now f)
      match o with
      | none => (s', "none " ++ stLine s')
      | some c =>
        (s', s!"cam {b c.lf} {b c.special} {b c.vlf} {b c.tw} {c.gdt} {c.rid} " ++ stLine s')
    | _, _, _ => (s, "bad-op")
  | _ => (s, "bad-op")

def camDomain : Domain := { σ := State, init := init, step := camStep }

end FlexModel.Fac.Cam

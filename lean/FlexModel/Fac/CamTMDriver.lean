import FlexModel.Proto
import FlexModel.Fac.CamTM
namespace FlexModel.Fac.Cam
open FlexModel.Proto

def optNat? (s : String) : Option (Option Nat) :=
  if s == "-" then some none else (nat? s).map some

def b (x : Bool) : String := if x then "1" else "0"

def stLine (s : State) : String :=
  s!"st {b s.active} {b s.armed} {s.tGenCam} {s.nGenCam} {s.camCount}"

/-- one op per line:
  init role tw hasSpecial | start | stop | report rid its|- heading|- speed|- hasPos | check now dist sendOk -/
def camStep (s : State) (t : List String) : State × String :=
  match t with
  | ["init", role, tw, sp] =>
    match nat? role, nat? tw, nat? sp with
    | some role, some tw, some sp =>
      let s' := init { role := role, twoWheeler := tw != 0, hasSpecialData := sp != 0 }
      (s', stLine s')
    | _, _, _ => (s, "bad-op")
  | ["start"] => let s' := (step s .start).1; (s', stLine s')
  | ["stop"] => let s' := (step s .stop).1; (s', stLine s')
  | ["report", rid, its, h, v, p] =>
    match nat? rid, optNat? its, optNat? h, optNat? v, nat? p with
    | some rid, some its, some h, some v, some p =>
      let s' := (step s (.report { rid := rid, its := its, heading := h, speed := v, hasPos := p != 0 })).1
      (s', stLine s')
    | _, _, _, _, _ => (s, "bad-op")
  | ["check", now, dist, ok] =>
    match nat? now, nat? dist, nat? ok with
    | some now, some dist, some ok =>
      let (s', o) := step s (.check now dist (ok != 0))
      match o with
      | none => (s', "none " ++ stLine s')
      | some c =>
        (s', s!"cam {b c.lf} {b c.special} {b c.vlf} {b c.tw} {c.gdt} {c.rid} " ++ stLine s')
    | _, _, _ => (s, "bad-op")
  | _ => (s, "bad-op")

def camDomain : Domain := { σ := State, init := init, step := camStep }

end FlexModel.Fac.Cam

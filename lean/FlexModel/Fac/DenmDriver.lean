import FlexModel.Proto
import FlexModel.Fac.Denm
import FlexModel.Fac.DenmRep
namespace FlexModel.Fac.Denm
open FlexModel.Proto

structure DState where
  tm : TM := ⟨0, 0⟩
  ldm : List LdmEntry := []

def endingStr : Ending → String
  | .finished => "fin" | .sleepValueError => "sleeperr" | .nonTerminating => "nonterm"
  | .aborted k => s!"aborted{k}"

def shapeStr : Shape → String
  | .circle => "circle" | .rect => "rect" | .ellipse => "ellipse"

/-- canonical line of one event log -/
def logLine (e : String) (log : List (Nat × GbcReq)) : String :=
  let body := " ".intercalate (log.map fun (o, q) =>
    s!"{o}:{q.denm.refTime}:{q.denm.action.station}:{q.denm.action.seq}:{q.denm.stationId}:{q.port}:{shapeStr q.shape}:{q.a}:{q.b}:{q.angle}:{q.centre.lat}:{q.centre.lon}:{q.denm.pos.lat}:{q.denm.pos.lon}")
  s!"{e} n={log.length} {body}"

/-- canonical line of an event log with hand-over outcome (`d` accepted by the transport, `x` transport raised) -/
def logLineF (e : String) (log : List (Nat × GbcReq × Bool)) : String :=
  let body := " ".intercalate (log.map fun (o, q, ok) =>
    s!"{o}:{q.denm.refTime}:{q.denm.action.station}:{q.denm.action.seq}:{q.denm.stationId}:{q.port}:{shapeStr q.shape}:{q.a}:{q.b}:{q.angle}:{q.centre.lat}:{q.centre.lon}:{q.denm.pos.lat}:{q.denm.pos.lon}:{if ok then "d" else "x"}")
  s!"{e} n={log.length} {body}"

/-- fault token `t<k>` (transport raises at repetition k) / `e<k>` (coder raises at repetition k) -/
def fault? (tok : String) : Option (Nat × Fault) :=
  let num (cs : List Char) : Option Nat :=
    if cs.isEmpty || !cs.all Char.isDigit then none else some (cs.foldl (fun a c => a * 10 + (c.toNat - 48)) 0)
  match tok.toList with
  | 't' :: cs => (num cs).map (·, Fault.transport)
  | 'e' :: cs => (num cs).map (·, Fault.encode)
  | _ => none

def faultFn (l : List (Nat × Fault)) (k : Nat) : Fault :=
  match l.find? (·.1 == k) with
  | some p => p.2
  | none => .ok

/-- events of the `reps` op: groups of four tokens `seq lat lon reps` -/
def repEvents (station : Nat) : List String → Option (List Rep.Event)
  | [] => some []
  | sq :: lat :: lon :: n :: r =>
    match nat? sq, int? lat, int? lon, nat? n, repEvents station r with
    | some sq, some lat, some lon, some n, some es => some (⟨station, sq, ⟨lat, lon⟩, n⟩ :: es)
    | _, _, _, _, _ => none
  | _ => none

/-- schedule of the `reps` op: `rr<rounds>` (round robin) or a comma-separated list of thread ids -/
def repSched (n : Nat) (tok : String) : Option (List Nat) :=
  match tok.toList with
  | 'r' :: 'r' :: cs => (nat? (String.ofList cs)).map (Rep.roundRobin n)
  | _ => (tok.splitOn ",").mapM nat?

def denmStep (s : DState) (t : List String) : DState × String :=
  match t with
  | "reps" :: scope :: station :: sched :: evs =>
    -- overlapping events at the level of the accesses of the repetition body (FlexModel/Fac/DenmRep.lean):
    -- scope `src` (as the regenerated facts say) / `local` / `shared`; prints every hand-over in order
    match (match scope with | "src" => some Rep.sourceScope | "local" => some Rep.Scope.perRepetition
                            | "shared" => some Rep.Scope.shared | _ => none), nat? station with
    | some sc, some station =>
      match repEvents station evs with
      | some es =>
        match repSched es.length sched with
        | some sch =>
          let r := Rep.run sc es sch
          let body := " ".intercalate (r.out.map fun o =>
            s!"{o.thread}:{o.aid.station}:{o.aid.seq}:{o.pos.lat}:{o.pos.lon}:{o.centre.lat}:{o.centre.lon}")
          (s, s!"{if Rep.finished es r then "fin" else "unfinished"} n={r.out.length} {body}")
        | none => (s, "bad-op")
      | none => (s, "bad-op")
    | _, _ => (s, "bad-op")
  | "eventf" :: variant :: start :: sub :: i :: T :: lat :: lon :: fs =>
    match nat? start, nat? sub, int? i, int? T, int? lat, int? lon, fs.mapM fault? with
    | some start, some sub, some i, some T, some lat, some lon, some fl =>
      if i ≤ 0 then (s, "bad-op") else
      match variant with
      | "skip" =>
        let (tm', log, e) := runEventF (fun t => t - sub) s.tm start ⟨i, T, ⟨lat, lon⟩⟩ (faultFn fl)
        ({ s with tm := tm' }, logLineF (endingStr e) log)
      | "abort" =>
        let (tm', log, e) := runEventAbort (fun t => t - sub) s.tm start ⟨i, T, ⟨lat, lon⟩⟩ (faultFn fl)
        ({ s with tm := tm' }, logLineF (endingStr e) log)
      | _ => (s, "bad-op")
    | _, _, _, _, _, _, _ => (s, "bad-op")
  | ["eventref", start, sub, i, T, lat, lon, mAt, lat2, lon2] =>
    -- OLD by-reference position: the caller overwrites its dictionary at absolute time `at` (after the repetitions
    -- due at `at` have run)
    match nat? start, nat? sub, int? i, int? T, int? lat, int? lon, nat? mAt, int? lat2, int? lon2 with
    | some start, some sub, some i, some T, some lat, some lon, some mAt, some lat2, some lon2 =>
      let (_, tm') := alloc s.tm
      let log := runEventRef (fun t => t - sub) s.tm start i T (fun t => if t ≤ mAt then ⟨lat, lon⟩ else ⟨lat2, lon2⟩)
      ({ s with tm := tm' }, logLine (endingStr (triggerOffsets i T).2) log)
    | _, _, _, _, _, _, _, _, _ => (s, "bad-op")
  | ["rxm", st, sq, ref, lat, lon, alt, due, del] =>
    -- reception into the LDM with reactive maintenance: `due` = a collection runs at this add, `del` = the
    -- collection's deletion test selects the new record (both decided by the harness from the real configuration)
    match nat? st, nat? sq, nat? ref, int? lat, int? lon, int? alt, nat? due, nat? del with
    | some st, some sq, some ref, some lat, some lon, some alt, some due, some del =>
      let d : Denm := ⟨st, ⟨st, sq⟩, ref, ⟨lat, lon⟩, 0⟩
      let l := feedLdmM (fun e => del == 1 && e == mkEntry d alt) (due == 1) [] d alt
      match l.getLast? with
      | some e => (s, s!"stored {e.appId} {e.lat} {e.lon} {e.alt} {e.radius} {e.obj.action.station} {e.obj.action.seq} {e.obj.refTime}")
      | none => (s, "collected")
    | _, _, _, _, _, _, _, _ => (s, "bad-op")
  | ["tm", st, nx] =>
    match nat? st, nat? nx with
    | some st, some nx => ({ s with tm := ⟨st, nx⟩ }, "ok")
    | _, _ => (s, "bad-op")
  | ["event", start, sub, i, T, lat, lon] =>
    match nat? start, nat? sub, int? i, int? T, int? lat, int? lon with
    | some start, some sub, some i, some T, some lat, some lon =>
      let (tm', log, e) := runEvent (fun t => t - sub) s.tm start ⟨i, T, ⟨lat, lon⟩⟩
      ({ s with tm := tm' }, logLine (endingStr e) log)
    | _, _, _, _, _, _ => (s, "bad-op")
  | ["crw", start, sub, lat, lon] =>
    match nat? start, nat? sub, int? lat, int? lon with
    | some start, some sub, some lat, some lon =>
      let (tm', log) := runCrw (fun t => t - sub) s.tm start ⟨100, 0, ⟨lat, lon⟩⟩
      ({ s with tm := tm' }, logLine "fin" log)
    | _, _, _, _ => (s, "bad-op")
  | ["stuck", n] =>
    match nat? n with
    | some n => (s, joinNat (stuckPrefix n))
    | none => (s, "bad-op")
  | ["rx", st, sq, ref, lat, lon, alt] =>
    match nat? st, nat? sq, nat? ref, int? lat, int? lon, int? alt with
    | some st, some sq, some ref, some lat, some lon, some alt =>
      let d : Denm := ⟨st, ⟨st, sq⟩, ref, ⟨lat, lon⟩, 0⟩
      let l := feedLdm s.ldm d alt
      match l.getLast? with
      | some e => ({ s with ldm := l },
          s!"{l.length} {e.appId} {e.lat} {e.lon} {e.alt} {e.radius} {e.obj.action.station} {e.obj.action.seq} {e.obj.refTime}")
      | none => (s, "bad-op")
    | _, _, _, _, _, _ => (s, "bad-op")
  | ["allocs", nx, n] =>
    -- `n` events served one after the other from counter `nx`: final counter, then the sequence numbers
    match nat? nx, nat? n with
    | some nx, some n =>
      let r := (List.range n).foldl (fun (acc : List Nat × TM) _ => let (q, tm') := alloc acc.2; (acc.1 ++ [q], tm')) ([], ⟨0, nx⟩)
      (s, joinNat (r.2.next :: r.1))
    | _, _ => (s, "bad-op")
  | ["ldmreset"] => ({ s with ldm := [] }, "ok")
  | _ => (s, "bad-op")

def denmDomain : Domain := { σ := DState, init := {}, step := denmStep }

end FlexModel.Fac.Denm

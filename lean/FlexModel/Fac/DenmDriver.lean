import FlexModel.Proto
import FlexModel.Fac.Denm
namespace FlexModel.Fac.Denm
open FlexModel.Proto

structure DState where
  tm : TM := ⟨0, 0⟩
  ldm : List LdmEntry := []

def endingStr : Ending → String
  | .finished => "fin" | .sleepValueError => "sleeperr" | .nonTerminating => "nonterm"

def shapeStr : Shape → String
  | .circle => "circle" | .rect => "rect" | .ellipse => "ellipse"

/-- canonical line of one event log -/
def logLine (e : String) (log : List (Nat × GbcReq)) : String :=
  let body := " ".intercalate (log.map fun (o, q) =>
    s!"{o}:{q.denm.refTime}:{q.denm.action.station}:{q.denm.action.seq}:{q.denm.stationId}:{q.port}:{shapeStr q.shape}:{q.a}:{q.b}:{q.angle}:{q.centre.lat}:{q.centre.lon}:{q.denm.pos.lat}:{q.denm.pos.lon}")
  s!"{e} n={log.length} {body}"

def denmStep (s : DState) (t : List String) : DState × String :=
  match t with
  | ["tm", st, nx] =>
    match nat? st, nat? nx with
    | some st, some nx => ({ s with tm := ⟨st, nx⟩ }, "ok")
    | _, _ => (s, "bad-op")
  | ["event", start, sub, i, T, lat, lon] =>
    match nat? start, nat? sub, int? i, int? T, int? lat, int? lon with
    | some start, some sub, some i, some T, some lat, some lon =>
      let (tm', log, e) := runEvent (fun t => t - sub) s.tm start ⟨i, T, ⟨lat, lon⟩⟩
      ({ s with tm := tm' }, logLine (endingStr e) log)
    | _, _, _, _, _, _ => (s, "bad-op")
  | ["crw", start, sub, lat, lon] =>
    match nat? start, nat? sub, int? lat, int? lon with
    | some start, some sub, some lat, some lon =>
      let (tm', log) := runCrw (fun t => t - sub) s.tm start ⟨100, 0, ⟨lat, lon⟩⟩
      ({ s with tm := tm' }, logLine "fin" log)
    | _, _, _, _ => (s, "bad-op")
  | ["stuck", n] =>
    match nat? n with
    | some n => (s, joinNat (stuckPrefix n))
    | none => (s, "bad-op")
  | ["rx", st, sq, ref, lat, lon, alt] =>
    match nat? st, nat? sq, nat? ref, int? lat, int? lon, int? alt with
    | some st, some sq, some ref, some lat, some lon, some alt =>
      let d : Denm := ⟨st, ⟨st, sq⟩, ref, ⟨lat, lon⟩, 0⟩
      let l := feedLdm s.ldm d alt
      match l.getLast? with
      | some e => ({ s with ldm := l },
          s!"{l.length} {e.appId} {e.lat} {e.lon} {e.alt} {e.radius} {e.obj.action.station} {e.obj.action.seq} {e.obj.refTime}")
      | none => (s, "bad-op")
    | _, _, _, _, _, _ => (s, "bad-op")
  | ["ldmreset"] => ({ s with ldm := [] }, "ok")
  | _ => (s, "bad-op")

def denmDomain : Domain := { σ := DState, init := {}, step := denmStep }

end FlexModel.Fac.Denm

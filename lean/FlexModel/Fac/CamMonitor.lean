/-
Generic "monitor" machinery used by the C10 specifications: a state machine is run over an op list and
produces one event (op, output) per op; a monitor is a partial transition function over events
(`none` = rule violated).  `accepts_of_sim` lifts a one-step simulation to all op lists (no bound).
-/
namespace FlexModel.Fac.Mon

variable {σ ι ο μ : Type}

/-- the log of a run: every op paired with what it emitted -/
def events (step : σ → ι → σ × ο) : σ → List ι → List (ι × ο)
  | _, [] => []
  | s, op :: ops => (op, (step s op).2) :: events step (step s op).1 ops

def final (step : σ → ι → σ × ο) : σ → List ι → σ
  | s, [] => s
  | s, op :: ops => final step (step s op).1 ops

/-- a monitor accepts a log iff it never gets stuck -/
def accepts (mon : μ → ι × ο → Option μ) : μ → List (ι × ο) → Bool
  | _, [] => true
  | m, e :: es =>
    match mon m e with
    | none => false
    | some m' => accepts mon m' es

theorem accepts_of_sim (step : σ → ι → σ × ο) (mon : μ → ι × ο → Option μ) (R : σ → μ → Prop)
    (h : ∀ s m op, R s m → ∃ m', mon m (op, (step s op).2) = some m' ∧ R (step s op).1 m') :
    ∀ ops s m, R s m → accepts mon m (events step s ops) = true := by
  intro ops
  induction ops with
  | nil => intro s m _; rfl
  | cons op ops ih =>
    intro s m hR
    obtain ⟨m', hm, hR'⟩ := h s m op hR
    simp only [events, accepts, hm]
    exact ih _ _ hR'

theorem inv_final (step : σ → ι → σ × ο) (Inv : σ → Prop)
    (h : ∀ s op, Inv s → Inv (step s op).1) : ∀ ops s, Inv s → Inv (final step s ops) := by
  intro ops
  induction ops with
  | nil => intro s hs; exact hs
  | cons op ops ih => intro s hs; exact ih _ (h s op hs)

end FlexModel.Fac.Mon

/-
Helper lemmas for Props/C11: Python `int()` (truncation) on exact rationals, and the specification of every
report -> data-element mapping of `FlexModel.Fac.Mapping` for the repaired guard values; the `*_good` lemmas
tie the values regenerated from the source (`Generated.Fac`) to those (a changed guard re-opens them).
-/
import FlexModel.Fac.Mapping
import Generated.Asn1Ranges

namespace FlexModel.Fac.MappingLemmas
open FlexModel.Fac.Mapping Generated.Fac

theorem trunc_nonneg {x : Rat} (h : 0 ≤ x) : trunc x = x.floor := by simp [trunc, h]
theorem trunc_neg {x : Rat} (h : x < 0) : trunc x = x.ceil := by
  have : ¬ (0 ≤ x) := by grind
  simp [trunc, this]

/-- `int()` never moves a value by a full unit -/
theorem trunc_close (x : Rat) : x - 1 < (trunc x : Rat) ∧ (trunc x : Rat) < x + 1 := by
  by_cases h : 0 ≤ x
  · rw [trunc_nonneg h]
    have h1 := Rat.floor_le x
    have h2 := Rat.lt_floor_add_one x
    have : ((x.floor + 1 : Int) : Rat) = (x.floor : Rat) + 1 := by simp [Rat.intCast_add]
    rw [this] at h2
    constructor <;> grind
  · have h' : x < 0 := by grind
    rw [trunc_neg h']
    have h1 := @Rat.le_ceil x
    have h2 := @Rat.ceil_lt x
    constructor <;> grind

/-- integer bounds carry over: a ≤ x → a ≤ int(x) (for a ≤ 0 or x ≥ 0 …) — general version -/
theorem le_trunc {x : Rat} {a : Int} (h : (a : Rat) ≤ x) : a ≤ trunc x := by
  by_cases hx : 0 ≤ x
  · rw [trunc_nonneg hx]; exact Rat.le_floor_iff.mpr h
  · have hx' : x < 0 := by grind
    rw [trunc_neg hx']
    have h1 := @Rat.le_ceil x
    have : (a : Rat) ≤ (x.ceil : Rat) := by grind
    exact Rat.intCast_le_intCast.mp this

theorem trunc_le {x : Rat} {b : Int} (h : x ≤ (b : Rat)) : trunc x ≤ b := by
  by_cases hx : 0 ≤ x
  · rw [trunc_nonneg hx]
    have h1 := Rat.floor_le x
    have : (x.floor : Rat) ≤ (b : Rat) := by grind
    exact Rat.intCast_le_intCast.mp this
  · have hx' : x < 0 := by grind
    rw [trunc_neg hx']
    have h2 := @Rat.ceil_lt x
    have : (x.ceil : Rat) < ((b + 1 : Int) : Rat) := by
      have : ((b + 1 : Int) : Rat) = (b : Rat) + 1 := by simp [Rat.intCast_add]
      grind
    have := Rat.intCast_lt_intCast.mp this
    omega

theorem trunc_nonneg_of_nonneg {x : Rat} (h : 0 ≤ x) : 0 ≤ trunc x :=
  le_trunc (a := 0) (by simpa using h)

theorem trunc_mono {x y : Rat} (h : x ≤ y) : trunc x ≤ trunc y := by
  by_cases hx : 0 ≤ x
  · have hy : 0 ≤ y := by grind
    apply le_trunc
    have := (trunc_close x)
    rw [trunc_nonneg hx] at *
    have h1 := Rat.floor_le x
    grind
  · have hx' : x < 0 := by grind
    by_cases hy : 0 ≤ y
    · have h0 : trunc x ≤ 0 := trunc_le (b := 0) (by simpa using (by grind : x ≤ 0))
      have := trunc_nonneg_of_nonneg hy
      omega
    · have hy' : y < 0 := by grind
      apply trunc_le
      rw [trunc_neg hy']
      have := @Rat.le_ceil y
      grind

/-- for a positive guard: int(x) ≥ a exactly when the measurement is ≥ a -/
theorem trunc_ge_iff {x : Rat} {a : Int} (ha : 1 ≤ a) : a ≤ trunc x ↔ (a : Rat) ≤ x := by
  constructor
  · intro h
    by_cases hx : 0 ≤ x
    · rw [trunc_nonneg hx] at h; exact Rat.le_floor_iff.mp h
    · have : trunc x ≤ 0 := trunc_le (b := 0) (by simpa using (by grind : x ≤ 0))
      omega
  · exact le_trunc

/-- for a negative guard: int(x) ≤ a exactly when the measurement is ≤ a -/
theorem trunc_le_iff {x : Rat} {a : Int} (ha : a ≤ -1) : trunc x ≤ a ↔ x ≤ (a : Rat) := by
  constructor
  · intro h
    by_cases hx : 0 ≤ x
    · have := trunc_nonneg_of_nonneg hx
      omega
    · have hx' : x < 0 := by grind
      rw [trunc_neg hx'] at h
      have h1 := @Rat.le_ceil x
      have : (x.ceil : Rat) ≤ (a : Rat) := Rat.intCast_le_intCast.mpr h
      grind
  · exact trunc_le

/-! ### the repaired parameter sets; the generated ones must equal them -/
def goodAlt : AltP := ⟨1, -100000, -100000, 3, 800000, 800000⟩


theorem altitudeG_spec (x : Rat) :
    let a := altitudeG goodAlt x
    (-100000 ≤ a ∧ a ≤ 800000) ∧
    (x ≤ -100000 → a = -100000) ∧
    (800000 ≤ x → a = 800000) ∧
    (-100000 < x → x < 800000 → (x - 1 < (a : Rat) ∧ (a : Rat) < x + 1) ∧ -100000 < a ∧ a < 800000) := by
  have hlo : trunc x ≤ -100000 ↔ x ≤ ((-100000 : Int) : Rat) := trunc_le_iff (by decide)
  have hhi : (800000 : Int) ≤ trunc x ↔ ((800000 : Int) : Rat) ≤ x := trunc_ge_iff (by decide)
  have hc := trunc_close x
  simp only [Rat.intCast_neg, Rat.intCast_ofNat] at hlo hhi
  simp only [altitudeG, goodAlt, cmpOp]
  by_cases h1 : trunc x ≤ -100000
  · have hx := hlo.mp h1
    simp only [h1, decide_true, if_true]
    refine ⟨by omega, fun _ => trivial, fun h => by grind, fun h => by grind⟩
  · simp only [h1, decide_false, Bool.false_eq_true, if_false]
    have hx : ¬ x ≤ -100000 := fun h => h1 (hlo.mpr h)
    by_cases h2 : trunc x ≥ 800000
    · have hx2 := hhi.mp h2
      simp only [h2, decide_true, if_true]
      refine ⟨by omega, fun h => absurd h hx, fun _ => trivial, fun _ h => by grind⟩
    · simp only [h2, decide_false, Bool.false_eq_true, if_false]
      have hx2 : ¬ (800000 : Rat) ≤ x := fun h => h2 (hhi.mpr h)
      refine ⟨by omega, fun h => absurd h hx, fun h => absurd h hx2, fun _ _ => ⟨hc, by omega, by omega⟩⟩

/-! ### latitude / longitude -/
theorem position_spec (x : Rat) (L : Int) (h : -(L : Rat) ≤ x ∧ x ≤ (L : Rat)) :
    (-L ≤ trunc x ∧ trunc x ≤ L) ∧ (x - 1 < (trunc x : Rat) ∧ (trunc x : Rat) < x + 1) := by
  refine ⟨⟨le_trunc (by simpa [Rat.intCast_neg] using h.1), trunc_le h.2⟩, trunc_close x⟩

/-! ### speed -/

theorem speedG_spec (x : Rat) (h0 : 0 ≤ x) :
    let v := speedG 2 16381 16382 x
    (0 ≤ v ∧ v ≤ 16382) ∧ (16382 ≤ x → v = 16382) ∧
    (x < 16382 → (x - 1 < (v : Rat) ∧ (v : Rat) < x + 1) ∧ v ≤ 16381) := by
  have hhi : (16382 : Int) ≤ trunc x ↔ ((16382 : Int) : Rat) ≤ x := trunc_ge_iff (by decide)
  have hc := trunc_close x
  have hn := trunc_nonneg_of_nonneg h0
  simp only [Rat.intCast_ofNat] at hhi
  simp only [speedG, cmpOp]
  by_cases h1 : trunc x > 16381
  · have hx := hhi.mp (by omega)
    simp only [h1, decide_true, if_true]
    exact ⟨by omega, fun _ => trivial, fun h => by grind⟩
  · simp only [h1, decide_false, Bool.false_eq_true, if_false]
    have hx : ¬ (16382 : Rat) ≤ x := fun h => h1 (by have := hhi.mpr h; omega)
    exact ⟨by omega, fun h => absurd h hx, fun _ => ⟨hc, by omega⟩⟩

/-! ### heading value -/
theorem heading_mod_good : CAM_HEADING_MOD = 3600 ∧ VAM_HEADING_MOD = 3600 := by decide

theorem headingG_spec (x : Rat) (h0 : 0 ≤ x) :
    let h := headingG 3600 x
    (0 ≤ h ∧ h ≤ 3599) ∧ (x < 3600 → x - 1 < (h : Rat) ∧ (h : Rat) < x + 1) ∧ (x = 3600 → h = 0) := by
  have hn := trunc_nonneg_of_nonneg h0
  have hc := trunc_close x
  simp only [headingG]
  have : ¬ (3600 : Nat) = 0 := by decide
  simp only [this, if_false]
  refine ⟨by omega, fun hx => ?_, fun hx => ?_⟩
  · have : trunc x ≤ 3599 := by
      have h1 : trunc x < 3600 := by
        by_cases hh : (3600 : Int) ≤ trunc x
        · have := (trunc_ge_iff (x := x) (a := 3600) (by decide)).mp hh
          simp only [Rat.intCast_ofNat] at this
          grind
        · omega
      omega
    have hm : trunc x % ((3600 : Nat) : Int) = trunc x := by omega
    rw [hm]; exact hc
  · subst hx
    decide

/-! ### heading confidence -/
theorem headingConf_params_good :
    (HEADING_CONF_OP, HEADING_CONF_GUARD_X10, HEADING_CONF_OUT_OF_RANGE, HEADING_CONF_FLOOR) = (1, 125, 126, 1) := by decide

theorem headingConfG_spec (epd epd10 : Rat) (h0 : 0 ≤ epd10) (hmono : epd ≤ 25 / 2 → epd10 ≤ 125) :
    let c := headingConfG 1 125 126 1 epd epd10
    (1 ≤ c ∧ c ≤ 126) ∧ (25 / 2 < epd → c = 126) ∧
    (epd ≤ 25 / 2 → c ≤ 125 ∧ (1 ≤ epd10 → epd10 - 1 < (c : Rat) ∧ (c : Rat) < epd10 + 1) ∧ (epd10 < 1 → c = 1)) := by
  have hn := trunc_nonneg_of_nonneg h0
  have hc := trunc_close epd10
  have hg : ((125 : Int) : Rat) / 10 = 25 / 2 := by decide +kernel
  simp only [headingConfG, cmpOpR, hg]
  by_cases h1 : epd ≤ 25 / 2
  · have hle : trunc epd10 ≤ 125 := trunc_le (b := 125) (by simpa using hmono h1)
    simp only [h1, decide_true, if_true]
    have : ¬ ((1 : Int) = 0) := by decide
    simp only [this, if_false]
    refine ⟨by omega, fun h => by grind, fun _ => ⟨by omega, fun h1' => ?_, fun hlt => ?_⟩⟩
    · have : 1 ≤ trunc epd10 := le_trunc (a := 1) (by simpa using h1')
      have hm : max 1 (trunc epd10) = trunc epd10 := by omega
      rw [hm]; exact hc
    · have : trunc epd10 ≤ 0 := by
        by_cases hh : (1 : Int) ≤ trunc epd10
        · have := (trunc_ge_iff (x := epd10) (a := 1) (by decide)).mp hh
          simp only [Rat.intCast_ofNat] at this
          grind
        · omega
      omega
  · simp only [h1, decide_false, Bool.false_eq_true, if_false]
    exact ⟨by omega, fun _ => trivial, fun h => absurd h (by simp)⟩

/-! ### position confidence ellipse -/

def goodAxis (x : Rat) : Int := semiAxisG 1 2 4093 4094 1 x


theorem goodAxis_spec (x : Rat) :
    let r := goodAxis x
    (1 ≤ r ∧ r ≤ 4094) ∧ (4094 ≤ x → r = 4094) ∧
    (1 ≤ x → x < 4094 → (x - 1 < (r : Rat) ∧ (r : Rat) < x + 1) ∧ r ≤ 4093) ∧ (x < 1 → r = 1) := by
  have hhi : (4094 : Int) ≤ trunc x ↔ ((4094 : Int) : Rat) ≤ x := trunc_ge_iff (by decide)
  have hone : (1 : Int) ≤ trunc x ↔ ((1 : Int) : Rat) ≤ x := trunc_ge_iff (by decide)
  have hc := trunc_close x
  simp only [Rat.intCast_ofNat] at hhi hone
  simp only [goodAxis, semiAxisG, cmpOp]
  have : ¬ ((1 : Nat) = 0) := by decide
  simp only [this, if_false]
  by_cases h1 : trunc x > 4093
  · have hx := hhi.mp (by omega)
    simp only [h1, decide_true, if_true]
    exact ⟨by omega, fun _ => trivial, fun _ h => by grind, fun h => by grind⟩
  · simp only [h1, decide_false, Bool.false_eq_true, if_false]
    have hx : ¬ (4094 : Rat) ≤ x := fun h => h1 (by have := hhi.mpr h; omega)
    refine ⟨by omega, fun h => absurd h hx, fun h1' _ => ?_, fun hlt => ?_⟩
    · have : 1 ≤ trunc x := hone.mpr h1'
      have hm : max 1 (trunc x) = trunc x := by omega
      rw [hm]; exact ⟨hc, by omega⟩
    · have : ¬ (1 : Int) ≤ trunc x := fun h => by have := hone.mp h; grind
      omega

theorem goodAxis_mono {x y : Rat} (h : x ≤ y) : goodAxis x ≤ goodAxis y := by
  have := trunc_mono h
  simp only [goodAxis, semiAxisG, cmpOp]
  have h1 : ¬ ((1 : Nat) = 0) := by decide
  simp only [h1, if_false]
  by_cases a : trunc x > 4093 <;> by_cases b : trunc y > 4093 <;> simp only [a, b, decide_true, decide_false, if_true, if_false, Bool.false_eq_true] <;> omega

/-- semi-major ≥ semi-minor, whatever the two error estimates are (the scaling `e ↦ e*100` in double precision is
monotone: assumption `hmono`) -/
theorem ellipse_major_ge_minor (epx epy : Err)
    (hmono : (epx.raw ≤ epy.raw → epx.x100 ≤ epy.x100) ∧ (epy.raw ≤ epx.raw → epy.x100 ≤ epx.x100)) :
    (ellipseWith goodAxis epx epy).minor ≤ (ellipseWith goodAxis epx epy).major := by
  simp only [ellipseWith]
  by_cases h : epy.raw ≥ epx.raw
  · simp only [h, if_true]; exact goodAxis_mono (hmono.1 h)
  · simp only [h, if_false]; exact goodAxis_mono (hmono.2 (by grind))

/-! ### altitude confidence -/
theorem altConfFrom_mem (names : List String) (ho : "outOfRange" ∈ names) :
    ∀ (L : List (Rat × String)), (∀ p ∈ L, p.2 ∈ names) → ∀ e, altConfFrom L e ∈ names
  | [], _, _ => ho
  | (k, n) :: rest, h, e => by
    simp only [altConfFrom]
    split
    · exact h (k, n) (List.mem_cons_self ..)
    · exact altConfFrom_mem names ho rest (fun p hp => h p (List.mem_cons_of_mem _ hp)) e

theorem altConf_encodable (epv : Option Rat) : altConf epv ∈ Generated.Asn1.Cam.AltitudeConfidence_names := by
  cases epv with
  | none => decide
  | some e =>
    exact altConfFrom_mem _ (by decide) ALT_CONF_LADDER (by decide) e

/-- the class written is a true upper bound of the error estimate, and the tightest one of the ladder -/
theorem altConfFrom_sound :
    ∀ (L : List (Rat × String)) (e : Rat),
      (∃ k, (k, altConfFrom L e) ∈ L ∧ e < k) ∨ (altConfFrom L e = "outOfRange" ∧ ∀ p ∈ L, p.1 ≤ e)
  | [], _ => Or.inr ⟨rfl, by simp⟩
  | (k, n) :: rest, e => by
    simp only [altConfFrom]
    by_cases h : e < k
    · simp only [h, if_true]
      exact Or.inl ⟨k, List.mem_cons_self .., h⟩
    · simp only [h, if_false]
      have hk : k ≤ e := by grind
      rcases altConfFrom_sound rest e with ⟨k', hm, hlt⟩ | ⟨ho, hall⟩
      · exact Or.inl ⟨k', List.mem_cons_of_mem _ hm, hlt⟩
      · refine Or.inr ⟨ho, ?_⟩
        intro p hp
        rcases List.mem_cons.mp hp with rfl | hp'
        · exact hk
        · exact hall p hp'

/-! ### generationDeltaTime -/
theorem gdt_range (g : Int) : 0 ≤ gdt g ∧ gdt g ≤ 65535 := by
  simp only [gdt]; omega

theorem gdt_reconstruct (g r : Int) (hg : (ITS_EPOCH_MS : Int) - ELAPSED_MILLISECONDS ≤ g) (h1 : g ≤ r) (h2 : r < g + 65536) :
    reconstruct (gdt g) r = g := by
  have he : (ITS_EPOCH_MS : Int) = 1072915200000 := by decide
  have hl : (ELAPSED_MILLISECONDS : Int) = 5000 := by decide
  simp only [reconstruct, gdt, he, hl] at *
  have hnn : 0 ≤ r - 1072915200000 + 5000 := by omega
  rw [Int.tdiv_eq_ediv_of_nonneg hnn]
  split <;> omega

/-! ### guards regenerated from the source: any guard equivalent to the repaired one is accepted -/

/-- upper guards that behave like `v ≥ c` when the code written is `c` itself -/
def hiOk (op : Nat) (guard c : Int) : Bool :=
  (op == 3 && (guard == c || guard == c + 1)) || (op == 2 && (guard == c - 1 || guard == c))
/-- lower guards that behave like `v ≤ c` when the code written is `c` itself -/
def loOk (op : Nat) (guard c : Int) : Bool :=
  (op == 1 && (guard == c || guard == c - 1)) || (op == 0 && (guard == c + 1 || guard == c))

theorem hiOk_eq {op : Nat} {guard c : Int} (h : hiOk op guard c = true) (v : Int) :
    (if cmpOp op v guard then c else v) = (if cmpOp 3 v c then c else v) := by
  simp only [hiOk, Bool.or_eq_true, Bool.and_eq_true, beq_iff_eq] at h
  rcases h with ⟨ho, hg | hg⟩ | ⟨ho, hg | hg⟩ <;> subst ho <;> rw [hg] <;> simp only [cmpOp] <;>
    (by_cases h1 : v ≥ c <;> by_cases h2 : v ≥ c + 1 <;> by_cases h3 : v > c - 1 <;> by_cases h4 : v > c <;>
      simp only [h1, h2, h3, h4, decide_true, decide_false, if_true, if_false, Bool.false_eq_true] <;> omega)

theorem loOk_eq {op : Nat} {guard c : Int} (h : loOk op guard c = true) (v : Int) (e : Int) :
    (if cmpOp op v guard then c else e) = (if cmpOp 1 v c then c else e) ∨ v = c := by
  simp only [loOk, Bool.or_eq_true, Bool.and_eq_true, beq_iff_eq] at h
  rcases h with ⟨ho, hg | hg⟩ | ⟨ho, hg | hg⟩ <;> subst ho <;> rw [hg] <;> simp only [cmpOp] <;>
    (by_cases h1 : v ≤ c <;> by_cases h2 : v ≤ c - 1 <;> by_cases h3 : v < c + 1 <;> by_cases h4 : v < c <;>
      simp only [h1, h2, h3, h4, decide_true, decide_false, if_true, if_false, Bool.false_eq_true, true_or] <;> omega)

def altOk (p : AltP) : Bool :=
  p.loCode == -100000 && p.hiCode == 800000 && loOk p.loOp p.loGuard (-100000) && hiOk p.hiOp p.hiGuard 800000

theorem altitudeG_congr {p : AltP} (h : altOk p = true) (x : Rat) : altitudeG p x = altitudeG goodAlt x := by
  simp only [altOk, Bool.and_eq_true, beq_iff_eq] at h
  obtain ⟨⟨⟨hl, hh⟩, hlo⟩, hhi⟩ := h
  simp only [altitudeG, goodAlt, hl, hh]
  rw [hiOk_eq hhi (trunc x)]
  rcases loOk_eq hlo (trunc x) (if cmpOp 3 (trunc x) 800000 = true then 800000 else trunc x) with h | h
  · exact h
  · rw [h]; simp [cmpOp]

theorem camAlt_ok : altOk camAlt = true := by decide
theorem vamAlt_ok : altOk vamAlt = true := by decide
theorem denmAlt_ok : altOk denmAlt = true := by decide

def speedOk (op : Nat) (guard code : Int) : Bool := code == 16382 && hiOk op guard 16382

theorem speedG_congr {op : Nat} {guard code : Int} (h : speedOk op guard code = true) (x : Rat) :
    speedG op guard code x = speedG 2 16381 16382 x := by
  simp only [speedOk, Bool.and_eq_true, beq_iff_eq] at h
  obtain ⟨hc, hg⟩ := h
  have h2 : hiOk 2 16381 16382 = true := by decide
  simp only [speedG, hc]
  rw [hiOk_eq hg, hiOk_eq h2]

theorem speed_ok : speedOk CAM_SPEED_OP CAM_SPEED_GUARD CAM_SPEED_CODE = true ∧
    speedOk VAM_SPEED_OP VAM_SPEED_GUARD VAM_SPEED_CODE = true := by decide

def axisOk (clamped op : Nat) (guard code floor : Int) : Bool :=
  clamped == 1 && code == 4094 && floor == 1 && hiOk op guard 4094

theorem semiAxisG_congr {clamped op : Nat} {guard code floor : Int} (h : axisOk clamped op guard code floor = true) (x : Rat) :
    semiAxisG clamped op guard code floor x = goodAxis x := by
  simp only [axisOk, Bool.and_eq_true, beq_iff_eq] at h
  obtain ⟨⟨⟨h1, hc⟩, hf⟩, hg⟩ := h
  have h2 : hiOk 2 4093 4094 = true := by decide
  have e1 := hiOk_eq hg (trunc x)
  have e2 := hiOk_eq h2 (trunc x)
  simp only [goodAxis, semiAxisG, h1, hc, hf]
  have hne : ¬ ((1 : Nat) = 0) := by decide
  simp only [hne, if_false]
  by_cases a : cmpOp op (trunc x) guard = true <;> by_cases b : cmpOp 2 (trunc x) 4093 = true <;>
    simp only [a, b, if_true, if_false, Bool.false_eq_true] at e1 e2 ⊢ <;>
    (by_cases c : cmpOp 3 (trunc x) 4094 = true <;> simp only [c, if_true, if_false, Bool.false_eq_true] at e1 e2 <;> omega)

theorem semiAxis_ok : axisOk SEMI_AXIS_CLAMPED SEMI_AXIS_OP SEMI_AXIS_GUARD SEMI_AXIS_CODE SEMI_AXIS_FLOOR = true ∧
    VAM_ELLIPSE_OWN = 0 := by decide

theorem semiAxis_eq : semiAxis = goodAxis := by
  funext x; exact semiAxisG_congr semiAxis_ok.1 x

end FlexModel.Fac.MappingLemmas

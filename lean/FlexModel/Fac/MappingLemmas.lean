/-
Helper lemmas for Props/C11: Python `int()` (truncation) on exact rationals, and the specification of every
report -> data-element mapping of `FlexModel.Fac.Mapping` for the repaired guard values; the `*_good` lemmas
tie the values regenerated from the source (`Generated.Fac`) to those (a changed guard re-opens them).
-/
import FlexModel.Fac.Mapping
import Generated.Asn1Ranges

namespace FlexModel.Fac.MappingLemmas
open FlexModel.Fac.Mapping Generated.Fac Generated.Fac11

theorem trunc_nonneg {x : Rat} (h : 0 ≤ x) : trunc x = x.floor := by simp [trunc, h]
theorem trunc_neg {x : Rat} (h : x < 0) : trunc x = x.ceil := by
  have : ¬ (0 ≤ x) := by grind
  simp [trunc, this]

/-- `int()` never moves a value by a full unit -/
theorem trunc_close (x : Rat) : x - 1 < (trunc x : Rat) ∧ (trunc x : Rat) < x + 1 := by
  by_cases h : 0 ≤ x
  · rw [trunc_nonneg h]
    have h1 := Rat.floor_le x
    have h2 := Rat.lt_floor_add_one x
    have : ((x.floor + 1 : Int) : Rat) = (x.floor : Rat) + 1 := by simp [Rat.intCast_add]
    rw [this] at h2
    constructor <;> grind
  · have h' : x < 0 := by grind
    rw [trunc_neg h']
    have h1 := @Rat.le_ceil x
    have h2 := @Rat.ceil_lt x
    constructor <;> grind

/-- integer bounds carry over: a ≤ x → a ≤ int(x) (for a ≤ 0 or x ≥ 0 …) — general version -/
theorem le_trunc {x : Rat} {a : Int} (h : (a : Rat) ≤ x) : a ≤ trunc x := by
  by_cases hx : 0 ≤ x
  · rw [trunc_nonneg hx]; exact Rat.le_floor_iff.mpr h
  · have hx' : x < 0 := by grind
    rw [trunc_neg hx']
    have h1 := @Rat.le_ceil x
    have : (a : Rat) ≤ (x.ceil : Rat) := by grind
    exact Rat.intCast_le_intCast.mp this

theorem trunc_le {x : Rat} {b : Int} (h : x ≤ (b : Rat)) : trunc x ≤ b := by
  by_cases hx : 0 ≤ x
  · rw [trunc_nonneg hx]
    have h1 := Rat.floor_le x
    have : (x.floor : Rat) ≤ (b : Rat) := by grind
    exact Rat.intCast_le_intCast.mp this
  · have hx' : x < 0 := by grind
    rw [trunc_neg hx']
    have h2 := @Rat.ceil_lt x
    have : (x.ceil : Rat) < ((b + 1 : Int) : Rat) := by
      have : ((b + 1 : Int) : Rat) = (b : Rat) + 1 := by simp [Rat.intCast_add]
      grind
    have := Rat.intCast_lt_intCast.mp this
    omega

theorem trunc_nonneg_of_nonneg {x : Rat} (h : 0 ≤ x) : 0 ≤ trunc x :=
  le_trunc (a := 0) (by simpa using h)

theorem trunc_mono {x y : Rat} (h : x ≤ y) : trunc x ≤ trunc y := by
  by_cases hx : 0 ≤ x
  · have hy : 0 ≤ y := by grind
    apply le_trunc
    have := (trunc_close x)
    rw [trunc_nonneg hx] at *
    have h1 := Rat.floor_le x
    grind
  · have hx' : x < 0 := by grind
    by_cases hy : 0 ≤ y
    · have h0 : trunc x ≤ 0 := trunc_le (b := 0) (by simpa using (by grind : x ≤ 0))
      have := trunc_nonneg_of_nonneg hy
      omega
    · have hy' : y < 0 := by grind
      apply trunc_le
      rw [trunc_neg hy']
      have := @Rat.le_ceil y
      grind

/-- for a positive guard: int(x) ≥ a exactly when the measurement is ≥ a -/
theorem trunc_ge_iff {x : Rat} {a : Int} (ha : 1 ≤ a) : a ≤ trunc x ↔ (a : Rat) ≤ x := by
  constructor
  · intro h
    by_cases hx : 0 ≤ x
    · rw [trunc_nonneg hx] at h; exact Rat.le_floor_iff.mp h
    · have : trunc x ≤ 0 := trunc_le (b := 0) (by simpa using (by grind : x ≤ 0))
      omega
  · exact le_trunc

/-- for a negative guard: int(x) ≤ a exactly when the measurement is ≤ a -/
theorem trunc_le_iff {x : Rat} {a : Int} (ha : a ≤ -1) : trunc x ≤ a ↔ x ≤ (a : Rat) := by
  constructor
  · intro h
    by_cases hx : 0 ≤ x
    · have := trunc_nonneg_of_nonneg hx
      omega
    · have hx' : x < 0 := by grind
      rw [trunc_neg hx'] at h
      have h1 := @Rat.le_ceil x
      have : (x.ceil : Rat) ≤ (a : Rat) := Rat.intCast_le_intCast.mpr h
      grind
  · exact trunc_le

/-! ### the repaired parameter sets; the generated ones must equal them -/
def goodAlt : AltP := ⟨1, -100000, -100000, 3, 800000, 800000⟩


theorem altitudeG_spec (x : Rat) :
    let a := altitudeG goodAlt x
    (-100000 ≤ a ∧ a ≤ 800000) ∧
    (x ≤ -100000 → a = -100000) ∧
    (800000 ≤ x → a = 800000) ∧
    (-100000 < x → x < 800000 → (x - 1 < (a : Rat) ∧ (a : Rat) < x + 1) ∧ -100000 < a ∧ a < 800000) := by
  have hlo : trunc x ≤ -100000 ↔ x ≤ ((-100000 : Int) : Rat) := trunc_le_iff (by decide)
  have hhi : (800000 : Int) ≤ trunc x ↔ ((800000 : Int) : Rat) ≤ x := trunc_ge_iff (by decide)
  have hc := trunc_close x
  simp only [Rat.intCast_neg, Rat.intCast_ofNat] at hlo hhi
  simp only [altitudeG, goodAlt, cmpOp]
  by_cases h1 : trunc x ≤ -100000
  · have hx := hlo.mp h1
    simp only [h1, decide_true, if_true]
    refine ⟨by omega, fun _ => trivial, fun h => by grind, fun h => by grind⟩
  · simp only [h1, decide_false, Bool.false_eq_true, if_false]
    have hx : ¬ x ≤ -100000 := fun h => h1 (hlo.mpr h)
    by_cases h2 : trunc x ≥ 800000
    · have hx2 := hhi.mp h2
      simp only [h2, decide_true, if_true]
      refine ⟨by omega, fun h => absurd h hx, fun _ => trivial, fun _ h => by grind⟩
    · simp only [h2, decide_false, Bool.false_eq_true, if_false]
      have hx2 : ¬ (800000 : Rat) ≤ x := fun h => h2 (hhi.mpr h)
      refine ⟨by omega, fun h => absurd h hx, fun h => absurd h hx2, fun _ _ => ⟨hc, by omega, by omega⟩⟩

/-! ### latitude / longitude -/
theorem position_spec (x : Rat) (L : Int) (h : -(L : Rat) ≤ x ∧ x ≤ (L : Rat)) :
    (-L ≤ trunc x ∧ trunc x ≤ L) ∧ (x - 1 < (trunc x : Rat) ∧ (trunc x : Rat) < x + 1) := by
  refine ⟨⟨le_trunc (by simpa [Rat.intCast_neg] using h.1), trunc_le h.2⟩, trunc_close x⟩

/-! ### speed -/

theorem speedG_spec (x : Rat) (h0 : 0 ≤ x) :
    let v := speedG 2 16381 16382 x
    (0 ≤ v ∧ v ≤ 16382) ∧ (16382 ≤ x → v = 16382) ∧
    (x < 16382 → (x - 1 < (v : Rat) ∧ (v : Rat) < x + 1) ∧ v ≤ 16381) := by
  have hhi : (16382 : Int) ≤ trunc x ↔ ((16382 : Int) : Rat) ≤ x := trunc_ge_iff (by decide)
  have hc := trunc_close x
  have hn := trunc_nonneg_of_nonneg h0
  simp only [Rat.intCast_ofNat] at hhi
  simp only [speedG, cmpOp]
  by_cases h1 : trunc x > 16381
  · have hx := hhi.mp (by omega)
    simp only [h1, decide_true, if_true]
    exact ⟨by omega, fun _ => trivial, fun h => by grind⟩
  · simp only [h1, decide_false, Bool.false_eq_true, if_false]
    have hx : ¬ (16382 : Rat) ≤ x := fun h => h1 (by have := hhi.mpr h; omega)
    exact ⟨by omega, fun h => absurd h hx, fun _ => ⟨hc, by omega⟩⟩

/-! ### heading value -/
theorem heading_mod_good : CAM_HEADING_MOD = 3600 ∧ VAM_HEADING_MOD = 3600 := by decide

theorem headingG_spec (x : Rat) (h0 : 0 ≤ x) :
    let h := headingG 3600 x
    (0 ≤ h ∧ h ≤ 3599) ∧ (x < 3600 → x - 1 < (h : Rat) ∧ (h : Rat) < x + 1) ∧ (x = 3600 → h = 0) := by
  have hn := trunc_nonneg_of_nonneg h0
  have hc := trunc_close x
  simp only [headingG]
  have : ¬ (3600 : Nat) = 0 := by decide
  simp only [this, if_false]
  refine ⟨by omega, fun hx => ?_, fun hx => ?_⟩
  · have : trunc x ≤ 3599 := by
      have h1 : trunc x < 3600 := by
        by_cases hh : (3600 : Int) ≤ trunc x
        · have := (trunc_ge_iff (x := x) (a := 3600) (by decide)).mp hh
          simp only [Rat.intCast_ofNat] at this
          grind
        · omega
      omega
    have hm : trunc x % ((3600 : Nat) : Int) = trunc x := by omega
    rw [hm]; exact hc
  · subst hx
    decide

/-! ### heading confidence -/
theorem headingConf_params_good :
    (HEADING_CONF_OP, HEADING_CONF_GUARD_X10, HEADING_CONF_OUT_OF_RANGE, HEADING_CONF_FLOOR) = (1, 125, 126, 1) := by decide

theorem headingConfG_spec (epd epd10 : Rat) (h0 : 0 ≤ epd10) (hmono : epd ≤ 25 / 2 → epd10 ≤ 125) :
    let c := headingConfG 1 125 126 1 epd epd10
    (1 ≤ c ∧ c ≤ 126) ∧ (25 / 2 < epd → c = 126) ∧
    (epd ≤ 25 / 2 → c ≤ 125 ∧ (1 ≤ epd10 → epd10 - 1 < (c : Rat) ∧ (c : Rat) < epd10 + 1) ∧ (epd10 < 1 → c = 1)) := by
  have hn := trunc_nonneg_of_nonneg h0
  have hc := trunc_close epd10
  have hg : ((125 : Int) : Rat) / 10 = 25 / 2 := by decide +kernel
  simp only [headingConfG, cmpOpR, hg]
  by_cases h1 : epd ≤ 25 / 2
  · have hle : trunc epd10 ≤ 125 := trunc_le (b := 125) (by simpa using hmono h1)
    simp only [h1, decide_true, if_true]
    have : ¬ ((1 : Int) = 0) := by decide
    simp only [this, if_false]
    refine ⟨by omega, fun h => by grind, fun _ => ⟨by omega, fun h1' => ?_, fun hlt => ?_⟩⟩
    · have : 1 ≤ trunc epd10 := le_trunc (a := 1) (by simpa using h1')
      have hm : max 1 (trunc epd10) = trunc epd10 := by omega
      rw [hm]; exact hc
    · have : trunc epd10 ≤ 0 := by
        by_cases hh : (1 : Int) ≤ trunc epd10
        · have := (trunc_ge_iff (x := epd10) (a := 1) (by decide)).mp hh
          simp only [Rat.intCast_ofNat] at this
          grind
        · omega
      omega
  · simp only [h1, decide_false, Bool.false_eq_true, if_false]
    exact ⟨by omega, fun _ => trivial, fun h => absurd h (by simp)⟩

/-! ### position confidence ellipse -/

def goodAxis (x : Rat) : Int := semiAxisG 1 2 4093 4094 1 x


theorem goodAxis_spec (x : Rat) :
    let r := goodAxis x
    (1 ≤ r ∧ r ≤ 4094) ∧ (4094 ≤ x → r = 4094) ∧
    (1 ≤ x → x < 4094 → (x - 1 < (r : Rat) ∧ (r : Rat) < x + 1) ∧ r ≤ 4093) ∧ (x < 1 → r = 1) := by
  have hhi : (4094 : Int) ≤ trunc x ↔ ((4094 : Int) : Rat) ≤ x := trunc_ge_iff (by decide)
  have hone : (1 : Int) ≤ trunc x ↔ ((1 : Int) : Rat) ≤ x := trunc_ge_iff (by decide)
  have hc := trunc_close x
  simp only [Rat.intCast_ofNat] at hhi hone
  simp only [goodAxis, semiAxisG, cmpOp]
  have : ¬ ((1 : Nat) = 0) := by decide
  simp only [this, if_false]
  by_cases h1 : trunc x > 4093
  · have hx := hhi.mp (by omega)
    simp only [h1, decide_true, if_true]
    exact ⟨by omega, fun _ => trivial, fun _ h => by grind, fun h => by grind⟩
  · simp only [h1, decide_false, Bool.false_eq_true, if_false]
    have hx : ¬ (4094 : Rat) ≤ x := fun h => h1 (by have := hhi.mpr h; omega)
    refine ⟨by omega, fun h => absurd h hx, fun h1' _ => ?_, fun hlt => ?_⟩
    · have : 1 ≤ trunc x := hone.mpr h1'
      have hm : max 1 (trunc x) = trunc x := by omega
      rw [hm]; exact ⟨hc, by omega⟩
    · have : ¬ (1 : Int) ≤ trunc x := fun h => by have := hone.mp h; grind
      omega

theorem goodAxis_mono {x y : Rat} (h : x ≤ y) : goodAxis x ≤ goodAxis y := by
  have := trunc_mono h
  simp only [goodAxis, semiAxisG, cmpOp]
  have h1 : ¬ ((1 : Nat) = 0) := by decide
  simp only [h1, if_false]
  by_cases a : trunc x > 4093 <;> by_cases b : trunc y > 4093 <;> simp only [a, b, decide_true, decide_false, if_true, if_false, Bool.false_eq_true] <;> omega

/-- semi-major ≥ semi-minor, whatever the two error estimates are (the scaling `e ↦ e*100` in double precision is
monotone: assumption `hmono`) -/
theorem ellipse_major_ge_minor (epx epy : Err)
    (hmono : (epx.raw ≤ epy.raw → epx.x100 ≤ epy.x100) ∧ (epy.raw ≤ epx.raw → epy.x100 ≤ epx.x100)) :
    (ellipseWith goodAxis epx epy).minor ≤ (ellipseWith goodAxis epx epy).major := by
  simp only [ellipseWith]
  by_cases h : epy.raw ≥ epx.raw
  · simp only [h, if_true]; exact goodAxis_mono (hmono.1 h)
  · simp only [h, if_false]; exact goodAxis_mono (hmono.2 (by grind))

/-! ### altitude confidence -/
theorem altConfFromG_mem (op : Nat) (names : List String) (ho : "outOfRange" ∈ names) :
    ∀ (L : List (Rat × String)), (∀ p ∈ L, p.2 ∈ names) → ∀ e, altConfFromG op L e ∈ names
  | [], _, _ => ho
  | (k, n) :: rest, h, e => by
    simp only [altConfFromG]
    split
    · exact h (k, n) (List.mem_cons_self ..)
    · exact altConfFromG_mem op names ho rest (fun p hp => h p (List.mem_cons_of_mem _ hp)) e

theorem altConf_encodable (epv : Option Rat) : altConf epv ∈ Generated.Asn1.Cam.AltitudeConfidence_names := by
  cases epv with
  | none => decide
  | some e =>
    exact altConfFromG_mem _ _ (by decide) ALT_CONF_LADDER (by decide) e

/-- the regenerated operator of `create_altitude_confidence` is `<=` (the CDD's "equal to or less than") -/
theorem altConf_op_good : ALT_CONF_OP = 1 := by decide

/-- on a ladder with increasing bounds the class chosen (CDD reading, `<=`) has the LEAST bound that is ≥ the
estimate: `e ≤ k`, every smaller bound of the ladder is `< e`, and the name written is the one listed with `k` -/
theorem altBound_some :
    ∀ (L : List (Rat × String)), L.Pairwise (fun a b => a.1 < b.1) → ∀ (e k : Rat),
      altBoundFromG 1 L e = some k → e ≤ k ∧ (∀ p ∈ L, p.1 < k → p.1 < e) ∧ (k, altConfFromG 1 L e) ∈ L
  | [], _, _, _, h => by simp [altBoundFromG] at h
  | (k0, n0) :: rest, hs, e, k, h => by
    have hrest := (List.pairwise_cons.mp hs)
    simp only [altBoundFromG, altConfFromG, cmpOpR] at h ⊢
    by_cases hle : e ≤ k0
    · simp only [hle, decide_true, if_true, Option.some.injEq] at h ⊢
      subst h
      refine ⟨hle, ?_, List.mem_cons_self ..⟩
      intro p hp hlt
      rcases List.mem_cons.mp hp with rfl | hp'
      · exact absurd hlt (by grind)
      · have := hrest.1 p hp'
        exact absurd hlt (by grind)
    · simp only [hle, decide_false, Bool.false_eq_true, if_false] at h ⊢
      obtain ⟨h1, h2, h3⟩ := altBound_some rest hrest.2 e k h
      refine ⟨h1, ?_, List.mem_cons_of_mem _ h3⟩
      intro p hp hlt
      rcases List.mem_cons.mp hp with rfl | hp'
      · grind
      · exact h2 p hp' hlt

/-- no class applies exactly when the estimate exceeds every bound; the result is then `outOfRange` -/
theorem altBound_none :
    ∀ (L : List (Rat × String)) (e : Rat),
      altBoundFromG 1 L e = none → altConfFromG 1 L e = "outOfRange" ∧ ∀ p ∈ L, p.1 < e
  | [], _, _ => ⟨rfl, by simp⟩
  | (k0, n0) :: rest, e, h => by
    simp only [altBoundFromG, altConfFromG, cmpOpR] at h ⊢
    by_cases hle : e ≤ k0
    · simp [hle] at h
    · simp only [hle, decide_false, Bool.false_eq_true, if_false] at h ⊢
      obtain ⟨h1, h2⟩ := altBound_none rest e h
      refine ⟨h1, ?_⟩
      intro p hp
      rcases List.mem_cons.mp hp with rfl | hp'
      · grind
      · exact h2 p hp'

/-- an estimate not above some bound of the ladder gets a class -/
theorem altBound_isSome :
    ∀ (L : List (Rat × String)) (e : Rat) (p : Rat × String), p ∈ L → e ≤ p.1 → (altBoundFromG 1 L e).isSome = true
  | [], _, _, hp, _ => by simp at hp
  | (k0, n0) :: rest, e, p, hp, hle => by
    simp only [altBoundFromG, cmpOpR]
    by_cases h0 : e ≤ k0
    · simp [h0]
    · simp only [h0, decide_false, Bool.false_eq_true, if_false]
      rcases List.mem_cons.mp hp with rfl | hp'
      · exact absurd hle h0
      · exact altBound_isSome rest e p hp' hle

theorem ladder_increasing : ALT_CONF_LADDER.Pairwise (fun a b => a.1 < b.1) := by decide +kernel

/-! ### generationDeltaTime -/
theorem gdt_range (g : Int) : 0 ≤ gdt g ∧ gdt g ≤ 65535 := by
  simp only [gdt]; omega

theorem rec_op_good : REC_CMP_OP = 1 ∧ REC_CYCLE = 65536 := by decide

theorem gdt_reconstruct (g r : Int) (hg : (ITS_EPOCH_MS : Int) - ELAPSED_MILLISECONDS ≤ g) (h1 : g ≤ r) (h2 : r < g + 65536) :
    reconstruct (gdt g) r = g := by
  have he : (ITS_EPOCH_MS : Int) = 1072915200000 := by decide
  have hl : (ELAPSED_MILLISECONDS : Int) = 5000 := by decide
  simp only [reconstruct, rec_op_good.1, reconstructG, cmpOp, decide_eq_true_eq, gdt, he, hl] at *
  have hnn : 0 ≤ r - 1072915200000 + 5000 := by omega
  rw [Int.tdiv_eq_ediv_of_nonneg hnn]
  split <;> omega

/-- with the strict comparison (`<` instead of `<=`) a message received in its own generation millisecond is dated
one cycle early — for EVERY generation instant -/
theorem reconstruct_strict_age0 (g : Int) (hg : (ITS_EPOCH_MS : Int) - ELAPSED_MILLISECONDS ≤ g) :
    reconstructG 0 (gdt g) g = g - 65536 := by
  have he : (ITS_EPOCH_MS : Int) = 1072915200000 := by decide
  have hl : (ELAPSED_MILLISECONDS : Int) = 5000 := by decide
  simp only [reconstructG, cmpOp, decide_eq_true_eq, gdt, he, hl] at *
  have hnn : 0 ≤ g - 1072915200000 + 5000 := by omega
  rw [Int.tdiv_eq_ediv_of_nonneg hnn]
  split <;> omega

/-! ### clock readings -/
/-- Python `round` returns the integer within half a unit -/
theorem pyRound_near (x : Rat) (n : Int) (h1 : (n : Rat) - 1 / 2 < x) (h2 : x < (n : Rat) + 1 / 2) : pyRound x = n := by
  have hfl := Rat.floor_le x
  have hlt := Rat.lt_floor_add_one x
  have hc : ((x.floor + 1 : Int) : Rat) = (x.floor : Rat) + 1 := by simp [Rat.intCast_add]
  rw [hc] at hlt
  by_cases hx : (n : Rat) ≤ x
  · have hf : x.floor = n := by
      have a : n ≤ x.floor := Rat.le_floor_iff.mpr hx
      have b : (x.floor : Rat) < ((n + 1 : Int) : Rat) := by
        have : ((n + 1 : Int) : Rat) = (n : Rat) + 1 := by simp [Rat.intCast_add]
        grind
      have := Rat.intCast_lt_intCast.mp b
      omega
    simp only [pyRound, hf]
    have : x - (n : Rat) < 1 / 2 := by grind
    simp [this]
  · have hx' : x < (n : Rat) := by grind
    have hf : x.floor = n - 1 := by
      have a : n - 1 ≤ x.floor := Rat.le_floor_iff.mpr (by
        have : ((n - 1 : Int) : Rat) = (n : Rat) - 1 := by simp [Rat.intCast_sub]
        grind)
      have b : (x.floor : Rat) < (n : Rat) := by grind
      have := Rat.intCast_lt_intCast.mp b
      omega
    simp only [pyRound, hf]
    have hcast : ((n - 1 : Int) : Rat) = (n : Rat) - 1 := by simp [Rat.intCast_sub]
    have h3 : ¬ (x - ((n - 1 : Int) : Rat) < 1 / 2) := by rw [hcast]; grind
    have h4 : 1 / 2 < x - ((n - 1 : Int) : Rat) := by rw [hcast]; grind
    simp only [h3, h4, if_false, if_true]
    omega

/-- `round(t*1000000)//1000` reads the millisecond `r` exactly whenever the double product is within half a
microsecond of `1000·r` (true for every millisecond instant before the year 2112, see design note) -/
theorem msOfMicros_exact (r : Int) (p6 : Rat) (h1 : (1000 * r : Int) - 1 / 2 < p6) (h2 : p6 < (1000 * r : Int) + 1 / 2) :
    msOfMicros p6 = r := by
  have := pyRound_near p6 (1000 * r) h1 h2
  simp only [msOfMicros, this]
  omega

/-! ### vehicle role / send state -/
theorem txStep_sent {table enum : List String} {role : Nat} (h : roleName table role ∈ enum) (s : Tx) (now : Int) :
    (txStep table enum role s now).out.length = s.out.length + 1 ∧ (txStep table enum role s now).skipped = s.skipped ∧
    (∀ o ∈ (txStep table enum role s now).out, o ∈ s.out ∨ o = none ∨ o = some (roleName table role)) ∧
    (includeLf s now = true → (txStep table enum role s now).out.head? = some (some (roleName table role))) := by
  have hc : enum.contains (roleName table role) = true := by simpa using h
  simp only [txStep, hc, Bool.not_true, Bool.and_false, Bool.false_eq_true, if_false, List.length_cons, true_and]
  refine ⟨?_, ?_⟩
  · intro o ho
    rcases List.mem_cons.mp ho with rfl | h'
    · by_cases hl : includeLf s now = true <;> simp [hl]
    · exact Or.inl h'
  · intro hl; simp [hl]

theorem txRun_no_stall {table enum : List String} {role : Nat} (h : roleName table role ∈ enum) :
    ∀ (ticks : List Int) (s : Tx),
      (ticks.foldl (txStep table enum role) s).out.length = s.out.length + ticks.length ∧
      (ticks.foldl (txStep table enum role) s).skipped = s.skipped ∧
      (∀ o ∈ (ticks.foldl (txStep table enum role) s).out, o ∈ s.out ∨ o = none ∨ o = some (roleName table role))
  | [], s => by
    refine ⟨by simp, by simp, ?_⟩
    intro o ho
    exact Or.inl (by simpa using ho)
  | t :: ts, s => by
    obtain ⟨a, b, c, _⟩ := txStep_sent h s t
    obtain ⟨a', b', c'⟩ := txRun_no_stall h ts (txStep table enum role s t)
    simp only [List.foldl_cons, List.length_cons]
    refine ⟨by omega, by omega, ?_⟩
    intro o ho
    rcases c' o ho with h1 | h1
    · exact c o h1
    · exact Or.inr h1

/-- a role whose name the encoder does not know: the first CAM always carries the low-frequency container, its
encoding fails, nothing is updated — so the next attempt is again a first CAM: no CAM is ever sent -/
theorem txRun_stall {table enum : List String} {role : Nat} (h : roleName table role ∉ enum) :
    ∀ (ticks : List Int) (s : Tx), s.camCount = 0 →
      (ticks.foldl (txStep table enum role) s).out = s.out ∧
      (ticks.foldl (txStep table enum role) s).skipped = s.skipped + ticks.length
  | [], s, _ => by simp
  | t :: ts, s, hs => by
    have hstep : txStep table enum role s t = { s with skipped := s.skipped + 1 } := by
      simp [txStep, includeLf, hs, h]
    obtain ⟨a, b⟩ := txRun_stall h ts { s with skipped := s.skipped + 1 } hs
    simp only [List.foldl_cons, hstep, List.length_cons]
    exact ⟨a, by simp only [] at b; omega⟩

/-! ### histories -/
theorem cacheRun_replace_last (rs : List Report) (r : Report) : cacheRun 1 (rs ++ [r]) = some r := by
  simp [cacheRun, List.foldl_append, cacheStep]

theorem evaStep_fresh (p : EvPos) (r : Report) : evaStep 1 p r = denmPos r := by
  simp only [evaStep, denmPos, evUnavailable, if_true]
  cases hl : r.lat <;> cases ho : r.lon <;> cases ha : r.alt <;> simp [latitude, longitude, altitude]

theorem evaRun_fresh_last (rs : List Report) (r : Report) : evaRun 1 (rs ++ [r]) = denmPos r := by
  simp [evaRun, List.foldl_append, evaStep_fresh]

/-! ### cluster information container under the clustering lock -/
theorem concRun_locked (m : Mgr) (sched : List Bool) :
    concRun true m sched = infoAtomic m ∨ concRun true m sched = .absent := by
  have inv : ∀ (sched : List Bool) (c : Conc),
      (c.tx = .start ∨ c.tx = .done (infoAtomic m) ∨ c.tx = .done .absent) → (c.m = m ∨ c.m = ⟨false, none⟩) →
      ((sched.foldl (concStep true) c).tx = .start ∨ (sched.foldl (concStep true) c).tx = .done (infoAtomic m) ∨
        (sched.foldl (concStep true) c).tx = .done .absent) ∧
      ((sched.foldl (concStep true) c).m = m ∨ (sched.foldl (concStep true) c).m = ⟨false, none⟩) := by
    intro sched
    induction sched with
    | nil => intro c h1 h2; exact ⟨h1, h2⟩
    | cons b bs ih =>
      intro c h1 h2
      simp only [List.foldl_cons]
      apply ih
      · cases b
        · simp only [concStep, Bool.false_eq_true, if_false, updThread]
          split <;> exact h1
        · simp only [concStep, if_true, txThread]
          rcases h1 with h | h | h <;> simp only [h, if_true]
          · rcases h2 with h2 | h2 <;> simp [h2, infoAtomic]
          · simp
          · simp
      · cases b
        · simp only [concStep, Bool.false_eq_true, if_false, updThread, breakupDone]
          split
          · exact h2
          · exact Or.inr rfl
        · simp only [concStep, if_true, txThread]
          rcases h1 with h | h | h <;> simp only [h, if_true] <;> exact h2
  obtain ⟨h1, h2⟩ := inv sched ⟨m, .start, false⟩ (Or.inl rfl) (Or.inl rfl)
  simp only [concRun]
  generalize sched.foldl (concStep true) ⟨m, .start, false⟩ = c at h1 h2
  rcases h1 with h | h | h
  · simp only [txThread, h, if_true]
    rcases h2 with h2 | h2 <;> simp [h2, infoAtomic]
  · simp [txThread, h]
  · simp [txThread, h]

theorem infoAtomic_ne_fail (m : Mgr) : infoAtomic m ≠ .fail := by
  simp only [infoAtomic, infoOf]
  split <;> simp

/-! ### guards regenerated from the source: any guard equivalent to the repaired one is accepted -/

/-- upper guards that behave like `v ≥ c` when the code written is `c` itself -/
def hiOk (op : Nat) (guard c : Int) : Bool :=
  (op == 3 && (guard == c || guard == c + 1)) || (op == 2 && (guard == c - 1 || guard == c))
/-- lower guards that behave like `v ≤ c` when the code written is `c` itself -/
def loOk (op : Nat) (guard c : Int) : Bool :=
  (op == 1 && (guard == c || guard == c - 1)) || (op == 0 && (guard == c + 1 || guard == c))

theorem hiOk_eq {op : Nat} {guard c : Int} (h : hiOk op guard c = true) (v : Int) :
    (if cmpOp op v guard then c else v) = (if cmpOp 3 v c then c else v) := by
  simp only [hiOk, Bool.or_eq_true, Bool.and_eq_true, beq_iff_eq] at h
  rcases h with ⟨ho, hg | hg⟩ | ⟨ho, hg | hg⟩ <;> subst ho <;> rw [hg] <;> simp only [cmpOp] <;>
    (by_cases h1 : v ≥ c <;> by_cases h2 : v ≥ c + 1 <;> by_cases h3 : v > c - 1 <;> by_cases h4 : v > c <;>
      simp only [h1, h2, h3, h4, decide_true, decide_false, if_true, if_false, Bool.false_eq_true] <;> omega)

theorem loOk_eq {op : Nat} {guard c : Int} (h : loOk op guard c = true) (v : Int) (e : Int) :
    (if cmpOp op v guard then c else e) = (if cmpOp 1 v c then c else e) ∨ v = c := by
  simp only [loOk, Bool.or_eq_true, Bool.and_eq_true, beq_iff_eq] at h
  rcases h with ⟨ho, hg | hg⟩ | ⟨ho, hg | hg⟩ <;> subst ho <;> rw [hg] <;> simp only [cmpOp] <;>
    (by_cases h1 : v ≤ c <;> by_cases h2 : v ≤ c - 1 <;> by_cases h3 : v < c + 1 <;> by_cases h4 : v < c <;>
      simp only [h1, h2, h3, h4, decide_true, decide_false, if_true, if_false, Bool.false_eq_true, true_or] <;> omega)

def altOk (p : AltP) : Bool :=
  p.loCode == -100000 && p.hiCode == 800000 && loOk p.loOp p.loGuard (-100000) && hiOk p.hiOp p.hiGuard 800000

theorem altitudeG_congr {p : AltP} (h : altOk p = true) (x : Rat) : altitudeG p x = altitudeG goodAlt x := by
  simp only [altOk, Bool.and_eq_true, beq_iff_eq] at h
  obtain ⟨⟨⟨hl, hh⟩, hlo⟩, hhi⟩ := h
  simp only [altitudeG, goodAlt, hl, hh]
  rw [hiOk_eq hhi (trunc x)]
  rcases loOk_eq hlo (trunc x) (if cmpOp 3 (trunc x) 800000 = true then 800000 else trunc x) with h | h
  · exact h
  · rw [h]; simp [cmpOp]

theorem camAlt_ok : altOk camAlt = true := by decide
theorem vamAlt_ok : altOk vamAlt = true := by decide
theorem denmAlt_ok : altOk denmAlt = true := by decide

def speedOk (op : Nat) (guard code : Int) : Bool := code == 16382 && hiOk op guard 16382

theorem speedG_congr {op : Nat} {guard code : Int} (h : speedOk op guard code = true) (x : Rat) :
    speedG op guard code x = speedG 2 16381 16382 x := by
  simp only [speedOk, Bool.and_eq_true, beq_iff_eq] at h
  obtain ⟨hc, hg⟩ := h
  have h2 : hiOk 2 16381 16382 = true := by decide
  simp only [speedG, hc]
  rw [hiOk_eq hg, hiOk_eq h2]

theorem speed_ok : speedOk CAM_SPEED_OP CAM_SPEED_GUARD CAM_SPEED_CODE = true ∧
    speedOk VAM_SPEED_OP VAM_SPEED_GUARD VAM_SPEED_CODE = true := by decide

def axisOk (clamped op : Nat) (guard code floor : Int) : Bool :=
  clamped == 1 && code == 4094 && floor == 1 && hiOk op guard 4094

theorem semiAxisG_congr {clamped op : Nat} {guard code floor : Int} (h : axisOk clamped op guard code floor = true) (x : Rat) :
    semiAxisG clamped op guard code floor x = goodAxis x := by
  simp only [axisOk, Bool.and_eq_true, beq_iff_eq] at h
  obtain ⟨⟨⟨h1, hc⟩, hf⟩, hg⟩ := h
  have h2 : hiOk 2 4093 4094 = true := by decide
  have e1 := hiOk_eq hg (trunc x)
  have e2 := hiOk_eq h2 (trunc x)
  simp only [goodAxis, semiAxisG, h1, hc, hf]
  have hne : ¬ ((1 : Nat) = 0) := by decide
  simp only [hne, if_false]
  by_cases a : cmpOp op (trunc x) guard = true <;> by_cases b : cmpOp 2 (trunc x) 4093 = true <;>
    simp only [a, b, if_true, if_false, Bool.false_eq_true] at e1 e2 ⊢ <;>
    (by_cases c : cmpOp 3 (trunc x) 4094 = true <;> simp only [c, if_true, if_false, Bool.false_eq_true] at e1 e2 <;> omega)

theorem semiAxis_ok : axisOk SEMI_AXIS_CLAMPED SEMI_AXIS_OP SEMI_AXIS_GUARD SEMI_AXIS_CODE SEMI_AXIS_FLOOR = true ∧
    VAM_ELLIPSE_OWN = 0 := by decide

theorem semiAxis_eq : semiAxis = goodAxis := by
  funext x; exact semiAxisG_congr semiAxis_ok.1 x

/-! ### UPER constrained whole numbers -/
theorem append_mod {a x n : Nat} (h : x < 2 ^ n) : (a <<< n ||| x) % 2 ^ n = x := by
  rw [← Nat.shiftLeft_add_eq_or_of_lt h a, Nat.shiftLeft_eq, Nat.mul_comm, Nat.mul_add_mod, Nat.mod_eq_of_lt h]

theorem append_shift {a x n : Nat} (h : x < 2 ^ n) : (a <<< n ||| x) >>> n = a := by
  rw [← Nat.shiftLeft_add_eq_or_of_lt h a, Nat.shiftLeft_eq, Nat.shiftRight_eq_div_pow, Nat.mul_comm,
    Nat.mul_add_div (Nat.two_pow_pos n), Nat.div_eq_of_lt h, Nat.add_zero]

theorem lt_two_pow_nbits (size : Nat) : size < 2 ^ nbits size := by
  simp only [nbits]
  split
  · subst_vars; decide
  · exact Nat.lt_log2_self

/-- a value inside its constraint fits into the field's bits -/
theorem field_fits (f : IntField) (v : Int) (h1 : f.lo ≤ v) (h2 : v ≤ f.hi) : (v - f.lo).toNat < 2 ^ f.width := by
  have : (v - f.lo).toNat ≤ (f.hi - f.lo).toNat := by omega
  exact Nat.lt_of_le_of_lt this (lt_two_pow_nbits _)

theorem decode_encode_aux :
    ∀ (fs : List (IntField × Int)) (b : Bits) (L : List IntField),
      (∀ fv ∈ fs, fv.1.lo ≤ fv.2 ∧ fv.2 ≤ fv.1.hi) →
      decodeRev (fs.foldl (fun b fv => b.append (fv.2 - fv.1.lo).toNat fv.1.width) b).value ((fs.map (·.1)).reverse ++ L) =
        (fs.map (·.2)).reverse ++ decodeRev b.value L
  | [], b, L, _ => by simp
  | (f, v) :: fs, b, L, h => by
    have hin : f.lo ≤ v ∧ v ≤ f.hi := h (f, v) (List.mem_cons_self ..)
    have hfit := field_fits f v hin.1 hin.2
    have ih := decode_encode_aux fs (b.append (v - f.lo).toNat f.width) (f :: L)
      (fun fv hm => h fv (List.mem_cons_of_mem _ hm))
    simp only [List.foldl_cons, List.map_cons, List.reverse_cons, List.append_assoc, List.singleton_append]
    rw [ih]
    simp only [decodeRev, Bits.append, append_mod hfit, append_shift hfit]
    have : f.lo + (((v - f.lo).toNat : Nat) : Int) = v := by omega
    rw [this]

end FlexModel.Fac.MappingLemmas

/-
C17, round 5 — two structural facts of `DENMTransmissionManagement` that the repetition model takes for granted, made
explicit as small state machines and tied to the source (`harness/gen_denm.py analyse_request` -> `Generated/Denm.lean`).

(1) WHERE the private copy of the request's mutable `event_position` is taken (`SnapSite`).  Two threads act on the
    caller's dictionary: the application (it may overwrite the dictionary at ANY time after `request_denm_sending` has
    returned: `Op.write`) and the event thread (`Op.first` = first statement of `trigger_denm_messages`, `Op.rep` = one
    repetition handing a DENM over).  A history is any list of these ops - the thread-start latency is the (arbitrary)
    number of `write`s before `first`.  `Req.run site p0 ops` returns the positions of the DENMs handed over.
    Seeded change C17-m7 moved the copy from `request_denm_sending` (`.caller`) to the first statement of the event
    thread (`.threadFirst`).

(2) HOW a lock around the hand-over is released (`LockUse`).  `transmit_denm` may raise (coder / transport, `Fault`),
    and the repetition loop deliberately survives that (C17-F3).  With `with <lock>:` the lock is released on every
    exit; with a bare `acquire()` … `release()` pair (seeded change C17-m9) an exception leaves it held: every later
    repetition of every event blocks in `acquire()` for ever.  `Tx.run use reps`: `reps` is the global order in which
    repetitions (event, k, fault) enter `transmit_denm` (the lock makes them atomic), any number of events.
Core Lean + Generated only.
-/
import FlexModel.Fac.Denm
import Generated.Denm

namespace FlexModel.Fac.Denm.Req

/-- where the snapshot of the caller's position dictionary is taken -/
inductive SnapSite | caller | threadFirst | nowhere
  deriving DecidableEq, Repr

/-- what happens after `request_denm_sending` has returned -/
inductive Op
  | write (p : Pos)   -- the application overwrites the dictionary it passed in the request
  | first             -- the event thread executes the first statement of `trigger_denm_messages`
  | rep               -- the event thread builds one DENM and hands it over
  deriving DecidableEq, Repr

structure S where
  dict : Pos               -- the caller's dictionary, now
  snap : Option Pos        -- the event's private copy, if one was taken
  started : Bool           -- has the event thread run its first statement?
  out : List Pos           -- event position / circle centre of the DENMs handed over so far
  deriving DecidableEq, Repr

/-- `request_denm_sending(request)` with the dictionary holding `p0`: copy here (or not), register the thread, return -/
def request (site : SnapSite) (p0 : Pos) : S :=
  { dict := p0, snap := if site = .caller then some p0 else none, started := false, out := [] }

def step (site : SnapSite) (s : S) : Op → S
  | .write p => { s with dict := p }
  | .first =>
    if s.started then s
    else { s with started := true, snap := if site = .threadFirst then some s.dict else s.snap }
  | .rep =>
    if s.started then { s with out := s.out ++ [s.snap.getD s.dict] } else s

def run (site : SnapSite) (p0 : Pos) (ops : List Op) : S := ops.foldl (step site) (request site p0)

/-- the snapshot site of the tree under check (regenerated fact `snapshotSite`) -/
def sourceSite : SnapSite :=
  match Generated.Denm.snapshotSite with
  | 0 => .caller
  | 1 => .threadFirst
  | _ => .nowhere

/-- once a copy of the requested position exists, every later state has it and hands nothing else over -/
theorem snap_stable (site : SnapSite) (p0 : Pos) (ops : List Op) (s : S)
    (hs : s.snap = some p0) (hsite : site = .threadFirst → s.started = true) (ho : ∀ p ∈ s.out, p = p0) :
    (ops.foldl (step site) s).snap = some p0 ∧ ∀ p ∈ (ops.foldl (step site) s).out, p = p0 := by
  induction ops generalizing s with
  | nil => exact ⟨hs, ho⟩
  | cons op rest ih =>
    simp only [List.foldl_cons]
    cases op with
    | write p => exact ih _ (by simpa [step] using hs) (by simpa [step] using hsite) (by simpa [step] using ho)
    | first =>
      by_cases hst : s.started = true
      · exact ih _ (by simpa [step, hst] using hs) (by intro _; simp [step, hst])
          (by simpa [step, hst] using ho)
      · have hne : site ≠ .threadFirst := fun h => hst (hsite h)
        exact ih _ (by simp [step, hst, hne, hs]) (by intro h; exact absurd h hne) (by simpa [step, hst] using ho)
    | rep =>
      by_cases hst : s.started = true
      · apply ih _ (by simpa [step, hst] using hs) (by intro _; simp [step, hst])
        intro p hp
        simp only [step, hst, if_true, List.mem_append, List.mem_singleton] at hp
        rcases hp with hp | hp
        · exact ho p hp
        · rw [hp, hs]; rfl
      · exact ih _ (by simpa [step, hst] using hs) (by intro h; simpa [step, hst] using hsite h)
          (by simpa [step, hst] using ho)

/-- invariant of the `.caller` site: the private copy exists from the start and is the requested position -/
theorem caller_inv (p0 : Pos) (ops : List Op) :
    (run .caller p0 ops).snap = some p0 ∧ ∀ p ∈ (run .caller p0 ops).out, p = p0 :=
  snap_stable .caller p0 ops (request .caller p0) (by simp [request]) (by intro h; cases h) (by simp [request])

/-- a history without a `write` before the thread's `first`: what still held with the late snapshot -/
def quietStart : List Op → Bool
  | [] => true
  | .write _ :: _ => false
  | .first :: _ => true
  | .rep :: rest => quietStart rest

/-! ## lock around the hand-over -/

inductive LockUse | viaWith | bare
  deriving DecidableEq, Repr

structure Tx where
  held : Bool                     -- is the lock held although nobody is inside `transmit_denm`?
  handed : List (Nat × Nat)       -- (event, repetition) handed to the transport layer, in order
  blocked : List (Nat × Nat)      -- repetitions whose `acquire()` never returns
  deriving DecidableEq, Repr

/-- one repetition enters `transmit_denm`: acquire; encode (may raise); hand over (may raise); release -/
def txStep (u : LockUse) (s : Tx) (r : Nat × Nat × Fault) : Tx :=
  if s.held then { s with blocked := s.blocked ++ [(r.1, r.2.1)] }
  else match r.2.2 with
    | .ok => { s with handed := s.handed ++ [(r.1, r.2.1)] }
    | .transport => { s with handed := s.handed ++ [(r.1, r.2.1)], held := decide (u = .bare) }
    | .encode => { s with held := decide (u = .bare) }

def txRun (u : LockUse) (reps : List (Nat × Nat × Fault)) : Tx := reps.foldl (txStep u) ⟨false, [], []⟩

/-- lock discipline of the tree under check (regenerated fact `bareLockCalls`) -/
def sourceLockUse : LockUse := if Generated.Denm.bareLockCalls = 0 then .viaWith else .bare

/-- repetitions that reach the transport layer when nothing blocks: all but the unencodable ones -/
def handedSpec (reps : List (Nat × Nat × Fault)) : List (Nat × Nat) :=
  (reps.filter (fun r => r.2.2 != .encode)).map (fun r => (r.1, r.2.1))

theorem txFold_with (reps : List (Nat × Nat × Fault)) (s : Tx) (h : s.held = false) :
    reps.foldl (txStep .viaWith) s = ⟨false, s.handed ++ handedSpec reps, s.blocked⟩ := by
  induction reps generalizing s with
  | nil => cases s; simp_all [handedSpec]
  | cons r rest ih =>
    obtain ⟨e, k, f⟩ := r
    simp only [List.foldl_cons]
    cases f
    · rw [ih _ (by simp [txStep, h])]; simp [txStep, h, handedSpec]
    · rw [ih _ (by simp [txStep, h])]; simp [txStep, h, handedSpec]
    · rw [ih _ (by simp [txStep, h])]; simp [txStep, h, handedSpec]

theorem txRun_with (reps : List (Nat × Nat × Fault)) :
    txRun .viaWith reps = ⟨false, handedSpec reps, []⟩ := by
  simpa [txRun] using txFold_with reps ⟨false, [], []⟩ rfl

end FlexModel.Fac.Denm.Req

/-
Helper lemmas for Props/C11 (round 4): Python `round` on exact rationals, the loop of `_get_path_history`, the send state
of the CAM transmission management with the path history, and the VAM between construction and BTP.
The `*_good` lemmas tie the values regenerated from the source (`Generated.Fac11`) to the ASN.1 constraints regenerated
from the repository's ASN.1 text: a changed guard / cap / clamp re-opens them.
-/
import FlexModel.Fac.MappingLemmas

namespace FlexModel.Fac.MappingLemmas
open FlexModel.Fac.Mapping Generated.Fac Generated.Fac11

/-! ### Python `round` -/

/-- `round` never moves a value by more than half a unit -/
theorem pyRound_close (x : Rat) : ((pyRound x : Int) : Rat) - 1 / 2 ≤ x ∧ x ≤ ((pyRound x : Int) : Rat) + 1 / 2 := by
  have hfl := Rat.floor_le x
  have hlt := Rat.lt_floor_add_one x
  have hc : ((x.floor + 1 : Int) : Rat) = (x.floor : Rat) + 1 := by simp [Rat.intCast_add]
  rw [hc] at hlt
  simp only [pyRound]
  split
  · constructor <;> grind
  · split
    · rw [hc]; constructor <;> grind
    · split
      · constructor <;> grind
      · rw [hc]; constructor <;> grind

theorem pyRound_le {x : Rat} {n : Int} (h : x ≤ (n : Rat)) : pyRound x ≤ n := by
  have h1 := (pyRound_close x).1
  have : ((pyRound x : Int) : Rat) < ((n + 1 : Int) : Rat) := by
    have : ((n + 1 : Int) : Rat) = (n : Rat) + 1 := by simp [Rat.intCast_add]
    grind
  have := Rat.intCast_lt_intCast.mp this
  omega

theorem le_pyRound {x : Rat} {n : Int} (h : (n : Rat) ≤ x) : n ≤ pyRound x := by
  have h1 := (pyRound_close x).2
  have : ((n - 1 : Int) : Rat) < ((pyRound x : Int) : Rat) := by
    have : ((n - 1 : Int) : Rat) = (n : Rat) - 1 := by simp [Rat.intCast_sub]
    grind
  have := Rat.intCast_lt_intCast.mp this
  omega

theorem pyRound_int (n : Int) : pyRound (n : Rat) = n :=
  pyRound_near (n : Rat) n (by grind) (by grind)

/-! ### the loop of `_get_path_history` -/

/-- every emitted point passed the guard and is the rounding of a stored entry -/
theorem phLoop_mem (g : PhGuard) (cap : Int) :
    ∀ (hs : List HOff) (n : Nat) (p : PathPoint), p ∈ phLoop g cap n hs →
      g.accepts p = true ∧ ∃ h ∈ hs, p = pathPointOf h
  | [], _, p, hp => by simp [phLoop] at hp
  | h :: rest, n, p, hp => by
    simp only [phLoop] at hp
    by_cases ha : g.accepts (pathPointOf h) = true
    · simp only [ha, Bool.not_true, Bool.false_eq_true, if_false] at hp
      by_cases hc : (n : Int) + 1 ≥ cap
      · simp only [hc, if_true, List.mem_singleton] at hp
        subst hp
        exact ⟨ha, h, by simp, rfl⟩
      · simp only [hc, if_false, List.mem_cons] at hp
        rcases hp with rfl | hp
        · exact ⟨ha, h, by simp, rfl⟩
        · obtain ⟨a, h', hm, e⟩ := phLoop_mem g cap rest (n + 1) p hp
          exact ⟨a, h', by simp [hm], e⟩
    · have : g.accepts (pathPointOf h) = false := by simpa using ha
      simp [this] at hp

/-- the loop emits at most `cap` points in total (at least the one that is appended before the size test) -/
theorem phLoop_length (g : PhGuard) (cap : Int) :
    ∀ (hs : List HOff) (n : Nat), ((phLoop g cap n hs).length : Int) + n ≤ max cap (n + 1)
  | [], n => by simp only [phLoop, List.length_nil]; omega
  | h :: rest, n => by
    simp only [phLoop]
    by_cases ha : g.accepts (pathPointOf h) = true
    · simp only [ha, Bool.not_true, Bool.false_eq_true, if_false]
      by_cases hc : (n : Int) + 1 ≥ cap
      · simp only [hc, if_true, List.length_singleton]; omega
      · have := phLoop_length g cap rest (n + 1)
        simp only [hc, if_false, List.length_cons]
        push_cast at this ⊢
        omega
    · have : g.accepts (pathPointOf h) = false := by simpa using ha
      simp only [this, Bool.not_false, if_true, List.length_nil]; omega

/-- the emitted list is the rounding of a PREFIX of the stored entries (order kept, nothing skipped), and the prefix is
maximal: it ends at the size limit, at the end of the store, or at the first entry the guard rejects -/
theorem phLoop_prefix (g : PhGuard) (cap : Int) :
    ∀ (hs : List HOff) (n : Nat), ∃ k : Nat, phLoop g cap n hs = (hs.take k).map pathPointOf ∧
      (k < hs.length → (n : Int) + k < cap → ∃ h, hs[k]? = some h ∧ g.accepts (pathPointOf h) = false)
  | [], _ => ⟨0, by simp [phLoop], by simp⟩
  | h :: rest, n => by
    by_cases ha : g.accepts (pathPointOf h) = true
    · by_cases hc : (n : Int) + 1 ≥ cap
      · refine ⟨1, by simp [phLoop, ha, hc], ?_⟩
        intro _ h2
        push_cast at h2
        omega
      · obtain ⟨k, e, m⟩ := phLoop_prefix g cap rest (n + 1)
        refine ⟨k + 1, by simp [phLoop, ha, hc, e], ?_⟩
        intro h1 h2
        have h1' : k < rest.length := by simpa using h1
        have h2' : ((n + 1 : Nat) : Int) + k < cap := by push_cast at h2 ⊢; omega
        obtain ⟨h', e', r'⟩ := m h1' h2'
        exact ⟨h', by simpa using e', r'⟩
    · have hf : g.accepts (pathPointOf h) = false := by simpa using ha
      exact ⟨0, by simp [phLoop, hf], fun _ _ => ⟨h, by simp, hf⟩⟩

/-- the accepted interval lies inside the DeltaLatitude / DeltaLongitude constraints -/
def guardGood (g : PhGuard) : Bool :=
  decide (DeltaLatitude_lo ≤ g.latLo) && decide (g.latHi ≤ DeltaLatitude_hi) &&
  decide (DeltaLongitude_lo ≤ g.lonLo) && decide (g.lonHi ≤ DeltaLongitude_hi)

/-- the regenerated guards, cap, clamp and literal of `_get_path_history` against the regenerated ASN.1 constraints
(`DeltaLatitude`, `DeltaLongitude`, `DeltaAltitude`, `PathDeltaTime`, `Path`, the `WITH COMPONENTS` size of the LF container) -/
theorem ph_consts_good :
    guardGood phGuard = true ∧ 1 ≤ PH_CAP ∧ PH_CAP ≤ LF_PATH_SIZE_HI ∧ LF_PATH_SIZE_HI ≤ Path_size_hi ∧
    PathDeltaTime_lo ≤ PH_DT_LO ∧ PH_DT_LO ≤ PH_DT_HI ∧ PH_DT_HI ≤ PathDeltaTime_hi ∧
    DeltaAltitude_lo ≤ PH_DALT ∧ PH_DALT ≤ DeltaAltitude_hi ∧ PH_DALT = DeltaAltitude_unavailable ∧
    PH_NEWEST_FIRST = 1 ∧ 0 ≤ PH_STORE_CAP := by decide

theorem dtime_in_clamp (x : Rat) : PH_DT_LO ≤ (pathPointOf ⟨0, 0, x⟩).dtime ∧ (pathPointOf ⟨0, 0, x⟩).dtime ≤ PH_DT_HI := by
  have h := ph_consts_good.2.2.2.2.2.1
  simp only [pathPointOf]
  omega

theorem pathPoint_encodable {g : PhGuard} (hg : guardGood g = true) (h : HOff) (ha : g.accepts (pathPointOf h) = true) :
    (pathPointOf h).encodable = true := by
  obtain ⟨_, _, _, _, c1, c2, c3, c4, c5, _⟩ := ph_consts_good
  simp only [guardGood, Bool.and_eq_true, decide_eq_true_eq] at hg
  simp only [PhGuard.accepts, Bool.and_eq_true, decide_eq_true_eq] at ha
  obtain ⟨⟨⟨g1, g2⟩, g3⟩, g4⟩ := hg
  obtain ⟨⟨⟨a1, a2⟩, a3⟩, a4⟩ := ha
  simp only [PathPoint.encodable, Bool.and_eq_true, decide_eq_true_eq]
  have hd : (pathPointOf h).dalt = PH_DALT := rfl
  have ht : (pathPointOf h).dtime = max PH_DT_LO (min PH_DT_HI (pyRound h.dt)) := rfl
  refine ⟨⟨⟨⟨⟨⟨⟨by omega, by omega⟩, by omega⟩, by omega⟩, by omega⟩, by omega⟩, by omega⟩, by omega⟩

/-- with a guard inside the constraints every path the loop can produce survives the encoder -/
theorem phLoop_encodable {g : PhGuard} (hg : guardGood g = true) {cap : Int} (h1 : 1 ≤ cap) (h2 : cap ≤ Path_size_hi)
    (hs : List HOff) : pathEncodable (phLoop g cap 0 hs) = true := by
  simp only [pathEncodable, Bool.and_eq_true, List.all_eq_true, decide_eq_true_eq]
  refine ⟨fun p hp => ?_, ?_⟩
  · obtain ⟨ha, h, _, rfl⟩ := phLoop_mem g cap hs 0 p hp
    exact pathPoint_encodable hg h ha
  · have := phLoop_length g cap hs 0
    push_cast at this
    omega

/-! ### the send state with the path history -/

theorem phAttempt_sent {g : PhGuard} (hg : guardGood g = true) {cap : Int} (h1 : 1 ≤ cap) (h2 : cap ≤ Path_size_hi)
    (s : PhTx) (now : Int) (pos : Bool) (offs : List HOff) :
    (phAttempt g cap s now pos offs).out.length = s.out.length + 1 ∧ (phAttempt g cap s now pos offs).skipped = s.skipped ∧
    (∀ o ∈ (phAttempt g cap s now pos offs).out, o ∈ s.out ∨ o = none ∨ ∃ ps, o = some ps ∧ pathEncodable ps = true ∧
      (ps.length : Int) ≤ max cap 1 ∧ ∃ k, ps = ((offs.take s.histLen).take k).map pathPointOf) ∧
    ((phAttempt g cap s now pos offs).histLen : Int) ≤ max (s.histLen : Int) PH_STORE_CAP := by
  have henc : pathEncodable (if pos then phLoop g cap 0 (offs.take s.histLen) else []) = true := by
    cases pos
    · simp [pathEncodable]; decide
    · simpa using phLoop_encodable hg h1 h2 _
  simp only [phAttempt, henc, Bool.not_true, Bool.and_false, Bool.false_eq_true, if_false, List.length_cons, true_and]
  refine ⟨?_, ?_⟩
  · intro o ho
    rcases List.mem_cons.mp ho with rfl | h'
    · by_cases hl : s.lfDue now = true
      · refine Or.inr (Or.inr ⟨_, by simp [hl], henc, ?_, ?_⟩)
        · cases pos
          · simp; omega
          · have := phLoop_length g cap (offs.take s.histLen) 0
            simp only [if_true]
            push_cast at this
            omega
        · cases pos
          · exact ⟨0, by simp⟩
          · obtain ⟨k, e, _⟩ := phLoop_prefix g cap (offs.take s.histLen) 0
            exact ⟨k, by simpa using e⟩
      · exact Or.inr (Or.inl (by simp [hl]))
    · exact Or.inl h'
  · have h0 := ph_consts_good.2.2.2.2.2.2.2.2.2.2.2
    cases pos
    · simp; omega
    · simp only [if_true]
      have : ((min (s.histLen + 1) PH_STORE_CAP.toNat : Nat) : Int) ≤ PH_STORE_CAP := by
        have : (PH_STORE_CAP.toNat : Int) = PH_STORE_CAP := Int.toNat_of_nonneg h0
        omega
      omega

/-- no sequence of generation attempts stalls: every attempt hands a CAM to BTP, every path history sent survives the
encoder, has at most `cap` points and is the rounding of a prefix of the stored entries -/
theorem phRun_no_stall {g : PhGuard} (hg : guardGood g = true) {cap : Int} (h1 : 1 ≤ cap) (h2 : cap ≤ Path_size_hi) :
    ∀ (ticks : List PhTick) (s : PhTx),
      let r := ticks.foldl (fun s t => phAttempt g cap s t.now t.pos t.offs) s
      r.out.length = s.out.length + ticks.length ∧ r.skipped = s.skipped ∧
      (∀ o ∈ r.out, o ∈ s.out ∨ o = none ∨ ∃ ps, o = some ps ∧ pathEncodable ps = true ∧ (ps.length : Int) ≤ max cap 1) ∧
      (r.histLen : Int) ≤ max (s.histLen : Int) PH_STORE_CAP
  | [], s => by
    refine ⟨by simp, by simp, ?_, by simp; omega⟩
    intro o ho
    exact Or.inl (by simpa using ho)
  | t :: ts, s => by
    obtain ⟨a, b, c, d⟩ := phAttempt_sent hg h1 h2 s t.now t.pos t.offs
    obtain ⟨a', b', c', d'⟩ := phRun_no_stall hg h1 h2 ts (phAttempt g cap s t.now t.pos t.offs)
    simp only [List.foldl_cons, List.length_cons]
    refine ⟨by omega, by omega, ?_, by omega⟩
    intro o ho
    rcases c' o ho with h' | h' | h'
    · rcases c o h' with h'' | h'' | ⟨ps, e, p1, p2, _⟩
      · exact Or.inl h''
      · exact Or.inr (Or.inl h'')
      · exact Or.inr (Or.inr ⟨ps, e, p1, p2⟩)
    · exact Or.inr (Or.inl h')
    · exact Or.inr (Or.inr h')

/-- the symmetric 'simplification' of the two range guards: `max(abs(dlat), abs(dlon)) > 131072` -/
def symGuard : PhGuard := ⟨-131072, 131072, -131072, 131072⟩

/-- a stored entry exactly 131072 units north of the current position (offset −131072), 1 s old -/
def southLimit : HOff := ⟨-131072, 0, 100⟩

theorem symGuard_stall_step (s : PhTx) (now : Int) (hl : ∃ t, s.lastLf = some t ∧ now - t ≥ 500)
    (hh : 1 ≤ s.histLen) (rest : List HOff) :
    phAttempt symGuard PH_CAP s now true (southLimit :: rest) = { s with skipped := s.skipped + 1 } := by
  obtain ⟨t, ht, hge⟩ := hl
  have hlf : s.lfDue now = true := by
    have h500 : (T_GEN_CAM_LF_MS : Int) = 500 := by decide
    simp [PhTx.lfDue, ht, h500, hge]
  have hp : pathPointOf southLimit = ⟨-131072, 0, 12800, 100⟩ := by decide +kernel
  have hne : (pathPointOf southLimit).encodable = false := by rw [hp]; decide
  obtain ⟨m, hm⟩ : ∃ m, s.histLen = m + 1 := ⟨s.histLen - 1, by omega⟩
  have hacc : symGuard.accepts (pathPointOf southLimit) = true := by rw [hp]; decide
  have hpath : pathEncodable (phLoop symGuard PH_CAP 0 ((southLimit :: rest).take s.histLen)) = false := by
    have hcap : ¬ ((0 : Nat) : Int) + 1 ≥ PH_CAP := by decide
    simp only [hm, List.take_succ_cons, phLoop, hacc, Bool.not_true, Bool.false_eq_true, if_false, hcap, pathEncodable,
      List.all_cons, hne, Bool.false_and]
  simp only [phAttempt, hlf, if_true, hpath, Bool.not_false, Bool.and_self]

/-! ### the VAM between construction and BTP -/

/-- the regenerated facts about `send_next_vam` and the CHOICE value of the cluster information container: the message is
not deep-copied, or the value can be rebuilt by `copy`, or a failing LDM block cannot stop the VAM -/
theorem vam_ldm_good : (VAM_LDM_SNAPSHOT_DEEP == 1 && !CHOICE_DEEPCOPYABLE && VAM_LDM_FEED_GUARDED != 1) = false := by decide

theorem vamSend_spec {deep guarded : Nat} {copyable : Bool} (h : (deep == 1 && !copyable && guarded != 1) = false)
    (c : Option ClState) (ldm : Bool) :
    vamSend deep guarded copyable c ldm ≠ .fail ∧
    (shouldTransmit c = false → vamSend deep guarded copyable c ldm = .silent) ∧
    (shouldTransmit c = true → ∃ fed, vamSend deep guarded copyable c ldm = .sent (infoDue c) (opDue c) fed ∧
      (fed = true → ldm = true) ∧ (deep = 0 ∨ copyable = true → fed = ldm)) := by
  by_cases hs : shouldTransmit c = true
  · simp only [vamSend, hs, Bool.not_true, Bool.false_eq_true, if_false]
    by_cases hd : deep = 1 <;> cases copyable <;> cases ldm <;> cases hi : infoDue c <;>
      by_cases hg : guarded = 1 <;> simp_all
  · have : shouldTransmit c = false := by simpa using hs
    simp [vamSend, this]

/-! ### round 5: the request's event position under a deep snapshot -/
theorem callerStep_deep (s : SnapSt) (op : CallerOp) (h : s.sh = ⟨false, false, false⟩) :
    (callerStep s op).sh = ⟨false, false, false⟩ ∧ (callerStep s op).req = s.req := by
  cases op <;> simp [callerStep, h]

theorem callerRun_deep (ops : List CallerOp) (s : SnapSt) (h : s.sh = ⟨false, false, false⟩) :
    (ops.foldl callerStep s).sh = ⟨false, false, false⟩ ∧ (ops.foldl callerStep s).req = s.req := by
  induction ops generalizing s with
  | nil => exact ⟨h, rfl⟩
  | cons op rest ih =>
    have h1 := callerStep_deep s op h
    have h2 := ih (callerStep s op) h1.1
    exact ⟨h2.1, h2.2.trans h1.2⟩

theorem repsFrom_deep (hist : List (List CallerOp)) (s : SnapSt) (h : s.sh = ⟨false, false, false⟩) :
    repsFrom s hist = List.replicate hist.length s.req := by
  induction hist generalizing s with
  | nil => rfl
  | cons ops rest ih =>
    have h1 := callerRun_deep ops s h
    simp only [repsFrom, List.length_cons, List.replicate_succ, h1.2]
    rw [ih _ h1.1, h1.2]

end FlexModel.Fac.MappingLemmas

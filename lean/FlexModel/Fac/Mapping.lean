/-
Report -> data element mappings of the CAM / VAM builders and of the DENM event position
(`CooperativeAwarenessMessage.fullfill_*`, `VAMMessage.fullfill_*`,
`EmergencyVehicleApproachingService.trigger_denm_sending`) and the `GenerationDeltaTime` arithmetic.

Inputs are exact rationals: the exact value of the double the code passes to `int()` (e.g. the double product
`lat * 10000000`), and, where the code compares the raw value, the exact value of the raw double.
Guards, operators and codes are the ones regenerated from the source (`Generated.Fac`), so the functions mirror
the code that exists; the theorems in Props/C11 hold for the repaired values and re-open when they change.
-/
import Generated.FacConstants
import Generated.FacC11

namespace FlexModel.Fac.Mapping
open Generated.Fac Generated.Fac11

/-- Python `int(x)` on a float: truncation toward zero -/
def trunc (x : Rat) : Int := if 0 ≤ x then x.floor else x.ceil

/-- comparison by operator code (0 `<`, 1 `<=`, 2 `>`, 3 `>=`) -/
def cmpOp (op : Nat) (a b : Int) : Bool :=
  match op with
  | 0 => decide (a < b) | 1 => decide (a ≤ b) | 2 => decide (a > b) | 3 => decide (a ≥ b) | _ => false

def cmpOpR (op : Nat) (a b : Rat) : Bool :=
  match op with
  | 0 => decide (a < b) | 1 => decide (a ≤ b) | 2 => decide (a > b) | 3 => decide (a ≥ b) | _ => false

/-! ### position -/
def latitude : Option Rat → Int | none => 900000001 | some x => trunc x
def longitude : Option Rat → Int | none => 1800000001 | some x => trunc x

/-! ### altitude -/
structure AltP where
  loOp : Nat
  loGuard : Int
  loCode : Int
  hiOp : Nat
  hiGuard : Int
  hiCode : Int
  deriving Repr, DecidableEq

def camAlt : AltP := ⟨CAM_ALT_LO_OP, CAM_ALT_LO_GUARD, CAM_ALT_LO_CODE, CAM_ALT_HI_OP, CAM_ALT_HI_GUARD, CAM_ALT_HI_CODE⟩
def vamAlt : AltP := ⟨VAM_ALT_LO_OP, VAM_ALT_LO_GUARD, VAM_ALT_LO_CODE, VAM_ALT_HI_OP, VAM_ALT_HI_GUARD, VAM_ALT_HI_CODE⟩
def denmAlt : AltP := ⟨DENM_ALT_LO_OP, DENM_ALT_LO_GUARD, DENM_ALT_LO_CODE, DENM_ALT_HI_OP, DENM_ALT_HI_GUARD, DENM_ALT_HI_CODE⟩
/-- the guards of the pinned commit (before the `fix:`): `alt < -800000`, `alt > 613000` -/
def oldAlt : AltP := ⟨0, -800000, -100000, 2, 613000, 800000⟩

def altitudeG (p : AltP) (x : Rat) : Int :=
  let a := trunc x
  if cmpOp p.loOp a p.loGuard then p.loCode
  else if cmpOp p.hiOp a p.hiGuard then p.hiCode
  else a

def altitude (p : AltP) : Option Rat → Int | none => 800001 | some x => altitudeG p x

/-- `create_altitude_confidence`: first ladder step `k` with `epv <op> k` (the operator is regenerated from the
source: 1 `<=` as the CDD says, 0 `<` in the unrepaired code) -/
def altConfFromG (op : Nat) : List (Rat × String) → Rat → String
  | [], _ => "outOfRange"
  | (k, name) :: rest, epv => if cmpOpR op epv k then name else altConfFromG op rest epv

/-- the bound of the class chosen by `altConfFromG` (none = outOfRange) -/
def altBoundFromG (op : Nat) : List (Rat × String) → Rat → Option Rat
  | [], _ => none
  | (k, _) :: rest, epv => if cmpOpR op epv k then some k else altBoundFromG op rest epv

def altConf : Option Rat → String | none => "unavailable" | some epv => altConfFromG ALT_CONF_OP ALT_CONF_LADDER epv
def altBound (epv : Rat) : Option Rat := altBoundFromG ALT_CONF_OP ALT_CONF_LADDER epv

/-! ### heading -/
def headingG (modulus : Nat) (x : Rat) : Int :=
  if modulus = 0 then trunc x else trunc x % (modulus : Int)

def heading (modulus : Nat) : Option Rat → Int | none => 3601 | some x => headingG modulus x

/-- `create_heading_confidence(epd)`: raw `epd` for the guard, `epd10` = the double `epd*10` -/
def headingConfG (op : Nat) (guardX10 : Int) (code : Int) (floor : Int) (epd epd10 : Rat) : Int :=
  if cmpOpR op epd ((guardX10 : Rat) / 10) then
    (if floor = 0 then trunc epd10 else max floor (trunc epd10))
  else code

def headingConf : Option (Rat × Rat) → Int
  | none => 127
  | some (epd, epd10) => headingConfG HEADING_CONF_OP HEADING_CONF_GUARD_X10 HEADING_CONF_OUT_OF_RANGE HEADING_CONF_FLOOR epd epd10

/-! ### speed -/
def speedG (op : Nat) (guard code : Int) (x : Rat) : Int :=
  let v := trunc x
  if cmpOp op v guard then code else v

def camSpeed : Option Rat → Int | none => 16383 | some x => speedG CAM_SPEED_OP CAM_SPEED_GUARD CAM_SPEED_CODE x
def vamSpeed : Option Rat → Int | none => 16383 | some x => speedG VAM_SPEED_OP VAM_SPEED_GUARD VAM_SPEED_CODE x

/-! ### position confidence ellipse -/
def semiAxisG (clamped op : Nat) (guard code floor : Int) (x100 : Rat) : Int :=
  let v := trunc x100
  if clamped = 0 then v
  else if cmpOp op v guard then code else max floor v

def semiAxis (x100 : Rat) : Int :=
  semiAxisG SEMI_AXIS_CLAMPED SEMI_AXIS_OP SEMI_AXIS_GUARD SEMI_AXIS_CODE SEMI_AXIS_FLOOR x100

structure Ellipse where
  major : Int
  minor : Int
  orientation : Int
  deriving Repr, DecidableEq

/-- one error estimate: raw value and the double `value*100` -/
structure Err where
  raw : Rat
  x100 : Rat

/-- `create_position_confidence`: epy is the north-south error, epx the east-west one; the orientation values are
regenerated from the source (0 / 900 after the repair, 0 / 0 before) -/
def ellipseWith (ax : Rat → Int) (epx epy : Err) : Ellipse :=
  if epy.raw ≥ epx.raw then ⟨ax epy.x100, ax epx.x100, ELLIPSE_ORIENT_NS⟩ else ⟨ax epx.x100, ax epy.x100, ELLIPSE_ORIENT_EW⟩

def camEllipse : Option (Err × Err) → Ellipse
  | none => ⟨4095, 4095, 3601⟩
  | some (epx, epy) => ellipseWith semiAxis epx epy

/-- the VAM builder's own `create_position_confidence` of the pinned commit: no swap, no clamp -/
def vamEllipseOld (epx epy : Err) : Ellipse := ⟨trunc epx.x100, trunc epy.x100, 0⟩

def vamEllipse : Option (Err × Err) → Ellipse
  | none => ⟨4095, 4095, 3601⟩
  | some (epx, epy) => if VAM_ELLIPSE_OWN = 0 then ellipseWith semiAxis epx epy else vamEllipseOld epx epy

/-! ### GenerationDeltaTime -/
/-- `GenerationDeltaTime.from_timestamp` on an exact millisecond UTC timestamp -/
def gdt (utcMs : Int) : Int := (utcMs - ITS_EPOCH_MS + ELAPSED_MILLISECONDS) % 65536

/-- `as_timestamp_in_certain_point`: absolute UTC ms of a generationDeltaTime seen at `rxMs`; `op` is the operator of
`if transformed_timestamp <op> utc_timestamp_in_millis` (regenerated: 1 `<=`) -/
def reconstructG (op : Nat) (msec rxMs : Int) : Int :=
  let cycles := Int.tdiv (rxMs - ITS_EPOCH_MS + ELAPSED_MILLISECONDS) 65536
  let t := msec + 65536 * cycles + ITS_EPOCH_MS - ELAPSED_MILLISECONDS
  if cmpOp op t rxMs then t else msec + 65536 * (cycles - 1) + ITS_EPOCH_MS - ELAPSED_MILLISECONDS

def reconstruct (msec rxMs : Int) : Int := reconstructG REC_CMP_OP msec rxMs

/-! ### reading a clock of float seconds in integer milliseconds -/
/-- Python `round(x)` on the exact value of a float: nearest integer, ties to even -/
def pyRound (x : Rat) : Int :=
  let f := x.floor
  let d := x - (f : Rat)
  if d < 1 / 2 then f else if 1 / 2 < d then f + 1 else if f % 2 = 0 then f else f + 1

/-- `round(t * 1000000) // 1000` on `p6` = the exact value of the double `t * 1000000`
(`GenerationDeltaTime.from_timestamp`, and the reception managements after the repair) -/
def msOfMicros (p6 : Rat) : Int := pyRound p6 / 1000

/-- the receiver's clock reading: `exact = 1` → `round(t*1000000)//1000`, otherwise the truncating `int(t*1000)` on
`p3` = the exact value of the double `t * 1000` -/
def clockMs (exact : Nat) (p3 p6 : Rat) : Int := if exact = 1 then msOfMicros p6 else trunc p3

/-! ### vehicle role, and the send state of the CAM transmission management that an encoding failure leaves untouched -/
/-- `_build_lf_container`: `_VEHICLE_ROLE_NAMES[role]` if the index exists, else "default" -/
def roleName (table : List String) (role : Nat) : String := table.getD role "default"

structure Tx where
  camCount : Nat := 0
  lastLf : Option Int := none
  /-- one entry per CAM handed to BTP, newest first: the vehicleRole of its low-frequency container, if included -/
  out : List (Option String) := []
  skipped : Nat := 0
  deriving Repr, DecidableEq

/-- `_should_include_lf` -/
def includeLf (s : Tx) (now : Int) : Bool :=
  s.camCount == 0 || (match s.lastLf with | none => true | some t => decide (now - t ≥ (T_GEN_CAM_LF_MS : Int)))

/-- `_generate_and_send_cam` as far as the role is concerned: the encoder raises on a name that is not in the
compiled enumeration, the exception is swallowed (Annex B.2.5) and NO state is updated; otherwise the CAM is sent and
`_update_send_state` runs -/
def txStep (table enum : List String) (role : Nat) (s : Tx) (now : Int) : Tx :=
  let lf := includeLf s now
  let name := roleName table role
  if lf && !(enum.contains name) then { s with skipped := s.skipped + 1 }
  else { camCount := s.camCount + 1, lastLf := if lf then some now else s.lastLf,
         out := (if lf then some name else none) :: s.out, skipped := s.skipped }

def txRun (table enum : List String) (role : Nat) (ticks : List Int) : Tx :=
  ticks.foldl (txStep table enum role) {}

/-! ### reports, the report cache of the CAM transmission management, histories -/
/-- a position/time/velocity report: every field optional; values are the exact doubles the builders see -/
structure Report where
  lat : Option Rat := none       -- lat * 10000000
  lon : Option Rat := none       -- lon * 10000000
  alt : Option Rat := none       -- altHAE * 100
  epx : Option Err := none
  epy : Option Err := none
  epv : Option Rat := none
  epd : Option (Rat × Rat) := none   -- (epd, epd * 10)
  track : Option Rat := none     -- track * 10
  speed : Option Rat := none     -- speed * 100

def Report.errs (r : Report) : Option (Err × Err) :=
  match r.epx, r.epy with
  | some a, some b => some (a, b)
  | _, _ => none

/-- `{**old, **new}`: a field of the new report wins, a missing one keeps the old value -/
def mergeReport (old new : Report) : Report :=
  { lat := new.lat <|> old.lat, lon := new.lon <|> old.lon, alt := new.alt <|> old.alt,
    epx := new.epx <|> old.epx, epy := new.epy <|> old.epy, epv := new.epv <|> old.epv,
    epd := new.epd <|> old.epd, track := new.track <|> old.track, speed := new.speed <|> old.speed }

/-- `CAMTransmissionManagement.location_service_callback`: `replace = 1` (regenerated) stores the report itself -/
def cacheStep (replace : Nat) (cache : Option Report) (r : Report) : Option Report :=
  if replace = 1 then some r else
    match cache with
    | none => some r
    | some o => some (mergeReport o r)

def cacheRun (replace : Nat) (rs : List Report) : Option Report := rs.foldl (cacheStep replace) none

/-- the report-derived data elements of a CAM / VAM -/
structure Fields where
  lat : Int
  lon : Int
  ell : Ellipse
  alt : Int
  altConf : String
  heading : Int
  hconf : Int
  speed : Int
  deriving Repr, DecidableEq

def camFields (r : Report) : Fields :=
  ⟨latitude r.lat, longitude r.lon, camEllipse r.errs, altitude camAlt r.alt, altConf r.epv,
   heading CAM_HEADING_MOD r.track, headingConf r.epd, camSpeed r.speed⟩

def vamFields (r : Report) : Fields :=
  ⟨latitude r.lat, longitude r.lon, vamEllipse r.errs, altitude vamAlt r.alt, altConf r.epv,
   heading VAM_HEADING_MOD r.track, headingConf r.epd, vamSpeed r.speed⟩

/-- the CAM built at a T_CheckCamGen tick after the reports `rs` (none: no report yet, nothing is generated) -/
def camAfter (replace : Nat) (rs : List Report) : Option Fields := (cacheRun replace rs).map camFields

/-! ### DENM event position of the emergency-vehicle service (one DENM per report) -/
structure EvPos where
  lat : Int
  lon : Int
  alt : Int
  deriving Repr, DecidableEq

def evUnavailable : EvPos := ⟨900000001, 1800000001, 800001⟩

/-- `trigger_denm_sending`: `fresh = 1` (regenerated) starts from the all-unavailable position, otherwise from the
position of the previous report -/
def evaStep (fresh : Nat) (p : EvPos) (r : Report) : EvPos :=
  let base := if fresh = 1 then evUnavailable else p
  ⟨(r.lat.map trunc).getD base.lat, (r.lon.map trunc).getD base.lon, (r.alt.map (altitudeG denmAlt)).getD base.alt⟩

def evaRun (fresh : Nat) (rs : List Report) : EvPos := rs.foldl (evaStep fresh) evUnavailable

/-- the stateless mapping of one report -/
def denmPos (r : Report) : EvPos := ⟨latitude r.lat, longitude r.lon, altitude denmAlt r.alt⟩

/-! ### cluster information container of the VRU service, built while another thread completes a cluster break-up -/
structure Cluster where
  id : Nat
  radius : Rat
  cardinality : Nat
  deriving DecidableEq

structure Mgr where
  leader : Bool
  cluster : Option Cluster
  deriving DecidableEq

inductive InfoRes where
  | absent                                  -- `None`: no container
  | info (id : Nat) (radius : Int) (card : Nat)
  | fail                                    -- AttributeError: 'NoneType' object has no attribute ...
  deriving DecidableEq

/-- `{"radius": max(1, int(cluster.radius))}` etc. -/
def infoOf (c : Cluster) : InfoRes := .info c.id (max 1 (trunc c.radius)) c.cardinality

/-- the whole body of `get_cluster_information_container` as one atomic block -/
def infoAtomic (m : Mgr) : InfoRes :=
  match m.leader, m.cluster with
  | true, some c => infoOf c
  | _, _ => .absent

/-- `update()` at the end of the break-up warning (always one `with self._lock` block): the cluster is dropped -/
def breakupDone (_ : Mgr) : Mgr := ⟨false, none⟩

/-- program counter of the transmitting thread -/
inductive TxPc where
  | start
  | checked           -- state check passed (lock released again when the reads are outside the lock)
  | done (r : InfoRes)
  deriving DecidableEq

structure Conc where
  m : Mgr
  tx : TxPc
  updDone : Bool
  deriving DecidableEq

/-- one step of the transmitting thread.  `locked` (regenerated: no access outside `with self._lock`): check and
reads are one step; otherwise the check is one step and the reads of `self._cluster` a later one -/
def txThread (locked : Bool) (c : Conc) : Conc :=
  match c.tx with
  | .start =>
    if locked then { c with tx := .done (infoAtomic c.m) }
    else match c.m.leader, c.m.cluster with
      | true, some _ => { c with tx := .checked }
      | _, _ => { c with tx := .done .absent }
  | .checked =>
    match c.m.cluster with
    | some cl => { c with tx := .done (infoOf cl) }
    | none => { c with tx := .done .fail }
  | .done _ => c

def updThread (c : Conc) : Conc := if c.updDone then c else { c with m := breakupDone c.m, updDone := true }

/-- a schedule: `true` = the transmitting thread runs next, `false` = the maintenance thread -/
def concStep (locked : Bool) (c : Conc) (pick : Bool) : Conc := if pick then txThread locked c else updThread c

/-- run a schedule, then let the transmitting thread finish -/
def concRun (locked : Bool) (m : Mgr) (sched : List Bool) : InfoRes :=
  let c := sched.foldl (concStep locked) ⟨m, .start, false⟩
  match (txThread locked (txThread locked c)).tx with
  | .done r => r
  | _ => .fail

def infoLocked : Bool := CLUSTER_INFO_UNLOCKED.isEmpty

/-! ### path history of the CAM low-frequency container (`_get_path_history`, `_update_send_state`) -/

/-- one stored history entry as seen from the current report: the exact values of the doubles
`(h_lat - lat) * 10000000`, `(h_lon - lon) * 10000000` and `(now_ms - h_time_ms) / 10` -/
structure HOff where
  dlat : Rat
  dlon : Rat
  dt : Rat

structure PathPoint where
  dlat : Int
  dlon : Int
  dalt : Int
  dtime : Int
  deriving Repr, DecidableEq

/-- the interval of ROUNDED offsets the loop accepts (regenerated: the complement of its `break` guards) -/
structure PhGuard where
  latLo : Int
  latHi : Int
  lonLo : Int
  lonHi : Int
  deriving Repr, DecidableEq

def phGuard : PhGuard := ⟨PH_LAT_LO, PH_LAT_HI, PH_LON_LO, PH_LON_HI⟩

/-- `round(...)`, `round(...)`, the literal deltaAltitude, `max(lo, min(hi, round(...)))` -/
def pathPointOf (h : HOff) : PathPoint :=
  ⟨pyRound h.dlat, pyRound h.dlon, PH_DALT, max PH_DT_LO (min PH_DT_HI (pyRound h.dt))⟩

def PhGuard.accepts (g : PhGuard) (p : PathPoint) : Bool :=
  decide (g.latLo ≤ p.dlat) && decide (p.dlat ≤ g.latHi) && decide (g.lonLo ≤ p.dlon) && decide (p.dlon ≤ g.lonHi)

/-- the loop of `_get_path_history` over the stored entries NEWEST FIRST: leave at the first entry outside the guard,
and after the append that makes `len(result) >= cap`; `n` = points already emitted -/
def phLoop (g : PhGuard) (cap : Int) (n : Nat) : List HOff → List PathPoint
  | [] => []
  | h :: rest =>
    if !g.accepts (pathPointOf h) then []
    else if (n : Int) + 1 ≥ cap then [pathPointOf h]
    else pathPointOf h :: phLoop g cap (n + 1) rest

def pathHistory (hs : List HOff) : List PathPoint := phLoop phGuard PH_CAP 0 hs

/-- asn1tools does not range-check: a point survives the encoder iff every component lies inside its constraint -/
def PathPoint.encodable (p : PathPoint) : Bool :=
  decide (DeltaLatitude_lo ≤ p.dlat) && decide (p.dlat ≤ DeltaLatitude_hi) &&
  decide (DeltaLongitude_lo ≤ p.dlon) && decide (p.dlon ≤ DeltaLongitude_hi) &&
  decide (DeltaAltitude_lo ≤ p.dalt) && decide (p.dalt ≤ DeltaAltitude_hi) &&
  decide (PathDeltaTime_lo ≤ p.dtime) && decide (p.dtime ≤ PathDeltaTime_hi)

def pathEncodable (ps : List PathPoint) : Bool := ps.all PathPoint.encodable && decide ((ps.length : Int) ≤ Path_size_hi)

/-- send state of the CAM transmission management as far as the path history is concerned -/
structure PhTx where
  camCount : Nat := 0
  lastLf : Option Int := none
  /-- `len(self._path_history)` -/
  histLen : Nat := 0
  /-- one entry per CAM handed to BTP, newest first: the pathHistory of its low-frequency container, if included -/
  out : List (Option (List PathPoint)) := []
  skipped : Nat := 0
  deriving Repr, DecidableEq

def PhTx.lfDue (s : PhTx) (now : Int) : Bool :=
  s.camCount == 0 || (match s.lastLf with | none => true | some t => decide (now - t ≥ (T_GEN_CAM_LF_MS : Int)))

/-- one generation attempt (`_generate_and_send_cam`) at `now`.  `pos`: the report carries lat and lon; `offs`: the
stored entries seen from the reported position, newest first (whatever the double arithmetic produced).  A path the
encoder cannot represent makes the encoding fail or produce an undecodable CAM: the exception is swallowed
(Annex B.2.5) and NO state is updated; otherwise the CAM is sent and `_update_send_state` runs -/
def phAttempt (g : PhGuard) (cap : Int) (s : PhTx) (now : Int) (pos : Bool) (offs : List HOff) : PhTx :=
  let lf := s.lfDue now
  let path := if pos then phLoop g cap 0 (offs.take s.histLen) else []
  if lf && !(pathEncodable path) then { s with skipped := s.skipped + 1 }
  else { camCount := s.camCount + 1, lastLf := if lf then some now else s.lastLf,
         histLen := if pos then min (s.histLen + 1) PH_STORE_CAP.toNat else s.histLen,
         out := (if lf then some path else none) :: s.out, skipped := s.skipped }

structure PhTick where
  now : Int
  pos : Bool
  offs : List HOff

def phRun (g : PhGuard) (cap : Int) (ticks : List PhTick) : PhTx :=
  ticks.foldl (fun s t => phAttempt g cap s t.now t.pos t.offs) {}

/-! ### the VAM between construction and BTP: clustering state x LDM adapter -/
inductive Vbs where
  | idle | standalone | leader | passive
  deriving Repr, DecidableEq

inductive JoinSub where
  | none | notify | waiting | cancelled | failed | joined
  deriving Repr, DecidableEq

/-- what the three methods the transmission path calls read of the clustering manager -/
structure ClState where
  st : Vbs
  cluster : Bool        -- `_cluster is not None`
  breakup : Bool        -- `_cluster.breakup_started is not None`
  join : JoinSub
  leaveNotify : Bool    -- `_leave_substate is NOTIFY`
  deriving Repr, DecidableEq

/-- `should_transmit_vam` (none: no clustering manager configured) -/
def shouldTransmit : Option ClState → Bool
  | none => true
  | some c => match c.st with
    | .idle => false
    | .passive => c.leaveNotify
    | _ => true

/-- `get_cluster_information_container` is not None -/
def infoDue : Option ClState → Bool
  | none => false
  | some c => c.st == .leader && c.cluster

/-- `get_cluster_operation_container` is not None -/
def opDue : Option ClState → Bool
  | none => false
  | some c => match c.st with
    | .idle => false
    | .standalone => c.join == .notify || c.join == .cancelled || c.join == .failed || c.leaveNotify
    | .passive => c.leaveNotify
    | .leader => c.cluster && c.breakup

inductive SendRes where
  | silent                                   -- no VAM (VRU-IDLE, VRU-PASSIVE)
  | sent (info op ldmFed : Bool)             -- handed to BTP, with / without the cluster containers; LDM fed
  | fail                                     -- the callback raises, nothing reaches BTP
  deriving Repr, DecidableEq

/-- `send_next_vam`.  With an LDM adapter the message is snapshotted and fed to the LDM BEFORE it is encoded; a deep
copy (`deep = 1`) cannot rebuild the CHOICE value of the cluster information container unless its class supports it
(`copyable`); an exception there is fatal for the VAM unless the block is guarded by a `try` (`guarded = 1`) -/
def vamSend (deep guarded : Nat) (copyable : Bool) (c : Option ClState) (ldm : Bool) : SendRes :=
  if !shouldTransmit c then .silent
  else
    let snapFails := ldm && deep == 1 && infoDue c && !copyable
    if snapFails then (if guarded == 1 then .sent (infoDue c) (opDue c) false else .fail)
    else .sent (infoDue c) (opDue c) ldm

/-! ### UPER of constrained whole numbers as asn1tools produces it (fixed part of a SEQUENCE of constrained INTEGERs) -/
/-- the encoder's accumulator: all bits so far as one natural number, and their count -/
structure Bits where
  value : Nat
  len : Nat
  deriving Repr, DecidableEq

/-- `integer_as_number_of_bits(maximum - minimum)` -/
def nbits (size : Nat) : Nat := if size = 0 then 0 else size.log2 + 1

/-- `append_non_negative_binary_integer(x, n)`: `value <<= n; value |= x` — NO check that x fits into n bits -/
def Bits.append (b : Bits) (x n : Nat) : Bits := ⟨b.value <<< n ||| x, b.len + n⟩

/-- a constrained INTEGER (lo..hi) -/
structure IntField where
  lo : Int
  hi : Int
  deriving Repr, DecidableEq

def IntField.width (f : IntField) : Nat := nbits (f.hi - f.lo).toNat

/-- `Integer.encode`: `data - minimum` in `number_of_bits` bits -/
def encodeInts (fs : List (IntField × Int)) : Bits :=
  fs.foldl (fun b fv => b.append (fv.2 - fv.1.lo).toNat fv.1.width) ⟨0, 0⟩

/-- decoding from the END of the bit string: the fields in reverse order -/
def decodeRev (value : Nat) : List IntField → List Int
  | [] => []
  | f :: rest => (f.lo + ((value % 2 ^ f.width : Nat) : Int)) :: decodeRev (value >>> f.width) rest

/-- `Integer.decode` over the whole sequence -/
def decodeInts (b : Bits) (fs : List IntField) : List Int := (decodeRev b.value fs.reverse).reverse

/-! ### the event position of a DEN request between its acceptance and each repetition (round 5)

`request_denm_sending` hands the request to a repetition thread that re-reads `request.event_position` for EVERY
repetition, while the caller keeps (and may update in place) the dictionary it passed.  The position is a tree of
three Python objects: the top-level dict (latitude, longitude) and the two nested records `positionConfidenceEllipse`
and `altitude`.  `Share` says which objects of the request's position ARE the caller's objects; it is fixed by the
kind of copy taken at acceptance (regenerated `DENM_REQ_SNAPSHOT`: 2 deep, 1 shallow, 0 none). -/
structure EllRec where
  major : Int
  minor : Int
  orient : Int
  deriving Repr, DecidableEq

/-- altitudeValue and the index of altitudeConfidence in its enumeration -/
structure AltRec where
  value : Int
  conf : Nat
  deriving Repr, DecidableEq

structure ReqPos where
  lat : Int
  lon : Int
  ell : EllRec
  alt : AltRec
  deriving Repr, DecidableEq

/-- what the caller does with ITS dictionary after the request was accepted.  `ellInPlace e` / `altInPlace a`: any
in-place mutation of the nested record (item assignment, `.update(...)`) after which its content is `e` / `a`;
`ellRebind` / `altRebind`: the top-level key is bound to a NEW record -/
inductive CallerOp where
  | setLat (v : Int)
  | setLon (v : Int)
  | ellInPlace (e : EllRec)
  | altInPlace (a : AltRec)
  | ellRebind (e : EllRec)
  | altRebind (a : AltRec)
  deriving Repr, DecidableEq

structure Share where
  top : Bool
  ell : Bool
  alt : Bool
  deriving Repr, DecidableEq

structure SnapSt where
  caller : ReqPos
  req : ReqPos
  sh : Share
  deriving Repr, DecidableEq

def shareOf (kind : Nat) : Share :=
  if kind = 2 then ⟨false, false, false⟩ else if kind = 1 then ⟨false, true, true⟩ else ⟨true, true, true⟩

/-- acceptance of a request whose position dictionary holds `p` -/
def accept (kind : Nat) (p : ReqPos) : SnapSt := ⟨p, p, shareOf kind⟩

def callerStep (s : SnapSt) : CallerOp → SnapSt
  | .setLat v => { s with caller := { s.caller with lat := v }, req := if s.sh.top then { s.req with lat := v } else s.req }
  | .setLon v => { s with caller := { s.caller with lon := v }, req := if s.sh.top then { s.req with lon := v } else s.req }
  | .ellInPlace e => { s with caller := { s.caller with ell := e }, req := if s.sh.ell then { s.req with ell := e } else s.req }
  | .altInPlace a => { s with caller := { s.caller with alt := a }, req := if s.sh.alt then { s.req with alt := a } else s.req }
  | .ellRebind e =>
    if s.sh.top then { s with caller := { s.caller with ell := e }, req := { s.req with ell := e } }
    else { s with caller := { s.caller with ell := e }, sh := { s.sh with ell := false } }
  | .altRebind a =>
    if s.sh.top then { s with caller := { s.caller with alt := a }, req := { s.req with alt := a } }
    else { s with caller := { s.caller with alt := a }, sh := { s.sh with alt := false } }

/-- `hist` = the caller's operations before the 1st, between the 1st and 2nd, ... repetition; the result lists the
position each repetition encodes -/
def repsFrom (s : SnapSt) : List (List CallerOp) → List ReqPos
  | [] => []
  | ops :: rest => (ops.foldl callerStep s).req :: repsFrom (ops.foldl callerStep s) rest

def repetitions (kind : Nat) (p : ReqPos) (hist : List (List CallerOp)) : List ReqPos := repsFrom (accept kind p) hist

end FlexModel.Fac.Mapping

/-
Report -> data element mappings of the CAM / VAM builders and of the DENM event position
(`CooperativeAwarenessMessage.fullfill_*`, `VAMMessage.fullfill_*`,
`EmergencyVehicleApproachingService.trigger_denm_sending`) and the `GenerationDeltaTime` arithmetic.

Inputs are exact rationals: the exact value of the double the code passes to `int()` (e.g. the double product
`lat * 10000000`), and, where the code compares the raw value, the exact value of the raw double.
Guards, operators and codes are the ones regenerated from the source (`Generated.Fac`), so the functions mirror
the code that exists; the theorems in Props/C11 hold for the repaired values and re-open when they change.
-/
import Generated.FacConstants

namespace FlexModel.Fac.Mapping
open Generated.Fac

/-- Python `int(x)` on a float: truncation toward zero -/
def trunc (x : Rat) : Int := if 0 ≤ x then x.floor else x.ceil

/-- comparison by operator code (0 `<`, 1 `<=`, 2 `>`, 3 `>=`) -/
def cmpOp (op : Nat) (a b : Int) : Bool :=
  match op with
  | 0 => decide (a < b) | 1 => decide (a ≤ b) | 2 => decide (a > b) | 3 => decide (a ≥ b) | _ => false

def cmpOpR (op : Nat) (a b : Rat) : Bool :=
  match op with
  | 0 => decide (a < b) | 1 => decide (a ≤ b) | 2 => decide (a > b) | 3 => decide (a ≥ b) | _ => false

/-! ### position -/
def latitude : Option Rat → Int | none => 900000001 | some x => trunc x
def longitude : Option Rat → Int | none => 1800000001 | some x => trunc x

/-! ### altitude -/
structure AltP where
  loOp : Nat
  loGuard : Int
  loCode : Int
  hiOp : Nat
  hiGuard : Int
  hiCode : Int
  deriving Repr, DecidableEq

def camAlt : AltP := ⟨CAM_ALT_LO_OP, CAM_ALT_LO_GUARD, CAM_ALT_LO_CODE, CAM_ALT_HI_OP, CAM_ALT_HI_GUARD, CAM_ALT_HI_CODE⟩
def vamAlt : AltP := ⟨VAM_ALT_LO_OP, VAM_ALT_LO_GUARD, VAM_ALT_LO_CODE, VAM_ALT_HI_OP, VAM_ALT_HI_GUARD, VAM_ALT_HI_CODE⟩
def denmAlt : AltP := ⟨DENM_ALT_LO_OP, DENM_ALT_LO_GUARD, DENM_ALT_LO_CODE, DENM_ALT_HI_OP, DENM_ALT_HI_GUARD, DENM_ALT_HI_CODE⟩
/-- the guards of the pinned commit (before the `fix:`): `alt < -800000`, `alt > 613000` -/
def oldAlt : AltP := ⟨0, -800000, -100000, 2, 613000, 800000⟩

def altitudeG (p : AltP) (x : Rat) : Int :=
  let a := trunc x
  if cmpOp p.loOp a p.loGuard then p.loCode
  else if cmpOp p.hiOp a p.hiGuard then p.hiCode
  else a

def altitude (p : AltP) : Option Rat → Int | none => 800001 | some x => altitudeG p x

/-- `create_altitude_confidence`: first ladder step that the value is below -/
def altConfFrom : List (Rat × String) → Rat → String
  | [], _ => "outOfRange"
  | (k, name) :: rest, epv => if epv < k then name else altConfFrom rest epv

def altConf : Option Rat → String | none => "unavailable" | some epv => altConfFrom ALT_CONF_LADDER epv

/-! ### heading -/
def headingG (modulus : Nat) (x : Rat) : Int :=
  if modulus = 0 then trunc x else trunc x % (modulus : Int)

def heading (modulus : Nat) : Option Rat → Int | none => 3601 | some x => headingG modulus x

/-- `create_heading_confidence(epd)`: raw `epd` for the guard, `epd10` = the double `epd*10` -/
def headingConfG (op : Nat) (guardX10 : Int) (code : Int) (floor : Int) (epd epd10 : Rat) : Int :=
  if cmpOpR op epd ((guardX10 : Rat) / 10) then
    (if floor = 0 then trunc epd10 else max floor (trunc epd10))
  else code

def headingConf : Option (Rat × Rat) → Int
  | none => 127
  | some (epd, epd10) => headingConfG HEADING_CONF_OP HEADING_CONF_GUARD_X10 HEADING_CONF_OUT_OF_RANGE HEADING_CONF_FLOOR epd epd10

/-! ### speed -/
def speedG (op : Nat) (guard code : Int) (x : Rat) : Int :=
  let v := trunc x
  if cmpOp op v guard then code else v

def camSpeed : Option Rat → Int | none => 16383 | some x => speedG CAM_SPEED_OP CAM_SPEED_GUARD CAM_SPEED_CODE x
def vamSpeed : Option Rat → Int | none => 16383 | some x => speedG VAM_SPEED_OP VAM_SPEED_GUARD VAM_SPEED_CODE x

/-! ### position confidence ellipse -/
def semiAxisG (clamped op : Nat) (guard code floor : Int) (x100 : Rat) : Int :=
  let v := trunc x100
  if clamped = 0 then v
  else if cmpOp op v guard then code else max floor v

def semiAxis (x100 : Rat) : Int :=
  semiAxisG SEMI_AXIS_CLAMPED SEMI_AXIS_OP SEMI_AXIS_GUARD SEMI_AXIS_CODE SEMI_AXIS_FLOOR x100

structure Ellipse where
  major : Int
  minor : Int
  orientation : Int
  deriving Repr, DecidableEq

/-- one error estimate: raw value and the double `value*100` -/
structure Err where
  raw : Rat
  x100 : Rat

def ellipseWith (ax : Rat → Int) (epx epy : Err) : Ellipse :=
  if epy.raw ≥ epx.raw then ⟨ax epy.x100, ax epx.x100, 0⟩ else ⟨ax epx.x100, ax epy.x100, 0⟩

def camEllipse : Option (Err × Err) → Ellipse
  | none => ⟨4095, 4095, 3601⟩
  | some (epx, epy) => ellipseWith semiAxis epx epy

/-- the VAM builder's own `create_position_confidence` of the pinned commit: no swap, no clamp -/
def vamEllipseOld (epx epy : Err) : Ellipse := ⟨trunc epx.x100, trunc epy.x100, 0⟩

def vamEllipse : Option (Err × Err) → Ellipse
  | none => ⟨4095, 4095, 3601⟩
  | some (epx, epy) => if VAM_ELLIPSE_OWN = 0 then ellipseWith semiAxis epx epy else vamEllipseOld epx epy

/-! ### GenerationDeltaTime -/
/-- `GenerationDeltaTime.from_timestamp` on an exact millisecond UTC timestamp -/
def gdt (utcMs : Int) : Int := (utcMs - ITS_EPOCH_MS + ELAPSED_MILLISECONDS) % 65536

/-- `as_timestamp_in_certain_point`: absolute UTC ms of a generationDeltaTime seen at `rxMs` -/
def reconstruct (msec rxMs : Int) : Int :=
  let cycles := Int.tdiv (rxMs - ITS_EPOCH_MS + ELAPSED_MILLISECONDS) 65536
  let t := msec + 65536 * cycles + ITS_EPOCH_MS - ELAPSED_MILLISECONDS
  if t ≤ rxMs then t else msec + 65536 * (cycles - 1) + ITS_EPOCH_MS - ELAPSED_MILLISECONDS

end FlexModel.Fac.Mapping

/-
Overlapping DEN events (C17, round 4): the REPETITION BODY of `trigger_denm_messages` / `transmit_denm` at the level
of its individual accesses to the message object, executed by any number of repetition threads (one per event) under
ANY interleaving.

    new_denm = DecentralizedEnvironmentalNotificationMessage()          pc 0   new      (object of this repetition)
    new_denm.sequence_number = ...; fullfill_with_vehicle_data(...)     pc 1   fill the action id / station
    new_denm.fullfill_with_denrequest(denm_request)                     pc 2   fill the event position
    data = self.denm_coder.encode(denm_to_send.denm)                    pc 3   encode (reads the object)
    Area(latitude = denm_to_send.denm[...]["latitude"],                 pc 4   read the latitude of the circle centre
         longitude = denm_to_send.denm[...]["longitude"])               pc 5   read the longitude, hand over, k += 1

Which object a repetition works on is a STRUCTURAL fact of the source, re-read from /repo on every run
(`harness/gen_denm.py` -> `Generated/Denm.lean`): `sourceScope` is `perRepetition` (or `perEvent`) iff the argument of every
`self.transmit_denm(..)` is a local bound in the same loop body (once before the loop) to a fresh
`DecentralizedEnvironmentalNotificationMessage()`,
nothing reachable from the repetition body stores through `self` / a parameter / a global, and the only instance
attributes the body reads are the read-only collaborators.  Otherwise (seeded change C17-m5: one `self.new_denm`
refilled by every repetition of every event) it is `shared`.

The theorems (FlexModel/Fac/DenmRepLemmas.lean, Props/C17.lean) quantify over every list of events, every number of
repetitions and every schedule (any `List Nat` of thread ids; a finished thread stutters).  Core Lean + Generated only.
-/
import FlexModel.Fac.Denm
import Generated.Denm

namespace FlexModel.Fac.Denm.Rep
open FlexModel.Fac.Denm

/-- where the message object of a repetition lives -/
inductive Scope
  | perRepetition     -- a local of the loop body, bound to a fresh object in every repetition (the code as it is)
  | perEvent          -- a local of `trigger_denm_messages` bound to a fresh object before the loop, refilled
  | shared            -- ONE object reachable from the transmission management (instance attribute), refilled
  deriving DecidableEq, Repr

/-- object identity -/
inductive Obj
  | loc (t k : Nat)   -- the object thread `t` created in its repetition `k`
  | attr              -- the object behind the instance attribute
  deriving DecidableEq, Repr

def objOf : Scope → Nat → Nat → Obj
  | .perRepetition, t, k => .loc t k
  | .perEvent, t, _ => .loc t 0
  | .shared, _, _ => .attr

/-- the object is private to the thread of its event -/
def Scope.threadPrivate : Scope → Bool
  | .shared => false
  | _ => true

/-- the fields of a message object the property talks about -/
structure Msg where
  aid : ActionId
  pos : Pos
  deriving DecidableEq, Repr

/-- `generate_white_denm` -/
def white : Msg := ⟨⟨0, 0⟩, ⟨900000001, 1800000001⟩⟩

/-- one event as its repetition thread sees it: station, the sequence number `allocate_sequence_number` returned to
    this thread, the position of the request, the number of repetitions (⌈T/i⌉) -/
structure Event where
  station : Nat
  seq : Nat
  pos : Pos
  reps : Nat
  deriving DecidableEq, Repr

/-- a hand-over to the transport layer: which thread, the encoded DENM's action id and event position, the centre of
    the GBC circle -/
structure Out where
  thread : Nat
  aid : ActionId
  pos : Pos
  centre : Pos
  deriving DecidableEq, Repr

/-- control state of one repetition thread: repetition index, position inside the repetition body, the encoded
    payload (a copy taken by `encode`) and the latitude already read for the `Area` -/
structure Ctl where
  k : Nat := 0
  pc : Nat := 0
  data : Msg := white
  lat : Int := 0
  deriving DecidableEq, Repr

structure St where
  heap : Obj → Msg
  ctl : Nat → Ctl
  out : List Out

def init : St := { heap := fun _ => white, ctl := fun _ => {}, out := [] }

def updH (h : Obj → Msg) (o : Obj) (m : Msg) : Obj → Msg := fun x => if x = o then m else h x
def updC (c : Nat → Ctl) (t : Nat) (v : Ctl) : Nat → Ctl := fun x => if x = t then v else c x

/-- one access of thread `t` (event `e`) -/
def micro (sc : Scope) (t : Nat) (e : Event) (s : St) : St :=
  let c := s.ctl t
  let o := objOf sc t c.k
  if e.reps ≤ c.k then s else
  match c.pc with
  | 0 => { s with heap := (match sc with | .perRepetition => updH s.heap o white | _ => s.heap),
                  ctl := updC s.ctl t { c with pc := 1 } }
  | 1 => { s with heap := updH s.heap o { s.heap o with aid := ⟨e.station, e.seq⟩ }, ctl := updC s.ctl t { c with pc := 2 } }
  | 2 => { s with heap := updH s.heap o { s.heap o with pos := e.pos }, ctl := updC s.ctl t { c with pc := 3 } }
  | 3 => { s with ctl := updC s.ctl t { c with pc := 4, data := s.heap o } }
  | 4 => { s with ctl := updC s.ctl t { c with pc := 5, lat := (s.heap o).pos.lat } }
  | _ => { s with out := s.out ++ [⟨t, c.data.aid, c.data.pos, ⟨c.lat, (s.heap o).pos.lon⟩⟩],
                  ctl := updC s.ctl t { c with k := c.k + 1, pc := 0 } }

/-- thread `t` takes one step (unknown thread: stutter) -/
def stepT (sc : Scope) (evs : List Event) (s : St) (t : Nat) : St :=
  match evs[t]? with
  | none => s
  | some e => micro sc t e s

/-- any list of thread ids is a schedule -/
def run (sc : Scope) (evs : List Event) (sched : List Nat) : St := sched.foldl (stepT sc evs) init

/-- every thread has completed all its repetitions -/
def finished (evs : List Event) (s : St) : Bool :=
  (List.range evs.length).all (fun t => match evs[t]? with | some e => decide (e.reps ≤ (s.ctl t).k) | none => true)

/-- the hand-overs of thread `t` -/
def outsOf (s : St) (t : Nat) : List Out := s.out.filter (fun o => o.thread == t)

/-- a hand-over is the event's own: identity of the event, DENM position and circle centre at the event's position -/
def Own (evs : List Event) (o : Out) : Prop :=
  ∃ e, evs[o.thread]? = some e ∧ o.aid = ⟨e.station, e.seq⟩ ∧ o.pos = e.pos ∧ o.centre = e.pos

/-! ## Tie to the source -/

/-- instance attributes the repetition body may read: collaborators it only calls / reads (`self.vehicle_data` is
    read, never written, and not rebound while an event repeats - recorded assumption) -/
def collaborators : List String := ["btp_router", "denm_coder", "logging", "vehicle_data"]

/-- the regenerated facts say: the message object handed over in a repetition is local to that repetition -/
def factsOk : Bool :=
  Generated.Denm.bodySharedStores == 0 &&
  Generated.Denm.bodySelfAttrs.all (fun a => collaborators.contains a) &&
  !Generated.Denm.transmitArgs.isEmpty && Generated.Denm.transmitArgs.all (· ≤ 1)

/-- the scope of the message object in the tree under check: `transmitArgs` code 0 = bound in the repetition,
    1 = bound once per event (both private to the event's thread), anything else or a store through `self` = shared -/
def sourceScope : Scope :=
  if factsOk then (if Generated.Denm.transmitArgs.all (· == 0) then .perRepetition else .perEvent) else .shared

/-- round-robin schedule over `n` threads, `rounds` times -/
def roundRobin (n rounds : Nat) : List Nat := (List.range rounds).flatMap (fun _ => List.range n)

end FlexModel.Fac.Denm.Rep

/-
C10, VAM part: the rules of the property text / TS 103 300-3 §6.4.1 as monitors over the log
(report op, emitted VAM).  Own numbers (100 ms, 5 s, 2 s); no reference to the model state.
-/
import FlexModel.Fac.VamTM
import FlexModel.Fac.CamMonitor

namespace FlexModel.Fac.VamSpec
open FlexModel.Fac.Vam

abbrev Ev := Op × Option VamOut

def T_GenVamMin : Nat := 100
def T_GenVamMax : Nat := 5000
def T_LF : Nat := 2000

def noneOrSince (last : Option Nat) (d now : Nat) : Bool :=
  match last with | none => true | some t => decide (t + d ≤ now)
def within (last : Option Nat) (d now : Nat) : Bool :=
  match last with | none => true | some t => decide (now ≤ t + d)
def beyond (last : Option Nat) (d now : Nat) : Bool :=
  match last with | none => false | some t => decide (t + d < now)

/-! ### a VAM at the first report after activation (while not passive/idle, unless the transmission attempt fails) -/
structure FirstSt where
  sent : Bool := false

def firstMon (m : FirstSt) : Ev → Option FirstSt
  | (op, none) => if (!m.sent && op.gate && !op.fail) = true then none else some m
  | (_, some _) => some { sent := true }

/-! ### a VAM is built from the report that triggered it; nothing while passive/idle -/
def gdtOk (its : Option Nat) (gdt : Nat) : Bool :=
  match its with | some ts => decide (gdt = ts % 65536) | none => true

def contentMon (m : Unit) : Ev → Option Unit
  | (_, none) => some m
  | (op, some c) =>
    if op.gate = true ∧ c.rid = op.r.rid ∧ c.its = op.r.its ∧ c.wall = op.wall ∧ gdtOk op.r.its c.gdt = true
    then some m else none

/-! ### consecutive VAMs ≥ T_GenVamMin apart on the report timestamps (timestamps non-decreasing).
`strict = false` restricts the obligation to VAMs sent by the elapsed-time trigger (the part that holds for
the code as it is, known finding C10-KF1). -/
structure MinGapSt where
  last : Option Nat := none     -- timestamp of the report of the last VAM
  hi : Nat := 0                 -- largest timestamp seen
  mono : Bool := true           -- timestamps were non-decreasing so far

def gapOk (last its : Option Nat) (d : Nat) : Bool :=
  match last, its with
  | some t, some ts => decide (t + d ≤ ts)
  | _, _ => true

def monoNext (mono : Bool) (hi : Nat) (its : Option Nat) : Bool :=
  match its with | none => mono | some ts => mono && decide (hi ≤ ts)
def hiNext (hi : Nat) (its : Option Nat) : Nat :=
  match its with | none => hi | some ts => max hi ts

def minGapMon (strict : Bool) (m : MinGapSt) : Ev → Option MinGapSt
  | (op, out) =>
    let mono' := monoNext m.mono m.hi op.r.its
    let hi' := hiNext m.hi op.r.its
    match out with
    | none => some { m with mono := mono', hi := hi' }
    | some c =>
      if (mono' && (strict || decide (c.trig ≤ 1))) = true → gapOk m.last op.r.its T_GenVamMin = true
      then some { last := op.r.its, hi := hi', mono := mono' } else none

/-! ### at most T_GenVamMax + R apart while reports (≤ R apart, with timestamps) keep arriving and the
station is neither passive nor idle (a failing transmission attempt interrupts the obligation like a passive phase) -/
structure MaxGapSt where
  last : Option Nat := none
  prev : Option Nat := none
  ok : Bool := true

def spaced (prev : Option Nat) (ts R : Nat) : Bool :=
  match prev with | none => true | some p => decide (p ≤ ts ∧ ts ≤ p + R)

def maxGapMon (R : Nat) (m : MaxGapSt) : Ev → Option MaxGapSt
  | (op, out) =>
    match op.r.its with
    | none =>
      (match out with
       | none => some { m with ok := false }
       | some _ => some { last := none, prev := none, ok := true })
    | some ts =>
      let ok' := m.ok && op.gate && !op.fail && spaced m.prev ts R
      match out with
      | some _ =>
        if ok' = true → within m.last (T_GenVamMax + R) ts = true
        then some { last := some ts, prev := some ts, ok := true } else none
      | none =>
        if ok' = true ∧ beyond m.last T_GenVamMax ts = true then none
        else some { m with prev := some ts, ok := ok' }

/-! ### low-frequency container: in the first VAM and in every VAM ≥ 2 s (wall clock) after the last VAM that carried
it (the direction the property states); in no other VAM, except together with a cluster-operation container
(TS 103 300-3 clause 6.2, which the code follows: `has_cluster_op`) -/
structure LfSt where
  lastLf : Option Nat := none

def lfMon (m : LfSt) : Ev → Option LfSt
  | (_, none) => some m
  | (op, some c) =>
    let want := noneOrSince m.lastLf T_LF op.wall
    if (want = true → c.lf = true) ∧ (c.lf = true → want = true ∨ op.clusterOp = true)
    then some { lastLf := if c.lf then some op.wall else m.lastLf } else none

end FlexModel.Fac.VamSpec

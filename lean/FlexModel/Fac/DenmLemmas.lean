/-
Helper lemmas for Props/C17.lean (model: FlexModel/Fac/Denm.lean).
-/
import FlexModel.Fac.Denm
namespace FlexModel.Fac.Denm

theorem ceilDiv_zero (i : Nat) (hi : 0 < i) : ceilDiv 0 i = 0 := by
  unfold ceilDiv
  apply Nat.div_eq_of_lt
  omega

theorem ceilDiv_step (d i : Nat) (hi : 0 < i) (hd : 0 < d) : ceilDiv d i = ceilDiv (d - i) i + 1 := by
  unfold ceilDiv
  by_cases h : d < i
  · have h0 : d - i = 0 := by omega
    rw [h0, Nat.zero_add, Nat.div_eq_of_lt (by omega : i - 1 < i)]
    apply Nat.div_eq_of_lt_le <;> omega
  · have : d + i - 1 = (d - i + i - 1) + i := by omega
    rw [this, Nat.add_div_right _ hi]

/-- ⌈T/i⌉ is the least `n` with `T ≤ n·i` -/
theorem ceilDiv_spec (T i : Nat) (hi : 0 < i) :
    T ≤ ceilDiv T i * i ∧ ∀ n, T ≤ n * i → ceilDiv T i ≤ n := by
  unfold ceilDiv
  constructor
  · have h1 := Nat.div_add_mod (T + i - 1) i
    have h2 := Nat.mod_lt (T + i - 1) hi
    have : (T + i - 1) / i * i = i * ((T + i - 1) / i) := Nat.mul_comm _ _
    omega
  · intro n hn
    apply Nat.le_of_lt_succ
    rw [Nat.div_lt_iff_lt_mul hi, Nat.succ_mul]
    omega

theorem loop_spec (fuel i T t : Nat) (hi : 0 < i) (hf : T ≤ t + fuel) :
    loop fuel i T t = (List.range (ceilDiv (T - t) i)).map (fun k => t + k * i) := by
  induction fuel generalizing t with
  | zero =>
    have : T - t = 0 := by omega
    simp [loop, this, ceilDiv_zero i hi]
  | succ f ih =>
    unfold loop
    by_cases h : t < T
    · rw [if_pos h, ih (t + i) (by omega), ceilDiv_step (T - t) i hi (by omega), List.range_succ_eq_map]
      have e : T - t - i = T - (t + i) := by omega
      simp only [List.map_cons, List.map_map, Nat.zero_mul, Nat.add_zero, e]
      congr 1
      apply List.map_congr_left
      intro k _
      simp only [Function.comp, Nat.succ_mul]
      omega
    · have : T - t = 0 := by omega
      simp [h, this, ceilDiv_zero i hi]

theorem offsets_eq (i T : Nat) (hi : 0 < i) :
    offsets i T = (List.range (ceilDiv T i)).map (fun k => k * i) := by
  unfold offsets
  rw [loop_spec T i T 0 hi (by omega)]
  simp

theorem mem_offsets_iff (i T o : Nat) (hi : 0 < i) : o ∈ offsets i T ↔ ∃ k, o = k * i ∧ o < T := by
  rw [offsets_eq i T hi]
  simp only [List.mem_map, List.mem_range]
  have hs := ceilDiv_spec T i hi
  constructor
  · rintro ⟨k, hk, rfl⟩
    refine ⟨k, rfl, ?_⟩
    apply Nat.lt_of_not_le
    intro hle
    have := hs.2 k hle
    omega
  · rintro ⟨k, rfl, hlt⟩
    refine ⟨k, ?_, rfl⟩
    apply Nat.lt_of_not_le
    intro hle
    have := Nat.mul_le_mul_right i hle
    omega

theorem loopDrift_length (d : Nat → Nat) (fuel i T t now k : Nat) :
    (loopDrift d fuel i T t now k).length = (loop fuel i T t).length := by
  induction fuel generalizing t now k with
  | zero => rfl
  | succ f ih =>
    unfold loopDrift loop
    by_cases h : t < T
    · simp [h, ih]
    · simp [h]

theorem loopDrift_ge (d : Nat → Nat) (fuel i T t now k : Nat) (h0 : t ≤ now) :
    ∀ p ∈ List.zip (loop fuel i T t) (loopDrift d fuel i T t now k), p.1 ≤ p.2 := by
  induction fuel generalizing t now k with
  | zero => intro p hp; simp [loop, loopDrift] at hp
  | succ f ih =>
    unfold loopDrift loop
    by_cases h : t < T
    · simp only [h, if_true, List.zip_cons_cons, List.mem_cons]
      rintro p (rfl | hp)
      · exact h0
      · exact ih (t + i) (now + i + d k) (k + 1) (by omega) p hp
    · intro p hp; simp [h] at hp

theorem loopDrift_zero (fuel i T t k : Nat) : loopDrift (fun _ => 0) fuel i T t t k = loop fuel i T t := by
  induction fuel generalizing t k with
  | zero => rfl
  | succ f ih =>
    unfold loopDrift loop
    by_cases h : t < T
    · simp only [h, if_true, Nat.add_zero]; rw [ih]
    · simp [h]

/-- with `i = 0` the loop uses up any amount of fuel: it does not terminate -/
theorem loop_stuck (fuel T : Nat) (hT : 0 < T) : loop fuel 0 T 0 = stuckPrefix fuel := by
  induction fuel with
  | zero => rfl
  | succ f ih => simp [loop, hT, stuckPrefix, List.replicate_succ] at *; exact ih

theorem triggerOffsets_pos (i T : Int) (hi : 0 < i) :
    triggerOffsets i T = ((List.range (ceilDiv T.toNat i.toNat)).map (fun k => k * i.toNat), Ending.finished) := by
  unfold triggerOffsets
  by_cases hT : T ≤ 0
  · have : T.toNat = 0 := by omega
    simp [hT, this, ceilDiv_zero i.toNat (by omega)]
  · have h1 : ¬ i < 0 := by omega
    have h2 : ¬ i = 0 := by omega
    simp only [hT, h1, h2, if_false]
    rw [offsets_eq _ _ (by omega)]

/-- explicit form of an event's emission log -/
theorem runEvent_log (clk : Nat → Nat) (tm : TM) (start : Nat) (r : Request) (hi : 0 < r.interval) :
    (runEvent clk tm start r).2.1 =
      (List.range (ceilDiv r.period.toNat r.interval.toNat)).map
        (fun k => (k * r.interval.toNat,
                   mkReq (mkDenm tm.station tm.next r (clk (start + k * r.interval.toNat))))) := by
  simp [runEvent, alloc, triggerOffsets_pos _ _ hi, List.map_map, Function.comp_def]

theorem runEvent_tm (clk : Nat → Nat) (tm : TM) (start : Nat) (r : Request) :
    (runEvent clk tm start r).1 = { tm with next := (tm.next + 1) % seqMod } := by
  simp [runEvent, alloc]

theorem runEv_tm (clk : Nat → Nat) (tm : TM) (e : Ev) :
    (runEv clk tm e).1 = { tm with next := (tm.next + 1) % seqMod } := by
  cases e <;> simp [runEv, runEvent, runCrw, alloc]

/-- every message of an event carries the sequence number that was current when the event was served -/
theorem runEv_action (clk : Nat → Nat) (tm : TM) (e : Ev) :
    ∀ m ∈ (runEv clk tm e).2, m.2.denm.action = ⟨tm.station, tm.next⟩ ∧ m.2.denm.stationId = tm.station := by
  cases e with
  | rep s r =>
    intro m hm
    simp only [runEv, runEvent, alloc, List.mem_map] at hm
    obtain ⟨o, _, rfl⟩ := hm
    simp [mkReq, mkDenm]
  | crw s r =>
    intro m hm
    simp only [runEv, runCrw, alloc, List.mem_singleton] at hm
    subst hm
    simp [mkReq, mkDenm]

theorem runEvents_length (clk : Nat → Nat) (tm : TM) (evs : List Ev) :
    (runEvents clk tm evs).length = evs.length := by
  induction evs generalizing tm with
  | nil => rfl
  | cons e rest ih => simp [runEvents, ih]

/-- the `j`-th event served gets sequence number `(next + j) mod 65536` -/
theorem runEvents_action (clk : Nat → Nat) (tm : TM) (evs : List Ev) (hn : tm.next < seqMod)
    (j : Nat) (log : List (Nat × GbcReq)) (hj : (runEvents clk tm evs)[j]? = some log) :
    ∀ m ∈ log, m.2.denm.action = ⟨tm.station, (tm.next + j) % seqMod⟩ ∧ m.2.denm.stationId = tm.station := by
  induction evs generalizing tm j with
  | nil => simp [runEvents] at hj
  | cons e rest ih =>
    cases j with
    | zero =>
      simp only [runEvents, List.getElem?_cons_zero, Option.some.injEq] at hj
      subst hj
      have : (tm.next + 0) % seqMod = tm.next := by simp [Nat.mod_eq_of_lt hn]
      rw [this]
      exact runEv_action clk tm e
    | succ j =>
      simp only [runEvents, List.getElem?_cons_succ] at hj
      have h := ih (runEv clk tm e).1 (by rw [runEv_tm]; exact Nat.mod_lt _ (by decide)) j hj
      rw [runEv_tm] at h
      simp only at h
      have e2 : ((tm.next + 1) % seqMod + j) % seqMod = (tm.next + (j + 1)) % seqMod := by
        unfold seqMod; omega
      rw [e2] at h
      exact h

theorem seq_distinct (a j j' : Nat) (h : j < j') (hd : j' - j < seqMod) :
    (a + j) % seqMod ≠ (a + j') % seqMod := by
  unfold seqMod at *; omega

theorem receiveAll_append (ldm : List LdmEntry) (ds : List (Denm × Int)) :
    receiveAll ldm ds = ldm ++ ds.map (fun (d, alt) => ⟨1, d.pos.lat, d.pos.lon, alt, 0, d⟩) := by
  induction ds generalizing ldm with
  | nil => simp [receiveAll]
  | cons x xs ih =>
    obtain ⟨d, alt⟩ := x
    simp only [receiveAll, List.foldl_cons] at ih ⊢
    rw [ih]
    simp [feedLdm, mkEntry]

/-! ## model lemmas (restatements of definitions: NOT property theorems; the content of these clauses is the
harness comparison of the real `BTPDataRequest` / LDM record with the model line) -/

/-- fields of the GBC request `mkReq` builds (definitional) -/
theorem model_gbc_request_fields (clk : Nat → Nat) (tm : TM) (start : Nat) (r : Request) :
    ∀ m ∈ (runEvent clk tm start r).2.1,
      m.2.shape = Shape.circle ∧ m.2.centre = r.pos ∧ m.2.denm.pos = r.pos ∧ m.2.port = 2002 ∧ 0 < m.2.a := by
  intro m hm
  simp only [runEvent, alloc, List.mem_map] at hm
  obtain ⟨o, _, rfl⟩ := hm
  simp [mkReq, mkDenm]

/-- without maintenance `feedLdm` appends the record `mkEntry` (definitional) -/
theorem model_feedLdm_appends (ldm : List LdmEntry) (ds : List (Denm × Int)) :
    (∀ e ∈ ldm, e ∈ receiveAll ldm ds) ∧ (receiveAll ldm ds).length = ldm.length + ds.length ∧
    ∀ x ∈ ds, mkEntry x.1 x.2 ∈ receiveAll ldm ds := by
  rw [receiveAll_append]
  refine ⟨fun e he => List.mem_append_left _ he, by simp, fun x hx => ?_⟩
  apply List.mem_append_right
  exact List.mem_map.2 ⟨x, hx, rfl⟩

/-! ## failing repetitions -/

theorem runEventF_offsets (clk : Nat → Nat) (tm : TM) (start : Nat) (r : Request) (fk : Nat → Fault) :
    (runEventF clk tm start r fk).2.1.map (·.1) =
      ((List.range (ceilDiv r.period.toNat r.interval.toNat)).filter (fun k => fk k != .encode)).map
        (· * r.interval.toNat) := by
  simp [runEventF, attempts, alloc, List.map_map, Function.comp_def]

theorem attempts_all (fk : Nat → Fault) (n : Nat) (h : ∀ k, k < n → fk k ≠ .encode) : attempts fk n = List.range n := by
  unfold attempts
  rw [List.filter_eq_self]
  intro k hk
  have := h k (List.mem_range.mp hk)
  simpa using this

theorem firstFault_none (fk : Nat → Fault) (n : Nat) (h : ∀ k, k < n → fk k = .ok) : firstFault fk n = none := by
  unfold firstFault
  rw [List.find?_eq_none]
  intro k hk
  simp [h k (List.mem_range.mp hk)]

theorem last_offset_aux (i n : Nat) (hn : 0 < n) :
    ((List.range n).map (fun k => k * i)).getLast? = some ((n - 1) * i) := by
  cases n with
  | zero => omega
  | succ m => simp [List.range_succ]

end FlexModel.Fac.Denm

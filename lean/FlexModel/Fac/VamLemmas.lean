/-
Helper lemmas for Props/C10 (VAM part): characterisation of `step`, and for every monitor of
`FlexModel.Fac.VamSpec` a one-step simulation relation with the model `FlexModel.Fac.Vam`.
-/
import FlexModel.Fac.VamSpec

namespace FlexModel.Fac.VamLemmas
open FlexModel.Fac FlexModel.Fac.Vam FlexModel.Fac.VamSpec Generated.Fac

theorem step_cfg (s : State) (op : Op) :
    (step s op).1.gated = s.gated ∧ (step s op).1.tGenVam = s.tGenVam ∧ (step s op).1.lfAfterSend = s.lfAfterSend := by
  by_cases hg : op.gate = true <;> cases ht : trigger s op.r <;> by_cases hf : op.fail = true <;>
    by_cases hl : s.lfAfterSend = true <;> simp [step, hg, ht, hf, hl]

theorem with_lastLf_self (s : State) : { s with lastLf := s.lastLf } = s := by cases s; rfl

/-- a report without a VAM: passive/idle, no trigger, or a failed transmission attempt; the state is unchanged except
(unrepaired variant only) for the low-frequency timer -/
theorem step_none (s : State) (op : Op) (h : (step s op).2 = none) :
    ∃ l, (step s op).1 = { s with lastLf := l } ∧ (s.lfAfterSend = true → l = s.lastLf) ∧
      (op.gate = false ∨ trigger s op.r = none ∨ op.fail = true) := by
  have same : (step s op).1 = s → (step s op).1 = { s with lastLf := s.lastLf } := fun e =>
    e.trans (with_lastLf_self s).symm
  by_cases hg : op.gate = true
  · cases ht : trigger s op.r with
    | none => exact ⟨s.lastLf, same (by simp [step, hg, ht]), fun _ => rfl, Or.inr (Or.inl rfl)⟩
    | some k =>
      by_cases hf : op.fail = true
      · by_cases hl : s.lfAfterSend = true
        · exact ⟨s.lastLf, same (by simp [step, hg, ht, hf, hl]), fun _ => rfl, Or.inr (Or.inr hf)⟩
        · exact ⟨_, by simp [step, hg, ht, hf, hl]; rfl, fun h => absurd h hl, Or.inr (Or.inr hf)⟩
      · simp [step, hg, ht, hf] at h
  · simp at hg
    exact ⟨s.lastLf, same (by simp [step, hg]), fun _ => rfl, Or.inl hg⟩

theorem step_some (s : State) (op : Op) (c : VamOut) (h : (step s op).2 = some c) :
    op.gate = true ∧ op.fail = false ∧ ∃ k, trigger s op.r = some k ∧
      c = { its := op.r.its, wall := op.wall, gdt := gdtOf op.r, lf := lfDue s op.wall || op.clusterOp, trig := k,
            rid := op.r.rid } ∧
      (step s op).1.lastGdt = some (gdtOf op.r) ∧
      (step s op).1.lastLf = (if (lfDue s op.wall || op.clusterOp) = true then some op.wall else s.lastLf) ∧
      (step s op).1.isFirst = false := by
  by_cases hg : op.gate = true
  · cases ht : trigger s op.r with
    | none => simp [step, hg, ht] at h
    | some k =>
      by_cases hf : op.fail = true
      · by_cases hl : s.lfAfterSend = true <;> simp [step, hg, ht, hf, hl] at h
      · simp [step, hg, ht, hf] at h
        simp at hf
        refine ⟨hg, hf, k, rfl, h.symm, ?_, ?_, ?_⟩ <;> simp [step, hg, ht, hf]
  · simp at hg; simp [step, hg] at h

/-- what a firing / non-firing trigger says about the elapsed generationDeltaTime -/
theorem trigger_some_diff (s : State) (r : Tpv) (k lg ts : Nat)
    (h : trigger s r = some k) (hl : s.lastGdt = some lg) (hts : r.its = some ts) :
    (k = 1 ∧ s.tGenVam ≤ gdtSub (ts % 65536) lg ∧ (s.gated = true → T_GENVAMMIN ≤ gdtSub (ts % 65536) lg)) ∨
    (2 ≤ k ∧ (s.gated = true → T_GENVAMMIN ≤ gdtSub (ts % 65536) lg)) := by
  unfold trigger at h
  rw [hl] at h
  simp only [hts] at h
  by_cases hg : s.gated = true ∧ gdtSub (ts % 65536) lg < T_GENVAMMIN
  · simp [hg] at h
  · rw [if_neg hg] at h
    have hgate : s.gated = true → T_GENVAMMIN ≤ gdtSub (ts % 65536) lg := by
      intro hgt
      have : ¬ gdtSub (ts % 65536) lg < T_GENVAMMIN := fun hh => hg ⟨hgt, hh⟩
      omega
    split at h
    · rename_i h1
      left; simp at h; exact ⟨h.symm, h1, hgate⟩
    · right
      refine ⟨?_, hgate⟩
      split at h
      · simp at h; omega
      · split at h
        · simp at h; omega
        · split at h
          · simp at h; omega
          · simp at h

theorem trigger_none_diff (s : State) (r : Tpv) (lg ts : Nat)
    (h : trigger s r = none) (hl : s.lastGdt = some lg) (hts : r.its = some ts) :
    gdtSub (ts % 65536) lg < s.tGenVam ∨ gdtSub (ts % 65536) lg < T_GENVAMMIN := by
  unfold trigger at h
  rw [hl] at h
  simp only [hts] at h
  by_cases hg : s.gated = true ∧ gdtSub (ts % 65536) lg < T_GENVAMMIN
  · right; exact hg.2
  · rw [if_neg hg] at h
    split at h
    · simp at h
    · left; omega

theorem trigger_first (s : State) (r : Tpv) (h : s.lastGdt = none) : trigger s r = some 0 := by
  unfold trigger; rw [h]

theorem trigger_zero (s : State) (r : Tpv) (k : Nat) (h : trigger s r = some k) (lg : Nat)
    (hl : s.lastGdt = some lg) : 1 ≤ k ∧ ∃ ts, r.its = some ts := by
  cases hts : r.its with
  | none => unfold trigger at h; rw [hl] at h; simp [hts] at h
  | some ts =>
    rcases trigger_some_diff s r k lg ts h hl hts with ⟨h1, _⟩ | ⟨h2, _⟩
    · exact ⟨by omega, ts, rfl⟩
    · exact ⟨by omega, ts, rfl⟩

/-! first -/
theorem first_sim (s : State) (m : FirstSt) (op : Op) (hR : m.sent = s.lastGdt.isSome) :
    ∃ m', firstMon m (op, (step s op).2) = some m' ∧ m'.sent = (step s op).1.lastGdt.isSome := by
  cases hc : (step s op).2 with
  | none =>
    obtain ⟨l, hs, _, hwhy⟩ := step_none s op hc
    rw [hs]
    refine ⟨m, ?_, hR⟩
    simp only [firstMon]
    rw [if_neg]
    intro hh
    simp only [Bool.and_eq_true, Bool.not_eq_true'] at hh
    obtain ⟨⟨hsent, hgate⟩, hfail⟩ := hh
    rcases hwhy with hg | ht | hf
    · rw [hg] at hgate; simp at hgate
    · have : s.lastGdt = none := by
        cases hl : s.lastGdt with
        | none => rfl
        | some x => rw [hR, hl] at hsent; simp at hsent
      rw [trigger_first s op.r this] at ht
      simp at ht
    · rw [hf] at hfail; simp at hfail
  | some c =>
    obtain ⟨_, _, k, _, _, hg, _, _⟩ := step_some s op c hc
    exact ⟨{ sent := true }, rfl, by rw [hg]; rfl⟩

/-! content -/
theorem gdtOk_gdtOf (r : Tpv) : gdtOk r.its (gdtOf r) = true := by
  obtain ⟨rid, its, pos, v, h⟩ := r
  cases its <;> simp [gdtOk, gdtOf]

theorem content_sim (s : State) (op : Op) :
    ∃ m', contentMon () (op, (step s op).2) = some m' := by
  cases hc : (step s op).2 with
  | none => exact ⟨(), rfl⟩
  | some c =>
    obtain ⟨hg, _, k, _, hcx, _, _, _⟩ := step_some s op c hc
    refine ⟨(), ?_⟩
    simp only [contentMon]
    rw [if_pos]
    rw [hcx]
    refine ⟨hg, rfl, rfl, rfl, ?_⟩
    exact gdtOk_gdtOf op.r

/-! LF (repaired variant `lfAfterSend`: the timer follows the transmissions) -/
def LfRel (s : State) (m : LfSt) : Prop :=
  s.lfAfterSend = true ∧ m.lastLf = s.lastLf ∧ (s.isFirst = true → s.lastLf = none)

theorem lfDue_eq (s : State) (wall : Nat) (h : s.isFirst = true → s.lastLf = none) :
    lfDue s wall = noneOrSince s.lastLf T_LF wall := by
  have h2 : T_GENVAM_LFMIN = 2000 := by decide
  unfold lfDue noneOrSince T_LF
  cases hf : s.isFirst with
  | true => simp [h hf]
  | false =>
    cases hl : s.lastLf with
    | none => simp
    | some l => simp [h2]

theorem lf_sim (s : State) (m : LfSt) (op : Op) (hR : LfRel s m) :
    ∃ m', lfMon m (op, (step s op).2) = some m' ∧ LfRel (step s op).1 m' := by
  obtain ⟨hA, hL, h0⟩ := hR
  have hA' : (step s op).1.lfAfterSend = true := by rw [(step_cfg s op).2.2]; exact hA
  cases hc : (step s op).2 with
  | none =>
    obtain ⟨l, hs, hl, _⟩ := step_none s op hc
    rw [hs, hl hA, with_lastLf_self s]; exact ⟨m, rfl, hA, hL, h0⟩
  | some c =>
    obtain ⟨_, _, k, _, hcx, _, hlf, hfirst⟩ := step_some s op c hc
    have hw : noneOrSince m.lastLf T_LF op.wall = lfDue s op.wall := by
      rw [hL]; exact (lfDue_eq s op.wall h0).symm
    have hclf : c.lf = (lfDue s op.wall || op.clusterOp) := by rw [hcx]
    refine ⟨{ lastLf := if c.lf then some op.wall else m.lastLf }, ?_, hA', ?_, fun h => by rw [hfirst] at h; simp at h⟩
    · simp only [lfMon, hw, hclf]
      rw [if_pos]
      constructor
      · intro h; simp [h]
      · intro h
        simp only [Bool.or_eq_true] at h
        exact h
    · rw [hlf, hclf, hL]

/-! min gap -/
def MinRel (strict : Bool) (s : State) (m : MinGapSt) : Prop :=
  (s.gated = true ∨ (strict = false ∧ T_GenVamMin ≤ s.tGenVam)) ∧
  ∀ t, m.last = some t → s.lastGdt = some (t % 65536) ∧ t ≤ m.hi

theorem gdt_gap (t ts d : Nat) (hle : t ≤ ts) (h : d ≤ gdtSub (ts % 65536) (t % 65536)) : t + d ≤ ts := by
  unfold gdtSub at h
  split at h <;> omega

theorem minGap_sim (strict : Bool) (s : State) (m : MinGapSt) (op : Op) (hR : MinRel strict s m) :
    ∃ m', minGapMon strict m (op, (step s op).2) = some m' ∧ MinRel strict (step s op).1 m' := by
  obtain ⟨hcfg, hL⟩ := hR
  have hmin : T_GENVAMMIN = 100 := by decide
  have hcfg' : ((step s op).1.gated = true ∨ (strict = false ∧ T_GenVamMin ≤ (step s op).1.tGenVam)) := by
    rw [(step_cfg s op).1, (step_cfg s op).2.1]; exact hcfg
  cases hc : (step s op).2 with
  | none =>
    obtain ⟨l, hs, _, _⟩ := step_none s op hc
    refine ⟨_, rfl, hcfg', ?_⟩
    intro t ht
    rw [hs]
    obtain ⟨h1, h2⟩ := hL t ht
    refine ⟨h1, ?_⟩
    show t ≤ hiNext m.hi op.r.its
    unfold hiNext
    split <;> omega
  | some c =>
    obtain ⟨_, _, k, htr, hcx, hg, _, _⟩ := step_some s op c hc
    have hck : c.trig = k := by rw [hcx]
    have hcond : (monoNext m.mono m.hi op.r.its &&
        (strict || decide (c.trig ≤ 1))) = true → gapOk m.last op.r.its T_GenVamMin = true := by
      intro hh
      cases hml : m.last with
      | none => rfl
      | some t =>
        cases hts : op.r.its with
        | none => rfl
        | some ts =>
          obtain ⟨hlg, hhi⟩ := hL t hml
          rw [hts] at hh
          simp only [monoNext, Bool.and_eq_true, Bool.or_eq_true, decide_eq_true_eq] at hh
          obtain ⟨⟨_, hmono⟩, hsk⟩ := hh
          simp only [gapOk, T_GenVamMin]
          apply decide_eq_true
          apply gdt_gap t ts 100 (by omega)
          rcases trigger_some_diff s op.r k (t % 65536) ts htr hlg hts with ⟨hk1, htg, hgt⟩ | ⟨hk2, hgt⟩
          · rcases hcfg with hgated | ⟨_, htmin⟩
            · have := hgt hgated; omega
            · simp only [T_GenVamMin] at htmin; omega
          · rcases hcfg with hgated | ⟨hns, _⟩
            · have := hgt hgated; omega
            · rw [hns, hck] at hsk
              simp at hsk
              omega
    refine ⟨{ last := op.r.its, hi := hiNext m.hi op.r.its, mono := monoNext m.mono m.hi op.r.its }, ?_, hcfg', ?_⟩
    · simp only [minGapMon]
      rw [if_pos hcond]
    · intro t ht
      simp only at ht
      rw [hg]
      simp only [gdtOf, ht, hiNext]
      exact ⟨trivial, by omega⟩

/-! max gap -/
def MaxRel (R G : Nat) (s : State) (m : MaxGapSt) : Prop :=
  (s.tGenVam ≤ G ∧ T_GenVamMin ≤ G ∧ G ≤ T_GenVamMax ∧ R + G ≤ 65536) ∧
  ∀ t, m.last = some t → s.lastGdt = some (t % 65536) ∧
    ∃ p, m.prev = some p ∧ (m.ok = true → t ≤ p ∧ p < t + G)

theorem gdt_diff_eq (t ts : Nat) (hle : t ≤ ts) (h : ts - t < 65536) :
    gdtSub (ts % 65536) (t % 65536) = ts - t := by
  unfold gdtSub
  split <;> omega

theorem maxGap_sim (R G : Nat) (s : State) (m : MaxGapSt) (op : Op) (hR : MaxRel R G s m) :
    ∃ m', maxGapMon R m (op, (step s op).2) = some m' ∧ MaxRel R G (step s op).1 m' := by
  obtain ⟨⟨hT, hG1, hG2, hRR⟩, hL⟩ := hR
  have hmin : T_GENVAMMIN = 100 := by decide
  have hcfg := step_cfg s op
  have hcfg' : (step s op).1.tGenVam ≤ G ∧ T_GenVamMin ≤ G ∧ G ≤ T_GenVamMax ∧ R + G ≤ 65536 := by
    rw [hcfg.2.1]; exact ⟨hT, hG1, hG2, hRR⟩
  simp only [T_GenVamMax, T_GenVamMin] at hG1 hG2
  cases hts : op.r.its with
  | none =>
    cases hc : (step s op).2 with
    | none =>
      obtain ⟨l, hs, _, _⟩ := step_none s op hc
      refine ⟨{ m with ok := false }, by simp only [maxGapMon, hts], ?_⟩
      rw [hs]
      refine ⟨⟨hT, hG1, hG2, hRR⟩, ?_⟩
      intro t ht
      obtain ⟨h1, p, hp, _⟩ := hL t ht
      exact ⟨h1, p, hp, fun h => by simp at h⟩
    | some c =>
      refine ⟨{ last := none, prev := none, ok := true }, by simp only [maxGapMon, hts], ?_⟩
      refine ⟨hcfg', ?_⟩
      intro t ht; simp at ht
  | some ts =>
    cases hc : (step s op).2 with
    | none =>
      obtain ⟨l, hs, _, hwhy⟩ := step_none s op hc
      have hfacts : (m.ok && op.gate && !op.fail && spaced m.prev ts R) = true → ∀ t, m.last = some t →
          t ≤ ts ∧ ts < t + G := by
        intro hok t ht
        simp only [Bool.and_eq_true, Bool.not_eq_true'] at hok
        obtain ⟨⟨⟨hmok, hgate⟩, hnf⟩, hsp⟩ := hok
        obtain ⟨hlg, p, hp, hpb⟩ := hL t ht
        obtain ⟨h1, h2⟩ := hpb hmok
        rw [hp] at hsp
        simp only [spaced, decide_eq_true_eq] at hsp
        rcases hwhy with hg | htn | hf
        · rw [hg] at hgate; simp at hgate
        · have hd := trigger_none_diff s op.r (t % 65536) ts htn hlg hts
          have he := gdt_diff_eq t ts (by omega) (by omega)
          rw [he] at hd
          omega
        · rw [hf] at hnf; simp at hnf
      have hnb : ¬ ((m.ok && op.gate && !op.fail && spaced m.prev ts R) = true ∧ beyond m.last T_GenVamMax ts = true) := by
        rintro ⟨hok, hb⟩
        cases hml : m.last with
        | none => rw [hml] at hb; simp [beyond] at hb
        | some t =>
          rw [hml] at hb
          simp only [beyond, T_GenVamMax] at hb
          have hb := of_decide_eq_true hb
          have := hfacts hok t hml
          omega
      refine ⟨{ m with prev := some ts, ok := m.ok && op.gate && !op.fail && spaced m.prev ts R }, ?_, ?_⟩
      · simp only [maxGapMon, hts]
        rw [if_neg hnb]
      · rw [hs]
        refine ⟨⟨hT, hG1, hG2, hRR⟩, ?_⟩
        intro t ht
        obtain ⟨h1, _⟩ := hL t ht
        exact ⟨h1, ts, rfl, fun hok => hfacts hok t ht⟩
    | some c =>
      obtain ⟨_, _, k, htr, hcx, hg, _, _⟩ := step_some s op c hc
      have hcond : (m.ok && op.gate && !op.fail && spaced m.prev ts R) = true → within m.last (T_GenVamMax + R) ts = true := by
        intro hok
        simp only [Bool.and_eq_true] at hok
        obtain ⟨⟨⟨hmok, _⟩, _⟩, hsp⟩ := hok
        cases hml : m.last with
        | none => rfl
        | some t =>
          obtain ⟨_, p, hp, hpb⟩ := hL t hml
          obtain ⟨h1, h2⟩ := hpb hmok
          rw [hp] at hsp
          simp only [spaced, decide_eq_true_eq] at hsp
          simp only [within, T_GenVamMax]
          apply decide_eq_true
          omega
      refine ⟨{ last := some ts, prev := some ts, ok := true }, ?_, ?_⟩
      · simp only [maxGapMon, hts]
        rw [if_pos hcond]
      · refine ⟨hcfg', ?_⟩
        intro t ht
        have : t = ts := by simp at ht; exact ht.symm
        subst this
        rw [hg]
        simp only [gdtOf, hts]
        exact ⟨trivial, t, rfl, fun _ => by omega⟩

end FlexModel.Fac.VamLemmas

/-
Line protocol helpers shared by all model drivers: one operation per input line
(space-separated tokens), one canonical output line per operation.
-/
namespace FlexModel.Proto

def tokens (line : String) : List String :=
  (line.trimAscii.toString.splitOn " ").filter (· ≠ "")

def nat? (s : String) : Option Nat := s.toNat?
def int? (s : String) : Option Int := s.toInt?

def natD (s : String) : Nat := s.toNat?.getD 0

def joinNat (xs : List Nat) : String := " ".intercalate (xs.map toString)

/-- a domain driver: initial state and a step function on tokenised lines -/
structure Domain where
  σ : Type
  init : σ
  step : σ → List String → σ × String

partial def loop (d : Domain) (h : IO.FS.Stream) (out : IO.FS.Stream) (s : d.σ) : IO Unit := do
  let line ← h.getLine
  if line.isEmpty then return ()
  let (s', o) := d.step s (tokens line)
  out.putStrLn o
  loop d h out s'

end FlexModel.Proto

namespace FlexModel.Proto
/-- `main` of a per-domain driver file -/
def runDomain (d : Domain) : IO UInt32 := do
  let stdin ← IO.getStdin
  let stdout ← IO.getStdout
  loop d stdin stdout d.init
  return 0
end FlexModel.Proto

/-
C11 — Facility messages faithfully encode the sensor input they were built from.
Property theorems only.  Model: `FlexModel/Fac/Mapping.lean` (guards/operators/codes regenerated from the source
into `Generated/FacConstants.lean`), ASN.1 ranges and special codes regenerated from the repo's ASN.1 text into
`Generated/Asn1Ranges.lean`; helper lemmas: `FlexModel/Fac/MappingLemmas.lean`.

All statements quantify over every exact rational input (the exact value of the double the code truncates);
`x` always denotes the already-scaled measurement (lat·1e7, altHAE·100, track·10, speed·100, epx·100, epd·10).
-/
import FlexModel.Fac.MappingLemmas
import FlexModel.Fac.MappingPathLemmas

namespace Props.C11
open FlexModel.Fac.Mapping FlexModel.Fac.MappingLemmas Generated.Fac Generated.Fac11
open Generated.Asn1

/-- the three ASN.1 module texts the coders compile (CAM, VAM, DENM) agree on the ranges and special codes of
every data element written by the mappings, and these are the values the theorems below use -/
theorem asn1_ranges :
    [Cam.Latitude_lo, Cam.Latitude_hi, Cam.Latitude_unavailable] = [-900000000, 900000001, 900000001] ∧
    [Cam.Longitude_lo, Cam.Longitude_hi, Cam.Longitude_unavailable] = [-1800000000, 1800000001, 1800000001] ∧
    [Cam.AltitudeValue_lo, Cam.AltitudeValue_hi, Cam.AltitudeValue_negativeOutOfRange, Cam.AltitudeValue_postiveOutOfRange,
      Cam.AltitudeValue_unavailable] = [-100000, 800001, -100000, 800000, 800001] ∧
    [Cam.HeadingValue_lo, Cam.HeadingValue_hi, Cam.HeadingValue_doNotUse, Cam.HeadingValue_unavailable] = [0, 3601, 3600, 3601] ∧
    [Vam.Wgs84AngleValue_lo, Vam.Wgs84AngleValue_hi, Vam.Wgs84AngleValue_doNotUse, Vam.Wgs84AngleValue_unavailable] = [0, 3601, 3600, 3601] ∧
    [Cam.HeadingConfidence_lo, Cam.HeadingConfidence_hi, Cam.HeadingConfidence_outOfRange, Cam.HeadingConfidence_unavailable] = [1, 127, 126, 127] ∧
    [Vam.Wgs84AngleConfidence_lo, Vam.Wgs84AngleConfidence_hi, Vam.Wgs84AngleConfidence_outOfRange, Vam.Wgs84AngleConfidence_unavailable] = [1, 127, 126, 127] ∧
    [Cam.SpeedValue_lo, Cam.SpeedValue_hi, Cam.SpeedValue_outOfRange, Cam.SpeedValue_unavailable] = [0, 16383, 16382, 16383] ∧
    [Cam.SemiAxisLength_lo, Cam.SemiAxisLength_hi, Cam.SemiAxisLength_doNotUse, Cam.SemiAxisLength_outOfRange,
      Cam.SemiAxisLength_unavailable] = [0, 4095, 0, 4094, 4095] ∧
    [Cam.GenerationDeltaTime_lo, Cam.GenerationDeltaTime_hi] = [0, 65535] ∧
    [Vam.Latitude_lo, Vam.Latitude_hi, Vam.Longitude_lo, Vam.Longitude_hi, Vam.AltitudeValue_lo, Vam.AltitudeValue_hi,
      Vam.SpeedValue_lo, Vam.SpeedValue_hi, Vam.SemiAxisLength_lo, Vam.SemiAxisLength_hi, Vam.GenerationDeltaTime_hi] =
      [Cam.Latitude_lo, Cam.Latitude_hi, Cam.Longitude_lo, Cam.Longitude_hi, Cam.AltitudeValue_lo, Cam.AltitudeValue_hi,
       Cam.SpeedValue_lo, Cam.SpeedValue_hi, Cam.SemiAxisLength_lo, Cam.SemiAxisLength_hi, Cam.GenerationDeltaTime_hi] ∧
    [Denm.Latitude_lo, Denm.Latitude_hi, Denm.Longitude_lo, Denm.Longitude_hi, Denm.AltitudeValue_lo, Denm.AltitudeValue_hi] =
      [Cam.Latitude_lo, Cam.Latitude_hi, Cam.Longitude_lo, Cam.Longitude_hi, Cam.AltitudeValue_lo, Cam.AltitudeValue_hi] := by
  decide

/-- absent measurement → the element's `unavailable` code (all elements, all three message kinds) -/
theorem absent_is_unavailable :
    latitude none = Cam.Latitude_unavailable ∧ longitude none = Cam.Longitude_unavailable ∧
    altitude camAlt none = Cam.AltitudeValue_unavailable ∧ altitude vamAlt none = Vam.AltitudeValue_unavailable ∧
    altitude denmAlt none = Denm.AltitudeValue_unavailable ∧
    heading CAM_HEADING_MOD none = Cam.HeadingValue_unavailable ∧ heading VAM_HEADING_MOD none = Vam.Wgs84AngleValue_unavailable ∧
    headingConf none = Cam.HeadingConfidence_unavailable ∧ camSpeed none = Cam.SpeedValue_unavailable ∧
    vamSpeed none = Vam.SpeedValue_unavailable ∧ altConf none = "unavailable" ∧
    camEllipse none = ⟨Cam.SemiAxisLength_unavailable, Cam.SemiAxisLength_unavailable, 3601⟩ ∧
    vamEllipse none = ⟨Vam.SemiAxisLength_unavailable, Vam.SemiAxisLength_unavailable, 3601⟩ := by
  decide

/-- latitude: every |lat| ≤ 90° is inside the constraint, never the unavailable code, within one unit (0.1 µdeg) -/
theorem latitude_spec (x : Rat) (h : -900000000 ≤ x ∧ x ≤ 900000000) :
    (Cam.Latitude_lo ≤ latitude (some x) ∧ latitude (some x) < Cam.Latitude_unavailable) ∧
    (x - 1 < (latitude (some x) : Rat) ∧ (latitude (some x) : Rat) < x + 1) := by
  have := position_spec x 900000000 (by simpa using h)
  simp only [latitude, Cam.Latitude_lo, Cam.Latitude_unavailable]
  exact ⟨by omega, this.2⟩

/-- longitude: every |lon| ≤ 180° is inside the constraint, never the unavailable code, within one unit -/
theorem longitude_spec (x : Rat) (h : -1800000000 ≤ x ∧ x ≤ 1800000000) :
    (Cam.Longitude_lo ≤ longitude (some x) ∧ longitude (some x) < Cam.Longitude_unavailable) ∧
    (x - 1 < (longitude (some x) : Rat) ∧ (longitude (some x) : Rat) < x + 1) := by
  have := position_spec x 1800000000 (by simpa using h)
  simp only [longitude, Cam.Longitude_lo, Cam.Longitude_unavailable]
  exact ⟨by omega, this.2⟩

/-- altitude, for EVERY input (no range assumption), CAM, VAM and DENM event position alike: the result is inside
the constraint (never wraps); ≤ −1000 m → negativeOutOfRange; ≥ 8000 m → positiveOutOfRange; anything in between is
represented within one unit (1 cm) and is none of the special codes -/
theorem altitude_spec (p : AltP) (hp : p = camAlt ∨ p = vamAlt ∨ p = denmAlt) (x : Rat) :
    let a := altitude p (some x)
    (Cam.AltitudeValue_lo ≤ a ∧ a ≤ Cam.AltitudeValue_hi) ∧
    (x ≤ -100000 → a = Cam.AltitudeValue_negativeOutOfRange) ∧
    (800000 ≤ x → a = Cam.AltitudeValue_postiveOutOfRange) ∧
    (-100000 < x → x < 800000 → (x - 1 < (a : Rat) ∧ (a : Rat) < x + 1) ∧
      a ≠ Cam.AltitudeValue_negativeOutOfRange ∧ a ≠ Cam.AltitudeValue_postiveOutOfRange ∧ a ≠ Cam.AltitudeValue_unavailable) := by
  have hg : altitudeG p x = altitudeG goodAlt x := by
    rcases hp with h | h | h <;> rw [h]
    · exact altitudeG_congr camAlt_ok x
    · exact altitudeG_congr vamAlt_ok x
    · exact altitudeG_congr denmAlt_ok x
  obtain ⟨h1, h2, h3, h4⟩ := altitudeG_spec x
  simp only [altitude, hg, Cam.AltitudeValue_lo, Cam.AltitudeValue_hi, Cam.AltitudeValue_negativeOutOfRange,
    Cam.AltitudeValue_postiveOutOfRange, Cam.AltitudeValue_unavailable]
  refine ⟨by omega, h2, h3, fun a b => ?_⟩
  obtain ⟨hc, h5, h6⟩ := h4 a b
  exact ⟨hc, by omega, by omega, by omega⟩

/-- altitude confidence: always one of the names of the ASN.1 enumeration (encodable) -/
theorem altitude_confidence_encodable (epv : Option Rat) :
    altConf epv ∈ Cam.AltitudeConfidence_names ∧ Vam.AltitudeConfidence_names = Cam.AltitudeConfidence_names ∧
    Denm.AltitudeConfidence_names = Cam.AltitudeConfidence_names :=
  ⟨altConf_encodable epv, by decide, by decide⟩

/-- altitude confidence, CDD reading (TS 102 894-2: class `alt-xxx-yy` "if the confidence value is equal to or less than"
its bound "and greater than" the previous one; `outOfRange` "greater than 200 metres"), for EVERY estimate:
the class written is listed with the LEAST bound of the ladder that is ≥ epv (so epv ≤ bound, and every smaller bound is
< epv: tightness), and `outOfRange` is written exactly when epv > 200 m -/
theorem altitude_confidence_class (epv : Rat) :
    (∀ k, altBound epv = some k →
        epv ≤ k ∧ (∀ p ∈ ALT_CONF_LADDER, p.1 < k → p.1 < epv) ∧ (k, altConf (some epv)) ∈ ALT_CONF_LADDER ∧
        altConf (some epv) ≠ "outOfRange") ∧
    (altBound epv = none → altConf (some epv) = "outOfRange") ∧
    (altBound epv = none ↔ (200 : Rat) < epv) := by
  simp only [altBound, altConf, altConf_op_good]
  refine ⟨fun k hk => ?_, fun hn => (altBound_none _ _ hn).1, ⟨fun hn => ?_, fun hgt => ?_⟩⟩
  · obtain ⟨h1, h2, h3⟩ := altBound_some ALT_CONF_LADDER ladder_increasing epv k hk
    refine ⟨h1, h2, h3, ?_⟩
    intro hout
    rw [hout] at h3
    have : ∀ p ∈ ALT_CONF_LADDER, p.2 ≠ "outOfRange" := by decide +kernel
    exact this _ h3 rfl
  · exact (altBound_none _ _ hn).2 ((200 : Rat), "alt-200-00") (by decide +kernel)
  · cases h : altBoundFromG 1 ALT_CONF_LADDER epv with
    | none => rfl
    | some k =>
      obtain ⟨h1, _, h3⟩ := altBound_some ALT_CONF_LADDER ladder_increasing epv k h
      have hk : ∀ p ∈ ALT_CONF_LADDER, p.1 ≤ (200 : Rat) := by decide +kernel
      have := hk _ h3
      simp only at this
      grind

/-- non-vacuity: the bounds themselves belong to their class (200 m is `alt-200-00`, not outOfRange; 0.5 m is
`alt-000-50`), just above 200 m is outOfRange -/
example : altConf (some 200) = "alt-200-00" ∧ altConf (some (1 / 2)) = "alt-000-50" ∧ altConf (some (20001 / 100)) = "outOfRange" ∧
    altBound 200 = some 200 ∧ altBound (3 / 2) = some 2 := by decide +kernel

/-- heading value (CAM `headingValue`, VAM `heading.value`): for every track ≥ 0 the result is 0…3599 — never
`doNotUse`(3600) nor `unavailable`(3601); below 360° it is within one unit (0.1°); exactly 360° is written as 0 -/
theorem heading_spec (m : Nat) (hm : m = CAM_HEADING_MOD ∨ m = VAM_HEADING_MOD) (x : Rat) (h0 : 0 ≤ x) :
    let h := heading m (some x)
    (Cam.HeadingValue_lo ≤ h ∧ h < Cam.HeadingValue_doNotUse) ∧
    (x < 3600 → x - 1 < (h : Rat) ∧ (h : Rat) < x + 1) ∧ (x = 3600 → h = 0) := by
  have : m = 3600 := by rcases hm with h | h <;> rw [h] <;> decide
  subst this
  obtain ⟨h1, h2, h3⟩ := headingG_spec x h0
  simp only [heading, Cam.HeadingValue_lo, Cam.HeadingValue_doNotUse]
  exact ⟨by omega, h2, h3⟩

/-- heading confidence, for every epd ≥ 0: inside 1…126 ⊂ constraint; > 12.5° → outOfRange(126); otherwise ≤ 125,
within one unit (0.1°), and 1 when the estimate is below one unit (`hmono`: the double product epd·10 is monotone) -/
theorem heading_confidence_spec (epd epd10 : Rat) (h0 : 0 ≤ epd10) (hmono : epd ≤ 25 / 2 → epd10 ≤ 125) :
    let c := headingConf (some (epd, epd10))
    (Cam.HeadingConfidence_lo ≤ c ∧ c < Cam.HeadingConfidence_unavailable) ∧
    (25 / 2 < epd → c = Cam.HeadingConfidence_outOfRange) ∧
    (epd ≤ 25 / 2 → c < Cam.HeadingConfidence_outOfRange ∧
      (1 ≤ epd10 → epd10 - 1 < (c : Rat) ∧ (c : Rat) < epd10 + 1) ∧ (epd10 < 1 → c = 1)) := by
  have hp := headingConf_params_good
  simp only [Prod.mk.injEq] at hp
  obtain ⟨p1, p2, p3, p4⟩ := hp
  obtain ⟨h1, h2, h3⟩ := headingConfG_spec epd epd10 h0 hmono
  simp only [headingConf, p1, p2, p3, p4, Cam.HeadingConfidence_lo, Cam.HeadingConfidence_unavailable,
    Cam.HeadingConfidence_outOfRange]
  refine ⟨by omega, h2, fun h => ?_⟩
  obtain ⟨a, b, c⟩ := h3 h
  exact ⟨by omega, b, c⟩

/-- speed, for every speed ≥ 0 (CAM and VAM): inside 0…16382; ≥ 163.82 m/s → outOfRange(16382); below that within
one unit (1 cm/s) and not a special code -/
theorem speed_spec (f : Option Rat → Int) (hf : f = camSpeed ∨ f = vamSpeed) (x : Rat) (h0 : 0 ≤ x) :
    let v := f (some x)
    (Cam.SpeedValue_lo ≤ v ∧ v < Cam.SpeedValue_unavailable) ∧
    (16382 ≤ x → v = Cam.SpeedValue_outOfRange) ∧
    (x < 16382 → (x - 1 < (v : Rat) ∧ (v : Rat) < x + 1) ∧ v < Cam.SpeedValue_outOfRange) := by
  obtain ⟨h1, h2, h3⟩ := speedG_spec x h0
  have : f (some x) = speedG 2 16381 16382 x := by
    rcases hf with h | h <;> rw [h]
    · exact speedG_congr speed_ok.1 x
    · exact speedG_congr speed_ok.2 x
  simp only [this, Cam.SpeedValue_lo, Cam.SpeedValue_unavailable, Cam.SpeedValue_outOfRange]
  refine ⟨by omega, h2, fun h => ?_⟩
  obtain ⟨a, b⟩ := h3 h
  exact ⟨a, by omega⟩

/-- one semi-axis, for EVERY input: inside 1…4094 (never `doNotUse`, never `unavailable`, never beyond 4095);
≥ 40.94 m → outOfRange(4094); between 1 cm and 40.94 m within one unit; below 1 cm → 1 -/
theorem semi_axis_spec (x : Rat) :
    let r := semiAxis x
    (Cam.SemiAxisLength_doNotUse < r ∧ r < Cam.SemiAxisLength_unavailable) ∧
    (4094 ≤ x → r = Cam.SemiAxisLength_outOfRange) ∧
    (1 ≤ x → x < 4094 → (x - 1 < (r : Rat) ∧ (r : Rat) < x + 1) ∧ r < Cam.SemiAxisLength_outOfRange) ∧ (x < 1 → r = 1) := by
  obtain ⟨h1, h2, h3, h4⟩ := goodAxis_spec x
  simp only [semiAxis_eq, Cam.SemiAxisLength_doNotUse, Cam.SemiAxisLength_unavailable, Cam.SemiAxisLength_outOfRange]
  refine ⟨by omega, h2, fun a b => ?_, h4⟩
  obtain ⟨c, d⟩ := h3 a b
  exact ⟨c, by omega⟩

private theorem semi_axis_range (x : Rat) :
    Cam.SemiAxisLength_lo ≤ semiAxis x ∧ semiAxis x ≤ Cam.SemiAxisLength_hi := by
  have := (semi_axis_spec x).1
  simp only [Cam.SemiAxisLength_lo, Cam.SemiAxisLength_hi, Cam.SemiAxisLength_doNotUse, Cam.SemiAxisLength_unavailable] at *
  omega

/-- position confidence ellipse of CAM and VAM: semi-major ≥ semi-minor for all error estimates, both axes in
1…4094 (`hmono`: the double product e·100 is monotone in e) -/
theorem ellipse_major_ge_minor_cam_vam (epx epy : Err)
    (hmono : (epx.raw ≤ epy.raw → epx.x100 ≤ epy.x100) ∧ (epy.raw ≤ epx.raw → epy.x100 ≤ epx.x100)) :
    (camEllipse (some (epx, epy))).minor ≤ (camEllipse (some (epx, epy))).major ∧
    vamEllipse (some (epx, epy)) = camEllipse (some (epx, epy)) ∧
    1 ≤ (camEllipse (some (epx, epy))).minor ∧ (camEllipse (some (epx, epy))).major ≤ 4094 := by
  have hv : VAM_ELLIPSE_OWN = 0 := semiAxis_ok.2
  have hmm := ellipse_major_ge_minor epx epy hmono
  simp only [camEllipse, vamEllipse, hv, if_true, semiAxis_eq]
  refine ⟨hmm, trivial, ?_, ?_⟩
  · simp only [ellipseWith]; split <;> exact (goodAxis_spec _).1.1
  · simp only [ellipseWith]; split <;> exact (goodAxis_spec _).1.2

/-- non-vacuity of the range hypotheses of `latitude_spec`, `longitude_spec`, `heading_spec`, `heading_confidence_spec`,
`speed_spec`, `ellipse_major_ge_minor_cam_vam` (instances at the limits of the stated ranges), with the values obtained -/
example : latitude (some 900000000) = 900000000 ∧ latitude (some (-900000000)) = -900000000 ∧
    longitude (some (-1800000000)) = -1800000000 ∧ longitude (some (217340349999999 / 10000000)) = 21734034 ∧
    heading CAM_HEADING_MOD (some 3600) = 0 ∧ heading VAM_HEADING_MOD (some (35999 / 10)) = 3599 ∧
    headingConf (some (1 / 20, 1 / 2)) = 1 ∧ headingConf (some (25 / 2, 125)) = 125 ∧ headingConf (some (13, 130)) = 126 ∧
    camSpeed (some 0) = 0 ∧ vamSpeed (some (32763 / 2)) = 16381 ∧ camSpeed (some 20000) = 16382 ∧
    camEllipse (some (⟨5, 500⟩, ⟨3, 300⟩)) = ⟨500, 300, 900⟩ ∧ camEllipse (some (⟨3, 300⟩, ⟨5, 500⟩)) = ⟨500, 300, 0⟩ := by
  decide +kernel
example := latitude_spec 900000000 ⟨by decide +kernel, by decide +kernel⟩
example := longitude_spec (-1800000000) ⟨by decide +kernel, by decide +kernel⟩
example := heading_spec CAM_HEADING_MOD (Or.inl rfl) 3600 (by decide +kernel)
example := heading_confidence_spec (25 / 2) 125 (by decide +kernel) (fun _ => by decide +kernel)
example := speed_spec camSpeed (Or.inl rfl) 20000 (by decide +kernel)
example := ellipse_major_ge_minor_cam_vam ⟨5, 500⟩ ⟨3, 300⟩ ⟨fun h => absurd h (by decide +kernel), fun _ => by decide +kernel⟩

/-- orientation of the ellipse: epy (north-south error) ≥ epx → the major axis points north (0); otherwise it points
east (900 = 90.0°); always a regular Wgs84AngleValue, never doNotUse / unavailable -/
theorem ellipse_orientation (epx epy : Err) :
    (epx.raw ≤ epy.raw → (camEllipse (some (epx, epy))).orientation = 0) ∧
    (epy.raw < epx.raw → (camEllipse (some (epx, epy))).orientation = 900) ∧
    (vamEllipse (some (epx, epy))).orientation = (camEllipse (some (epx, epy))).orientation := by
  have ho : ELLIPSE_ORIENT_NS = 0 ∧ ELLIPSE_ORIENT_EW = 900 := by decide
  have hv : VAM_ELLIPSE_OWN = 0 := semiAxis_ok.2
  simp only [camEllipse, vamEllipse, hv, if_true, ellipseWith, ho.1, ho.2]
  refine ⟨fun h => ?_, fun h => ?_, trivial⟩
  · have : epy.raw ≥ epx.raw := h
    simp [this]
  · have : ¬ (epy.raw ≥ epx.raw) := by grind
    simp [this]

/-- C11-F10 witness: before the repair the orientation was 0 in both cases — an east-west error ellipse (epx 5 m,
epy 3 m) was sent as a north-south one -/
example : (ellipseWith semiAxis ⟨5, 500⟩ ⟨3, 300⟩).orientation = 900 := by decide +kernel

/-- generationDeltaTime is always inside 0…65535 -/
theorem gdt_in_constraint (g : Int) : Cam.GenerationDeltaTime_lo ≤ gdt g ∧ gdt g ≤ Cam.GenerationDeltaTime_hi := by
  have := gdt_range g
  simp only [Cam.GenerationDeltaTime_lo, Cam.GenerationDeltaTime_hi]; omega

/-- a receiver reconstructs the absolute generation time of any message younger than 65.536 s:
for ALL UTC millisecond instants g (from the ITS epoch on) and ALL reception instants r with g ≤ r < g + 65536
(age 0 … 65535 ms, every generationDeltaTime value incl. 0 and 65535, across wrap-arounds).  `reconstruct` interprets the
comparison operator regenerated from `as_timestamp_in_certain_point` (`REC_CMP_OP = 1`, i.e. `<=`, by `decide`) -/
theorem gdt_reconstruct (g r : Int) (hg : (ITS_EPOCH_MS : Int) - ELAPSED_MILLISECONDS ≤ g) (h1 : g ≤ r) (h2 : r < g + 65536) :
    reconstruct (gdt g) r = g :=
  FlexModel.Fac.MappingLemmas.gdt_reconstruct g r hg h1 h2

/-- the same in terms of the age of the message -/
theorem gdt_reconstruct_age (g : Int) (age : Nat) (hg : (ITS_EPOCH_MS : Int) - ELAPSED_MILLISECONDS ≤ g) (ha : age < 65536) :
    reconstruct (gdt g) (g + age) = g :=
  gdt_reconstruct g (g + age) hg (by omega) (by omega)

/-- non-vacuity / tightness of `gdt_reconstruct`: ages 0, 1 and 65535 ms, generationDeltaTime 0 and 65535 are covered;
at exactly 65.536 s the reconstruction is one cycle off -/
example : reconstruct (gdt 1700000000000) 1700000000000 = 1700000000000 ∧
    reconstruct (gdt 1700000000000) (1700000000000 + 1) = 1700000000000 ∧
    reconstruct (gdt 1700000000000) (1700000000000 + 65535) = 1700000000000 ∧
    gdt 1700000015480 = 0 ∧ reconstruct 0 1700000015480 = 1700000015480 ∧
    gdt 1700000015479 = 65535 ∧ reconstruct 65535 (1700000015479 + 65535) = 1700000015479 ∧
    reconstruct (gdt 1700000000000) (1700000000000 + 65536) = 1700000000000 + 65536 := by decide

/-- witness for the comparison operator: with the strict `<` a message received in its own generation millisecond
(age 0) is dated 65 536 ms early, for EVERY generation instant -/
theorem gdt_reconstruct_strict_witness (g : Int) (hg : (ITS_EPOCH_MS : Int) - ELAPSED_MILLISECONDS ≤ g) :
    reconstructG 0 (gdt g) g = g - 65536 :=
  reconstruct_strict_age0 g hg

/-- the millisecond clock the sender stamps with and the receivers read, `round(t·1000000)//1000` on the float of
seconds `t`: exact whenever the double product is within half a microsecond of 1000·r, and both reception managements
read the clock this way (`RX_CLOCK_EXACT_* = 1`, regenerated) -/
theorem clock_reading_exact (r : Int) (p3 p6 : Rat) (h1 : (1000 * r : Int) - 1 / 2 < p6) (h2 : p6 < (1000 * r : Int) + 1 / 2) :
    clockMs RX_CLOCK_EXACT_CAM p3 p6 = r ∧ clockMs RX_CLOCK_EXACT_VAM p3 p6 = r ∧ msOfMicros p6 = r := by
  have hc : RX_CLOCK_EXACT_CAM = 1 ∧ RX_CLOCK_EXACT_VAM = 1 := by decide
  simp only [clockMs, hc.1, hc.2, if_true]
  exact ⟨msOfMicros_exact r p6 h1 h2, msOfMicros_exact r p6 h1 h2, msOfMicros_exact r p6 h1 h2⟩

/-- end to end: generation instant g stamped from the float of seconds (`from_timestamp`), received at clock instant r
read from the float of seconds, g ≤ r < g + 65536: the receiver reconstructs g -/
theorem gdt_reconstruct_clocks (g r : Int) (pg p3 pr : Rat) (hg : (ITS_EPOCH_MS : Int) - ELAPSED_MILLISECONDS ≤ g)
    (h1 : g ≤ r) (h2 : r < g + 65536)
    (hpg : (1000 * g : Int) - 1 / 2 < pg ∧ pg < (1000 * g : Int) + 1 / 2)
    (hpr : (1000 * r : Int) - 1 / 2 < pr ∧ pr < (1000 * r : Int) + 1 / 2) :
    reconstruct (gdt (msOfMicros pg)) (clockMs RX_CLOCK_EXACT_CAM p3 pr) = g := by
  rw [(clock_reading_exact r p3 pr hpr.1 hpr.2).1, msOfMicros_exact g pg hpg.1 hpg.2]
  exact gdt_reconstruct g r hg h1 h2

/-- non-vacuity of `gdt_reconstruct_clocks` (age 0, exact products) -/
example : reconstruct (gdt (msOfMicros (8690619484007999 / 4))) (clockMs RX_CLOCK_EXACT_CAM 0 (8690619484007999 / 4)) = 2172654871002 := by
  decide +kernel

/-- C11-F8 witness (reception managements before the repair): `int(t·1000)` on t = 2172654871.002 s reads
…001 (the double product is 8899194351624191/4096 = 2172654871001.99975…; the double t·1000000 is …001999.75), and a CAM generated in that millisecond is dated 65 536 ms early -/
theorem rx_clock_trunc_witness :
    clockMs 0 (8899194351624191 / 4096) (8690619484007999 / 4) = 2172654871001 ∧
    clockMs 1 (8899194351624191 / 4096) (8690619484007999 / 4) = 2172654871002 ∧
    reconstruct (gdt 2172654871002) 2172654871001 = 2172654871002 - 65536 := by decide +kernel

/-- (lemma for `report_encodable`) every report-derived data element of the CAM builder lies inside its ASN.1
constraint, for every subset of present fields -/
theorem cam_elements_encodable (lat lon alt track speed : Option Rat) (epd : Option (Rat × Rat)) (errs : Option (Err × Err)) (epv : Option Rat)
    (hlat : ∀ x, lat = some x → -900000000 ≤ x ∧ x ≤ 900000000)
    (hlon : ∀ x, lon = some x → -1800000000 ≤ x ∧ x ≤ 1800000000)
    (htrack : ∀ x, track = some x → 0 ≤ x) (hspeed : ∀ x, speed = some x → 0 ≤ x)
    (hepd : ∀ a b, epd = some (a, b) → 0 ≤ b ∧ (a ≤ 25 / 2 → b ≤ 125)) :
    (Cam.Latitude_lo ≤ latitude lat ∧ latitude lat ≤ Cam.Latitude_hi) ∧
    (Cam.Longitude_lo ≤ longitude lon ∧ longitude lon ≤ Cam.Longitude_hi) ∧
    (Cam.AltitudeValue_lo ≤ altitude camAlt alt ∧ altitude camAlt alt ≤ Cam.AltitudeValue_hi) ∧
    (Cam.HeadingValue_lo ≤ heading CAM_HEADING_MOD track ∧ heading CAM_HEADING_MOD track ≤ Cam.HeadingValue_hi) ∧
    (Cam.HeadingConfidence_lo ≤ headingConf epd ∧ headingConf epd ≤ Cam.HeadingConfidence_hi) ∧
    (Cam.SpeedValue_lo ≤ camSpeed speed ∧ camSpeed speed ≤ Cam.SpeedValue_hi) ∧
    (Cam.SemiAxisLength_lo ≤ (camEllipse errs).minor ∧ (camEllipse errs).minor ≤ Cam.SemiAxisLength_hi) ∧
    (Cam.SemiAxisLength_lo ≤ (camEllipse errs).major ∧ (camEllipse errs).major ≤ Cam.SemiAxisLength_hi) ∧
    altConf epv ∈ Cam.AltitudeConfidence_names := by
  refine ⟨?_, ?_, ?_, ?_, ?_, ?_, ?_, ?_, altConf_encodable epv⟩
  · cases lat with
    | none => decide
    | some x => have := (latitude_spec x (hlat x rfl)).1; simp only [Cam.Latitude_lo, Cam.Latitude_hi, Cam.Latitude_unavailable] at *; omega
  · cases lon with
    | none => decide
    | some x => have := (longitude_spec x (hlon x rfl)).1; simp only [Cam.Longitude_lo, Cam.Longitude_hi, Cam.Longitude_unavailable] at *; omega
  · cases alt with
    | none => decide
    | some x => exact (altitude_spec camAlt (Or.inl rfl) x).1
  · cases track with
    | none => decide
    | some x =>
      have := (heading_spec CAM_HEADING_MOD (Or.inl rfl) x (htrack x rfl)).1
      simp only [Cam.HeadingValue_lo, Cam.HeadingValue_hi, Cam.HeadingValue_doNotUse] at *; omega
  · cases epd with
    | none => decide
    | some p =>
      obtain ⟨a, b⟩ := p
      have := (heading_confidence_spec a b (hepd a b rfl).1 (hepd a b rfl).2).1
      simp only [Cam.HeadingConfidence_lo, Cam.HeadingConfidence_hi, Cam.HeadingConfidence_unavailable] at *; omega
  · cases speed with
    | none => decide
    | some x =>
      have := (speed_spec camSpeed (Or.inl rfl) x (hspeed x rfl)).1
      simp only [Cam.SpeedValue_lo, Cam.SpeedValue_hi, Cam.SpeedValue_unavailable] at *; omega
  · cases errs with
    | none => decide
    | some p =>
      obtain ⟨ex, ey⟩ := p
      simp only [camEllipse, ellipseWith]
      split <;> exact semi_axis_range _
  · cases errs with
    | none => decide
    | some p =>
      obtain ⟨ex, ey⟩ := p
      simp only [camEllipse, ellipseWith]
      split <;> exact semi_axis_range _

/-- all report-derived elements of a message inside their ASN.1 constraints -/
def fieldsEncodable (f : Fields) : Prop :=
  (Cam.Latitude_lo ≤ f.lat ∧ f.lat ≤ Cam.Latitude_hi) ∧ (Cam.Longitude_lo ≤ f.lon ∧ f.lon ≤ Cam.Longitude_hi) ∧
  (Cam.AltitudeValue_lo ≤ f.alt ∧ f.alt ≤ Cam.AltitudeValue_hi) ∧
  (Cam.HeadingValue_lo ≤ f.heading ∧ f.heading ≤ Cam.HeadingValue_hi) ∧
  (Cam.HeadingConfidence_lo ≤ f.hconf ∧ f.hconf ≤ Cam.HeadingConfidence_hi) ∧
  (Cam.SpeedValue_lo ≤ f.speed ∧ f.speed ≤ Cam.SpeedValue_hi) ∧
  (Cam.SemiAxisLength_lo ≤ f.ell.minor ∧ f.ell.minor ≤ Cam.SemiAxisLength_hi) ∧
  (Cam.SemiAxisLength_lo ≤ f.ell.major ∧ f.ell.major ≤ Cam.SemiAxisLength_hi) ∧
  (Cam.HeadingValue_lo ≤ f.ell.orientation ∧ f.ell.orientation ≤ Cam.HeadingValue_hi) ∧
  f.altConf ∈ Cam.AltitudeConfidence_names

/-- the VAM builder maps every report exactly like the CAM builder (its own guards / modulus / ellipse, regenerated,
are equivalent) -/
theorem vam_fields_eq_cam (r : Report) : vamFields r = camFields r := by
  have hm := heading_mod_good
  have hv : VAM_ELLIPSE_OWN = 0 := semiAxis_ok.2
  have halt : altitude vamAlt r.alt = altitude camAlt r.alt := by
    cases r.alt with
    | none => rfl
    | some x => simp only [altitude]; rw [altitudeG_congr vamAlt_ok x, altitudeG_congr camAlt_ok x]
  have hsp : vamSpeed r.speed = camSpeed r.speed := by
    cases r.speed with
    | none => rfl
    | some x => simp only [vamSpeed, camSpeed]; rw [speedG_congr speed_ok.2 x, speedG_congr speed_ok.1 x]
  have hel : vamEllipse r.errs = camEllipse r.errs := by
    cases r.errs with
    | none => rfl
    | some p => simp only [vamEllipse, camEllipse, hv, if_true]
  simp only [vamFields, camFields, halt, hsp, hel, hm.1, hm.2]

/-- no report inside the stated ranges makes generation fail at model level: for every subset of present fields every
report-derived data element of the CAM, of the VAM and of the DENM event position lies inside its ASN.1 constraint
(so the encoder neither raises nor wraps), and so does generationDeltaTime for every generation instant -/
theorem report_encodable (r : Report) (g : Int)
    (hlat : ∀ x, r.lat = some x → -900000000 ≤ x ∧ x ≤ 900000000)
    (hlon : ∀ x, r.lon = some x → -1800000000 ≤ x ∧ x ≤ 1800000000)
    (htrack : ∀ x, r.track = some x → 0 ≤ x) (hspeed : ∀ x, r.speed = some x → 0 ≤ x)
    (hepd : ∀ a b, r.epd = some (a, b) → 0 ≤ b ∧ (a ≤ 25 / 2 → b ≤ 125)) :
    fieldsEncodable (camFields r) ∧ fieldsEncodable (vamFields r) ∧
    ((Denm.Latitude_lo ≤ (denmPos r).lat ∧ (denmPos r).lat ≤ Denm.Latitude_hi) ∧
     (Denm.Longitude_lo ≤ (denmPos r).lon ∧ (denmPos r).lon ≤ Denm.Longitude_hi) ∧
     (Denm.AltitudeValue_lo ≤ (denmPos r).alt ∧ (denmPos r).alt ≤ Denm.AltitudeValue_hi)) ∧
    (Cam.GenerationDeltaTime_lo ≤ gdt g ∧ gdt g ≤ Cam.GenerationDeltaTime_hi) := by
  obtain ⟨h1, h2, h3, h4, h5, h6, h7, h8, h9⟩ :=
    cam_elements_encodable r.lat r.lon r.alt r.track r.speed r.epd r.errs r.epv hlat hlon htrack hspeed hepd
  have hor : Cam.HeadingValue_lo ≤ (camEllipse r.errs).orientation ∧ (camEllipse r.errs).orientation ≤ Cam.HeadingValue_hi := by
    cases r.errs with
    | none => decide
    | some p => simp only [camEllipse, ellipseWith]; split <;> (dsimp only; decide)
  have hc : fieldsEncodable (camFields r) := ⟨h1, h2, h3, h4, h5, h6, h7, h8, hor, h9⟩
  refine ⟨hc, by rw [vam_fields_eq_cam]; exact hc, ⟨?_, ?_, ?_⟩, gdt_in_constraint g⟩
  · exact h1
  · exact h2
  · cases h : r.alt with
    | none => simp only [denmPos, h]; decide
    | some x => simp only [denmPos, h]; exact (altitude_spec denmAlt (Or.inr (Or.inr rfl)) x).1

/-- non-vacuity of `report_encodable`: the empty report, and a full report at the range limits -/
example : fieldsEncodable (camFields {}) ∧
    (camFields { lat := some 900000000, lon := some (-1800000000), alt := some 1000000, epx := some ⟨300, 30000⟩,
                 epy := some ⟨0, 0⟩, epv := some 200, epd := some (360, 3600), track := some 3600, speed := some 20000 } =
      ⟨900000000, -1800000000, ⟨4094, 1, 900⟩, 800000, "alt-200-00", 0, 126, 16382⟩) := by
  refine ⟨?_, by decide +kernel⟩
  exact (report_encodable {} 0 (by simp) (by simp) (by simp) (by simp) (by simp)).1

/-- (helper, not a property claim) an encoded value within one unit of the double product is within `1 + d` units of the
physical scaled measurement when the double product is within `d` of it (d ≤ 2⁻²² units for every product the builders
form in the stated ranges) -/
theorem resolution_of_physical (x p d : Rat) (v : Int) (hb : x - d ≤ p ∧ p ≤ x + d) (hv : p - 1 < (v : Rat) ∧ (v : Rat) < p + 1) :
    x - (1 + d) < (v : Rat) ∧ (v : Rat) < x + (1 + d) := by
  constructor <;> grind

/-! ### the encoding itself (clauses "valid UPER" / "decodes to the values intended"): partial -/

/-- PARTIAL (what is missing: extension bits, OPTIONAL bitmaps, ENUMERATED / CHOICE / BIT STRING / open types and the
length determinants - i.e. everything of UPER except constrained whole numbers; those parts are observed per message,
not proved).  For a SEQUENCE of constrained INTEGERs as asn1tools encodes it (`data - minimum` shifted into
`integer_as_number_of_bits(maximum - minimum)` bits, NO range check): if every value lies inside its constraint, the bit
string decodes to exactly the values encoded — for every list of fields and values -/
theorem uper_int_fields_roundtrip_partial (fs : List (IntField × Int)) (h : ∀ fv ∈ fs, fv.1.lo ≤ fv.2 ∧ fv.2 ≤ fv.1.hi) :
    decodeInts (encodeInts fs) (fs.map (·.1)) = fs.map (·.2) := by
  have := decode_encode_aux fs ⟨0, 0⟩ [] h
  simp only [List.append_nil, decodeRev] at this
  simp only [decodeInts, encodeInts, this, List.reverse_reverse]

/-- the integer data elements of a message with the constraints regenerated from the ASN.1 text -/
def intElements (f : Fields) : List (IntField × Int) :=
  [(⟨Cam.Latitude_lo, Cam.Latitude_hi⟩, f.lat), (⟨Cam.Longitude_lo, Cam.Longitude_hi⟩, f.lon),
   (⟨Cam.SemiAxisLength_lo, Cam.SemiAxisLength_hi⟩, f.ell.major), (⟨Cam.SemiAxisLength_lo, Cam.SemiAxisLength_hi⟩, f.ell.minor),
   (⟨Cam.HeadingValue_lo, Cam.HeadingValue_hi⟩, f.ell.orientation), (⟨Cam.AltitudeValue_lo, Cam.AltitudeValue_hi⟩, f.alt),
   (⟨Cam.HeadingValue_lo, Cam.HeadingValue_hi⟩, f.heading), (⟨Cam.HeadingConfidence_lo, Cam.HeadingConfidence_hi⟩, f.hconf),
   (⟨Cam.SpeedValue_lo, Cam.SpeedValue_hi⟩, f.speed)]

/-- consequence with `report_encodable`: for every report inside the stated ranges the integer data elements of the CAM
and of the VAM survive the (modelled) encoding unchanged -/
theorem report_ints_roundtrip (r : Report)
    (hlat : ∀ x, r.lat = some x → -900000000 ≤ x ∧ x ≤ 900000000)
    (hlon : ∀ x, r.lon = some x → -1800000000 ≤ x ∧ x ≤ 1800000000)
    (htrack : ∀ x, r.track = some x → 0 ≤ x) (hspeed : ∀ x, r.speed = some x → 0 ≤ x)
    (hepd : ∀ a b, r.epd = some (a, b) → 0 ≤ b ∧ (a ≤ 25 / 2 → b ≤ 125)) :
    decodeInts (encodeInts (intElements (camFields r))) ((intElements (camFields r)).map (·.1)) = (intElements (camFields r)).map (·.2) ∧
    decodeInts (encodeInts (intElements (vamFields r))) ((intElements (vamFields r)).map (·.1)) = (intElements (vamFields r)).map (·.2) := by
  obtain ⟨hc, hv, _, _⟩ := report_encodable r 0 hlat hlon htrack hspeed hepd
  have key : ∀ f : Fields, fieldsEncodable f → ∀ fv ∈ intElements f, fv.1.lo ≤ fv.2 ∧ fv.2 ≤ fv.1.hi := by
    intro f ⟨h1, h2, h3, h4, h5, h6, h7, h8, h9, _⟩ fv hm
    simp only [intElements, List.mem_cons, List.not_mem_nil, or_false] at hm
    rcases hm with rfl | rfl | rfl | rfl | rfl | rfl | rfl | rfl | rfl <;> assumption
  exact ⟨uper_int_fields_roundtrip_partial _ (key _ hc), uper_int_fields_roundtrip_partial _ (key _ hv)⟩

/-- non-vacuity, and the field widths of the data elements (Latitude 31 bits, Longitude 32, SemiAxisLength 12,
AltitudeValue 20, HeadingValue 12, HeadingConfidence 7, SpeedValue 14, GenerationDeltaTime 16) -/
example : (intElements (camFields {})).map (·.1.width) = [31, 32, 12, 12, 12, 20, 12, 7, 14] ∧
    nbits (Cam.GenerationDeltaTime_hi - Cam.GenerationDeltaTime_lo).toNat = 16 ∧
    decodeInts (encodeInts [(⟨-1800000000, 1800000001⟩, 21734035), (⟨0, 4095⟩, 4094)]) [⟨-1800000000, 1800000001⟩, ⟨0, 4095⟩] =
      [21734035, 4094] := by decide +kernel

/-- witness (C11-F2, the reason clause 4 says "instead of wrapping"): a value beyond its constraint is not rejected by
the encoder; 5000 in the 12-bit SemiAxisLength field decodes to 904 and its 13th bit spills into the neighbouring
longitude (…034 becomes …035) -/
theorem uper_overflow_witness :
    decodeInts (encodeInts [(⟨-1800000000, 1800000001⟩, 21734034), (⟨0, 4095⟩, 5000)]) [⟨-1800000000, 1800000001⟩, ⟨0, 4095⟩] =
      [21734035, 904] := by decide +kernel

/-! ### station roles: encodable, and no report stalls generation -/

/-- every vehicle role (all naturals: indices beyond the table give "default") is written with a name of the compiled
`VehicleRole` enumeration, and for the 16 roles `VehicleData` accepts the name decodes back to the role number -/
theorem role_encodable (role : Nat) :
    roleName VEHICLE_ROLE_NAMES role ∈ VehicleRole_names ∧
    (role < 16 → VehicleRole_names.idxOf (roleName VEHICLE_ROLE_NAMES role) = role ∧ VehicleRole_values.getD role 99 = role) := by
  by_cases h : role < 16
  · have : ∀ r, r < 16 → roleName VEHICLE_ROLE_NAMES r ∈ VehicleRole_names ∧
        VehicleRole_names.idxOf (roleName VEHICLE_ROLE_NAMES r) = r ∧ VehicleRole_values.getD r 99 = r := by decide
    exact ⟨(this role h).1, fun _ => (this role h).2⟩
  · have hl : VEHICLE_ROLE_NAMES.length = 16 := by decide
    have : roleName VEHICLE_ROLE_NAMES role = "default" := by
      have hn : VEHICLE_ROLE_NAMES[role]? = none := List.getElem?_eq_none (by omega)
      simp [roleName, List.getD_eq_getElem?_getD, hn]
    rw [this]
    exact ⟨by decide, fun h' => absurd h' h⟩

/-- no role stalls CAM generation: for every role and EVERY sequence of generation instants, each attempt hands a CAM
to BTP (none is skipped), and every low-frequency container carries the station's role -/
theorem role_no_stall (role : Nat) (ticks : List Int) :
    let t := txRun VEHICLE_ROLE_NAMES VehicleRole_names role ticks
    t.out.length = ticks.length ∧ t.skipped = 0 ∧
    (∀ o ∈ t.out, o = none ∨ o = some (roleName VEHICLE_ROLE_NAMES role)) ∧
    (ticks ≠ [] → t.out.getLast? = some (some (roleName VEHICLE_ROLE_NAMES role))) := by
  have hm := (role_encodable role).1
  obtain ⟨a, b, c⟩ := txRun_no_stall hm ticks {}
  simp only [txRun]
  refine ⟨by simpa using a, by simpa using b, ?_, ?_⟩
  · intro o ho
    rcases c o ho with h | h
    · simp at h
    · exact h
  · intro hne
    cases ticks with
    | nil => exact absurd rfl hne
    | cons t ts =>
      -- the first CAM after activation always includes the low-frequency container
      have h1 := (txStep_sent hm ({} : Tx) t).2.2.2 (by simp [includeLf])
      have hstep : (txStep VEHICLE_ROLE_NAMES VehicleRole_names role {} t).out = [some (roleName VEHICLE_ROLE_NAMES role)] := by
        have hl := (txStep_sent hm ({} : Tx) t).1
        simp only [List.length_nil, Nat.zero_add] at hl
        match hout : (txStep VEHICLE_ROLE_NAMES VehicleRole_names role {} t).out, hl, h1 with
        | [x], _, h1 => simp only [List.head?_cons, Option.some.injEq] at h1; rw [h1]
      -- later CAMs are prepended: the last element stays
      have keep : ∀ (us : List Int) (s : Tx), s.out ≠ [] →
          (us.foldl (txStep VEHICLE_ROLE_NAMES VehicleRole_names role) s).out.getLast? = s.out.getLast? := by
        intro us
        induction us with
        | nil => intro s _; rfl
        | cons u us ih =>
          intro s hs
          simp only [List.foldl_cons]
          have hout : (txStep VEHICLE_ROLE_NAMES VehicleRole_names role s u).out =
              (if includeLf s u then some (roleName VEHICLE_ROLE_NAMES role) else none) :: s.out := by
            simp [txStep, hm]
          rw [ih _ (by rw [hout]; simp), hout, List.getLast?_cons_of_ne_nil hs]
      simp only [List.foldl_cons]
      rw [keep ts _ (by rw [hstep]; simp), hstep]
      rfl

/-- non-vacuity: role 8 (agriculture), three generation instants 0 / 100 / 600 ms: three CAMs, LF container in the 1st and 3rd -/
example : (txRun VEHICLE_ROLE_NAMES VehicleRole_names 8 [0, 100, 600]).out = [some "agriculture", none, some "agriculture"] ∧
    (txRun VEHICLE_ROLE_NAMES VehicleRole_names 8 [0, 100, 600]).skipped = 0 := by decide

/-- the role table of the commit before the repair (C11-F6) -/
def oldRoleNames : List String :=
  ["default", "publicTransport", "specialTransport", "dangerousGoods", "roadWork", "rescue", "emergency", "safetyCar",
   "agricultural", "commercial", "military", "roadOperator", "taxi", "reserved1", "reserved2", "reserved3"]

/-- C11-F6 witness: with the old table a station of role 8, 13, 14 or 15 NEVER sends a CAM — for every sequence of
generation instants every attempt is skipped (the first CAM carries the LF container, its encoding fails, the exception
is swallowed and no state changes, so the next attempt is again a first CAM) -/
theorem role_stall_old_witness (role : Nat) (h : role = 8 ∨ role = 13 ∨ role = 14 ∨ role = 15) (ticks : List Int) :
    (txRun oldRoleNames VehicleRole_names role ticks).out = [] ∧
    (txRun oldRoleNames VehicleRole_names role ticks).skipped = ticks.length := by
  have hn : roleName oldRoleNames role ∉ VehicleRole_names := by
    rcases h with h | h | h | h <;> subst h <;> decide
  obtain ⟨a, b⟩ := txRun_stall hn ticks {} rfl
  simp only [txRun]
  exact ⟨a, by simpa using b⟩

/-! ### histories of reports on one service instance -/

/-- the CAM generated after ANY history of reports encodes the LAST report only (the transmission management caches
the report itself: `CAM_TPV_CACHE_REPLACE = 1` and no access to the cache outside its lock, both regenerated) -/
theorem cam_encodes_last_report (rs : List Report) (r : Report) :
    camAfter CAM_TPV_CACHE_REPLACE (rs ++ [r]) = some (camFields r) ∧ CAM_TPV_UNLOCKED = 0 ∧ VAM_REPORT_DIRECT = 1 := by
  have h : CAM_TPV_CACHE_REPLACE = 1 := by decide
  refine ⟨?_, by decide, by decide⟩
  simp only [camAfter, h, cacheRun_replace_last, Option.map_some]

/-- the DENM event position sent for a report encodes that report only, whatever was reported before
(`DENM_POS_FRESH = 1`, regenerated) -/
theorem denm_encodes_last_report (rs : List Report) (r : Report) :
    evaRun DENM_POS_FRESH (rs ++ [r]) = denmPos r := by
  have h : DENM_POS_FRESH = 1 := by decide
  rw [h]; exact evaRun_fresh_last rs r

/-- consequence, the unavailable clause over histories: a field the last report lacks is sent as `unavailable`
even if an earlier report carried it (CAM and DENM) -/
theorem history_absent_unavailable (rs : List Report) (r : Report) :
    (r.alt = none → (camAfter CAM_TPV_CACHE_REPLACE (rs ++ [r])).map (·.alt) = some Cam.AltitudeValue_unavailable ∧
      (evaRun DENM_POS_FRESH (rs ++ [r])).alt = Denm.AltitudeValue_unavailable) ∧
    (r.lat = none → (camAfter CAM_TPV_CACHE_REPLACE (rs ++ [r])).map (·.lat) = some Cam.Latitude_unavailable ∧
      (evaRun DENM_POS_FRESH (rs ++ [r])).lat = Denm.Latitude_unavailable) ∧
    (r.speed = none → (camAfter CAM_TPV_CACHE_REPLACE (rs ++ [r])).map (·.speed) = some Cam.SpeedValue_unavailable) ∧
    (r.track = none → (camAfter CAM_TPV_CACHE_REPLACE (rs ++ [r])).map (·.heading) = some Cam.HeadingValue_unavailable) ∧
    (r.epd = none → (camAfter CAM_TPV_CACHE_REPLACE (rs ++ [r])).map (·.hconf) = some Cam.HeadingConfidence_unavailable) ∧
    (r.epv = none → (camAfter CAM_TPV_CACHE_REPLACE (rs ++ [r])).map (·.altConf) = some "unavailable") ∧
    (r.errs = none → (camAfter CAM_TPV_CACHE_REPLACE (rs ++ [r])).map (·.ell) =
      some ⟨Cam.SemiAxisLength_unavailable, Cam.SemiAxisLength_unavailable, 3601⟩) := by
  rw [(cam_encodes_last_report rs r).1, denm_encodes_last_report]
  simp only [Option.map_some, camFields, denmPos]
  refine ⟨fun h => ?_, fun h => ?_, fun h => ?_, fun h => ?_, fun h => ?_, fun h => ?_, fun h => ?_⟩ <;> rw [h] <;> decide

/-- non-vacuity + witnesses: a full report followed by a position-only report.  Merging the cache (`replace = 0`, the
seeded change) leaks the old altitude into the CAM; carrying the event position over (`fresh = 0`, C11-F7 before the
repair) leaks the old latitude/altitude into the DENM -/
theorem history_leak_witness :
    let r1 : Report := { lat := some 410000000, lon := some 20000000, alt := some 10000, speed := some 1380 }
    let r2 : Report := { lon := some 30000000 }
    ((camAfter 1 [r1, r2]).map (·.alt) = some 800001 ∧ (camAfter 0 [r1, r2]).map (·.alt) = some 10000 ∧
     (camAfter 0 [r1, r2]).map (·.speed) = some 1380) ∧
    (evaRun 1 [r1, r2] = ⟨900000001, 30000000, 800001⟩ ∧ evaRun 0 [r1, r2] = ⟨410000000, 30000000, 10000⟩) := by
  decide +kernel

/-! ### cluster information container of the VRU service -/

/-- regenerated structural facts: the three methods the VAM transmission path calls on the clustering manager read the
manager's state only inside `with self._lock` (an RLock) -/
theorem cluster_containers_under_lock :
    CLUSTER_INFO_UNLOCKED = [] ∧ CLUSTER_OP_UNLOCKED = [] ∧ CLUSTER_SHOULD_TX_UNLOCKED = [] ∧ CLUSTER_LOCK_REENTRANT = true := by
  decide

/-- with the container built inside the lock, under EVERY interleaving with the maintenance thread that completes a
cluster break-up the transmitting thread obtains a consistent snapshot: the container of the cluster as it was, or no
container — it never fails and never mixes two states -/
theorem cluster_info_atomic (m : Mgr) (sched : List Bool) :
    (concRun infoLocked m sched = infoAtomic m ∨ concRun infoLocked m sched = .absent) ∧
    concRun infoLocked m sched ≠ .fail := by
  have hl : infoLocked = true := by decide
  rw [hl]
  have h := concRun_locked m sched
  refine ⟨h, ?_⟩
  rcases h with h | h <;> rw [h]
  · exact infoAtomic_ne_fail m
  · simp

/-- witness: with the reads of `self._cluster` outside the lock (the seeded change) the schedule check / break-up /
read fails (`AttributeError`), and no VAM is generated for the report -/
theorem cluster_info_unlocked_witness :
    concRun false ⟨true, some ⟨7, 5, 3⟩⟩ [true, false, true] = .fail ∧
    concRun true ⟨true, some ⟨7, 5, 3⟩⟩ [true, false, true] = .info 7 5 3 := by decide +kernel

/-- the values of the container: radius `max(1, int(r))` is inside StandardLength12b for 0 ≤ r < 4096, within one unit
from 1 m on -/
theorem cluster_info_values (c : Cluster) (h0 : 0 ≤ c.radius) (h1 : c.radius < 4096) :
    ∃ rad, infoOf c = .info c.id rad c.cardinality ∧ 1 ≤ rad ∧ rad ≤ 4095 ∧
      (1 ≤ c.radius → c.radius - 1 < (rad : Rat) ∧ (rad : Rat) < c.radius + 1) := by
  refine ⟨max 1 (trunc c.radius), rfl, by omega, ?_, ?_⟩
  · have : trunc c.radius ≤ 4095 := by
      by_cases hh : (4096 : Int) ≤ trunc c.radius
      · have := (trunc_ge_iff (x := c.radius) (a := 4096) (by decide)).mp hh
        simp only [Rat.intCast_ofNat] at this
        grind
      · omega
    omega
  · intro h
    have : 1 ≤ trunc c.radius := le_trunc (a := 1) (by simpa using h)
    have hm : max 1 (trunc c.radius) = trunc c.radius := by omega
    rw [hm]; exact trunc_close c.radius

/-! ### path history of the CAM low-frequency container (round 4) -/

/-- regenerated facts, source against ASN.1 text: the interval of rounded offsets `_get_path_history` accepts lies inside
the DeltaLatitude / DeltaLongitude constraints, its size limit inside the `WITH COMPONENTS` size of the LF container and
that inside `Path`, the pathDeltaTime clamp inside PathDeltaTime, deltaAltitude is the `unavailable` code, the stored
entries are visited newest first -/
theorem path_history_guards :
    (DeltaLatitude_lo ≤ PH_LAT_LO ∧ PH_LAT_HI ≤ DeltaLatitude_hi ∧ DeltaLongitude_lo ≤ PH_LON_LO ∧ PH_LON_HI ≤ DeltaLongitude_hi) ∧
    (1 ≤ PH_CAP ∧ PH_CAP ≤ LF_PATH_SIZE_HI ∧ LF_PATH_SIZE_HI ≤ Path_size_hi) ∧
    (PathDeltaTime_lo ≤ PH_DT_LO ∧ PH_DT_LO ≤ PH_DT_HI ∧ PH_DT_HI ≤ PathDeltaTime_hi) ∧
    PH_DALT = DeltaAltitude_unavailable ∧ PH_NEWEST_FIRST = 1 := by decide

/-- for EVERY store of earlier positions and whatever offsets the double arithmetic produced: every emitted pathHistory
point lies inside the PathPoint constraints (the encoder neither wraps nor raises nor truncates the CAM) and the list is
not longer than the LF container allows -/
theorem path_history_encodable (hs : List HOff) :
    (∀ p ∈ pathHistory hs, p.encodable = true) ∧ ((pathHistory hs).length : Int) ≤ LF_PATH_SIZE_HI ∧
    pathEncodable (pathHistory hs) = true := by
  obtain ⟨hg, c1, c2, c3, _⟩ := ph_consts_good
  have he := phLoop_encodable hg c1 (by omega : PH_CAP ≤ Path_size_hi) hs
  refine ⟨fun p hp => ?_, ?_, he⟩
  · obtain ⟨ha, h, _, rfl⟩ := phLoop_mem phGuard PH_CAP hs 0 p hp
    exact pathPoint_encodable hg h ha
  · have := phLoop_length phGuard PH_CAP hs 0
    simp only [pathHistory]
    push_cast at this
    omega

/-- order and completeness: the pathHistory is the rounding of a PREFIX of the stored positions, newest first (no
reordering, no gap), and the prefix is maximal: it ends at the size limit, at the end of the store, or at the first
position whose rounded offset the guard rejects -/
theorem path_history_prefix (hs : List HOff) :
    ∃ k : Nat, pathHistory hs = (hs.take k).map pathPointOf ∧
      (k < hs.length → (k : Int) < PH_CAP → ∃ h, hs[k]? = some h ∧ phGuard.accepts (pathPointOf h) = false) := by
  obtain ⟨k, e, m⟩ := phLoop_prefix phGuard PH_CAP hs 0
  exact ⟨k, e, fun h1 h2 => m h1 (by push_cast; omega)⟩

/-- the values of one emitted point: both offsets within HALF a unit (0.05 µdeg) of the exact offset; a regular value
lies in −131071…131071; the `unavailable` code 131072 is written only for an offset of at least 131071.5 units, i.e.
beyond the largest offset the element can express (the element has no outOfRange code); deltaAltitude is `unavailable`;
pathDeltaTime is within half a unit (5 ms) of the age between 10 ms and 655.34 s and clamped to 1 / 65534 outside -/
theorem path_point_values (h : HOff) (ha : phGuard.accepts (pathPointOf h) = true) :
    let p := pathPointOf h
    (((p.dlat : Int) : Rat) - 1 / 2 ≤ h.dlat ∧ h.dlat ≤ ((p.dlat : Int) : Rat) + 1 / 2) ∧
    (((p.dlon : Int) : Rat) - 1 / 2 ≤ h.dlon ∧ h.dlon ≤ ((p.dlon : Int) : Rat) + 1 / 2) ∧
    (p.dlat = DeltaLatitude_unavailable → (131071 : Rat) + 1 / 2 ≤ h.dlat) ∧
    (p.dlat ≠ DeltaLatitude_unavailable → -131071 ≤ p.dlat ∧ p.dlat ≤ 131071) ∧
    (p.dlon = DeltaLongitude_unavailable → (131071 : Rat) + 1 / 2 ≤ h.dlon) ∧
    (p.dlon ≠ DeltaLongitude_unavailable → -131071 ≤ p.dlon ∧ p.dlon ≤ 131071) ∧
    p.dalt = DeltaAltitude_unavailable ∧
    (1 ≤ h.dt → h.dt ≤ 65534 → ((p.dtime : Int) : Rat) - 1 / 2 ≤ h.dt ∧ h.dt ≤ ((p.dtime : Int) : Rat) + 1 / 2) ∧
    (h.dt ≤ 1 → p.dtime = 1) ∧ (65534 ≤ h.dt → p.dtime = 65534) := by
  have hg : phGuard = ⟨-131071, 131072, -131071, 131072⟩ := by decide
  have hc : PH_DT_LO = 1 ∧ PH_DT_HI = 65534 ∧ PH_DALT = 12800 := by decide
  simp only [PhGuard.accepts, hg, Bool.and_eq_true, decide_eq_true_eq] at ha
  obtain ⟨⟨⟨a1, a2⟩, a3⟩, a4⟩ := ha
  have hla := pyRound_close h.dlat
  have hlo := pyRound_close h.dlon
  have hdt := pyRound_close h.dt
  have e1 : (pathPointOf h).dlat = pyRound h.dlat := rfl
  have e2 : (pathPointOf h).dlon = pyRound h.dlon := rfl
  have e3 : (pathPointOf h).dtime = max 1 (min 65534 (pyRound h.dt)) := by simp only [pathPointOf, hc.1, hc.2.1]
  have e4 : (pathPointOf h).dalt = 12800 := by simp only [pathPointOf, hc.2.2]
  simp only [e1, e2, e3, e4, DeltaLatitude_unavailable, DeltaLongitude_unavailable, DeltaAltitude_unavailable] at *
  refine ⟨hla, hlo, fun he => ?_, fun hne => ⟨a1, by omega⟩, fun he => ?_, fun hne => ⟨a3, by omega⟩, trivial, fun h1 h2 => ?_,
    fun h1 => ?_, fun h2 => ?_⟩
  · rw [he] at hla; have := hla.1; simp only [Rat.intCast_ofNat] at this; grind
  · rw [he] at hlo; have := hlo.1; simp only [Rat.intCast_ofNat] at this; grind
  · have b1 : (1 : Int) ≤ pyRound h.dt := le_pyRound (by simpa using h1)
    have b2 : pyRound h.dt ≤ (65534 : Int) := pyRound_le (by simpa using h2)
    have : max 1 (min 65534 (pyRound h.dt)) = pyRound h.dt := by omega
    rw [this]; exact hdt
  · have : pyRound h.dt ≤ (1 : Int) := pyRound_le (by simpa using h1)
    omega
  · have : (65534 : Int) ≤ pyRound h.dt := le_pyRound (by simpa using h2)
    omega

/-- non-vacuity of `path_point_values` and the behaviour at the limits of DeltaLatitude / DeltaLongitude: offsets
−131071 and +131071 are sent as they are, +131072 is sent as 131072 (= `unavailable`), −131072 and ±131073 end the
history; two earlier positions are sent newest first; ages of 4 ms / 7 days clamp to 1 / 65534 -/
example :
    pathHistory [⟨-131071, 131071, 100⟩] = [⟨-131071, 131071, 12800, 100⟩] ∧
    pathHistory [⟨131072, 0, 100⟩] = [⟨131072, 0, 12800, 100⟩] ∧
    pathHistory [⟨-131072, 0, 100⟩] = [] ∧ pathHistory [⟨0, -131072, 100⟩] = [] ∧
    pathHistory [⟨131073, 0, 100⟩] = [] ∧ pathHistory [⟨0, -131073, 100⟩] = [] ∧
    pathHistory [⟨5, 7, 100⟩, ⟨-131072, 0, 200⟩, ⟨3, 3, 300⟩] = [⟨5, 7, 12800, 100⟩] ∧
    pathHistory [⟨1 / 2, 3 / 2, 2 / 5⟩, ⟨5 / 2, -1 / 2, 60480000⟩] = [⟨0, 2, 12800, 1⟩, ⟨2, 0, 12800, 65534⟩] ∧
    (pathHistory (List.replicate 40 ⟨1, 1, 100⟩)).length = 23 := by decide +kernel
example := path_point_values ⟨131072, -131071, 100⟩ (by decide +kernel)

/-- no sequence of reports stalls CAM generation through the path history: for EVERY sequence of generation attempts
(instants, reports with or without a position, and whatever offsets the store shows from the reported position) each
attempt hands a CAM to BTP, none is skipped, every pathHistory sent survives the encoder and has at most 23 points, and
the store never exceeds 40 entries -/
theorem path_history_no_stall (ticks : List PhTick) :
    let r := phRun phGuard PH_CAP ticks
    r.out.length = ticks.length ∧ r.skipped = 0 ∧
    (∀ o ∈ r.out, o = none ∨ ∃ ps, o = some ps ∧ pathEncodable ps = true ∧ (ps.length : Int) ≤ LF_PATH_SIZE_HI) ∧
    (r.histLen : Int) ≤ PH_STORE_CAP := by
  obtain ⟨hg, c1, c2, c3, _⟩ := ph_consts_good
  obtain ⟨a, b, c, d⟩ := phRun_no_stall hg c1 (by omega : PH_CAP ≤ Path_size_hi) ticks {}
  have h40 : (0 : Int) ≤ PH_STORE_CAP := by decide
  refine ⟨by simpa [phRun] using a, by simpa [phRun] using b, ?_, ?_⟩
  · intro o ho
    rcases c o ho with h | h | ⟨ps, e, p1, p2⟩
    · simp at h
    · exact Or.inl h
    · exact Or.inr ⟨ps, e, p1, by omega⟩
  · simp only [phRun]
    simp only [] at d
    have : ((({} : PhTx).histLen : Nat) : Int) = 0 := rfl
    omega

/-- non-vacuity: a CAM at P, one 131072 units further south 1 s later (the stored P is dropped, the CAM is sent), two more
at standstill there, the last without a position: four CAMs, none skipped -/
example :
    (phRun phGuard PH_CAP [⟨0, true, []⟩, ⟨1000, true, [southLimit]⟩, ⟨2000, true, [⟨0, 0, 100⟩, ⟨-131072, 0, 200⟩]⟩,
      ⟨3000, false, []⟩]).out = [some [], some [⟨0, 0, 12800, 100⟩], some [], some []] := by decide +kernel

/-- witness for the guard (the seeded 'simplification' `max(abs(dlat), abs(dlon)) > 131072`): a vehicle that sent a CAM at
P and then stands 131072 units further south NEVER sends a CAM again — for every sequence of later generation instants
the stored P is put into the LF container with offset −131072, the encoder cannot represent it, the exception is
swallowed, no state changes, the LF container stays due; with the regenerated guard the same reports are all sent -/
theorem path_history_stall_witness (nows : List Int) (h : ∀ t ∈ nows, 500 ≤ t) :
    let ticks : List PhTick := ⟨0, true, []⟩ :: nows.map (fun t => ⟨t, true, [southLimit]⟩)
    (phRun symGuard PH_CAP ticks).out = [some []] ∧ (phRun symGuard PH_CAP ticks).skipped = nows.length ∧
    (phRun phGuard PH_CAP ticks).out.length = nows.length + 1 ∧ (phRun phGuard PH_CAP ticks).skipped = 0 := by
  have key : ∀ (ns : List Int) (s : PhTx), (∀ t ∈ ns, 500 ≤ t) → s.lastLf = some 0 → 1 ≤ s.histLen →
      ((ns.map (fun t => (⟨t, true, [southLimit]⟩ : PhTick))).foldl (fun s t => phAttempt symGuard PH_CAP s t.now t.pos t.offs) s).out = s.out ∧
      ((ns.map (fun t => (⟨t, true, [southLimit]⟩ : PhTick))).foldl (fun s t => phAttempt symGuard PH_CAP s t.now t.pos t.offs) s).skipped
        = s.skipped + ns.length := by
    intro ns
    induction ns with
    | nil => intro s _ _ _; simp
    | cons t ts ih =>
      intro s hn hl hh
      have ht : 500 ≤ t := hn t (by simp)
      have hstep := symGuard_stall_step s t ⟨0, hl, by omega⟩ hh []
      simp only [List.map_cons, List.foldl_cons, hstep]
      obtain ⟨a, b⟩ := ih { s with skipped := s.skipped + 1 } (fun u hu => hn u (by simp [hu])) hl hh
      exact ⟨a, by simp only [] at b; simp only [List.length_cons]; omega⟩
  have hfirst : phAttempt symGuard PH_CAP {} 0 true [] = { camCount := 1, lastLf := some 0, histLen := 1, out := [some []], skipped := 0 } := by
    decide +kernel
  intro ticks
  obtain ⟨a, b⟩ := key nows (phAttempt symGuard PH_CAP {} 0 true []) h (by rw [hfirst]) (by rw [hfirst]; decide)
  obtain ⟨c, d, _, _⟩ := path_history_no_stall ticks
  refine ⟨?_, ?_, by simpa [ticks] using c, d⟩
  · simp only [ticks, phRun, List.foldl_cons]; rw [a, hfirst]
  · simp only [ticks, phRun, List.foldl_cons]; rw [b, hfirst]; simp

/-! ### the VAM between construction and BTP: every clustering state, with and without an LDM adapter (round 4) -/

/-- regenerated facts about `send_next_vam` and the CHOICE value of the cluster information container: the message is not
deep-copied on its way to BTP (`VAM_LDM_SNAPSHOT_DEEP = 0`), or the CHOICE value can be rebuilt by `copy`, or the LDM
block is guarded -/
theorem vam_ldm_path_facts : (VAM_LDM_SNAPSHOT_DEEP == 1 && !CHOICE_DEEPCOPYABLE && VAM_LDM_FEED_GUARDED != 1) = false :=
  vam_ldm_good

/-- for EVERY clustering state (no manager; VRU-IDLE, -ACTIVE-STANDALONE, -ACTIVE-CLUSTER-LEADER, -PASSIVE with every
combination of cluster / break-up / join / leave sub-state) and with or without an LDM adapter: the send path never
fails; it is silent exactly when the state forbids transmission; otherwise the VAM handed to BTP carries the cluster
information container iff the station leads a cluster and the operation container iff an operation is announced — the
same VAM with and without the adapter — and the adapter is fed iff configured -/
theorem vam_send_all_states (c : Option ClState) (ldm : Bool) :
    let r := vamSend VAM_LDM_SNAPSHOT_DEEP VAM_LDM_FEED_GUARDED CHOICE_DEEPCOPYABLE c ldm
    r ≠ .fail ∧ (shouldTransmit c = false → r = .silent) ∧
    (shouldTransmit c = true → ∃ fed, r = .sent (infoDue c) (opDue c) fed ∧ (fed = true → ldm = true) ∧
      (VAM_LDM_SNAPSHOT_DEEP = 0 ∨ CHOICE_DEEPCOPYABLE = true → fed = ldm)) :=
  vamSend_spec vam_ldm_good c ldm

/-- non-vacuity: leader with an LDM (information container, LDM fed), leader in the break-up warning (both containers),
standalone announcing a join, passive (silent), passive leaving (operation container), idle (silent), no manager -/
example :
    let v := vamSend VAM_LDM_SNAPSHOT_DEEP VAM_LDM_FEED_GUARDED CHOICE_DEEPCOPYABLE
    v (some ⟨.leader, true, false, .none, false⟩) true = .sent true false true ∧
    v (some ⟨.leader, true, true, .none, false⟩) true = .sent true true true ∧
    v (some ⟨.standalone, false, false, .notify, false⟩) false = .sent false true false ∧
    v (some ⟨.passive, false, false, .joined, false⟩) true = .silent ∧
    v (some ⟨.passive, false, false, .joined, true⟩) true = .sent false true true ∧
    v (some ⟨.idle, false, false, .none, false⟩) true = .silent ∧ v none true = .sent false false true := by decide

/-- witness (the seeded `copy.deepcopy(vam.vam)`): with a deep snapshot and the CHOICE class as it is, the cluster leader
with an LDM adapter never gets a VAM out; without the adapter, or in any state without the information container, nothing
changes — which is why only (cluster leader) x (LDM configured) shows it -/
theorem vam_send_deepcopy_witness :
    vamSend 1 0 false (some ⟨.leader, true, false, .none, false⟩) true = .fail ∧
    vamSend 1 0 false (some ⟨.leader, true, false, .none, false⟩) false = .sent true false false ∧
    vamSend 0 0 false (some ⟨.leader, true, false, .none, false⟩) true = .sent true false true ∧
    (∀ c ldm, infoDue c = false → vamSend 1 0 false c ldm = vamSend 0 0 false c ldm) := by
  refine ⟨by decide, by decide, by decide, fun c ldm h => ?_⟩
  simp [vamSend, h]

/-! ### round 5: every repetition of a DENM encodes the position the event was REQUESTED with -/

/-- regenerated fact: `request_denm_sending` hands the repetition thread a DEEP copy of the event position
(`DENM_REQ_SNAPSHOT = 2`); `dict(...)` / `.copy()` / `copy.copy(...)` (1) or the caller's dictionary itself (0) re-open
the theorem below -/
theorem denm_request_snapshot_deep : DENM_REQ_SNAPSHOT = 2 := by decide

/-- for EVERY requested position, EVERY history of caller operations on the dictionary it passed (top-level
assignments, in-place mutations and rebindings of the nested `positionConfidenceEllipse` / `altitude` records,
before the first and between any two repetitions) and any number of repetitions: every repetition encodes exactly the
requested position -/
theorem denm_repetitions_encode_requested_position (p : ReqPos) (hist : List (List CallerOp)) :
    repetitions DENM_REQ_SNAPSHOT p hist = List.replicate hist.length p := by
  rw [denm_request_snapshot_deep]
  exact repsFrom_deep hist (accept 2 p) rfl

/-- non-vacuity: three repetitions, the caller refreshes its record in place after the first one -/
example :
    repetitions 2 ⟨413873040, 21124850, ⟨400, 250, 0⟩, ⟨12130, 8⟩⟩
      [[], [.setLat 413918770, .setLon 21200110, .altInPlace ⟨6480, 8⟩, .ellInPlace ⟨900, 300, 900⟩], [.altRebind ⟨1, 2⟩]]
    = [⟨413873040, 21124850, ⟨400, 250, 0⟩, ⟨12130, 8⟩⟩, ⟨413873040, 21124850, ⟨400, 250, 0⟩, ⟨12130, 8⟩⟩,
       ⟨413873040, 21124850, ⟨400, 250, 0⟩, ⟨12130, 8⟩⟩] := by decide

/-- witness (not a claim): with a SHALLOW copy the same history makes repetitions 2 and 3 encode the OLD
latitude / longitude with the NEW altitude and confidence ellipse - a position no report ever contained; a later
rebinding of the caller's key does not reach the request; without any copy the repetitions follow the caller -/
theorem denm_snapshot_shallow_witness :
    repetitions 1 ⟨413873040, 21124850, ⟨400, 250, 0⟩, ⟨12130, 8⟩⟩
      [[], [.setLat 413918770, .setLon 21200110, .altInPlace ⟨6480, 8⟩, .ellInPlace ⟨900, 300, 900⟩], [.altRebind ⟨1, 2⟩]]
    = [⟨413873040, 21124850, ⟨400, 250, 0⟩, ⟨12130, 8⟩⟩, ⟨413873040, 21124850, ⟨900, 300, 900⟩, ⟨6480, 8⟩⟩,
       ⟨413873040, 21124850, ⟨900, 300, 900⟩, ⟨6480, 8⟩⟩] ∧
    repetitions 0 ⟨413873040, 21124850, ⟨400, 250, 0⟩, ⟨12130, 8⟩⟩ [[], [.setLat 413918770, .altRebind ⟨1, 2⟩]]
    = [⟨413873040, 21124850, ⟨400, 250, 0⟩, ⟨12130, 8⟩⟩, ⟨413918770, 21124850, ⟨400, 250, 0⟩, ⟨1, 2⟩⟩] := by decide

/-! ### the defects of the pinned commit (repaired by the `fix:` commits), machine-checked witnesses -/

/-- C11-F1: with the old guards (`alt < -800000`, `alt > 613000`) 7000 m — representable — was written as
positiveOutOfRange, and −1500 m was written raw, below the constraint (wraps in UPER) -/
theorem altitude_old_witness :
    altitudeG oldAlt 700000 = 800000 ∧ altitudeG goodAlt 700000 = 700000 ∧
    altitudeG oldAlt (-150000) = -150000 ∧ altitudeG goodAlt (-150000) = -100000 := by decide +kernel

/-- C11-F2: without the clamp epx = 50 m gave 5000 > 4095, epd = 0.05° gave headingConfidence 0 ∉ 1…127,
track = 360° gave headingValue 3600 (`doNotUse`), and the VAM builder's own ellipse never swapped the axes -/
theorem confidence_old_witness :
    semiAxisG 0 2 0 0 0 5000 = 5000 ∧ semiAxisG 1 2 4093 4094 1 5000 = 4094 ∧
    headingConfG 1 125 126 0 (1 / 20) (1 / 2) = 0 ∧ headingConfG 1 125 126 1 (1 / 20) (1 / 2) = 1 ∧
    headingG 0 3600 = 3600 ∧ headingG 3600 3600 = 0 ∧
    (vamEllipseOld ⟨1, 100⟩ ⟨2, 200⟩).major < (vamEllipseOld ⟨1, 100⟩ ⟨2, 200⟩).minor := by decide +kernel

/-- C11-F9: with the strict comparison of the commit before the repair (`epv < key`) an estimate exactly on a bound
went one class up and 200 m was sent as outOfRange -/
theorem altitude_confidence_old_witness :
    altConfFromG 0 ALT_CONF_LADDER 200 = "outOfRange" ∧ altConfFromG 1 ALT_CONF_LADDER 200 = "alt-200-00" ∧
    altConfFromG 0 ALT_CONF_LADDER (1 / 2) = "alt-001-00" ∧ altConfFromG 1 ALT_CONF_LADDER (1 / 2) = "alt-000-50" := by decide +kernel

end Props.C11

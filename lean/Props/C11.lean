/-
C11 — Facility messages faithfully encode the sensor input they were built from.
Property theorems only.  Model: `FlexModel/Fac/Mapping.lean` (guards/operators/codes regenerated from the source
into `Generated/FacConstants.lean`), ASN.1 ranges and special codes regenerated from the repo's ASN.1 text into
`Generated/Asn1Ranges.lean`; helper lemmas: `FlexModel/Fac/MappingLemmas.lean`.

All statements quantify over every exact rational input (the exact value of the double the code truncates);
`x` always denotes the already-scaled measurement (lat·1e7, altHAE·100, track·10, speed·100, epx·100, epd·10).
-/
import FlexModel.Fac.MappingLemmas

namespace Props.C11
open FlexModel.Fac.Mapping FlexModel.Fac.MappingLemmas Generated.Fac
open Generated.Asn1

/-- the three ASN.1 module texts the coders compile (CAM, VAM, DENM) agree on the ranges and special codes of
every data element written by the mappings, and these are the values the theorems below use -/
theorem asn1_ranges :
    [Cam.Latitude_lo, Cam.Latitude_hi, Cam.Latitude_unavailable] = [-900000000, 900000001, 900000001] ∧
    [Cam.Longitude_lo, Cam.Longitude_hi, Cam.Longitude_unavailable] = [-1800000000, 1800000001, 1800000001] ∧
    [Cam.AltitudeValue_lo, Cam.AltitudeValue_hi, Cam.AltitudeValue_negativeOutOfRange, Cam.AltitudeValue_postiveOutOfRange,
      Cam.AltitudeValue_unavailable] = [-100000, 800001, -100000, 800000, 800001] ∧
    [Cam.HeadingValue_lo, Cam.HeadingValue_hi, Cam.HeadingValue_doNotUse, Cam.HeadingValue_unavailable] = [0, 3601, 3600, 3601] ∧
    [Vam.Wgs84AngleValue_lo, Vam.Wgs84AngleValue_hi, Vam.Wgs84AngleValue_doNotUse, Vam.Wgs84AngleValue_unavailable] = [0, 3601, 3600, 3601] ∧
    [Cam.HeadingConfidence_lo, Cam.HeadingConfidence_hi, Cam.HeadingConfidence_outOfRange, Cam.HeadingConfidence_unavailable] = [1, 127, 126, 127] ∧
    [Vam.Wgs84AngleConfidence_lo, Vam.Wgs84AngleConfidence_hi, Vam.Wgs84AngleConfidence_outOfRange, Vam.Wgs84AngleConfidence_unavailable] = [1, 127, 126, 127] ∧
    [Cam.SpeedValue_lo, Cam.SpeedValue_hi, Cam.SpeedValue_outOfRange, Cam.SpeedValue_unavailable] = [0, 16383, 16382, 16383] ∧
    [Cam.SemiAxisLength_lo, Cam.SemiAxisLength_hi, Cam.SemiAxisLength_doNotUse, Cam.SemiAxisLength_outOfRange,
      Cam.SemiAxisLength_unavailable] = [0, 4095, 0, 4094, 4095] ∧
    [Cam.GenerationDeltaTime_lo, Cam.GenerationDeltaTime_hi] = [0, 65535] ∧
    [Vam.Latitude_lo, Vam.Latitude_hi, Vam.Longitude_lo, Vam.Longitude_hi, Vam.AltitudeValue_lo, Vam.AltitudeValue_hi,
      Vam.SpeedValue_lo, Vam.SpeedValue_hi, Vam.SemiAxisLength_lo, Vam.SemiAxisLength_hi, Vam.GenerationDeltaTime_hi] =
      [Cam.Latitude_lo, Cam.Latitude_hi, Cam.Longitude_lo, Cam.Longitude_hi, Cam.AltitudeValue_lo, Cam.AltitudeValue_hi,
       Cam.SpeedValue_lo, Cam.SpeedValue_hi, Cam.SemiAxisLength_lo, Cam.SemiAxisLength_hi, Cam.GenerationDeltaTime_hi] ∧
    [Denm.Latitude_lo, Denm.Latitude_hi, Denm.Longitude_lo, Denm.Longitude_hi, Denm.AltitudeValue_lo, Denm.AltitudeValue_hi] =
      [Cam.Latitude_lo, Cam.Latitude_hi, Cam.Longitude_lo, Cam.Longitude_hi, Cam.AltitudeValue_lo, Cam.AltitudeValue_hi] := by
  decide

/-- absent measurement → the element's `unavailable` code (all elements, all three message kinds) -/
theorem absent_is_unavailable :
    latitude none = Cam.Latitude_unavailable ∧ longitude none = Cam.Longitude_unavailable ∧
    altitude camAlt none = Cam.AltitudeValue_unavailable ∧ altitude vamAlt none = Vam.AltitudeValue_unavailable ∧
    altitude denmAlt none = Denm.AltitudeValue_unavailable ∧
    heading CAM_HEADING_MOD none = Cam.HeadingValue_unavailable ∧ heading VAM_HEADING_MOD none = Vam.Wgs84AngleValue_unavailable ∧
    headingConf none = Cam.HeadingConfidence_unavailable ∧ camSpeed none = Cam.SpeedValue_unavailable ∧
    vamSpeed none = Vam.SpeedValue_unavailable ∧ altConf none = "unavailable" ∧
    camEllipse none = ⟨Cam.SemiAxisLength_unavailable, Cam.SemiAxisLength_unavailable, 3601⟩ ∧
    vamEllipse none = ⟨Vam.SemiAxisLength_unavailable, Vam.SemiAxisLength_unavailable, 3601⟩ := by
  decide

/-- latitude: every |lat| ≤ 90° is inside the constraint, never the unavailable code, within one unit (0.1 µdeg) -/
theorem latitude_spec (x : Rat) (h : -900000000 ≤ x ∧ x ≤ 900000000) :
    (Cam.Latitude_lo ≤ latitude (some x) ∧ latitude (some x) < Cam.Latitude_unavailable) ∧
    (x - 1 < (latitude (some x) : Rat) ∧ (latitude (some x) : Rat) < x + 1) := by
  have := position_spec x 900000000 (by simpa using h)
  simp only [latitude, Cam.Latitude_lo, Cam.Latitude_unavailable]
  exact ⟨by omega, this.2⟩

/-- longitude: every |lon| ≤ 180° is inside the constraint, never the unavailable code, within one unit -/
theorem longitude_spec (x : Rat) (h : -1800000000 ≤ x ∧ x ≤ 1800000000) :
    (Cam.Longitude_lo ≤ longitude (some x) ∧ longitude (some x) < Cam.Longitude_unavailable) ∧
    (x - 1 < (longitude (some x) : Rat) ∧ (longitude (some x) : Rat) < x + 1) := by
  have := position_spec x 1800000000 (by simpa using h)
  simp only [longitude, Cam.Longitude_lo, Cam.Longitude_unavailable]
  exact ⟨by omega, this.2⟩

/-- altitude, for EVERY input (no range assumption), CAM, VAM and DENM event position alike: the result is inside
the constraint (never wraps); ≤ −1000 m → negativeOutOfRange; ≥ 8000 m → positiveOutOfRange; anything in between is
represented within one unit (1 cm) and is none of the special codes -/
theorem altitude_spec (p : AltP) (hp : p = camAlt ∨ p = vamAlt ∨ p = denmAlt) (x : Rat) :
    let a := altitude p (some x)
    (Cam.AltitudeValue_lo ≤ a ∧ a ≤ Cam.AltitudeValue_hi) ∧
    (x ≤ -100000 → a = Cam.AltitudeValue_negativeOutOfRange) ∧
    (800000 ≤ x → a = Cam.AltitudeValue_postiveOutOfRange) ∧
    (-100000 < x → x < 800000 → (x - 1 < (a : Rat) ∧ (a : Rat) < x + 1) ∧
      a ≠ Cam.AltitudeValue_negativeOutOfRange ∧ a ≠ Cam.AltitudeValue_postiveOutOfRange ∧ a ≠ Cam.AltitudeValue_unavailable) := by
  have hg : altitudeG p x = altitudeG goodAlt x := by
    rcases hp with h | h | h <;> rw [h]
    · exact altitudeG_congr camAlt_ok x
    · exact altitudeG_congr vamAlt_ok x
    · exact altitudeG_congr denmAlt_ok x
  obtain ⟨h1, h2, h3, h4⟩ := altitudeG_spec x
  simp only [altitude, hg, Cam.AltitudeValue_lo, Cam.AltitudeValue_hi, Cam.AltitudeValue_negativeOutOfRange,
    Cam.AltitudeValue_postiveOutOfRange, Cam.AltitudeValue_unavailable]
  refine ⟨by omega, h2, h3, fun a b => ?_⟩
  obtain ⟨hc, h5, h6⟩ := h4 a b
  exact ⟨hc, by omega, by omega, by omega⟩

/-- altitude confidence: always one of the names of the ASN.1 enumeration (encodable) -/
theorem altitude_confidence_encodable (epv : Option Rat) :
    altConf epv ∈ Cam.AltitudeConfidence_names ∧ Vam.AltitudeConfidence_names = Cam.AltitudeConfidence_names ∧
    Denm.AltitudeConfidence_names = Cam.AltitudeConfidence_names :=
  ⟨altConf_encodable epv, by decide, by decide⟩

/-- altitude confidence: the class written is a true upper bound of `epv` taken from the ladder, or `outOfRange`
when `epv` is not below any step (≥ 200 m) -/
theorem altitude_confidence_sound (epv : Rat) :
    (∃ k, (k, altConf (some epv)) ∈ ALT_CONF_LADDER ∧ epv < k) ∨
    (altConf (some epv) = "outOfRange" ∧ (200 : Rat) ≤ epv) := by
  rcases altConfFrom_sound ALT_CONF_LADDER epv with h | ⟨h1, h2⟩
  · exact Or.inl h
  · refine Or.inr ⟨h1, ?_⟩
    exact h2 ((200 : Rat), "alt-200-00") (by decide +kernel)

/-- heading value (CAM `headingValue`, VAM `heading.value`): for every track ≥ 0 the result is 0…3599 — never
`doNotUse`(3600) nor `unavailable`(3601); below 360° it is within one unit (0.1°); exactly 360° is written as 0 -/
theorem heading_spec (m : Nat) (hm : m = CAM_HEADING_MOD ∨ m = VAM_HEADING_MOD) (x : Rat) (h0 : 0 ≤ x) :
    let h := heading m (some x)
    (Cam.HeadingValue_lo ≤ h ∧ h < Cam.HeadingValue_doNotUse) ∧
    (x < 3600 → x - 1 < (h : Rat) ∧ (h : Rat) < x + 1) ∧ (x = 3600 → h = 0) := by
  have : m = 3600 := by rcases hm with h | h <;> rw [h] <;> decide
  subst this
  obtain ⟨h1, h2, h3⟩ := headingG_spec x h0
  simp only [heading, Cam.HeadingValue_lo, Cam.HeadingValue_doNotUse]
  exact ⟨by omega, h2, h3⟩

/-- heading confidence, for every epd ≥ 0: inside 1…126 ⊂ constraint; > 12.5° → outOfRange(126); otherwise ≤ 125,
within one unit (0.1°), and 1 when the estimate is below one unit (`hmono`: the double product epd·10 is monotone) -/
theorem heading_confidence_spec (epd epd10 : Rat) (h0 : 0 ≤ epd10) (hmono : epd ≤ 25 / 2 → epd10 ≤ 125) :
    let c := headingConf (some (epd, epd10))
    (Cam.HeadingConfidence_lo ≤ c ∧ c < Cam.HeadingConfidence_unavailable) ∧
    (25 / 2 < epd → c = Cam.HeadingConfidence_outOfRange) ∧
    (epd ≤ 25 / 2 → c < Cam.HeadingConfidence_outOfRange ∧
      (1 ≤ epd10 → epd10 - 1 < (c : Rat) ∧ (c : Rat) < epd10 + 1) ∧ (epd10 < 1 → c = 1)) := by
  have hp := headingConf_params_good
  simp only [Prod.mk.injEq] at hp
  obtain ⟨p1, p2, p3, p4⟩ := hp
  obtain ⟨h1, h2, h3⟩ := headingConfG_spec epd epd10 h0 hmono
  simp only [headingConf, p1, p2, p3, p4, Cam.HeadingConfidence_lo, Cam.HeadingConfidence_unavailable,
    Cam.HeadingConfidence_outOfRange]
  refine ⟨by omega, h2, fun h => ?_⟩
  obtain ⟨a, b, c⟩ := h3 h
  exact ⟨by omega, b, c⟩

/-- speed, for every speed ≥ 0 (CAM and VAM): inside 0…16382; ≥ 163.82 m/s → outOfRange(16382); below that within
one unit (1 cm/s) and not a special code -/
theorem speed_spec (f : Option Rat → Int) (hf : f = camSpeed ∨ f = vamSpeed) (x : Rat) (h0 : 0 ≤ x) :
    let v := f (some x)
    (Cam.SpeedValue_lo ≤ v ∧ v < Cam.SpeedValue_unavailable) ∧
    (16382 ≤ x → v = Cam.SpeedValue_outOfRange) ∧
    (x < 16382 → (x - 1 < (v : Rat) ∧ (v : Rat) < x + 1) ∧ v < Cam.SpeedValue_outOfRange) := by
  obtain ⟨h1, h2, h3⟩ := speedG_spec x h0
  have : f (some x) = speedG 2 16381 16382 x := by
    rcases hf with h | h <;> rw [h]
    · exact speedG_congr speed_ok.1 x
    · exact speedG_congr speed_ok.2 x
  simp only [this, Cam.SpeedValue_lo, Cam.SpeedValue_unavailable, Cam.SpeedValue_outOfRange]
  refine ⟨by omega, h2, fun h => ?_⟩
  obtain ⟨a, b⟩ := h3 h
  exact ⟨a, by omega⟩

/-- one semi-axis, for EVERY input: inside 1…4094 (never `doNotUse`, never `unavailable`, never beyond 4095);
≥ 40.94 m → outOfRange(4094); between 1 cm and 40.94 m within one unit; below 1 cm → 1 -/
theorem semi_axis_spec (x : Rat) :
    let r := semiAxis x
    (Cam.SemiAxisLength_doNotUse < r ∧ r < Cam.SemiAxisLength_unavailable) ∧
    (4094 ≤ x → r = Cam.SemiAxisLength_outOfRange) ∧
    (1 ≤ x → x < 4094 → (x - 1 < (r : Rat) ∧ (r : Rat) < x + 1) ∧ r < Cam.SemiAxisLength_outOfRange) ∧ (x < 1 → r = 1) := by
  obtain ⟨h1, h2, h3, h4⟩ := goodAxis_spec x
  simp only [semiAxis_eq, Cam.SemiAxisLength_doNotUse, Cam.SemiAxisLength_unavailable, Cam.SemiAxisLength_outOfRange]
  refine ⟨by omega, h2, fun a b => ?_, h4⟩
  obtain ⟨c, d⟩ := h3 a b
  exact ⟨c, by omega⟩

private theorem semi_axis_range (x : Rat) :
    Cam.SemiAxisLength_lo ≤ semiAxis x ∧ semiAxis x ≤ Cam.SemiAxisLength_hi := by
  have := (semi_axis_spec x).1
  simp only [Cam.SemiAxisLength_lo, Cam.SemiAxisLength_hi, Cam.SemiAxisLength_doNotUse, Cam.SemiAxisLength_unavailable] at *
  omega

/-- position confidence ellipse of CAM and VAM: semi-major ≥ semi-minor for all error estimates, both axes in
1…4094 (`hmono`: the double product e·100 is monotone in e) -/
theorem ellipse_major_ge_minor_cam_vam (epx epy : Err)
    (hmono : (epx.raw ≤ epy.raw → epx.x100 ≤ epy.x100) ∧ (epy.raw ≤ epx.raw → epy.x100 ≤ epx.x100)) :
    (camEllipse (some (epx, epy))).minor ≤ (camEllipse (some (epx, epy))).major ∧
    vamEllipse (some (epx, epy)) = camEllipse (some (epx, epy)) ∧
    1 ≤ (camEllipse (some (epx, epy))).minor ∧ (camEllipse (some (epx, epy))).major ≤ 4094 := by
  have hv : VAM_ELLIPSE_OWN = 0 := semiAxis_ok.2
  have hmm := ellipse_major_ge_minor epx epy hmono
  simp only [camEllipse, vamEllipse, hv, if_true, semiAxis_eq]
  refine ⟨hmm, trivial, ?_, ?_⟩
  · simp only [ellipseWith]; split <;> exact (goodAxis_spec _).1.1
  · simp only [ellipseWith]; split <;> exact (goodAxis_spec _).1.2

/-- generationDeltaTime is always inside 0…65535 -/
theorem gdt_in_constraint (g : Int) : Cam.GenerationDeltaTime_lo ≤ gdt g ∧ gdt g ≤ Cam.GenerationDeltaTime_hi := by
  have := gdt_range g
  simp only [Cam.GenerationDeltaTime_lo, Cam.GenerationDeltaTime_hi]; omega

/-- a receiver reconstructs the absolute generation time of any message younger than 65.536 s:
for all UTC millisecond instants g (from the ITS epoch on) and reception instants r with g ≤ r < g + 65536 -/
theorem gdt_reconstruct (g r : Int) (hg : (ITS_EPOCH_MS : Int) - ELAPSED_MILLISECONDS ≤ g) (h1 : g ≤ r) (h2 : r < g + 65536) :
    reconstruct (gdt g) r = g :=
  FlexModel.Fac.MappingLemmas.gdt_reconstruct g r hg h1 h2

/-- non-vacuity / tightness of `gdt_reconstruct`: at exactly 65.536 s the reconstruction is one cycle off -/
example : reconstruct (gdt 1700000000000) (1700000000000 + 65536) = 1700000000000 + 65536 := by decide

/-- no report inside the stated ranges makes generation fail at model level: every data element written by the CAM /
VAM builders lies inside its ASN.1 constraint, for every subset of present fields -/
theorem report_encodable (lat lon alt track speed : Option Rat) (epd : Option (Rat × Rat)) (errs : Option (Err × Err)) (epv : Option Rat)
    (hlat : ∀ x, lat = some x → -900000000 ≤ x ∧ x ≤ 900000000)
    (hlon : ∀ x, lon = some x → -1800000000 ≤ x ∧ x ≤ 1800000000)
    (htrack : ∀ x, track = some x → 0 ≤ x) (hspeed : ∀ x, speed = some x → 0 ≤ x)
    (hepd : ∀ a b, epd = some (a, b) → 0 ≤ b ∧ (a ≤ 25 / 2 → b ≤ 125)) :
    (Cam.Latitude_lo ≤ latitude lat ∧ latitude lat ≤ Cam.Latitude_hi) ∧
    (Cam.Longitude_lo ≤ longitude lon ∧ longitude lon ≤ Cam.Longitude_hi) ∧
    (Cam.AltitudeValue_lo ≤ altitude camAlt alt ∧ altitude camAlt alt ≤ Cam.AltitudeValue_hi) ∧
    (Cam.HeadingValue_lo ≤ heading CAM_HEADING_MOD track ∧ heading CAM_HEADING_MOD track ≤ Cam.HeadingValue_hi) ∧
    (Cam.HeadingConfidence_lo ≤ headingConf epd ∧ headingConf epd ≤ Cam.HeadingConfidence_hi) ∧
    (Cam.SpeedValue_lo ≤ camSpeed speed ∧ camSpeed speed ≤ Cam.SpeedValue_hi) ∧
    (Cam.SemiAxisLength_lo ≤ (camEllipse errs).minor ∧ (camEllipse errs).minor ≤ Cam.SemiAxisLength_hi) ∧
    (Cam.SemiAxisLength_lo ≤ (camEllipse errs).major ∧ (camEllipse errs).major ≤ Cam.SemiAxisLength_hi) ∧
    altConf epv ∈ Cam.AltitudeConfidence_names := by
  refine ⟨?_, ?_, ?_, ?_, ?_, ?_, ?_, ?_, altConf_encodable epv⟩
  · cases lat with
    | none => decide
    | some x => have := (latitude_spec x (hlat x rfl)).1; simp only [Cam.Latitude_lo, Cam.Latitude_hi, Cam.Latitude_unavailable] at *; omega
  · cases lon with
    | none => decide
    | some x => have := (longitude_spec x (hlon x rfl)).1; simp only [Cam.Longitude_lo, Cam.Longitude_hi, Cam.Longitude_unavailable] at *; omega
  · cases alt with
    | none => decide
    | some x => exact (altitude_spec camAlt (Or.inl rfl) x).1
  · cases track with
    | none => decide
    | some x =>
      have := (heading_spec CAM_HEADING_MOD (Or.inl rfl) x (htrack x rfl)).1
      simp only [Cam.HeadingValue_lo, Cam.HeadingValue_hi, Cam.HeadingValue_doNotUse] at *; omega
  · cases epd with
    | none => decide
    | some p =>
      obtain ⟨a, b⟩ := p
      have := (heading_confidence_spec a b (hepd a b rfl).1 (hepd a b rfl).2).1
      simp only [Cam.HeadingConfidence_lo, Cam.HeadingConfidence_hi, Cam.HeadingConfidence_unavailable] at *; omega
  · cases speed with
    | none => decide
    | some x =>
      have := (speed_spec camSpeed (Or.inl rfl) x (hspeed x rfl)).1
      simp only [Cam.SpeedValue_lo, Cam.SpeedValue_hi, Cam.SpeedValue_unavailable] at *; omega
  · cases errs with
    | none => decide
    | some p =>
      obtain ⟨ex, ey⟩ := p
      simp only [camEllipse, ellipseWith]
      split <;> exact semi_axis_range _
  · cases errs with
    | none => decide
    | some p =>
      obtain ⟨ex, ey⟩ := p
      simp only [camEllipse, ellipseWith]
      split <;> exact semi_axis_range _

/-! ### the defects of the pinned commit (repaired by the `fix:` commits), machine-checked witnesses -/

/-- C11-F1: with the old guards (`alt < -800000`, `alt > 613000`) 7000 m — representable — was written as
positiveOutOfRange, and −1500 m was written raw, below the constraint (wraps in UPER) -/
theorem altitude_old_witness :
    altitudeG oldAlt 700000 = 800000 ∧ altitudeG goodAlt 700000 = 700000 ∧
    altitudeG oldAlt (-150000) = -150000 ∧ altitudeG goodAlt (-150000) = -100000 := by decide +kernel

/-- C11-F2: without the clamp epx = 50 m gave 5000 > 4095, epd = 0.05° gave headingConfidence 0 ∉ 1…127,
track = 360° gave headingValue 3600 (`doNotUse`), and the VAM builder's own ellipse never swapped the axes -/
theorem confidence_old_witness :
    semiAxisG 0 2 0 0 0 5000 = 5000 ∧ semiAxisG 1 2 4093 4094 1 5000 = 4094 ∧
    headingConfG 1 125 126 0 (1 / 20) (1 / 2) = 0 ∧ headingConfG 1 125 126 1 (1 / 20) (1 / 2) = 1 ∧
    headingG 0 3600 = 3600 ∧ headingG 3600 3600 = 0 ∧
    (vamEllipseOld ⟨1, 100⟩ ⟨2, 200⟩).major < (vamEllipseOld ⟨1, 100⟩ ⟨2, 200⟩).minor := by decide +kernel

end Props.C11

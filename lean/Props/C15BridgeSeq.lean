/-
C15 — bridge lemma: `Router.get_sequence_number` extracted from the Python AST on every run
(`Generated/ExtractedSeq.lean`; the `with self.sequence_number_lock:` block is translated for its sequential
effect only, the locking discipline is what C15 itself proves from the regenerated lock map) computes the value
that the concurrency model's block `getSN` stores and logs: `(sn + 1) mod 65535`.
-/
import FlexModel.Conc.RouterConc
import Generated.ExtractedSeq

namespace Props.C15BridgeSeq
open FlexModel.Conc.Router Generated.Extracted

/-- returned value = new `sequence_number` of the model state, for every state and operation index -/
theorem get_sequence_number_eq (o : Nat) (s : St) : Router_get_sequence_number s.sn = (getSN o s).sn := by
  simp only [Router_get_sequence_number, getSN, M]
  try omega

/-- the returned value is also the one recorded in the model's log of issued sequence numbers -/
theorem get_sequence_number_logged (o : Nat) (s : St) :
    (getSN o s).snLog = Router_get_sequence_number s.sn :: s.snLog := by
  rw [get_sequence_number_eq o s]
  simp only [getSN]

end Props.C15BridgeSeq

/-
C10 — CAM and VAM generation follow the timing and trigger rules of their standards.
Property theorems only.  Models: `FlexModel/Fac/CamTM.lean`, `FlexModel/Fac/VamTM.lean`;
rules (monitors over the event log of a run): `FlexModel/Fac/CamSpec.lean`, `FlexModel/Fac/VamSpec.lean`;
helper lemmas: `FlexModel/Fac/CamLemmas.lean`, `FlexModel/Fac/VamLemmas.lean`.

Every theorem quantifies over ALL operation sequences (any length, any times, any reports) and over the
static configuration; proofs are by induction on the sequence through a one-step simulation.
-/
import FlexModel.Fac.CamLemmas
import FlexModel.Fac.VamLemmas

namespace Props.C10
open FlexModel.Fac FlexModel.Fac.Mon

/-! ## CAM (CAMTransmissionManagement) -/
section cam
open FlexModel.Fac.Cam FlexModel.Fac.CamSpec FlexModel.Fac.CamLemmas

/-- the event log of a run from the freshly constructed object -/
def camLog (cfg : Cfg) (ops : List Cam.Op) : List CamSpec.Ev := events Cam.step (Cam.init cfg) ops

/-- nothing is sent before `start`, after `stop`, or by anything but a T_CheckCamGen expiry -/
theorem cam_silent_when_inactive (cfg : Cfg) (ops : List Cam.Op) :
    accepts silentMon {} (camLog cfg ops) = true :=
  accepts_of_sim Cam.step silentMon (fun s m => m.active = s.active) silent_sim ops _ _ rfl

/-- consecutive CAMs of one activation are at least T_GenCamMin = 100 ms apart (no assumption on the clock) -/
theorem cam_min_gap (cfg : Cfg) (ops : List Cam.Op) :
    accepts minGapMon {} (camLog cfg ops) = true :=
  accepts_of_sim Cam.step minGapMon (fun s m => m.active = s.active ∧ m.last = s.lastCamTime)
    minGap_sim ops _ _ ⟨rfl, rfl⟩

/-- the first serviceable check of an activation sends, and while a report is present, sends succeed and
checks are at most `P` apart, consecutive CAMs are at most T_GenCamMax + P = 1000 + P ms apart (for every P) -/
theorem cam_max_gap (P : Nat) (cfg : Cfg) (ops : List Cam.Op) :
    accepts (maxGapMon P) {} (camLog cfg ops) = true :=
  accepts_of_sim Cam.step (maxGapMon P) MaxRel (maxGap_sim P) ops _ _
    ⟨rfl, rfl, rfl, (inv_init cfg).1, (inv_init cfg).2.1, by intro t ht; simp at ht⟩

/-- the invariant behind `cam_max_gap`: T_GenCamMin ≤ T_GenCam ≤ T_GenCamMax in every reachable state, and a
T_CheckCamGen timer is pending exactly while the service is active (the loop survives failed sends) -/
theorem cam_tgen_bounds_and_timer (cfg : Cfg) (ops : List Cam.Op) :
    let s := final Cam.step (Cam.init cfg) ops
    Generated.Fac.T_GEN_CAM_MIN ≤ s.tGenCam ∧ s.tGenCam ≤ Generated.Fac.T_GEN_CAM_MAX ∧ s.armed = s.active :=
  inv_final Cam.step CamInv inv_step ops _ (inv_init cfg)

/-- responsiveness: a check at which ≥ 100 ms have elapsed and heading (wrap-aware) / position / speed differ
from the values lastly included in a CAM by more than 4° / 4 m / 0.5 m/s generates a CAM (if the send succeeds) -/
theorem cam_responsive (cfg : Cfg) (ops : List Cam.Op) :
    accepts respMon {} (camLog cfg ops) = true :=
  accepts_of_sim Cam.step respMon RespRel resp_sim ops _ _ ⟨rfl, rfl, rfl, rfl, rfl, rfl⟩

/-- low-frequency container: present in the first CAM of an activation and in every CAM generated ≥ 500 ms after
the last CAM that carried it, absent from every other CAM -/
theorem cam_lf_rule (cfg : Cfg) (ops : List Cam.Op) :
    accepts lfMon {} (camLog cfg ops) = true :=
  accepts_of_sim Cam.step lfMon CamLemmas.LfRel CamLemmas.lf_sim ops _ _ ⟨rfl, rfl, fun _ => rfl⟩

/-- every CAM is built from the latest report, is stamped with the time of its check, and carries
generationDeltaTime = (ITS timestamp of that report) mod 65536 -/
theorem cam_latest_report_and_gdt (cfg : Cfg) (ops : List Cam.Op) :
    accepts latestMon {} (camLog cfg ops) = true :=
  accepts_of_sim Cam.step latestMon (fun s m => m.cur = s.cur) latest_sim ops _ _ rfl

/-- the monitors are not vacuous: they reject logs that break the rules -/
example : accepts minGapMon {} [(.start, none), (.check 1000 0 true, some { (default : CamOut) with t := 1000 }),
    (.check 1099 0 true, some { (default : CamOut) with t := 1099 })] = false := by decide
example : accepts (maxGapMon 100) {} [(.start, none), (.report default, none),
    (.check 1000 0 true, some default), (.check 1100 0 true, none), (.check 1200 0 true, none),
    (.check 1300 0 true, none), (.check 1400 0 true, none), (.check 1500 0 true, none), (.check 1600 0 true, none),
    (.check 1700 0 true, none), (.check 1800 0 true, none), (.check 1900 0 true, none), (.check 2000 0 true, none),
    (.check 2100 0 true, none), (.check 2200 0 true, none)] = false := by decide
example : accepts lfMon {} [(.start, none), (.check 1000 0 true, some { (default : CamOut) with lf := false })] = false := by
  decide
example : accepts respMon {} [(.start, none),
    (.report { rid := 1, its := none, heading := some 35900, speed := none, hasPos := false }, none),
    (.check 1000 0 true, some default),
    (.report { rid := 2, its := none, heading := some 500, speed := none, hasPos := false }, none),
    (.check 1100 0 true, none)] = false := by decide
/-- and a real run is accepted with CAMs in it: first CAM immediately, second after T_GenCam -/
example : (camLog {} [.start, .report { rid := 1, its := some 70000, heading := some 9000, speed := some 1000, hasPos := true },
    .check 1000 0 true, .check 1100 0 true]).map (fun e => e.2.map (fun c => (c.t, c.lf, c.gdt))) =
    [none, none, some (1000, true, 4464), some (1100, false, 4464)] := by decide

/-- Interpretation made explicit: the minimum interval is per activation.  Across a stop/start cycle the code
sends the first CAM of the new activation at once (here 7 ms after the previous CAM). -/
theorem cam_restart_gap_witness :
    (camLog {} [.start, .report default, .check 1000 0 true, .stop, .start, .check 1007 0 true]).filterMap
      (fun e => e.2.map (·.t)) = [1000, 1007] := by decide

end cam

/-! ## VAM (VAMTransmissionManagement) -/
section vam
open FlexModel.Fac.Vam FlexModel.Fac.VamSpec FlexModel.Fac.VamLemmas

def vamLog (gated : Bool) (tGenVam : Nat) (ops : List Vam.Op) : List VamSpec.Ev :=
  events Vam.step (Vam.init gated tGenVam) ops

/-- the first report after activation (while not passive/idle) sends a VAM — for both variants, any T_GenVam -/
theorem vam_first_report (gated : Bool) (tGenVam : Nat) (ops : List Vam.Op) :
    accepts firstMon {} (vamLog gated tGenVam ops) = true :=
  accepts_of_sim Vam.step firstMon (fun s m => m.sent = s.lastGdt.isSome) first_sim ops _ _ rfl

/-- a VAM is only sent while not passive/idle, is built from the report that triggered it, and carries
generationDeltaTime = (ITS timestamp of that report) mod 65536 -/
theorem vam_content (gated : Bool) (tGenVam : Nat) (ops : List Vam.Op) :
    accepts contentMon () (vamLog gated tGenVam ops) = true :=
  accepts_of_sim Vam.step contentMon (fun _ _ => True) (fun s _ op _ => by
    obtain ⟨m', h⟩ := content_sim s op; exact ⟨m', h, trivial⟩) ops _ _ trivial

/-- Full strength, for the repaired variant (`gated = true`): with non-decreasing report timestamps, consecutive
VAMs are at least T_GenVamMin = 100 ms apart on the report timestamps, whatever trigger sent them, for any
T_GenVam (the mod-65536 subtraction included) -/
theorem vam_min_gap (tGenVam : Nat) (ops : List Vam.Op) :
    accepts (VamSpec.minGapMon true) {} (vamLog true tGenVam ops) = true :=
  accepts_of_sim Vam.step (VamSpec.minGapMon true) (VamLemmas.MinRel true) (VamLemmas.minGap_sim true) ops _ _
    ⟨Or.inl rfl, by intro t ht; simp at ht⟩

/-- The code as it is (`gated = false`, known finding C10-KF1): the minimum interval holds for every VAM sent by
the elapsed-time trigger (or first), provided T_GenVam ≥ T_GenVamMin; VAMs sent by the position / speed /
heading triggers are outside this statement. -/
theorem vam_min_gap_partial (tGenVam : Nat) (h : VamSpec.T_GenVamMin ≤ tGenVam) (ops : List Vam.Op) :
    accepts (VamSpec.minGapMon false) {} (vamLog false tGenVam ops) = true :=
  accepts_of_sim Vam.step (VamSpec.minGapMon false) (VamLemmas.MinRel false) (VamLemmas.minGap_sim false) ops _ _
    ⟨Or.inr ⟨rfl, h⟩, by intro t ht; simp at ht⟩

/-- C10-KF1, machine-checked witness: at 50 Hz a speed change of 2 m/s sends a second VAM 20 ms after the first;
the full-strength monitor rejects the un-gated run and accepts the gated one. -/
theorem vam_min_gap_witness :
    let r1 : Vam.Tpv := { rid := 1, its := some 1000000, pos := some (410000000, 20000000), speed := some 1000, heading := some 9000 }
    let r2 : Vam.Tpv := { rid := 2, its := some 1000020, pos := some (410000000, 20000000), speed := some 3000, heading := some 9000 }
    let ops : List Vam.Op := [{ r := r1, wall := 5000, gate := true }, { r := r2, wall := 5020, gate := true }]
    accepts (VamSpec.minGapMon true) {} (vamLog false 100 ops) = false ∧
    accepts (VamSpec.minGapMon true) {} (vamLog true 100 ops) = true ∧
    (vamLog false 100 ops).filterMap (fun e => e.2.map (fun c => (c.its, c.trig))) = [(some 1000000, 0), (some 1000020, 3)] := by
  decide

/-- while reports with timestamps keep arriving at most `R` apart (non-decreasing) and the station is neither
passive nor idle, consecutive VAMs are at most T_GenVamMax + R = 5000 + R ms apart and no report is left more
than T_GenVamMax after the last VAM — for both variants, every T_GenVam ≤ T_GenVamMax and every R with
R + max(T_GenVam, T_GenVamMin) ≤ 65536 (so that the mod-65536 elapsed time is unambiguous) -/
theorem vam_max_gap (gated : Bool) (tGenVam R : Nat) (hT : tGenVam ≤ VamSpec.T_GenVamMax)
    (hR : R + tGenVam ≤ 65536) (hR' : R + VamSpec.T_GenVamMin ≤ 65536) (ops : List Vam.Op) :
    accepts (VamSpec.maxGapMon R) {} (vamLog gated tGenVam ops) = true := by
  have hmm : VamSpec.T_GenVamMin ≤ VamSpec.T_GenVamMax := by decide
  refine accepts_of_sim Vam.step (VamSpec.maxGapMon R) (VamLemmas.MaxRel R (max tGenVam VamSpec.T_GenVamMin))
    (VamLemmas.maxGap_sim R _) ops _ _ ⟨⟨?_, ?_, ?_, ?_⟩, by intro t ht; simp at ht⟩
  · exact Nat.le_max_left _ _
  · exact Nat.le_max_right _ _
  · exact Nat.max_le.mpr ⟨hT, hmm⟩
  · rcases Nat.le_total tGenVam VamSpec.T_GenVamMin with h | h
    · rw [Nat.max_eq_right h]; exact hR'
    · rw [Nat.max_eq_left h]; exact hR

/-- the side conditions of `vam_max_gap` hold for the regenerated default T_GenVam and every report period up to 60 s -/
example : Generated.Fac.T_GENVAMMIN ≤ VamSpec.T_GenVamMax ∧ 60000 + Generated.Fac.T_GENVAMMIN ≤ 65536 ∧
    Generated.Fac.T_GENVAMMAX = VamSpec.T_GenVamMax ∧ Generated.Fac.T_GENVAMMIN = VamSpec.T_GenVamMin := by decide

/-- low-frequency container: present in the first VAM and in every VAM generated ≥ 2000 ms (wall clock at
sending) after the last VAM that carried it, absent from every other VAM -/
theorem vam_lf_rule (gated : Bool) (tGenVam : Nat) (ops : List Vam.Op) :
    accepts VamSpec.lfMon {} (vamLog gated tGenVam ops) = true :=
  accepts_of_sim Vam.step VamSpec.lfMon VamLemmas.LfRel VamLemmas.lf_sim ops _ _ ⟨rfl, fun _ => rfl⟩

/-- non-vacuity: the monitors reject a late VAM / a missing first VAM / a wrong LF decision -/
example : accepts (VamSpec.maxGapMon 1000) {}
    [(({ r := { (default : Vam.Tpv) with its := some 10000 }, wall := 0, gate := true } : Vam.Op), some default),
     ({ r := { (default : Vam.Tpv) with its := some 11000 }, wall := 0, gate := true }, none),
     ({ r := { (default : Vam.Tpv) with its := some 12000 }, wall := 0, gate := true }, none),
     ({ r := { (default : Vam.Tpv) with its := some 13000 }, wall := 0, gate := true }, none),
     ({ r := { (default : Vam.Tpv) with its := some 14000 }, wall := 0, gate := true }, none),
     ({ r := { (default : Vam.Tpv) with its := some 15000 }, wall := 0, gate := true }, none),
     ({ r := { (default : Vam.Tpv) with its := some 16000 }, wall := 0, gate := true }, none)] = false := by decide
example : accepts firstMon {} [(({ r := default, wall := 0, gate := true } : Vam.Op), none)] = false := by decide
example : accepts VamSpec.lfMon {} [(({ r := default, wall := 0, gate := true } : Vam.Op),
    some { (default : VamOut) with lf := false })] = false := by decide

end vam
end Props.C10

/-
C10 — CAM and VAM generation follow the timing and trigger rules of their standards.
Property theorems only.  Models: `FlexModel/Fac/CamTM.lean`, `FlexModel/Fac/VamTM.lean`;
rules (monitors over the event log of a run): `FlexModel/Fac/CamSpec.lean`, `FlexModel/Fac/VamSpec.lean`;
helper lemmas: `FlexModel/Fac/CamLemmas.lean`, `FlexModel/Fac/VamLemmas.lean`.

Every theorem quantifies over ALL operation sequences (any length, any times, any reports, start / stop / restart,
timer expiries racing with stop(), failures injected while the PDU is built, in the coder, in the BTP request and
in the LDM feed), over the static configuration and over the distance function `hav`; proofs are by induction on
the sequence through a one-step simulation.  An emitted CAM / VAM in the log is a TRANSMISSION.

Variant flags of the models (`ldmIsolated`, `restartHold`, `holdSticky`, `lfAfterSend`): `true` = the repaired code
(fixes/C10-cam-ldm-failure, fixes/C10-cam-restart-min-gap - the hold and the fact that only a CAM of the activation
that just ended ever rewrites it -, fixes/C10-vam-lf-time-after-send); the full theorems are
stated for the repaired variants, a `_witness` theorem shows the violation of each unrepaired one, and
`code_is_repaired_variant` ties the flags to facts regenerated from the source.
-/
import FlexModel.Fac.CamLemmas
import FlexModel.Fac.VamLemmas

namespace Props.C10
open FlexModel.Fac FlexModel.Fac.Mon

/-! ## facts regenerated from the source (harness/gen_facflow.py → Generated/FacFlow.lean) -/

/-- the shape of the code the models rely on: the expiry callback returns at once when the service is not active,
re-arms in a `finally`, `_schedule_next_check` refuses while inactive, `stop()` cancels the timer;
`_generate_and_send_cam` writes no management state itself and calls `_update_send_state` only after the
Annex B.2.5 `try` (whose handler returns); every store to `t_gen_cam` is T_GEN_CAM_MAX or a two-sided clamp to
[T_GEN_CAM_MIN, T_GEN_CAM_MAX] (`Cam.clampT`, the invariant of `cam_tgen_bounds_and_timer_loop` behind `cam_max_gap` —
also for a condition-1 CAM that goes out more than T_GenCamMax after the previous one because earlier attempts
failed or the timer was late); the VAM callback compares generationDeltaTime values only through the wrap-aware
subtraction. -/
theorem code_shape :
    Generated.FacFlow.CAM_CHECK_GUARDED = true ∧ Generated.FacFlow.CAM_CHECK_REARMS_IN_FINALLY = true ∧
    Generated.FacFlow.CAM_SCHEDULE_GUARDED = true ∧ Generated.FacFlow.CAM_STOP_CANCELS_TIMER = true ∧
    Generated.FacFlow.CAM_GENERATE_STATE_WRITES = [] ∧ Generated.FacFlow.CAM_UPDATE_AFTER_SEND_TRY = true ∧
    Generated.FacFlow.CAM_TGEN_ALWAYS_CLAMPED = true ∧
    Generated.FacFlow.VAM_GDT_RAW_COMPARISONS = 0 := by decide

/-- the code is the repaired variant of each of the three defects of round 3 (the LDM feed cannot abort the
bookkeeping of a transmitted CAM; the restart hold exists, and it is stored only by `start()`, only when a CAM went
out in the activation that just ended, never as `None` — so a second, third ... quick restart without a CAM in between
cannot clear it; the VAM low-frequency timer is recorded after the BTP request) — false on a tree that lacks the
fixes, where the `_witness` theorems below apply instead -/
theorem code_is_repaired_variant :
    Generated.FacFlow.CAM_LDM_ISOLATED = true ∧ Generated.FacFlow.CAM_RESTART_HOLD = true ∧
    Generated.FacFlow.CAM_RESTART_HOLD_STICKY = true ∧
    Generated.FacFlow.VAM_LF_TIME_AFTER_SEND = true := by decide

/-! ## CAM (CAMTransmissionManagement) -/
section cam
open FlexModel.Fac.Cam FlexModel.Fac.CamSpec FlexModel.Fac.CamLemmas

/-- the event log of a run from the freshly constructed object -/
def camLog (hav : Pos → Pos → Nat) (cfg : Cfg) (ops : List Cam.Op) : List CamSpec.Ev :=
  events (Cam.step hav) (Cam.init cfg) ops

/-- nothing is sent before `start`, after `stop`, or by anything but a T_CheckCamGen callback — including a callback
whose timer had already expired when `stop()` ran (`expire, stop, check`).  Every variant. -/
theorem cam_silent_when_inactive (hav : Pos → Pos → Nat) (cfg : Cfg) (ops : List Cam.Op) :
    accepts silentMon {} (camLog hav cfg ops) = true :=
  accepts_of_sim (Cam.step hav) silentMon (fun s m => m.active = s.active) (silent_sim hav) ops _ _ rfl

/-- consecutive CAMs of one activation are at least T_GenCamMin = 100 ms apart (no assumption on the clock, on the
timer or on where transmissions fail) -/
theorem cam_min_gap (hav : Pos → Pos → Nat) (cfg : Cfg) (hI : cfg.ldmIsolated = true) (ops : List Cam.Op) :
    accepts minGapMon {} (camLog hav cfg ops) = true :=
  accepts_of_sim (Cam.step hav) minGapMon CamLemmas.MinRel (minGap_sim hav) ops _ _ ⟨hI, rfl, rfl⟩

/-- ALL consecutive CAMs are at least T_GenCamMin apart, across stop/start cycles too — any number of them, with or
without a CAM in the activations in between (repaired variant: the hold exists and only a CAM rewrites it) -/
theorem cam_min_gap_all_activations (hav : Pos → Pos → Nat) (cfg : Cfg) (hI : cfg.ldmIsolated = true)
    (hH : cfg.restartHold = true) (hS : cfg.holdSticky = true) (ops : List Cam.Op) :
    accepts gMinGapMon {} (camLog hav cfg ops) = true :=
  accepts_of_sim (Cam.step hav) gMinGapMon GMinRel (gMinGap_sim hav) ops _ _ ⟨hI, hH, hS, rfl, rfl⟩

/-- the invariant behind it, stated on its own: after ANY history in which the last CAM went out at `t` (in whatever
activation, however many stop/start cycles ago), either that activation is still running or the state still holds
`t + T_GenCamMin` as the earliest time of the next CAM.  `quiet` is an arbitrary CAM-free continuation: any number of
restarts, reports, expiries, held checks. -/
theorem cam_hold_survives_restarts (hav : Pos → Pos → Nat) (cfg : Cfg) (hS : cfg.holdSticky = true)
    (pre quiet : List Cam.Op) (t : Nat) (f : Fail) (c : CamOut)
    (hcam : (Cam.step hav (final (Cam.step hav) (Cam.init cfg) pre) (.check t f)).2 = some c)
    (hbk : f.bookkept cfg = true)
    (hq : ∀ e ∈ events (Cam.step hav) (Cam.step hav (final (Cam.step hav) (Cam.init cfg) pre) (.check t f)).1 quiet, e.2 = none) :
    let s := final (Cam.step hav) (Cam.step hav (final (Cam.step hav) (Cam.init cfg) pre) (.check t f)).1 quiet
    s.lastCamTime = some t ∨ (s.lastCamTime = none ∧ s.holdUntil = some (t + Generated.Fac.T_GEN_CAM_MIN)) :=
  hold_survives hav cfg hS pre quiet t f c hcam hbk hq

/-- unrepaired variant (no restart hold): a stop/start cycle sends the first CAM of the new activation at once,
here 7 ms after the previous CAM; the monitor of `cam_min_gap_all_activations` rejects that run and accepts the
repaired one, which holds the CAM back until 100 ms have passed -/
theorem cam_min_gap_restart_witness :
    let ops : List Cam.Op := [.start, .report default, .check 1000 .none, .stop, .start, .check 1007 .none, .check 1107 .none]
    accepts gMinGapMon {} (camLog (fun _ _ => 0) { restartHold := false } ops) = false ∧
    (camLog (fun _ _ => 0) { restartHold := false } ops).filterMap (fun e => e.2.map (·.t)) = [1000, 1007, 1107] ∧
    (camLog (fun _ _ => 0) {} ops).filterMap (fun e => e.2.map (·.t)) = [1000, 1107] := by decide

/-- unrepaired variant (`start()` reassigns the hold unconditionally, `= last + MIN if last is not None else None`):
a single quick restart is still held, but the SECOND restart follows an activation without a CAM and clears the
hold: CAM at 1010, restart, held check at 1030, restart, CAM at 1050 — 40 ms after the previous one.  The repaired
variant keeps the hold through two and through three restarts and sends at the first check ≥ 100 ms after 1010. -/
theorem cam_min_gap_double_restart_witness :
    let ops : List Cam.Op := [.start, .report default, .check 1010 .none, .stop, .start, .check 1030 .none, .stop, .start,
      .check 1050 .none, .check 1150 .none]
    let ops3 : List Cam.Op := [.start, .report default, .check 1010 .none, .stop, .start, .stop, .start, .check 1050 .none,
      .stop, .start, .check 1090 .none, .check 1109 .none, .check 1110 .none]
    accepts gMinGapMon {} (camLog (fun _ _ => 0) { holdSticky := false } ops) = false ∧
    (camLog (fun _ _ => 0) { holdSticky := false } ops).filterMap (fun e => e.2.map (·.t)) = [1010, 1050, 1150] ∧
    (camLog (fun _ _ => 0) { holdSticky := false } (ops.take 6)).filterMap (fun e => e.2.map (·.t)) = [1010] ∧
    (camLog (fun _ _ => 0) {} ops).filterMap (fun e => e.2.map (·.t)) = [1010, 1150] ∧
    (camLog (fun _ _ => 0) {} ops3).filterMap (fun e => e.2.map (·.t)) = [1010, 1110] := by decide

/-- the first serviceable check of an activation sends (unless held back by the restart hold), and while a report is
present, no transmission attempt fails and checks are at most `P` apart, consecutive CAMs are at most
T_GenCamMax + P = 1000 + P ms apart (for every P) -/
theorem cam_max_gap (hav : Pos → Pos → Nat) (P : Nat) (cfg : Cfg) (hI : cfg.ldmIsolated = true) (ops : List Cam.Op) :
    accepts (maxGapMon cfg.restartHold P) {} (camLog hav cfg ops) = true :=
  accepts_of_sim (Cam.step hav) (maxGapMon cfg.restartHold P) (MaxRel cfg.restartHold) (maxGap_sim hav cfg.restartHold P)
    ops _ _ ⟨hI, rfl, rfl, rfl, rfl, (inv_init cfg).1, (inv_init cfg).2.1, by intro t ht; simp at ht, rfl, rfl⟩

/-- the invariant behind `cam_max_gap`: T_GenCamMin ≤ T_GenCam ≤ T_GenCamMax in every reachable state, and while
the service is active a T_CheckCamGen timer is pending or a callback is in flight (the loop survives failed sends,
exceptions leaving the callback, and stop/start races) -/
theorem cam_tgen_bounds_and_timer_loop (hav : Pos → Pos → Nat) (cfg : Cfg) (ops : List Cam.Op) :
    let s := final (Cam.step hav) (Cam.init cfg) ops
    Generated.Fac.T_GEN_CAM_MIN ≤ s.tGenCam ∧ s.tGenCam ≤ Generated.Fac.T_GEN_CAM_MAX ∧
      (s.active = true → 1 ≤ s.live + s.inflight) :=
  inv_final (Cam.step hav) CamInv (inv_step hav) ops _ (inv_init cfg)

/-- responsiveness: a check at which ≥ 100 ms have elapsed and heading (wrap-aware) / position / speed differ from
the values lastly included in a CAM by more than 4° / 4 m (`hav` of the position lastly included and the current
one) / 0.5 m/s generates a CAM (if the transmission does not fail) -/
theorem cam_responsive (hav : Pos → Pos → Nat) (cfg : Cfg) (hI : cfg.ldmIsolated = true) (ops : List Cam.Op) :
    accepts (respMon hav) {} (camLog hav cfg ops) = true :=
  accepts_of_sim (Cam.step hav) (respMon hav) RespRel (resp_sim hav) ops _ _ ⟨hI, rfl, rfl, rfl, rfl, rfl, rfl⟩

/-- low-frequency container: present in the first transmitted CAM of an activation and in every CAM transmitted
≥ 500 ms after the last transmitted CAM that carried it, absent from every other CAM — whatever transmission
attempts failed in between -/
theorem cam_lf_rule (hav : Pos → Pos → Nat) (cfg : Cfg) (hI : cfg.ldmIsolated = true) (ops : List Cam.Op) :
    accepts lfMon {} (camLog hav cfg ops) = true :=
  accepts_of_sim (Cam.step hav) lfMon CamLemmas.LfRel (CamLemmas.lf_sim hav) ops _ _ ⟨hI, rfl, rfl, fun _ => rfl⟩

/-- unrepaired variant (a raising LDM aborts the bookkeeping after the BTP request): every check transmits a CAM
with the low-frequency container, 100 ms apart, and T_GenCam never takes effect; the repaired variant sends the
second CAM without it -/
theorem cam_lf_rule_ldm_witness :
    let ops : List Cam.Op := [.start, .report { (default : Cam.Tpv) with heading := some 0 }, .check 1000 .ldm, .check 1100 .ldm,
      .check 1200 .ldm]
    accepts lfMon {} (camLog (fun _ _ => 0) { ldmIsolated := false } ops) = false ∧
    (camLog (fun _ _ => 0) { ldmIsolated := false } ops).filterMap (fun e => e.2.map (fun c => (c.t, c.lf))) =
      [(1000, true), (1100, true), (1200, true)] ∧
    (camLog (fun _ _ => 0) {} ops).filterMap (fun e => e.2.map (fun c => (c.t, c.lf))) = [(1000, true), (1100, false)] := by
  decide

/-- every CAM is built from the latest report, is stamped with the time of its check, and carries
generationDeltaTime = (ITS timestamp of that report) mod 65536.  Every variant. -/
theorem cam_latest_report_and_gdt (hav : Pos → Pos → Nat) (cfg : Cfg) (ops : List Cam.Op) :
    accepts latestMon {} (camLog hav cfg ops) = true :=
  accepts_of_sim (Cam.step hav) latestMon (fun s m => m.cur = s.cur) (latest_sim hav) ops _ _ rfl

/-- the monitors are not vacuous: they reject logs that break the rules -/
example : accepts silentMon {} [(.start, none), (.expire true, none), (.stop, none),
    (.check 1000 .none, some default)] = false := by decide
example : accepts minGapMon {} [(.start, none), (.check 1000 .none, some { (default : CamOut) with t := 1000 }),
    (.check 1099 .none, some { (default : CamOut) with t := 1099 })] = false := by decide
example : accepts gMinGapMon {} [(.start, none), (.check 1000 .none, some { (default : CamOut) with t := 1000 }),
    (.stop, none), (.start, none), (.check 1050 .none, some { (default : CamOut) with t := 1050 })] = false := by decide
/-- the global minimum interval also across TWO restarts without a CAM in between -/
example : accepts gMinGapMon {} [(.start, none), (.check 1010 .none, some { (default : CamOut) with t := 1010 }),
    (.stop, none), (.start, none), (.check 1030 .none, none), (.stop, none), (.start, none),
    (.check 1050 .none, some { (default : CamOut) with t := 1050 })] = false := by decide
example : accepts (maxGapMon true 100) {} [(.start, none), (.report default, none),
    (.check 1000 .none, some default), (.check 1100 .none, none), (.check 1200 .none, none),
    (.check 1300 .none, none), (.check 1400 .none, none), (.check 1500 .none, none), (.check 1600 .none, none),
    (.check 1700 .none, none), (.check 1800 .none, none), (.check 1900 .none, none), (.check 2000 .none, none),
    (.check 2100 .none, none), (.check 2200 .none, none)] = false := by decide
/-- a held-back first CAM is only excused for T_GenCamMin -/
example : accepts (maxGapMon true 100) {} [(.start, none), (.report default, none), (.check 1000 .none, some default),
    (.stop, none), (.start, none), (.check 1050 .none, none), (.check 1150 .none, none)] = false := by decide
example : accepts lfMon {} [(.start, none), (.check 1000 .none, some { (default : CamOut) with lf := false })] = false := by
  decide
/-- a CAM transmitted although its bookkeeping failed still counts for the low-frequency rule -/
example : accepts lfMon {} [(.start, none), (.check 1000 .ldm, some { (default : CamOut) with lf := true }),
    (.check 1100 .none, some { (default : CamOut) with lf := true })] = false := by decide
example : accepts (respMon (fun _ _ => 0)) {} [(.start, none),
    (.report { rid := 1, its := none, heading := some 35900, speed := none, pos := none }, none),
    (.check 1000 .none, some default),
    (.report { rid := 2, its := none, heading := some 500, speed := none, pos := none }, none),
    (.check 1100 .none, none)] = false := by decide
/-- the position clause uses the position lastly included in a CAM, not an input of the check -/
example : accepts (respMon (fun q p => (p.1 - q.1).natAbs)) {} [(.start, none),
    (.report { rid := 1, its := none, heading := none, speed := none, pos := some (0, 0) }, none),
    (.check 1000 .none, some default),
    (.report { rid := 2, its := none, heading := none, speed := none, pos := some (4001, 0) }, none),
    (.check 1100 .none, none)] = false := by decide
/-- and a real run is accepted with CAMs in it: first CAM immediately, second after T_GenCam; a callback in flight
when stop() ran sends nothing; the position trigger fires on the model's own reference position -/
example : (camLog (fun _ _ => 0) {} [.start, .report { rid := 1, its := some 70000, heading := some 9000, speed := some 1000, pos := some (1, 2) },
    .expire true, .check 1000 .none, .expire true, .check 1100 .none, .expire true, .stop, .check 1200 .none]).map
      (fun e => e.2.map (fun c => (c.t, c.lf, c.gdt))) =
    [none, none, none, some (1000, true, 4464), none, some (1100, false, 4464), none, none, none] := by decide
example : (camLog (fun q p => (p.1 - q.1).natAbs) {} [.start,
    .report { rid := 1, its := none, heading := some 0, speed := none, pos := some (0, 0) }, .check 1000 .none, .check 1100 .none,
    .report { rid := 2, its := none, heading := some 0, speed := none, pos := some (4001, 0) }, .check 1200 .none,
    .check 1300 .none]).map (fun e => e.2.map (fun c => (c.t, c.cond))) =
    [none, none, some (1000, 1), some (1100, 2), none, some (1200, 1), some (1300, 2)] := by decide
/-- a condition-1 CAM that goes out MORE than T_GenCamMax after the previous one (the attempts at the two checks at which
the time-triggered CAM was due failed, the speed changed meanwhile): T_GenCam is clamped to T_GenCamMax, the next
time-triggered CAM follows 1000 ms later, not 1200 ms -/
example : (camLog (fun _ _ => 0) {} [.start,
    .report { rid := 1, its := none, heading := some 0, speed := some 1000, pos := none }, .check 1000 .none, .check 1100 .none,
    .check 2100 .btp, .report { rid := 2, its := none, heading := some 0, speed := some 2000, pos := none }, .check 2200 .encode,
    .check 2300 .none, .check 3200 .none, .check 3300 .none]).map (fun e => e.2.map (fun c => (c.t, c.cond))) =
    [none, none, some (1000, 1), some (1100, 2), none, none, none, some (2300, 1), none, some (3300, 2)] := by decide

end cam

/-! ## VAM (VAMTransmissionManagement) -/
section vam
open FlexModel.Fac.Vam FlexModel.Fac.VamSpec FlexModel.Fac.VamLemmas

def vamLog (gated : Bool) (tGenVam : Nat) (lfAfterSend : Bool) (ops : List Vam.Op) : List VamSpec.Ev :=
  events Vam.step (Vam.init gated tGenVam lfAfterSend) ops

/-- the first report after activation (while not passive/idle, transmission not failing) sends a VAM — every
variant, any T_GenVam -/
theorem vam_first_report (gated : Bool) (tGenVam : Nat) (lfa : Bool) (ops : List Vam.Op) :
    accepts firstMon {} (vamLog gated tGenVam lfa ops) = true :=
  accepts_of_sim Vam.step firstMon (fun s m => m.sent = s.lastGdt.isSome) first_sim ops _ _ rfl

/-- a VAM is only sent while not passive/idle, is built from the report that triggered it, and carries
generationDeltaTime = (ITS timestamp of that report) mod 65536 -/
theorem vam_content (gated : Bool) (tGenVam : Nat) (lfa : Bool) (ops : List Vam.Op) :
    accepts contentMon () (vamLog gated tGenVam lfa ops) = true :=
  accepts_of_sim Vam.step contentMon (fun _ _ => True) (fun s _ op _ => by
    obtain ⟨m', h⟩ := content_sim s op; exact ⟨m', h, trivial⟩) ops _ _ trivial

/-- Full strength, for the repaired variant (`gated = true`): with non-decreasing report timestamps, consecutive
VAMs are at least T_GenVamMin = 100 ms apart on the report timestamps, whatever trigger sent them, for any
T_GenVam (the mod-65536 subtraction included) -/
theorem vam_min_gap (tGenVam : Nat) (lfa : Bool) (ops : List Vam.Op) :
    accepts (VamSpec.minGapMon true) {} (vamLog true tGenVam lfa ops) = true :=
  accepts_of_sim Vam.step (VamSpec.minGapMon true) (VamLemmas.MinRel true) (VamLemmas.minGap_sim true) ops _ _
    ⟨Or.inl rfl, by intro t ht; simp at ht⟩

/-- The code as it is (`gated = false`, known finding C10-KF1): the minimum interval holds for every VAM sent by
the elapsed-time trigger (or first), provided T_GenVam ≥ T_GenVamMin; VAMs sent by the position / speed /
heading triggers are outside this statement. -/
theorem vam_min_gap_partial (tGenVam : Nat) (lfa : Bool) (h : VamSpec.T_GenVamMin ≤ tGenVam) (ops : List Vam.Op) :
    accepts (VamSpec.minGapMon false) {} (vamLog false tGenVam lfa ops) = true :=
  accepts_of_sim Vam.step (VamSpec.minGapMon false) (VamLemmas.MinRel false) (VamLemmas.minGap_sim false) ops _ _
    ⟨Or.inr ⟨rfl, h⟩, by intro t ht; simp at ht⟩

/-- C10-KF1, machine-checked witness: at 50 Hz a speed change of 2 m/s sends a second VAM 20 ms after the first;
the full-strength monitor rejects the un-gated run and accepts the gated one. -/
theorem vam_min_gap_witness :
    let r1 : Vam.Tpv := { rid := 1, its := some 1000000, pos := some (410000000, 20000000), speed := some 1000, heading := some 9000 }
    let r2 : Vam.Tpv := { rid := 2, its := some 1000020, pos := some (410000000, 20000000), speed := some 3000, heading := some 9000 }
    let ops : List Vam.Op := [{ r := r1, wall := 5000, gate := true }, { r := r2, wall := 5020, gate := true }]
    accepts (VamSpec.minGapMon true) {} (vamLog false 100 true ops) = false ∧
    accepts (VamSpec.minGapMon true) {} (vamLog true 100 true ops) = true ∧
    (vamLog false 100 true ops).filterMap (fun e => e.2.map (fun c => (c.its, c.trig))) = [(some 1000000, 0), (some 1000020, 3)] := by
  decide

/-- while reports with timestamps keep arriving at most `R` apart (non-decreasing), the station is neither
passive nor idle and no transmission attempt fails, consecutive VAMs are at most T_GenVamMax + R = 5000 + R ms
apart and no report is left more than T_GenVamMax after the last VAM — for every variant, every
T_GenVam ≤ T_GenVamMax and every R with R + max(T_GenVam, T_GenVamMin) ≤ 65536 (so that the mod-65536 elapsed
time is unambiguous); the timestamps themselves are unbounded: any number of generationDeltaTime wraps -/
theorem vam_max_gap (gated : Bool) (tGenVam R : Nat) (lfa : Bool) (hT : tGenVam ≤ VamSpec.T_GenVamMax)
    (hR : R + tGenVam ≤ 65536) (hR' : R + VamSpec.T_GenVamMin ≤ 65536) (ops : List Vam.Op) :
    accepts (VamSpec.maxGapMon R) {} (vamLog gated tGenVam lfa ops) = true := by
  have hmm : VamSpec.T_GenVamMin ≤ VamSpec.T_GenVamMax := by decide
  refine accepts_of_sim Vam.step (VamSpec.maxGapMon R) (VamLemmas.MaxRel R (max tGenVam VamSpec.T_GenVamMin))
    (VamLemmas.maxGap_sim R _) ops _ _ ⟨⟨?_, ?_, ?_, ?_⟩, by intro t ht; simp at ht⟩
  · exact Nat.le_max_left _ _
  · exact Nat.le_max_right _ _
  · exact Nat.max_le.mpr ⟨hT, hmm⟩
  · rcases Nat.le_total tGenVam VamSpec.T_GenVamMin with h | h
    · rw [Nat.max_eq_right h]; exact hR'
    · rw [Nat.max_eq_left h]; exact hR

/-- the side conditions of `vam_max_gap` hold for the regenerated default T_GenVam and every report period up to 60 s -/
example : Generated.Fac.T_GENVAMMIN ≤ VamSpec.T_GenVamMax ∧ 60000 + Generated.Fac.T_GENVAMMIN ≤ 65536 ∧
    Generated.Fac.T_GENVAMMAX = VamSpec.T_GenVamMax ∧ Generated.Fac.T_GENVAMMIN = VamSpec.T_GenVamMin := by decide

/-- low-frequency container (repaired variant `lfAfterSend`): present in the first transmitted VAM and in every VAM
transmitted ≥ 2000 ms (wall clock at sending) after the last transmitted VAM that carried it — whatever
transmission attempts failed in between; in no other VAM except one that also carries a cluster-operation
container (TS 103 300-3 clause 6.2, `has_cluster_op`) -/
theorem vam_lf_rule (gated : Bool) (tGenVam : Nat) (ops : List Vam.Op) :
    accepts VamSpec.lfMon {} (vamLog gated tGenVam true ops) = true :=
  accepts_of_sim Vam.step VamSpec.lfMon VamLemmas.LfRel VamLemmas.lf_sim ops _ _ ⟨rfl, rfl, fun _ => rfl⟩

/-- unrepaired variant (the low-frequency timer is advanced before the transmission attempt): after a failed
attempt that was due to carry the container the next VAM goes out without it, 2.1 s after the last VAM that
carried it; the repaired variant includes it -/
theorem vam_lf_rule_failed_send_witness :
    let r (i t : Nat) : Vam.Tpv := { rid := i, its := some t, pos := none, speed := none, heading := none }
    let ops : List Vam.Op := [{ r := r 1 1000000, wall := 0, gate := true },
      { r := r 2 1002000, wall := 2000, gate := true, fail := true }, { r := r 3 1002100, wall := 2100, gate := true }]
    accepts VamSpec.lfMon {} (vamLog false 100 false ops) = false ∧
    (vamLog false 100 false ops).filterMap (fun e => e.2.map (fun c => (c.wall, c.lf))) = [(0, true), (2100, false)] ∧
    (vamLog false 100 true ops).filterMap (fun e => e.2.map (fun c => (c.wall, c.lf))) = [(0, true), (2100, true)] := by
  decide

/-- non-vacuity: the monitors reject a late VAM / a missing first VAM / a wrong LF decision; a cluster-operation
container excuses an extra LF container but not a missing one -/
example : accepts (VamSpec.maxGapMon 1000) {}
    [(({ r := { (default : Vam.Tpv) with its := some 10000 }, wall := 0, gate := true } : Vam.Op), some default),
     ({ r := { (default : Vam.Tpv) with its := some 11000 }, wall := 0, gate := true }, none),
     ({ r := { (default : Vam.Tpv) with its := some 12000 }, wall := 0, gate := true }, none),
     ({ r := { (default : Vam.Tpv) with its := some 13000 }, wall := 0, gate := true }, none),
     ({ r := { (default : Vam.Tpv) with its := some 14000 }, wall := 0, gate := true }, none),
     ({ r := { (default : Vam.Tpv) with its := some 15000 }, wall := 0, gate := true }, none),
     ({ r := { (default : Vam.Tpv) with its := some 16000 }, wall := 0, gate := true }, none)] = false := by decide
/-- the same across a generationDeltaTime wrap (timestamps 60000 … 66000 ↦ gdt 60000 … 464) -/
example : accepts (VamSpec.maxGapMon 1000) {}
    [(({ r := { (default : Vam.Tpv) with its := some 60000 }, wall := 0, gate := true } : Vam.Op), some default),
     ({ r := { (default : Vam.Tpv) with its := some 61000 }, wall := 0, gate := true }, none),
     ({ r := { (default : Vam.Tpv) with its := some 62000 }, wall := 0, gate := true }, none),
     ({ r := { (default : Vam.Tpv) with its := some 63000 }, wall := 0, gate := true }, none),
     ({ r := { (default : Vam.Tpv) with its := some 64000 }, wall := 0, gate := true }, none),
     ({ r := { (default : Vam.Tpv) with its := some 65000 }, wall := 0, gate := true }, none),
     ({ r := { (default : Vam.Tpv) with its := some 66000 }, wall := 0, gate := true }, none)] = false := by decide
example : accepts firstMon {} [(({ r := default, wall := 0, gate := true } : Vam.Op), none)] = false := by decide
example : accepts VamSpec.lfMon {} [(({ r := default, wall := 0, gate := true } : Vam.Op),
    some { (default : VamOut) with lf := false })] = false := by decide
example : accepts VamSpec.lfMon {} [(({ r := default, wall := 0, gate := true } : Vam.Op), some { (default : VamOut) with lf := true }),
    ({ r := default, wall := 100, gate := true }, some { (default : VamOut) with lf := true })] = false := by decide
example : accepts VamSpec.lfMon {} [(({ r := default, wall := 0, gate := true } : Vam.Op), some { (default : VamOut) with lf := true }),
    ({ r := default, wall := 100, gate := true, clusterOp := true }, some { (default : VamOut) with lf := true })] = true := by decide
/-- the model really produces the cluster-operation case, and VAMs across a generationDeltaTime wrap -/
example : (vamLog false 100 true [{ r := { (default : Vam.Tpv) with its := some 65500 }, wall := 0, gate := true },
    { r := { (default : Vam.Tpv) with its := some 65600 }, wall := 100, gate := true, clusterOp := true },
    { r := { (default : Vam.Tpv) with its := some 65700 }, wall := 200, gate := true }]).map
      (fun e => e.2.map (fun c => (c.gdt, c.lf))) = [some (65500, true), some (64, true), some (164, false)] := by decide

end vam
end Props.C10

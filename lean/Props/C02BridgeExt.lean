/-
C02 — bridge lemmas, family extended headers (`gbc_/tsb_/guc_/ls_extended_header.py`): extracted definitions
(`Generated/ExtractedExt.lean`) = hand model (`FlexModel/Wire/Headers.lean`) for ALL arguments; decoders under the
only hypothesis `bs.WF` (octets < 256), inherited from `LongPositionVector.decode` (Props/C02BridgePV.lean).
`GUCExtendedHeader` and `LSReplyExtendedHeader` share the model structure `GUCExt`.
-/
import Props.C02BridgePV
import Generated.ExtractedExt
set_option linter.unusedSimpArgs false

namespace Props.C02BridgeExt
open FlexModel.Wire FlexModel.Wire.Bridge Generated.Extracted Props.C02BridgePV

/-! ### extracted tuple -> model structure -/
@[simp] def absGBC : Nat × Nat × Nat × Nat × Bytes × Nat × Int × Int × Bool × Int × Nat × Int × Int × Nat × Nat × Nat × Nat → GBCExt
  | (sn, r, m, st, mid, tst, lat, lon, pai, s, h, alat, alon, a, b, ang, r2) =>
    ⟨sn, r, ⟨⟨m, st, fromBytesBE mid⟩, tst, lat, lon, pai, s, h⟩, alat, alon, a, b, ang, r2⟩
@[simp] def absTSB : Nat × Nat × Nat × Nat × Bytes × Nat × Int × Int × Bool × Int × Nat → TSBExt
  | (sn, r, m, st, mid, tst, lat, lon, pai, s, h) => ⟨sn, r, ⟨⟨m, st, fromBytesBE mid⟩, tst, lat, lon, pai, s, h⟩⟩
@[simp] def absGUC : Nat × Nat × Nat × Nat × Bytes × Nat × Int × Int × Bool × Int × Nat × Nat × Nat × Bytes × Nat × Int × Int → GUCExt
  | (sn, r, m, st, mid, tst, lat, lon, pai, s, h, dm, dst, dmid, dtst, dlat, dlon) =>
    ⟨sn, r, ⟨⟨m, st, fromBytesBE mid⟩, tst, lat, lon, pai, s, h⟩, ⟨⟨dm, dst, fromBytesBE dmid⟩, dtst, dlat, dlon⟩⟩
@[simp] def absLSReq : Nat × Nat × Nat × Nat × Bytes × Nat × Int × Int × Bool × Int × Nat × Nat × Nat × Bytes → LSReqExt
  | (sn, r, m, st, mid, tst, lat, lon, pai, s, h, rm, rst, rmid) =>
    ⟨sn, r, ⟨⟨m, st, fromBytesBE mid⟩, tst, lat, lon, pai, s, h⟩, ⟨rm, rst, fromBytesBE rmid⟩⟩

/-! ### encoders -/
theorem GBC_encode_eq (sn r m st : Nat) (mid : Bytes) (tst : Nat) (lat lon : Int) (pai : Bool) (s : Int) (h : Nat)
    (alat alon : Int) (a b ang r2 : Nat) :
    GBCExtendedHeader_encode sn r m st mid tst lat lon pai s h alat alon a b ang r2
      = (absGBC (sn, r, m, st, mid, tst, lat, lon, pai, s, h, alat, alon, a, b, ang, r2)).encode := by
  simp only [GBCExtendedHeader_encode, GBCExt.encode, LongPositionVector_encode_eq, absGBC]
  try except_cases

theorem TSB_encode_eq (sn r m st : Nat) (mid : Bytes) (tst : Nat) (lat lon : Int) (pai : Bool) (s : Int) (h : Nat) :
    TSBExtendedHeader_encode sn r m st mid tst lat lon pai s h
      = (absTSB (sn, r, m, st, mid, tst, lat, lon, pai, s, h)).encode := by
  simp only [TSBExtendedHeader_encode, TSBExt.encode, LongPositionVector_encode_eq, absTSB]
  try except_cases

theorem GUC_encode_eq (sn r m st : Nat) (mid : Bytes) (tst : Nat) (lat lon : Int) (pai : Bool) (s : Int) (h : Nat)
    (dm dst : Nat) (dmid : Bytes) (dtst : Nat) (dlat dlon : Int) :
    GUCExtendedHeader_encode sn r m st mid tst lat lon pai s h dm dst dmid dtst dlat dlon
      = (absGUC (sn, r, m, st, mid, tst, lat, lon, pai, s, h, dm, dst, dmid, dtst, dlat, dlon)).encode := by
  simp only [GUCExtendedHeader_encode, GUCExt.encode, LongPositionVector_encode_eq, ShortPositionVector_encode_eq, absGUC]
  try except_cases

theorem LSReply_encode_eq (sn r m st : Nat) (mid : Bytes) (tst : Nat) (lat lon : Int) (pai : Bool) (s : Int) (h : Nat)
    (dm dst : Nat) (dmid : Bytes) (dtst : Nat) (dlat dlon : Int) :
    LSReplyExtendedHeader_encode sn r m st mid tst lat lon pai s h dm dst dmid dtst dlat dlon
      = (absGUC (sn, r, m, st, mid, tst, lat, lon, pai, s, h, dm, dst, dmid, dtst, dlat, dlon)).encode := by
  simp only [LSReplyExtendedHeader_encode, GUCExt.encode, LongPositionVector_encode_eq, ShortPositionVector_encode_eq, absGUC]
  try except_cases

theorem LSRequest_encode_eq (sn r m st : Nat) (mid : Bytes) (tst : Nat) (lat lon : Int) (pai : Bool) (s : Int) (h : Nat)
    (rm rst : Nat) (rmid : Bytes) :
    LSRequestExtendedHeader_encode sn r m st mid tst lat lon pai s h rm rst rmid
      = (absLSReq (sn, r, m, st, mid, tst, lat, lon, pai, s, h, rm, rst, rmid)).encode := by
  simp only [LSRequestExtendedHeader_encode, LSReqExt.encode, LongPositionVector_encode_eq, GNAddress_encode_to_int_eq, absLSReq]
  try except_cases

/-! ### decoders -/
theorem GBC_decode_eq (bs : Bytes) (hwf : bs.WF) : (GBCExtendedHeader_decode bs).map absGBC = GBCExt.decode bs := by
  simp only [GBCExtendedHeader_decode, GBCExt.decode, ← LongPositionVector_decode_eq (slice bs 4 28) (slice_wf bs hwf 4 28)]
  try except_cases

theorem TSB_decode_eq (bs : Bytes) (hwf : bs.WF) : (TSBExtendedHeader_decode bs).map absTSB = TSBExt.decode bs := by
  simp only [TSBExtendedHeader_decode, TSBExt.decode, ← LongPositionVector_decode_eq (slice bs 4 28) (slice_wf bs hwf 4 28)]
  try except_cases

theorem GUC_decode_eq (bs : Bytes) (hwf : bs.WF) : (GUCExtendedHeader_decode bs).map absGUC = GUCExt.decode bs := by
  simp only [GUCExtendedHeader_decode, GUCExt.decode, ← LongPositionVector_decode_eq (slice bs 4 28) (slice_wf bs hwf 4 28),
    ← ShortPositionVector_decode_eq]
  try except_cases

theorem LSReply_decode_eq (bs : Bytes) (hwf : bs.WF) : (LSReplyExtendedHeader_decode bs).map absGUC = GUCExt.decode bs := by
  simp only [LSReplyExtendedHeader_decode, GUCExt.decode, ← LongPositionVector_decode_eq (slice bs 4 28) (slice_wf bs hwf 4 28),
    ← ShortPositionVector_decode_eq]
  try except_cases

theorem LSRequest_decode_eq (bs : Bytes) (hwf : bs.WF) : (LSRequestExtendedHeader_decode bs).map absLSReq = LSReqExt.decode bs := by
  simp only [LSRequestExtendedHeader_decode, LSReqExt.decode, ← LongPositionVector_decode_eq (slice bs 4 28) (slice_wf bs hwf 4 28),
    ← GNAddress_decode_eq]
  try except_cases

end Props.C02BridgeExt

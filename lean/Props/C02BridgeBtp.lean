/-
C02 — bridge lemmas, family `btp/btp_header.py` (BTP-A and BTP-B headers have the same layout; the model has one
structure `BTPHeader`): extracted definitions (`Generated/ExtractedBtp.lean`) = hand model for ALL arguments.
-/
import FlexModel.Wire.BridgeLemmas
import Generated.ExtractedBtp
set_option linter.unusedSimpArgs false

namespace Props.C02BridgeBtp
open FlexModel.Wire FlexModel.Wire.Bridge Generated.Extracted

theorem BTPA_encode_to_int_eq (h : BTPHeader) : BTPAHeader_encode_to_int h.dport h.second = h.encodeInt := by
  simp only [BTPAHeader_encode_to_int, BTPHeader.encodeInt]
  try lor_ac

theorem BTPA_encode_eq (h : BTPHeader) : BTPAHeader_encode h.dport h.second = h.encode := by
  simp only [BTPAHeader_encode, BTPHeader.encode, BTPA_encode_to_int_eq, bind_pure]
  try except_cases

/-- `BTPAHeader.decode` (no length guard in the code: short input is read as far as it goes) -/
theorem BTPA_decode_eq (bs : Bytes) : BTPAHeader_decode bs = flatBTP (BTPHeader.decode bs) := by
  simp only [BTPAHeader_decode, BTPHeader.decode, flatBTP]

theorem BTPB_encode_to_int_eq (h : BTPHeader) : BTPBHeader_encode_to_int h.dport h.second = h.encodeInt := by
  simp only [BTPBHeader_encode_to_int, BTPHeader.encodeInt]
  try lor_ac

theorem BTPB_encode_eq (h : BTPHeader) : BTPBHeader_encode h.dport h.second = h.encode := by
  simp only [BTPBHeader_encode, BTPHeader.encode, BTPB_encode_to_int_eq, bind_pure]
  try except_cases

theorem BTPB_decode_eq (bs : Bytes) : BTPBHeader_decode bs = flatBTP (BTPHeader.decode bs) := by
  simp only [BTPBHeader_decode, BTPHeader.decode, flatBTP]

end Props.C02BridgeBtp

/-
C02 — bridge lemmas, family `common_header.py` + `service_access_point.TrafficClass`: extracted definitions
(`Generated/ExtractedCommon.lean`) = hand model (`FlexModel/Wire/Headers.lean`) for ALL arguments.
See Props/C02BridgeBasic.lean for the conventions.
-/
import FlexModel.Wire.BridgeLemmas
import Generated.ExtractedCommon
set_option linter.unusedSimpArgs false

namespace Props.C02BridgeCommon
open FlexModel.Wire FlexModel.Wire.Bridge Generated.Extracted Generated.WireEnums

theorem TrafficClass_encode_to_int_eq (t : TrafficClass) :
    TrafficClass_encode_to_int t.scf t.channelOffload t.tcId = t.encodeInt := by
  simp only [TrafficClass_encode_to_int, TrafficClass.encodeInt]
  try lor_ac

theorem TrafficClass_decode_from_int_eq (n : Nat) :
    TrafficClass_decode_from_int n = flatTC (TrafficClass.decodeInt n) := by
  simp only [TrafficClass_decode_from_int, TrafficClass.decodeInt, flatTC]

/-- `CommonHeader.encode_to_int` (the `reserved` field is written twice, as in the code) -/
theorem encode_to_int_eq (h : CommonHeader) :
    CommonHeader_encode_to_int h.nh h.reserved h.ht h.hst h.tc.scf h.tc.channelOffload h.tc.tcId h.flags h.pl h.mhl
      = h.encodeInt := by
  simp only [CommonHeader_encode_to_int, CommonHeader.encodeInt, TrafficClass_encode_to_int_eq]
  try lor_ac

theorem encode_to_bytes_eq (h : CommonHeader) :
    CommonHeader_encode_to_bytes h.nh h.reserved h.ht h.hst h.tc.scf h.tc.channelOffload h.tc.tcId h.flags h.pl h.mhl
      = h.encode := by
  simp only [CommonHeader_encode_to_bytes, CommonHeader.encode, encode_to_int_eq, bind_pure]
  try except_cases

/-- `CommonHeader.decode_from_int`: NH / HT codes, the sub-type enum selected by HT (if-chain of the code =
`hstCodes` of the model), ValueError on unknown codes, flags masked with 0x80 -/
theorem decode_from_int_eq (v : Nat) :
    CommonHeader_decode_from_int v = (CommonHeader.decodeInt v).map flatCommon := by
  simp only [CommonHeader_decode_from_int, CommonHeader.decodeInt, enumOf_eq, TrafficClass_decode_from_int_eq,
    hstCodes, CommonNH_values, HeaderType_values, GeoBroadcastHST_values, TopoBroadcastHST_values,
    GeoAnycastHST_values, LocationServiceHST_values, HeaderSubType_values, HeaderType_GEOBROADCAST,
    HeaderType_TSB, HeaderType_GEOANYCAST, HeaderType_LS]
  try except_cases

theorem decode_from_bytes_eq (bs : Bytes) :
    CommonHeader_decode_from_bytes bs = (CommonHeader.decode bs).map flatCommon := by
  simp only [CommonHeader_decode_from_bytes, CommonHeader.decode, decode_from_int_eq, bind_pure]
  try except_cases

end Props.C02BridgeCommon

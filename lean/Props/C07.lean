/-
C07 — Geo-addressed packets are delivered exactly inside the destination area.
Property theorems only.  Model: `FlexModel/Geo/Area.lean` (mirrors router.py with fix C07-F1 applied: the point is
rotated into the area frame before F); helper lemmas: `FlexModel/Geo/AreaLemmas.lean`.
All statements are for arbitrary rational semi-axes a, b > 0 and arbitrary rational points — no bounds.

Sections: (1) F on frame coordinates; (2) the azimuth rotation, for an abstract rational unit vector (c, s) = (cos θ,
sin θ) and a point given in the LOCAL (north, east) frame of the centre — membership in the rotated shape is
`insideRotated`, written as "image of the axis-aligned shape under the rotation" independently of the code's
`toFrame`/`codeFrame`; (3) delivery, on frame values (`RxIn`) and on whole packets for an abstract projection and
trigonometric table (`Glue`); (4) area size; (5) Annex D incl. the sender/source question (known finding C07-KF1);
(6) the code before fix C07-F1.
The float glue (`calculate_distance`, `math.cos/sin(math.radians(angle))`) is tied to `Glue` by the harness only
(tolerance-banded; the model is evaluated on exact rational unit vectors within 1e-30 rad of the azimuth, which are
exact for 0/90/180/270 degrees and for Pythagorean angles).
-/
import FlexModel.Geo.AreaLemmas
import FlexModel.Geo.AreaSnap
import FlexModel.Geo.AreaHist
import Generated.Mib
import Generated.AreaFacts

namespace Props.C07
open FlexModel.Geo.Area

/-! ## The geometric function decides membership (EN 302 931) -/

/-- **F ≥ 0 ⇔ inside or on the border**, for the three shapes -/
theorem F_nonneg_iff_inside (s : Shape) (a b x y : Rat) (ha : 0 < a) (hb : 0 < b) :
    0 ≤ Fval s a b x y ↔ inside s a b x y := by
  cases s
  · exact circle_iff a b x y ha
  · exact rect_iff a b x y ha hb
  · exact ellipse_iff a b x y

/-- **F = 0 exactly on the border** -/
theorem F_zero_border (s : Shape) (a b x y : Rat) (ha : 0 < a) (hb : 0 < b) :
    Fval s a b x y = 0 ↔ onBorder s a b x y := by
  cases s
  · exact circle_zero_iff a b x y ha
  · exact rect_zero_iff a b x y ha hb
  · exact ellipse_zero_iff a b x y

/-- outside ⇔ F < 0 -/
theorem F_neg_iff_outside (s : Shape) (a b x y : Rat) (ha : 0 < a) (hb : 0 < b) :
    Fval s a b x y < 0 ↔ ¬ inside s a b x y := by
  rw [← F_nonneg_iff_inside s a b x y ha hb, not_le]

/-- the ellipse condition of the standard in polynomial form (no division) -/
theorem ellipse_inside_polynomial (a b x y : Rat) (ha : 0 < a) (hb : 0 < b) :
    inside .ellipse a b x y ↔ b * b * (x * x) + a * a * (y * y) ≤ a * a * (b * b) :=
  ellipse_inside_poly a b x y ha hb

/-- F is symmetric in both frame axes: the orientation of the abscissa / ordinate of the area frame (the code's
    x-distance points south, the oracle's north) cannot change a decision -/
theorem F_axis_symmetric (s : Shape) (a b x y : Rat) :
    Fval s a b (-x) y = Fval s a b x y ∧ Fval s a b x (-y) = Fval s a b x y :=
  ⟨Fval_neg_x s a b x y, Fval_neg_y s a b x y⟩

/-- the circle is invariant under every rotation of the frame (any azimuth): `c = cos θ`, `s = sin θ` -/
theorem circle_rotation_invariant (a b x y c s : Rat) (h : c * c + s * s = 1) :
    Fval .circle a b (c * x + s * y) (-(s * x) + c * y) = Fval .circle a b x y :=
  circle_rot a b x y c s h

/-- the circle ignores `b` (the DEN service sends `b = 0`) and needs only `a > 0` -/
theorem circle_only_needs_a (a b x y : Rat) (ha : 0 < a) :
    F .circle a b x y = .ok (Fval .circle a b x y) ∧ (0 ≤ Fval .circle a b x y ↔ x * x + y * y ≤ a * a) := by
  have h1 : (a == 0) = false := by simpa using ne_of_gt ha
  exact ⟨by simp [F, degenerate, h1], circle_iff a b x y ha⟩

/-- for valid semi-axes the code path never raises -/
theorem F_total (s : Shape) (a b x y : Rat) (ha : 0 < a) (hb : 0 < b) : F s a b x y = .ok (Fval s a b x y) :=
  F_ok s a b x y ha hb

/-- **degenerate semi-axes**: `a = 0` (any shape) and `b = 0` (rectangle, ellipse) take the explicit error branch
    (ZeroDivisionError in `gn_geometric_function_f`) -/
theorem degenerate_error (s : Shape) (a b x y : Rat) :
    (a = 0 → F s a b x y = .error .zeroDivision) ∧
    (b = 0 → s ≠ .circle → F s a b x y = .error .zeroDivision) := by
  constructor
  · intro h; subst h; cases s <;> simp [F, degenerate]
  · intro h hs; subst h; cases s <;> simp_all [F, degenerate]

/-! ## The azimuth rotation (EN 302 931: the long semi-axis `a` points along the azimuth) -/

/-- **F ≥ 0 ⇔ the point lies in the ROTATED shape**, for every azimuth given by a rational unit vector, every shape,
all semi-axes and every point of the local (north, east) plane.  `FvalCode` is the code's arithmetic
(`calculate_distance` sign convention, `rotate_to_area_frame`, then F); `insideRotated` is the shape of the standard
turned by the azimuth. -/
theorem rotated_inside_iff_F (sh : Shape) (a b c s n e : Rat) (hu : c * c + s * s = 1) (ha : 0 < a) (hb : 0 < b) :
    0 ≤ FvalCode sh a b c s n e ↔ insideRotated sh a b c s n e := by
  rw [FvalCode_eq_FvalLocal, insideRotated_iff sh a b c s n e hu]
  exact F_nonneg_iff_inside sh a b _ _ ha hb

/-- F = 0 exactly on the border of the rotated shape -/
theorem rotated_border_iff_F (sh : Shape) (a b c s n e : Rat) (hu : c * c + s * s = 1) (ha : 0 < a) (hb : 0 < b) :
    FvalCode sh a b c s n e = 0 ↔ onBorderRotated sh a b c s n e := by
  rw [FvalCode_eq_FvalLocal, onBorderRotated_iff sh a b c s n e hu]
  exact F_zero_border sh a b _ _ ha hb

/-- outside the rotated shape ⇔ F < 0 -/
theorem rotated_outside_iff_F (sh : Shape) (a b c s n e : Rat) (hu : c * c + s * s = 1) (ha : 0 < a) (hb : 0 < b) :
    FvalCode sh a b c s n e < 0 ↔ ¬ insideRotated sh a b c s n e := by
  rw [← rotated_inside_iff_F sh a b c s n e hu ha hb, not_le]

/-- non-vacuity, oblique azimuth with rational sine/cosine (≈ 53.13°, the 3-4-5 angle): rectangle 100 m × 10 m; the
point 60 m north / 80 m east lies on the long axis (inside), the point 80 m north / 60 m east does not -/
example : insideRotated .rect 100 10 (3/5) (4/5) 60 80 ∧ ¬ insideRotated .rect 100 10 (3/5) (4/5) 80 60 :=
  ⟨(rotated_inside_iff_F .rect 100 10 (3/5) (4/5) 60 80 (by norm_num) (by norm_num) (by norm_num)).1 (by decide +kernel),
   (rotated_outside_iff_F .rect 100 10 (3/5) (4/5) 80 60 (by norm_num) (by norm_num) (by norm_num)).1 (by decide +kernel)⟩

/-- the code's frame (x axis pointing south) and the frame of the standard (abscissa along the azimuth) differ by the
sign of the abscissa only: no decision can depend on it -/
theorem code_frame_orientation_harmless (sh : Shape) (a b c s n e : Rat) :
    FvalCode sh a b c s n e = FvalLocal sh a b c s n e := FvalCode_eq_FvalLocal sh a b c s n e

/-- **circle: independent of the azimuth** — any two unit vectors give the same F, and membership is
`north² + east² ≤ a²` -/
theorem circle_azimuth_independent (a b c s c' s' n e : Rat) (hu : c * c + s * s = 1) (hu' : c' * c' + s' * s' = 1)
    (ha : 0 < a) :
    FvalCode .circle a b c s n e = FvalCode .circle a b c' s' n e ∧
    (0 ≤ FvalCode .circle a b c s n e ↔ n * n + e * e ≤ a * a) := by
  rw [FvalCode_eq_FvalLocal, FvalCode_eq_FvalLocal, FvalLocal_circle a b c s n e hu, FvalLocal_circle a b c' s' n e hu']
  exact ⟨rfl, circle_iff a b n e ha⟩

/-- **azimuth θ and θ + 180° describe the same area** (cos, sin ↦ −cos, −sin), all shapes -/
theorem azimuth_half_turn (sh : Shape) (a b c s n e : Rat) :
    FvalCode sh a b (-c) (-s) n e = FvalCode sh a b c s n e := by
  rw [FvalCode_eq_FvalLocal, FvalCode_eq_FvalLocal]; exact FvalLocal_half_turn sh a b c s n e

/-- the same on the side of the standard: the rotated shapes of azimuth θ and θ + 180° are the same point set -/
theorem rotated_shape_half_turn (sh : Shape) (a b c s n e : Rat) (hu : c * c + s * s = 1) (ha : 0 < a) (hb : 0 < b) :
    insideRotated sh a b (-c) (-s) n e ↔ insideRotated sh a b c s n e := by
  have hu' : (-c) * (-c) + (-s) * (-s) = 1 := by rw [neg_mul_neg, neg_mul_neg]; exact hu
  rw [← rotated_inside_iff_F sh a b (-c) (-s) n e hu' ha hb, ← rotated_inside_iff_F sh a b c s n e hu ha hb,
    azimuth_half_turn]

/-- **swapping the semi-axes is the same as turning by 90°** (cos, sin ↦ −sin, cos), rectangle and ellipse -/
theorem azimuth_quarter_turn_swaps_axes (sh : Shape) (hs : sh ≠ .circle) (a b c s n e : Rat) :
    FvalCode sh b a (-s) c n e = FvalCode sh a b c s n e := by
  rw [FvalCode_eq_FvalLocal, FvalCode_eq_FvalLocal]; exact FvalLocal_quarter_turn_swap sh hs a b c s n e

/-- the four azimuths with rational sine and cosine among the integer degrees (0°, 90°, 180°, 270°): the rotation is a
permutation of the offsets with signs, `quarterCS` is a unit vector, and membership in a rectangle of azimuth 90° reads
|east| ≤ a ∧ |north| ≤ b -/
theorem azimuth_quarter_exact (q : Nat) (n e a b : Rat) :
    toFrameQuarter q n e = toFrame (quarterCS q).1 (quarterCS q).2 n e ∧
    (quarterCS q).1 * (quarterCS q).1 + (quarterCS q).2 * (quarterCS q).2 = 1 ∧
    (insideRotated .rect a b 0 1 n e ↔ (-a ≤ e ∧ e ≤ a) ∧ (-b ≤ n ∧ n ≤ b)) := by
  refine ⟨toFrameQuarter_eq q n e, quarterCS_unit q, ?_⟩
  rw [insideRotated_iff .rect a b 0 1 n e (by norm_num)]
  simp only [inside, toFrame, mul_zero, mul_one, zero_add, add_zero]
  constructor
  · rintro ⟨⟨h1, h2⟩, h3, h4⟩; exact ⟨⟨h1, h2⟩, by linarith, by linarith⟩
  · rintro ⟨⟨h1, h2⟩, h3, h4⟩; exact ⟨⟨h1, h2⟩, by linarith, by linarith⟩

/-! ## Delivery decision -/

/-- **GAC inside**: delivered and then NOT forwarded -/
theorem gac_inside_no_forward (i : RxIn) (h : 0 ≤ i.fEgo) : recvGAC i = [Action.deliver] := by
  simp [recvGAC, h]

/-- **outside never delivered**, whatever the other inputs (only forwarded or discarded) -/
theorem outside_never_deliver (i : RxIn) (h : i.fEgo < 0) :
    Action.deliver ∉ recvGBC i ∧ Action.deliver ∉ recvGAC i := by
  have : ¬ 0 ≤ i.fEgo := not_le.2 h
  exact ⟨fun hd => this ((recvGBC_deliver_iff i).1 hd), fun hd => this ((recvGAC_deliver_iff i).1 hd)⟩

/-- delivery ⇔ the receiver lies inside or on the border of the destination shape (F evaluated at the ego position
    in the area frame), for both transport types -/
theorem deliver_iff_inside (s : Shape) (a b x y : Rat) (ha : 0 < a) (hb : 0 < b) (i : RxIn)
    (hf : i.fEgo = Fval s a b x y) :
    (Action.deliver ∈ recvGBC i ↔ inside s a b x y) ∧ (Action.deliver ∈ recvGAC i ↔ inside s a b x y) := by
  rw [recvGBC_deliver_iff, recvGAC_deliver_iff, hf]
  exact ⟨F_nonneg_iff_inside s a b x y ha hb, F_nonneg_iff_inside s a b x y ha hb⟩

/-- a GBC receiver inside the area with hop budget left re-broadcasts by area forwarding -/
theorem gbc_inside_forwards (i : RxIn) (h : 0 ≤ i.fEgo) (ho : i.oversize = false) (hp : i.pdrExceeded = false)
    (hr : 1 < i.rhl) : recvGBC i = [Action.deliver, Action.forwardArea] := by
  have : ¬ i.rhl ≤ 1 := by omega
  simp [recvGBC, h, ho, hp, this, annexD]

/-! ## Delivery, whole packets: abstract projection `g.proj` and trigonometric table `g.cos`, `g.sin` -/

/-- F at a position decides membership of that position in the packet's (rotated) destination area —
for every projection and every table of unit vectors; the circle needs only `a > 0` (the DEN service sends `b = 0`) -/
theorem position_inside_iff_F (g : Glue) (hu : g.UnitCS) (A : GeoArea) (p : Pos) (ha : 0 < A.a)
    (hb : A.shape = .circle ∨ 0 < A.b) : 0 ≤ fAt g A p ↔ insideArea g A p := by
  have ha' : (0 : Rat) < (A.a : Rat) := by exact_mod_cast ha
  unfold fAt insideArea
  rcases hb with hc | hb
  · rw [hc, FvalCode_eq_FvalLocal, insideRotated_iff _ _ _ _ _ _ _ (hu A.az)]
    exact circle_iff _ _ _ _ ha'
  · exact rotated_inside_iff_F _ _ _ _ _ _ _ (hu A.az) ha' (by exact_mod_cast hb)

/-- **a GBC / GAC packet is delivered to the upper layer exactly when the receiver's position lies inside or on the
border of the destination area, including its azimuth rotation** — whatever the hop limit, the area-size verdict, the
PDR verdict, the location table, the sender and the choice of the Annex D key -/
theorem packet_deliver_iff_inside (g : Glue) (hu : g.UnitCS) (k : SeKey) (st : Station) (pk : GeoPkt) (sender : Nat)
    (ha : 0 < pk.area.a) (hb : pk.area.shape = .circle ∨ 0 < pk.area.b) :
    (Action.deliver ∈ recvGBCpkt g k st pk sender ↔ insideArea g pk.area st.ego) ∧
    (Action.deliver ∈ recvGACpkt g k st pk sender ↔ insideArea g pk.area st.ego) := by
  unfold recvGBCpkt recvGACpkt
  rw [recvGBC_deliver_iff, recvGAC_deliver_iff]
  exact ⟨position_inside_iff_F g hu pk.area st.ego ha hb, position_inside_iff_F g hu pk.area st.ego ha hb⟩

/-- **outside: only forwarded or discarded, never delivered** (whole packet) -/
theorem packet_outside_never_delivered (g : Glue) (hu : g.UnitCS) (k : SeKey) (st : Station) (pk : GeoPkt)
    (sender : Nat) (ha : 0 < pk.area.a) (hb : pk.area.shape = .circle ∨ 0 < pk.area.b)
    (hout : ¬ insideArea g pk.area st.ego) :
    (∀ x ∈ recvGBCpkt g k st pk sender, x = Action.forwardArea ∨ x = Action.forwardNonArea) ∧
    (∀ x ∈ recvGACpkt g k st pk sender, x = Action.forwardArea ∨ x = Action.forwardNonArea) := by
  obtain ⟨h1, h2⟩ := packet_deliver_iff_inside g hu k st pk sender ha hb
  constructor
  · intro x hx; cases x with
    | deliver => exact absurd (h1.1 hx) hout
    | forwardArea => exact Or.inl rfl
    | forwardNonArea => exact Or.inr rfl
  · intro x hx; cases x with
    | deliver => exact absurd (h2.1 hx) hout
    | forwardArea => exact Or.inl rfl
    | forwardNonArea => exact Or.inr rfl

/-- non-vacuity: rectangle 100 m × 10 m of azimuth 90° around (0, 0); a receiver 50 m east is delivered to (GBC: and
re-broadcasts), a receiver 50 m north is not -/
example :
    let A : GeoArea := ⟨.rect, 100, 10, ⟨0, 0⟩, 90⟩
    let pk : GeoPkt := ⟨A, 5, 7⟩
    recvGBCpkt flatGlue .source ⟨⟨0, 50⟩, 10, fun _ => false, fun _ => none⟩ pk 7 = [.deliver, .forwardArea] ∧
    recvGACpkt flatGlue .source ⟨⟨0, 50⟩, 10, fun _ => false, fun _ => none⟩ pk 7 = [.deliver] ∧
    recvGBCpkt flatGlue .source ⟨⟨50, 0⟩, 10, fun _ => false, fun _ => none⟩ pk 7 = [.forwardNonArea] := by
  decide +kernel

/-! ## Area size control -/

/-- **oversize request refused**: confirm GEOGRAPHICAL_SCOPE_TOO_LARGE and nothing is sent -/
theorem oversize_refused_src (s : Shape) (a b : Rat) (maxKm2 : Nat) (fEgo : Rat) (bc g : Bool)
    (h : (maxKm2 : Rat) * 1000000 < areaSize s a b) :
    srcRequest s a b maxKm2 fEgo bc g = ⟨.geographicalScopeTooLarge, 0⟩ := by
  simp [srcRequest, oversize, h]

/-- a request that fits is never refused for its size -/
theorem fitting_accepted_src (s : Shape) (a b : Rat) (maxKm2 : Nat) (fEgo : Rat) (bc g : Bool)
    (h : areaSize s a b ≤ (maxKm2 : Rat) * 1000000) :
    (srcRequest s a b maxKm2 fEgo bc g).confirm = .accepted := by
  have : ¬ ((maxKm2 : Rat) * 1000000 < areaSize s a b) := not_lt.2 h
  simp only [srcRequest, oversize, this, decide_false, Bool.false_eq_true, if_false]
  repeat' split
  all_goals rfl

/-- **oversize packet not forwarded** (GBC still delivers inside; GAC outside is dropped) -/
theorem oversize_not_forwarded (i : RxIn) (h : i.oversize = true) :
    Action.forwardArea ∉ recvGBC i ∧ Action.forwardNonArea ∉ recvGBC i ∧
    Action.forwardArea ∉ recvGAC i ∧ Action.forwardNonArea ∉ recvGAC i := by
  unfold recvGBC recvGAC
  by_cases hf : 0 ≤ i.fEgo <;> simp [h, hf]

/-- a packet whose area exceeds `itsGnMaxGeoAreaSize` of the receiver is never forwarded (whole packet) -/
theorem packet_oversize_not_forwarded (g : Glue) (k : SeKey) (st : Station) (pk : GeoPkt) (sender : Nat)
    (h : (st.maxKm2 : Rat) * 1000000 < areaSize pk.area.shape pk.area.a pk.area.b) :
    (∀ x ∈ recvGBCpkt g k st pk sender, x = Action.deliver) ∧ (∀ x ∈ recvGACpkt g k st pk sender, x = Action.deliver) := by
  have ho : (rxInOf g k st pk sender).oversize = true := by simp [rxInOf, oversize, h]
  obtain ⟨h1, h2, h3, h4⟩ := oversize_not_forwarded (rxInOf g k st pk sender) ho
  unfold recvGBCpkt recvGACpkt
  constructor <;> intro x hx <;> cases x <;> first | rfl | (exfalso; first | exact h1 hx | exact h2 hx | exact h3 hx | exact h4 hx)

/-- the default MIB limit (regenerated from the source on every run) is 10 km²: a circle of radius 1784 m fits,
    1785 m does not; a 1000 m × 2500 m (half-sides) rectangle fits exactly -/
theorem default_limit_boundary :
    oversize .circle 1784 0 Generated.Mib.itsGnMaxGeoAreaSize = false ∧
    oversize .circle 1785 0 Generated.Mib.itsGnMaxGeoAreaSize = true ∧
    oversize .rect 1000 2500 Generated.Mib.itsGnMaxGeoAreaSize = false ∧
    oversize .rect 1000 2501 Generated.Mib.itsGnMaxGeoAreaSize = true := by decide +kernel

/-! ## Annex D -/

/-- **Annex D table**: the selection equals the standard's table for all eight combinations of
    (ego inside/at border, SE_POS_VALID, sender inside/at border) and any F values realising them -/
theorem annexD_table (fEgo fSe : Rat) (pai : Bool) :
    annexD fEgo (some (pai, fSe)) = annexDTable (decide (0 ≤ fEgo)) pai (decide (0 ≤ fSe)) := by
  by_cases h1 : 0 ≤ fEgo <;> by_cases h2 : 0 ≤ fSe <;> cases pai <;> simp [annexD, annexDTable, h1, h2]

/-- sender unknown (source operation, or no location-table entry): SE_POS_VALID is false -/
theorem annexD_no_sender (fEgo : Rat) (any : Bool) :
    annexD fEgo none = annexDTable (decide (0 ≤ fEgo)) false any := by
  by_cases h1 : 0 ≤ fEgo <;> cases any <;> simp [annexD, annexDTable, h1]

/-- a forwarder outside the area whose sender was inside (valid position) neither forwards nor delivers -/
theorem outside_sender_inside_discard (i : RxIn) (fSe : Rat) (h : i.fEgo < 0) (hs : i.se = some (true, fSe))
    (hse : 0 ≤ fSe) : recvGBC i = [] ∧ recvGAC i = [] := by
  have h' : ¬ 0 ≤ i.fEgo := not_le.2 h
  constructor
  · simp only [recvGBC, h', if_false, List.nil_append, hs, annexD, hse, decide_true, Bool.and_self, if_true]
    split <;> rfl
  · simp only [recvGAC, h', if_false, hs, hse, if_true]
    split <;> rfl

/-! ### Annex D on whole packets: whose position vector is PV_SE?

EN 302 636-4-1 Annex D (as cited in router.py: "SE_POS_VALID = PV_SE EXISTS AND PAI_SE = TRUE", "Sender was
inside/at border → discard to prevent area→non-area transition") speaks of the SENDER, the station the frame was
received from.  The code looks the entry up under the packet's SOURCE address (`so_pv.gn_addr`): the link layer
hands `gn_data_indicate` the GN bytes only, there is no sender address above it (known finding C07-KF1). -/

/-- **full statement (variant `SeKey.sender`)**: with hop budget left and no size/PDR veto the transmissions of a
receiver are those of the Annex D table on (ego inside or at border, SE_POS_VALID of the SENDER's entry, sender inside
or at border); GBC delivers in addition when inside, GAC inside delivers and stops -/
theorem annexD_selection_sender (g : Glue) (st : Station) (pk : GeoPkt) (sender : Nat)
    (ho : oversize pk.area.shape pk.area.a pk.area.b st.maxKm2 = false) (hp : st.pdrExceeded pk.so = false)
    (hr : 1 < pk.rhl) :
    let egoIn := decide (0 ≤ fAt g pk.area st.ego)
    let seValid := sePosValid (st.locT sender)
    let seInsd := seInside g pk.area (st.locT sender)
    recvGBCpkt g .sender st pk sender =
      (if egoIn then [Action.deliver] else []) ++ fwdActs (annexDTable egoIn seValid seInsd) ∧
    recvGACpkt g .sender st pk sender =
      (if egoIn then [Action.deliver] else fwdActs (annexDTable false seValid seInsd)) := by
  have e1 : sePai ((rxInOf g .sender st pk sender).se) = sePosValid (st.locT sender) := by
    simp only [rxInOf]; cases st.locT sender <;> rfl
  have e2 : seIn ((rxInOf g .sender st pk sender).se) = seInside g pk.area (st.locT sender) := by
    simp only [rxInOf]; cases st.locT sender <;> rfl
  have hf : (rxInOf g .sender st pk sender).fEgo = fAt g pk.area st.ego := rfl
  refine ⟨?_, ?_⟩
  · unfold recvGBCpkt
    rw [recvGBC_eq _ ho hp hr, annexD_eq_table, e1, e2, hf]
    by_cases h : 0 ≤ fAt g pk.area st.ego <;> simp [h]
  · unfold recvGACpkt
    rw [recvGAC_eq _ ho hp hr, annexD_eq_table, e1, e2, hf]
    by_cases h : 0 ≤ fAt g pk.area st.ego <;> simp [h]

/-- **the code as it is (variant `SeKey.source`), partial**: it takes the same decisions as the sender-keyed variant
whenever the entries of source and sender agree on `SE_POS_VALID ∧ inside-or-at-border` … -/
theorem annexD_selection_source_partial (g : Glue) (st : Station) (pk : GeoPkt) (sender : Nat)
    (hagree : (sePosValid (st.locT pk.so) && seInside g pk.area (st.locT pk.so)) =
              (sePosValid (st.locT sender) && seInside g pk.area (st.locT sender))) :
    recvGBCpkt g .source st pk sender = recvGBCpkt g .sender st pk sender ∧
    recvGACpkt g .source st pk sender = recvGACpkt g .sender st pk sender := by
  have key : annexD (fAt g pk.area st.ego) (rxInOf g .source st pk sender).se =
      annexD (fAt g pk.area st.ego) (rxInOf g .sender st pk sender).se := by
    apply annexD_congr
    have a1 : ∀ o : Option LocTE, sePai (o.map fun e => (e.pai, fAt g pk.area e.pos)) = sePosValid o := by
      intro o; cases o <;> rfl
    have a2 : ∀ o : Option LocTE, seIn (o.map fun e => (e.pai, fAt g pk.area e.pos)) = seInside g pk.area o := by
      intro o; cases o <;> rfl
    simp only [rxInOf, a1, a2]; exact hagree
  have hfe : (rxInOf g .source st pk sender).fEgo = fAt g pk.area st.ego := rfl
  have hfe' : (rxInOf g .sender st pk sender).fEgo = fAt g pk.area st.ego := rfl
  unfold recvGBCpkt recvGACpkt
  rw [recvGBC_form, recvGBC_form, recvGAC_form, recvGAC_form, hfe, hfe', key]
  exact ⟨rfl, rfl⟩

/-- … in particular on the first hop, where the sender is the source -/
theorem annexD_first_hop (g : Glue) (st : Station) (pk : GeoPkt) :
    recvGBCpkt g .source st pk pk.so = recvGBCpkt g .sender st pk pk.so ∧
    recvGACpkt g .source st pk pk.so = recvGACpkt g .sender st pk pk.so :=
  annexD_selection_source_partial g st pk pk.so rfl

/-- **known finding C07-KF1, witness**: circle of radius 100 m around (0, 0); source 7 at 500 m north (outside), the
relaying sender 8 at the centre (inside, valid position), receiver 150 m north (outside).  Annex D: discard.  The code
(key = source) forwards the packet out of the area instead. -/
theorem annexD_selection_source_witness :
    let A : GeoArea := ⟨.circle, 100, 0, ⟨0, 0⟩, 0⟩
    let pk : GeoPkt := ⟨A, 5, 7⟩
    let st : Station := ⟨⟨150, 0⟩, 10, fun _ => false,
      fun a => if a = 7 then some ⟨⟨500, 0⟩, true⟩ else if a = 8 then some ⟨⟨0, 0⟩, true⟩ else none⟩
    recvGBCpkt flatGlue .sender st pk 8 = [] ∧ recvGBCpkt flatGlue .source st pk 8 = [.forwardNonArea] ∧
    recvGACpkt flatGlue .sender st pk 8 = [] ∧ recvGACpkt flatGlue .source st pk 8 = [.forwardNonArea] := by
  decide +kernel

/-! ## The code before fix C07-F1 (azimuth ignored) -/

/-- **witness**: the old code evaluated F as if the azimuth were 0° whatever the area said.
(i) rectangle a = 100 m, b = 10 m, azimuth 90° (unit vector (0, 1), long side pointing east): the point 50 m east of
the centre is in the rotated shape, the point 50 m north is not; the old code decided both the wrong way round, the
repaired arithmetic decides both correctly.  (ii) the same for the oblique 3-4-5 azimuth (≈ 53.13°). -/
theorem azimuth_ignored_witness :
    (insideRotated .rect 100 10 0 1 0 50 ∧ FvalUnrotated .rect 100 10 0 50 < 0 ∧ 0 ≤ FvalCode .rect 100 10 0 1 0 50) ∧
    (¬ insideRotated .rect 100 10 0 1 50 0 ∧ 0 ≤ FvalUnrotated .rect 100 10 50 0 ∧ FvalCode .rect 100 10 0 1 50 0 < 0) ∧
    (insideRotated .rect 100 10 (3/5) (4/5) 30 40 ∧ FvalUnrotated .rect 100 10 30 40 < 0) := by
  have q : (0 : Rat) * 0 + 1 * 1 = 1 := by norm_num
  have t : (3 / 5 : Rat) * (3 / 5) + (4 / 5) * (4 / 5) = 1 := by norm_num
  refine ⟨⟨?_, by decide +kernel, by decide +kernel⟩, ⟨?_, by decide +kernel, by decide +kernel⟩, ?_, by decide +kernel⟩
  · exact (rotated_inside_iff_F .rect 100 10 0 1 0 50 q (by norm_num) (by norm_num)).1 (by decide +kernel)
  · exact (rotated_outside_iff_F .rect 100 10 0 1 50 0 q (by norm_num) (by norm_num)).1 (by decide +kernel)
  · exact (rotated_inside_iff_F .rect 100 10 (3/5) (4/5) 30 40 t (by norm_num) (by norm_num)).1 (by decide +kernel)

/-- **partial**: the unrotated evaluation was right exactly where the rotation does not matter — for every unit
vector with `s = 0` (azimuth 0° and 180°) and every shape, and for the circle at every azimuth -/
theorem azimuth_ignored_partial (sh : Shape) (a b c s north east : Rat) (hu : c * c + s * s = 1)
    (h : s = 0 ∨ sh = .circle) :
    FvalUnrotated sh a b north east = FvalCode sh a b c s north east := by
  unfold FvalUnrotated
  rcases h with h | h
  · subst h
    have hc : c = 1 ∨ c = -1 := by
      have : (c - 1) * (c + 1) = 0 := by ring_nf; ring_nf at hu; linarith
      rcases mul_eq_zero.1 this with h1 | h1
      · left; linarith
      · right; linarith
    rcases hc with hc | hc
    · rw [hc]
    · rw [hc]; have := azimuth_half_turn sh a b 1 0 north east; simpa using this.symm
  · subst h
    rw [FvalCode_eq_FvalLocal, FvalCode_eq_FvalLocal, FvalLocal_circle a b 1 0 north east (by norm_num),
      FvalLocal_circle a b c s north east hu]

/-! ## Round 4: two facts about the SHAPE of the source that the decisions above rely on
(regenerated from router.py on every run by harness/gen_area.py into `Generated.AreaFacts`) -/

/-- the Annex B.3 guard of one function is where the model puts it: exactly one guard, in the function's top-level
statement list (or top-level `try` body), `size > itsGnMaxGeoAreaSize * 1 000 000`, its body returns, and NO effect
precedes it in source order (source operation: no `return`, sequence number, signature, forwarding selection or
transmission; receive handlers: no transmission / forwarder call) -/
def guardFirst (g : Generated.AreaFacts.SizeGuard) : Bool :=
  g.present && g.toplevel && g.refuses && g.cmpGt && g.factor == 1000000 && g.effectsBefore == 0 && g.count == 1

/-- **size control comes first in the source**: in `gn_data_request_gbc` (refusing with GEOGRAPHICAL_SCOPE_TOO_LARGE;
`gn_data_request_gac` is a plain delegation or has the same guard) and in both receive handlers.  Moving the guard
below an early `return ACCEPTED` (seeded change C07-m6) or below a transmission re-opens this obligation. -/
theorem size_control_first_of_source :
    (guardFirst Generated.AreaFacts.requestGbc && Generated.AreaFacts.requestGbc.refusalCode &&
     (Generated.AreaFacts.requestGacDelegates ||
       (guardFirst Generated.AreaFacts.requestGac && Generated.AreaFacts.requestGac.refusalCode)) &&
     guardFirst Generated.AreaFacts.indicateGbc && guardFirst Generated.AreaFacts.indicateGac) = true := by decide

/-- **oversize request refused, for the guard position of the source** and every location-table state / traffic
class (`bc` = no neighbour ∧ SCF, `g` = greedy forwarding found a next hop or may fall back to broadcast) -/
theorem oversize_refused_src_of_source (s : Shape) (a b : Rat) (maxKm2 : Nat) (fEgo : Rat) (bc g : Bool)
    (h : (maxKm2 : Rat) * 1000000 < areaSize s a b) :
    srcRequestAt (guardFirst Generated.AreaFacts.requestGbc) s a b maxKm2 fEgo bc g = ⟨.geographicalScopeTooLarge, 0⟩ := by
  have hg : guardFirst Generated.AreaFacts.requestGbc = true := by decide
  rw [hg]
  simpa [srcRequestAt] using oversize_refused_src s a b maxKm2 fEgo bc g h

/-- the guard below the buffer case (C07-m6): with an empty location table and an SCF traffic class a circle of
12.57 km² is ACCEPTED under a 10 km² limit - and refused as soon as a neighbour is known or SCF is off; with the guard
first it is refused in every state -/
theorem oversize_accepted_guard_late_witness :
    srcRequestLate .circle 2000 0 10 (-1) true true = ⟨.accepted, 0⟩ ∧
    srcRequestLate .circle 2000 0 10 (-1) false true = ⟨.geographicalScopeTooLarge, 0⟩ ∧
    srcRequest .circle 2000 0 10 (-1) true true = ⟨.geographicalScopeTooLarge, 0⟩ := by decide +kernel

/-- **every decision function loads each replaceable position vector at most once** (the sender's / source's LocTE
`position_vector`, `self.ego_position_vector`): the counts of `Generated.AreaFacts.pvLoads`.  Three separate loads
of `se_entry.position_vector` (seeded change C07-m5; `gn_data_indicate_gac` and the ego reads before fix
C07-pv-snapshot) re-open this obligation. -/
theorem position_vectors_read_once_of_source :
    Generated.AreaFacts.pvLoads.all (fun x => decide (x.2.2 ≤ 1)) = true := by decide

/-- **one consistent position vector**: whatever the history `h` of vectors the object holds while other threads replace
it, whenever the loads happen (`ts`) and whichever load serves which field (`ld`, below the load count of the source):
each decision function of the source sees exactly ONE vector the object really held -/
theorem decision_sees_one_position_vector (f o : String) (n : Nat) (hm : (f, o, n) ∈ Generated.AreaFacts.pvLoads)
    (ld : Nat → Nat) (hld : ∀ i, ld i < n) (h : Nat → SPV) (ts : Nat → Nat) :
    seen ld h ts = h (ts 0) := by
  have hall := position_vectors_read_once_of_source
  rw [List.all_eq_true] at hall
  have hn : n ≤ 1 := by simpa using hall _ hm
  exact seen_of_single_load n hn ld hld h ts

/-- … hence the forwarder's Annex D selection is Annex D on a position vector the sender had, and the delivery
decision is F(ego) ≥ 0 on a position the station had -/
theorem annexD_on_one_sender_vector (n : Nat) (hn : n ≤ 1) (F : Int → Int → Rat) (fEgo : Rat) (ld : Nat → Nat)
    (hld : ∀ i, ld i < n) (h : Nat → SPV) (ts : Nat → Nat) :
    selectionSeen F fEgo ld h ts = annexD fEgo (some (seOf F (h (ts 0)))) ∧
    deliverSeen F ld h ts = decide (0 ≤ F (h (ts 0)).lat (h (ts 0)).lon) := by
  simp only [selectionSeen, deliverSeen, seen_of_single_load n hn ld hld h ts, and_self]

/-- non-vacuity: `gn_forwarding_algorithm_selection` is in the table with ONE load of the sender's vector -/
example : ("gn_forwarding_algorithm_selection", "LocTE#0.position_vector", 1) ∈ Generated.AreaFacts.pvLoads := by decide

/-- **three loads (C07-m5)**: circle r = 100 around the origin of a flat map (1 unit = 1 m).  The sender's LocTE holds
`old` = 600 m east with PAI, then a concurrent beacon replaces it by `new` = 50 m east WITHOUT PAI.  Annex D on `old`
and on `new` both say non-area forwarding; PAI loaded before and the position after the replacement gives
(PAI, inside) → DISCARD: a decision on a vector the sender never had.  The same with latitude and longitude from
different vectors: 600 m east → 600 m north, seen as the centre. -/
theorem torn_sender_witness :
    let F : Int → Int → Rat := fun lat lon => Fval .circle 100 100 (lat : Rat) (lon : Rat)
    let h1 : Nat → SPV := fun t => if t = 0 then ⟨true, 0, 600⟩ else ⟨false, 0, 50⟩
    let h2 : Nat → SPV := fun t => if t = 0 then ⟨true, 0, 600⟩ else ⟨true, 600, 0⟩
    -- loads: PAI at instant 0, latitude and longitude at instant 1
    selectionSeen F (-1) id h1 (fun i => if i = 0 then 0 else 1) = .discard ∧
    annexD (-1) (some (seOf F (h1 0))) = .nonAreaForwarding ∧ annexD (-1) (some (seOf F (h1 1))) = .nonAreaForwarding ∧
    -- loads: PAI and latitude at instant 0, longitude at instant 1
    selectionSeen F (-1) id h2 (fun i => if i = 2 then 1 else 0) = .discard ∧
    annexD (-1) (some (seOf F (h2 0))) = .nonAreaForwarding ∧ annexD (-1) (some (seOf F (h2 1))) = .nonAreaForwarding := by
  decide +kernel

/-- two loads of the ego vector (latitude, then longitude): the station moves from 150 m north to 150 m east of the
centre (never inside the circle of 100 m) and is seen AT the centre - delivered although never inside -/
theorem torn_ego_witness :
    let F : Int → Int → Rat := fun lat lon => Fval .circle 100 100 (lat : Rat) (lon : Rat)
    let h : Nat → SPV := fun t => if t = 0 then ⟨true, 0, 150⟩ else ⟨true, 150, 0⟩
    deliverSeen F (fun i => if i = 2 then 1 else 0) h id = true ∧
    decide (0 ≤ F (h 0).lat (h 0).lon) = false ∧ decide (0 ≤ F (h 1).lat (h 1).lon) = false := by
  decide +kernel

/-! ## Round 5: the STATE the decisions read, as a function of the history that produced it
(`FlexModel/Geo/AreaHist.lean`; facts `Generated.AreaFacts.fArgOrigins` regenerated from router.py) -/

/-- in both Annex D evaluations of the source (`gn_forwarding_algorithm_selection` for GBC, step 10 of
`gn_data_indicate_gac`) the first F is evaluated at the ego vector and the second at the vector of a LOCATION TABLE entry -/
def senderFromTable (l : List (String × List String)) : Bool :=
  l == [("gn_forwarding_algorithm_selection", ["ego", "locT"]), ("gn_data_indicate_gac", ["ego", "locT"])]

/-- **Annex D's PV_SE is the location table's vector in the source.**  Taking it from the header of the packet being
handled (seeded change C07-m8: `so_pv = gbc_extended_header.so_pv`) re-opens this obligation. -/
theorem annexD_sender_vector_from_location_table_of_source :
    senderFromTable Generated.AreaFacts.fArgOrigins = true := by decide

/-- **Annex D is decided on the NEWEST position vector received from the sender, in whatever order the receptions
arrived**: after the receptions `h` of station `pk.so` (beacons, SHBs, other packets; oldest reception first) and the
packet itself with header vector `hp`, the location table holds a vector `c` that was received, that no received vector
is newer than (annex C.2), and the transmissions of the forwarder are those of the Annex D table on
(ego inside or at border, PAI of `c`, `c` inside or at border) — for every glue, area, ego position and history. -/
theorem annexD_on_table_vector (g : Glue) (ego : Pos) (mx : Nat) (pk : GeoPkt) (h : List StPV) (hp : StPV)
    (ho : oversize pk.area.shape pk.area.a pk.area.b mx = false) (hr : 1 < pk.rhl) :
    ∃ c, locAfter (h ++ [hp]) = some c ∧ c ∈ h ++ [hp] ∧ (∀ q ∈ h ++ [hp], q.tst ≤ c.tst) ∧
      recvGBCpkt g .sender (stationAfter ego mx pk.so (h ++ [hp])) pk pk.so =
        (if decide (0 ≤ fAt g pk.area ego) then [Action.deliver] else []) ++
          fwdActs (annexDTable (decide (0 ≤ fAt g pk.area ego)) c.pai (decide (0 ≤ fAt g pk.area c.pos))) ∧
      recvGACpkt g .sender (stationAfter ego mx pk.so (h ++ [hp])) pk pk.so =
        (if decide (0 ≤ fAt g pk.area ego) then [Action.deliver]
         else fwdActs (annexDTable false c.pai (decide (0 ≤ fAt g pk.area c.pos)))) := by
  obtain ⟨c, hc⟩ := locAfter_some_of_mem (h ++ [hp]) hp (by simp)
  obtain ⟨hm, hmax⟩ := locAfter_mem_max _ c hc
  refine ⟨c, hc, hm, hmax, ?_⟩
  have key := annexD_selection_sender g (stationAfter ego mx pk.so (h ++ [hp])) pk pk.so ho rfl hr
  have e : (stationAfter ego mx pk.so (h ++ [hp])).locT pk.so = some ⟨c.pos, c.pai⟩ := by
    simp [stationAfter, hc, StPV.toLocTE]
  have e2 : (stationAfter ego mx pk.so (h ++ [hp])).ego = ego := rfl
  simp only [e, sePosValid, seInside, e2] at key
  simpa using key

/-- the same for the place the SOURCE TEXT takes PV_SE from (regenerated fact) -/
theorem annexD_on_table_vector_of_source (ego : Pos) (mx so : Nat) (h : List StPV) (hp : StPV) :
    stationAt (senderFromTable Generated.AreaFacts.fArgOrigins) ego mx so h hp = stationAfter ego mx so (h ++ [hp]) := by
  have hf : senderFromTable Generated.AreaFacts.fArgOrigins = true := by decide
  simp [stationAt, hf]

/-- in-order reception (the packet is strictly newer than everything received from its source before): header vector
and table vector are the same thing … -/
theorem header_vector_partial (ego : Pos) (mx so : Nat) (h : List StPV) (hp : StPV) (hn : ∀ q ∈ h, q.tst < hp.tst) :
    stationAt false ego mx so h hp = stationAt true ego mx so h hp := by
  simp [stationAt, stationAfter, stationHeader, locAfter_packet_newest h hp hn]

/-- … and **out of order they are not (C07-m8, witness)**: circle r = 200 m around the origin of a flat map, forwarder
1500 m west (outside).  A beacon of station 7 with timestamp 2000 ms from 300 m east (outside), then a delayed GAC
packet station 7 generated at 0 ms at the centre (PAI): the table says "sender outside" → non-area forwarding, the
header says "inside" → the packet is dropped.  With the roles swapped the header re-broadcasts a packet that Annex D
discards.  (non-vacuity of `annexD_on_table_vector`: histories whose last element is not the newest.) -/
theorem header_vector_witness :
    let A : GeoArea := ⟨.circle, 200, 0, ⟨0, 0⟩, 0⟩
    let pk : GeoPkt := ⟨A, 5, 7⟩
    let ego : Pos := ⟨0, -1500⟩
    let newOut : StPV := ⟨2000, ⟨0, 300⟩, true⟩
    let oldIn : StPV := ⟨0, ⟨0, 0⟩, true⟩
    let newIn : StPV := ⟨2000, ⟨0, 0⟩, true⟩
    let oldOut : StPV := ⟨0, ⟨0, 300⟩, true⟩
    recvGACpkt flatGlue .sender (stationAt true ego 10 7 [newOut] oldIn) pk 7 = [.forwardNonArea] ∧
    recvGACpkt flatGlue .sender (stationAt false ego 10 7 [newOut] oldIn) pk 7 = [] ∧
    recvGACpkt flatGlue .sender (stationAt true ego 10 7 [newIn] oldOut) pk 7 = [] ∧
    recvGACpkt flatGlue .sender (stationAt false ego 10 7 [newIn] oldOut) pk 7 = [.forwardNonArea] ∧
    locAfter [newOut, oldIn] = some newOut := by
  decide +kernel

/-- **delivery after any history of TPV reports depends only on the last report that carries a position fix**: whatever
was reported before it (`pre`), and however many reports without `lat`/`lon` (no fix: mode 0/1) follow it (`suf`), a
GBC / GAC packet is delivered exactly when the position `p` of that report lies inside or on the border of the area -/
theorem delivery_after_tpv_history (g : Glue) (hu : g.UnitCS) (k : SeKey) (st : Station) (pk : GeoPkt) (sender : Nat)
    (ha : 0 < pk.area.a) (hb : pk.area.shape = .circle ∨ 0 < pk.area.b)
    (ego0 : Pos) (pre suf : List Tpv) (r : Tpv) (p : Pos) (hr : r.fix = some p) (hs : ∀ q ∈ suf, q.fix = none) :
    (Action.deliver ∈ recvGBCpkt g k { st with ego := egoAfter false ego0 (pre ++ r :: suf) } pk sender ↔
      insideArea g pk.area p) ∧
    (Action.deliver ∈ recvGACpkt g k { st with ego := egoAfter false ego0 (pre ++ r :: suf) } pk sender ↔
      insideArea g pk.area p) := by
  have e := egoAfter_last_fix ego0 pre suf r p hr hs
  have key := packet_deliver_iff_inside g hu k { st with ego := egoAfter false ego0 (pre ++ r :: suf) } pk sender ha hb
  simpa [e] using key

/-- no report with a fix at all (outage from the start): the station stays where it was -/
theorem delivery_without_any_fix (g : Glue) (hu : g.UnitCS) (k : SeKey) (st : Station) (pk : GeoPkt) (sender : Nat)
    (ha : 0 < pk.area.a) (hb : pk.area.shape = .circle ∨ 0 < pk.area.b) (nm : Bool)
    (h : List Tpv) (hs : ∀ q ∈ h, q.fix = none) :
    (Action.deliver ∈ recvGBCpkt g k { st with ego := egoAfter nm st.ego h } pk sender ↔ insideArea g pk.area st.ego) ∧
    (Action.deliver ∈ recvGACpkt g k { st with ego := egoAfter nm st.ego h } pk sender ↔ insideArea g pk.area st.ego) := by
  have e := egoAfter_no_fix nm st.ego h hs
  have key := packet_deliver_iff_inside g hu k { st with ego := egoAfter nm st.ego h } pk sender ha hb
  simpa [e] using key

/-- non-vacuity: fix 50 m north of the centre of a 100 m circle, fix 500 m north WITHOUT speed and track, then two
reports without position (one of them with a latitude only): the station is 500 m north, not delivered; had the last
fix been the first one, delivered -/
example :
    let A : GeoArea := ⟨.circle, 100, 0, ⟨0, 0⟩, 0⟩
    let pk : GeoPkt := ⟨A, 5, 7⟩
    let st : Station := ⟨⟨0, 0⟩, 10, fun _ => false, fun _ => none⟩
    let fixIn : Tpv := ⟨some 50, some 0, true, true⟩
    let fixOut : Tpv := ⟨some 500, some 0, false, false⟩
    let noFix : Tpv := ⟨none, none, false, false⟩
    let latOnly : Tpv := ⟨some 0, none, true, true⟩
    egoAfter false st.ego [fixIn, fixOut, noFix, latOnly] = ⟨500, 0⟩ ∧
    recvGACpkt flatGlue .source { st with ego := egoAfter false st.ego [fixIn, fixOut, noFix, latOnly] } pk 7 = [.forwardNonArea] ∧
    recvGACpkt flatGlue .source { st with ego := egoAfter false st.ego [fixIn, noFix, latOnly] } pk 7 = [.deliver] := by
  decide +kernel

/-- **the code before fix C07-F4, partial**: it agrees on histories in which every report with a position also carries
`speed` and `track` … -/
theorem tpv_speed_track_required_partial (ego0 : Pos) (h : List Tpv)
    (hm : ∀ q ∈ h, q.fix ≠ none → (q.speed && q.track) = true) : egoAfter true ego0 h = egoAfter false ego0 h :=
  egoAfter_needMotion_partial ego0 h hm

/-- … **witness (defect C07-F4)**: a report WITH a position but without `track` (gpsd: no course at standstill / NMEA
receiver) was rejected with KeyError: the station, now 500 m from the centre, is still addressed where it was -/
theorem tpv_speed_track_required_witness :
    let A : GeoArea := ⟨.circle, 100, 0, ⟨0, 0⟩, 0⟩
    let pk : GeoPkt := ⟨A, 5, 7⟩
    let st : Station := ⟨⟨0, 0⟩, 10, fun _ => false, fun _ => none⟩
    let h : List Tpv := [⟨some 50, some 0, true, true⟩, ⟨some 500, some 0, true, false⟩]
    egoAfter true st.ego h = ⟨50, 0⟩ ∧ egoAfter false st.ego h = ⟨500, 0⟩ ∧
    recvGBCpkt flatGlue .source { st with ego := egoAfter true st.ego h } pk 7 = [.deliver, .forwardArea] ∧
    recvGBCpkt flatGlue .source { st with ego := egoAfter false st.ego h } pk 7 = [.forwardNonArea] := by
  decide +kernel

/-- **a report without fix read as 0.0 (C07-m9, witness)**: fix at (4138, 217), then a report without position: the
station is moved to 0 N 0 E — a packet for the circle around its real position is no longer delivered, a packet for the
circle around (0, 0) is -/
theorem no_fix_report_moves_station_witness :
    let here : GeoArea := ⟨.circle, 100, 0, ⟨4138, 217⟩, 0⟩
    let origin : GeoArea := ⟨.circle, 100, 0, ⟨0, 0⟩, 0⟩
    let st : Station := ⟨⟨0, 0⟩, 10, fun _ => false, fun _ => none⟩
    let h : List Tpv := [⟨some 4138, some 217, true, true⟩, ⟨none, none, false, false⟩]
    h.foldl egoRefreshZero st.ego = ⟨0, 0⟩ ∧ egoAfter false st.ego h = ⟨4138, 217⟩ ∧
    recvGACpkt flatGlue .source { st with ego := h.foldl egoRefreshZero st.ego } ⟨here, 5, 7⟩ 7 = [.forwardNonArea] ∧
    recvGACpkt flatGlue .source { st with ego := h.foldl egoRefreshZero st.ego } ⟨origin, 5, 7⟩ 7 = [.deliver] ∧
    recvGACpkt flatGlue .source { st with ego := egoAfter false st.ego h } ⟨here, 5, 7⟩ 7 = [.deliver] ∧
    recvGACpkt flatGlue .source { st with ego := egoAfter false st.ego h } ⟨origin, 5, 7⟩ 7 = [.forwardNonArea] := by
  decide +kernel

/-! ## Round 6: the forwarder's state (SCF, no neighbour), the PAI bit on the wire, sequences of evaluations -/

/-- without the buffer state the state-aware receive functions are the plain ones -/
theorem recv_state_no_buffer (i : RxIn) : recvGBCst false i = recvGBC i ∧ recvGACst false i = recvGAC i := by
  constructor
  · unfold recvGBCst recvGBC fwdActs
    cases annexD i.fEgo i.se <;> simp
  · unfold recvGACst recvGAC
    simp

/-- **oversize packet not forwarded in ANY state of the forwarder** (`bc` = no neighbour in the location table and
store-carry-forward in the traffic class, or not) -/
theorem oversize_not_forwarded_any_state (bc : Bool) (i : RxIn) (h : i.oversize = true) :
    Action.forwardArea ∉ recvGBCst bc i ∧ Action.forwardNonArea ∉ recvGBCst bc i ∧
    Action.forwardArea ∉ recvGACst bc i ∧ Action.forwardNonArea ∉ recvGACst bc i := by
  unfold recvGBCst recvGACst
  by_cases hf : 0 ≤ i.fEgo <;> simp [h, hf]

/-- ... for the guard position of the source: the size control of `gn_data_indicate_gbc` is a top-level guard that
precedes every forwarder call (`guardFirst indicateGbc`, regenerated), so it holds in the buffer state too -/
theorem oversize_not_forwarded_any_state_of_source (bc : Bool) (i : RxIn) (h : i.oversize = true) :
    Action.forwardArea ∉ recvGBCguardAt (guardFirst Generated.AreaFacts.indicateGbc) bc i ∧
    Action.forwardNonArea ∉ recvGBCguardAt (guardFirst Generated.AreaFacts.indicateGbc) bc i := by
  have hg : guardFirst Generated.AreaFacts.indicateGbc = true := by decide
  rw [hg]
  simp only [recvGBCguardAt, if_true]
  exact ⟨(oversize_not_forwarded_any_state bc i h).1, (oversize_not_forwarded_any_state bc i h).2.1⟩

example : recvGBCst true ⟨-1, 5, false, false, none⟩ = [.forwardArea] ∧ recvGBCst true ⟨-1, 5, true, false, none⟩ = [] := by
  decide +kernel

/-- the size control inside the "neighbour exists or SCF not set" branch of the forwarder (C07-m10): an oversized packet is
transmitted by a station without neighbours when the traffic class has SCF, inside and outside the area - and refused
as soon as a neighbour is known -/
theorem oversize_forwarded_guard_in_branch_witness :
    recvGBCguardAt false true ⟨-1, 5, true, false, none⟩ = [.forwardArea] ∧
    recvGBCguardAt false true ⟨1, 5, true, false, none⟩ = [.deliver, .forwardArea] ∧
    recvGBCguardAt false false ⟨-1, 5, true, false, none⟩ = [] := by decide +kernel

/-- the word `PAI | S | H` of the long position vector: flag at bit `paiShift`, `bits`-bit two's complement of the signed
speed at bit 16, heading below -/
def paiWord (bits : Nat) (pai : Bool) (speed : Int) (heading : Nat) : Nat :=
  (if pai then 2 ^ 31 else 0) ||| ((speed % (2 ^ bits : Nat)).toNat <<< 16) ||| heading

/-- `encode` and `encode_to_int` of the source: PAI at bit 31, 15-bit speed at bit 16 (regenerated by harness/gen_area.py) -/
theorem pai_bit_layout_of_source :
    Generated.AreaFacts.lpvLayout = [("encode", 31, 15, 16), ("encode_to_int", 31, 15, 16)] := by decide

/-- **the PAI flag on the wire is the sender's**, for every speed (negative = reversing) and every 16-bit heading -/
theorem wire_pai_is_senders (pai : Bool) (speed : Int) (heading : Nat) (hh : heading < 2 ^ 16) :
    (paiWord 15 pai speed heading).testBit 31 = pai := by
  unfold paiWord
  have hs : (speed % ((2 ^ 15 : Nat) : Int)).toNat < 2 ^ 15 := by omega
  have h1 : ((speed % ((2 ^ 15 : Nat) : Int)).toNat <<< 16) < 2 ^ 31 := by
    rw [Nat.shiftLeft_eq]; omega
  have h2 : heading < 2 ^ 31 := by omega
  rw [Nat.testBit_or, Nat.testBit_or, Nat.testBit_lt_two_pow h1, Nat.testBit_lt_two_pow h2]
  cases pai
  · simp
  · simp only [if_true, Bool.or_false]
    decide

/-- a 16-bit speed field (C07-m11): a reversing sender WITHOUT position accuracy goes out with the PAI bit set -/
theorem wire_pai_16bit_speed_witness : (paiWord 16 false (-150) 0).testBit 31 = true ∧ (paiWord 15 false (-150) 0).testBit 31 = false := by
  decide +kernel

/-- the geometric function and its helpers write nothing that outlives the call, read no instance / class data and
carry no (memoising) decorator -/
def statelessSrc (l : List (String × List String × List String × List String)) : Bool :=
  l.map (·.1) == ["gn_geometric_function_f", "calculate_distance", "rotate_to_area_frame"] &&
  l.all (fun x => x.2.1.isEmpty && x.2.2.1.isEmpty && x.2.2.2.isEmpty)

theorem geometric_function_is_stateless_of_source : statelessSrc Generated.AreaFacts.fState = true := by decide

/-- **every evaluation of a sequence on one router is the evaluation of that query alone** (all sequences, all queries) -/
theorem F_sequence_history_free_of_source (qs : List FQuery) :
    evalSeqAt (statelessSrc Generated.AreaFacts.fState) qs = qs.map FQuery.eval := by
  have h : statelessSrc Generated.AreaFacts.fState = true := by decide
  simp [evalSeqAt, h]

/-- **which memo would be sound**: a one-entry cache of the rotated offset answers every sequence like the stateless
function iff-direction "if": equal keys imply equal rotated offsets (the key must determine centre, point AND azimuth) -/
theorem memo_sound_of_key {κ : Type} [DecidableEq κ] (key : FQuery → κ)
    (hk : ∀ q q' : FQuery, key q = key q' → q.frame = q'.frame) (qs : List FQuery) :
    ∀ m : Option (κ × Rat × Rat), (∀ k p, m = some (k, p) → ∀ q, key q = k → q.frame = p) →
      runMemo key m qs = qs.map FQuery.eval := by
  induction qs with
  | nil => intro m _; rfl
  | cons q qs ih =>
    intro m hm
    have hp : (evalMemo key m q) = (some (key q, q.frame), q.eval) := by
      unfold evalMemo FQuery.eval
      cases m with
      | none => rfl
      | some kp =>
        obtain ⟨k, p⟩ := kp
        by_cases hkq : k = key q
        · have := hm k p rfl q hkq.symm
          simp [hkq, this]
        · simp [hkq]
    simp only [runMemo, List.map_cons, hp]
    congr 1
    apply ih
    intro k p hkp q' hq'
    simp only [Option.some.injEq, Prod.mk.injEq] at hkp
    obtain ⟨h1, h2⟩ := hkp
    rw [← h2]
    exact hk q' q (by rw [hq', h1])

/-- the key WITHOUT the azimuth (C07-m12): ellipse 400 x 50, point 300 m north; azimuth 0 (point on the long axis: inside)
then azimuth 90 (250 m outside): the second answer is the first one's; alone it is negative -/
theorem memo_without_azimuth_witness :
    let q0 : FQuery := ⟨.ellipse, 400, 50, 1, 0, 300, 0⟩
    let q90 : FQuery := ⟨.ellipse, 400, 50, 0, 1, 300, 0⟩
    evalSeqAt false [q0, q90] = [q0.eval, q0.eval] ∧ evalSeqAt true [q0, q90] = [q0.eval, q90.eval] ∧
    q0.eval = .ok (7 / 16) ∧ q90.eval = .ok (-35) := by decide +kernel

/-! ## Model facts (restate definitions; not part of the claimed list) -/
namespace Model

/-- the eight rows, spelled out -/
theorem annexD_rows :
    annexDTable true true true = .areaForwarding ∧ annexDTable true true false = .areaForwarding ∧
    annexDTable true false true = .areaForwarding ∧ annexDTable true false false = .areaForwarding ∧
    annexDTable false true true = .discard ∧ annexDTable false true false = .nonAreaForwarding ∧
    annexDTable false false true = .nonAreaForwarding ∧ annexDTable false false false = .nonAreaForwarding := by
  decide

end Model

end Props.C07

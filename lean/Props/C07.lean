/-
C07 — Geo-addressed packets are delivered exactly inside the destination area.
Property theorems only.  Model: `FlexModel/Geo/Area.lean` (mirrors router.py with fix C07-F1 applied: the point is
rotated into the area frame before F); helper lemmas: `FlexModel/Geo/AreaLemmas.lean`.
All statements are for arbitrary rational semi-axes a, b > 0 and arbitrary rational points — no bounds.
-/
import FlexModel.Geo.AreaLemmas
import Generated.Mib

namespace Props.C07
open FlexModel.Geo.Area

/-! ## The geometric function decides membership (EN 302 931) -/

/-- **F ≥ 0 ⇔ inside or on the border**, for the three shapes -/
theorem F_nonneg_iff_inside (s : Shape) (a b x y : Rat) (ha : 0 < a) (hb : 0 < b) :
    0 ≤ Fval s a b x y ↔ inside s a b x y := by
  cases s
  · exact circle_iff a b x y ha
  · exact rect_iff a b x y ha hb
  · exact ellipse_iff a b x y

/-- **F = 0 exactly on the border** -/
theorem F_zero_border (s : Shape) (a b x y : Rat) (ha : 0 < a) (hb : 0 < b) :
    Fval s a b x y = 0 ↔ onBorder s a b x y := by
  cases s
  · exact circle_zero_iff a b x y ha
  · exact rect_zero_iff a b x y ha hb
  · exact ellipse_zero_iff a b x y

/-- outside ⇔ F < 0 -/
theorem F_neg_iff_outside (s : Shape) (a b x y : Rat) (ha : 0 < a) (hb : 0 < b) :
    Fval s a b x y < 0 ↔ ¬ inside s a b x y := by
  rw [← F_nonneg_iff_inside s a b x y ha hb, not_le]

/-- the ellipse condition of the standard in polynomial form (no division) -/
theorem ellipse_inside_polynomial (a b x y : Rat) (ha : 0 < a) (hb : 0 < b) :
    inside .ellipse a b x y ↔ b * b * (x * x) + a * a * (y * y) ≤ a * a * (b * b) :=
  ellipse_inside_poly a b x y ha hb

/-- F is symmetric in both frame axes: the orientation of the abscissa / ordinate of the area frame (the code's
    x-distance points south, the oracle's north) cannot change a decision -/
theorem F_axis_symmetric (s : Shape) (a b x y : Rat) :
    Fval s a b (-x) y = Fval s a b x y ∧ Fval s a b x (-y) = Fval s a b x y :=
  ⟨Fval_neg_x s a b x y, Fval_neg_y s a b x y⟩

/-- the circle is invariant under every rotation of the frame (any azimuth): `c = cos θ`, `s = sin θ` -/
theorem circle_rotation_invariant (a b x y c s : Rat) (h : c * c + s * s = 1) :
    Fval .circle a b (c * x + s * y) (-(s * x) + c * y) = Fval .circle a b x y :=
  circle_rot a b x y c s h

/-- the circle ignores `b` (the DEN service sends `b = 0`) and needs only `a > 0` -/
theorem circle_only_needs_a (a b x y : Rat) (ha : 0 < a) :
    F .circle a b x y = .ok (Fval .circle a b x y) ∧ (0 ≤ Fval .circle a b x y ↔ x * x + y * y ≤ a * a) := by
  have h1 : (a == 0) = false := by simpa using ne_of_gt ha
  exact ⟨by simp [F, degenerate, h1], circle_iff a b x y ha⟩

/-- for valid semi-axes the code path never raises -/
theorem F_total (s : Shape) (a b x y : Rat) (ha : 0 < a) (hb : 0 < b) : F s a b x y = .ok (Fval s a b x y) :=
  F_ok s a b x y ha hb

/-- **degenerate semi-axes**: `a = 0` (any shape) and `b = 0` (rectangle, ellipse) take the explicit error branch
    (ZeroDivisionError in `gn_geometric_function_f`) -/
theorem degenerate_error (s : Shape) (a b x y : Rat) :
    (a = 0 → F s a b x y = .error .zeroDivision) ∧
    (b = 0 → s ≠ .circle → F s a b x y = .error .zeroDivision) := by
  constructor
  · intro h; subst h; cases s <;> simp [F, degenerate]
  · intro h hs; subst h; cases s <;> simp_all [F, degenerate]

/-! ## Delivery decision -/

/-- **GBC**: delivered to the upper layer ⇔ F(ego) ≥ 0 -/
theorem gbc_deliver_iff (i : RxIn) : Action.deliver ∈ recvGBC i ↔ 0 ≤ i.fEgo := by
  unfold recvGBC
  by_cases h : 0 ≤ i.fEgo
  · simp [h]
  · simp only [h, if_false, List.nil_append, iff_false]
    split
    · simp
    · split <;> simp

/-- **GAC**: delivered ⇔ F(ego) ≥ 0 -/
theorem gac_deliver_iff (i : RxIn) : Action.deliver ∈ recvGAC i ↔ 0 ≤ i.fEgo := by
  unfold recvGAC
  by_cases h : 0 ≤ i.fEgo
  · simp [h]
  · simp only [h, if_false, iff_false]
    repeat' split
    all_goals simp

/-- **GAC inside**: delivered and then NOT forwarded -/
theorem gac_inside_no_forward (i : RxIn) (h : 0 ≤ i.fEgo) : recvGAC i = [Action.deliver] := by
  simp [recvGAC, h]

/-- **outside never delivered**, whatever the other inputs (only forwarded or discarded) -/
theorem outside_never_deliver (i : RxIn) (h : i.fEgo < 0) :
    Action.deliver ∉ recvGBC i ∧ Action.deliver ∉ recvGAC i := by
  have : ¬ 0 ≤ i.fEgo := not_le.2 h
  exact ⟨fun hd => this ((gbc_deliver_iff i).1 hd), fun hd => this ((gac_deliver_iff i).1 hd)⟩

/-- delivery ⇔ the receiver lies inside or on the border of the destination shape (F evaluated at the ego position
    in the area frame), for both transport types -/
theorem deliver_iff_inside (s : Shape) (a b x y : Rat) (ha : 0 < a) (hb : 0 < b) (i : RxIn)
    (hf : i.fEgo = Fval s a b x y) :
    (Action.deliver ∈ recvGBC i ↔ inside s a b x y) ∧ (Action.deliver ∈ recvGAC i ↔ inside s a b x y) := by
  rw [gbc_deliver_iff, gac_deliver_iff, hf]
  exact ⟨F_nonneg_iff_inside s a b x y ha hb, F_nonneg_iff_inside s a b x y ha hb⟩

/-- a GBC receiver inside the area with hop budget left re-broadcasts by area forwarding -/
theorem gbc_inside_forwards (i : RxIn) (h : 0 ≤ i.fEgo) (ho : i.oversize = false) (hp : i.pdrExceeded = false)
    (hr : 1 < i.rhl) : recvGBC i = [Action.deliver, Action.forwardArea] := by
  have : ¬ i.rhl ≤ 1 := by omega
  simp [recvGBC, h, ho, hp, this, annexD]

/-! ## Area size control -/

/-- **oversize request refused**: confirm GEOGRAPHICAL_SCOPE_TOO_LARGE and nothing is sent -/
theorem oversize_refused_src (s : Shape) (a b : Rat) (maxKm2 : Nat) (fEgo : Rat) (bc g : Bool)
    (h : (maxKm2 : Rat) * 1000000 < areaSize s a b) :
    srcRequest s a b maxKm2 fEgo bc g = ⟨.geographicalScopeTooLarge, 0⟩ := by
  simp [srcRequest, oversize, h]

/-- a request that fits is never refused for its size -/
theorem fitting_accepted_src (s : Shape) (a b : Rat) (maxKm2 : Nat) (fEgo : Rat) (bc g : Bool)
    (h : areaSize s a b ≤ (maxKm2 : Rat) * 1000000) :
    (srcRequest s a b maxKm2 fEgo bc g).confirm = .accepted := by
  have : ¬ ((maxKm2 : Rat) * 1000000 < areaSize s a b) := not_lt.2 h
  simp only [srcRequest, oversize, this, decide_false, Bool.false_eq_true, if_false]
  repeat' split
  all_goals rfl

/-- **oversize packet not forwarded** (GBC still delivers inside; GAC outside is dropped) -/
theorem oversize_not_forwarded (i : RxIn) (h : i.oversize = true) :
    Action.forwardArea ∉ recvGBC i ∧ Action.forwardNonArea ∉ recvGBC i ∧
    Action.forwardArea ∉ recvGAC i ∧ Action.forwardNonArea ∉ recvGAC i := by
  unfold recvGBC recvGAC
  by_cases hf : 0 ≤ i.fEgo <;> simp [h, hf]

/-- the default MIB limit (regenerated from the source on every run) is 10 km²: a circle of radius 1784 m fits,
    1785 m does not; a 1000 m × 2500 m (half-sides) rectangle fits exactly -/
theorem default_limit_boundary :
    oversize .circle 1784 0 Generated.Mib.itsGnMaxGeoAreaSize = false ∧
    oversize .circle 1785 0 Generated.Mib.itsGnMaxGeoAreaSize = true ∧
    oversize .rect 1000 2500 Generated.Mib.itsGnMaxGeoAreaSize = false ∧
    oversize .rect 1000 2501 Generated.Mib.itsGnMaxGeoAreaSize = true := by decide +kernel

/-! ## Annex D -/

/-- **Annex D table**: the selection equals the standard's table for all eight combinations of
    (ego inside/at border, SE_POS_VALID, sender inside/at border) and any F values realising them -/
theorem annexD_table (fEgo fSe : Rat) (pai : Bool) :
    annexD fEgo (some (pai, fSe)) = annexDTable (decide (0 ≤ fEgo)) pai (decide (0 ≤ fSe)) := by
  by_cases h1 : 0 ≤ fEgo <;> by_cases h2 : 0 ≤ fSe <;> cases pai <;> simp [annexD, annexDTable, h1, h2]

/-- sender unknown (source operation, or no location-table entry): SE_POS_VALID is false -/
theorem annexD_no_sender (fEgo : Rat) (any : Bool) :
    annexD fEgo none = annexDTable (decide (0 ≤ fEgo)) false any := by
  by_cases h1 : 0 ≤ fEgo <;> cases any <;> simp [annexD, annexDTable, h1]

/-- the eight rows, spelled out -/
theorem annexD_rows :
    annexDTable true true true = .areaForwarding ∧ annexDTable true true false = .areaForwarding ∧
    annexDTable true false true = .areaForwarding ∧ annexDTable true false false = .areaForwarding ∧
    annexDTable false true true = .discard ∧ annexDTable false true false = .nonAreaForwarding ∧
    annexDTable false false true = .nonAreaForwarding ∧ annexDTable false false false = .nonAreaForwarding := by
  decide

/-- a forwarder outside the area whose sender was inside (valid position) neither forwards nor delivers -/
theorem outside_sender_inside_discard (i : RxIn) (fSe : Rat) (h : i.fEgo < 0) (hs : i.se = some (true, fSe))
    (hse : 0 ≤ fSe) : recvGBC i = [] ∧ recvGAC i = [] := by
  have h' : ¬ 0 ≤ i.fEgo := not_le.2 h
  constructor
  · simp only [recvGBC, h', if_false, List.nil_append, hs, annexD, hse, decide_true, Bool.and_self, if_true]
    split <;> rfl
  · simp only [recvGAC, h', if_false, hs, hse, if_true]
    split <;> rfl

/-! ## The code before fix C07-F1 (azimuth ignored) -/

/-- witness: rectangle a = 100 m, b = 10 m, azimuth 90° (long side pointing east).  The point 50 m east of the centre
    is inside, the point 50 m north is outside; the unrotated evaluation decided both the wrong way round. -/
theorem azimuth_ignored_witness :
    let pE := toFrameQuarter 1 0 50      -- 50 m east, in the area frame
    let pN := toFrameQuarter 1 50 0      -- 50 m north, in the area frame
    inside .rect 100 10 pE.1 pE.2 ∧ ¬ inside .rect 100 10 pN.1 pN.2 ∧
    FvalUnrotated .rect 100 10 0 50 < 0 ∧ 0 ≤ FvalUnrotated .rect 100 10 50 0 := by
  decide +kernel

/-- partial: for azimuth 0° and 180° (frame = ± the unrotated offsets) the unrotated evaluation was already right,
    for every shape. -/
theorem azimuth_ignored_partial (s : Shape) (a b north east : Rat) (q : Nat) (hq : q % 4 = 0 ∨ q % 4 = 2) :
    FvalUnrotated s a b north east = Fval s a b (toFrameQuarter q north east).1 (toFrameQuarter q north east).2 := by
  rcases hq with h | h <;> cases s <;>
    simp [FvalUnrotated, toFrameQuarter, h, Fval, sqr, neg_div]

end Props.C07

import FlexModel.Geo.LocT
namespace Props.C08
open FlexModel.Geo
theorem tst_irrefl (a : Nat) : TST.gt a a = false := by simp [TST.gt]
end Props.C08

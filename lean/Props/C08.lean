/-
C08 — Location table reflects the newest valid information about each station.
Property theorems only.  Model: `FlexModel/Geo/TST.lean`, `FlexModel/Geo/LocT.lean` (mirrors the code after the
repairs fixes/C08-*); helper lemmas: `FlexModel/Geo/LocTLemmas.lean`.

Conventions: `c.v = {}` selects the repaired code (all `Variant` switches on).  `PV.time` may be read as the real
(unwrapped) acquisition time in ITS milliseconds: the model only ever uses `PV.tst = time % 2^32`.
`Win B x` = `B ≤ x < B + 2^31`: the timestamps/clock readings concerned lie in one window of less than 2^31 ms.
-/
import FlexModel.Geo.LocTLemmas
import FlexModel.Geo.LocTConc
import Generated.Mib
import Generated.GnAddrKey

namespace Props.C08
open FlexModel.Geo

/-! ## The timestamp order (all pairs of 32-bit timestamps) -/

/-- irreflexive -/
theorem tst_irrefl (a : Nat) : TST.gt a a = false := TST.gt_irrefl a

/-- asymmetric (hence antisymmetric) – for all values, including the antipodal pairs -/
theorem tst_asymm (a b : Nat) (h : TST.gt a b = true) : TST.gt b a = false := TST.gt_asymm a b h

/-- total on distinct 32-bit values: exactly one of the two is the newer one -/
theorem tst_total (a b : Nat) (ha : a < W) (hb : b < W) (h : a ≠ b) : TST.gt a b = true ∨ TST.gt b a = true :=
  TST.gt_total a b ha hb h

/-- agrees with real time for every difference below 2^31 ms, wherever the 2^32 wrap falls -/
theorem tst_agrees_realtime (x y : Nat) (h1 : x < y) (h2 : y - x < HALF) :
    TST.gt (y % W) (x % W) = true ∧ TST.gt (x % W) (y % W) = false :=
  ⟨TST.gt_of_realtime x y h1 h2, TST.not_gt_of_realtime x y (Nat.le_of_lt h1) h2⟩

/-- at a distance of exactly 2^31 ms the numerically larger field wins: the later timestamp is the newer one
iff no wrap lies between the two -/
theorem tst_antipode (x : Nat) : TST.gt ((x + HALF) % W) (x % W) = true ↔ x % W < HALF := TST.gt_antipode x

/-- the order cannot be transitive on the whole circle … -/
theorem tst_not_transitive_witness :
    TST.gt 1500000000 0 = true ∧ TST.gt 3000000000 1500000000 = true ∧ TST.gt 3000000000 0 = false := by decide

/-- … but it is a strict total order agreeing with `<` on every window of less than 2^31 ms -/
theorem tst_window_order (B x y : Nat) (hx : Win B x) (hy : Win B y) : TST.gt (y % W) (x % W) = true ↔ x < y := by
  obtain ⟨a1, a2⟩ := hx; obtain ⟨b1, b2⟩ := hy
  constructor
  · intro h
    by_cases hle : y ≤ x
    · have := TST.not_gt_of_realtime y x hle (by omega); rw [this] at h; cases h
    · omega
  · intro h; exact TST.gt_of_realtime x y h (by omega)

/-- `TST.__sub__` is the elapsed time modulo 2^32 -/
theorem tst_sub_realtime (x y : Nat) (h : x ≤ y) : TST.sub (y % W) (x % W) = (y - x) % W := TST.sub_spec x y h

/-- age used by the purge rule: elapsed real time, and 0 when the sender's clock is ahead of the receiver's -/
theorem age_realtime (N T : Nat) (h1 : T < N + HALF) (h2 : N < T + HALF) : TST.age (N % W) (T % W) = N - T :=
  TST.age_spec N T h1 h2

/-! ## Own address -/

/-- for every history: no entry is ever keyed by an address with the station's own MID
(receptions are stopped by DAD; `ensure` = Location Service placeholder is assumed not to be asked for oneself) -/
theorem own_address_never_entered (c : Cfg) (hv : c.v = {}) (ops : List Op)
    (hens : ∀ op ∈ ops, match op with | .ensure a => mid a ≠ mid c.self | _ => True) :
    ∀ b e, lookup (run c ops) b = some e → mid b ≠ mid c.self := by
  refine run_invariant c (fun t => ∀ b e, lookup t b = some e → mid b ≠ mid c.self) ops
    (fun op => match op with | .ensure a => mid a ≠ mid c.self | _ => True) (by simp [lookup]) ?_ hens
  intro t op hu hp hq b e hl
  cases step_key c hv t op hu b e hl with
  | inl h => obtain ⟨e0, h0⟩ := h; exact hp b e0 h0
  | inr h =>
    cases op with
    | pkt k a p sn now => obtain ⟨hb, hd⟩ := h; rw [hb]; exact hd
    | ensure a => rw [h]; exact hq
    | refresh now => cases h
    | tick now => cases h

example : lookup (run { self := 7, lifetimeMs := 20000, dplLen := 8 }
    [.pkt .shb 7 { time := 1000 } 0 1000, .pkt .tsb (7 + 281474976710656) { time := 1000 } 1 1000]) 7 = none := by decide

/-! ## Newest position vector wins, older or equal never replaces -/

/-- one reception, any table: a PV whose timestamp is not newer than the stored one never replaces it -/
theorem older_or_equal_never_replaces (c : Cfg) (hv : c.v = {}) (t : Table) (hu : Uniq t) (k : Kind) (a : Addr)
    (p : PV) (sn now : Nat) (e e' : Entry) (hd : mid a ≠ mid c.self)
    (hlive : keep (fresh c now) (lookup t a) = some e) (hh : e.hasPV = true)
    (hold : TST.gt p.tst e.pv.tst = false) (h' : lookup (recv c t k a p sn now).1 a = some e') :
    e'.pv = e.pv := by
  have hlk := lookup_recv_self c hv t k a p sn now hd hu
  simp only [selfOutcome, hlive] at hlk
  obtain ⟨_, h2, h3⟩ := entryStep_some c hv e k p sn
  by_cases hdup : (entryStep c (some e) k p sn).2 = .dup
  · simp only [hdup, if_true] at hlk
    rw [hlk] at h'; cases h'; rfl
  · simp only [hdup, if_false] at hlk
    rw [hlk] at h'
    obtain ⟨heq, _⟩ := keep_some h'
    cases heq
    obtain ⟨_, _, _, _, g4⟩ := h3 hdup
    rw [g4]; simp [hh, hold]

/-- one reception, any table: an accepted PV with a newer timestamp replaces the stored one -/
theorem newer_replaces (c : Cfg) (hv : c.v = {}) (t : Table) (hu : Uniq t) (k : Kind) (a : Addr)
    (p : PV) (sn now : Nat) (e e' : Entry) (hd : mid a ≠ mid c.self)
    (hlive : keep (fresh c now) (lookup t a) = some e)
    (hnew : TST.gt p.tst e.pv.tst = true) (hok : (recv c t k a p sn now).2 = .ok)
    (h' : lookup (recv c t k a p sn now).1 a = some e') :
    e'.pv = p := by
  have hlk := lookup_recv_self c hv t k a p sn now hd hu
  have hres := recv_res c hv t k a p sn now hd hu
  simp only [selfOutcome, hlive] at hlk hres
  obtain ⟨_, _, h3⟩ := entryStep_some c hv e k p sn
  by_cases hdup : (entryStep c (some e) k p sn).2 = .dup
  · simp only [hdup, if_true] at hres; rw [hres] at hok; cases hok
  · simp only [hdup, if_false] at hlk
    rw [hlk] at h'
    obtain ⟨heq, _⟩ := keep_some h'
    cases heq
    obtain ⟨_, _, _, _, g4⟩ := h3 hdup
    rw [g4]; simp [hnew]

/-- all histories: while the entry of `a` lives, its PV is the newest (by real time) of the PV it started with and all
PVs of `a` accepted since – it is one of them and none of them is newer.  Hypotheses: every operation happens inside the
window `B` and not after `lim ≤ (initial PV time) + lifetime`; the timestamps of `a`'s packets lie in the window. -/
theorem newest_pv (c : Cfg) (hv : c.v = {}) (a : Addr) (B lim : Nat) (ops : List Op) (t : Table) (e : Entry)
    (hu : Uniq t) (hl : lookup t a = some e) (hh : e.hasPV = true) (hw : Win B e.pv.time)
    (hlim : lim ≤ e.pv.time + c.lifetimeMs) (hops : ∀ op ∈ ops, OpOK a B lim op) :
    ∃ e', lookup (ops.foldl (step c) t) a = some e' ∧
      (∀ q ∈ e.pv :: acceptedFrom c a t ops, q.time ≤ e'.pv.time) ∧ e'.pv ∈ e.pv :: acceptedFrom c a t ops := by
  obtain ⟨e', r1, _, _, r4, _, r6, r7⟩ := live_entry c hv a B ops t e lim hu hl hh hw hlim hops
  refine ⟨e', r1, ?_, ?_⟩
  · intro q hq
    cases List.mem_cons.1 hq with
    | inl h => rw [h]; exact r4
    | inr h => exact r6 q h
  · cases r7 with
    | inl h => rw [h]; exact List.mem_cons_self
    | inr h => exact List.mem_cons_of_mem _ h

/-! ## Presence: for the lifetime after the position timestamp, also with the sender's clock ahead -/

/-- a packet of a source that has no live entry creates one carrying the packet's PV, and the entry is there iff the
PV is at most `lifetime` old – in particular whenever the sender's timestamp is AHEAD of the receiver clock -/
theorem present_after_valid_packet (c : Cfg) (hv : c.v = {}) (t : Table) (hu : Uniq t) (k : Kind) (a : Addr)
    (p : PV) (sn now B : Nat) (hd : mid a ≠ mid c.self) (hnew : keep (fresh c now) (lookup t a) = none)
    (hp : Win B p.time) (hn : Win B now) :
    (recv c t k a p sn now).2 = .ok ∧
    ((∃ e', lookup (recv c t k a p sn now).1 a = some e' ∧ e'.pv = p ∧ e'.hasPV = true ∧
        e'.isNeighbour = k.singleHop) ↔ now ≤ p.time + c.lifetimeMs) := by
  have hlk := lookup_recv_self c hv t k a p sn now hd hu
  have hres := recv_res c hv t k a p sn now hd hu
  simp only [selfOutcome, hnew] at hlk hres
  obtain ⟨g0, g1, g2, _, g4⟩ := entryStep_none c hv k p sn
  have hnd : (entryStep c none k p sn).2 ≠ .dup := by rw [g0]; decide
  simp only [hnd, if_false] at hlk hres
  refine ⟨hres, ?_⟩
  have hfw := fresh_iff_window c hv B now (entryStep c none k p sn).1 g1 (by rw [g4]; exact hp) hn
  rw [g4] at hfw
  constructor
  · rintro ⟨e', h1, _⟩
    rw [hlk] at h1
    obtain ⟨heq, hf⟩ := keep_some h1
    cases heq
    exact hfw.1 hf
  · intro h
    rw [hlk, keep_of_true (hfw.2 h)]
    exact ⟨_, rfl, g4, g1, g2⟩

/-- sender clock ahead of the receiver clock (by less than 2^31 ms): the entry is created and kept -/
theorem present_when_sender_clock_ahead (c : Cfg) (hv : c.v = {}) (t : Table) (hu : Uniq t) (k : Kind) (a : Addr)
    (p : PV) (sn now : Nat) (hd : mid a ≠ mid c.self) (hnew : keep (fresh c now) (lookup t a) = none)
    (hahead : now ≤ p.time) (hskew : p.time < now + HALF) :
    ∃ e', lookup (recv c t k a p sn now).1 a = some e' ∧ e'.pv = p := by
  obtain ⟨_, h⟩ := present_after_valid_packet c hv t hu k a p sn now now hd hnew ⟨hahead, hskew⟩
    ⟨Nat.le_refl _, by simp [HALF]⟩
  obtain ⟨e', h1, h2, _⟩ := h.2 (by omega)
  exact ⟨e', h1, h2⟩

/-- all histories: an entry with PV time `T` stays in the table through every sequence of operations that happen not
later than `T + lifetime`, whatever packets of whatever sources are processed -/
theorem present_until_expiry (c : Cfg) (hv : c.v = {}) (a : Addr) (B : Nat) (ops : List Op) (t : Table) (e : Entry)
    (hu : Uniq t) (hl : lookup t a = some e) (hh : e.hasPV = true) (hw : Win B e.pv.time)
    (hops : ∀ op ∈ ops, OpOK a B (e.pv.time + c.lifetimeMs) op) :
    ∃ e', lookup (ops.foldl (step c) t) a = some e' ∧ e'.hasPV = true ∧ e.pv.time ≤ e'.pv.time := by
  obtain ⟨e', r1, r2, _, r4, _⟩ := live_entry c hv a B ops t e _ hu hl hh hw (Nat.le_refl _) hops
  exact ⟨e', r1, r2, r4⟩

/-- **all histories, lifetime counted from the NEWEST position vector**: `present_until_expiry` ties the limit to the
PV the entry starts with; here the limit moves.  `ChainOK c a B t T ops` says: every operation happens not later than
`lifetime` after the newest PV of `a` accepted BEFORE it (`T` = time of the PV the entry holds initially).  Then the
entry of `a` survives the whole history, keeps its neighbour flag, and the PV it holds at the end is the newest
accepted one (`latestTime`, ≥ the initial time) - so it remains for the configured lifetime after its LATEST position
timestamp, however often it is refreshed. -/
theorem present_until_latest_expiry (c : Cfg) (hv : c.v = {}) (a : Addr) (B : Nat) (ops : List Op) (t : Table)
    (e : Entry) (hu : Uniq t) (hl : lookup t a = some e) (hh : e.hasPV = true) (hw : Win B e.pv.time)
    (hops : ChainOK c a B t e.pv.time ops) :
    ∃ e', lookup (ops.foldl (step c) t) a = some e' ∧ e'.hasPV = true ∧
      (e.isNeighbour = true → e'.isNeighbour = true) ∧
      e'.pv.time = latestTime c a t e.pv.time ops ∧ e.pv.time ≤ e'.pv.time := by
  obtain ⟨e', r1, r2, r3, r4, _⟩ := live_chain c hv a B ops t e hu hl hh hw hops
  exact ⟨e', r1, r2, r3, r4, by rw [r4]; exact latestTime_ge c a ops t e.pv.time⟩

/-- the chained condition is implied by the fixed-limit one (so this theorem subsumes `present_until_expiry`) -/
theorem chain_of_fixed_limit (c : Cfg) (a : Addr) (B : Nat) :
    ∀ (ops : List Op) (t : Table) (T : Nat), (∀ op ∈ ops, OpOK a B (T + c.lifetimeMs) op) → ChainOK c a B t T ops := by
  intro ops
  induction ops with
  | nil => intro _ _ _; trivial
  | cons op r ih =>
    intro t T h
    refine ⟨h op (by simp), ?_⟩
    have hge := accTime_ge c a t op T
    apply ih
    intro o ho
    have := h o (by simp [ho])
    cases o with
    | pkt k b p sn now => exact ⟨this.1, by have := this.2.1; omega, this.2.2⟩
    | refresh now => exact ⟨this.1, by have := this.2; omega⟩
    | tick now => trivial
    | ensure b => trivial

/-- non-vacuity and the point of chaining: SHB stamped 100 000, refreshed by an SHB stamped 115 000; at 134 000 - past
the FIRST stamp + 20 s, within the LATEST + 20 s - purges and foreign packets still leave the entry (and the neighbour
flag) in place; at 135 001 a purge removes it -/
example :
    let c : Cfg := { self := 1, lifetimeMs := 20000, dplLen := 8 }
    let t0 := run c [.pkt .shb 5 { time := 100000, lat := 1 } 0 100000]
    let ops := [Op.pkt .shb 5 { time := 115000, lat := 2 } 0 115000, .refresh 134000, .pkt .tsb 6 { time := 134000 } 3 134000]
    ChainOK c 5 0 t0 100000 ops ∧ ¬ (∀ op ∈ ops, OpOK 5 0 (100000 + c.lifetimeMs) op) ∧
    latestTime c 5 t0 100000 ops = 115000 ∧
    (lookup (ops.foldl (step c) t0) 5).map (fun e => (e.pv.time, e.isNeighbour)) = some (115000, true) ∧
    lookup ((ops ++ [Op.refresh 135001]).foldl (step c) t0) 5 = none := by
  refine ⟨?_, ?_, by decide, by decide, by decide⟩
  · simp only [ChainOK, OpOK, Win, HALF]; decide
  · intro h
    have := h (Op.refresh 134000) (by simp)
    simp [OpOK] at this

/-- after any reception that reaches the location table (accepted or duplicate) at clock `now`, and after any explicit
purge, the table holds no entry whose PV is older than the lifetime (and no placeholder without pending LS) -/
theorem no_expired_entry_after_reception (c : Cfg) (hv : c.v = {}) (t : Table) (hu : Uniq t) (k : Kind) (a : Addr)
    (p : PV) (sn now : Nat) (hd : mid a ≠ mid c.self) (b : Addr) (e : Entry)
    (h : lookup (recv c t k a p sn now).1 b = some e) : fresh c now e = true := by
  by_cases hb : b = a
  · subst hb
    have hlk := lookup_recv_self c hv t k b p sn now hd hu
    rw [hlk] at h
    split at h <;> exact (keep_some h).2
  · rw [lookup_recv_ne c hv t k a b p sn now hd hb hu] at h
    exact (keep_some h).2

/-- real-time reading of `fresh`: with eager expiry (`getEntryEager`, the `fixed` variant of known finding C08-KF1) an
entry is visible exactly until `PV time + lifetime` -/
theorem gone_after_lifetime (c : Cfg) (hv : c.v = {}) (t : Table) (hu : Uniq t) (a : Addr) (e : Entry) (B now : Nat)
    (hl : lookup t a = some e) (hh : e.hasPV = true) (hw : Win B e.pv.time) (hn : Win B now) :
    (getEntryEager c t a now = some e ↔ now ≤ e.pv.time + c.lifetimeMs) ∧
    (getEntryEager c t a now = none ↔ e.pv.time + c.lifetimeMs < now) := by
  have hf := fresh_iff_window c hv B now e hh hw hn
  simp only [getEntryEager, lookup_refresh c t now a hu, hl, keep]
  cases h : fresh c now e with
  | true =>
    have := hf.1 h
    simp
    omega
  | false =>
    have : ¬ now ≤ e.pv.time + c.lifetimeMs := fun g => by rw [hf.2 g] at h; cases h
    simp
    omega

/-- the code as it is (lazy expiry): outside the known region – i.e. right after any reception or purge at `now` –
every entry with a PV satisfies `now ≤ PV time + lifetime` -/
theorem gone_after_lifetime_partial (c : Cfg) (hv : c.v = {}) (t : Table) (hu : Uniq t) (k : Kind) (a : Addr)
    (p : PV) (sn now B : Nat) (hd : mid a ≠ mid c.self) (b : Addr) (e : Entry)
    (h : getEntry (recv c t k a p sn now).1 b = some e) (hh : e.hasPV = true) (hw : Win B e.pv.time) (hn : Win B now) :
    now ≤ e.pv.time + c.lifetimeMs :=
  (fresh_iff_window c hv B now e hh hw hn).1 (no_expired_entry_after_reception c hv t hu k a p sn now hd b e h)

/-- known finding C08-KF1: `get_entry` after a pure clock advance still returns the expired entry -/
theorem gone_after_lifetime_witness :
    let c : Cfg := { self := 1, lifetimeMs := 20000, dplLen := 8 }
    let t := run c [.pkt .shb 5 { time := 100000 } 0 100000, .tick 120001]
    (getEntry t 5).isSome = true ∧ getEntryEager c t 5 120001 = none := by decide

/-! ## Neighbour flag -/

/-- a processed beacon / SHB makes the source a neighbour (if its PV is not already expired) -/
theorem neighbour_after_single_hop (c : Cfg) (hv : c.v = {}) (t : Table) (hu : Uniq t) (k : Kind) (a : Addr)
    (p : PV) (sn now : Nat) (e' : Entry) (hd : mid a ≠ mid c.self) (hk : k.singleHop = true)
    (h : lookup (recv c t k a p sn now).1 a = some e') : e'.isNeighbour = true := by
  have hlk := lookup_recv_self c hv t k a p sn now hd hu
  rw [hlk] at h
  cases hold : keep (fresh c now) (lookup t a) with
  | none =>
    simp only [selfOutcome, hold] at h
    obtain ⟨g0, _, g2, _⟩ := entryStep_none c hv k p sn
    have hnd : (entryStep c none k p sn).2 ≠ .dup := by rw [g0]; decide
    simp only [hnd, if_false] at h
    obtain ⟨heq, _⟩ := keep_some h
    cases heq; rw [g2, hk]
  | some e =>
    simp only [selfOutcome, hold] at h
    obtain ⟨h1, _, h3⟩ := entryStep_some c hv e k p sn
    have hnd : (entryStep c (some e) k p sn).2 ≠ .dup := by
      intro hdup; have := (h1.1 hdup).1; rw [hk] at this; cases this
    simp only [hnd, if_false] at h
    obtain ⟨heq, _⟩ := keep_some h
    cases heq
    obtain ⟨_, _, g2, _⟩ := h3 hnd
    rw [g2, hk]; rfl

/-- all histories: a neighbour stays a neighbour until its entry expires, whatever multi-hop packets (of itself or of
others), purges and Location Service placeholders intervene -/
theorem neighbour_until_expiry (c : Cfg) (hv : c.v = {}) (a : Addr) (B : Nat) (ops : List Op) (t : Table) (e : Entry)
    (hu : Uniq t) (hl : lookup t a = some e) (hh : e.hasPV = true) (hnb : e.isNeighbour = true)
    (hw : Win B e.pv.time) (hops : ∀ op ∈ ops, OpOK a B (e.pv.time + c.lifetimeMs) op) :
    ∃ e', lookup (ops.foldl (step c) t) a = some e' ∧ e'.isNeighbour = true ∧ a ∈ neighbours (ops.foldl (step c) t) := by
  obtain ⟨e', r1, _, r3, _⟩ := live_entry c hv a B ops t e _ hu hl hh hw (Nat.le_refl _) hops
  refine ⟨e', r1, r3 hnb, ?_⟩
  have : ∀ (t : Table), lookup t a = some e' → a ∈ neighbours t := by
    intro t
    induction t with
    | nil => simp [lookup]
    | cons x r ih =>
      obtain ⟨k, v⟩ := x
      by_cases hk : k = a
      · intro h; simp only [lookup, hk, if_true] at h; cases h
        simp [neighbours, List.filter, r3 hnb, hk]
      · intro h; simp only [lookup, hk, if_false] at h
        have := ih h
        simp only [neighbours, List.filter] at this ⊢
        split <;> simp_all
  exact this _ r1

/-- all histories: a source known only through multi-hop packets (and LS placeholders) is not a neighbour -/
theorem multihop_only_not_neighbour (c : Cfg) (hv : c.v = {}) (a : Addr) (ops : List Op)
    (hno : ∀ op ∈ ops, match op with | .pkt k b _ _ _ => ¬ (b = a ∧ k.singleHop = true) | _ => True) :
    ∀ e, lookup (run c ops) a = some e → e.isNeighbour = false := by
  refine run_invariant c (fun t => ∀ e, lookup t a = some e → e.isNeighbour = false) ops
    (fun op => match op with | .pkt k b _ _ _ => ¬ (b = a ∧ k.singleHop = true) | _ => True) (by simp [lookup]) ?_ hno
  intro t op hu hp hq e hl
  cases op with
  | tick now => exact hp e hl
  | refresh now =>
    simp only [step, lookup_refresh c t now a hu] at hl
    exact hp e (keep_some hl).1
  | ensure b =>
    by_cases hb : b = a
    · subst hb
      simp only [step, ensure] at hl
      split at hl
      next e0 h0 => rw [lookup_insert_self] at hl; cases hl; exact hp e0 h0
      next => rw [lookup_insert_self] at hl; cases hl; rfl
    · have : lookup (step c t (.ensure b)) a = lookup t a := by
        simp only [step, ensure]; split <;> exact lookup_insert_ne _ _ _ _ (Ne.symm hb)
      exact hp e (this ▸ hl)
  | pkt k b p sn now =>
    by_cases hd : mid b = mid c.self
    · simp only [step, recv_dad c t k b p sn now hd] at hl; exact hp e hl
    · by_cases hb : b = a
      · subst hb
        have hk : k.singleHop = false := by
          cases h : k.singleHop with
          | false => rfl
          | true => exact absurd ⟨rfl, h⟩ hq
        simp only [step, lookup_recv_self c hv t k b p sn now hd hu, selfOutcome] at hl
        cases hold : keep (fresh c now) (lookup t b) with
        | none =>
          simp only [hold] at hl
          obtain ⟨g0, _, g2, _⟩ := entryStep_none c hv k p sn
          have hnd : (entryStep c none k p sn).2 ≠ .dup := by rw [g0]; decide
          simp only [hnd, if_false] at hl
          obtain ⟨heq, _⟩ := keep_some hl
          cases heq; rw [g2, hk]
        | some e0 =>
          have he0 := hp e0 (keep_some hold).1
          simp only [hold] at hl
          obtain ⟨_, h2, h3⟩ := entryStep_some c hv e0 k p sn
          by_cases hdup : (entryStep c (some e0) k p sn).2 = .dup
          · simp only [hdup, if_true] at hl; cases hl; exact he0
          · simp only [hdup, if_false] at hl
            obtain ⟨heq, _⟩ := keep_some hl
            cases heq
            obtain ⟨_, _, g2, _⟩ := h3 hdup
            rw [g2, hk, he0]; rfl
      · simp only [step, lookup_recv_ne c hv t k b a p sn now hd (Ne.symm hb) hu] at hl
        exact hp e (keep_some hl).1

/-- non-vacuity of the history theorems: SHB, then TSB/GBC of the same source and a foreign GUC, 19 s later -/
example :
    let c : Cfg := { self := 1, lifetimeMs := 20000, dplLen := 8 }
    let t := run c [.pkt .shb 5 { time := 100000, lat := 1 } 0 100000, .pkt .gbc 5 { time := 100500, lat := 2 } 7 100600,
      .pkt .guc 6 { time := 119000 } 1 119000, .pkt .tsb 5 { time := 100400, lat := 3 } 8 119500]
    (lookup t 5).map (fun e => (e.pv.time, e.pv.lat, e.isNeighbour)) = some (100500, 2, true) ∧ neighbours t = [5] := by
  decide

/-! ## Well-formed configuration: duplicate packet list length, address keying (facts regenerated from the source) -/

/-- the MIB default of `itsGnDPLLength` (regenerated from mib.py on every run) is a well-formed ring length; with
`L = 0` Python's `deque(maxlen=0)` makes `check_duplicate_sn` raise IndexError on every multi-hop reception -/
theorem dplLen_default_wf :
    (0 < Generated.Mib.itsGnDPLLength) ∧ dplPushE 0 [] 7 = .error .indexError ∧
    (dplPush 0 (dplPush 0 [] 1) 2).length = 2 := ⟨by decide, rfl, by decide⟩

/-- for a well-formed length the model's ring IS the Python branch (no error), and it never exceeds the deque's
`maxlen` -/
theorem dpl_ring_wf (L : Nat) (h : 0 < L) (d : List Nat) (sn : Nat) (hd : d.length ≤ L) :
    dplPushE L d sn = .ok (dplPush L d sn) ∧ (dplPush L d sn).length ≤ L :=
  ⟨dplPushE_wf L h d sn, dplPush_length_le L h d sn hd⟩

/-- all histories, well-formed configuration: no entry ever holds more than `itsGnDPLLength` sequence numbers
(the model's list never outgrows the code's `deque(maxlen=L)`) -/
theorem dpl_bounded (c : Cfg) (hv : c.v = {}) (hwf : c.WF) (ops : List Op) :
    ∀ b e, lookup (run c ops) b = some e → e.dpl.length ≤ c.dplLen :=
  run_invariant c (DplBounded c) ops (fun _ => True) (by intro b e h; simp [lookup] at h)
    (fun t op hu hp _ => dplBounded_step c hv hwf t op hu hp) (fun _ _ => trivial)

/-- non-vacuity: the default configuration is well-formed, and a ring of length 2 after three accepted numbers -/
example : ({ self := 1, lifetimeMs := 20000, dplLen := Generated.Mib.itsGnDPLLength } : Cfg).WF ∧
    (lookup (run { self := 1, lifetimeMs := 20000, dplLen := 2 }
      [.pkt .tsb 5 { time := 1000 } 1 1000, .pkt .tsb 5 { time := 1001 } 2 1001, .pkt .gbc 5 { time := 1002 } 3 1002]) 5).map (·.dpl)
      = some [2, 3] := by decide

/-- `GNAddress` as a dict key (facts read from gn_address.py by `harness/gen_loct.py` on every run): frozen dataclass
with the default `eq=True`, no explicit `__hash__`, hence a generated hash over ALL fields (m, st, mid), while the
hand-written `__eq__` compares `mid` only; probed on the running code: the hash equals the field-tuple hash, the same
address is found again, and addresses that differ in M or ST only - although `==` - occupy different slots.  This is
what the model's table keyed by the full address, with DAD comparing `mid` only, assumes (up to 64-bit hash
collisions). -/
theorem gnaddress_keying_facts :
    Generated.GnAddrKey.frozen = true ∧ Generated.GnAddrKey.dataclassEq = true ∧
    Generated.GnAddrKey.explicitHash = false ∧ Generated.GnAddrKey.hashFields = ["m", "st", "mid"] ∧
    Generated.GnAddrKey.eqAttrs = ["mid"] ∧ Generated.GnAddrKey.probeHashIsFieldTupleHash = true ∧
    Generated.GnAddrKey.probeSameAddressSameSlot = true ∧ Generated.GnAddrKey.probeSameMidOtherFieldsDistinctSlots = true ∧
    Generated.GnAddrKey.probeEqIsMidOnly = true := by decide

/-- the model side of the same facts: two addresses with the same MID and different M/ST bits are different keys
(an insertion under one leaves the other alone) and the same station for DAD -/
theorem model_keys_by_full_address (t : Table) (a b : Addr) (e : Entry) (hne : a ≠ b) :
    lookup (insert t a e) b = lookup t b ∧ lookup (insert t a e) a = some e :=
  ⟨lookup_insert_ne t a b e (Ne.symm hne), lookup_insert_self t a e⟩

example : mid (5 + 281474976710656) = mid 5 ∧ (5 + 281474976710656 : Nat) ≠ 5 := by decide

/-! ## Concurrent receptions (round 4): the clause "after a station processes a valid packet from S, S is present …
and counts as a neighbour" under EVERY interleaving with other threads' location-table sections

`LocTConc`: `new_<kind>_packet` = purge section, ONE `loc_t_lock` section with get-or-create and entry update
(`core`), purge section; the environment = any merge of such sections of any number of other threads
(`refresh_table`, receptions of any source incl. further packets of S, LS placeholders).  Which shape the source has
is regenerated from /repo on every run (`Generated.Locks`, harness/gen_locks.py; `gen_loct.py` re-runs that generator
for C08). -/

open FlexModel.Geo.LocTConc in
/-- **the seven `LocationTable.new_*_packet` functions update the LocTE inside the `loc_t_lock` section that creates
it, and `refresh_table` is one section** (regenerated section shapes and call sites, `decide`d): moving an entry
update out of the section again (seeded change C08-m4) re-opens this obligation and, through it,
`first_single_hop_present_every_schedule`. -/
theorem new_packet_updates_inside_creation_section : srcLocked = true := by decide +kernel

open FlexModel.Geo.LocTConc in
/-- **all schedules**: a station processes a single-hop packet (beacon / SHB) of `a` whose position vector `p` is not
older than the lifetime (`now ≤ lim ≤ p.time + lifetime`), with the code shape of the source (`srcLocked`).  Whatever
the table held before (any PV of `a` in the window), however the three sections of the reception are interleaved (`m`)
with ANY sequence `env` of sections of other threads that happen not later than `lim` - purges, receptions of other
sources and of `a` itself, LS placeholders - afterwards `a` is in the table with a position vector at least as new as
`p` and is a neighbour. -/
theorem first_single_hop_present_every_schedule (c : Cfg) (hv : c.v = {}) (k : Kind) (hk : k.singleHop = true)
    (a : Addr) (p : PV) (sn now B lim : Nat) (hp : Win B p.time) (hlim : lim ≤ p.time + c.lifetimeMs)
    (hnow : Win B now) (hnl : now ≤ lim) (s0 : CS) (hu : Uniq s0.t) (hi : SrcInv a B s0.t)
    (env m : List Blk) (henv : ∀ b ∈ env, EnvOK a B lim b)
    (hm : Interleave (rxBlocks srcLocked k a p sn now) env m) :
    ∃ e, lookup (crun c s0 m).t a = some e ∧ e.hasPV = true ∧ e.isNeighbour = true ∧ p.time ≤ e.pv.time := by
  rw [new_packet_updates_inside_creation_section] at hm
  simp only [rxBlocks, if_true] at hm
  obtain ⟨e0, e1, e2, e3, h1, h2⟩ := interleave_three hm
  subst h1 h2
  have hall : ∀ (l : List Blk), (∀ b ∈ l, b ∈ e0 ++ e1 ++ e2 ++ e3) → ∀ b ∈ l, EnvOK a B lim b :=
    fun l hl b hb => henv b (hl b hb)
  obtain ⟨e, g1, g2, g3, g4, _⟩ := locked_segments c hv k hk a p sn now B lim hp hlim hnow hnl s0 hu hi e0 e1 e2 e3
    (hall e0 (by intro b hb; simp [hb])) (hall e1 (by intro b hb; simp [hb])) (hall e2 (by intro b hb; simp [hb]))
    (hall e3 (by intro b hb; simp [hb]))
  exact ⟨e, g1, g2, g3, g4⟩

open FlexModel.Geo.LocTConc in
/-- non-vacuity: cold source 5, beacon stamped 100 000 received at 100 040, lifetime 20 s; another thread purges
between every two sections of the reception and receives a TSB of station 6: hypotheses hold, 5 is a neighbour -/
example :
    let c : Cfg := { self := 1, lifetimeMs := 20000, dplLen := 8 }
    let m : List Blk := [.refresh 100040, .refresh 100041, .core .beacon 5 { time := 100000 } 0, .refresh 100042,
      .core .tsb 6 { time := 100010 } 3, .refresh 100040, .refresh 120000]
    Interleave (rxBlocks srcLocked .beacon 5 { time := 100000 } 0 100040)
      [.refresh 100041, .refresh 100042, .core .tsb 6 { time := 100010 } 3, .refresh 120000] m ∧
    neighbours (crun c {} m).t = [5] := by
  refine ⟨?_, by decide⟩
  rw [new_packet_updates_inside_creation_section]
  exact .left (.right (.left (.right (.right (.left (.right .nil))))))

open FlexModel.Geo.LocTConc in
/-- **the old shape / seeded change C08-m4** (entry update outside the section): ONE purge of another thread between
the creation of the LocTE and its first position vector drops the PV-less entry; the thread then updates an orphan.
After a valid beacon of 5 has been processed, 5 is neither in the table nor a neighbour - while every schedule of the
repaired shape keeps it (theorem above), and the same blocks without the foreign purge keep it too. -/
theorem first_beacon_lost_unlocked_witness :
    let c : Cfg := { self := 1, lifetimeMs := 20000, dplLen := 8 }
    let rx := rxBlocks false .beacon 5 { time := 100000 } 0 100040
    rx = [.refresh 100040, .create 5, .updateHeld .beacon 5 { time := 100000 } 0, .refresh 100040] ∧
    -- schedule: purge, create ‖ foreign purge ‖ update, purge
    lookup (crun c {} [.refresh 100040, .create 5, .refresh 100040, .updateHeld .beacon 5 { time := 100000 } 0,
      .refresh 100040]).t 5 = none ∧
    neighbours (crun c {} [.refresh 100040, .create 5, .refresh 100040, .updateHeld .beacon 5 { time := 100000 } 0,
      .refresh 100040]).t = [] ∧
    -- without pre-emption the old shape is fine
    neighbours (crun c {} rx).t = [5] := by decide

/-! ## The defects repaired by fixes/C08-* (old behaviour as `Variant` switches) -/

/-- before `C08-refresh-ms-clock`: a beacon stamped with the receiver's own current millisecond was purged at once -/
theorem refresh_old_witness :
    let old : Cfg := { self := 1, lifetimeMs := 20000, dplLen := 8, v := { msClock := false } }
    let new : Cfg := { self := 1, lifetimeMs := 20000, dplLen := 8 }
    lookup (run old [.pkt .beacon 5 { time := 100500 } 0 100500]) 5 = none ∧
    (lookup (run new [.pkt .beacon 5 { time := 100500 } 0 100500]) 5).isSome = true := by decide

/-- before `C08-gbc-neighbour`: any GBC of a neighbour cleared its neighbour flag -/
theorem gbc_old_witness :
    let old : Cfg := { self := 1, lifetimeMs := 20000, dplLen := 8, v := { gbcKeepsNb := false } }
    neighbours (run old [.pkt .shb 5 { time := 100000 } 0 100000, .pkt .gbc 5 { time := 100100 } 3 100200]) = [] := by
  decide

/-- before `C08-tst-zero`: a stored PV with the genuine timestamp 0 was replaced by an OLDER one -/
theorem tst_zero_old_witness :
    let old : Cfg := { self := 1, lifetimeMs := 20000, dplLen := 8, v := { pvFlag := false } }
    let ops := [Op.pkt .beacon 5 { time := 4294967296, lat := 1 } 0 4294967200, .pkt .beacon 5 { time := 4294967135, lat := 2 } 0 4294967250]
    (lookup (run old ops) 5).map (·.pv.lat) = some 2 ∧
    (lookup (run { old with v := {} } ops) 5).map (·.pv.lat) = some 1 := by decide

/-- before `C08-purge-before-update`: an expired entry was revived with its stale neighbour flag -/
theorem revive_old_witness :
    let old : Cfg := { self := 1, lifetimeMs := 20000, dplLen := 8, v := { prePurge := false } }
    let ops := [Op.pkt .shb 5 { time := 100000 } 0 100000, .pkt .tsb 5 { time := 130000 } 1 130000]
    neighbours (run old ops) = [5] ∧ neighbours (run { old with v := {} } ops) = [] := by decide

end Props.C08

/-
C16 — LDM operations are atomic under concurrent providers, consumers and maintenance.
Property theorems only.  Model: `FlexModel/Conc/Sched.lean`, `FlexModel/Conc/LdmConc.lean` (tied to the source by
`Generated/Locks.lean`); helper lemmas in `FlexModel/Conc/LdmLemmas.lean`.
Every theorem quantifies over ALL thread lists (any number of threads and operations) and ALL schedules.
-/
import FlexModel.Conc.LdmLemmas

namespace Props.C16
open FlexModel.Conc FlexModel.Conc.Ldm

abbrev final (threads : List (List Op)) (sched : List ThreadId) : LSt := (run (sys threads) sched).sh

theorem anyUpd (threads : List (List Op)) : ∀ ops ∈ threads, ∀ op ∈ ops, op.isPlainUpd = true → true = true :=
  fun _ _ _ _ _ => rfl

/-! ## single-block operations are linearisable -/

/-- the state reached under any schedule is the sequential composition of the executed blocks, in execution order:
every operation that consists of one block (each DictionaryDataBase method, each registry / subscription section)
takes effect atomically at that block -/
theorem single_block_ops_linearizable (threads : List (List Op)) (sched : List ThreadId) :
    final threads sched = applyAll (trace (sys threads) sched) {} :=
  run_eq_trace (sys threads) sched

/-- … and the execution order is an interleaving of the threads' program orders -/
theorem linearisation_order (threads : List (List Op)) (sched : List ThreadId) (u : ThreadId) :
    tracedBy u (trace (sys threads) sched) ++ blocksOf (progOf (run (sys threads) sched) u)
      = blocksOf (progOf (sys threads) u) :=
  trace_thread_order (sys threads) sched u

/-- the source has exactly that structure: every database method is one section of the database lock, every
registry / subscription section one section of the service lock, and all accesses are inside them -/
theorem source_single_blocks :
    Generated.Locks.allUnder .DictionaryDataBase_database .DictionaryDataBase__lock = true ∧
    Generated.Locks.allUnder .DictionaryDataBase__next_id .DictionaryDataBase__lock = true ∧
    Generated.Locks.allUnder .LDMService_data_provider_its_aid .LDMService__lock = true ∧
    Generated.Locks.allUnder .LDMService_data_consumer_its_aid .LDMService__lock = true ∧
    Generated.Locks.allUnder .LDMService_subscriptions .LDMService__lock = true ∧
    Generated.Locks.allUnder .LDMService_last_checked_subscriptions_time .LDMService__lock = true := guarded_ldm

/-! ## identifiers, adds -/

/-- identifiers handed out by `insert` are consecutive: the k-th newest is `count - 1 - k` -/
theorem ids_consecutive (threads : List (List Op)) (sched : List ThreadId) (i : Nat)
    (hi : i < (final threads sched).insLog.length) :
    (final threads sched).insLog[i]? = some ((final threads sched).insLog.length - 1 - i) :=
  (ldm_inv true IdInv threads (anyUpd threads) (by simp [IdInv]) (IdInv_blk true) sched).2 i hi

/-- identifiers are unique -/
theorem ids_unique (threads : List (List Op)) (sched : List ThreadId) (i j : Nat) (hij : i < j)
    (hj : j < (final threads sched).insLog.length) :
    (final threads sched).insLog[i]? ≠ (final threads sched).insLog[j]? := by
  rw [ids_consecutive threads sched i (by omega), ids_consecutive threads sched j hj]
  intro h
  simp only [Option.some.injEq] at h
  omega

/-- conservation of rows under every interleaving (all variants): rows present + removed + overwritten =
inserted + rows (re-)created by an update of an absent id -/
theorem store_conservation (threads : List (List Op)) (sched : List ThreadId) :
    let s := final threads sched
    s.db.length + s.removed + s.overwritten = s.inserted + s.revived :=
  ldm_inv true StoreInv threads (anyUpd threads) rfl (StoreInv_blk true) sched

def noPlainUpd (threads : List (List Op)) : Prop := ∀ ops ∈ threads, ∀ op ∈ ops, op.isPlainUpd = false

/-- **No added object is lost or duplicated, none is resurrected** when updates go through LDMMaintenanceThread
(get + update under `data_containers_lock`) or no update runs: every row present was inserted and not removed, ids
in the store are allocated ids, nothing is overwritten or re-created -/
theorem no_lost_or_duplicated_add (threads : List (List Op)) (h : noPlainUpd threads) (sched : List ThreadId) :
    let s := final threads sched
    s.db.length + s.removed = s.inserted ∧ s.revived = 0 ∧ s.overwritten = 0 ∧ ∀ q ∈ s.db, q.1 < s.nextId := by
  have hp : ∀ ops ∈ threads, ∀ op ∈ ops, op.isPlainUpd = true → false = true := by
    intro ops ho op hop hh
    rw [h ops ho op hop] at hh
    cases hh
  obtain ⟨h1, h2, h3, h4⟩ := ldm_inv false StoreInvStrict threads hp (by simp [StoreInvStrict]) StoreInvStrict_blk sched
  exact ⟨h2, h3, h4, h1⟩

/-! ## queries -/

/-- a query (`all` / `search` block) returns exactly the rows present at its block instant -/
theorem query_snapshot (o : Nat) (s : LSt) : (dbAll o s).rows o = s.db ∧ (dbAll o s).db = s.db := by
  simp [dbAll]

/-! ## registrations and subscriptions -/

/-- a provider registration changes only through a registration / deregistration block of that very application -/
theorem registration_only_by_its_blocks (p : Bool) (f : LSt → LSt) (hf : Blk p f) (s : LSt) (a : Nat)
    (hne : (f s).prov a ≠ s.prov a) :
    ∃ slots : List (Nat × Nat × Nat), ∃ g, (g = provAdd a ∨ g = provDel a) ∧
      f = slots.foldr (fun t h => whenReg t.1 t.2.1 t.2.2 h) g := by
  induction hf with
  | provAdd a' =>
    by_cases h : a = a'
    · subst h; exact ⟨[], provAdd a, Or.inl rfl, rfl⟩
    · simp [provAdd, FlexModel.Conc.Ldm.upd, h] at hne
  | provDel a' =>
    by_cases h : a = a'
    · subst h; exact ⟨[], provDel a, Or.inr rfl, rfl⟩
    · simp [provDel, FlexModel.Conc.Ldm.upd, h] at hne
  | whenReg o slot v f' _ ih =>
    unfold whenReg at hne
    split at hne
    · obtain ⟨slots, g, hg, hfg⟩ := ih hne
      exact ⟨(o, slot, v) :: slots, g, hg, by simp [hfg]⟩
    · exact absurd rfl hne
  | dbInsert o v => simp [dbInsert] at hne
  | dbExists o i => simp [dbExists] at hne
  | dbGet o i slot => simp [dbGet] at hne
  | dbUpdate o i v _ => simp [dbUpdate] at hne
  | dbUpdateIfPresent o i v => unfold dbUpdateIfPresent at hne; split at hne <;> simp at hne
  | dbRemoveId o i => unfold dbRemoveId at hne; split at hne <;> simp at hne
  | gcRemove o => unfold gcRemove dbRemoveVal at hne; split at hne <;> simp at hne
  | dbAll o => simp [dbAll] at hne
  | provHas o a' => simp [provHas] at hne
  | consAdd a' => simp [consAdd] at hne
  | consDel a' => simp [consDel] at hne
  | consDelCollect o a' => simp [consDelCollect] at hne
  | consHas o a' => simp [consHas] at hne
  | consHasReg o => simp [consHas] at hne
  | subAdd sid => simp [subAdd] at hne
  | subsCopy o => simp [subsCopy] at hne
  | subRemove sid => unfold subRemove at hne; split at hne <;> simp at hne
  | subRemoveReg o => simp only [subRemove] at hne; split at hne <;> simp at hne
  | lastChkReg o => simp [lastChkSection] at hne
  | setResp o g => simp [setResp] at hne
  | gcPick o => unfold gcPick at hne; split at hne <;> simp at hne
  | subPick o => unfold subPick at hne; split at hne <;> simp at hne
  | removePick o => unfold removePick at hne; split at hne <;> simp at hne
  | markRemove o => simp [markRemove] at hne
  | callback o => simp [callback] at hne
  | unsubFind o sid => simp [unsubFind] at hne

/-- subscriptions are neither lost nor duplicated nor resurrected: stored = added − removed, under every schedule -/
theorem subscriptions_conserved (threads : List (List Op)) (sched : List ThreadId) :
    (final threads sched).subs.length + (final threads sched).subRemoved = (final threads sched).subAdded :=
  ldm_inv true SubInv threads (anyUpd threads) rfl (SubInv_blk true) sched

/-! ## multi-block operations -/

/-- known finding C16-KF1 (check-then-act in update_provider_data, plain / reactive maintenance): IF.LDM.3 update of
row 0 racing with IF.LDM.3 delete of row 0 – both report success and the row is back in the store … -/
theorem multi_block_explained_witness :
    let s := final [[.regP 1, .add 1 1 6], [.upd 2 0 4], [.del 3 0]]
      (List.replicate 9 0 ++ List.replicate 9 1 ++ List.replicate 7 2 ++ List.replicate 6 1)
    s.resp 2 = [0] ∧ s.resp 3 = [1] ∧ s.db = [(0, 8)] ∧ s.revived = 1 := by decide +kernel

/-- … which neither sequential order of the two operations produces (update then delete: row gone; delete then update:
update answers "unknown id") -/
theorem multi_block_explained_witness_not_sequential :
    let ud := final [[.regP 1, .add 1 1 6, .upd 2 0 4, .del 3 0]] (List.replicate 40 0)
    let du := final [[.regP 1, .add 1 1 6, .del 3 0, .upd 2 0 4]] (List.replicate 40 0)
    (ud.resp 2 = [0] ∧ ud.resp 3 = [1] ∧ ud.db = []) ∧ (du.resp 2 = [1] ∧ du.resp 3 = [1] ∧ du.db = []) := by
  decide +kernel

/-- with LDMMaintenanceThread (get + update in one `data_containers_lock` section) no schedule re-creates a row:
the multi-block update is explained by the sequential order of its final block -/
theorem multi_block_explained_mt (threads : List (List Op)) (h : noPlainUpd threads) (sched : List ThreadId) :
    (final threads sched).revived = 0 :=
  (no_lost_or_duplicated_add threads h sched).2.1

example : (final [[.regP 1, .add 1 1 6], [.updMt 2 0 4], [.del 3 0]]
    (List.replicate 9 0 ++ List.replicate 9 1 ++ List.replicate 7 2 ++ List.replicate 9 1)).db = [] := by decide +kernel

/-! ## deadlock freedom, exceptions -/

theorem lock_order_acyclic :
    Generated.Locks.ranked lkRank = true ∧
      Generated.Locks.reentrantSelf.all (fun l => Generated.Locks.reentrant.contains l) = true :=
  ⟨order_ranked, reentrant_only⟩

theorem ldm_no_deadlock (threads : List (List Op)) (sched : List ThreadId) : ¬ Deadlock (run (sys threads) sched) :=
  FlexModel.Conc.no_deadlock rank (sys threads) (WF_sys threads) sched

/-- no block of the model raises: the only statements that could (`del database[key]` inside `remove`,
`subscriptions.remove(sub)`) are guarded by a membership test in the same lock section -/
theorem no_block_raises (threads : List (List Op)) (sched : List ThreadId) : (final threads sched).err = 0 := by
  refine ldm_inv true (fun s => s.err = 0) threads (anyUpd threads) rfl ?_ sched
  intro f hf
  induction hf with
  | whenReg o slot v f _ ih => exact whenReg_preserves _ o slot v f ih
  | dbUpdateIfPresent o i v => intro x h; unfold dbUpdateIfPresent; split <;> exact h
  | dbRemoveId o i => intro x h; unfold dbRemoveId; split <;> exact h
  | gcRemove o => intro x h; unfold gcRemove dbRemoveVal; split <;> exact h
  | subRemove sid => intro x h; unfold subRemove; split <;> exact h
  | subRemoveReg o => intro x h; simp only [subRemove]; split <;> exact h
  | gcPick o => intro x h; unfold gcPick; split <;> exact h
  | subPick o => intro x h; unfold subPick; split <;> exact h
  | removePick o => intro x h; unfold removePick; split <;> exact h
  | _ => intro x h; exact h

end Props.C16

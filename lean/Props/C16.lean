/-
C16 — LDM operations are atomic under concurrent providers, consumers and maintenance.
Property theorems only.  Model: `FlexModel/Conc/Sched.lean`, `FlexModel/Conc/LdmConc.lean` (tied to the source by
`Generated/Locks.lean`); helper lemmas in `FlexModel/Conc/LdmLemmas.lean`.
Every theorem quantifies over ALL thread lists (any number of threads and operations) and ALL schedules.
The instruction-level justification of "a lock section is one block" is in `Props/C16Reduction.lean`.
-/
import FlexModel.Conc.LdmLemmas
import FlexModel.Conc.LdmLinear

namespace Props.C16
open FlexModel.Conc FlexModel.Conc.Ldm

abbrev final (threads : List (List Op)) (sched : List ThreadId) : LSt := (run (sys threads) sched).sh

theorem anyUpd (threads : List (List Op)) : ∀ ops ∈ threads, ∀ op ∈ ops, op.isPlainUpd = true → true = true :=
  fun _ _ _ _ _ => rfl

/-! ## linearisability -/

/-- (model fact, true by construction of `Sched.step` – NOT the linearisability claim) the state reached under any
schedule is the composition of the executed BLOCKS in execution order … -/
theorem state_is_fold_of_blocks (threads : List (List Op)) (sched : List ThreadId) :
    final threads sched = applyAll (trace (sys threads) sched) {} :=
  run_eq_trace (sys threads) sched

/-- … and that order is an interleaving of the threads' block sequences (program order) -/
theorem block_order_is_program_order (threads : List (List Op)) (sched : List ThreadId) (u : ThreadId) :
    tracedBy u (trace (sys threads) sched) ++ blocksOf (progOf (run (sys threads) sched) u)
      = blocksOf (progOf (sys threads) u) :=
  trace_thread_order (sys threads) sched u

/-- **Linearisability of whole OPERATIONS** (each compiled to 2-3 blocks in 2 lock sections): register, deregister a
provider, add, request, subscribe (and the pre-C14 consumer deregistration).  For every thread list made of these
operations, in which operation ids are not shared between threads (`Owned`) and every application is registered,
deregistered and used by ONE thread (`AppOwned`: no (de)registration of an application overlaps an operation of that
application in another thread – the complement of known finding C16-KF2), and for EVERY schedule that finishes all
threads there is a sequential order `π` of the whole operations such that
 * `π` is a merge of the threads' operation lists (program order kept),
 * executing the operations of `π` one after the other, each atomically (`seqRun`), gives EXACTLY the final state of the
   concurrent run – all responses, query results, the store, identifiers, registries, subscriptions,
 * `π` is the order in which the operations' ACTION blocks (the store / registry / subscription block, `Txn.lp`) were
   executed (`commits`; see `linearisation_points`) – a block of the operation itself, executed between its
   invocation and its return; `operations_realtime_order`: `π` is consistent with real-time order.
Proof: `FlexModel/Conc/LdmSerial.lean` (`serialise`: the registration check is a right-mover, the response a left-mover,
two pending lists) and `LdmLinear.lean` (`commute_mk_bk`: 30 commutations). -/
theorem operations_linearizable (threads : List (List Op)) (hlin : LinOps threads)
    (owner ownerP ownerC : Nat → ThreadId) (ho : Owned owner threads) (ha : AppOwned ownerP ownerC threads)
    (sched : List ThreadId) (hfin : finished (run (sys threads) sched) = true) :
    ∃ π : List (ThreadId × Op),
      (∀ u, (π.filter (fun c => c.1 == u)).map (·.2) = (threads[u]?).getD []) ∧
      final threads sched = seqRun (π.map (·.2)) {} ∧
      π.map (fun p => (p.1, txnD p.2)) = Serial.commits (threads.map txns) (trace (sys threads) sched) :=
  ldm_linearizable threads hlin owner ownerP ownerC ho ha sched hfin

/-- **Linearisation points.**  Along the execution the linearisation order grows by at most one operation per executed
block, and when it grows the executed block IS the action block of the operation that enters (a block of that
operation, executed by its own thread): an operation that has returned is in the order, one that has not been invoked is
not – the order is consistent with real-time order. -/
theorem linearisation_points (threads : List (List Op)) (hlin : LinOps threads)
    (owner ownerP ownerC : Nat → ThreadId) (ho : Owned owner threads) (ha : AppOwned ownerP ownerC threads)
    (sched : List ThreadId) (hfin : finished (run (sys threads) sched) = true)
    (tr1 : List (Serial.Ev LSt)) (e : Serial.Ev LSt) (tr2 : List (Serial.Ev LSt))
    (hsplit : trace (sys threads) sched = tr1 ++ e :: tr2) :
    Serial.commits (threads.map txns) (tr1 ++ [e]) = Serial.commits (threads.map txns) tr1 ∨
    ∃ y, Serial.commits (threads.map txns) (tr1 ++ [e]) = Serial.commits (threads.map txns) tr1 ++ [(e.1, y)] ∧ e.2 = y.lp :=
  ldm_linearisation_points threads hlin owner ownerP ownerC ho ha sched hfin tr1 e tr2 hsplit

/-- **Real-time order.**  Split the schedule anywhere (`s1 ++ s2`).  The operations linearised by the end of `s1`
(`π1`) are a PREFIX of the final linearisation order; every operation of thread `u` that has RETURNED by the end of `s1`
(the number `r` of blocks `u` still has to execute is at most the number of blocks of its later operations) is in `π1`,
and every operation of `u` NOT YET INVOKED at the end of `s1` (all its blocks are still to be executed) is not.  Hence an
operation that returned before another one was invoked precedes it in the linearisation order. -/
theorem operations_realtime_order (threads : List (List Op)) (hlin : LinOps threads) (s1 s2 : List ThreadId)
    (hfin : finished (run (sys threads) (s1 ++ s2)) = true) (u : ThreadId) (ops : List Op) (hu : threads[u]? = some ops) :
    let π1 := Serial.commits (threads.map txns) (trace (sys threads) s1)
    let m := (π1.filter (fun c => c.1 == u)).length
    let r := (blocksOf (progOf (run (sys threads) s1) u)).length
    (∃ rest, Serial.commits (threads.map txns) (trace (sys threads) (s1 ++ s2)) = π1 ++ rest) ∧
    (∀ j, j < ops.length → r ≤ blocksAfter ops (j + 1) → j < m) ∧ (∀ j, j < ops.length → blocksAfter ops j ≤ r → m ≤ j) :=
  ldm_realtime threads hlin s1 s2 hfin u ops hu

-- non-vacuity: three threads (two providers with their own applications, a consumer), a schedule that interleaves the
-- registration checks and the actions of different operations, all hypotheses hold and the run finishes
def linDemo : List (List Op) :=
  [[.regP 1, .add 1 1 6, .add 2 1 8], [.regC 2, .qry 3 2, .sub 4 2 201], [.regP 3, .add 5 3 4, .deregP 6 3]]
example : LinOps linDemo := by
  intro ops hops op hop
  simp only [linDemo, List.mem_cons, List.not_mem_nil, or_false] at hops
  rcases hops with rfl | rfl | rfl <;> simp at hop <;> rcases hop with rfl | rfl | rfl <;> rfl
example : Owned (fun o => if o ≤ 2 then 0 else if o ≤ 4 then 1 else 2) linDemo := by
  intro t ops ht op hop o ho
  rcases t with _ | _ | _ | t <;> simp [linDemo] at ht <;> subst ht <;> simp at hop <;>
    rcases hop with rfl | rfl | rfl <;> simp [Op.ids] at ho <;> subst ho <;> rfl
example : AppOwned (fun a => if a = 1 then 0 else 2) (fun _ => 1) linDemo := by
  intro t ops ht op hop
  rcases t with _ | _ | _ | t <;> simp [linDemo] at ht <;> subst ht <;> simp at hop <;>
    rcases hop with rfl | rfl | rfl <;> simp [Op.pApp, Op.cApp]
example : finished (run (sys linDemo)
    ([0, 0, 0, 1, 1, 1, 2, 2, 2] ++ [0, 0, 0, 1, 1, 1, 2, 2, 2] ++ [0, 1, 2, 0, 1, 2, 0, 1, 2] ++ List.replicate 12 0 ++
      List.replicate 12 1 ++ List.replicate 12 2 ++ List.replicate 6 0)) = true := by decide +kernel
-- `seqRun` is what one thread executing the operations one after the other computes
example : (seqRun [.regP 1, .add 1 1 6, .regC 2, .qry 3 2] {}).rows 3 =
    (final [[.regP 1, .add 1 1 6, .regC 2, .qry 3 2]] (List.replicate 30 0)).rows 3 := by decide +kernel

/-- inside the excluded region (known finding C16-KF2): an `add` overlapping the deregistration of its provider by
ANOTHER thread.  The add passes its registration check, the deregistration completes, a request issued afterwards by
the deregistering thread sees an empty store – and then the add inserts … -/
def kf2Threads : List (List Op) := [[.regP 1, .add 1 1 4], [.regC 2, .deregP 2 1, .qry 3 2]]
theorem gate_check_then_act_witness :
    let s := final kf2Threads
      (List.replicate 3 0 ++ List.replicate 3 1 ++ List.replicate 3 0 ++ List.replicate 14 1 ++ List.replicate 3 0)
    s.resp 1 = [0] ∧ s.resp 2 = [1] ∧ s.resp 3 = [1] ∧ s.rows 3 = [] ∧ s.db = [(0, 4)] ∧ s.prov 1 = false := by
  decide +kernel

/-- … which none of the 10 sequential orders of the five operations (program order kept) produces: the add succeeds
(`resp 1 = [0]`) and the deregistration finds the provider (`resp 2 = [1]`) only if the add precedes the
deregistration – and then the request, which follows the deregistration in its thread, sees the object -/
theorem gate_check_then_act_not_sequential :
    let a1 := Op.regP 1; let a2 := Op.add 1 1 4; let b1 := Op.regC 2; let b2 := Op.deregP 2 1; let b3 := Op.qry 3 2
    ∀ π ∈ [[a1, a2, b1, b2, b3], [a1, b1, a2, b2, b3], [a1, b1, b2, a2, b3], [a1, b1, b2, b3, a2], [b1, a1, a2, b2, b3],
            [b1, a1, b2, a2, b3], [b1, a1, b2, b3, a2], [b1, b2, a1, a2, b3], [b1, b2, a1, b3, a2], [b1, b2, b3, a1, a2]],
      ¬ ((seqRun π {}).resp 1 = [0] ∧ (seqRun π {}).resp 2 = [1] ∧ (seqRun π {}).rows 3 = []) := by
  decide +kernel

/-- … and the hypothesis of `operations_linearizable` indeed fails there: application 1 is used by two threads -/
theorem gate_witness_outside_hypothesis : ¬ ∃ ownerP ownerC, AppOwned ownerP ownerC kf2Threads := by
  rintro ⟨ownerP, ownerC, h⟩
  have h0 := (h 0 [.regP 1, .add 1 1 4] rfl (.regP 1) (by simp)).1 1 rfl
  have h1 := (h 1 [.regC 2, .deregP 2 1, .qry 3 2] rfl (.deregP 2 1) (by simp)).1 1 rfl
  rw [h0] at h1
  cases h1

/-- the source has exactly that structure: every database method is one section of the database lock, every
registry / subscription section one section of the service lock, and all accesses are inside them -/
theorem source_single_blocks :
    Generated.Locks.allUnder .DictionaryDataBase_database .DictionaryDataBase__lock = true ∧
    Generated.Locks.allUnder .DictionaryDataBase__next_id .DictionaryDataBase__lock = true ∧
    Generated.Locks.allUnder .LDMService_data_provider_its_aid .LDMService__lock = true ∧
    Generated.Locks.allUnder .LDMService_data_consumer_its_aid .LDMService__lock = true ∧
    Generated.Locks.allUnder .LDMService_subscriptions .LDMService__lock = true ∧
    Generated.Locks.allUnder .LDMService_last_checked_subscriptions_time .LDMService__lock = true := guarded_ldm

/-- the block SEQUENCES of the multi-block operations are the synchronisation skeletons of the source (lock sections,
loops and lock-taking calls in source order, regenerated by harness/gen_ldm_shape.py): e.g. the attendance pass takes
its subscription snapshot first and reads the consumer registry INSIDE the loop, once per subscription, and
`attend_subscription` re-tests in a section of its own that the subscription is still stored before the notification
(fix C14-removed-subscription-not-notified); `search` runs
inside one database-lock section; LDMMaintenanceThread wraps every maintenance-level writer in its lock -/
theorem source_skeletons :
    Generated.LdmShape.skeleton_LDMService_attend_subscriptions =
      ["with _lock", "end", "loop", "call get_data_consumer_its_aid", "call attend_subscription", "endloop",
       "loop", "call remove_subscription", "endloop"] ∧
    Generated.LdmShape.skeleton_LDMService_attend_subscription =
      ["call search_data", "call order_search_results", "with _lock", "end", "call process_notifications"] ∧
    Generated.LdmShape.skeleton_InterfaceLDM3_update_provider_data =
      ["call exists", "call get_provider_data", "call update_provider_data"] ∧
    Generated.LdmShape.skeleton_LDMMaintenance_update_provider_data = ["call get", "call update"] ∧
    Generated.LdmShape.skeleton_InterfaceLDM3_delete_provider_data = ["call exists", "call del_provider_data_by_id"] ∧
    (Generated.Locks.calls .DictionaryDataBase_search).all (fun c => c.1 == [.DictionaryDataBase__lock]) = true :=
  ⟨skeletons.1, skeletons.2.1, skeletons.2.2.2.2.2.2.2.1, skeletons.2.2.2.2.2.2.2.2.1, skeletons.2.2.2.2.2.2.2.2.2.2.1, search_locked.1⟩

/-- no method stores into an object fetched from the data base (the in-memory back-end hands out the stored objects
themselves): a record changes only through an `update` block under the database lock, and an object already returned
to a consumer never changes -/
theorem source_no_inplace_mutation : Generated.LdmShape.inplace = [] := no_inplace_mutation

/-! ## identifiers, adds -/

/-- identifiers handed out by `insert` are consecutive: the k-th newest is `count - 1 - k` -/
theorem ids_consecutive (threads : List (List Op)) (sched : List ThreadId) (i : Nat)
    (hi : i < (final threads sched).insLog.length) :
    (final threads sched).insLog[i]? = some ((final threads sched).insLog.length - 1 - i) :=
  (ldm_inv true IdInv threads (anyUpd threads) (by simp [IdInv]) (IdInv_blk true) sched).2 i hi

/-- identifiers are unique -/
theorem ids_unique (threads : List (List Op)) (sched : List ThreadId) (i j : Nat) (hij : i < j)
    (hj : j < (final threads sched).insLog.length) :
    (final threads sched).insLog[i]? ≠ (final threads sched).insLog[j]? := by
  rw [ids_consecutive threads sched i (by omega), ids_consecutive threads sched j hj]
  intro h
  simp only [Option.some.injEq] at h
  omega

/-- conservation of rows under every interleaving (all variants): rows present + removed + overwritten =
inserted + rows (re-)created by an update of an absent id -/
theorem store_conservation (threads : List (List Op)) (sched : List ThreadId) :
    let s := final threads sched
    s.db.length + s.removed + s.overwritten = s.inserted + s.revived :=
  ldm_inv true StoreInv threads (anyUpd threads) rfl (StoreInv_blk true) sched

def noPlainUpd (threads : List (List Op)) : Prop := ∀ ops ∈ threads, ∀ op ∈ ops, op.isPlainUpd = false

/-- **No added object is lost or duplicated, none is resurrected** when updates go through LDMMaintenanceThread
(get + update under `data_containers_lock`) or no update runs: every row present was inserted and not removed, ids
in the store are allocated ids, nothing is overwritten or re-created -/
theorem no_lost_or_duplicated_add (threads : List (List Op)) (h : noPlainUpd threads) (sched : List ThreadId) :
    let s := final threads sched
    s.db.length + s.removed = s.inserted ∧ s.revived = 0 ∧ s.overwritten = 0 ∧ ∀ q ∈ s.db, q.1 < s.nextId := by
  have hp : ∀ ops ∈ threads, ∀ op ∈ ops, op.isPlainUpd = true → false = true := by
    intro ops ho op hop hh
    rw [h ops ho op hop] at hh
    cases hh
  obtain ⟨h1, h2, h3, h4⟩ := ldm_inv false StoreInvStrict threads hp (by simp [StoreInvStrict]) StoreInvStrict_blk sched
  exact ⟨h2, h3, h4, h1⟩

/-! ## queries -/

/-- (model fact, by definition of `dbAll`) a query block returns exactly the rows present at its instant and changes
nothing; what ties it to the code is `search_locked` / `blocks_db`: `all` and `search` are ONE database-lock section.
The interface-level statement is part of `operations_linearizable`: a request is one atomic step of the sequential
order, so its result is the store of one instant between its invocation and its return -/
theorem query_block_is_snapshot (o : Nat) (s : LSt) : (dbAll o s).rows o = s.db ∧ (dbAll o s).db = s.db := by
  simp [dbAll]

/-! ## registrations and subscriptions -/

/-- a provider registration changes only through a registration / deregistration block of that very application -/
theorem registration_only_by_its_blocks (p : Bool) (f : LSt → LSt) (hf : Blk p f) (s : LSt) (a : Nat)
    (hne : (f s).prov a ≠ s.prov a) :
    ∃ slots : List (Nat × Nat × Nat), ∃ g, (g = provAdd a ∨ g = provDel a) ∧
      f = slots.foldr (fun t h => whenReg t.1 t.2.1 t.2.2 h) g := by
  induction hf with
  | provAdd a' =>
    by_cases h : a = a'
    · subst h; exact ⟨[], provAdd a, Or.inl rfl, rfl⟩
    · simp [provAdd, FlexModel.Conc.Ldm.upd, h] at hne
  | provDel a' =>
    by_cases h : a = a'
    · subst h; exact ⟨[], provDel a, Or.inr rfl, rfl⟩
    · simp [provDel, FlexModel.Conc.Ldm.upd, h] at hne
  | whenReg o slot v f' _ ih =>
    unfold whenReg at hne
    split at hne
    · obtain ⟨slots, g, hg, hfg⟩ := ih hne
      exact ⟨(o, slot, v) :: slots, g, hg, by simp [hfg]⟩
    · exact absurd rfl hne
  | dbInsert o v => simp [dbInsert] at hne
  | dbExists o i => simp [dbExists] at hne
  | dbGet o i slot => simp [dbGet] at hne
  | dbUpdate o i v _ => simp [dbUpdate] at hne
  | dbUpdateIfPresent o i v => unfold dbUpdateIfPresent at hne; split at hne <;> simp at hne
  | dbRemoveId o i => unfold dbRemoveId at hne; split at hne <;> simp at hne
  | gcRemove o => exact absurd (dbRemoveVal_prov o _ s ▸ rfl) hne
  | dbAll o => simp [dbAll] at hne
  | provHas o a' => simp [provHas] at hne
  | consAdd a' => simp [consAdd] at hne
  | consDel a' => simp [consDel] at hne
  | consDelCollect o a' => simp [consDelCollect] at hne
  | consHas o a' => simp [consHas] at hne
  | consHasReg o => simp [consHas] at hne
  | subAdd sid => simp [subAdd] at hne
  | subsCopy o => simp [subsCopy] at hne
  | subRemove o sid => exact absurd (subRemove_prov o sid s ▸ rfl) hne
  | subRemoveReg o => exact absurd (subRemove_prov o _ s ▸ rfl) hne
  | lastChkReg o => simp [lastChkSection] at hne
  | subStored o => simp [subStored] at hne
  | setResp o g => simp [setResp] at hne
  | gcPick o => unfold gcPick at hne; split at hne <;> simp at hne
  | subPick o => unfold subPick at hne; split at hne <;> simp at hne
  | removePick o => unfold removePick at hne; split at hne <;> simp at hne
  | markRemove o => simp [markRemove] at hne
  | callback o => simp [callback] at hne
  | unsubFind o sid => simp [unsubFind] at hne

/-- subscriptions are neither lost nor duplicated nor resurrected: stored = added − removed, under every schedule -/
theorem subscriptions_conserved (threads : List (List Op)) (sched : List ThreadId) :
    (final threads sched).subs.length + (final threads sched).subRemoved = (final threads sched).subAdded :=
  ldm_inv true SubInv threads (anyUpd threads) rfl (SubInv_blk true) sched

/-! ## multi-block operations -/

/-- known finding C16-KF1 (check-then-act in update_provider_data, plain / reactive maintenance): IF.LDM.3 update of
row 0 racing with IF.LDM.3 delete of row 0 – both report success and the row is back in the store … -/
theorem multi_block_explained_witness :
    let s := final [[.regP 1, .add 1 1 6], [.upd 2 0 4], [.del 3 0]]
      (List.replicate 9 0 ++ List.replicate 9 1 ++ List.replicate 7 2 ++ List.replicate 6 1)
    s.resp 2 = [0] ∧ s.resp 3 = [1] ∧ s.db = [(0, 8)] ∧ s.revived = 1 := by decide +kernel

/-- … which neither sequential order of the two operations produces (update then delete: row gone; delete then update:
update answers "unknown id") -/
theorem multi_block_explained_witness_not_sequential :
    let ud := final [[.regP 1, .add 1 1 6, .upd 2 0 4, .del 3 0]] (List.replicate 40 0)
    let du := final [[.regP 1, .add 1 1 6, .del 3 0, .upd 2 0 4]] (List.replicate 40 0)
    (ud.resp 2 = [0] ∧ ud.resp 3 = [1] ∧ ud.db = []) ∧ (du.resp 2 = [1] ∧ du.resp 3 = [1] ∧ du.db = []) := by
  decide +kernel

/-- with LDMMaintenanceThread (get + update in one `data_containers_lock` section) no schedule re-creates a row:
the multi-block update is explained by the sequential order of its final block -/
theorem multi_block_explained_mt (threads : List (List Op)) (h : noPlainUpd threads) (sched : List ThreadId) :
    (final threads sched).revived = 0 :=
  (no_lost_or_duplicated_add threads h sched).2.1

example : (final [[.regP 1, .add 1 1 6], [.updMt 2 0 4], [.del 3 0]]
    (List.replicate 9 0 ++ List.replicate 9 1 ++ List.replicate 7 2 ++ List.replicate 9 1)).db = [] := by decide +kernel

/-! ## deadlock freedom, exceptions -/

theorem lock_order_acyclic :
    Generated.Locks.ranked lkRank = true ∧
      Generated.Locks.reentrantSelf.all (fun l => Generated.Locks.reentrant.contains l) = true :=
  ⟨order_ranked, reentrant_only⟩

/-- **No operation deadlocks – the notification callback included, which is USER code.**  A consumer callback may wait
for the application: for another application thread that is itself inside an IF.LDM.3 / IF.LDM.4 call (a worker the
callback hands over to, an application mutex held around LDM calls).  Model: every callback takes the application mutex
`lkApp`; an application thread is a list of segments of LDM operations, each issued while it holds that mutex or not
(`sysApp`, `Seg`).  For ALL such thread lists and ALL schedules no reachable state is a deadlock – provided the
application does not run an attendance pass inside its own mutex (`AppOk`: that would be the application's
self-deadlock on a non-re-entrant mutex, see `attend_inside_own_mutex_deadlocks`).  The proof is the lock rank
application mutex < maintenance-thread lock < service lock < database lock (`WF_sysApp`), which every thread respects
BECAUSE the callback runs with no LDM lock held: `source_callbacks_outside_locks` ties that to the source, and
`callback_under_service_lock_deadlocks` shows the theorem fails for the other structure. -/
theorem ldm_no_deadlock (threads : List (List Seg)) (happ : AppOk threads) (sched : List ThreadId) :
    ¬ Deadlock (run (sysApp threads) sched) :=
  FlexModel.Conc.no_deadlock rank (sysApp threads) (WF_sysApp threads happ) sched

/-- the special case without application mutex (unconditional) -/
theorem ldm_no_deadlock_plain (threads : List (List Op)) (sched : List ThreadId) : ¬ Deadlock (run (sys threads) sched) :=
  FlexModel.Conc.no_deadlock rank (sys threads) (WF_sys threads) sched

/-- the invariants hold with application threads as well (taking the application mutex adds no block): e.g. nothing
raises and subscriptions are conserved under every schedule of every `sysApp` -/
theorem subscriptions_conserved_app (threads : List (List Seg)) (sched : List ThreadId) :
    let s := (run (sysApp threads) sched).sh
    s.subs.length + s.subRemoved = s.subAdded :=
  ldm_inv_app true SubInv threads (fun _ _ _ _ _ _ _ => rfl) rfl (SubInv_blk true) sched

-- non-vacuity: an attendance thread whose callback is delivered, and a worker that requests data while holding the
-- application mutex; `AppOk` holds; in the schedule below the callback finds the mutex held by the worker (thread 0
-- cannot move: its two choices are skipped), the worker's request is served meanwhile, then the callback runs
def appDemo : List (List Seg) :=
  [[(false, [.regP 1, .regC 1, .add 1 1 4, .sub 2 1 101, .attend 5 1])], [(true, [.qry 6 1]), (false, [.qry 7 1])]]
example : AppOk appDemo := by
  intro segs hs g hg hg1 op hop
  simp only [appDemo, List.mem_cons, List.not_mem_nil, or_false] at hs
  rcases hs with rfl | rfl
  · simp only [List.mem_cons, List.not_mem_nil, or_false] at hg; subst hg; cases hg1
  · simp only [List.mem_cons, List.not_mem_nil, or_false] at hg
    rcases hg with rfl | rfl
    · simp only [List.mem_cons, List.not_mem_nil, or_false] at hop; subst hop; rfl
    · cases hg1
example :
    let blocked := run (sysApp appDemo) (List.replicate 36 0 ++ [1, 0, 0])
    let s := run (sysApp appDemo) (List.replicate 36 0 ++ [1, 0, 0] ++ List.replicate 20 1 ++ List.replicate 10 0)
    blocked.thr.map (·.held) = [[], [lkApp]] ∧ (step blocked 0).isNone = true ∧
    finished s = true ∧ s.sh.calls = [(101, [(0, 4)])] ∧ s.sh.rows 6 = [(0, 4)] := by
  refine ⟨by decide +kernel, by decide +kernel, by decide +kernel, by decide +kernel, by decide +kernel⟩

/-- the structure of seeded change C16-m5: the notification is delivered INSIDE the last-checked section, i.e. the
callback (which takes the application mutex) runs while the service lock is held -/
def attendIterHeld (o : Nat) : List TI :=
  [.loc (subPick o)] ++ tsect lkSvc (.gblk o 4 1 (fun s => consHas o (s.reg o 5 / 100) s)) ++
  [.loc (whenReg o 4 1 (whenReg o 1 0 (markRemove o)))] ++
  tsect lkDb (.gblk o 4 1 (whenReg o 1 1 (dbAll o))) ++
  tsect lkSvc (.gblk o 4 1 (whenReg o 1 1 (whenReg o 6 1 (subStored o)))) ++
  [.acq lkSvc, .gblk o 4 1 (whenReg o 1 1 (whenReg o 6 1 (whenReg o 7 1 (fun s => lastChkSection (s.reg o 5) s)))),
   .acq lkApp, .gblk o 4 1 (whenReg o 1 1 (whenReg o 6 1 (whenReg o 7 1 (callback o)))), .rel lkApp, .rel lkSvc]

def heldSys : Sys LSt :=
  mkSys {} [threadProg [.regP 1, .regC 1, .add 1 1 4, .sub 2 1 101] ++
              ((tsect lkSvc (.blk (subsCopy 5)) ++ attendIterHeld 5).map TI.erase),
            segProg (true, [.qry 6 1])]

/-- **negative twin**: with the callback inside the service-lock section the rank argument fails (the application mutex
would be taken while the service lock is held) and a deadlock IS reachable: the attendance thread holds the service
lock and waits for the application mutex, the worker holds the application mutex and waits for the service lock (its
request's registration check) -/
theorem callback_under_service_lock_deadlocks :
    Deadlock (run heldSys (List.replicate 35 0 ++ [1])) ∧ ¬ WFp rank [] ((attendIterHeld 5).map TI.erase) := by
  refine ⟨deadlock_of_stuckB _ (by decide +kernel), ?_⟩
  simp [attendIterHeld, tsect, TI.erase, WFp, rank, lkSvc, lkApp, lkDb]

/-- the hypothesis `AppOk` is needed and is the application's own business: a thread that runs an attendance pass while
it holds the (non-re-entrant) application mutex blocks on its own callback -/
theorem attend_inside_own_mutex_deadlocks :
    Deadlock (run (sysApp [[(false, [.regP 1, .regC 1, .add 1 1 4, .sub 2 1 101]), (true, [.attend 5 1])]])
      (List.replicate 40 0)) :=
  deadlock_of_stuckB _ (by decide +kernel)

/-- **tie of the deadlock clause to the source** (regenerated by harness/gen_ldm_shape.py and gen_locks.py): the only
invocation of consumer code is in `process_notifications`, outside every `with` section, and every call on every chain
that reaches it (attendance pass, reactive add, service thread) is made with no lock held -/
theorem source_callbacks_outside_locks :
    Generated.LdmShape.userCalls = [("LDMService_process_notifications", [])] ∧
    notifiers.all (fun g => (Generated.Locks.calls g).all (fun c => !notifiers.contains c.2 || c.1.isEmpty)) = true :=
  ⟨callbacks_outside_locks, notification_chain_unlocked.2.2.2.2.2⟩

/-- **No operation raises.** The model contains the two raising statements of the code - `del self.database[key]`
(KeyError on an absent key, inside `DictionaryDataBase.remove`) and `self.subscriptions.remove(sub)` (ValueError on an
absent element, inside `remove_subscription`); each sets `err` of its operation when it raises (`dbDelKey`, `subDrop`).
Under EVERY schedule no operation's `err` is ever set: the scan / membership test and the raising statement are in the
same lock section, i.e. one block (`dbRemoveVal_spec`, `subRemove_spec`) -/
theorem no_block_raises (threads : List (List Op)) (sched : List ThreadId) (o : Nat) : (final threads sched).err o = 0 := by
  refine ldm_inv true (fun s => ∀ o, s.err o = 0) threads (anyUpd threads) (fun _ => rfl) ?_ sched o
  intro f hf
  induction hf with
  | whenReg o slot v f _ ih => exact whenReg_preserves _ o slot v f ih
  | dbUpdateIfPresent o i v => intro x h; unfold dbUpdateIfPresent; split <;> exact h
  | dbRemoveId o i => intro x h; unfold dbRemoveId; split <;> exact h
  | gcRemove o => intro x h; exact dbRemoveVal_preserves (fun s => ∀ o, s.err o = 0) _ _ x h (fun _ _ hx => hx) (fun _ _ hx _ => hx)
  | subRemove o sid =>
    intro x h; exact subRemove_preserves (fun s => ∀ o, s.err o = 0) _ _ x h (fun _ _ _ hx => hx) (fun _ hx _ => hx)
  | subRemoveReg o =>
    intro x h; exact subRemove_preserves (fun s => ∀ o, s.err o = 0) _ _ x h (fun _ _ _ hx => hx) (fun _ hx _ => hx)
  | gcPick o => intro x h; unfold gcPick; split <;> exact h
  | subPick o => intro x h; unfold subPick; split <;> exact h
  | removePick o => intro x h; unfold removePick; split <;> exact h
  | _ => intro x h; exact h

/-- the raising branches are live: when the membership test and `list.remove` are NOT one block (two threads
cancelling the same subscription, test and removal as separate steps) the second removal raises ValueError -/
theorem raises_without_the_section :
    let s0 : LSt := { subs := [101] }
    (subDrop 2 101 (subDrop 1 101 (subTest 2 101 (subTest 1 101 s0)))).err 2 = 2 ∧
    (dbDelKey 2 (dbDelKey 1 (dbScanVal 2 7 (dbScanVal 1 7 ({ db := [(0, 7)] } : LSt))))).err 2 = 1 := by decide

/-- regenerated from the source: no method dereferences the answer of a single-object look-up without testing it for
None first (the object may have been removed since the existence check - another lock section) -/
theorem source_optional_lookups_guarded : Generated.LdmShape.optionalDerefs = [] := optional_lookups_guarded

/-- the None test is live: update 2 of object 0 checks existence, a delete (operation 3) removes the object, the
update's look-up answers None.  Without the test the type comparison raises TypeError (`err` 3: an operation raised
instead of answering); with it nothing is raised and the update answers 2 (unknown / inconsistent) -/
theorem raises_without_none_guard :
    let s := dbGet 2 0 6 (dbRemoveId 3 0 (dbExists 3 0 (dbExists 2 0 ({ db := [(0, 8)] } : LSt))))
    (updTypeChk false 2 s).err 2 = 3 ∧ (updTypeChk true 2 s).err 2 = 0 ∧
    updCode (s.reg 2 1) (s.reg 2 6) (s.reg 2 7) = 2 := by decide

end Props.C16

/-
C16 — the block model of the LDM over-approximates its instruction-level model (instantiation of the mechanised
reduction theorem `Props/ConcReduction.lean` for `FlexModel/Conc/LdmConc.lean`).  Property theorems only; definitions and
proofs: `FlexModel/Conc/LdmFrame.lean` (read/write frames over the record state), `FlexModel/Conc/LdmFine.lean` (micro-step
decomposition of every multi-access lock section, lock map, check).

  `sysF threads`   instruction-level system: inside a lock section one micro-block per attribute access as listed in
                   `Generated/Locks.lean` (`DictionaryDataBase.insert` = read `_next_id` ; write `database` ; rmw
                   `_next_id` ; return, `remove` = scan ; `del`, `remove_subscription` = membership test ; `list.remove` ;
                   `dict.pop`, `store_new_subscription_petition`, `del_data_consumer_its_aid` likewise)
  `sys threads`    the block model of `LdmConc` (one block per lock section) – all theorems of `Props/C16.lean` are about it
  `Owned`          every operation id is used by one thread (registers of an operation are thread-local)
All theorems: ALL thread lists (any number of threads and operations), ALL schedules of the instruction-level system.
Not covered: see the header of `LdmFine.lean` (`updMt`'s get+update under `data_containers_lock`; CPython atomicity of
one micro-block).
-/
import FlexModel.Conc.LdmFine

namespace Props.C16Reduction
open FlexModel.Conc FlexModel.Conc.Reduction FlexModel.Conc.Ldm

/-- fusing every maximal run of micro-blocks inside a lock section of the instruction-level programs gives exactly the
block programs of `LdmConc` -/
theorem fine_fuses_to_block_model (threads : List (List Op)) :
    (threads.map threadProgF).map fuse = threads.map threadProg :=
  fuse_progsF threads

/-- the instruction-level programs pass the lock-map check (every micro-block touches only variables protected by a lock
it holds, registers of its own thread, or – never from inside a multi-step section – the free callback log) and every
micro-block is framed by its declared read / write sets -/
theorem fine_is_protected (owner : Nat → ThreadId) (threads : List (List Op)) (h : Owned owner threads) :
    LProtected (prot owner) (threads.map threadProgF) :=
  lprotected_fine owner threads h

/-- … hence they obey the commutation discipline of the reduction theorem -/
theorem fine_discipline (owner : Nat → ThreadId) (threads : List (List Op)) (h : Owned owner threads) :
    Discipline (threads.map threadProgF) :=
  discipline_fine owner threads h

/-- **The LDM block model over-approximates the instruction-level model.**  For every schedule of the instruction-level
system: (1) every predicate that holds in all block-model states holds at every quiescent point (no thread in the middle
of a lock section); (2) if the run completes, some complete run of the block model ends in the SAME state (responses,
store, registries, subscriptions, callbacks, exception flags). -/
theorem ldm_block_model_sound (owner : Nat → ThreadId) (threads : List (List Op)) (h : Owned owner threads)
    (sched : List ThreadId) :
    (∀ P : LSt → Prop, (∀ csched, P (run (sys threads) csched).sh) →
        Quiescent (run (sysF threads) sched) → P (run (sysF threads) sched).sh) ∧
    (finished (run (sysF threads) sched) = true →
        ∃ csched, finished (run (sys threads) csched) = true ∧
          (run (sys threads) csched).sh = (run (sysF threads) sched).sh) :=
  block_model_sound (threads.map threadProg) (threads.map threadProgF) (fuse_progsF threads)
    (discipline_fine owner threads h) {} sched

-- non-vacuity: an owned scenario (two providers adding concurrently, a consumer querying), a complete instruction-level
-- schedule, and a reachable state strictly inside `insert` (after the read of `_next_id`, before the write)
def demo : List (List Op) := [[.regP 1, .add 1 1 6], [.add 2 1 8], [.regC 1, .qry 3 1]]
def demoOwner : Nat → ThreadId := fun o => o - 1
example : Owned demoOwner demo := by
  intro t ops ht op hop o ho
  rcases t with _ | _ | _ | t <;> simp [demo] at ht <;> subst ht <;> simp at hop <;>
    rcases hop with rfl | rfl <;> simp [Op.ids] at ho <;> subst ho <;> rfl
example : finished (run (sysF demo) (List.replicate 12 0 ++ List.replicate 9 1 ++ List.replicate 10 2)) = true := by
  decide +kernel
example : ¬ Quiescent (run (sysF demo) (List.replicate 8 0)) := by
  rw [quiescent_iff]; decide +kernel

/-! ## consequences at the instruction level -/

/-- identifiers are unique at the instruction level too: at every quiescent point of every schedule the ids handed out
so far are `count-1, …, 0` -/
theorem ids_consecutive_fine (owner : Nat → ThreadId) (threads : List (List Op)) (h : Owned owner threads)
    (sched : List ThreadId) (hq : Quiescent (run (sysF threads) sched)) (i : Nat)
    (hi : i < (run (sysF threads) sched).sh.insLog.length) :
    (run (sysF threads) sched).sh.insLog[i]? = some ((run (sysF threads) sched).sh.insLog.length - 1 - i) := by
  have := (ldm_block_model_sound owner threads h sched).1 IdInv
    (fun cs => ldm_inv true IdInv threads (fun _ _ _ _ _ => rfl) (by simp [IdInv]) (IdInv_blk true) cs) hq
  exact this.2 i hi

/-- no operation raises at the instruction level: at every quiescent point (in particular when all threads have
finished) no operation's exception flag is set – although `del database[key]` and `subscriptions.remove` are separate
instructions from the scan / membership test that guards them -/
theorem no_operation_raises_fine (owner : Nat → ThreadId) (threads : List (List Op)) (h : Owned owner threads)
    (sched : List ThreadId) (hq : Quiescent (run (sysF threads) sched)) (o : Nat) :
    (run (sysF threads) sched).sh.err o = 0 := by
  have key : ∀ cs, ∀ o, (run (sys threads) cs).sh.err o = 0 := by
    intro cs
    refine ldm_inv true (fun s => ∀ o, s.err o = 0) threads (fun _ _ _ _ _ => rfl) (fun _ => rfl) ?_ cs
    intro f hf
    induction hf with
    | whenReg o slot v f _ ih => exact whenReg_preserves _ o slot v f ih
    | dbUpdateIfPresent o i v => intro x h; unfold dbUpdateIfPresent; split <;> exact h
    | dbRemoveId o i => intro x h; unfold dbRemoveId; split <;> exact h
    | gcRemove o =>
      intro x h; exact dbRemoveVal_preserves (fun s => ∀ o, s.err o = 0) _ _ x h (fun _ _ hx => hx) (fun _ _ hx _ => hx)
    | subRemove o sid =>
      intro x h; exact subRemove_preserves (fun s => ∀ o, s.err o = 0) _ _ x h (fun _ _ _ hx => hx) (fun _ hx _ => hx)
    | subRemoveReg o =>
      intro x h; exact subRemove_preserves (fun s => ∀ o, s.err o = 0) _ _ x h (fun _ _ _ hx => hx) (fun _ hx _ => hx)
    | gcPick o => intro x h; unfold gcPick; split <;> exact h
    | subPick o => intro x h; unfold subPick; split <;> exact h
    | removePick o => intro x h; unfold removePick; split <;> exact h
    | _ => intro x h; exact h
  exact (ldm_block_model_sound owner threads h sched).1 (fun s => ∀ o, s.err o = 0) key hq o

/-! ## negative twin: the read of `_next_id` moved in front of the lock section (seeded change C16-m1) -/

/-- `index = self._next_id` BEFORE `with self._lock:` – the section keeps the write and `self._next_id = index + 1` -/
def insertUnlockedA (o v : Nat) : List FI :=
  [.blk (mInsLd o)] ++ asect lkDb [mInsSt o v, ⟨[.reg o 0], [.nextId], fun s => { s with nextId := s.reg o 0 + 1 }⟩, mInsRet o]

/-- … does not pass the lock-map check, whoever owns the operation: `_next_id` is read with no lock held -/
theorem unlocked_id_read_fails_check (owner : Nat → ThreadId) (t o v : Nat) :
    lcheck (prot owner) t [] (insertUnlockedA o v) = false := by
  simp [insertUnlockedA, lcheck, lallowedB, prot, mInsLd, startsBlkF, asect]

/-- … and two such inserts can hand out the same identifier and lose an object -/
theorem unlocked_id_read_duplicates :
    let s := (run (mkSys ({} : LSt) [eraseF (insertUnlockedA 1 6), eraseF (insertUnlockedA 2 8)]) [0, 1, 1, 1, 1, 1, 1, 0, 0, 0, 0, 0]).sh
    s.resp 1 = [0] ∧ s.resp 2 = [0] ∧ s.db = [(0, 6)] ∧ s.inserted = 2 := by decide +kernel

end Props.C16Reduction

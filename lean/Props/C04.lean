/-
C04 — No received frame can stop or derail the receive path.
Property theorems only.  Models: `FlexModel/Geo/RecvPath.lean` (byte-level prologue, receive loops with handler
faults), `FlexModel/Geo/RecvStation.lean` (prologue + C03 security gate + C06 router handlers + facility chain).
Lemmas: `FlexModel/Geo/RecvLemmas.lean`.  The shape of the guarding `try` statements and the table of exception
classes are regenerated from the source into `Generated/Except.lean` on every run (`harness/gen_except.py`).
-/
import FlexModel.Geo.RecvLemmas
import FlexModel.Geo.RouterSecLemmas
import Generated.Except
import Generated.RouterRx
import Generated.Locks

namespace Props.C04
open FlexModel.Geo FlexModel.Geo.Recv Generated.Except

/-! ## 1. Everything the receive path can raise derives from `Exception` and is caught
(checked against the GENERATED try-statement shapes and exception table: narrowing a clause, moving the `try` out of
the `while`, a `break`/`return`/`raise`/`print` in a handler, or a new exception class outside `Exception` re-opens
these). -/

/-- every class named by a `raise` statement in the modules the receive path reaches (flexstack import closure,
asn1tools, ecdsa, ...), every built-in class the interpreter raises implicitly, and every class ever observed by the
fuzzing runs derives from `Exception` -/
theorem raise_table_all_exceptions : ∀ c ∈ raiseTable, "Exception" ∈ c.2 := by
  decide +kernel

/-- no flexstack module on the receive path raises `SystemExit` / `KeyboardInterrupt` / `GeneratorExit` or calls
`sys.exit`, `os._exit`, `os.abort`, `_thread.interrupt_main`, `signal.raise_signal` -/
theorem no_base_exception_sites : flexBaseOnlySites = [] := by decide

theorem listed_caught (catches : List String) (h : catches.contains "Exception" = true) (i : Nat) :
    caught mro catches (.listed i) = true := by
  have key : ∀ c : String × List String, c.2.contains "Exception" = true → c.2.any (fun x => catches.contains x) = true := by
    intro c hc
    rw [List.any_eq_true]
    exact ⟨"Exception", by simpa using hc, h⟩
  have hall : raiseTable.all (fun c => c.2.contains "Exception") = true := by decide +kernel
  have hd : defaultClass.2.contains "Exception" = true := by decide
  exact key _ (getD_of_all (fun c => c.2.contains "Exception") defaultClass hd raiseTable hall i)

theorem raw_loop_catches_all (e : Exc) : caught mro rawLoop.catches e = true := by
  cases e with
  | listed i => exact listed_caught _ (by decide) i
  | _ => decide

theorem cv2x_loop_catches_all (e : Exc) : caught mro cv2xLoop.catches e = true := by
  cases e with
  | listed i => exact listed_caught _ (by decide) i
  | _ => decide

theorem gn_indicate_catches_all (e : Exc) : caught mro gnIndicate.catches e = true := by
  cases e with
  | listed i => exact listed_caught _ (by decide) i
  | _ => decide

/-- the `try` that guards the frame processor is INSIDE the `while` loop, and the catching handlers consist of
allow-listed statements that cannot raise, break or return (logging calls) - for both loops -/
theorem loops_guarded_inside_while :
    rawLoop.inWhile = true ∧ rawLoop.handler = .safe ∧ cv2xLoop.inWhile = true ∧ cv2xLoop.handler = .safe ∧
    gnIndicate.handler = .safe ∧ rawRecvGuardOnly = true := by decide

theorem raw_loop_survives (e : Exc) (b : Bool) : survives mro rawLoop e b = true :=
  survives_of_safe mro rawLoop (by decide) (by decide) raw_loop_catches_all e b

theorem cv2x_loop_survives (e : Exc) (b : Bool) : survives mro cv2xLoop e b = true :=
  survives_of_safe mro cv2xLoop (by decide) (by decide) cv2x_loop_catches_all e b

/-! ## 2. The loops never die: for every frame processor, state, frame stream and stdout-fault sequence -/

theorem raw_loop_never_dies {σ α φ : Type} (broken : φ → Bool) (recv : σ → φ → σ × List α × Option Exc)
    (fs : List φ) (st : σ) : (loopRun mro rawLoop broken recv st fs).isSome = true :=
  loopRun_alive mro rawLoop broken raw_loop_survives recv fs st

theorem cv2x_loop_never_dies {σ α φ : Type} (broken : φ → Bool) (recv : σ → φ → σ × List α × Option Exc)
    (fs : List φ) (st : σ) : (loopRun mro cv2xLoop broken recv st fs).isSome = true :=
  loopRun_alive mro cv2xLoop broken cv2x_loop_survives recv fs st

/-- `Router.gn_data_indicate` raises nothing into the link layer: whatever `process_basic_header` raises, with
stdout broken or not -/
theorem gn_indicate_never_raises {σ α φ : Type} (broken : φ → Bool) (proc : σ → φ → σ × List α × Option Exc)
    (st : σ) (f : φ) : (indicate mro gnIndicate broken proc st f).2.2 = none :=
  indicate_never_raises mro gnIndicate broken (by decide) gn_indicate_catches_all proc st f

/-- the station's complete receive path behind the raw loop: alive after every stream, under every fault sequence -/
theorem station_loop_never_dies (D : Dec) (c : SCfg) (fs : List Recv.Rx) (st : St) :
    (loopRun mro rawLoop Recv.Rx.stdoutBroken (stationIndicate mro gnIndicate D c) st fs).isSome = true :=
  raw_loop_never_dies _ _ fs st

/-- WITNESS (code before fixes/C04-report-cannot-stop-loop): a handler that reports with `print` dies with the first
bad frame received while stdout is broken; without the fault it survives -/
theorem printing_handler_witness :
    let sh : LoopShape := { catches := ["Exception"], inWhile := true, handler := .printing }
    let recv : Unit → Bool → Unit × List Nat × Option Exc := fun st _ => (st, [], some .decodeError)
    (loopRun mro sh id recv () [false, true, false]).isSome = false ∧
    (loopRun mro sh id recv () [false, false, false]).isSome = true := by decide

/-- WITNESS (gen_except used to accept this shape): a `try` AROUND the `while` catches the exception and leaves the loop -/
theorem try_around_loop_witness :
    let sh : LoopShape := { catches := ["Exception"], inWhile := false, handler := .safe }
    let recv : Unit → Bool → Unit × List Nat × Option Exc := fun st _ => (st, [], some .decodeError)
    (loopRun mro sh id recv () [false]).isSome = false := by decide

/-! ## 3. As if never received

`no_effect_as_if_never_received` (RecvLemmas) holds for ANY frame processor: a frame that changes no state and causes
no action, at any position of any stream, leaves the run (final state, all actions) exactly as without it.  Frames
without effect in the station model: -/

/-- (a) frames the byte-level prologue rejects: short / truncated headers, reserved or unknown NH / HT / HST /
station type, wrong version, RHL above MHL, zero-sized areas, unsecured frames under enabled security, secured frames
without verify service -/
theorem rejected_no_effect (D : Dec) (c : SCfg) (x : Recv.Rx) (h : rejected c.recv x.bytes) :
    NoEffect (stationRecv D c) x := prologue_rejected_no_effect D c x h

/-- (b) secured envelopes that do not parse or name an algorithm the decoder does not know -/
theorem unparsable_envelope_no_effect (D : Dec) (c : SCfg) (x : Recv.Rx)
    (hc : classify c.recv x.bytes = .secured) (hm : D.msg x.bytes = none) :
    NoEffect (stationRecv D c) x := (Recv.unparsable_envelope_no_effect D c x hc hm).1

/-- as if never received, station model, raw loop, every fault sequence: a frame of class (a) or (b) at any position
of any stream changes neither the final state (location table, duplicate lists, CBF buffer, certificate library, P2PCD
lists) nor any action (delivery, transmission, timer) of the run -/
theorem as_if_never_received (D : Dec) (c : SCfg) (pre suf : List Recv.Rx) (bad : Recv.Rx)
    (hbad : rejected c.recv bad.bytes ∨ (classify c.recv bad.bytes = .secured ∧ D.msg bad.bytes = none)) (st : St) :
    loopRun mro rawLoop Recv.Rx.stdoutBroken (stationRecv D c) st (pre ++ bad :: suf)
      = loopRun mro rawLoop Recv.Rx.stdoutBroken (stationRecv D c) st (pre ++ suf) := by
  apply no_effect_as_if_never_received mro rawLoop Recv.Rx.stdoutBroken raw_loop_survives
  rcases hbad with h | ⟨h1, h2⟩
  · exact rejected_no_effect D c bad h
  · exact unparsable_envelope_no_effect D c bad h1 h2

/-- the same for the complete chain as it runs: raw loop → `gn_data_indicate` (catch-all) → `process_basic_header` -/
theorem as_if_never_received_station (D : Dec) (c : SCfg) (pre suf : List Recv.Rx) (bad : Recv.Rx)
    (hbad : rejected c.recv bad.bytes ∨ (classify c.recv bad.bytes = .secured ∧ D.msg bad.bytes = none)) (st : St) :
    loopRun mro rawLoop Recv.Rx.stdoutBroken (stationIndicate mro gnIndicate D c) st (pre ++ bad :: suf)
      = loopRun mro rawLoop Recv.Rx.stdoutBroken (stationIndicate mro gnIndicate D c) st (pre ++ suf) := by
  apply no_effect_as_if_never_received mro rawLoop Recv.Rx.stdoutBroken raw_loop_survives
  have hne : NoEffect (stationRecv D c) bad := by
    rcases hbad with h | ⟨h1, h2⟩
    · exact rejected_no_effect D c bad h
    · exact unparsable_envelope_no_effect D c bad h1 h2
  exact noEffect_indicate mro gnIndicate Recv.Rx.stdoutBroken (stationRecv D c) bad hne

/-- the same behind the C-V2X callback loop -/
theorem as_if_never_received_cv2x (D : Dec) (c : SCfg) (pre suf : List Recv.Rx) (bad : Recv.Rx)
    (hbad : rejected c.recv bad.bytes ∨ (classify c.recv bad.bytes = .secured ∧ D.msg bad.bytes = none)) (st : St) :
    loopRun mro cv2xLoop Recv.Rx.stdoutBroken (stationRecv D c) st (pre ++ bad :: suf)
      = loopRun mro cv2xLoop Recv.Rx.stdoutBroken (stationRecv D c) st (pre ++ suf) := by
  apply no_effect_as_if_never_received mro cv2xLoop Recv.Rx.stdoutBroken cv2x_loop_survives
  rcases hbad with h | ⟨h1, h2⟩
  · exact rejected_no_effect D c bad h
  · exact unparsable_envelope_no_effect D c bad h1 h2

/-! ## 4. Frames that fail AFTER the prologue: what exactly they may change -/

/-- (c) a secured frame that fails verification (forged, flipped, unknown signer, unsupported signer type, verify
service raising): router state untouched, no action at all; the security state moves to C03's `gate` result, whose
certificate library only grows by chain-verified certificates -/
theorem failed_verification_effect (D : Dec) (c : SCfg) (st : St) (x : Recv.Rx)
    (hc : classify c.recv x.bytes = .secured)
    (hf : ∀ pl, (FlexModel.Sec.gate c.sec c.recv.securityEnabled true st.sec (.secured (D.msg x.bytes))).2 ≠ .pass pl) :
    (stationRecv D c st x).1.r = st.r ∧ (stationRecv D c st x).2.1 = [] ∧
    FlexModel.Sec.Store.Grows st.sec.store (stationRecv D c st x).1.sec.store :=
  ⟨(Recv.failed_verification_effect D c st x hc hf).1, (Recv.failed_verification_effect D c st x hc hf).2.1,
   failed_verification_store_grows D c st x hc⟩

/-- ... and later honest secured frames are verified, decapsulated and handled exactly as without the failed ones -/
theorem honest_secured_frame_unaffected (D : Dec) (c : SCfg) (st st2 : St) (ys : List Recv.Rx)
    (hrun : FailedRun D c st ys st2) (x : Recv.Rx) (hcx : classify c.recv x.bytes = .secured)
    (m : FlexModel.Sec.Msg) (hmx : D.msg x.bytes = some m) (cert : FlexModel.Sec.Cert)
    (hr : FlexModel.Sec.Ready c.sec st.sec.store cert)
    (hm : FlexModel.Sec.HonestMsg m cert) (hsg : m.signer = .certs [cert])
    (hnc : ∀ y ∈ ys, ∀ m', D.msg y.bytes = some m' → m'.noClash cert) :
    (stationRecv D c st2 x).1.r = (stationRecv D c st x).1.r ∧
    (stationRecv D c st2 x).2 = (stationRecv D c st x).2 :=
  honest_secured_frame_after_failed_frames D c st st2 ys hrun x hcx m hmx cert hr hm hsg hnc

/-- (d) an unsecured frame that RAISES, code as it is (`_partial`: C04-KF1).  Either it had no effect at all, or it was
a well-formed GN packet, accepted and delivered by the router, whose payload the BTP / facility chain could not
decode: then the router state is exactly what C06's `recvR` computes for that well-formed packet (source LocTE with
PV, sequence number in the duplicate list, neighbour flag, CBF buffer; forwarding done) -/
theorem raising_frame_effect_partial (D : Dec) (c : SCfg) (st : St) (x : Recv.Rx) (e : Exc)
    (hc : classify c.recv x.bytes ≠ .secured) (he : (stationRecv D c st x).2.2 = some e) :
    ((stationRecv D c st x).1 = st ∧ (stationRecv D c st x).2.1 = []) ∨
    ((∃ h, classify c.recv x.bytes = .handled h) ∧ D.upper (D.pkt x.bytes) = some e ∧
      deliveries (recvR c.r st.r (D.pkt x.bytes) x.env x.now).2 ≠ [] ∧
      (stationRecv D c st x).1.r = (recvR c.r st.r (D.pkt x.bytes) x.env x.now).1 ∧
      (stationRecv D c st x).2.1 = (recvR c.r st.r (D.pkt x.bytes) x.env x.now).2) :=
  Recv.raising_frame_effect_partial D c st x e hc he

/-- full statement, variant that validates the payload before the GN layer commits (hypothetical repair of C04-KF1):
a frame that raises has no effect whatsoever -/
theorem raising_frame_no_effect (D : Dec) (c : SCfg) (hpf : c.payloadFirst = true) (st : St) (x : Recv.Rx) (e : Exc)
    (hc : classify c.recv x.bytes ≠ .secured) (he : (stationRecv D c st x).2.2 = some e) :
    (stationRecv D c st x).1 = st ∧ (stationRecv D c st x).2.1 = [] :=
  Recv.raising_frame_no_effect D c hpf st x e hc he

/-- every frame of every OTHER source that arrives after a frame `xb` which left router state behind (any frame, any
outcome) gets the same deliveries and raises the same exceptions as if `xb` had never been received - for every later
stream, code as it is.  (`Stable`: an entry alive when the later frame arrives was alive when `xb` arrived - the purge
`xb` triggered removed nothing a later reception would have kept.)  Not covered, named exactly: later frames of the
SAME source (C04-KF1: `xb`'s sequence number sits in that source's duplicate list), forwarding decisions that look
at the neighbour set, which `xb`'s source has legitimately joined, and later LS replies that complete an own Location
Service (`LsReplyToSelf`: they deliver nothing; their bookkeeping is C06's). -/
theorem later_frames_of_other_sources_unaffected (D : Dec) (c : SCfg) (hv : c.r.loct.v = {})
    (hns : c.recv.hasVerifyService = false) (st : St) (hu : Uniq st.r.t) (xb : Recv.Rx) (suf : List Recv.Rx)
    (hsrc : ∀ x ∈ suf, (D.pkt x.bytes).so ≠ (D.pkt xb.bytes).so)
    (hnl : ∀ x ∈ suf, ¬ LsReplyToSelf c.r (D.pkt x.bytes))
    (hst : ∀ x ∈ suf, Stable c.r.loct st.r.t xb.now x.now) :
    obsRun D c (stationRecv D c st xb).1 suf = obsRun D c st suf :=
  obsRun_rel D c hv hns (D.pkt xb.bytes).so st.r.t xb.now suf hsrc hnl hst st (stationRecv D c st xb).1
    (stationRecv_srel_init D c hv hns st hu xb)

/-- `Uniq` (unique keys of the location table), the standing assumption above, is an invariant of the receive path and
holds of the empty table -/
theorem uniq_invariant (D : Dec) (c : SCfg) (st : St) (x : Recv.Rx) (hu : Uniq st.r.t) :
    Uniq (stationRecv D c st x).1.r.t := stationRecv_uniq D c st x hu

/-! ### C04-KF1 witness: a delivered frame whose payload the facility cannot decode consumes its sequence number -/

def wCfg (pf : Bool) : SCfg :=
  { r := { loct := { self := 1, lifetimeMs := 20000, dplLen := 8 } }, payloadFirst := pf }

/-- GBC frame (circle, a = 5) with one payload octet -/
def wFrame (payload : Nat) : Recv.Rx :=
  { bytes := [0x11, 0, 5, 1] ++ [0x20, 0x40, 0, 0x80, 0, 0, 1, 0] ++ List.replicate 36 0 ++ [0, 5] ++ List.replicate 6 0
      ++ [payload],
    now := 1000, env := { inside := true } }

def wDec : Dec :=
  { pkt := fun f => { kind := .gbc, rhl := 1, mhl := 1, so := 7, sn := 5, soPV := { time := 1000 }, body := byteAt f 56 },
    msg := fun _ => none, secExc := fun _ => .listed 0, plain := fun _ => [],
    upper := fun p => if p.body = 0 then some .valueError else none }

/-- code as it is: the bad frame (payload 0) is delivered, the facility raises, and the well-formed frame with the same
(source, sequence number) that follows is dropped as a duplicate; alone it is delivered -/
theorem payload_failure_consumes_sn_witness :
    obsRun wDec (wCfg false) {} [wFrame 0, wFrame 1] = [([.deliver .gbc 7 5], some .valueError), ([], none)] ∧
    obsRun wDec (wCfg false) {} [wFrame 1] = [([.deliver .gbc 7 5], none)] := by
  decide +kernel

/-- repaired variant: the later frame is delivered as if the bad one had never been received -/
theorem payload_first_variant_witness :
    obsRun wDec (wCfg true) {} [wFrame 0, wFrame 1] = [([], some .valueError), ([.deliver .gbc 7 5], none)] := by
  decide +kernel

/-! ## 5. Shape of the prologue -/

/-- frames shorter than the basic header are always rejected -/
theorem short_frame_rejected (cfg : Recv.Cfg) (f : List Nat) (h : f.length < 4) : rejected cfg f := by
  left; exact ⟨.decodeError, by simp [classify, h]⟩

/-- unsecured frames are dropped when security is enabled (whatever follows the basic header) -/
theorem unsecured_dropped_when_enabled (cfg : Recv.Cfg) (f : List Nat) (hlen : 4 ≤ f.length)
    (hs : cfg.securityEnabled = true) (hnh : byteAt f 0 % 16 = 1) (hv : byteAt f 0 / 16 = cfg.version) :
    classify cfg f = .dropped := by
  have : ¬ f.length < 4 := by omega
  have h1 : Generated.Enums.BasicNH_values.contains 1 = true := by decide
  unfold classify
  rw [if_neg this]
  simp only [hnh, h1, hv, hs]
  simp

/-- a zero-sized area (distance a = 0; or b = 0 for rectangle / ellipse) is rejected before any state is touched -/
theorem zero_area_rejected (h : Handler) (hst : Nat) (p : List Nat) (hlen : 44 ≤ p.length)
    (hz : u16 p 36 = 0 ∨ (hst ≠ 0 ∧ u16 p 38 = 0)) :
    ∀ hd, geoPrologue h hst p ≠ .handled hd := by
  intro hd
  have hl : ¬ p.length < 44 := by omega
  unfold geoPrologue
  rw [if_neg hl]
  by_cases h1 : (!stOk (byteAt p 4)) = true
  · rw [if_pos h1]; exact fun x => Outcome.noConfusion x
  · rw [if_neg h1]
    simp only
    by_cases h2 : u16 p 36 = 0
    · rw [if_pos h2]; exact fun x => Outcome.noConfusion x
    · rw [if_neg h2]
      rcases hz with hz | hz
      · exact absurd hz h2
      · rw [if_pos hz]; exact fun x => Outcome.noConfusion x

/-! ## 6. MAC filter (repaired code: fixes/C04-own-source-ignored) -/

/-- frames sent by the station itself are ignored, whatever their destination (own unicast included) -/
theorem own_frames_ignored (own dst : List Nat) : macAccept own dst own = false := by
  simp [macAccept]

theorem foreign_unicast_ignored (own dst src : List Nat) (h1 : dst ≠ own)
    (h2 : dst ≠ [255, 255, 255, 255, 255, 255]) : macAccept own dst src = false := by
  simp [macAccept, h1, h2]

theorem broadcast_from_other_accepted (own src : List Nat) (h : src ≠ own) :
    macAccept own [255, 255, 255, 255, 255, 255] src = true := by
  simp [macAccept, h]

theorem own_unicast_from_other_accepted (own src : List Nat) (h : src ≠ own) : macAccept own own src = true := by
  simp [macAccept, h]

/-- WITNESS (code before the repair): a frame from the own MAC address to the own MAC address was passed up -/
theorem own_unicast_echo_witness : macAcceptOld [2, 0, 0, 0, 0, 99] [2, 0, 0, 0, 0, 99] [2, 0, 0, 0, 0, 99] = true := by
  decide

/-- outside that case the old and the repaired filter agree -/
theorem mac_filter_old_agrees (own dst src : List Nat) (h : ¬ (src = own ∧ dst = own)) :
    macAcceptOld own dst src = macAccept own dst src := by
  unfold macAcceptOld macAccept
  by_cases hs : src = own <;> by_cases hd : dst = own <;> simp_all

/-! ## 7. Round 5: the loop can only be ended by the stop signal; a discarded frame leaves no receive context; the
receive thread never waits for a lock it holds -/

/-- REGENERATED FACT: every exit of the `while` of `PythonCV2XLinkLayer.callback_handler_loop` is guarded by an identity
test of the dequeued item against `None` (seeded change C04-m8 turns it into a truth-value test: `.falsy`), and the `while`
of `RawLinkLayer.receive` has no `break` / `return` outside the handler of the `try` around the socket read -/
theorem loops_end_on_the_stop_signal_only : cv2xStopTest = .isNone ∧ rawFrameExits = 0 := by decide

/-- with an identity test no GN packet - whatever its bytes, the EMPTY one included - ends the callback thread -/
theorem frame_never_taken_for_stop_signal (gn : List Nat) : stopsOn .isNone (.frame gn) = false := rfl

/-- the callback thread hands EVERY queued GN packet to the router, in order, for every queue content in front of the
stop signal -/
theorem queue_serves_every_frame (fs : List (List Nat)) (rest : List QItem) :
    served .isNone (fs.map .frame ++ .stop :: rest) = fs := by
  induction fs with
  | nil => simp [served, stopsOn]
  | cons f r ih => simp [served, stopsOn, ih]

/-- modem -> queue -> callback thread, code as it is (`cv2xStopTest` is the generated constant): for EVERY sequence of radio
frames (lengths 0, 1, ... included) every GN packet received is handed to the router -/
theorem cv2x_every_received_packet_is_served (radio : List (List Nat)) :
    served cv2xStopTest (radioToQueue radio ++ [.stop]) = radioPackets radio := by
  have h : cv2xStopTest = .isNone := by decide
  rw [h]
  have : radioToQueue radio = (radioPackets radio).map .frame := by
    unfold radioToQueue radioPackets
    induction radio with
    | nil => rfl
    | cons r rs ih =>
      cases r with
      | nil => simpa [List.filterMap_cons] using ih
      | cons _ gn => simp [ih]
  rw [this]
  exact queue_serves_every_frame _ []

/-- WITNESS (truth-value test, seeded change C04-m8): a radio frame that holds the family id alone ends the thread; the
valid packet behind it is lost.  With the identity test both valid packets are served and so is the empty one -/
theorem falsy_stop_test_witness :
    served .falsy (radioToQueue [[3, 17, 0], [3], [3, 17, 1]] ++ [.stop]) = [[17, 0]] ∧
    served .isNone (radioToQueue [[3, 17, 0], [3], [3, 17, 1]] ++ [.stop]) = [[17, 0], [], [17, 1]] := by decide

/-- REGENERATED FACT (`Generated/RouterRx.lean`, written by gen_router.py, regenerated for C04 too): the reset of the
per-thread receive context sits in the `finally` of the `try` around the dispatch of a verified packet, the context is a
`threading.local` written by `process_security_header` only (seeded change C04-m7 flattens the try/finally) -/
theorem rx_context_reset_of_source :
    Generated.RouterRx.ctxResetInFinally = true ∧ Generated.RouterRx.ctxThreadLocal = true ∧
    Generated.RouterRx.ctxWriters = ["process_security_header"] := by decide

/-- the wire-level station (C06's `RouterSec` model) as the code is: the `finally` flag is the generated constant -/
def wireCfg (c : RCfg) (hasVerify secEnabled : Bool) : WCfg :=
  { c := c, hasVerify := hasVerify, secEnabled := secEnabled, ctxFinally := Generated.RouterRx.ctxResetInFinally }

/-- what a reception delivers, sends and does to the router state depends on the wire state only through the router
state and the receive context of the receiving thread -/
theorem recvW_congr (w : WCfg) (s s' : WSt) (x : FlexModel.Geo.Rx) (env : Env) (now : Nat) (hr : s.r = s'.r)
    (hc : s.ctx x.thr = s'.ctx x.thr) :
    (recvW w s x env now).2 = (recvW w s' x env now).2 ∧ (recvW w s x env now).1.r = (recvW w s' x env now).1.r := by
  unfold recvW
  cases hs : x.sec <;> simp only [hs, if_true, if_false, Bool.false_eq_true]
  · split
    · exact ⟨rfl, hr⟩
    · simp [hr, hc]
  · split
    · exact ⟨rfl, hr⟩
    · simp [hr]

/-- a frame whose hop limit exceeds the maximum is discarded without touching the router state - secured or not,
verified or not (for a verified one this is an exception raised AFTER verification, inside the dispatch) -/
theorem hop_limit_discard_keeps_router_state (w : WCfg) (s : WSt) (x : FlexModel.Geo.Rx) (env : Env) (now : Nat)
    (h : x.p.rhl > x.p.mhl) : (recvW w s x env now).1.r = s.r ∧ (recvW w s x env now).2.1 = [] := by
  unfold recvW recvR
  cases hs : x.sec <;> simp only [hs, if_true, if_false, Bool.false_eq_true, h] <;> split <;> simp

/-- receptions only (no timer expiry in between): deliveries / sends of the decoded-packet model and PDUs on the wire -/
def rxRun (w : WCfg) : WSt → List (FlexModel.Geo.Rx × Env × Nat) → List (List Act × List WFrame)
  | _, [] => []
  | s, y :: ys => ((recvW w s y.1 y.2.1 y.2.2).2.1, sentW w s y.1 y.2.1 y.2.2) :: rxRun w (recvW w s y.1 y.2.1 y.2.2).1 ys

theorem rxRun_congr (w : WCfg) (hf : w.ctxFinally = true) : ∀ (ys : List (FlexModel.Geo.Rx × Env × Nat)) (s s' : WSt),
    s.r = s'.r → CtxClear s → CtxClear s' → rxRun w s ys = rxRun w s' ys := by
  intro ys
  induction ys with
  | nil => intros; rfl
  | cons y r ih =>
    intro s s' hr h h'
    have hc : s.ctx y.1.thr = s'.ctx y.1.thr := by rw [h, h']
    obtain ⟨h1, h2⟩ := recvW_congr w s s' y.1 y.2.1 y.2.2 hr hc
    simp only [rxRun, sentW, h1]
    rw [ih _ _ h2 (recvW_ctx_clear w hf s _ _ _ h) (recvW_ctx_clear w hf s' _ _ _ h')]

/-- THE CLAUSE "every well-formed frame that arrives afterwards is processed exactly as if the bad frame had never been
received" ON THE WIRE, for every station configuration (verify service or not, security enabled or not), every state, every
discarded frame `x` (= the router state after it is the one before it: failed verification, no verify service, hop limit
above the maximum after a SUCCESSFUL verification, duplicate address ...) and EVERY later sequence of receptions, on any
threads: same deliveries, same forwarding decisions and the same GN-PDUs handed to the link layer.  Hypothesis on the code:
the reset of the receive context sits in a `finally` (`rx_context_reset_of_source`). -/
theorem later_frames_on_the_wire_unaffected_by_discarded_frame (w : WCfg) (hf : w.ctxFinally = true) (s : WSt)
    (h : CtxClear s) (x : FlexModel.Geo.Rx) (env : Env) (now : Nat) (hdisc : (recvW w s x env now).1.r = s.r)
    (ys : List (FlexModel.Geo.Rx × Env × Nat)) : rxRun w (recvW w s x env now).1 ys = rxRun w s ys :=
  rxRun_congr w hf ys _ _ hdisc (recvW_ctx_clear w hf s x env now h) h

/-- ... instantiated for the code as it is and the bad frame of the property text "hop limits above the maximum" -/
theorem later_frames_unaffected_by_hop_limit_discard (c : RCfg) (hv en : Bool) (s : WSt) (h : CtxClear s) (x : FlexModel.Geo.Rx)
    (env : Env) (now : Nat) (hx : x.p.rhl > x.p.mhl) (ys : List (FlexModel.Geo.Rx × Env × Nat)) :
    rxRun (wireCfg c hv en) (recvW (wireCfg c hv en) s x env now).1 ys = rxRun (wireCfg c hv en) s ys :=
  later_frames_on_the_wire_unaffected_by_discarded_frame _
    (by show Generated.RouterRx.ctxResetInFinally = true; decide) s h x env now
    (hop_limit_discard_keeps_router_state _ s x env now hx).1 ys

/-- WITNESS (reset as straight-line code, seeded change C04-m7) and non-vacuity of the two theorems above: a secured SHB
(message 77) that verifies and is discarded for RHL 5 > MHL 1, then an unsecured GBC (RHL 10) the station forwards: without
the `finally` the station sends `Basic Header + message 77`; with it, the GBC with RHL 9 - the same as without the bad frame -/
theorem stale_context_after_discard_witness :
    let c : RCfg := { loct := { self := 1, lifetimeMs := 20000, dplLen := 8 } }
    let x : FlexModel.Geo.Rx := { sec := true, m := 77, p := { kind := .tsb, rhl := 5, mhl := 1, so := 5, soPV := { time := 1000 }, sn := 1 } }
    let g : Pkt := { kind := .gbc, rhl := 10, mhl := 10, so := 6, soPV := { time := 1000 }, sn := 2 }
    let ys : List (FlexModel.Geo.Rx × Env × Nat) := [({ p := g }, { inside := true }, 1010)]
    let bad : WCfg := { c := c, hasVerify := true, ctxFinally := false }
    let good : WCfg := { c := c, hasVerify := true }
    (rxRun bad (recvW bad {} x {} 1000).1 ys).map (·.2) = [[.secured 9 77]] ∧
    (rxRun good (recvW good {} x {} 1000).1 ys).map (·.2) = [[.plain (fwd g)]] ∧
    (rxRun good {} ys).map (·.2) = [[.plain (fwd g)]] := by
  decide

/-- REGENERATED FACT (`Generated/Locks.lean`, written by gen_locks.py, regenerated for C04 too): in the lock graph of the
stack - an edge (a, b) for every call path on which `b` is taken while `a` is held, transitively through the resolved
call graph; re-entries of RLocks are listed apart - NO lock is taken while it is already held: no thread, in particular not
the receive thread inside a handler, waits for itself.  (Seeded change C04-m9 flushes the LS buffer under `_ls_lock`:
`gn_data_request_guc` -> `gn_ls_request` re-takes it: edge (`_ls_lock`, `_ls_lock`).)  Cycles through several locks are
C15's `lock_order` theorem. -/
theorem no_lock_retaken_while_held : Generated.Locks.edges.all (fun e => e.1 != e.2) = true := by decide

/-- the same for the one section the receive path holds while it works on the Location Service state: nothing called under
`_ls_lock` by the LS-reply handler sends or requests -/
theorem ls_reply_section_calls_no_request :
    ((Generated.Locks.calls .Router_gn_data_indicate_ls_reply).all fun c =>
      !(c.1.contains .Router__ls_lock) || (c.2 != .Router_gn_data_request_guc && c.2 != .Router_gn_ls_request)) = true := by
  decide

/-- a thread that asks for a lock it holds: `none` = blocks for ever unless the lock is re-entrant -/
def acquire (reentrant held : List Generated.Locks.Lk) (l : Generated.Locks.Lk) : Option (List Generated.Locks.Lk) :=
  if held.contains l && !reentrant.contains l then none else some (l :: held)

/-- the only way `acquire` blocks the (single) receive thread by itself is an edge (l, l) on a non-re-entrant lock -/
theorem acquire_blocks_iff (re held : List Generated.Locks.Lk) (l : Generated.Locks.Lk) :
    acquire re held l = none ↔ (l ∈ held ∧ l ∉ re) := by
  unfold acquire
  by_cases h1 : held.contains l = true <;> by_cases h2 : re.contains l = true <;> simp_all

/-- WITNESS: `_ls_lock` is not re-entrant, so the shape of C04-m9 blocks -/
example : acquire Generated.Locks.reentrant [.Router__ls_lock] .Router__ls_lock = none := by decide

/-! ## Non-vacuity -/
example : classify {} [0x11, 0, 5, 1] = .raised .decodeError := by decide
example : rejected {} [0x13, 0, 5, 1, 0, 0, 0, 0] := by left; exact ⟨.valueError, by decide⟩
example : classify {} ([0x11, 0, 5, 1] ++ [0x20, 0x50, 0, 0x80, 0, 0, 1, 0] ++ List.replicate 28 0) = .handled .shb := by decide
example : classify { hasVerifyService := true } [0x12, 0, 5, 1, 9, 9] = .secured := by decide
example : classify (wCfg false).recv (wFrame 0).bytes = .handled .gbc := by decide
/-- a zero-area GBC (a = 0) is rejected by the prologue: C04-m1's frame -/
example : classify {} ([0x11, 0, 5, 1] ++ [0x20, 0x40, 0, 0x80, 0, 0, 1, 0] ++ List.replicate 44 0) = .raised .zeroDivisionError := by
  decide
/-- `Stable` is satisfiable with a non-empty table: an entry alive at the later time was alive at the earlier one -/
example : Stable { self := 1, lifetimeMs := 20000, dplLen := 8 } [(7, { pv := { time := 1000 }, hasPV := true })] 1000 1500 := by
  intro a e h _
  simp only [lookup] at h
  split at h
  · cases h; decide
  · cases h
/-- `FailedRun` is inhabited by a non-empty run: an unparsable envelope -/
example : FailedRun wDec { wCfg false with recv := { hasVerifyService := true } } {} [{ bytes := [0x12, 0, 5, 1, 9] }] {} := by
  refine .cons _ _ _ _ (by decide) (by intro pl; simp [FlexModel.Sec.gate, wDec]) ?_
  exact .nil _

/-! ## 12. Round 6: every packet type is discarded before its handler runs when the frame is cut inside its headers
or carries a hop limit above its maximum (classes of C04-m10 / C04-m12; the harness checks the same classes, and the
own-address class of C04-m11, on the real router for every packet type: `check_header_classes`) -/

/-- octets of extended header a handler must see before it may touch any state, by packet layout -/
def mustHave (ht hst : Nat) : Nat :=
  if ht = 1 then 24 else if ht = 2 then 48 else if ht = 3 then 44 else if ht = 4 then 44
  else if ht = 5 then (if hst = 0 then 24 else 28)
  else if ht = 6 then (if hst = 0 then 36 else 48) else 0

private theorem geoPrologue_cut (h : Handler) (hst : Nat) (b : List Nat) (hb : b.length < 44) :
    geoPrologue h hst b = .raised .decodeError := by
  unfold geoPrologue; rw [if_pos hb]

set_option hygiene false in
local macro "peel " c:term : tactic =>
  `(tactic| (by_cases hc : $c
             · (rw [if_pos hc] at hx; cases hx)
             rw [if_neg hc] at hx; clear hc))

set_option hygiene false in
local macro "cut " n:term : tactic =>
  `(tactic| (have hcut : (p.drop 8).length < $n := by omega
             rw [if_pos hcut] at hx; cases hx))

theorem cut_header_never_handled (rhl : Nat) (p : List Nat)
    (h : p.length < 8 + mustHave (byteAt p 1 / 16) (byteAt p 1 % 16)) (hd : Handler) :
    commonStage rhl p ≠ .handled hd := by
  have hl : (p.drop 8).length = p.length - 8 := by simp
  intro hx
  simp only [commonStage] at hx
  unfold mustHave at h
  peel (p.length < 8)
  peel ((!Generated.Enums.CommonNH_values.contains (byteAt p 0 / 16)) = true)
  peel ((!Generated.Enums.HeaderType_values.contains (byteAt p 1 / 16)) = true)
  peel ((!hstOk (byteAt p 1 / 16) (byteAt p 1 % 16)) = true)
  peel (byteAt p 6 < rhl)
  peel (byteAt p 1 / 16 = 0)
  by_cases e1 : byteAt p 1 / 16 = 1
  · rw [if_pos e1] at hx h; cut 24
  rw [if_neg e1] at hx h
  by_cases e2 : byteAt p 1 / 16 = 2
  · rw [if_pos e2] at hx h; cut 48
  rw [if_neg e2] at hx h
  by_cases e3 : byteAt p 1 / 16 = 3
  · rw [if_pos e3] at hx h
    rw [geoPrologue_cut _ _ _ (by omega)] at hx; cases hx
  rw [if_neg e3] at hx h
  by_cases e4 : byteAt p 1 / 16 = 4
  · rw [if_pos e4] at hx h
    rw [geoPrologue_cut _ _ _ (by omega)] at hx; cases hx
  rw [if_neg e4] at hx h
  by_cases e5 : byteAt p 1 / 16 = 5
  · rw [if_pos e5] at hx h
    by_cases s0 : byteAt p 1 % 16 = 0
    · rw [if_pos s0] at hx h; cut 24
    rw [if_neg s0] at hx h
    by_cases s1 : byteAt p 1 % 16 = 1
    · rw [if_pos s1] at hx; cut 28
    rw [if_neg s1] at hx; cases hx
  rw [if_neg e5] at hx h
  by_cases e6 : byteAt p 1 / 16 = 6
  · rw [if_pos e6] at hx h
    by_cases s0 : byteAt p 1 % 16 = 0
    · rw [if_pos s0] at hx h; cut 36
    rw [if_neg s0] at hx h
    by_cases s1 : byteAt p 1 % 16 = 1
    · rw [if_pos s1] at hx; cut 48
    rw [if_neg s1] at hx; cases hx
  rw [if_neg e6] at hx; cases hx

/-- a frame is handled only through the common-header stage of an unsecured packet -/
theorem classify_handled_inv (cfg : Recv.Cfg) (f : List Nat) (hd : Handler) (hx : classify cfg f = .handled hd) :
    4 ≤ f.length ∧ commonStage (byteAt f 3) (f.drop 4) = .handled hd := by
  simp only [classify] at hx
  by_cases c0 : f.length < 4
  · rw [if_pos c0] at hx; cases hx
  rw [if_neg c0] at hx
  peel ((!Generated.Enums.BasicNH_values.contains (byteAt f 0 % 16)) = true)
  peel (byteAt f 0 / 16 ≠ cfg.version)
  by_cases n1 : byteAt f 0 % 16 = 1
  · rw [if_pos n1] at hx
    by_cases s : cfg.securityEnabled = true
    · rw [if_pos s] at hx; cases hx
    rw [if_neg s] at hx
    exact ⟨by omega, hx⟩
  rw [if_neg n1] at hx
  by_cases n2 : byteAt f 0 % 16 = 2
  · rw [if_pos n2] at hx
    by_cases v : cfg.hasVerifyService = true
    · rw [if_pos v] at hx; cases hx
    rw [if_neg v] at hx; cases hx
  rw [if_neg n2] at hx; cases hx

private theorem byteAt_drop (f : List Nat) (k i : Nat) : byteAt (f.drop k) i = byteAt f (k + i) := by
  simp [byteAt, List.getD]

/-- RHL above MHL: no handler runs, whatever the packet type (beacon included) -/
theorem rhl_above_mhl_never_handled (rhl : Nat) (p : List Nat) (h : byteAt p 6 < rhl) (hd : Handler) :
    commonStage rhl p ≠ .handled hd := by
  unfold commonStage
  simp only [h, if_true]
  split
  · exact fun x => Outcome.noConfusion x
  · split
    · exact fun x => Outcome.noConfusion x
    · split
      · exact fun x => Outcome.noConfusion x
      · split
        · exact fun x => Outcome.noConfusion x
        · exact fun x => Outcome.noConfusion x

/-- whole frame, every configuration: a frame cut anywhere inside Basic Header, Common Header or the extended header of
its packet type (nothing behind the cut) reaches no handler: no DAD, no location-table update, no delivery -/
theorem cut_frame_never_handled (cfg : Recv.Cfg) (f : List Nat)
    (h : f.length < 12 + mustHave (byteAt f 5 / 16) (byteAt f 5 % 16)) (hd : Handler) :
    classify cfg f ≠ .handled hd := by
  intro hx
  obtain ⟨h4, hc⟩ := classify_handled_inv cfg f hd hx
  refine cut_header_never_handled _ (f.drop 4) ?_ hd hc
  have e : byteAt (f.drop 4) 1 = byteAt f 5 := byteAt_drop f 4 1
  have l : (f.drop 4).length = f.length - 4 := by simp
  rw [e, l]; omega

/-- whole frame, every configuration, every packet type: Basic Header RHL above Common Header MHL reaches no handler -/
theorem rhl_above_mhl_frame_never_handled (cfg : Recv.Cfg) (f : List Nat) (h : byteAt f 10 < byteAt f 3)
    (hd : Handler) : classify cfg f ≠ .handled hd := by
  intro hx
  obtain ⟨_, hc⟩ := classify_handled_inv cfg f hd hx
  have e : byteAt (f.drop 4) 6 = byteAt f 10 := byteAt_drop f 4 6
  exact rhl_above_mhl_never_handled _ _ (by rw [e]; exact h) hd hc

/-- non-vacuity: a GBC frame cut 2 octets before the end of its extended header (C04-m10's frame) satisfies the
hypothesis of `cut_frame_never_handled`; a beacon with RHL 255 / MHL 1 that of `rhl_above_mhl_frame_never_handled` -/
example : let f := [0x11, 0, 5, 1] ++ [0x20, 0x40, 0, 0x80, 0, 0, 1, 0] ++ List.replicate 42 20
    f.length < 12 + mustHave (byteAt f 5 / 16) (byteAt f 5 % 16) := by decide
example : let f := [0x11, 0, 5, 255] ++ [0x00, 0x10, 0, 0x80, 0, 0, 1, 0] ++ List.replicate 24 20
    byteAt f 10 < byteAt f 3 := by decide
/-- ... and the complete frames are handled (the theorems do not hold for lack of handled frames) -/
example : classify {} ([0x11, 0, 5, 1] ++ [0x20, 0x40, 0, 0x80, 0, 0, 1, 0] ++ List.replicate 44 20) = .handled .gbc := by
  decide
example : classify {} ([0x11, 0, 5, 1] ++ [0x00, 0x10, 0, 0x80, 0, 0, 1, 0] ++ List.replicate 24 20) = .handled .beacon := by
  decide

end Props.C04

/-
C04 — No received frame can stop or derail the receive path.
Property theorems only. Model: `FlexModel/Geo/RecvPath.lean`; the `except` clauses of the receive loops and
the exception class hierarchy are regenerated from `/repo` into `Generated/Except.lean` on every run.
-/
import FlexModel.Geo.RecvPath
import Generated.Except

namespace Props.C04
open FlexModel.Geo.Recv Generated.Except

/-! ## Every exception kind the receive path can raise is caught by each receive loop
(checked against the *generated* except-clauses and MRO: narrowing a clause re-opens these). -/

theorem raw_loop_catches_all (e : Exc) : caught mro rawLoopCatches e = true := by
  cases e <;> decide

theorem cv2x_loop_catches_all (e : Exc) : caught mro cv2xLoopCatches e = true := by
  cases e <;> decide

theorem gn_indicate_catches_all (e : Exc) : caught mro gnIndicateCatches e = true := by
  cases e <;> decide

/-! ## The loop never dies, for every frame processor, state and frame -/

theorem loopStep_never_dead {σ α φ : Type} (catches : List String)
    (hc : ∀ e, caught mro catches e = true)
    (recv : σ → φ → σ × List α × Option Exc) (st : σ) (f : φ) :
    ∀ e, loopStep mro catches recv st f ≠ .dead e := by
  intro e
  unfold loopStep
  rcases h : recv st f with ⟨st', acts, oe⟩
  cases oe with
  | none => simp
  | some e' => simp [hc e']

/-- for every stream of frames (any length, any content) the loop is still alive at the end -/
theorem loopRun_alive {σ α φ : Type} (catches : List String)
    (hc : ∀ e, caught mro catches e = true)
    (recv : σ → φ → σ × List α × Option Exc) (fs : List φ) (st : σ) :
    (loopRun mro catches recv st fs).isSome = true := by
  induction fs generalizing st with
  | nil => simp [loopRun]
  | cons f fs ih =>
    unfold loopRun
    cases hstep : loopStep mro catches recv st f with
    | dead e => exact absurd hstep (loopStep_never_dead catches hc recv st f e)
    | «continue» st' acts =>
      simp only
      have := ih st'
      cases hrun : loopRun mro catches recv st' fs with
      | none => simp [hrun] at this
      | some r => simp

theorem raw_loop_never_dies {σ α φ : Type} (recv : σ → φ → σ × List α × Option Exc) (fs : List φ) (st : σ) :
    (loopRun mro rawLoopCatches recv st fs).isSome = true :=
  loopRun_alive rawLoopCatches raw_loop_catches_all recv fs st

theorem cv2x_loop_never_dies {σ α φ : Type} (recv : σ → φ → σ × List α × Option Exc) (fs : List φ) (st : σ) :
    (loopRun mro cv2xLoopCatches recv st fs).isSome = true :=
  loopRun_alive cv2xLoopCatches cv2x_loop_catches_all recv fs st

/-! ## A frame rejected by the stateless prologue has no effect: later frames are processed as if it had
never been received -/

/-- frames that the prologue rejects (exception or silent drop) -/
def rejected (cfg : Cfg) (f : List Nat) : Prop :=
  (∃ e, classify cfg f = .raised e) ∨ classify cfg f = .dropped

theorem rejected_no_effect {σ α : Type} (cfg : Cfg)
    (handle : σ → Handler → List Nat → σ × List α × Option Exc)
    (verify : σ → List Nat → σ × List α × Option Exc) (st : σ) (f : List Nat)
    (h : rejected cfg f) :
    (recvGN cfg handle verify st f).1 = st ∧ (recvGN cfg handle verify st f).2.1 = [] := by
  unfold recvGN
  rcases h with ⟨e, he⟩ | hd
  · simp [he]
  · simp [hd]

/-- as if never received: a rejected frame at any position of any stream changes neither the final state
nor the actions (deliveries, transmissions) of the run -/
theorem as_if_never_received {σ α : Type} (cfg : Cfg) (catches : List String)
    (hc : ∀ e, caught mro catches e = true)
    (handle : σ → Handler → List Nat → σ × List α × Option Exc)
    (verify : σ → List Nat → σ × List α × Option Exc)
    (pre suf : List (List Nat)) (bad : List Nat) (hbad : rejected cfg bad) (st : σ) :
    loopRun mro catches (recvGN cfg handle verify) st (pre ++ bad :: suf)
      = loopRun mro catches (recvGN cfg handle verify) st (pre ++ suf) := by
  induction pre generalizing st with
  | nil =>
    simp only [List.nil_append]
    have hne := rejected_no_effect cfg handle verify st bad hbad
    conv => lhs; unfold loopRun
    unfold loopStep
    rcases hr : recvGN cfg handle verify st bad with ⟨st', acts, oe⟩
    rw [hr] at hne
    simp only at hne
    obtain ⟨h1, h2⟩ := hne
    subst h1; subst h2
    cases oe with
    | none =>
      simp only
      cases loopRun mro catches (recvGN cfg handle verify) st' suf with
      | none => rfl
      | some r => simp
    | some e =>
      simp only [hc e, if_true]
      cases loopRun mro catches (recvGN cfg handle verify) st' suf with
      | none => rfl
      | some r => simp
  | cons p pre ih =>
    simp only [List.cons_append]
    unfold loopRun
    cases loopStep mro catches (recvGN cfg handle verify) st p with
    | dead e => rfl
    | «continue» st' acts => simp only [ih st']

/-! ## Totality / shape of the prologue -/

/-- frames shorter than the basic header are always rejected -/
theorem short_frame_rejected (cfg : Cfg) (f : List Nat) (h : f.length < 4) : rejected cfg f := by
  left; exact ⟨.decodeError, by simp [classify, h]⟩

/-- unsecured frames are dropped when security is enabled (whatever follows the basic header) -/
theorem unsecured_dropped_when_enabled (cfg : Cfg) (f : List Nat) (hlen : 4 ≤ f.length)
    (hs : cfg.securityEnabled = true) (hnh : byteAt f 0 % 16 = 1) (hv : byteAt f 0 / 16 = cfg.version) :
    classify cfg f = .dropped := by
  have : ¬ f.length < 4 := by omega
  have h1 : Generated.Enums.BasicNH_values.contains 1 = true := by decide
  unfold classify
  rw [if_neg this]
  simp only [hnh, h1, hv, hs]
  simp

/-- a remaining hop limit above the maximum hop limit is never handled -/
theorem rhl_above_mhl_rejected (rhl : Nat) (p : List Nat) (h : byteAt p 6 < rhl) :
    ∀ hd, commonStage rhl p ≠ .handled hd := by
  intro hd
  unfold commonStage
  by_cases h0 : p.length < 8
  · rw [if_pos h0]; exact fun x => Outcome.noConfusion x
  · rw [if_neg h0]
    simp only
    by_cases h1 : (!Generated.Enums.CommonNH_values.contains (byteAt p 0 / 16)) = true
    · rw [if_pos h1]; exact fun x => Outcome.noConfusion x
    · rw [if_neg h1]
      by_cases h2 : (!Generated.Enums.HeaderType_values.contains (byteAt p 1 / 16)) = true
      · rw [if_pos h2]; exact fun x => Outcome.noConfusion x
      · rw [if_neg h2]
        by_cases h3 : (!hstOk (byteAt p 1 / 16) (byteAt p 1 % 16)) = true
        · rw [if_pos h3]; exact fun x => Outcome.noConfusion x
        · rw [if_neg h3, if_pos h]; exact fun x => Outcome.noConfusion x

/-! ## MAC filter -/

theorem own_frames_ignored (own dst : List Nat) (h : dst ≠ own) : macAccept own dst own = false := by
  simp [macAccept, h]

theorem foreign_unicast_ignored (own dst src : List Nat) (h1 : dst ≠ own)
    (h2 : dst ≠ [255, 255, 255, 255, 255, 255]) : macAccept own dst src = false := by
  simp [macAccept, h1, h2]

theorem broadcast_from_other_accepted (own src : List Nat) (h : src ≠ own) :
    macAccept own [255, 255, 255, 255, 255, 255] src = true := by
  simp [macAccept, h]

/-! ## Non-vacuity -/
example : classify {} [0x11, 0, 5, 1] = .raised .decodeError := by decide
example : rejected {} [0x13, 0, 5, 1, 0, 0, 0, 0] := by left; exact ⟨.valueError, by decide⟩
example : classify {} ([0x11, 0, 5, 1] ++ [0x20, 0x50, 0, 0x80, 0, 0, 1, 0] ++ List.replicate 28 0) = .handled .shb := by decide

end Props.C04

/-
C18 — VRU clustering state machine stays consistent and never silences a VRU for good.
Property theorems only.  Model: `FlexModel/Vru/Cluster.lean` (all public methods of `VBSClusteringManager` as
transitions, time in ms in the state, `tick d` advances the clock); helper lemmas: `FlexModel/Vru/ClusterLemmas.lean`.

`Variant` selects the code variant: `{}` (all flags false) is the code as it is after the `fix:` commits;
`cpmFrees := true` is the repaired variant of known finding C18-KF1; `hbAny`, `tupleFails`, `joinHidesLeave`,
`createDuringNotify`, `cancelHidesLeave` are the behaviours before the fixes (only used in `_witness` theorems).
Every theorem quantifies over all reachable states / all event sequences; nothing is bounded.

Atomicity: the model makes every public method ONE transition.  That rests on the regenerated structural facts of
`Generated/VruLocks.lean` (harness/gen_vru.py, `ast` pass over vru_clustering.py), discharged by `decide` in
`public_methods_atomic` below: a public method that loses its `with self._lock:` re-opens that obligation.

Round 4 - received enumerations: what a received VAM can carry is defined by the ASN.1 module, not by the Python enums.
`Generated/VamEnums.lean` (harness/gen_vru.py) re-reads the complete reason tables from the repository's ASN.1 text and
the conversions of received data into a Python Enum that the receive path performs; `received_enumerations_total`
(`decide`) demands that every such conversion is total on the ASN.1 type, `breakup_frees_every_asn1_reason` instantiates
the break-up clause with EVERY value of the table (also those the Python enum does not list, e.g. `max`).
-/
import FlexModel.Vru.ClusterLemmas
import Generated.VruLocks
import Generated.VamEnums
import FlexModel.Vru.ClusterAtomic

namespace Props.C18
open FlexModel.Vru Generated.VamConstants

/-- states reachable from a fresh manager by ANY event sequence (the clock never goes back: `tick d`, d : Nat);
the only side condition is the contract of `random.randint(1, 255)` on the cluster-id draws -/
def Reachable (var : Variant) (s : St) : Prop :=
  ∃ now p ops, (∀ op ∈ ops, Op.WF op) ∧ s = run var (St.init now p) ops

theorem reachable_inv {var : Variant} {s : St} (h : Reachable var s) : Inv s := by
  obtain ⟨now, p, ops, hw, rfl⟩ := h
  exact inv_run (inv_init now p) ops hw

/-- reachability is closed under further (well-formed) events -/
theorem reachable_step {var : Variant} {s : St} (h : Reachable var s) (op : Op) (hw : op.WF) :
    Reachable var (step var s op).1 := by
  obtain ⟨now, p, ops, hws, rfl⟩ := h
  refine ⟨now, p, ops ++ [op], ?_, ?_⟩
  · intro o ho
    rcases List.mem_append.mp ho with h | h
    · exact hws o h
    · simp at h; subst h; exact hw
  · simp [run, List.foldl_append]

/-- Table 15 of TS 103 300-3 as found in vam_constants.py (regenerated on every run): the durations the theorems
below are about.  A changed constant re-opens this obligation. -/
theorem table15_values :
    timeClusterJoinNotification = 3000 ∧ timeClusterLeaveNotification = 1000 ∧ timeClusterBreakupWarning = 3000 ∧
    timeClusterContinuity = 2000 ∧ timeClusterJoinSuccess = 500 := by decide

/-- LOCK DISCIPLINE (regenerated from the source on every run): every public method of `VBSClusteringManager` that
touches the manager's state has its whole body inside one `with self._lock:` block; no private helper ("must be called
with the lock held") is called by a public method outside such a block; the lock is re-entrant (public methods call
public methods: `update → confirm_join_failed`, `trigger_leave_cluster → cancel_join`); and the public mutators are
exactly the events of the model (`Op` minus the clock step), so no state-changing entry point is unmodelled. -/
theorem public_methods_atomic :
    (∀ m ∈ Generated.VruLocks.methods, m.isPublic = true → m.touchesState = true → m.underLock = true) ∧
    Generated.VruLocks.unlockedHelperCalls = [] ∧ Generated.VruLocks.lockReentrant = true ∧
    ((Generated.VruLocks.methods.filter (fun m => m.isPublic && m.mutates)).map (·.name) =
      ["set_vru_role_on", "set_vru_role_off", "try_create_cluster", "initiate_join", "cancel_join",
       "confirm_join_failed", "trigger_leave_cluster", "trigger_breakup_cluster", "update", "on_received_vam"]) := by
  decide

/-! ## Consistency of the state -/

/-- leader exactly when it owns a cluster with identifier 1..255 and cardinality ≥ 1 -/
theorem leader_iff {var : Variant} {s : St} (h : Reachable var s) :
    s.state = .leader ↔ ∃ c, s.cluster = some c ∧ 1 ≤ c.cid ∧ c.cid ≤ 255 ∧ 1 ≤ c.card := by
  have hi := reachable_inv h
  constructor
  · intro hl
    have := hi.leaderCluster.mp hl
    cases hc : s.cluster with
    | none => simp [hc] at this
    | some c => exact ⟨c, rfl, hi.clusterOk c hc⟩
  · rintro ⟨c, hc, _⟩
    exact hi.leaderCluster.mpr (by simp [hc])

/-- the same on the public API: the information container exists exactly for a leader and carries an identifier
in 1..255 and a cardinality ≥ 1 -/
theorem leader_iff_info_container {var : Variant} {s : St} (h : Reachable var s) :
    (s.state = .leader ↔ (infoContainer s).isSome = true) ∧
    ∀ cid r k p, infoContainer s = some (cid, r, k, p) → 1 ≤ cid ∧ cid ≤ 255 ∧ 1 ≤ k ∧ clusterId s = some cid := by
  have hi := reachable_inv h
  constructor
  · constructor
    · intro hl
      obtain ⟨c, hc, _⟩ := (leader_iff h).mp hl
      simp [infoContainer, hl, hc]
    · intro hs
      unfold infoContainer at hs
      split at hs
      · assumption
      · simp at hs
  · intro cid r k p hc
    unfold infoContainer at hc
    split at hc
    · rename_i c hl hcl
      simp only [Option.some.injEq, Prod.mk.injEq] at hc
      obtain ⟨rfl, _, rfl, _⟩ := hc
      have := hi.clusterOk c hcl
      simp [clusterId, hl, hcl, this]
    · simp at hc

/-- passive exactly when joined to a cluster with a known leader and an armed leader-lost timer
(and outside passive none of the three is left over) -/
theorem passive_iff {var : Variant} {s : St} (h : Reachable var s) :
    (s.state = .passive ↔ (s.joined.isSome = true ∧ s.leader.isSome = true ∧ s.last.isSome = true)) ∧
    (s.state ≠ .passive → s.joined = none ∧ s.leader = none ∧ s.last = none) := by
  have hi := reachable_inv h
  refine ⟨⟨hi.passiveMem, ?_⟩, hi.otherMem⟩
  intro hm
  by_cases hp : s.state = .passive
  · exact hp
  · have := hi.otherMem hp
    simp [this.1] at hm

/-- DEFINITION CHECK (not a claimed result: it unfolds `shouldTransmit`, the transcription of `should_transmit_vam`):
transmission is suppressed only while passive or idle -/
theorem suppressed_only_passive_idle (s : St) (h : shouldTransmit s = false) :
    s.state = .passive ∨ s.state = .idle := by
  unfold shouldTransmit at h
  split at h <;> simp_all

/-- … and a reachable passive station is indeed silent (no leave notification can be pending there) -/
theorem passive_suppressed {var : Variant} {s : St} (h : Reachable var s) (hp : s.state = .passive) :
    shouldTransmit s = false := by
  have := (reachable_inv h).passiveNoLeave hp
  simp [shouldTransmit, hp, this]

/-- on the emission function (what the station puts on the air): a reachable station emits a VAM exactly when it is
stand-alone or leader; the emitted VAM carries the information container exactly for a leader -/
theorem emits_iff_active {var : Variant} {s : St} (h : Reachable var s) (sid : Nat) (x y : Int) :
    ((emitVam var sid x y s).isSome = true ↔ (s.state = .standalone ∨ s.state = .leader)) ∧
    ∀ v, emitVam var sid x y s = some v → (v.info.isSome = true ↔ s.state = .leader) := by
  have hps := fun hp => passive_suppressed h hp
  constructor
  · unfold emitVam
    cases hs : s.state <;> simp_all [shouldTransmit]
  · intro v hv
    unfold emitVam at hv
    split at hv
    · simp only [Option.some.injEq] at hv
      subst hv
      simp only [Option.isSome_map]
      exact ((leader_iff_info_container h).1).symm
    · simp at hv

/-- none of the `assert … is not None` statements of `update()` can fire -/
theorem no_assertion {var : Variant} {s : St} (h : Reachable var s) : s.err = false := (reachable_inv h).noErr

/-! ## Never silenced for good -/

/-- leader silent for timeClusterContinuity: stand-alone and transmitting after the next update
(any state with these fields, any clock advance `d` before the update) -/
theorem leader_lost {var : Variant} {s : St} {t : Nat} (d : Nat) (hp : s.state = .passive) (hl : s.last = some t)
    (hs : s.now + d - t ≥ timeClusterContinuity) :
    let s' := run var s [.tick d, .update]
    s'.state = .standalone ∧ shouldTransmit s' = true := by
  simp only [run, List.foldl_cons, List.foldl_nil, step]
  exact leader_lost_update (s := { s with now := s.now + d }) hp hl hs

/-- … and not earlier: before timeClusterContinuity has elapsed an update keeps the membership -/
theorem leader_not_lost_early {var : Variant} {s : St} {t : Nat} (hp : s.state = .passive) (hl : s.last = some t)
    (hs : s.now - t < timeClusterContinuity) : (update var s).state = .passive := by
  unfold update
  have he : (expire s).state = .passive := by simp [expire, hp]
  simp only [he]
  unfold updPassive
  have h1 : (expire s).last = some t := by simp [expire, hl]
  have h2 : ¬ (expire s).now - t ≥ timeClusterContinuity := by simp only [expire]; omega
  simp only [h1, h2, if_false]
  rw [(updLeaveNotify_fields (expire s)).1]; exact he

/-- Break-up announced by the leader, EVERY reason — holds for the REPAIRED VARIANT `cpmFrees := true` of known finding
C18-KF1 only, which is NOT the code in the repository (there the clause is `breakup_frees_partial`; what the code
guarantees for the CPM reason is the bounded release of `passive_only_while_leader_heard`): the member is stand-alone
and transmitting right after the reception, hence by the next update -/
theorem breakup_frees {var : Variant} (hc : var.cpmFrees = true) (ht : var.tupleFails = false)
    {s : St} {v : Vam} {o : OpC} {r : Nat} (d : Nat)
    (hp : s.state = .passive) (hl : s.leader = some v.sender) (ho : v.op = some o) (hb : o.breakup = some r) :
    let s' := run var s [.recv v, .tick d, .update]
    s'.state = .standalone ∧ shouldTransmit s' = true := by
  have hab : recvAborted var v = false := by simp [recvAborted, ht]
  obtain ⟨h1, _⟩ := recv_breakup_frees (var := var) hab hp hl ho hb (Or.inr hc)
  simp only [run, List.foldl_cons, List.foldl_nil, step]
  have h2 := update_state_of_standalone (var := var) (s := { recv var s v with now := (recv var s v).now + d }) h1
  exact ⟨h2, by simp [shouldTransmit, h2]⟩

/-- The code as it is (`cpmFrees := false`): the same outside the known region
`clusterBreakupReason = receptionOfCpmContainingCluster` (C18-KF1) -/
theorem breakup_frees_partial {var : Variant} (ht : var.tupleFails = false)
    {s : St} {v : Vam} {o : OpC} {r : Nat} (d : Nat)
    (hp : s.state = .passive) (hl : s.leader = some v.sender) (ho : v.op = some o) (hb : o.breakup = some r)
    (hr : r ≠ breakupCpm) :
    let s' := run var s [.recv v, .tick d, .update]
    s'.state = .standalone ∧ shouldTransmit s' = true := by
  have hab : recvAborted var v = false := by simp [recvAborted, ht]
  obtain ⟨h1, _⟩ := recv_breakup_frees (var := var) hab hp hl ho hb (Or.inl hr)
  simp only [run, List.foldl_cons, List.foldl_nil, step]
  have h2 := update_state_of_standalone (var := var) (s := { recv var s v with now := (recv var s v).now + d }) h1
  exact ⟨h2, by simp [shouldTransmit, h2]⟩

/-- a member of cluster 9 led by station 21, reached through the public API -/
def passiveWitness : List Op :=
  [.initiateJoin 9, .tick 3000, .update, .tick 50,
   .recv { sender := 21, x := 300, y := 0, info := some { cid := some 9, card := 2, shape := .circular }, op := none }]

def cpmBreakupVam : Vam :=
  { sender := 21, x := 300, y := 0, info := some { cid := some 9, card := 2, shape := .circular },
    op := some { join := none, leave := none, breakup := some breakupCpm } }

/-- C18-KF1: with the code as it is, the CPM break-up leaves the member passive and silent after the next update -/
theorem breakup_cpm_witness :
    let s' := run {} (St.init 1000000 128) (passiveWitness ++ [.recv cpmBreakupVam, .tick 50, .update])
    s'.state = .passive ∧ shouldTransmit s' = false := by decide

/-- … but it is released timeClusterContinuity after the leader's last cluster VAM, whatever the ex-leader's
individual VAMs do (this is what fix C18-F2 bought) -/
theorem breakup_cpm_bounded_witness :
    let plain : Vam := { sender := 21, x := 300, y := 0, info := none, op := none }
    let s' := run {} (St.init 1000000 128)
      (passiveWitness ++ [.recv cpmBreakupVam, .tick 1000, .recv plain, .update, .tick 1000, .recv plain, .update])
    s'.state = .standalone ∧ shouldTransmit s' = true := by decide

/-! ## Received enumerations (round 4) -/

/-- RECEIVED ENUMERATIONS ARE TOTAL (regenerated from the source on every run).  Wherever the receive path (the methods
reachable from `on_received_vam`) converts received data into a Python `Enum`, that enum lists EVERY identifier of the
ASN.1 ENUMERATED of the same name: a conversion that raises for a value the decoder can deliver makes the manager drop a
valid VAM - break-up announcement and heartbeat included (seeded change C18-m4: `ClusterBreakupReason(<received>)`, the
Python enum lacks the ASN.1 value `max`).  In the code as it is there is no conversion at all: reasons are compared as
strings, so every unknown reason takes the generic branch the model has (`r ≠ breakupCpm`). -/
theorem received_enumerations_total :
    ∀ c ∈ Generated.VamEnums.rxEnumConversions, c.2.2 = [] := by decide

/-- RECEIVED CHOICES ARE READ BY THE ALTERNATIVE PRESENT (round 5; regenerated from the source on every run by
`harness/gen_vru.py rx_choice_subscripts`).  A decoded CHOICE holds exactly one alternative; wherever the receive path
(the methods reachable from `on_received_vam`) subscripts received data by the NAME of a CHOICE alternative of the VAM
(`<x>["circular"]`), that very key was tested first - so a legal VAM carrying another alternative (a rectangular or
polygonal `clusterBoundingBoxShape` from another vendor's leader) cannot raise KeyError and be dropped as 'malformed'
after the nearby-VRU table (seeded change C18-m8: the `"circular" in bbox` guard lost in a tidy-up).  The shape CHOICE of
the repository's ASN.1 module has `circular` and at least one other alternative. -/
theorem received_choice_subscripts_guarded :
    Generated.VamEnums.rxUnguardedChoiceSubscripts = [] ∧
    "circular" ∈ Generated.VamEnums.boundingBoxShapes ∧ "rectangular" ∈ Generated.VamEnums.boundingBoxShapes ∧
    "polygonal" ∈ Generated.VamEnums.boundingBoxShapes := by decide

/-- the reason numbers of the model are those of the repository's ASN.1 table, the Python enums list ASN.1
identifiers only, and the numbers of the break-up table are pairwise different (a number identifies the reason) -/
theorem reason_tables :
    ("receptionOfCpmContainingCluster", breakupCpm) ∈ Generated.VamEnums.breakupReasons ∧
    ("notProvided", breakupNotProvided) ∈ Generated.VamEnums.breakupReasons ∧
    ("clusterDisbandedByLeader", leaveDisbandedByLeader) ∈ Generated.VamEnums.leaveReasons ∧
    (∀ v ∈ Generated.VamEnums.pyBreakupReasons, v ∈ Generated.VamEnums.breakupReasons.map (·.1)) ∧
    (∀ v ∈ Generated.VamEnums.pyLeaveReasons, v ∈ Generated.VamEnums.leaveReasons.map (·.1)) ∧
    (Generated.VamEnums.breakupReasons.map (·.2)).Nodup ∧
    (∀ r ∈ Generated.VamEnums.breakupReasons, r.1 ≠ "receptionOfCpmContainingCluster" → r.2 ≠ breakupCpm) := by
  decide

/-- BREAK-UP, EVERY VALUE THE DECODER CAN DELIVER.  The leader announces the break-up with ANY reason of the ASN.1
table other than receptionOfCpmContainingCluster (known finding C18-KF1) - also one the Python enum of the repository
does not list: the member is stand-alone and transmitting by the next update. -/
theorem breakup_frees_every_asn1_reason {var : Variant} (ht : var.tupleFails = false)
    {s : St} {v : Vam} {o : OpC} (d : Nat) (r : String × Nat) (hr : r ∈ Generated.VamEnums.breakupReasons)
    (hn : r.1 ≠ "receptionOfCpmContainingCluster")
    (hp : s.state = .passive) (hl : s.leader = some v.sender) (ho : v.op = some o) (hb : o.breakup = some r.2) :
    let s' := run var s [.recv v, .tick d, .update]
    s'.state = .standalone ∧ shouldTransmit s' = true :=
  breakup_frees_partial ht d hp hl ho hb (reason_tables.2.2.2.2.2.2 r hr hn)

/-- non-vacuity: the table has reasons other than CPM, and for each of them a member reached through the public API is
freed by the leader's announcement (the run is computed for every row of the regenerated table) -/
example :
    (∃ r ∈ Generated.VamEnums.breakupReasons, r.1 ≠ "receptionOfCpmContainingCluster") ∧
    ∀ r ∈ Generated.VamEnums.breakupReasons, r.1 ≠ "receptionOfCpmContainingCluster" →
      (run {} (St.init 1000000 128) (passiveWitness ++
        [.recv { cpmBreakupVam with op := some { join := none, leave := none, breakup := some r.2 } }, .tick 50, .update])).state
        = .standalone := by
  decide

/-- Where membership and the leader-lost timer come from: a step ends in passive only if the station was passive
with unchanged leader / cluster / timer, or the event is the reception of a cluster VAM (information container)
whose sender is now the leader, whose cluster id is the joined cluster, and the timer was armed at that instant.
In particular an individual VAM of the leader's station never re-arms the timer. -/
theorem heartbeat_only_cluster_vam {var : Variant} (hv : var.hbAny = false) {s : St} (op : Op)
    (hp' : (step var s op).1.state = .passive) :
    (s.state = .passive ∧ (step var s op).1.leader = s.leader ∧ (step var s op).1.joined = s.joined ∧
      (step var s op).1.last = s.last) ∨
    (∃ v i, op = .recv v ∧ v.info = some i ∧ (step var s op).1.leader = some v.sender ∧
      (step var s op).1.joined = some (i.cid.getD 0) ∧ (step var s op).1.last = some (step var s op).1.now) :=
  step_passive_origin hv op hp'

/-- NOT SILENCED FOR GOOD (member's view).  A passive member of cluster `c` led by station `l` whose leader-lost timer
shows `t`: after ANY sequence of events that contains no cluster VAM of cluster `c` sent by `l` — cluster VAMs of other
clusters, of a cluster with the same id advertised by another station, cluster VAMs of `l` for a NEW cluster, individual
VAMs of anybody, commands, updates and clock steps are all allowed — an update at least timeClusterContinuity after
`t` leaves the station no longer a silent member of that cluster: it is not passive, or it is passive in a DIFFERENT
membership (which it can only have acquired by a fresh admission, see `passive_only_while_leader_heard`);
and whenever it is neither passive nor idle it transmits. -/
theorem not_silenced_for_good {var : Variant} (hv : var.hbAny = false) {s : St} {l c t : Nat}
    (ht : s.last = some t) (ops : List Op) (hq : ∀ op ∈ ops, QuietFor l c op)
    (hs : (run var s ops).now - t ≥ timeClusterContinuity) :
    let s' := update var (run var s ops)
    ¬ (s'.state = .passive ∧ s'.leader = some l ∧ s'.joined = some c) ∧
    (s'.state ≠ .passive → s'.state ≠ .idle → shouldTransmit s' = true) := by
  intro s'
  constructor
  · rintro ⟨hp, hl, hj⟩
    obtain ⟨h1, h2, h3, _⟩ := update_passive_origin hp
    obtain ⟨_, _, _, g4⟩ := run_quiet_for hv ops s hq h1 (h2 ▸ hl) (h3 ▸ hj)
    rw [ht] at g4
    have := (leader_lost_update (var := var) h1 g4 hs).1
    rw [this] at hp
    exact absurd hp (by decide)
  · intro h1 h2
    unfold shouldTransmit
    split <;> simp_all

/-- events during which no cluster VAM at all is heard (the hypothesis of the round-1 theorem) are a special case -/
theorem quietFor_of_no_cluster_vam {l c : Nat} {op : Op} (h : ∀ v, op = .recv v → v.info = none) : QuietFor l c op := by
  cases op with
  | recv v => simp [QuietFor, h v rfl]
  | _ => trivial

/-- NOT SILENCED FOR GOOD (all histories).  Whatever happened since the manager was created: if the station is passive
after an update, then it is a member of some cluster `c` led by some `l` and the history contains a cluster VAM of
cluster `c` sent by `l` that was received LESS THAN timeClusterContinuity ago.  Equivalently: a leader that has not
sent a cluster VAM of the joined cluster for timeClusterContinuity (silent, out of range, cluster disbanded — also with
the CPM reason of C18-KF1 —, role switched off, new cluster founded under another id) has no passive member left after
the member's next update. -/
theorem passive_only_while_leader_heard {var : Variant} (hv : var.hbAny = false) (now p : Nat) (ops : List Op)
    (hw : ∀ op ∈ ops, Op.WF op) :
    let s := run var (St.init now p) ops
    (update var s).state = .passive →
    ∃ l c t pre v i post, (update var s).leader = some l ∧ (update var s).joined = some c ∧
      ops = pre ++ .recv v :: post ∧ v.sender = l ∧ v.info = some i ∧ i.cid.getD 0 = c ∧
      (run var (St.init now p) pre).now = t ∧ s.now - t < timeClusterContinuity := by
  intro s hp
  obtain ⟨h1, h2, h3, _⟩ := update_passive_origin hp
  have hinv : Inv s := inv_run (inv_init now p) ops hw
  obtain ⟨g1, g2, g3⟩ := hinv.passiveMem h1
  cases hl : s.leader with
  | none => simp [hl] at g2
  | some l =>
    cases hj : s.joined with
    | none => simp [hj] at g1
    | some c =>
      cases ht : s.last with
      | none => simp [ht] at g3
      | some t =>
        rcases run_heard_origin hv ops (St.init now p) l c t h1 hl hj ht with ⟨h0, _⟩ | ⟨pre, v, i, post, e, k1, k2, k3, k4⟩
        · simp [St.init] at h0
        · refine ⟨l, c, t, pre, v, i, post, h2.trans hl, h3.trans hj, e, k1, k2, k3, k4, ?_⟩
          by_cases hlt : s.now - t < timeClusterContinuity
          · exact hlt
          · have := (leader_lost_update (var := var) h1 ht (by omega)).1
            rw [this] at hp
            exact absurd hp (by decide)

/-- one round of the old defect: a second passes, the ex-leader sends an individual VAM, update -/
def oldRound : List Op :=
  [.tick 1000, .recv { sender := 21, x := 300, y := 0, info := none, op := none }, .update]

/-- Before fix C18-F2 (`hbAny := true`) a member WAS silenced for good: individual VAMs of station 21 keep it
passive and silent through any number of rounds (the situation after a CPM break-up) -/
theorem silenced_for_good_old_witness (n : Nat) :
    let s0 := run { hbAny := true } (St.init 1000000 128) passiveWitness
    let s' := run { hbAny := true } s0 (List.flatten (List.replicate n oldRound))
    s'.state = .passive ∧ shouldTransmit s' = false := by
  intro s0
  have key : ∀ n (s : St), (s.state = .passive ∧ s.leader = some 21 ∧ s.last = some s.now ∧ s.leaveNotify = false) →
      let s' := run { hbAny := true } s (List.flatten (List.replicate n oldRound))
      s'.state = .passive ∧ s'.leader = some 21 ∧ s'.last = some s'.now ∧ s'.leaveNotify = false := by
    intro n
    induction n with
    | zero => intro s h; simpa [run] using h
    | succ k ih =>
      intro s h
      obtain ⟨h1, h2, h3, h4⟩ := h
      simp only [List.replicate_succ, List.flatten_cons, run, List.foldl_append]
      apply ih
      simp only [oldRound, List.foldl_cons, List.foldl_nil, step]
      have hr : recv { hbAny := true } { s with now := s.now + 1000 }
            { sender := 21, x := 300, y := 0, info := none, op := none } =
          { s with now := s.now + 1000, last := some (s.now + 1000),
                   vrus := upsertVru s.vrus { station := 21, x := 300, y := 0, lastSeen := s.now + 1000 } } := by
        simp [recv, recvAborted, recvVrus, recvInfoOpt, recvOpOpt, recvHb, isHeartbeat, h1, h2]
      rw [hr]
      have hc : timeClusterContinuity = 2000 := by decide
      simp [update, expire, updPassive, updLeaveNotify, h1, h2, h4, hc]
  have h0 : s0.state = .passive ∧ s0.leader = some 21 ∧ s0.last = some s0.now ∧ s0.leaveNotify = false := by decide
  obtain ⟨h1, _, _, h4⟩ := key n s0 h0
  exact ⟨h1, by simp [shouldTransmit, h1, h4]⟩

/-! ## Join towards an advertised cluster -/

/-- a station waiting for admission that receives a cluster VAM of the target cluster (as the decoder returns it,
any bounding-box shape) becomes a silent member of that cluster led by the sender, timer armed now — unless the
very same VAM announces the break-up -/
theorem join_completes {var : Variant} (ht : var.tupleFails = false) {s : St} (hr : Reachable var s)
    {v : Vam} {i : Info} {cid : Nat}
    (hs : s.state = .standalone) (hw : s.joinSub = .waiting) (htg : s.joinTarget = some cid)
    (hi : v.info = some i) (hc : i.cid.getD 0 = cid) (hb : ∀ o, v.op = some o → o.breakup = none) :
    let s' := recv var s v
    s'.state = .passive ∧ s'.joined = some cid ∧ s'.leader = some v.sender ∧ s'.last = some s.now ∧
      clusterId s' = some cid ∧ shouldTransmit s' = false := by
  have hinv := reachable_inv hr
  have hab : recvAborted var v = false := by simp [recvAborted, ht]
  intro s'
  have e : s' = recvHb var (recvOpOpt var (recvInfoOpt (recvVrus s v) v) v) v := recv_of_not_aborted hab
  have h1 : recvInfoOpt (recvVrus s v) v =
      completeJoin { recvVrus s v with
        clusters := upsertCluster s.clusters { cid := cid, leader := v.sender, card := i.card, lastSeen := s.now },
        seen := if seenHas s.seen cid then s.seen else s.seen ++ [(cid, s.now)] } v.sender := by
    simp [recvInfoOpt, hi, recvInfo, recvVrus, hs, hw, htg, hc]
  have hp1 : (recvInfoOpt (recvVrus s v) v).state = .passive := by rw [h1]; rfl
  have h2 : recvOpOpt var (recvInfoOpt (recvVrus s v) v) v = recvInfoOpt (recvVrus s v) v := by
    unfold recvOpOpt
    cases ho : v.op with
    | none => rfl
    | some o =>
      simp only [recvOp, recvTrack_passive _ _ hp1, hb o ho]
  rw [h2] at e
  obtain ⟨f1, f2, f3, f4, f5⟩ := recvHb_fields var (recvInfoOpt (recvVrus s v) v) v
  have f6 := recvHb_last var (recvInfoOpt (recvVrus s v) v) v
  rw [← e] at f1 f2 f3 f4 f5 f6
  have hnl : s.leaveNotify = false := hinv.waitingNoLeave hw
  have g1 : s'.state = .passive := by rw [f1, h1]; rfl
  have g2 : s'.joined = some cid := by rw [f3, h1]; simp [completeJoin, recvVrus, htg]
  have g3 : s'.leader = some v.sender := by rw [f2, h1]; rfl
  have g4 : s'.last = some s.now := by
    rw [f6]; split
    · rw [h1]; rfl
    · rw [h1]; rfl
  have g5 : s'.leaveNotify = false := by rw [f5, h1]; simpa [completeJoin, recvVrus] using hnl
  exact ⟨g1, g2, g3, g4, by simp [clusterId, g1, g2], by simp [shouldTransmit, g1, g5]⟩

/-- JOIN, EVERY BOUNDING-BOX SHAPE THE DECODER CAN DELIVER (round 5).  The advertised cluster carries ANY alternative of
the `clusterBoundingBoxShape` CHOICE of the repository's ASN.1 module (`Generated.VamEnums.boundingBoxShapes`: FlexStack's
own leaders send `circular`, other vendors' may send `rectangular`, `polygonal`, …): the waiting station becomes a
silent member of the cluster led by the sender, timer armed now.  (Heartbeat - `leader_not_lost_early`,
`heartbeat_only_cluster_vam` - and break-up - `breakup_frees_every_asn1_reason` - do not mention the shape at all.) -/
theorem join_completes_every_bounding_box_shape {var : Variant} (ht : var.tupleFails = false) {s : St}
    (hr : Reachable var s) (alt : String) (_halt : alt ∈ Generated.VamEnums.boundingBoxShapes)
    {v : Vam} {i : Info} {cid : Nat}
    (hs : s.state = .standalone) (hw : s.joinSub = .waiting) (htg : s.joinTarget = some cid)
    (hi : v.info = some i) (_hsh : i.shape = Shape.ofAlternative alt) (hc : i.cid.getD 0 = cid)
    (hb : ∀ o, v.op = some o → o.breakup = none) :
    let s' := recv var s v
    s'.state = .passive ∧ s'.joined = some cid ∧ s'.leader = some v.sender ∧ s'.last = some s.now ∧
      clusterId s' = some cid ∧ shouldTransmit s' = false :=
  join_completes ht hr hs hw htg hi hc hb

/-- non-vacuity: a waiting station (join towards cluster 9 requested, notification time over) hears cluster 9 advertised
by station 21 with every alternative of the shape CHOICE: passive towards 9, led by 21, silent - and the cluster is in
its table of nearby clusters -/
example :
    ∀ alt ∈ Generated.VamEnums.boundingBoxShapes,
      let s := run {} (St.init 1000000 128) [.initiateJoin 9, .tick 3000, .update, .tick 50]
      let s' := recv {} s { sender := 21, x := 300, y := 0,
                            info := some { cid := some 9, card := 2, shape := Shape.ofAlternative alt }, op := none }
      s.joinSub = .waiting ∧ s'.state = .passive ∧ s'.joined = some 9 ∧ s'.leader = some 21 ∧
        s'.clusters.map (·.cid) = [9] := by decide

/-- Before fix C18-F1 (`tupleFails := true`) a decoded cluster VAM with the circular bounding box every leader
sends was dropped after the nearby-VRU table: nothing else changes, so no join ever completed -/
theorem join_never_completes_old_witness {s : St} {v : Vam} {i : Info}
    (hi : v.info = some i) (hc : i.shape = .circular) :
    recv { tupleFails := true } s v = recvVrus s v ∧ (recv { tupleFails := true } s v).state = s.state := by
  have hab : recvAborted { tupleFails := true } v = true := by simp [recvAborted, hi, hc]
  rw [recv_of_aborted hab]
  exact ⟨rfl, rfl⟩

/-! ## Notification durations -/

/-- time fields of the operation container are always encodable as DeltaTimeQuarterSecond (1..127): for the function … -/
theorem quarters_range (left : Nat) : 1 ≤ quarters left ∧ quarters left ≤ 127 := FlexModel.Vru.quarters_range left

/-- … and for every operation container the manager can return, in every state (fix C18-F5; seeded change C18-m2
re-opens this) -/
theorem op_container_times_encodable {var : Variant} {s : St} {o : OpOut} (h : opContainer var s = some o) :
    (∀ j, o.join = some j → 1 ≤ j.2 ∧ j.2 ≤ 127) ∧ (∀ b, o.breakup = some b → 1 ≤ b.2 ∧ b.2 ≤ 127) :=
  opContainer_times h

/-- join notification: while less than timeClusterJoinNotification has elapsed an update keeps announcing the
join (same target, same start), with the remaining time in quarter seconds -/
theorem join_notification_lasts {var : Variant} {s : St} {t0 cid : Nat}
    (hs : s.state = .standalone) (hj : s.joinSub = .notify) (ht : s.joinStarted = some t0) (hc : s.joinTarget = some cid)
    (h0 : 0 < t0) (hlt : s.now - t0 < timeClusterJoinNotification) :
    let s' := update var s
    s'.state = .standalone ∧ s'.joinSub = .notify ∧ s'.joinStarted = some t0 ∧
    ∃ o, opContainer var s' = some o ∧ o.join = some (cid, quarters (timeClusterJoinNotification - (s.now - t0))) := by
  obtain ⟨g1, g2, g3, g4⟩ := update_keeps_notify (var := var) hs hj ht hlt
  intro s'
  refine ⟨g1, g2, g3, ?_⟩
  have hnow : s'.now = s.now := update_now var s
  have ht0 : t0 ≠ 0 := by omega
  have hjn : (standaloneOp var s').join = some (cid, quarters (timeClusterJoinNotification - (s.now - t0))) := by
    simp [standaloneOp, s', g2, g3, g4, hc, quarterLeft, hnow, ht0]
  exact ⟨_, by simp only [opContainer, s', g1]; exact orNone_of_join hjn, hjn⟩

/-- … and the first update at or after timeClusterJoinNotification ends it: waiting for admission (same target), no
`clusterJoinInfo` any more -/
theorem join_notification_ends {var : Variant} {s : St} {t0 : Nat}
    (hs : s.state = .standalone) (hj : s.joinSub = .notify) (ht : s.joinStarted = some t0)
    (hge : s.now - t0 ≥ timeClusterJoinNotification) :
    let s' := update var s
    s'.state = .standalone ∧ s'.joinSub = .waiting ∧ s'.joinStarted = some s.now ∧ s'.joinTarget = s.joinTarget ∧
    ∀ o, opContainer var s' = some o → o.join = none := by
  have e : update var s = updLeaveNotify { expire s with joinSub := .waiting, joinStarted := some s.now, state := .standalone } := by
    simp [update, expire, hs, updStandalone, updJoin, hj, ht, hge]
  intro s'
  have es : s' = _ := e
  obtain ⟨g1, _, _, _, _⟩ := updLeaveNotify_fields
    { expire s with joinSub := .waiting, joinStarted := some s.now, state := .standalone }
  have g6 : s'.joinSub = .waiting ∧ s'.joinStarted = some s.now ∧ s'.joinTarget = s.joinTarget := by
    rw [es]; unfold updLeaveNotify clearLeave
    repeat' split
    all_goals simp [expire]
  have hst : s'.state = .standalone := by rw [es, g1]
  refine ⟨hst, g6.1, g6.2.1, g6.2.2, ?_⟩
  intro o ho
  simp only [opContainer, hst] at ho
  rw [orNone_some ho]
  exact standaloneOp_join_none (by rw [g6.1]; decide)

/-- nothing but update, cancel, leave or role-off touches a running join notification (in particular no received
VAM and, since fix C18-F4, no cluster creation) -/
theorem join_notification_stable {var : Variant} (hv : var.createDuringNotify = false) {s : St} {t0 : Nat}
    (hs : s.state = .standalone) (hj : s.joinSub = .notify) (ht : s.joinStarted = some t0) (op : Op)
    (hop : op ≠ .update ∧ op ≠ .cancelJoin ∧ op ≠ .roleOff ∧ ∀ r, op ≠ .leave r) :
    let s' := (step var s op).1
    s'.state = .standalone ∧ s'.joinSub = .notify ∧ s'.joinStarted = some t0 ∧ s'.joinTarget = s.joinTarget := by
  obtain ⟨h1, h2, h3, h4⟩ := hop
  cases op with
  | update => exact absurd rfl h1
  | cancelJoin => exact absurd rfl h2
  | roleOff => exact absurd rfl h3
  | leave r => exact absurd rfl (h4 r)
  | tick d => simp [step, hs, hj, ht]
  | roleOn => simp [step, roleOn, hs, hj, ht]
  | tryCreate x y rs => simp [step, tryCreate, hs, hj, ht, hv]
  | initiateJoin c => simp [step, initiateJoin, hs, hj, ht]
  | confirmJoinFailed => simp [step, confirmJoinFailed, hs, hj, ht]
  | breakup r => simp [step, breakup, hs, hj, ht]
  | recv v =>
    simp only [step]
    have e := recv_standalone_keeps (var := var) v hs (by rw [hj]; decide)
    have f := fun {α} (g : St → α) (hg : ∀ x, g (ctl x) = g x) => (hg _).symm.trans ((congrArg g e).trans (hg s))
    exact ⟨(f St.state (fun _ => rfl)).trans hs, (f St.joinSub (fun _ => rfl)).trans hj,
      (f St.joinStarted (fun _ => rfl)).trans ht, f St.joinTarget (fun _ => rfl)⟩

/-- events that do not abort a join on purpose -/
def NonAborting (op : Op) : Prop := op ≠ .cancelJoin ∧ op ≠ .roleOff ∧ ∀ r, op ≠ .leave r

/-- JOIN NOTIFICATION LASTS ITS DURATION over every history: after `initiate_join` at t0, ANY sequence of events that
contains no cancel / leave / role-off (updates, clock steps, received VAMs of any kind, creation attempts, …) and ends
before t0 + timeClusterJoinNotification still announces the join -/
theorem join_notification_persists {var : Variant} (hv : var.createDuringNotify = false) {t0 : Nat} (ops : List Op) :
    ∀ s : St, s.state = .standalone → s.joinSub = .notify → s.joinStarted = some t0 →
      (∀ op ∈ ops, NonAborting op) → (run var s ops).now - t0 < timeClusterJoinNotification →
      (run var s ops).state = .standalone ∧ (run var s ops).joinSub = .notify ∧
      (run var s ops).joinStarted = some t0 ∧ (run var s ops).joinTarget = s.joinTarget := by
  induction ops with
  | nil => intro s hs hj ht _ _; exact ⟨hs, hj, ht, rfl⟩
  | cons op rest ih =>
    intro s hs hj ht hna hlt
    simp only [run, List.foldl_cons] at hlt ⊢
    have hmono := run_now_mono var rest (step var s op).1
    simp only [run] at hmono
    have hnow := step_now var s op
    have h1 : (step var s op).1.state = .standalone ∧ (step var s op).1.joinSub = .notify ∧
        (step var s op).1.joinStarted = some t0 ∧ (step var s op).1.joinTarget = s.joinTarget := by
      by_cases hu : op = .update
      · subst hu
        exact update_keeps_notify hs hj ht (by simp only [] at hnow; omega)
      · obtain ⟨a, b, c⟩ := hna op (by simp)
        exact join_notification_stable hv hs hj ht op ⟨hu, a, b, c⟩
    obtain ⟨g1, g2, g3, g4⟩ := ih (step var s op).1 h1.1 h1.2.1 h1.2.2.1 (fun o ho => hna o (by simp [ho])) hlt
    exact ⟨g1, g2, g3, g4.trans h1.2.2.2⟩

/-- events that do not end a leave notification / break-up warning on purpose: everything except role-off -/
def Keeping (op : Op) : Prop := op ≠ .roleOff

/-- LEAVE NOTIFICATION LASTS ITS DURATION over every history (repaired code: fixes C18-F3 and C18-F6).  A reachable
stand-alone station that left cluster `leaveCid` at `t1`: after ANY sequence of events without role-off — updates,
received VAMs, a new `initiate_join`, its `cancel_join`, creation attempts, … — that ends before
t1 + timeClusterLeaveNotification the operation container still carries `clusterLeaveInfo` of the cluster left, with
the reason given.  (No hypothesis on the join sub-state: the round-1 statement excluded a cancelled join, where the
unrepaired code was wrong — `leave_hidden_by_cancelled_join_old_witness`.) -/
theorem leave_notification_persists {var : Variant} (h1 : var.joinHidesLeave = false) (h2 : var.createDuringNotify = false)
    (h3 : var.cancelHidesLeave = false) {s : St} (hr : Reachable var s) {t1 : Nat}
    (hs : s.state = .standalone) (hl : s.leaveNotify = true) (ht : s.leaveStarted = some t1)
    (ops : List Op) (hk : ∀ op ∈ ops, Keeping op) (hlt : (run var s ops).now - t1 < timeClusterLeaveNotification) :
    let s' := run var s ops
    s'.state = .standalone ∧ s'.leaveNotify = true ∧ s'.leaveStarted = some t1 ∧
    ∃ o, opContainer var s' = some o ∧ o.leave = some (s.leaveCid.getD 0, s.leaveReason.getD leaveNotProvided) := by
  have h := leaveRunning_run h2 ops s (leaveRunning_of_inv (reachable_inv hr) hs hl ht) hk hlt
  exact ⟨h.st, h.ln, h.ls, leaveRunning_container h1 h3 h⟩

/-- single-update form (`ops = [update]`) -/
theorem leave_notification_lasts {var : Variant} (h1 : var.joinHidesLeave = false) (h2 : var.createDuringNotify = false)
    (h3 : var.cancelHidesLeave = false) {s : St} (hr : Reachable var s) {t1 : Nat}
    (hs : s.state = .standalone) (hl : s.leaveNotify = true) (ht : s.leaveStarted = some t1)
    (hlt : s.now - t1 < timeClusterLeaveNotification) :
    let s' := update var s
    s'.state = .standalone ∧ s'.leaveNotify = true ∧ s'.leaveStarted = some t1 ∧
    ∃ o, opContainer var s' = some o ∧ o.leave = some (s.leaveCid.getD 0, s.leaveReason.getD leaveNotProvided) :=
  leave_notification_persists h1 h2 h3 hr hs hl ht [.update] (by simp [Keeping])
    (by simp only [run, List.foldl_cons, List.foldl_nil, step, update_now]; exact hlt)

/-- … and the first update at or after timeClusterLeaveNotification ends it, whatever the join sub-state: the
membership notice is gone; a `clusterLeaveInfo` still present is the (queued) notice of a cancelled / failed join -/
theorem leave_notification_ends {var : Variant} {s : St} {t1 : Nat}
    (hs : s.state = .standalone) (hl : s.leaveNotify = true) (ht : s.leaveStarted = some t1)
    (hge : s.now - t1 ≥ timeClusterLeaveNotification) :
    let s' := update var s
    s'.state = .standalone ∧ s'.leaveNotify = false ∧
    ∀ o, opContainer var s' = some o → o.leave = none ∨
      ((s'.joinSub = .cancelled ∨ s'.joinSub = .failed) ∧
        o.leave = some (s'.joinTarget.getD 0, s'.joinLeaveReason.getD leaveNotProvided)) := by
  intro s'
  have hst : s'.state = .standalone := update_state_of_standalone hs
  have hex : (expire s).state = .standalone := by simp [expire, hs]
  obtain ⟨_, k2, k3, _, _, k6, _⟩ := updJoin_keeps (var := var) hex
  have hln : s'.leaveNotify = false := by
    simp only [s', update, hex, updStandalone]
    have a1 : (updJoin var (expire s)).leaveNotify = true := by rw [k2]; simp [expire, hl]
    have a2 : (updJoin var (expire s)).leaveStarted = some t1 := by rw [k3]; simp [expire, ht]
    have a3 : (updJoin var (expire s)).now - t1 ≥ timeClusterLeaveNotification := by rw [k6]; simpa [expire] using hge
    simp [updLeaveNotify, a1, a2, a3, clearLeave]
  refine ⟨hst, hln, ?_⟩
  intro o ho
  simp only [opContainer, hst] at ho
  rw [orNone_some ho]
  have hlo : leaveOut s' = none := by simp [leaveOut, hln]
  unfold standaloneOp
  split
  · left; simp [hlo]
  · split
    · rename_i h; simp [hln] at h
    · split
      · rename_i h; right; exact ⟨h, rfl⟩
      · left; exact hlo

/-- C18-F6, before the repair (`cancelHidesLeave := true`): leave cluster 9, announce a join towards 5, cancel it —
150 ms after leaving, the `clusterLeaveInfo` of cluster 9 has been replaced by the cancelled-join notice although the
leave notification is still running (leaveNotify, 850 ms to go) -/
theorem leave_hidden_by_cancelled_join_old_witness :
    let s := run { cancelHidesLeave := true } (St.init 1000000 128)
      (passiveWitness ++ [.leave 8, .tick 50, .initiateJoin 5, .tick 50, .cancelJoin, .tick 50, .update])
    s.leaveNotify = true ∧ s.leaveCid = some 9 ∧
    opContainer { cancelHidesLeave := true } s = some { leave := some (5, leaveCancelledJoin) } := by decide

/-- the same history on the repaired code: cluster 9's notice for its full second, then the cancelled-join notice for
ITS full second (started by the update that ended the first), then nothing -/
example :
    let h := passiveWitness ++ [.leave 8, .tick 50, .initiateJoin 5, .tick 50, .cancelJoin, .tick 50, .update]
    opContainer {} (run {} (St.init 1000000 128) h) = some { leave := some (9, 8) } ∧
    opContainer {} (run {} (St.init 1000000 128) (h ++ [.tick 849, .update])) = some { leave := some (9, 8) } ∧
    opContainer {} (run {} (St.init 1000000 128) (h ++ [.tick 850, .update])) = some { leave := some (5, leaveCancelledJoin) } ∧
    opContainer {} (run {} (St.init 1000000 128) (h ++ [.tick 850, .update, .tick 999, .update])) =
      some { leave := some (5, leaveCancelledJoin) } ∧
    opContainer {} (run {} (St.init 1000000 128) (h ++ [.tick 850, .update, .tick 1000, .update])) = none := by decide

/-- NOTICE OF A CANCELLED / FAILED JOIN LASTS ITS DURATION over every history: once it has the `clusterLeaveInfo`
(no membership leave notification in front of it), after ANY sequence of events without role-off that ends before
t1 + timeClusterLeaveNotification the container carries (target cluster, cancelledJoin / failedJoin) -/
theorem join_leave_notice_persists {var : Variant} (hv : var.createDuringNotify = false) {s : St} {t1 : Nat}
    (hs : s.state = .standalone) (hj : s.joinSub = .cancelled ∨ s.joinSub = .failed) (ht : s.joinLeaveStarted = some t1)
    (hnl : s.leaveNotify = false) (ops : List Op) (hk : ∀ op ∈ ops, Keeping op)
    (hlt : (run var s ops).now - t1 < timeClusterLeaveNotification) :
    let s' := run var s ops
    s'.joinSub = s.joinSub ∧
    ∃ o, opContainer var s' = some o ∧ o.join = none ∧
      o.leave = some (s.joinTarget.getD 0, s.joinLeaveReason.getD leaveNotProvided) := by
  have h := joinLeaveRunning_run hv ops s ⟨hs, hj, rfl, rfl, rfl, ht, hnl⟩ hk hlt
  obtain ⟨o, ho, hl, hjn⟩ := joinLeaveRunning_container (var := var) h
  exact ⟨h.js, o, ho, hjn, hl⟩

/-- … it is queued behind a running membership leave notification (each update re-arms its start), so that its own full
duration follows (`leave_notification_ends` + this theorem) … -/
theorem join_leave_notice_queued {var : Variant} (hv : var.cancelHidesLeave = false) {s : St} {t1 : Nat}
    (hs : s.state = .standalone) (hj : s.joinSub = .cancelled ∨ s.joinSub = .failed) (ht : s.joinLeaveStarted = some t1)
    (hl : s.leaveNotify = true) :
    let s' := update var s
    s'.joinSub = s.joinSub ∧ s'.joinTarget = s.joinTarget ∧ s'.joinLeaveReason = s.joinLeaveReason ∧
    s'.joinLeaveStarted = some s.now := by
  have hex : (expire s).state = .standalone := by simp [expire, hs]
  have e : updJoin var (expire s) = { expire s with joinLeaveStarted := some s.now } := by
    rcases hj with hj | hj <;> simp [updJoin, expire, hj, ht, hv, hl]
  simp only [update, hex, updStandalone, e]
  unfold updLeaveNotify clearLeave
  repeat' split
  all_goals simp [expire]

/-- … and the first update at or after its duration removes it (single update; it is shown until then) -/
theorem join_leave_notice {var : Variant} {s : St} {t1 : Nat}
    (hs : s.state = .standalone) (hj : s.joinSub = .cancelled ∨ s.joinSub = .failed) (ht : s.joinLeaveStarted = some t1)
    (hnl : s.leaveNotify = false) :
    let s' := update var s
    (s.now - t1 < timeClusterLeaveNotification →
      s'.joinSub = s.joinSub ∧
      ∃ o, opContainer var s' = some o ∧ o.leave = some (s.joinTarget.getD 0, s.joinLeaveReason.getD leaveNotProvided)) ∧
    (s.now - t1 ≥ timeClusterLeaveNotification → s'.joinSub = .none ∧ opContainer var s' = none) := by
  intro s'
  constructor
  · intro hlt
    have hv : ∀ op ∈ [Op.update], Keeping op := by simp [Keeping]
    -- `createDuringNotify` plays no role for an update: go through the step lemma directly
    have h : JoinLeaveRunning s t1 s.joinSub s.joinTarget s.joinLeaveReason := ⟨hs, hj, rfl, rfl, rfl, ht, hnl⟩
    have hex : (expire s).state = .standalone := by simp [expire, hs]
    have hn : ¬ s.now - t1 ≥ timeClusterLeaveNotification := by omega
    have e : s' = expire s := by
      rcases hj with hj | hj <;>
        simp [s', update, expire, hs, updStandalone, updJoin, hj, ht, hnl, hn, updLeaveNotify]
    have h' : JoinLeaveRunning s' t1 s.joinSub s.joinTarget s.joinLeaveReason := by
      rw [e]
      exact ⟨hex, hj, by simp [expire], by simp [expire], by simp [expire], by simp [expire, ht], by simp [expire, hnl]⟩
    obtain ⟨o, ho, hl, _⟩ := joinLeaveRunning_container (var := var) h'
    exact ⟨h'.js, o, ho, hl⟩
  · intro hge
    have e : s' = { expire s with joinSub := .none, joinTarget := none, joinLeaveReason := none, joinLeaveStarted := none } := by
      rcases hj with hj | hj <;>
        simp [s', update, expire, hs, updStandalone, updJoin, hj, ht, hnl, hge, updLeaveNotify]
    rw [e]
    refine ⟨rfl, ?_⟩
    simp [opContainer, expire, hs, standaloneOp, hnl, leaveOut, OpOut.orNone]

/-- BREAK-UP WARNING LASTS ITS DURATION over every history: a leader that announced the break-up of its cluster `cid`
at t0 with reason `r`: after ANY sequence of events without role-off (updates, received VAMs incl. join/leave notices
of members and foreign break-up indications, commands — a second `trigger_breakup_cluster` is refused) that ends before
t0 + timeClusterBreakupWarning it is still the leader of `cid` and the container carries (r, remaining quarter seconds) -/
theorem breakup_warning_persists {var : Variant} {s : St} {c : OwnCluster} {t0 r : Nat}
    (hs : s.state = .leader) (hc : s.cluster = some c) (ht : c.breakupStarted = some t0) (hr : c.breakupReason = some r)
    (ops : List Op) (hk : ∀ op ∈ ops, Keeping op) (hlt : (run var s ops).now - t0 < timeClusterBreakupWarning) :
    let s' := run var s ops
    s'.state = .leader ∧ clusterId s' = some c.cid ∧
    opContainer var s' = some { breakup := some (r, quarters (timeClusterBreakupWarning - (s'.now - t0))) } := by
  have h := breakupRunning_run (var := var) ops s ⟨hs, c, hc, rfl, ht, hr⟩ hk hlt
  obtain ⟨h1, _⟩ := breakupRunning_container (var := var) h
  obtain ⟨hst, c', hc', hcid, _, _⟩ := h
  exact ⟨hst, by simp [clusterId, hst, hc', hcid], h1⟩

/-- single-update form -/
theorem breakup_warning_lasts {var : Variant} {s : St} {c : OwnCluster} {t0 r : Nat}
    (hs : s.state = .leader) (hc : s.cluster = some c) (ht : c.breakupStarted = some t0) (hr : c.breakupReason = some r)
    (hlt : s.now - t0 < timeClusterBreakupWarning) :
    let s' := update var s
    s'.state = .leader ∧ s'.cluster = some c ∧
    opContainer var s' = some { breakup := some (r, quarters (timeClusterBreakupWarning - (s.now - t0))) } := by
  have hn : ¬ s.now - t0 ≥ timeClusterBreakupWarning := by omega
  have e : update var s = expire s := by
    simp [update, expire, hs, updLeader, hc, ht, hn]
  intro s'
  have es : s' = expire s := e
  rw [es]
  refine ⟨by simp [expire, hs], by simp [expire, hc], ?_⟩
  simp [opContainer, expire, hs, hc, ht, hr]

/-- … and the first update at or after timeClusterBreakupWarning disbands: stand-alone, no cluster, transmitting -/
theorem breakup_warning_ends {var : Variant} {s : St} {c : OwnCluster} {t0 : Nat}
    (hs : s.state = .leader) (hc : s.cluster = some c) (ht : c.breakupStarted = some t0)
    (hge : s.now - t0 ≥ timeClusterBreakupWarning) :
    let s' := update var s
    s'.state = .standalone ∧ s'.cluster = none ∧ infoContainer s' = none ∧ shouldTransmit s' = true := by
  have e : update var s = { expire s with cluster := none, state := .standalone } := by
    simp [update, expire, hs, updLeader, hc, ht, hge]
  intro s'
  have es : s' = _ := e
  rw [es]
  simp [infoContainer, shouldTransmit]

/-- a break-up can only be started by a leader that is not already breaking up, and then the warning starts now -/
theorem breakup_starts_warning {s : St} {r : Nat} (h : (breakup s r).2 = some true) :
    s.state = .leader ∧ ∃ c, (breakup s r).1.cluster = some c ∧ c.breakupStarted = some s.now ∧ c.breakupReason = some r := by
  by_cases hst : s.state = .leader
  · refine ⟨hst, ?_⟩
    cases hc : s.cluster with
    | none => simp [breakup, hst, hc] at h
    | some c =>
      by_cases hb : c.breakupStarted.isSome = true
      · simp [breakup, hst, hc, hb] at h
      · simp [breakup, hst, hc, hb]
  · simp [breakup, hst] at h

/-! ## Two-station composition: the leader's emitted VAM is the member's input -/

/-- what a reachable leader puts on the air: a cluster VAM under its own station id carrying its cluster id and
cardinality (circular bounding box), with the operation container of `get_cluster_operation_container()` -/
theorem leader_emits_cluster_vam {var : Variant} {a : St} (ha : Reachable var a) (hl : a.state = .leader)
    (sid : Nat) (x y : Int) :
    ∃ c, a.cluster = some c ∧ clusterId a = some c.cid ∧
      emitVam var sid x y a = some { sender := sid, x := x, y := y,
                                     info := some { cid := some c.cid, card := c.card, shape := .circular },
                                     op := (opContainer var a).map OpOut.toOpC } := by
  obtain ⟨c, hc, _⟩ := (leader_iff ha).mp hl
  refine ⟨c, hc, by simp [clusterId, hl, hc], ?_⟩
  simp [emitVam, shouldTransmit, hl, infoContainer, hc]

/-- JOIN COMPLETES, TWO-STATION COMPOSITION.  Station `a` (id `sid`) is a reachable leader of cluster `cid` that is not
breaking up; station `b` is reachable and waiting for admission to `cid`.  The VAM `a` EMITS (its own containers, not an
arbitrary input) exists, and fed to `b` it makes `b` a silent member of `cid` led by `sid`, timer armed now. -/
theorem join_completes_two_station {var : Variant} (ht : var.tupleFails = false)
    {a b : St} (ha : Reachable var a) (hb : Reachable var b) {cid : Nat} (sid : Nat) (x y : Int)
    (hl : a.state = .leader) (hcid : clusterId a = some cid) (hnb : ∀ c, a.cluster = some c → c.breakupStarted = none)
    (hs : b.state = .standalone) (hw : b.joinSub = .waiting) (htg : b.joinTarget = some cid) :
    ∃ v, emitVam var sid x y a = some v ∧
      let b' := recv var b v
      b'.state = .passive ∧ b'.joined = some cid ∧ b'.leader = some sid ∧ b'.last = some b.now ∧
        clusterId b' = some cid ∧ shouldTransmit b' = false := by
  obtain ⟨c, hc, hci, he⟩ := leader_emits_cluster_vam ha hl sid x y
  have hcc : c.cid = cid := by rw [hci] at hcid; simpa using hcid
  have hop : opContainer var a = none := by simp [opContainer, hl, hc, hnb c hc]
  rw [hop] at he
  refine ⟨_, he, ?_⟩
  exact join_completes ht hb hs hw htg (v := { sender := sid, x := x, y := y, op := none,
                                               info := some { cid := some c.cid, card := c.card, shape := .circular } }) rfl
    (by simp [hcc]) (by intro o ho; simp at ho)

/-- JOIN, END TO END on the member's side: a reachable stand-alone station with no join in progress announces the join
towards `cid`, the notification time passes (`d1 ≥ timeClusterJoinNotification`), an update makes it wait for
admission, and the cluster VAM emitted by the leader `a` of `cid` — any `d2` later, before the update that would detect
the failed join — completes the join. -/
theorem join_end_to_end {var : Variant} (ht : var.tupleFails = false)
    {a b : St} (ha : Reachable var a) (hb : Reachable var b) {cid : Nat} (sid : Nat) (x y : Int) (d1 d2 : Nat)
    (hl : a.state = .leader) (hcid : clusterId a = some cid) (hnb : ∀ c, a.cluster = some c → c.breakupStarted = none)
    (hs : b.state = .standalone) (hj : b.joinSub = .none) (hd : d1 ≥ timeClusterJoinNotification) :
    ∃ v, emitVam var sid x y a = some v ∧
      let b' := run var b [.initiateJoin cid, .tick d1, .update, .tick d2, .recv v]
      b'.state = .passive ∧ b'.joined = some cid ∧ b'.leader = some sid ∧ b'.last = some b'.now ∧
        shouldTransmit b' = false := by
  -- the member's state before the reception
  let b1 := (step var b (.initiateJoin cid)).1
  let b2 := (step var b1 (.tick d1)).1
  let b3 := (step var b2 .update).1
  let b4 := (step var b3 (.tick d2)).1
  have r1 : Reachable var b1 := reachable_step hb _ trivial
  have r2 : Reachable var b2 := reachable_step r1 _ trivial
  have r3 : Reachable var b3 := reachable_step r2 _ trivial
  have r4 : Reachable var b4 := reachable_step r3 _ trivial
  have e1 : b1 = { b with joinSub := .notify, joinTarget := some cid, joinStarted := some b.now } := by
    simp [b1, step, initiateJoin, hs, hj]
  have f2 : b2.state = .standalone ∧ b2.joinSub = .notify ∧ b2.joinStarted = some b.now ∧ b2.joinTarget = some cid ∧
      b2.now = b.now + d1 := by
    simp [b2, step, e1, hs]
  obtain ⟨g1, g2, _, g4, _⟩ := join_notification_ends (var := var) f2.1 f2.2.1 f2.2.2.1 (by rw [f2.2.2.2.2]; omega)
  have f4 : b4.state = .standalone ∧ b4.joinSub = .waiting ∧ b4.joinTarget = some cid := by
    refine ⟨g1, g2, ?_⟩
    show (update var b2).joinTarget = some cid
    rw [g4]; exact f2.2.2.2.1
  obtain ⟨v, hv, k1, k2, k3, k4, _, k6⟩ := join_completes_two_station ht ha r4 sid x y hl hcid hnb f4.1 f4.2.1 f4.2.2
  refine ⟨v, hv, ?_⟩
  have e : run var b [.initiateJoin cid, .tick d1, .update, .tick d2, .recv v] = recv var b4 v := rfl
  simp only [e]
  refine ⟨k1, k2, k3, ?_, k6⟩
  rw [k4, recv_now]

/-! ## Threads: calls under the manager's lock are serialisable -/

/-- one call of the public API at instruction level: arbitrary micro-steps whose composition is the model
transition of `op` (what `with self._lock:` around the whole body buys: the micro-steps are never interleaved with
another call's - `calls_atomic` -, so only their composition matters) -/
structure FineCall (var : Variant) where
  op : Op
  steps : Atomic.Call St
  ok : FlexModel.Conc.Reduction.pipe (steps.1 ++ [steps.2]) = fun s => (step var s op).1

/-- CONSISTENCY UNDER THREADS.  Any number of threads call the public API concurrently, each call executing as
micro-steps inside one section of the manager's lock (the shape `public_methods_atomic` establishes for the source).
Every complete schedule of the instruction-level system ends in a state that the SEQUENTIAL model reaches from the
initial state by some sequence of the calls' events - hence in a state satisfying the invariant (leader / passive
consistency, no pending leave while passive, …). -/
theorem concurrent_calls_consistent {var : Variant} (lk : FlexModel.Conc.Lock) (threads : List (List (FineCall var)))
    (x : St) (hx : Inv x) (hwf : ∀ cs ∈ threads, ∀ c ∈ cs, c.op.WF) (sched : List FlexModel.Conc.ThreadId)
    (hfin : FlexModel.Conc.finished (FlexModel.Conc.run
      (FlexModel.Conc.mkSys x (threads.map (fun cs => Atomic.fineProg lk (cs.map (·.steps))))) sched) = true) :
    let final := (FlexModel.Conc.run
      (FlexModel.Conc.mkSys x (threads.map (fun cs => Atomic.fineProg lk (cs.map (·.steps))))) sched).sh
    (∃ ops : List Op, (∀ op ∈ ops, ∃ cs ∈ threads, ∃ c ∈ cs, c.op = op) ∧ final = run var x ops) ∧ Inv final := by
  intro final
  have hm : threads.map (fun cs => Atomic.fineProg lk (cs.map (·.steps))) =
      (threads.map (fun cs => cs.map (·.steps))).map (Atomic.fineProg lk) := by simp [List.map_map]
  obtain ⟨csched, _, _, hsh⟩ := Atomic.calls_atomic lk (threads.map (fun cs => cs.map (·.steps))) x sched (by rw [← hm]; exact hfin)
  have hfinal : final = (FlexModel.Conc.run (FlexModel.Conc.mkSys x
      ((threads.map (fun cs => cs.map (·.steps))).map (Atomic.atomicProg lk))) csched).sh := by
    rw [hsh, ← hm]
  -- every state of the atomic system is a sequential model run over events of the calls
  let P : St → Prop := fun s => ∃ ops : List Op, (∀ op ∈ ops, ∃ cs ∈ threads, ∃ c ∈ cs, c.op = op) ∧ s = run var x ops
  have hP : P final := by
    rw [hfinal]
    apply FlexModel.Conc.inv_of_blocks P
    · exact ⟨[], by simp, rfl⟩
    · intro th hth f hf s ⟨ops, hops, hs⟩
      simp only [FlexModel.Conc.mkSys, List.map_map, List.mem_map] at hth
      obtain ⟨cs, hcs, rfl⟩ := hth
      simp only [Function.comp, Atomic.atomicProg, List.map_map] at hf
      obtain ⟨p, hp, hfp⟩ := FlexModel.Conc.mem_blocksOf_flatten _ f hf
      simp only [List.mem_map] at hp
      obtain ⟨c, hc, rfl⟩ := hp
      simp only [Function.comp, Atomic.Call.atomic, FlexModel.Conc.sect, FlexModel.Conc.blocksOf, List.mem_cons,
        List.not_mem_nil, or_false] at hfp
      subst hfp
      refine ⟨ops ++ [c.op], ?_, ?_⟩
      · intro op hop
        rcases List.mem_append.mp hop with h | h
        · exact hops op h
        · simp only [List.mem_cons, List.not_mem_nil, or_false] at h
          exact ⟨cs, hcs, c, hc, h.symm⟩
      · rw [c.ok, hs]
        simp [run, List.foldl_append]
  refine ⟨hP, ?_⟩
  obtain ⟨ops, hops, hs⟩ := hP
  rw [hs]
  apply inv_run hx
  intro op hop
  obtain ⟨cs, hcs, c, hc, rfl⟩ := hops op hop
  exact hwf cs hcs c hc

/-- non-vacuity of `FineCall`: every event has the trivial one-step call; role-off as the SEVEN attribute stores of
`set_vru_role_off` (in source order) is a seven-step call -/
def FineCall.single (var : Variant) (op : Op) : FineCall var :=
  { op := op, steps := ([], fun s => (step var s op).1), ok := rfl }

def roleOffStores : FineCall {} :=
  { op := .roleOff,
    steps := ([fun s => { s with state := .idle }, fun s => { s with cluster := none }, fun s => { s with joined := none },
               fun s => { s with leader := none }, fun s => { s with last := none }, fun s => { s with joinSub := .none }],
              fun s => { s with leaveNotify := false }),
    ok := rfl }

/-! ## Non-vacuity: the hypotheses above are met by runs through the public API -/

example : (run {} (St.init 1000000 128) passiveWitness).state = .passive := by decide

example : Reachable {} (run {} (St.init 1000000 128) passiveWitness) :=
  ⟨1000000, 128, passiveWitness, by simp [passiveWitness, Op.WF], rfl⟩

/-- three neighbours within 5 m, cluster 7 created, break-up announced -/
def leaderWitness : List Op :=
  [.recv { sender := 31, x := 0, y := 0, info := none, op := none },
   .recv { sender := 32, x := 300, y := 0, info := none, op := none },
   .recv { sender := 33, x := 0, y := 480, info := none, op := none },
   .tick 50, .tryCreate 0 0 [7]]

example : infoContainer (run {} (St.init 1000000 128) leaderWitness) = some (7, 5, 1, 128) := by decide

example :
    let s := run {} (St.init 1000000 128) (leaderWitness ++ [.breakup 1, .tick 2999, .update])
    s.state = .leader ∧ opContainer {} s = some { breakup := some (1, 1) } := by decide

example :
    let s := run {} (St.init 1000000 128) (leaderWitness ++ [.breakup 1, .tick 3000, .update])
    s.state = .standalone ∧ shouldTransmit s = true := by decide

/-- the waiting state of `join_completes`, and the leader-lost deadline on a concrete run -/
example :
    let s := run {} (St.init 1000000 128) [.initiateJoin 9, .tick 3000, .update]
    s.state = .standalone ∧ s.joinSub = .waiting ∧ s.joinTarget = some 9 := by decide

example :
    (run {} (St.init 1000000 128) (passiveWitness ++ [.tick 1999, .update])).state = .passive ∧
    (run {} (St.init 1000000 128) (passiveWitness ++ [.tick 2000, .update])).state = .standalone := by decide

/-- leave notice and a new join announced together (fix C18-F3) -/
example :
    let s := run {} (St.init 1000000 128) (passiveWitness ++ [.leave 8, .tick 50, .initiateJoin 5, .tick 50, .update])
    opContainer {} s = some { join := some (5, 11), leave := some (9, 8) } := by decide

/-- fix C18-F4 on a concrete run: creation refused while a join is announced; accepted by the old variant -/
example :
    (step {} (run {} (St.init 1000000 128) (leaderWitness.dropLast ++ [.initiateJoin 9])) (.tryCreate 0 0 [7])).2 = some false ∧
    (step { createDuringNotify := true } (run {} (St.init 1000000 128) (leaderWitness.dropLast ++ [.initiateJoin 9]))
      (.tryCreate 0 0 [7])).2 = some true := by decide

/-! ### Round 3 non-vacuity -/

/-- member of cluster 9 (leader 21) whose ex-leader founds a NEW cluster 7 and keeps sending cluster VAMs for it, while
station 22 advertises a cluster with the old id 9 and station 23 another one: all of that is `QuietFor 21 9`, and the
member is released 2 s after the last cluster VAM of (21, 9) — the hypothesis of `not_silenced_for_good` is met by a
non-trivial history (seeded change C18-m3 breaks exactly this) -/
def refoundHistory : List Op :=
  [.tick 500, .recv { sender := 21, x := 300, y := 0, info := some { cid := some 7, card := 1, shape := .circular }, op := none },
   .tick 500, .recv { sender := 22, x := 0, y := 480, info := some { cid := some 9, card := 3, shape := .other }, op := none },
   .update,
   .tick 500, .recv { sender := 21, x := 300, y := 0, info := some { cid := some 7, card := 1, shape := .circular }, op := none },
   .tick 500, .recv { sender := 23, x := 300, y := 380, info := some { cid := some 40, card := 2, shape := .circular }, op := none }]

example : ∀ op ∈ refoundHistory, QuietFor 21 9 op := by
  intro op h
  simp only [refoundHistory, List.mem_cons, List.not_mem_nil, or_false] at h
  rcases h with rfl | rfl | rfl | rfl | rfl | rfl | rfl | rfl | rfl | rfl | rfl | rfl | rfl <;> simp [QuietFor]

example :
    let s0 := run {} (St.init 1000000 128) passiveWitness
    s0.state = .passive ∧ s0.leader = some 21 ∧ s0.joined = some 9 ∧ s0.last = some 1003050 ∧
    (run {} s0 refoundHistory).state = .passive ∧ (run {} s0 refoundHistory).now - 1003050 ≥ timeClusterContinuity ∧
    (update {} (run {} s0 refoundHistory)).state = .standalone := by decide

/-- `passive_only_while_leader_heard`: a station that IS passive after an update (premise satisfiable) -/
example : (update {} (run {} (St.init 1000000 128) (passiveWitness ++ [.tick 1999]))).state = .passive := by decide

/-- `breakup_frees` (repaired variant) and `breakup_frees_partial` (code as is, reason ≠ CPM) on concrete runs -/
example :
    (run { cpmFrees := true } (St.init 1000000 128) (passiveWitness ++ [.recv cpmBreakupVam, .tick 50, .update])).state
      = .standalone := by decide

example :
    let v : Vam := { cpmBreakupVam with op := some { join := none, leave := none, breakup := some 1 } }
    let s := run {} (St.init 1000000 128) (passiveWitness ++ [.recv v, .tick 50, .update])
    s.state = .standalone ∧ shouldTransmit s = true ∧ opContainer {} s = some { leave := some (9, leaveDisbandedByLeader) } := by
  decide

/-- two-station composition on concrete runs: the leader of `leaderWitness` (cluster 7, station 41) emits a cluster VAM;
a station waiting for cluster 7 that receives exactly that VAM becomes its member -/
example :
    let a := run {} (St.init 1000000 128) leaderWitness
    let b := run {} (St.init 1000000 128) [.initiateJoin 7, .tick 3000, .update, .tick 100]
    a.state = .leader ∧ clusterId a = some 7 ∧ b.joinSub = .waiting ∧
    (emitVam {} 41 0 0 a).map (fun v => ((recv {} b v).state, (recv {} b v).leader, (recv {} b v).joined)) =
      some (.passive, some 41, some 7) := by decide

/-- a passive station emits nothing, a leader in break-up emits the warning -/
example :
    emitVam {} 1 0 0 (run {} (St.init 1000000 128) passiveWitness) = none ∧
    (emitVam {} 41 0 0 (run {} (St.init 1000000 128) (leaderWitness ++ [.breakup 1, .tick 1000]))).map (·.op) =
      some (some { join := none, leave := none, breakup := some 1 }) := by decide

/-- break-up warning over a history with receptions and commands in between -/
example :
    let s := run {} (St.init 1000000 128) (leaderWitness ++ [.breakup 1, .tick 1000,
      .recv { sender := 32, x := 300, y := 0, info := none, op := some { join := some 7, leave := none, breakup := none } },
      .breakup 2, .tick 1000, .update, .initiateJoin 5, .tick 999])
    s.state = .leader ∧ opContainer {} s = some { breakup := some (1, 1) } ∧ infoContainer s = some (7, 5, 2, 128) := by decide

/-- the notice of a cancelled join on its own (no membership before), and its end -/
example :
    let h := [Op.initiateJoin 5, .tick 1000, .cancelJoin, .tick 999, .update]
    opContainer {} (run {} (St.init 1000000 128) h) = some { leave := some (5, leaveCancelledJoin) } ∧
    opContainer {} (run {} (St.init 1000000 128) (h ++ [.tick 1, .update])) = none := by decide

/-- join notification over a history with receptions, a refused creation and a failed-join confirmation in between -/
example :
    let s := run {} (St.init 1000000 128) (leaderWitness.dropLast ++ [.initiateJoin 9, .tick 1000, .tryCreate 0 0 [7],
      .confirmJoinFailed, .update, .tick 1999])
    s.joinSub = .notify ∧ opContainer {} s = some { join := some (9, 1) } := by decide

end Props.C18

/-
C18 — VRU clustering state machine stays consistent and never silences a VRU for good.
Property theorems only.  Model: `FlexModel/Vru/Cluster.lean` (all public methods of `VBSClusteringManager` as
transitions, time in ms in the state, `tick d` advances the clock); helper lemmas: `FlexModel/Vru/ClusterLemmas.lean`.

`Variant` selects the code variant: `{}` (all flags false) is the code as it is after the `fix:` commits;
`cpmFrees := true` is the repaired variant of known finding C18-KF1; `hbAny`, `tupleFails`, `joinHidesLeave`,
`createDuringNotify` are the behaviours before the fixes (only used in `_witness` theorems).
Every theorem quantifies over all reachable states / all event sequences; nothing is bounded.
-/
import FlexModel.Vru.ClusterLemmas

namespace Props.C18
open FlexModel.Vru Generated.VamConstants

/-- states reachable from a fresh manager by ANY event sequence (the clock never goes back: `tick d`, d : Nat);
the only side condition is the contract of `random.randint(1, 255)` on the cluster-id draws -/
def Reachable (var : Variant) (s : St) : Prop :=
  ∃ now p ops, (∀ op ∈ ops, Op.WF op) ∧ s = run var (St.init now p) ops

theorem reachable_inv {var : Variant} {s : St} (h : Reachable var s) : Inv s := by
  obtain ⟨now, p, ops, hw, rfl⟩ := h
  exact inv_run (inv_init now p) ops hw

/-- reachability is closed under further (well-formed) events -/
theorem reachable_step {var : Variant} {s : St} (h : Reachable var s) (op : Op) (hw : op.WF) :
    Reachable var (step var s op).1 := by
  obtain ⟨now, p, ops, hws, rfl⟩ := h
  refine ⟨now, p, ops ++ [op], ?_, ?_⟩
  · intro o ho
    rcases List.mem_append.mp ho with h | h
    · exact hws o h
    · simp at h; subst h; exact hw
  · simp [run, List.foldl_append]

/-- Table 15 of TS 103 300-3 as found in vam_constants.py (regenerated on every run): the durations the theorems
below are about.  A changed constant re-opens this obligation. -/
theorem table15_values :
    timeClusterJoinNotification = 3000 ∧ timeClusterLeaveNotification = 1000 ∧ timeClusterBreakupWarning = 3000 ∧
    timeClusterContinuity = 2000 ∧ timeClusterJoinSuccess = 500 := by decide

/-! ## Consistency of the state -/

/-- leader exactly when it owns a cluster with identifier 1..255 and cardinality ≥ 1 -/
theorem leader_iff {var : Variant} {s : St} (h : Reachable var s) :
    s.state = .leader ↔ ∃ c, s.cluster = some c ∧ 1 ≤ c.cid ∧ c.cid ≤ 255 ∧ 1 ≤ c.card := by
  have hi := reachable_inv h
  constructor
  · intro hl
    have := hi.leaderCluster.mp hl
    cases hc : s.cluster with
    | none => simp [hc] at this
    | some c => exact ⟨c, rfl, hi.clusterOk c hc⟩
  · rintro ⟨c, hc, _⟩
    exact hi.leaderCluster.mpr (by simp [hc])

/-- the same on the public API: the information container exists exactly for a leader and carries an identifier
in 1..255 and a cardinality ≥ 1 -/
theorem leader_iff_info_container {var : Variant} {s : St} (h : Reachable var s) :
    (s.state = .leader ↔ (infoContainer s).isSome = true) ∧
    ∀ cid r k p, infoContainer s = some (cid, r, k, p) → 1 ≤ cid ∧ cid ≤ 255 ∧ 1 ≤ k ∧ clusterId s = some cid := by
  have hi := reachable_inv h
  constructor
  · constructor
    · intro hl
      obtain ⟨c, hc, _⟩ := (leader_iff h).mp hl
      simp [infoContainer, hl, hc]
    · intro hs
      unfold infoContainer at hs
      split at hs
      · assumption
      · simp at hs
  · intro cid r k p hc
    unfold infoContainer at hc
    split at hc
    · rename_i c hl hcl
      simp only [Option.some.injEq, Prod.mk.injEq] at hc
      obtain ⟨rfl, _, rfl, _⟩ := hc
      have := hi.clusterOk c hcl
      simp [clusterId, hl, hcl, this]
    · simp at hc

/-- passive exactly when joined to a cluster with a known leader and an armed leader-lost timer
(and outside passive none of the three is left over) -/
theorem passive_iff {var : Variant} {s : St} (h : Reachable var s) :
    (s.state = .passive ↔ (s.joined.isSome = true ∧ s.leader.isSome = true ∧ s.last.isSome = true)) ∧
    (s.state ≠ .passive → s.joined = none ∧ s.leader = none ∧ s.last = none) := by
  have hi := reachable_inv h
  refine ⟨⟨hi.passiveMem, ?_⟩, hi.otherMem⟩
  intro hm
  by_cases hp : s.state = .passive
  · exact hp
  · have := hi.otherMem hp
    simp [this.1] at hm

/-- individual VAM transmission is suppressed only while passive or idle (every state, reachable or not) -/
theorem suppressed_only_passive_idle (s : St) (h : shouldTransmit s = false) :
    s.state = .passive ∨ s.state = .idle := by
  unfold shouldTransmit at h
  split at h <;> simp_all

/-- … and a reachable passive station is indeed silent (no leave notification can be pending there) -/
theorem passive_suppressed {var : Variant} {s : St} (h : Reachable var s) (hp : s.state = .passive) :
    shouldTransmit s = false := by
  have := (reachable_inv h).passiveNoLeave hp
  simp [shouldTransmit, hp, this]

/-- none of the `assert … is not None` statements of `update()` can fire -/
theorem no_assertion {var : Variant} {s : St} (h : Reachable var s) : s.err = false := (reachable_inv h).noErr

/-! ## Never silenced for good -/

/-- leader silent for timeClusterContinuity: stand-alone and transmitting after the next update
(any state with these fields, any clock advance `d` before the update) -/
theorem leader_lost {var : Variant} {s : St} {t : Nat} (d : Nat) (hp : s.state = .passive) (hl : s.last = some t)
    (hs : s.now + d - t ≥ timeClusterContinuity) :
    let s' := run var s [.tick d, .update]
    s'.state = .standalone ∧ shouldTransmit s' = true := by
  simp only [run, List.foldl_cons, List.foldl_nil, step]
  exact leader_lost_update (s := { s with now := s.now + d }) hp hl hs

/-- … and not earlier: before timeClusterContinuity has elapsed an update keeps the membership -/
theorem leader_not_lost_early {s : St} {t : Nat} (hp : s.state = .passive) (hl : s.last = some t)
    (hs : s.now - t < timeClusterContinuity) : (update s).state = .passive := by
  unfold update
  have he : (expire s).state = .passive := by simp [expire, hp]
  simp only [he]
  unfold updPassive
  have h1 : (expire s).last = some t := by simp [expire, hl]
  have h2 : ¬ (expire s).now - t ≥ timeClusterContinuity := by simp only [expire]; omega
  simp only [h1, h2, if_false]
  rw [(updLeaveNotify_fields (expire s)).1]; exact he

/-- Break-up announced by the leader (repaired variant `cpmFrees := true`, every reason): the member is stand-alone
and transmitting right after the reception, hence by the next update -/
theorem breakup_frees {var : Variant} (hc : var.cpmFrees = true) (ht : var.tupleFails = false)
    {s : St} {v : Vam} {o : OpC} {r : Nat} (d : Nat)
    (hp : s.state = .passive) (hl : s.leader = some v.sender) (ho : v.op = some o) (hb : o.breakup = some r) :
    let s' := run var s [.recv v, .tick d, .update]
    s'.state = .standalone ∧ shouldTransmit s' = true := by
  have hab : recvAborted var v = false := by simp [recvAborted, ht]
  obtain ⟨h1, _⟩ := recv_breakup_frees (var := var) hab hp hl ho hb (Or.inr hc)
  simp only [run, List.foldl_cons, List.foldl_nil, step]
  have h2 := update_state_of_standalone (s := { recv var s v with now := (recv var s v).now + d }) h1
  exact ⟨h2, by simp [shouldTransmit, h2]⟩

/-- The code as it is (`cpmFrees := false`): the same outside the known region
`clusterBreakupReason = receptionOfCpmContainingCluster` (C18-KF1) -/
theorem breakup_frees_partial {var : Variant} (ht : var.tupleFails = false)
    {s : St} {v : Vam} {o : OpC} {r : Nat} (d : Nat)
    (hp : s.state = .passive) (hl : s.leader = some v.sender) (ho : v.op = some o) (hb : o.breakup = some r)
    (hr : r ≠ breakupCpm) :
    let s' := run var s [.recv v, .tick d, .update]
    s'.state = .standalone ∧ shouldTransmit s' = true := by
  have hab : recvAborted var v = false := by simp [recvAborted, ht]
  obtain ⟨h1, _⟩ := recv_breakup_frees (var := var) hab hp hl ho hb (Or.inl hr)
  simp only [run, List.foldl_cons, List.foldl_nil, step]
  have h2 := update_state_of_standalone (s := { recv var s v with now := (recv var s v).now + d }) h1
  exact ⟨h2, by simp [shouldTransmit, h2]⟩

/-- a member of cluster 9 led by station 21, reached through the public API -/
def passiveWitness : List Op :=
  [.initiateJoin 9, .tick 3000, .update, .tick 50,
   .recv { sender := 21, x := 300, y := 0, info := some { cid := some 9, card := 2, shape := .circular }, op := none }]

def cpmBreakupVam : Vam :=
  { sender := 21, x := 300, y := 0, info := some { cid := some 9, card := 2, shape := .circular },
    op := some { join := none, leave := none, breakup := some breakupCpm } }

/-- C18-KF1: with the code as it is, the CPM break-up leaves the member passive and silent after the next update -/
theorem breakup_cpm_witness :
    let s' := run {} (St.init 1000000 128) (passiveWitness ++ [.recv cpmBreakupVam, .tick 50, .update])
    s'.state = .passive ∧ shouldTransmit s' = false := by decide

/-- … but it is released timeClusterContinuity after the leader's last cluster VAM, whatever the ex-leader's
individual VAMs do (this is what fix C18-F2 bought) -/
theorem breakup_cpm_bounded_witness :
    let plain : Vam := { sender := 21, x := 300, y := 0, info := none, op := none }
    let s' := run {} (St.init 1000000 128)
      (passiveWitness ++ [.recv cpmBreakupVam, .tick 1000, .recv plain, .update, .tick 1000, .recv plain, .update])
    s'.state = .standalone ∧ shouldTransmit s' = true := by decide

/-- Where membership and the leader-lost timer come from: a step ends in passive only if the station was passive
with unchanged leader / cluster / timer, or the event is the reception of a cluster VAM (information container)
whose sender is now the leader, whose cluster id is the joined cluster, and the timer was armed at that instant.
In particular an individual VAM of the leader's station never re-arms the timer. -/
theorem heartbeat_only_cluster_vam {var : Variant} (hv : var.hbAny = false) {s : St} (op : Op)
    (hp' : (step var s op).1.state = .passive) :
    (s.state = .passive ∧ (step var s op).1.leader = s.leader ∧ (step var s op).1.joined = s.joined ∧
      (step var s op).1.last = s.last) ∨
    (∃ v i, op = .recv v ∧ v.info = some i ∧ (step var s op).1.leader = some v.sender ∧
      (step var s op).1.joined = some (i.cid.getD 0) ∧ (step var s op).1.last = some (step var s op).1.now) :=
  step_passive_origin hv op hp'

/-- events during which no cluster VAM is heard -/
def Quiet : Op → Prop
  | .recv v => v.info = none
  | _ => True

theorem step_quiet {var : Variant} (hv : var.hbAny = false) {s : St} {op : Op} (hq : Quiet op)
    (hp' : (step var s op).1.state = .passive) : s.state = .passive ∧ (step var s op).1.last = s.last := by
  rcases step_passive_origin hv op hp' with h | ⟨v, i, rfl, hi, _⟩
  · exact ⟨h.1, h.2.2.2⟩
  · simp only [Quiet] at hq; rw [hq] at hi; cases hi

theorem run_quiet {var : Variant} (hv : var.hbAny = false) (ops : List Op) :
    ∀ s : St, (∀ op ∈ ops, Quiet op) → (run var s ops).state = .passive →
      s.state = .passive ∧ (run var s ops).last = s.last := by
  induction ops with
  | nil => intro s _ h; exact ⟨h, rfl⟩
  | cons op rest ih =>
    intro s hq hp'
    simp only [run, List.foldl_cons] at hp' ⊢
    obtain ⟨h1, h2⟩ := ih (step var s op).1 (fun o ho => hq o (by simp [ho])) hp'
    obtain ⟨h3, h4⟩ := step_quiet hv (hq op (by simp)) h1
    exact ⟨h3, by rw [← h4]; exact h2⟩

/-- NOT SILENCED FOR GOOD: from any passive state, after ANY sequence of events during which no cluster VAM is heard
(commands, updates, clock steps, individual VAMs of anybody — the ex-leader included — join/leave/break-up
notices without information container), an update at least timeClusterContinuity after the last cluster VAM
leaves the station non-passive, and transmitting unless the role was switched off. -/
theorem not_silenced_for_good {var : Variant} (hv : var.hbAny = false) {s : St} {t : Nat}
    (_hp : s.state = .passive) (hl : s.last = some t) (ops : List Op) (hq : ∀ op ∈ ops, Quiet op)
    (hs : (run var s ops).now - t ≥ timeClusterContinuity) :
    let s' := update (run var s ops)
    s'.state ≠ .passive ∧ (s'.state ≠ .idle → shouldTransmit s' = true) := by
  intro s'
  have hnp : s'.state ≠ .passive := by
    by_cases h1 : (run var s ops).state = .passive
    · have h2 := (run_quiet hv ops s hq h1).2
      rw [hl] at h2
      have := (leader_lost_update h1 h2 hs).1
      simp [s', this]
    · exact update_not_passive h1
  refine ⟨hnp, fun hni => ?_⟩
  unfold shouldTransmit
  split <;> simp_all

/-- one round of the old defect: a second passes, the ex-leader sends an individual VAM, update -/
def oldRound : List Op :=
  [.tick 1000, .recv { sender := 21, x := 300, y := 0, info := none, op := none }, .update]

/-- Before fix C18-F2 (`hbAny := true`) a member WAS silenced for good: individual VAMs of station 21 keep it
passive and silent through any number of rounds (the situation after a CPM break-up) -/
theorem silenced_for_good_old_witness (n : Nat) :
    let s0 := run { hbAny := true } (St.init 1000000 128) passiveWitness
    let s' := run { hbAny := true } s0 (List.flatten (List.replicate n oldRound))
    s'.state = .passive ∧ shouldTransmit s' = false := by
  intro s0
  have key : ∀ n (s : St), (s.state = .passive ∧ s.leader = some 21 ∧ s.last = some s.now ∧ s.leaveNotify = false) →
      let s' := run { hbAny := true } s (List.flatten (List.replicate n oldRound))
      s'.state = .passive ∧ s'.leader = some 21 ∧ s'.last = some s'.now ∧ s'.leaveNotify = false := by
    intro n
    induction n with
    | zero => intro s h; simpa [run] using h
    | succ k ih =>
      intro s h
      obtain ⟨h1, h2, h3, h4⟩ := h
      simp only [List.replicate_succ, List.flatten_cons, run, List.foldl_append]
      apply ih
      simp only [oldRound, List.foldl_cons, List.foldl_nil, step]
      have hr : recv { hbAny := true } { s with now := s.now + 1000 }
            { sender := 21, x := 300, y := 0, info := none, op := none } =
          { s with now := s.now + 1000, last := some (s.now + 1000),
                   vrus := upsertVru s.vrus { station := 21, x := 300, y := 0, lastSeen := s.now + 1000 } } := by
        simp [recv, recvAborted, recvVrus, recvInfoOpt, recvOpOpt, recvHb, isHeartbeat, h1, h2]
      rw [hr]
      have hc : timeClusterContinuity = 2000 := by decide
      simp [update, expire, updPassive, updLeaveNotify, h1, h2, h4, hc]
  have h0 : s0.state = .passive ∧ s0.leader = some 21 ∧ s0.last = some s0.now ∧ s0.leaveNotify = false := by decide
  obtain ⟨h1, _, _, h4⟩ := key n s0 h0
  exact ⟨h1, by simp [shouldTransmit, h1, h4]⟩

/-! ## Join towards an advertised cluster -/

/-- a station waiting for admission that receives a cluster VAM of the target cluster (as the decoder returns it,
any bounding-box shape) becomes a silent member of that cluster led by the sender, timer armed now — unless the
very same VAM announces the break-up -/
theorem join_completes {var : Variant} (ht : var.tupleFails = false) {s : St} (hr : Reachable var s)
    {v : Vam} {i : Info} {cid : Nat}
    (hs : s.state = .standalone) (hw : s.joinSub = .waiting) (htg : s.joinTarget = some cid)
    (hi : v.info = some i) (hc : i.cid.getD 0 = cid) (hb : ∀ o, v.op = some o → o.breakup = none) :
    let s' := recv var s v
    s'.state = .passive ∧ s'.joined = some cid ∧ s'.leader = some v.sender ∧ s'.last = some s.now ∧
      clusterId s' = some cid ∧ shouldTransmit s' = false := by
  have hinv := reachable_inv hr
  have hab : recvAborted var v = false := by simp [recvAborted, ht]
  intro s'
  have e : s' = recvHb var (recvOpOpt var (recvInfoOpt (recvVrus s v) v) v) v := recv_of_not_aborted hab
  have h1 : recvInfoOpt (recvVrus s v) v =
      completeJoin { recvVrus s v with
        clusters := upsertCluster s.clusters { cid := cid, leader := v.sender, card := i.card, lastSeen := s.now },
        seen := if seenHas s.seen cid then s.seen else s.seen ++ [(cid, s.now)] } v.sender := by
    simp [recvInfoOpt, hi, recvInfo, recvVrus, hs, hw, htg, hc]
  have hp1 : (recvInfoOpt (recvVrus s v) v).state = .passive := by rw [h1]; rfl
  have h2 : recvOpOpt var (recvInfoOpt (recvVrus s v) v) v = recvInfoOpt (recvVrus s v) v := by
    unfold recvOpOpt
    cases ho : v.op with
    | none => rfl
    | some o =>
      simp only [recvOp, recvTrack_passive _ _ hp1, hb o ho]
  rw [h2] at e
  obtain ⟨f1, f2, f3, f4, f5⟩ := recvHb_fields var (recvInfoOpt (recvVrus s v) v) v
  have f6 := recvHb_last var (recvInfoOpt (recvVrus s v) v) v
  rw [← e] at f1 f2 f3 f4 f5 f6
  have hnl : s.leaveNotify = false := hinv.waitingNoLeave hw
  have g1 : s'.state = .passive := by rw [f1, h1]; rfl
  have g2 : s'.joined = some cid := by rw [f3, h1]; simp [completeJoin, recvVrus, htg]
  have g3 : s'.leader = some v.sender := by rw [f2, h1]; rfl
  have g4 : s'.last = some s.now := by
    rw [f6]; split
    · rw [h1]; rfl
    · rw [h1]; rfl
  have g5 : s'.leaveNotify = false := by rw [f5, h1]; simpa [completeJoin, recvVrus] using hnl
  exact ⟨g1, g2, g3, g4, by simp [clusterId, g1, g2], by simp [shouldTransmit, g1, g5]⟩

/-- Before fix C18-F1 (`tupleFails := true`) a decoded cluster VAM with the circular bounding box every leader
sends was dropped after the nearby-VRU table: nothing else changes, so no join ever completed -/
theorem join_never_completes_old_witness {s : St} {v : Vam} {i : Info}
    (hi : v.info = some i) (hc : i.shape = .circular) :
    recv { tupleFails := true } s v = recvVrus s v ∧ (recv { tupleFails := true } s v).state = s.state := by
  have hab : recvAborted { tupleFails := true } v = true := by simp [recvAborted, hi, hc]
  rw [recv_of_aborted hab]
  exact ⟨rfl, rfl⟩

/-! ## Notification durations -/

/-- time fields of the operation container are always encodable as DeltaTimeQuarterSecond (1..127) -/
theorem quarters_range (left : Nat) : 1 ≤ quarters left ∧ quarters left ≤ 127 := by
  unfold quarters; omega

/-- join notification: while less than timeClusterJoinNotification has elapsed an update keeps announcing the
join (same target, same start), with the remaining time in quarter seconds -/
theorem join_notification_lasts {var : Variant} {s : St} {t0 cid : Nat}
    (hs : s.state = .standalone) (hj : s.joinSub = .notify) (ht : s.joinStarted = some t0) (hc : s.joinTarget = some cid)
    (h0 : 0 < t0) (hlt : s.now - t0 < timeClusterJoinNotification) :
    let s' := update s
    s'.state = .standalone ∧ s'.joinSub = .notify ∧ s'.joinStarted = some t0 ∧
    ∃ o, opContainer var s' = some o ∧ o.join = some (cid, quarters (timeClusterJoinNotification - (s.now - t0))) := by
  have hn : ¬ s.now - t0 ≥ timeClusterJoinNotification := by omega
  have hu : updJoin (expire s) = expire s := by
    simp [updJoin, expire, hj, ht, hn]
  have e : update s = updLeaveNotify (expire s) := by
    simp [update, expire, hs, updStandalone, updJoin, hj, ht, hn]
  obtain ⟨g1, _, _, _, g5⟩ := updLeaveNotify_fields (expire s)
  have g6 : (updLeaveNotify (expire s)).joinSub = .notify ∧ (updLeaveNotify (expire s)).joinStarted = some t0 ∧
      (updLeaveNotify (expire s)).joinTarget = some cid := by
    unfold updLeaveNotify clearLeave
    repeat' split
    all_goals simp [expire, hj, ht, hc]
  intro s'
  have es : s' = updLeaveNotify (expire s) := e
  rw [es]
  refine ⟨by rw [g1]; simp [expire, hs], g6.1, g6.2.1, ?_⟩
  have hst : (updLeaveNotify (expire s)).state = .standalone := by rw [g1]; simp [expire, hs]
  have hnow : (updLeaveNotify (expire s)).now = s.now := by rw [g5]; rfl
  have ht0 : t0 ≠ 0 := by omega
  have hjn : (standaloneOp var (updLeaveNotify (expire s))).join =
      some (cid, quarters (timeClusterJoinNotification - (s.now - t0))) := by
    simp [standaloneOp, g6.1, g6.2.1, g6.2.2, quarterLeft, hnow, ht0]
  exact ⟨_, by simp only [opContainer, hst]; exact orNone_of_join hjn, hjn⟩

/-- … and the first update at or after timeClusterJoinNotification ends it: waiting for admission, no
`clusterJoinInfo` any more -/
theorem join_notification_ends {var : Variant} {s : St} {t0 : Nat}
    (hs : s.state = .standalone) (hj : s.joinSub = .notify) (ht : s.joinStarted = some t0)
    (hge : s.now - t0 ≥ timeClusterJoinNotification) :
    let s' := update s
    s'.state = .standalone ∧ s'.joinSub = .waiting ∧ s'.joinStarted = some s.now ∧
    ∀ o, opContainer var s' = some o → o.join = none := by
  have e : update s = updLeaveNotify { expire s with joinSub := .waiting, joinStarted := some s.now, state := .standalone } := by
    simp [update, expire, hs, updStandalone, updJoin, hj, ht, hge]
  intro s'
  have es : s' = _ := e
  obtain ⟨g1, _, _, _, _⟩ := updLeaveNotify_fields
    { expire s with joinSub := .waiting, joinStarted := some s.now, state := .standalone }
  have g6 : s'.joinSub = .waiting ∧ s'.joinStarted = some s.now := by
    rw [es]; unfold updLeaveNotify clearLeave
    repeat' split
    all_goals simp
  have hst : s'.state = .standalone := by rw [es, g1]
  refine ⟨hst, g6.1, g6.2, ?_⟩
  intro o ho
  simp only [opContainer, hst] at ho
  rw [orNone_some ho]
  exact standaloneOp_join_none (by rw [g6.1]; decide)

/-- nothing but update, cancel, leave or role-off touches a running join notification (in particular no received
VAM and, since fix C18-F4, no cluster creation) -/
theorem join_notification_stable {var : Variant} (hv : var.createDuringNotify = false) {s : St} {t0 : Nat}
    (hs : s.state = .standalone) (hj : s.joinSub = .notify) (ht : s.joinStarted = some t0) (op : Op)
    (hop : op ≠ .update ∧ op ≠ .cancelJoin ∧ op ≠ .roleOff ∧ ∀ r, op ≠ .leave r) :
    let s' := (step var s op).1
    s'.state = .standalone ∧ s'.joinSub = .notify ∧ s'.joinStarted = some t0 ∧ s'.joinTarget = s.joinTarget := by
  obtain ⟨h1, h2, h3, h4⟩ := hop
  cases op with
  | update => exact absurd rfl h1
  | cancelJoin => exact absurd rfl h2
  | roleOff => exact absurd rfl h3
  | leave r => exact absurd rfl (h4 r)
  | tick d => simp [step, hs, hj, ht]
  | roleOn => simp [step, roleOn, hs, hj, ht]
  | tryCreate x y rs => simp [step, tryCreate, hs, hj, ht, hv]
  | initiateJoin c => simp [step, initiateJoin, hs, hj, ht]
  | confirmJoinFailed => simp [step, confirmJoinFailed, hs, hj, ht]
  | breakup r => simp [step, breakup, hs, hj, ht]
  | recv v =>
    simp only [step]
    have a0 : (recvVrus s v).state = .standalone ∧ (recvVrus s v).joinSub = .notify ∧
        (recvVrus s v).joinStarted = some t0 ∧ (recvVrus s v).joinTarget = s.joinTarget := ⟨hs, hj, ht, rfl⟩
    by_cases hab : recvAborted var v = true
    · rw [recv_of_aborted hab]; exact a0
    · rw [recv_of_not_aborted (by simpa using hab)]
      have a1 : (recvInfoOpt (recvVrus s v) v).state = .standalone ∧ (recvInfoOpt (recvVrus s v) v).joinSub = .notify ∧
          (recvInfoOpt (recvVrus s v) v).joinStarted = some t0 ∧
          (recvInfoOpt (recvVrus s v) v).joinTarget = s.joinTarget := by
        unfold recvInfoOpt
        split
        · simp [recvInfo, recvVrus, hs, hj, ht]
        · exact a0
      generalize recvInfoOpt (recvVrus s v) v = s1 at a1
      have a2 : (recvOpOpt var s1 v).state = .standalone ∧ (recvOpOpt var s1 v).joinSub = .notify ∧
          (recvOpOpt var s1 v).joinStarted = some t0 ∧ (recvOpOpt var s1 v).joinTarget = s.joinTarget := by
        unfold recvOpOpt
        split
        · unfold recvOp recvTrack recvBreakup
          simp only [a1.1]
          split <;> simp [a1]
        · exact a1
      generalize recvOpOpt var s1 v = s2 at a2
      unfold recvHb
      split <;> simp [a2]

/-- events that do not abort a join on purpose -/
def NonAborting (op : Op) : Prop := op ≠ .cancelJoin ∧ op ≠ .roleOff ∧ ∀ r, op ≠ .leave r

/-- JOIN NOTIFICATION LASTS ITS DURATION over every history: after `initiate_join` at t0, ANY sequence of events that
contains no cancel / leave / role-off (updates, clock steps, received VAMs of any kind, creation attempts, …) and ends
before t0 + timeClusterJoinNotification still announces the join -/
theorem join_notification_persists {var : Variant} (hv : var.createDuringNotify = false) {t0 : Nat} (ops : List Op) :
    ∀ s : St, s.state = .standalone → s.joinSub = .notify → s.joinStarted = some t0 →
      (∀ op ∈ ops, NonAborting op) → (run var s ops).now - t0 < timeClusterJoinNotification →
      (run var s ops).state = .standalone ∧ (run var s ops).joinSub = .notify ∧
      (run var s ops).joinStarted = some t0 ∧ (run var s ops).joinTarget = s.joinTarget := by
  induction ops with
  | nil => intro s hs hj ht _ _; exact ⟨hs, hj, ht, rfl⟩
  | cons op rest ih =>
    intro s hs hj ht hna hlt
    simp only [run, List.foldl_cons] at hlt ⊢
    have hmono := run_now_mono var rest (step var s op).1
    simp only [run] at hmono
    have hnow := step_now var s op
    have h1 : (step var s op).1.state = .standalone ∧ (step var s op).1.joinSub = .notify ∧
        (step var s op).1.joinStarted = some t0 ∧ (step var s op).1.joinTarget = s.joinTarget := by
      by_cases hu : op = .update
      · subst hu
        exact update_keeps_notify hs hj ht (by simp only [] at hnow; omega)
      · obtain ⟨a, b, c⟩ := hna op (by simp)
        exact join_notification_stable hv hs hj ht op ⟨hu, a, b, c⟩
    obtain ⟨g1, g2, g3, g4⟩ := ih (step var s op).1 h1.1 h1.2.1 h1.2.2.1 (fun o ho => hna o (by simp [ho])) hlt
    exact ⟨g1, g2, g3, g4.trans h1.2.2.2⟩

/-- leave notification after membership: while less than timeClusterLeaveNotification has elapsed an update keeps
`clusterLeaveInfo` (cluster left, reason) in the container — also while a new join is being announced (fix C18-F3) -/
theorem leave_notification_lasts {var : Variant} (hv : var.joinHidesLeave = false) {s : St} (hinv : Inv s) {t1 : Nat}
    (hs : s.state = .standalone) (hl : s.leaveNotify = true) (ht : s.leaveStarted = some t1)
    (hj : s.joinSub = .none ∨ s.joinSub = .notify) (hlt : s.now - t1 < timeClusterLeaveNotification) :
    let s' := update s
    s'.state = .standalone ∧ s'.leaveNotify = true ∧ s'.leaveStarted = some t1 ∧
    ∃ o, opContainer var s' = some o ∧ o.leave = some (s.leaveCid.getD 0, s.leaveReason.getD leaveNotProvided) := by
  have hn : ¬ s.now - t1 ≥ timeClusterLeaveNotification := by omega
  have hlj := leave_le_join
  have hu : updJoin (expire s) = expire s := by
    rcases hj with hj | hj
    · simp [updJoin, expire, hj]
    · have := hinv.joinTimer (Or.inl hj)
      cases hjs : s.joinStarted with
      | none => simp [hjs] at this
      | some t0 =>
        have hle := hinv.leaveBeforeJoin hj hl t1 t0 ht hjs
        have : ¬ s.now - t0 ≥ timeClusterJoinNotification := by omega
        simp [updJoin, expire, hj, hjs, this]
  have e : update s = expire s := by
    simp only [update, show (expire s).state = .standalone from by simp [expire, hs], updStandalone, hu]
    simp [updLeaveNotify, expire, hl, ht, hn]
  intro s'
  have es : s' = expire s := e
  have hst : s'.state = .standalone := by rw [es]; simp [expire, hs]
  have hlo : leaveOut s' = some (s.leaveCid.getD 0, s.leaveReason.getD leaveNotProvided) := by
    rw [es]; simp [leaveOut, expire, hl]
  have hlv : (standaloneOp var s').leave = some (s.leaveCid.getD 0, s.leaveReason.getD leaveNotProvided) := by
    have hjs' : s'.joinSub = s.joinSub := by rw [es]; rfl
    unfold standaloneOp
    rcases hj with hj | hj
    · simp [hjs', hj, hlo]
    · simp [hjs', hj, hlo, hv]
  refine ⟨hst, by rw [es]; simp [expire, hl], by rw [es]; simp [expire, ht], _, ?_, hlv⟩
  simp only [opContainer, hst]
  exact orNone_of_leave hlv

/-- … and the first update at or after timeClusterLeaveNotification ends it -/
theorem leave_notification_ends {var : Variant} {s : St} {t1 : Nat}
    (hs : s.state = .standalone) (hl : s.leaveNotify = true) (ht : s.leaveStarted = some t1)
    (hj : s.joinSub = .none ∨ s.joinSub = .notify) (hge : s.now - t1 ≥ timeClusterLeaveNotification) :
    let s' := update s
    s'.state = .standalone ∧ s'.leaveNotify = false ∧ ∀ o, opContainer var s' = some o → o.leave = none := by
  intro s'
  have hst : s'.state = .standalone := update_state_of_standalone hs
  have key : s'.leaveNotify = false ∧ (s'.joinSub = .cancelled ∨ s'.joinSub = .failed → False) := by
    simp only [s', update, show (expire s).state = .standalone from by simp [expire, hs], updStandalone]
    have h1 : (updJoin (expire s)).leaveNotify = true ∧ (updJoin (expire s)).leaveStarted = some t1 ∧
        (updJoin (expire s)).now = s.now ∧ ((updJoin (expire s)).joinSub = .none ∨ (updJoin (expire s)).joinSub = .notify ∨
          (updJoin (expire s)).joinSub = .waiting) := by
      unfold updJoin
      rcases hj with hj | hj
      · simp [expire, hj, hl, ht]
      · simp only [expire, hj]
        split
        · split <;> simp [hl, ht]
        · simp [hl, ht]
    generalize updJoin (expire s) = s1 at h1
    obtain ⟨a1, a2, a3, a4⟩ := h1
    have : s1.now - t1 ≥ timeClusterLeaveNotification := by rw [a3]; exact hge
    simp only [updLeaveNotify, a1, a2, this, if_true, clearLeave]
    rcases a4 with h | h | h <;> simp [h]
  refine ⟨hst, key.1, ?_⟩
  intro o ho
  simp only [opContainer, hst] at ho
  rw [orNone_some ho]
  unfold standaloneOp
  have hlo : leaveOut s' = none := by simp [leaveOut, key.1]
  split
  · simp [hlo]
  · split
    · rename_i h; exact absurd h key.2
    · simp [hlo]

/-- cancelled / failed join: the leave notice (target cluster, cancelledJoin / failedJoin) is shown while less than
timeClusterLeaveNotification has elapsed and removed by the first update after that -/
theorem join_leave_notice {var : Variant} {s : St} {t1 : Nat}
    (hs : s.state = .standalone) (hj : s.joinSub = .cancelled ∨ s.joinSub = .failed) (ht : s.joinLeaveStarted = some t1) :
    let s' := update s
    (s.now - t1 < timeClusterLeaveNotification →
      s'.joinSub = s.joinSub ∧
      ∃ o, opContainer var s' = some o ∧ o.leave = some (s.joinTarget.getD 0, s.joinLeaveReason.getD leaveNotProvided)) ∧
    (s.now - t1 ≥ timeClusterLeaveNotification → s'.joinSub = .none) := by
  intro s'
  have hst : s'.state = .standalone := update_state_of_standalone hs
  have hex : (expire s).state = .standalone := by simp [expire, hs]
  constructor
  · intro hlt
    have hn : ¬ s.now - t1 ≥ timeClusterLeaveNotification := by omega
    have hu : updJoin (expire s) = expire s := by
      rcases hj with hj | hj <;> simp [updJoin, expire, hj, ht, hn]
    obtain ⟨_, _, _, _, _⟩ := updLeaveNotify_fields (expire s)
    have k : s'.joinSub = s.joinSub ∧ s'.joinTarget = s.joinTarget ∧ s'.joinLeaveReason = s.joinLeaveReason := by
      simp only [s', update, hex, updStandalone, hu]
      unfold updLeaveNotify clearLeave
      repeat' split
      all_goals simp [expire]
    have hlv : (standaloneOp var s').leave = some (s.joinTarget.getD 0, s.joinLeaveReason.getD leaveNotProvided) := by
      unfold standaloneOp
      rcases hj with hj | hj <;> simp [k.1, k.2.1, k.2.2, hj]
    refine ⟨k.1, _, ?_, hlv⟩
    simp only [opContainer, hst]
    exact orNone_of_leave hlv
  · intro hge
    simp only [s', update, hex, updStandalone]
    have hu : (updJoin (expire s)).joinSub = .none := by
      rcases hj with hj | hj <;> simp [updJoin, expire, hj, ht, hge]
    generalize updJoin (expire s) = s1 at hu
    unfold updLeaveNotify clearLeave
    repeat' split
    all_goals simp [hu]

/-- break-up warning: while less than timeClusterBreakupWarning has elapsed an update keeps the cluster and the
`clusterBreakupInfo` (reason, remaining quarter seconds) … -/
theorem breakup_warning_lasts {var : Variant} {s : St} {c : OwnCluster} {t0 r : Nat}
    (hs : s.state = .leader) (hc : s.cluster = some c) (ht : c.breakupStarted = some t0) (hr : c.breakupReason = some r)
    (hlt : s.now - t0 < timeClusterBreakupWarning) :
    let s' := update s
    s'.state = .leader ∧ s'.cluster = some c ∧
    opContainer var s' = some { breakup := some (r, quarters (timeClusterBreakupWarning - (s.now - t0))) } := by
  have hn : ¬ s.now - t0 ≥ timeClusterBreakupWarning := by omega
  have e : update s = expire s := by
    simp [update, expire, hs, updLeader, hc, ht, hn]
  intro s'
  have es : s' = expire s := e
  rw [es]
  refine ⟨by simp [expire, hs], by simp [expire, hc], ?_⟩
  simp [opContainer, expire, hs, hc, ht, hr]

/-- … and the first update at or after timeClusterBreakupWarning disbands: stand-alone, no cluster, transmitting -/
theorem breakup_warning_ends {s : St} {c : OwnCluster} {t0 : Nat}
    (hs : s.state = .leader) (hc : s.cluster = some c) (ht : c.breakupStarted = some t0)
    (hge : s.now - t0 ≥ timeClusterBreakupWarning) :
    let s' := update s
    s'.state = .standalone ∧ s'.cluster = none ∧ infoContainer s' = none ∧ shouldTransmit s' = true := by
  have e : update s = { expire s with cluster := none, state := .standalone } := by
    simp [update, expire, hs, updLeader, hc, ht, hge]
  intro s'
  have es : s' = _ := e
  rw [es]
  simp [infoContainer, shouldTransmit]

/-- a break-up can only be started by a leader that is not already breaking up, and then the warning starts now -/
theorem breakup_starts_warning {s : St} {r : Nat} (h : (breakup s r).2 = some true) :
    s.state = .leader ∧ ∃ c, (breakup s r).1.cluster = some c ∧ c.breakupStarted = some s.now ∧ c.breakupReason = some r := by
  by_cases hst : s.state = .leader
  · refine ⟨hst, ?_⟩
    cases hc : s.cluster with
    | none => simp [breakup, hst, hc] at h
    | some c =>
      by_cases hb : c.breakupStarted.isSome = true
      · simp [breakup, hst, hc, hb] at h
      · simp [breakup, hst, hc, hb]
  · simp [breakup, hst] at h

/-! ## Non-vacuity: the hypotheses above are met by runs through the public API -/

example : (run {} (St.init 1000000 128) passiveWitness).state = .passive := by decide

example : Reachable {} (run {} (St.init 1000000 128) passiveWitness) :=
  ⟨1000000, 128, passiveWitness, by simp [passiveWitness, Op.WF], rfl⟩

/-- three neighbours within 5 m, cluster 7 created, break-up announced -/
def leaderWitness : List Op :=
  [.recv { sender := 31, x := 0, y := 0, info := none, op := none },
   .recv { sender := 32, x := 300, y := 0, info := none, op := none },
   .recv { sender := 33, x := 0, y := 480, info := none, op := none },
   .tick 50, .tryCreate 0 0 [7]]

example : infoContainer (run {} (St.init 1000000 128) leaderWitness) = some (7, 5, 1, 128) := by decide

example :
    let s := run {} (St.init 1000000 128) (leaderWitness ++ [.breakup 1, .tick 2999, .update])
    s.state = .leader ∧ opContainer {} s = some { breakup := some (1, 1) } := by decide

example :
    let s := run {} (St.init 1000000 128) (leaderWitness ++ [.breakup 1, .tick 3000, .update])
    s.state = .standalone ∧ shouldTransmit s = true := by decide

/-- the waiting state of `join_completes`, and the leader-lost deadline on a concrete run -/
example :
    let s := run {} (St.init 1000000 128) [.initiateJoin 9, .tick 3000, .update]
    s.state = .standalone ∧ s.joinSub = .waiting ∧ s.joinTarget = some 9 := by decide

example :
    (run {} (St.init 1000000 128) (passiveWitness ++ [.tick 1999, .update])).state = .passive ∧
    (run {} (St.init 1000000 128) (passiveWitness ++ [.tick 2000, .update])).state = .standalone := by decide

/-- leave notice and a new join announced together (fix C18-F3) -/
example :
    let s := run {} (St.init 1000000 128) (passiveWitness ++ [.leave 8, .tick 50, .initiateJoin 5, .tick 50, .update])
    opContainer {} s = some { join := some (5, 11), leave := some (9, 8) } := by decide

/-- fix C18-F4 on a concrete run: creation refused while a join is announced; accepted by the old variant -/
example :
    (step {} (run {} (St.init 1000000 128) (leaderWitness.dropLast ++ [.initiateJoin 9])) (.tryCreate 0 0 [7])).2 = some false ∧
    (step { createDuringNotify := true } (run {} (St.init 1000000 128) (leaderWitness.dropLast ++ [.initiateJoin 9]))
      (.tryCreate 0 0 [7])).2 = some true := by decide

end Props.C18

/-
C02 / C20 — bridge lemmas, family `basic_header.py`: the definitions extracted from the Python AST of the current
source on every run (`Generated/ExtractedBasic.lean`, `Generated/Extracted.lean`, written by harness/py2lean.py)
are equal to the hand-written model (`FlexModel/Wire/Headers.lean`, `FlexModel/Geo/LT.lean`) the property
theorems are about — for ALL arguments.  This module is an obligation of a run only when every function of the
family was extracted (otherwise: `extract-skipped` in the evidence, correspondence alone).
Tactics are chosen to survive harmless rewrites (renamed locals, reordered independent statements, reordered
`|` operands) and to fail on any semantic change (shift, mask, field order, enum code set, length guard).
-/
import FlexModel.Wire.BridgeLemmas
import Generated.ExtractedBasic
set_option linter.unusedSimpArgs false

namespace Props.C02BridgeBasic
open FlexModel.Wire FlexModel.Wire.Bridge FlexModel.Geo Generated.Extracted Generated.WireEnums

/-- `LT.encode_to_int` = `LT.encode` -/
theorem LT_encode_to_int_eq (c : LT) : LT_encode_to_int c.mult c.base = c.encode := by
  simp only [LT_encode_to_int, LT.encode]
  try lor_ac

/-- `LT.get_value_in_seconds` = `LT.seconds` (for every 2-bit base) -/
theorem LT_get_value_in_seconds_eq (c : LT) (hb : c.base < 4) : LT_get_value_in_seconds c.mult c.base = c.seconds := by
  obtain ⟨m, b⟩ := c
  have : b = 0 ∨ b = 1 ∨ b = 2 ∨ b = 3 := by simp only at hb; omega
  rcases this with rfl | rfl | rfl | rfl <;>
    simp [LT_get_value_in_seconds, LT_get_value_in_millis, LT.seconds, LT.millis, LT.unit]

/-- `BasicHeader.encode_to_int` = `BasicHeader.encodeInt` -/
theorem encode_to_int_eq (h : BasicHeader) :
    BasicHeader_encode_to_int h.version h.nh h.reserved h.lt.mult h.lt.base h.rhl = h.encodeInt := by
  simp only [BasicHeader_encode_to_int, BasicHeader.encodeInt, LT_encode_to_int]
  try lor_ac

/-- `BasicHeader.encode_to_bytes` = `BasicHeader.encode` (OverflowError included) -/
theorem encode_to_bytes_eq (h : BasicHeader) :
    BasicHeader_encode_to_bytes h.version h.nh h.reserved h.lt.mult h.lt.base h.rhl = h.encode := by
  simp only [BasicHeader_encode_to_bytes, BasicHeader.encode, encode_to_int_eq, bind_pure]
  try except_cases

/-- `BasicHeader.decode_from_int` = `BasicHeader.decodeInt` (ValueError on unknown NH / LT base codes included;
the code sets come from the enums of the source on both sides) -/
theorem decode_from_int_eq (v : Nat) :
    BasicHeader_decode_from_int v = (BasicHeader.decodeInt v).map flatBasic := by
  simp only [BasicHeader_decode_from_int, BasicHeader.decodeInt, enumOf_eq, BasicNH_values, LTbase_values]
  try except_cases

/-- `BasicHeader.decode_from_bytes` = `BasicHeader.decode` (DecodeError below 4 octets included) -/
theorem decode_from_bytes_eq (bs : Bytes) :
    BasicHeader_decode_from_bytes bs = (BasicHeader.decode bs).map flatBasic := by
  simp only [BasicHeader_decode_from_bytes, BasicHeader.decode, decode_from_int_eq, bind_pure]
  try except_cases

/-- `BasicHeader.set_rhl(r)` for any Python int `r` (negative included): RHL := r mod 256, nothing else changes -/
theorem set_rhl_eq (h : BasicHeader) (r : Int) :
    BasicHeader_set_rhl h.version h.nh h.reserved h.lt.mult h.lt.base h.rhl r
      = flatBasic { h with rhl := (r % 256).toNat } := by
  simp only [BasicHeader_set_rhl, flatBasic]

/-- the forwarding step `set_rhl(rhl - 1)` is the model's `decRhl` -/
theorem dec_rhl_eq (h : BasicHeader) :
    BasicHeader_set_rhl h.version h.nh h.reserved h.lt.mult h.lt.base h.rhl ((h.rhl : Int) - 1) = flatBasic (decRhl h) := by
  rw [set_rhl_eq]
  simp only [flatBasic, decRhl]
  congr 5
  omega

end Props.C02BridgeBasic

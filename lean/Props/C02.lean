/-
C02 — Emitted packets and header codecs conform to the ETSI wire formats
(EN 302 636-4-1 clause 9, EN 302 636-5-1 clause 7).  Property theorems only.

Model: `FlexModel/Wire/{Bits,Headers,Packet}.lean` (the Python codecs and packet assembly after the C02 fixes),
       `FlexModel/Wire/Rx.lean` (per-reception secured-message context, several receive threads on one router).
Spec:  `FlexModel/Wire/Spec.lean` — the standard's layouts as data and ONE generic `pack`/`unpack`;
       `Spec.octets l vs` = the octets the standard prescribes for field values `vs`;
       `FlexModel/Geo/LTSpec.lean` — which LT octet and which hop limit the standard prescribes (no model function in it).
The right-hand sides of the packet theorems (§6) are built from Spec definitions only.
`fields`/`WF` per header: `FlexModel/Wire/Fields.lean`.  Helper lemmas: `Wire/*Lemmas*.lean`.
All statements are for every field value within its width (no sampling, no size bound).
-/
import FlexModel.Wire.PacketLemmas
import FlexModel.Wire.Rx
import FlexModel.Wire.Snap

namespace Props.C02
open FlexModel.Wire FlexModel.Wire.Spec Generated.WireEnums
open FlexModel.Geo

/-! ## 0. The standard's codec is self-consistent; the code's enum tables are the standard's code points -/

/-- every layout: `unpack` reads back exactly what `pack` wrote (two's complement for signed fields) -/
theorem spec_unpack_pack (l : Layout) (vs : List Int) (h : Fits l vs) : unpack l (pack l vs) = vs :=
  unpack_pack l vs h

/-- `pack` never exceeds the layout's bit length (so `octets` loses nothing) -/
theorem spec_pack_lt (l : Layout) (vs : List Int) : pack l vs < 2 ^ Layout.bits l := pack_lt l vs

/-- enum value tables re-read from the source on every run = code points of EN 302 636-4-1 (NH, HT, HST per HT,
ST incl. 15 = road side unit); a changed enum re-opens this obligation -/
theorem enum_tables_match :
    BasicNH_values = Spec.basicNH ∧ CommonNH_values = Spec.commonNH ∧ HeaderType_values = Spec.headerTypes ∧
    ST_values = Spec.stationTypes ∧ LTbase_values = [0, 1, 2, 3] ∧ M_values = [0, 1] ∧ GnIsMobile_values = [0, 1] ∧
    (∀ ht ∈ Spec.headerTypes, hstCodes ht = Spec.subTypes ht) := tables

/-! ## 1. Basic header -/

theorem basic_encode_conforms (h : BasicHeader) (wf : h.WF) :
    h.encode = .ok (octets basicHeader h.fields) := BasicHeader.encode_eq h wf

/-- the decoder returns exactly the field values a conformant encoder put on the wire (any trailing octets) -/
theorem basic_decode_conforms (h : BasicHeader) (wf : h.WF) (tail : Bytes) :
    BasicHeader.decode (slice (octets basicHeader h.fields ++ tail) 0 4) = .ok h := by
  have : Layout.bits basicHeader / 8 = 4 := by decide
  rw [octets, this, ← BasicHeader.encodeInt_eq_pack h wf]
  exact BasicHeader.decode_octets h wf tail

theorem basic_decode_encode (h : BasicHeader) (wf : h.WF) :
    ∃ bs, h.encode = .ok bs ∧ BasicHeader.decode bs = .ok h := by
  refine ⟨_, basic_encode_conforms h wf, ?_⟩
  have := basic_decode_conforms h wf []
  rwa [List.append_nil, slice_all _ _ (by simp [octets, toBytesBE_length]; decide)] at this

/-- for EVERY 32-bit input (conformant or not): what the decoder returns is what the standard's `unpack` reads -/
theorem basic_decode_reads_layout (v : Nat) (h : BasicHeader) (hd : BasicHeader.decodeInt v = .ok h) :
    h.fields = unpack basicHeader v := by
  simp only [BasicHeader.decodeInt, bind, Except.bind, pure, Except.pure] at hd
  split at hd
  · cases hd
  · rename_i nh hnh
    split at hd
    · cases hd
    · rename_i base hbase
      injection hd with hd
      subst hd
      obtain ⟨rfl, _⟩ := enum?_ok hnh
      obtain ⟨rfl, _⟩ := enum?_ok hbase
      simp only [BasicHeader.fields, unpack, unpackRev, basicHeader, decField, List.reverse_cons,
        List.reverse_nil, List.nil_append, List.cons_append, and_15, and_255, and_63, and_3,
        Nat.shiftRight_eq_div_pow]
      simp
      omega

/-- reserved NH codes are rejected with `ValueError`, short input with `DecodeError` -/
theorem basic_decode_errors (bs : Bytes) :
    (bs.length < 4 → BasicHeader.decode bs = .error .decode) ∧
    (∀ v, (v >>> 24 &&& 15) ∉ Spec.basicNH → BasicHeader.decodeInt v = .error .value) := by
  constructor
  · intro h; simp [BasicHeader.decode, h]
  · intro v hv
    have hm : (v >>> 24 &&& 15) ∉ BasicNH_values := by rw [tables.1]; exact hv
    simp [BasicHeader.decodeInt, enum?, hm, bind, Except.bind]

example : BasicHeader.WF ⟨1, 1, 0, ⟨26, 1⟩, 1⟩ := by simp [BasicHeader.WF, Spec.basicNH]


/-! ## 2. Traffic class and common header -/

theorem tc_encode_conforms (t : TrafficClass) (wf : t.WF) : t.encodeInt = pack trafficClass t.fields :=
  TrafficClass.encodeInt_eq_pack t wf

theorem tc_decode_encode (t : TrafficClass) (wf : t.WF) : TrafficClass.decodeInt t.encodeInt = t :=
  TrafficClass.decode_encode t wf

/-- SCF is the MSB, channel offload the next bit, TC ID the low 6 bits — for every octet -/
theorem tc_bits (t : TrafficClass) (wf : t.WF) :
    t.encodeInt = b2n t.scf * 128 + b2n t.channelOffload * 64 + t.tcId := TrafficClass.encodeInt_arith t wf

theorem common_encode_conforms (h : CommonHeader) (wf : h.WF) :
    h.encode = .ok (octets commonHeader h.fields) := CommonHeader.encode_eq h wf

theorem common_decode_conforms (h : CommonHeader) (wf : h.WF) (fc : h.FlagsConformant) (tail : Bytes) :
    CommonHeader.decode (slice (octets commonHeader h.fields ++ tail) 0 8) = .ok h := by
  have : Layout.bits commonHeader / 8 = 8 := by decide
  rw [octets, this, ← CommonHeader.encodeInt_eq_pack h wf]
  exact CommonHeader.decode_octets h wf fc tail

theorem common_decode_encode (h : CommonHeader) (wf : h.WF) (fc : h.FlagsConformant) :
    ∃ bs, h.encode = .ok bs ∧ CommonHeader.decode bs = .ok h := by
  refine ⟨_, common_encode_conforms h wf, ?_⟩
  have := common_decode_conforms h wf fc []
  rwa [List.append_nil, slice_all _ _ (by simp [octets, toBytesBE_length]; decide)] at this

/-- reserved HT / HST / NH codes raise `ValueError` -/
theorem common_decode_errors (v : Nat) :
    ((v >>> 60 &&& 15) ∉ Spec.commonNH → CommonHeader.decodeInt v = .error .value) ∧
    ((v >>> 60 &&& 15) ∈ Spec.commonNH → (v >>> 52 &&& 15) ∉ Spec.headerTypes → CommonHeader.decodeInt v = .error .value) ∧
    ((v >>> 60 &&& 15) ∈ Spec.commonNH → (v >>> 52 &&& 15) ∈ Spec.headerTypes →
      (v >>> 48 &&& 15) ∉ Spec.subTypes (v >>> 52 &&& 15) → CommonHeader.decodeInt v = .error .value) := by
  refine ⟨?_, ?_, ?_⟩
  · intro h1
    have hm : (v >>> 60 &&& 15) ∉ CommonNH_values := by rw [tables.2.1]; exact h1
    simp [CommonHeader.decodeInt, enum?, hm, bind, Except.bind]
  · intro h1 h2
    have hm1 : (v >>> 60 &&& 15) ∈ CommonNH_values := by rw [tables.2.1]; exact h1
    have hm2 : (v >>> 52 &&& 15) ∉ HeaderType_values := by rw [tables.2.2.1]; exact h2
    simp [CommonHeader.decodeInt, enum?, hm1, hm2, bind, Except.bind]
  · intro h1 h2 h3
    have hm1 : (v >>> 60 &&& 15) ∈ CommonNH_values := by rw [tables.2.1]; exact h1
    have hm2 : (v >>> 52 &&& 15) ∈ HeaderType_values := by rw [tables.2.2.1]; exact h2
    have hm3 : (v >>> 48 &&& 15) ∉ hstCodes (v >>> 52 &&& 15) := by rw [tables.2.2.2.2.2.2.2 _ h2]; exact h3
    simp [CommonHeader.decodeInt, enum?, hm1, hm2, hm3, bind, Except.bind]

private theorem b2n_mod2 (x : Nat) : b2n (x % 2 == 1) = x % 2 := by
  have : x % 2 = 0 ∨ x % 2 = 1 := by omega
  rcases this with h | h <;> simp [h, b2n]

/-- for EVERY 64-bit input (conformant or not): the ten values the decoder returns are what the standard's `unpack` reads
at NH, HT, HST, SCF, channel offload, TC ID, mobile flag, PL, MHL and the TRAILING reserved octet.  The other two fields
of the layout — the 4 reserved bits after NH (index 1) and the 7 reserved flag bits (index 8) — are not returned at all
(`flags` keeps bit 0 only), and the class has a single `reserved` attribute for two reserved fields. -/
theorem common_decode_reads_layout (v : Nat) (h : CommonHeader) (hd : CommonHeader.decodeInt v = .ok h) :
    let u := unpack commonHeader v
    ([(h.nh : Int), h.ht, h.hst, b2n h.tc.scf, b2n h.tc.channelOffload, h.tc.tcId, ((h.flags / 128 : Nat) : Int), h.pl, h.mhl,
      h.reserved] = [u.getD 0 0, u.getD 2 0, u.getD 3 0, u.getD 4 0, u.getD 5 0, u.getD 6 0, u.getD 7 0, u.getD 9 0,
      u.getD 10 0, u.getD 11 0]) ∧ h.flags % 128 = 0 := by
  simp only [CommonHeader.decodeInt, bind, Except.bind, pure, Except.pure] at hd
  split at hd
  · cases hd
  · rename_i nh hnh
    split at hd
    · cases hd
    · rename_i ht hht
      split at hd
      · cases hd
      · rename_i hst hhst
        injection hd with hd
        subst hd
        obtain ⟨rfl, _⟩ := enum?_ok hnh
        obtain ⟨rfl, _⟩ := enum?_ok hht
        obtain ⟨rfl, _⟩ := enum?_ok hhst
        simp only [TrafficClass.decodeInt, unpack, unpackRev, commonHeader, decField, List.reverse_cons,
          List.reverse_nil, List.nil_append, List.cons_append, and_15, and_255, and_63, and_1, and_65535, and_128,
          Nat.shiftRight_eq_div_pow]
        simp [b2n_mod2]
        omega

/-- the asymmetry made concrete (NON-conformant input, outside the property; recorded because a forwarder re-encodes
what it decoded): the trailing reserved octet 0x35 of a received header is copied by `encode` into the 4 reserved bits
after NH as well — and, being wider than 4 bits, spills into NH (0x2… becomes 0x3…) -/
theorem common_reserved_asymmetry_witness :
    ∃ h, CommonHeader.decodeInt 0x2050008000000135 = .ok h ∧ h.encodeInt = 0x3550008000000135 := by
  refine ⟨_, rfl, ?_⟩
  decide +kernel

/-! ## 3. GN address -/

theorem gnaddr_encode_conforms (a : GNAddr) (wf : a.WF) :
    toBytes? 8 a.encodeInt = .ok (octets gnAddr a.fields) := by
  rw [toBytes?_ok (by simpa using GNAddr.encodeInt_lt a wf), octets_gnAddr a wf]

theorem gnaddr_decode_conforms (a : GNAddr) (wf : a.WF) : GNAddr.decode (octets gnAddr a.fields) = .ok a := by
  rw [octets_gnAddr a wf]; exact GNAddr.decode_encode a wf

/-- M is the MSB, ST the next 5 bits, 10 reserved bits zero, MID the low 48 bits -/
theorem gnaddr_bits (a : GNAddr) (wf : a.WF) : a.encodeInt = a.m * 2 ^ 63 + a.st * 2 ^ 58 + a.mid :=
  GNAddr.encodeInt_arith a wf

/-- a road side unit's address (ST = 15, EN 302 636-4-1 6.3) is a well-formed address and round-trips
(the pinned code had ROAD_SIDE_UNIT = 12 and raised ValueError on 15: finding C02-F4) -/
theorem gnaddr_rsu (m mid : Nat) (hm : m < 2) (hmid : mid < 2 ^ 48) :
    GNAddr.decode (octets gnAddr [m, 15, 0, mid]) = .ok ⟨m, 15, mid⟩ :=
  gnaddr_decode_conforms ⟨m, 15, mid⟩ ⟨hm, by simp [Spec.stationTypes], hmid⟩

/-! ## 4. Position vectors -/

theorem lpv_encode_conforms (p : LongPV) (wf : p.WF) : p.encode = .ok (octets longPV p.fields) := by
  rw [LongPV.encode_ok p wf, octets_longPV p wf]

theorem lpv_decode_conforms (p : LongPV) (wf : p.WF) : LongPV.decode (octets longPV p.fields) = .ok p := by
  rw [octets_longPV p wf]; exact LongPV.decode_encode p wf

theorem lpv_decode_encode (p : LongPV) (wf : p.WF) : ∃ bs, p.encode = .ok bs ∧ LongPV.decode bs = .ok p :=
  ⟨_, LongPV.encode_ok p wf, LongPV.decode_encode p wf⟩

theorem spv_encode_conforms (p : ShortPV) (wf : p.WF) : p.encode = .ok (octets shortPV p.fields) := by
  rw [ShortPV.encode_ok p wf, octets_shortPV p wf]

theorem spv_decode_conforms (p : ShortPV) (wf : p.WF) : ShortPV.decode (octets shortPV p.fields) = .ok p := by
  rw [octets_shortPV p wf]; exact ShortPV.decode_encode p wf

theorem spv_decode_encode (p : ShortPV) (wf : p.WF) : ∃ bs, p.encode = .ok bs ∧ ShortPV.decode bs = .ok p :=
  ⟨_, ShortPV.encode_ok p wf, ShortPV.decode_encode p wf⟩

/-- **latitude and longitude are 32-bit two's complement** (negative values included): the encoded integer has
`twos32 lat` in bits 64..95 and `twos32 lon` in bits 32..63, never raises, and the decoder returns the signed values -/
theorem lat_lon_twos_complement (p : LongPV) (wf : p.WF) :
    (∃ bs, p.encode = .ok bs ∧ LongPV.decode bs = .ok p) ∧
    p.encodeInt / 2 ^ 64 % 2 ^ 32 = twos32 p.lat ∧ p.encodeInt / 2 ^ 32 % 2 ^ 32 = twos32 p.lon := by
  refine ⟨lpv_decode_encode p wf, ?_, ?_⟩
  all_goals
    have e := LongPV.encodeInt_arith p wf
    obtain ⟨h1, h2, h3, h4, h5, h6⟩ := wf
    simp only [Nat.reducePow] at h2
    obtain ⟨s1, s2, s3, s4, s5, s6, s7⟩ := lpv_split _ _ _ _ _ _ _ h2 (toTwos32_lt p.lat) (toTwos32_lt p.lon) (b2n_lt p.pai)
      (toTwos15_lt p.s) h6 _ e
    have l1 := toTwos32_spec p.lat h3
    have l2 := toTwos32_spec p.lon h4
    unfold inS32 at h3 h4
    unfold twos32
  · rw [s3]; split at l1 <;> (split <;> omega)
  · rw [s4]; split at l2 <;> (split <;> omega)

/-- e.g. latitude −1 (0.1 µdeg south of the equator) is the pattern 0xFFFFFFFF (the pinned code raised OverflowError) -/
example : twos32 (-1) = 4294967295 ∧ twos32 (-900000000) = 3394967296 := by decide

/-- **speed is a 15-bit signed field beside the PAI bit**: bit 31 is PAI alone, bits 16..30 are the two's complement
of `s`, for every `s` in −16384..16383 (negative speeds included; nothing spills into PAI) -/
theorem speed_15bit_signed_beside_pai (p : LongPV) (wf : p.WF) :
    p.encodeInt / 2 ^ 31 % 2 = b2n p.pai ∧
    p.encodeInt / 2 ^ 16 % 2 ^ 15 = (if p.s < 0 then (p.s + 32768).toNat else p.s.toNat) ∧
    (∃ bs, p.encode = .ok bs ∧ LongPV.decode bs = .ok p) := by
  refine ⟨?_, ?_, lpv_decode_encode p wf⟩
  all_goals
    have e := LongPV.encodeInt_arith p wf
    obtain ⟨h1, h2, h3, h4, h5, h6⟩ := wf
    simp only [Nat.reducePow] at h2
    obtain ⟨s1, s2, s3, s4, s5, s6, s7⟩ := lpv_split _ _ _ _ _ _ _ h2 (toTwos32_lt p.lat) (toTwos32_lt p.lon) (b2n_lt p.pai)
      (toTwos15_lt p.s) h6 _ e
    have hp := b2n_lt p.pai
    have l1 := toTwos15_spec p.s h5
    unfold inS15 at h5
  · rw [s5]; omega
  · rw [s6]; split at l1 <;> (split <;> omega)

/-- witness of the defect in the pinned code (C02-F1/F2): negative coordinates / speed raised `OverflowError`,
and speed 32768 set the PAI bit -/
theorem lpv_old_witness :
    LongPV.encodeOld ⟨⟨0, 5, 1⟩, 0, -1, 0, false, 0, 0⟩ = .error .overflow ∧
    LongPV.encodeOld ⟨⟨0, 5, 1⟩, 0, 0, 0, false, -1, 0⟩ = .error .overflow ∧
    LongPV.encodeOld ⟨⟨0, 5, 1⟩, 0, 0, 0, false, 32768, 0⟩ = LongPV.encodeOld ⟨⟨0, 5, 1⟩, 0, 0, 0, true, 0, 0⟩ :=
  ⟨rfl, rfl, rfl⟩


/-! ## 5. Extended headers and BTP headers -/

theorem gbc_encode_conforms (h : GBCExt) (wf : h.WF) : h.encode = .ok (octets gbc h.fields) := by
  rw [GBCExt.encode_eq h wf, GBCExt.octets_eq h wf]

theorem gbc_decode_conforms (h : GBCExt) (wf : h.WF) (tail : Bytes) :
    GBCExt.decode (octets gbc h.fields ++ tail) = .ok h := by
  rw [GBCExt.octets_eq h wf]
  have : h.octets [] ++ tail = h.octets tail := by simp [GBCExt.octets, List.append_assoc]
  rw [this]; exact GBCExt.decode_encode h wf tail

theorem gbc_decode_encode (h : GBCExt) (wf : h.WF) : ∃ bs, h.encode = .ok bs ∧ GBCExt.decode bs = .ok h :=
  ⟨_, GBCExt.encode_eq h wf, GBCExt.decode_encode h wf []⟩

/-- the geo-area centre of GBC/GAC is two's complement as well (octets 28..35 of the extended header) -/
theorem gbc_area_twos_complement (h : GBCExt) (wf : h.WF) :
    ∃ bs, h.encode = .ok bs ∧ fromBytesBE (slice bs 28 32) = twos32 h.lat ∧ fromBytesBE (slice bs 32 36) = twos32 h.lon := by
  refine ⟨_, GBCExt.encode_eq h wf, ?_, ?_⟩
  all_goals
    obtain ⟨h1, h2, h3, h4, h5, h6, h7, h8, h9⟩ := wf
    have l1 := toTwos32_spec h.lat h4
    have l2 := toTwos32_spec h.lon h5
    have := toTwos32_lt h.lat
    have := toTwos32_lt h.lon
    unfold inS32 at h4 h5
    unfold twos32
  · have s4 : slice (h.octets []) 28 32 = toBytesBE 4 (toTwos 32 h.lat) := by unfold GBCExt.octets; slice_skip; slice_here
    rw [s4, fromBytesBE_toBytesBE]; simp only [Nat.reducePow]; split at l1 <;> (split <;> omega)
  · have s5 : slice (h.octets []) 32 36 = toBytesBE 4 (toTwos 32 h.lon) := by unfold GBCExt.octets; slice_skip; slice_here
    rw [s5, fromBytesBE_toBytesBE]; simp only [Nat.reducePow]; split at l2 <;> (split <;> omega)

theorem tsb_encode_conforms (h : TSBExt) (wf : h.WF) : h.encode = .ok (octets tsb h.fields) := by
  rw [TSBExt.encode_eq h wf, TSBExt.octets_eq h wf]

theorem tsb_decode_conforms (h : TSBExt) (wf : h.WF) (tail : Bytes) :
    TSBExt.decode (octets tsb h.fields ++ tail) = .ok h := by
  rw [TSBExt.octets_eq h wf]
  simp only [List.append_assoc]
  exact TSBExt.decode_encode h wf tail

theorem tsb_decode_encode (h : TSBExt) (wf : h.WF) : ∃ bs, h.encode = .ok bs ∧ TSBExt.decode bs = .ok h := by
  refine ⟨_, TSBExt.encode_eq h wf, ?_⟩
  have := TSBExt.decode_encode h wf []
  simpa using this

/-- GUC extended header; the LS reply extended header has the same layout (`Spec.lsReply = Spec.guc`) and code -/
theorem guc_encode_conforms (h : GUCExt) (wf : h.WF) : h.encode = .ok (octets guc h.fields) := by
  rw [GUCExt.encode_eq h wf, GUCExt.octets_eq h wf]

theorem guc_decode_conforms (h : GUCExt) (wf : h.WF) (tail : Bytes) :
    GUCExt.decode (octets guc h.fields ++ tail) = .ok h := by
  rw [GUCExt.octets_eq h wf]
  have : h.octets [] ++ tail = h.octets tail := by simp [GUCExt.octets, List.append_assoc]
  rw [this]; exact GUCExt.decode_encode h wf tail

theorem guc_decode_encode (h : GUCExt) (wf : h.WF) : ∃ bs, h.encode = .ok bs ∧ GUCExt.decode bs = .ok h :=
  ⟨_, GUCExt.encode_eq h wf, GUCExt.decode_encode h wf []⟩

theorem lsreply_encode_conforms (h : GUCExt) (wf : h.WF) : h.encode = .ok (octets lsReply h.fields) :=
  guc_encode_conforms h wf

theorem lsrequest_encode_conforms (h : LSReqExt) (wf : h.WF) : h.encode = .ok (octets lsRequest h.fields) := by
  rw [LSReqExt.encode_eq h wf, LSReqExt.octets_eq h wf]

theorem lsrequest_decode_conforms (h : LSReqExt) (wf : h.WF) (tail : Bytes) :
    LSReqExt.decode (octets lsRequest h.fields ++ tail) = .ok h := by
  rw [LSReqExt.octets_eq h wf]
  have : h.octets [] ++ tail = h.octets tail := by simp [LSReqExt.octets, List.append_assoc]
  rw [this]; exact LSReqExt.decode_encode h wf tail

theorem lsrequest_decode_encode (h : LSReqExt) (wf : h.WF) : ∃ bs, h.encode = .ok bs ∧ LSReqExt.decode bs = .ok h :=
  ⟨_, LSReqExt.encode_eq h wf, LSReqExt.decode_encode h wf []⟩

/-- BTP-A: destination port, source port — 16 bits each, in this order -/
theorem btpA_layout (h : BTPHeader) (wf : h.WF) : h.encode = .ok (octets btpA h.fields) := by
  rw [BTPHeader.encode_eq h wf, BTPHeader.octets_eq btpA _ _ rfl h wf]

/-- BTP-B: destination port, destination port info — 16 bits each, in this order -/
theorem btpB_layout (h : BTPHeader) (wf : h.WF) : h.encode = .ok (octets btpB h.fields) := by
  rw [BTPHeader.encode_eq h wf, BTPHeader.octets_eq btpB _ _ rfl h wf]

theorem btp_decode_conforms (h : BTPHeader) (wf : h.WF) (payload : Bytes) :
    BTPHeader.decode (octets btpA h.fields ++ payload) = h ∧ BTPHeader.decode (octets btpB h.fields ++ payload) = h := by
  rw [BTPHeader.octets_eq btpA _ _ rfl h wf, BTPHeader.octets_eq btpB _ _ rfl h wf]
  simp only [List.append_assoc]
  exact ⟨BTPHeader.decode_encode h wf payload, BTPHeader.decode_encode h wf payload⟩

/-- `btp_data_request`: header octets first, payload untouched behind them; GN payload length = 4 + payload length -/
theorem btp_wrap (h : BTPHeader) (wf : h.WF) (payload : Bytes) :
    btpWrap h payload = .ok (octets btpB h.fields ++ payload) ∧ (octets btpB h.fields ++ payload).length = 4 + payload.length := by
  rw [BTPHeader.octets_eq btpB _ _ rfl h wf]
  simp [btpWrap, BTPHeader.encode_eq h wf, bind, Except.bind, pure, Except.pure, toBytesBE_length]
  omega


/-! ## 6. Packet assembly at origination: octet for octet the packet the standard prescribes
(`Spec.basicValues` / `Spec.commonValues`: field settings of EN 302 636-4-1 clause 10.3).

The right-hand sides are SPEC only — no function of the implementation model occurs in them:
* hop limit: `LTSpec.hopLimit (LTSpec.requestedHops r.maxHopLimit) mib.defaultHopLimit` (requested if specified, else
  itsGnDefaultHopLimit; `requestedHops` = the stated interface convention "0 and 1 mean not specified");
* traffic class of beacon / LS packets: `Spec.tcOfOctet itsGnDefaultTrafficClass` (div/mod reading of the octet);
* lifetime: SOME octet `lt` with `LTSpec.IsLifetimeOctet (LTSpec.lifetimeMs …) lt` (does not exceed the requested / default
  lifetime, and no representable lifetime that does not exceed it is larger) — the standard fixes the value, not the pair.
Hypotheses that select the variant of the code:
* `hv : v.versionFromMib = true ∨ mib.version = 1` — the repaired variant of C02-KF2 OR the code as it is (version
  hard-coded 1) under itsGnProtocolVersion = 1, the MIB default: the theorems DO apply to the code as it is;
* `hk : v.capped = false ∨ lifetime < 1 000 000 ms` — outside known finding C20-KF1;
* `v.beaconFlagFixed` — C02-KF1 (beacon only). -/

/-- SHB (`gn_data_request_shb`): RHL = MHL = 1, PL = payload length, SO PV = ego PV, 4 reserved octets -/
theorem shb_conforms (v : Variant) (mib : Mib) (hv : v.versionFromMib = true ∨ mib.version = 1) (hm : mib.WF)
    (r : Request) (hr : r.WF) (hk : v.capped = false ∨ LTSpec.lifetimeMs r.lifetimeMs mib.defaultLifetimeS < 1000000)
    (hshb : r.ht = HeaderType_TSB ∧ r.hst = TopoBroadcastHST_SINGLE_HOP) (ego : LongPV) (he : ego.WF) :
    ∃ lt, LTSpec.IsLifetimeOctet (LTSpec.lifetimeMs r.lifetimeMs mib.defaultLifetimeS) lt ∧
    shbPacket v mib r ego = .ok (
      octets basicHeader (basicValues mib.version lt 1) ++
      octets commonHeader (commonValues r.nh 5 0 r.tc mib.mobile r.data.length 1) ++
      octets shb (ego.fields ++ [0]) ++ r.data) := by
  refine ⟨_, LTLemmas.src_lifetime_meets_spec v.capped r.lifetimeMs mib.defaultLifetimeS hk, ?_⟩
  have wb := srcBasic_wf v mib hm r.lifetimeMs 1 (by omega)
  have wc := commonOfRequest_wf r hr mib hm
  unfold shbPacket
  rw [cat3_ok (BasicHeader.encode_eq _ wb) (CommonHeader.encode_eq _ wc) (LongPV.encode_ok ego he),
    srcBasic_fields v mib hv, commonOfRequest_fields r mib hm, octets_shb ego he]
  have h5 : r.length = r.data.length := hr.2.2.2.2.1
  simp only [hshb.1, hshb.2, h5, and_self, if_true, HeaderType_TSB, TopoBroadcastHST_SINGLE_HOP, List.append_assoc]

/-- hop limit of the multi-hop source operations is an octet -/
theorem srcHopLimit_lt (mib : Mib) (hm : mib.WF) (r : Request) (hr : r.WF) : srcHopLimit mib r < 256 := by
  unfold srcHopLimit; split
  · exact hm.2.2.1
  · exact hr.2.2.2.2.2.2.2

private theorem req_hop_wf (mib : Mib) (hm : mib.WF) (r : Request) (hr : r.WF) :
    Request.WF { r with maxHopLimit := srcHopLimit mib r } := by
  obtain ⟨r1, r2, r3, r4, r5, r6, r7, _⟩ := hr
  exact ⟨r1, r2, r3, r4, r5, r6, r7, srcHopLimit_lt mib hm r ⟨r1, r2, r3, r4, r5, r6, r7, by assumption⟩⟩

/-- GBC and GAC (`gn_data_request_gbc`): RHL = MHL = requested hop limit if specified, else itsGnDefaultHopLimit,
SN, reserved 0, SO PV = ego PV, area centre/a/b/angle of the request, reserved 0 -/
theorem gbc_conforms (v : Variant) (mib : Mib) (hv : v.versionFromMib = true ∨ mib.version = 1) (hm : mib.WF)
    (r : Request) (hr : r.WF) (hk : v.capped = false ∨ LTSpec.lifetimeMs r.lifetimeMs mib.defaultLifetimeS < 1000000)
    (hht : r.ht = HeaderType_GEOBROADCAST ∨ r.ht = HeaderType_GEOANYCAST) (sn : Nat) (hsn : sn < 65536)
    (ego : LongPV) (he : ego.WF) :
    ∃ lt, LTSpec.IsLifetimeOctet (LTSpec.lifetimeMs r.lifetimeMs mib.defaultLifetimeS) lt ∧
    gbcPacket v mib r sn ego = .ok (
      octets basicHeader (basicValues mib.version lt (LTSpec.hopLimit (LTSpec.requestedHops r.maxHopLimit) mib.defaultHopLimit)) ++
      octets commonHeader (commonValues r.nh r.ht r.hst r.tc mib.mobile r.data.length
        (LTSpec.hopLimit (LTSpec.requestedHops r.maxHopLimit) mib.defaultHopLimit)) ++
      octets gbc ([(sn : Int), 0] ++ ego.fields ++ [r.area.lat, r.area.lon, (r.area.a : Int), (r.area.b : Int), (r.area.angle : Int), 0]) ++
      r.data) := by
  refine ⟨_, LTLemmas.src_lifetime_meets_spec v.capped r.lifetimeMs mib.defaultLifetimeS hk, ?_⟩
  rw [← srcHopLimit_eq]
  have hh := srcHopLimit_lt mib hm r hr
  have wb := srcBasic_wf v mib hm r.lifetimeMs _ hh
  have hr' := req_hop_wf mib hm r hr
  have wc := commonOfRequest_wf _ hr' mib hm
  obtain ⟨a1, a2, a3, a4, a5⟩ := hr.2.2.2.2.2.2.1
  have we : GBCExt.WF (⟨sn, 0, ego, r.area.lat, r.area.lon, r.area.a, r.area.b, r.area.angle, 0⟩ : GBCExt) :=
    ⟨hsn, by simp, he, a1, a2, a3, a4, a5, by simp⟩
  have nshb : ¬ (r.ht = HeaderType_TSB ∧ r.hst = TopoBroadcastHST_SINGLE_HOP) := by
    rcases hht with h | h <;> simp [h, HeaderType_TSB, HeaderType_GEOBROADCAST, HeaderType_GEOANYCAST]
  unfold gbcPacket
  rw [cat3_ok (BasicHeader.encode_eq _ wb) (CommonHeader.encode_eq _ wc) (gbc_encode_conforms _ we),
    srcBasic_fields v mib hv, commonOfRequest_fields _ mib hm]
  have h5 : r.length = r.data.length := hr.2.2.2.2.1
  simp only [nshb, if_false, h5, GBCExt.fields, Int.natCast_zero]

/-- GUC (`gn_data_request_guc` with a location-table entry): DE PV = short PV of the destination's entry -/
theorem guc_conforms (v : Variant) (mib : Mib) (hv : v.versionFromMib = true ∨ mib.version = 1) (hm : mib.WF)
    (r : Request) (hr : r.WF) (hk : v.capped = false ∨ LTSpec.lifetimeMs r.lifetimeMs mib.defaultLifetimeS < 1000000)
    (hht : r.ht = HeaderType_GEOUNICAST) (sn : Nat) (hsn : sn < 65536) (ego : LongPV) (he : ego.WF)
    (de : ShortPV) (hde : de.WF) :
    ∃ lt, LTSpec.IsLifetimeOctet (LTSpec.lifetimeMs r.lifetimeMs mib.defaultLifetimeS) lt ∧
    gucPacket v mib r sn ego de = .ok (
      octets basicHeader (basicValues mib.version lt (LTSpec.hopLimit (LTSpec.requestedHops r.maxHopLimit) mib.defaultHopLimit)) ++
      octets commonHeader (commonValues r.nh 2 r.hst r.tc mib.mobile r.data.length
        (LTSpec.hopLimit (LTSpec.requestedHops r.maxHopLimit) mib.defaultHopLimit)) ++
      octets guc ([(sn : Int), 0] ++ ego.fields ++ de.fields) ++ r.data) := by
  refine ⟨_, LTLemmas.src_lifetime_meets_spec v.capped r.lifetimeMs mib.defaultLifetimeS hk, ?_⟩
  rw [← srcHopLimit_eq]
  have hh := srcHopLimit_lt mib hm r hr
  have wb := srcBasic_wf v mib hm r.lifetimeMs _ hh
  have hr' := req_hop_wf mib hm r hr
  have wc := commonOfRequest_wf _ hr' mib hm
  have we : GUCExt.WF (⟨sn, 0, ego, de⟩ : GUCExt) := ⟨hsn, by simp, he, hde⟩
  have nshb : ¬ (r.ht = HeaderType_TSB ∧ r.hst = TopoBroadcastHST_SINGLE_HOP) := by
    simp [hht, HeaderType_TSB, HeaderType_GEOUNICAST]
  unfold gucPacket
  rw [cat3_ok (BasicHeader.encode_eq _ wb) (CommonHeader.encode_eq _ wc) (guc_encode_conforms _ we),
    srcBasic_fields v mib hv, commonOfRequest_fields _ mib hm]
  have h5 : r.length = r.data.length := hr.2.2.2.2.1
  simp [h5, hht, HeaderType_GEOUNICAST, HeaderType_TSB, GUCExt.fields]

/-- LS request (`_send_ls_request_packet`): NH = ANY, HT/HST = LS/request, TC = itsGnDefaultTrafficClass, PL 0,
RHL = MHL = itsGnDefaultHopLimit, LT = itsGnDefaultPacketLifetime -/
theorem ls_request_conforms (v : Variant) (mib : Mib) (hv : v.versionFromMib = true ∨ mib.version = 1) (hm : mib.WF)
    (hk : v.capped = false ∨ LTSpec.lifetimeMs none mib.defaultLifetimeS < 1000000) (sn : Nat) (hsn : sn < 65536)
    (ego : LongPV) (he : ego.WF) (sought : GNAddr) (hs : sought.WF) :
    ∃ lt, LTSpec.IsLifetimeOctet (LTSpec.lifetimeMs none mib.defaultLifetimeS) lt ∧
    lsRequestPacket v mib sn ego sought = .ok (
      octets basicHeader (basicValues mib.version lt mib.defaultHopLimit) ++
      octets commonHeader (commonValues 0 6 0 (tcOfOctet mib.defaultTc) mib.mobile 0 mib.defaultHopLimit) ++
      octets lsRequest ([(sn : Int), 0] ++ ego.fields ++ sought.fields)) := by
  refine ⟨_, LTLemmas.src_lifetime_meets_spec v.capped none mib.defaultLifetimeS hk, ?_⟩
  rw [← tcDecode_eq_spec _ hm.2.2.2]
  have wb := srcBasic_wf v mib hm none _ hm.2.2.1
  have wc := commonLS_wf mib hm LocationServiceHST_LS_REQUEST (by decide)
  have we : LSReqExt.WF (⟨sn, 0, ego, sought⟩ : LSReqExt) := ⟨hsn, by simp, he, hs⟩
  unfold lsRequestPacket
  rw [cat3_ok (BasicHeader.encode_eq _ wb) (CommonHeader.encode_eq _ wc) (lsrequest_encode_conforms _ we),
    srcBasic_fields v mib hv, commonLS_fields mib hm]
  simp only [LSReqExt.fields, LocationServiceHST_LS_REQUEST, Int.natCast_zero, List.append_nil]

/-- LS reply (`gn_data_indicate_ls_request`): HST = reply, DE PV = short PV of the requester -/
theorem ls_reply_conforms (v : Variant) (mib : Mib) (hv : v.versionFromMib = true ∨ mib.version = 1) (hm : mib.WF)
    (hk : v.capped = false ∨ LTSpec.lifetimeMs none mib.defaultLifetimeS < 1000000) (sn : Nat) (hsn : sn < 65536)
    (ego : LongPV) (he : ego.WF) (de : ShortPV) (hde : de.WF) :
    ∃ lt, LTSpec.IsLifetimeOctet (LTSpec.lifetimeMs none mib.defaultLifetimeS) lt ∧
    lsReplyPacket v mib sn ego de = .ok (
      octets basicHeader (basicValues mib.version lt mib.defaultHopLimit) ++
      octets commonHeader (commonValues 0 6 1 (tcOfOctet mib.defaultTc) mib.mobile 0 mib.defaultHopLimit) ++
      octets lsReply ([(sn : Int), 0] ++ ego.fields ++ de.fields)) := by
  refine ⟨_, LTLemmas.src_lifetime_meets_spec v.capped none mib.defaultLifetimeS hk, ?_⟩
  rw [← tcDecode_eq_spec _ hm.2.2.2]
  have wb := srcBasic_wf v mib hm none _ hm.2.2.1
  have wc := commonLS_wf mib hm LocationServiceHST_LS_REPLY (by decide)
  have we : GUCExt.WF (⟨sn, 0, ego, de⟩ : GUCExt) := ⟨hsn, by simp, he, hde⟩
  unfold lsReplyPacket
  rw [cat3_ok (BasicHeader.encode_eq _ wb) (CommonHeader.encode_eq _ wc) (lsreply_encode_conforms _ we),
    srcBasic_fields v mib hv, commonLS_fields mib hm]
  simp only [GUCExt.fields, LocationServiceHST_LS_REPLY, Int.natCast_zero, List.append_nil]

/-- Beacon (`gn_data_request_beacon`): for the repaired `initialize_beacon` (C02-KF1), and for the code as it is when the
station is stationary (`itsGnIsMobile = 0`), where the misplaced flag bit is 0 either way -/
theorem beacon_conforms (v : Variant) (mib : Mib) (hv : v.versionFromMib = true ∨ mib.version = 1) (hm : mib.WF)
    (hb : v.beaconFlagFixed = true ∨ mib.mobile = 0)
    (hk : v.capped = false ∨ LTSpec.lifetimeMs none mib.defaultLifetimeS < 1000000) (ego : LongPV) (he : ego.WF) :
    ∃ lt, LTSpec.IsLifetimeOctet (LTSpec.lifetimeMs none mib.defaultLifetimeS) lt ∧
    beaconPacket v mib ego = .ok (
      octets basicHeader (basicValues mib.version lt 1) ++
      octets commonHeader (commonValues 0 1 0 (tcOfOctet mib.defaultTc) mib.mobile 0 1) ++ octets beacon ego.fields) := by
  refine ⟨_, LTLemmas.src_lifetime_meets_spec v.capped none mib.defaultLifetimeS hk, ?_⟩
  rw [← tcDecode_eq_spec _ hm.2.2.2]
  have wb := srcBasic_wf v mib hm none 1 (by omega)
  have wc := commonBeacon_wf v mib hm
  unfold beaconPacket
  rw [cat3_ok (BasicHeader.encode_eq _ wb) (CommonHeader.encode_eq _ wc) (lpv_encode_conforms ego he),
    srcBasic_fields v mib hv]
  cases hf : v.beaconFlagFixed with
  | true =>
    rw [commonBeacon_fields v hf mib hm]
    simp only [beacon, List.append_nil]
  | false =>
    have h0 : mib.mobile = 0 := by rcases hb with h | h; · rw [hf] at h; cases h
                                   · exact h
    simp [commonBeacon, hf, h0, CommonHeader.fields, TrafficClass.fields, commonValues, CommonNH_ANY, HeaderType_BEACON,
      HeaderSubType_UNSPECIFIED, beacon]

/-- non-vacuity of the variant hypotheses: THE CODE AS IT IS (capped, beacon flag not repaired, version hard-coded:
`Variant ⟨true, false, false⟩`) with the default MIB (version 1, default lifetime 60 s) satisfies `hv` and `hk`; a
stationary station also satisfies `hb` -/
example : let v : Variant := ⟨true, false, false⟩; let mib : Mib := ⟨1, 0, 10, 60, 0⟩
    (v.versionFromMib = true ∨ mib.version = 1) ∧ (v.beaconFlagFixed = true ∨ mib.mobile = 0) ∧
    (v.capped = false ∨ LTSpec.lifetimeMs none mib.defaultLifetimeS < 1000000) ∧
    (v.capped = false ∨ LTSpec.lifetimeMs (some 999999) mib.defaultLifetimeS < 1000000) := by decide

/-- **RHL = MHL on the wire, and both are the prescribed hop limit**: octet 3 (RHL) and octet 10 (MHL) of every
request-built multi-hop packet; 1 and 1 for SHB — read off the emitted octets of the packet model -/
theorem hop_octets (v : Variant) (mib : Mib) (hm : mib.WF) (r : Request) (hr : r.WF) (sn : Nat) (ego : LongPV) (de : ShortPV) :
    (∀ bs, gbcPacket v mib r sn ego = .ok bs → (r.ht = HeaderType_GEOBROADCAST ∨ r.ht = HeaderType_GEOANYCAST) →
      bs.getD 3 0 = LTSpec.hopLimit (LTSpec.requestedHops r.maxHopLimit) mib.defaultHopLimit ∧ bs.getD 10 0 = bs.getD 3 0) ∧
    (∀ bs, gucPacket v mib r sn ego de = .ok bs → r.ht = HeaderType_GEOUNICAST →
      bs.getD 3 0 = LTSpec.hopLimit (LTSpec.requestedHops r.maxHopLimit) mib.defaultHopLimit ∧ bs.getD 10 0 = bs.getD 3 0) ∧
    (∀ bs, shbPacket v mib r ego = .ok bs → (r.ht = HeaderType_TSB ∧ r.hst = TopoBroadcastHST_SINGLE_HOP) →
      bs.getD 3 0 = 1 ∧ bs.getD 10 0 = 1) := by
  have hh := srcHopLimit_lt mib hm r hr
  have hr' := req_hop_wf mib hm r hr
  have key : ∀ (life : Option Nat) (rhl : Nat) (hrl : rhl < 256) (c : CommonHeader) (wc : c.WF) (x : Except Err Bytes) (t bs : Bytes),
      cat3 (srcBasic v mib life rhl).encode c.encode x t = .ok bs → bs.getD 3 0 = rhl ∧ bs.getD 10 0 = c.mhl := by
    intro life rhl hrl c wc x t bs h
    have wb := srcBasic_wf v mib hm life rhl hrl
    have e1 : (srcBasic v mib life rhl).encode = .ok (toBytesBE 4 (srcBasic v mib life rhl).encodeInt) :=
      toBytes?_ok (BasicHeader.encodeInt_lt _ wb)
    have e2 : c.encode = .ok (toBytesBE 8 c.encodeInt) := toBytes?_ok (CommonHeader.encodeInt_lt _ wc)
    cases x with
    | error e => simp [cat3, e1, e2, bind, Except.bind] at h
    | ok z =>
      rw [cat3_ok e1 e2 rfl] at h
      injection h with h
      subst h
      have o1 : (toBytesBE 4 (srcBasic v mib life rhl).encodeInt).getD 3 0 = rhl := (BasicHeader.octets_at _ wb).2.2
      have o2 := (CommonHeader.octets_at _ wc).2.2.2.1
      constructor
      · refine Eq.trans ?_ o1
        simp only [List.getD_eq_getElem?_getD, List.append_assoc]
        rw [List.getElem?_append_left (by simp [toBytesBE_length])]
      · refine Eq.trans ?_ o2
        simp only [List.getD_eq_getElem?_getD, List.append_assoc]
        rw [List.getElem?_append_right (by simp [toBytesBE_length]), List.getElem?_append_left (by simp [toBytesBE_length])]
        simp [toBytesBE_length]
  refine ⟨?_, ?_, ?_⟩
  · intro bs h hht
    have nshb : ¬ (r.ht = HeaderType_TSB ∧ r.hst = TopoBroadcastHST_SINGLE_HOP) := by
      rcases hht with h | h <;> simp [h, HeaderType_TSB, HeaderType_GEOBROADCAST, HeaderType_GEOANYCAST]
    obtain ⟨k1, k2⟩ := key _ _ hh _ (commonOfRequest_wf _ hr' mib hm) _ _ bs h
    rw [← srcHopLimit_eq, k1, k2]
    simp [commonOfRequest, nshb]
  · intro bs h hht
    have nshb : ¬ (r.ht = HeaderType_TSB ∧ r.hst = TopoBroadcastHST_SINGLE_HOP) := by
      simp [hht, HeaderType_TSB, HeaderType_GEOUNICAST]
    obtain ⟨k1, k2⟩ := key _ _ hh _ (commonOfRequest_wf _ hr' mib hm) _ _ bs h
    rw [← srcHopLimit_eq, k1, k2]
    simp [commonOfRequest, nshb]
  · intro bs h hshb
    obtain ⟨k1, k2⟩ := key _ 1 (by omega) _ (commonOfRequest_wf r hr mib hm) _ _ bs h
    rw [k1, k2]
    simp [commonOfRequest, hshb.1, hshb.2]


/-! ## 7. Corollaries named after the property text -/

/-- **the mobility flag is the most significant flag bit, on every origination path**: request headers
(SHB/GBC/GAC/GUC), LS request, LS reply and — for the repaired `initialize_beacon` — beacon: the flags octet
(octet 3 of the common header = octet 7 of the packet) is `128 · itsGnIsMobile`, all reserved flag bits 0 -/
theorem mobile_flag_is_msb (v : Variant) (mib : Mib) (hm : mib.WF) :
    (∀ r : Request, r.WF → (toBytesBE 8 (commonOfRequest r mib).encodeInt).getD 3 0 = 128 * mib.mobile) ∧
    (∀ hst, hst < 2 → (toBytesBE 8 (commonLS mib hst).encodeInt).getD 3 0 = 128 * mib.mobile) ∧
    (v.beaconFlagFixed = true → (toBytesBE 8 (commonBeacon v mib).encodeInt).getD 3 0 = 128 * mib.mobile) := by
  refine ⟨?_, ?_, ?_⟩
  · intro r hr
    rw [(CommonHeader.octets_at _ (commonOfRequest_wf r hr mib hm)).2.1]
    simp only [commonOfRequest, mobile_shift _ hm.2.1]; omega
  · intro hst hh
    rw [(CommonHeader.octets_at _ (commonLS_wf mib hm hst hh)).2.1]
    simp only [commonLS, mobile_shift _ hm.2.1]; omega
  · intro hb
    rw [(CommonHeader.octets_at _ (commonBeacon_wf v mib hm)).2.1]
    simp only [commonBeacon, hb, if_true, mobile_shift _ hm.2.1]; omega

/-- and a decoder (ours, or any conformant one reading bit 0 of the flags) gets the flag back -/
theorem mobile_flag_decoded (mib : Mib) (hm : mib.WF) (r : Request) (hr : r.WF) :
    ∃ bs h, (commonOfRequest r mib).encode = .ok bs ∧ CommonHeader.decode bs = .ok h ∧ h.flags = 128 * mib.mobile := by
  obtain ⟨bs, h1, h2⟩ := common_decode_encode _ (commonOfRequest_wf r hr mib hm) (commonOfRequest_flags r mib hm)
  refine ⟨bs, _, h1, h2, ?_⟩
  simp only [commonOfRequest, mobile_shift _ hm.2.1]; omega

/-- the code as it is (`beaconFlagFixed = false`, known finding C02-KF1): the beacon flags octet is right exactly
for a stationary station -/
theorem beacon_mobile_flag_partial (v : Variant) (hb : v.beaconFlagFixed = false) (mib : Mib) (hm : mib.WF)
    (hstat : mib.mobile = 0) : (toBytesBE 8 (commonBeacon v mib).encodeInt).getD 3 0 = 128 * mib.mobile := by
  rw [(CommonHeader.octets_at _ (commonBeacon_wf v mib hm)).2.1]
  simp [commonBeacon, hb, hstat]

/-- witness: a MOBILE station's beacon carries 0x01 in the flags octet, not 0x80 -/
theorem beacon_mobile_flag_witness :
    (toBytesBE 8 (commonBeacon ⟨true, false, false⟩ ⟨1, 1, 10, 60, 0⟩).encodeInt).getD 3 0 = 1 ∧
    (toBytesBE 8 (commonBeacon ⟨true, true, false⟩ ⟨1, 1, 10, 60, 0⟩).encodeInt).getD 3 0 = 128 := by
  decide +kernel

/-- C02-KF2 — the version nibble is itsGnProtocolVersion: for the repaired variant always, for the code as it is
(version hard-coded 1) exactly when itsGnProtocolVersion = 1; witness for version 2 below -/
theorem version_conforms (v : Variant) (mib : Mib) (hv : v.versionFromMib = true ∨ mib.version = 1) (life : Option Nat)
    (rhl : Nat) : (srcBasic v mib life rhl).version = mib.version := by
  rcases hv with h | h
  · simp [srcBasic, h]
  · simp only [srcBasic]; split <;> simp [h]

theorem version_witness :
    (srcBasic ⟨true, false, false⟩ ⟨2, 1, 10, 60, 0⟩ none 1).version = 1 ∧
    (srcBasic ⟨true, false, true⟩ ⟨2, 1, 10, 60, 0⟩ none 1).version = 2 := by decide

/-- **PL = payload length**: octets 4..5 of the common header of every request-built packet hold the number of
payload octets handed over (BTP header + upper-layer payload), LS/beacon packets carry PL 0.  (`r.WF` contains
`r.length = r.data.length`; §11 states the clause on the emitted packet and derives that hypothesis for BTP-layer requests) -/
theorem pl_is_payload_length (mib : Mib) (hm : mib.WF) (r : Request) (hr : r.WF) (v : Variant) :
    (toBytesBE 8 (commonOfRequest r mib).encodeInt).getD 4 0 * 256 + (toBytesBE 8 (commonOfRequest r mib).encodeInt).getD 5 0
      = r.data.length ∧
    (∀ hst, hst < 2 → (commonLS mib hst).pl = 0) ∧ (commonBeacon v mib).pl = 0 := by
  refine ⟨?_, fun _ _ => rfl, rfl⟩
  rw [(CommonHeader.octets_at _ (commonOfRequest_wf r hr mib hm)).2.2.1]
  exact hr.2.2.2.2.1

/-- **reserved fields are zero** in every originated header: basic header octet 1, common header low nibble of octet 0,
the 7 reserved flag bits, octet 7; SN-reserved / trailing reserved of the extended headers are the literal 0 in
`*_conforms` above; the 10 reserved GN_ADDR bits by `gnaddr_bits` -/
theorem reserved_zero (v : Variant) (mib : Mib) (hm : mib.WF) (r : Request) (hr : r.WF) (life : Option Nat) (rhl : Nat)
    (hrhl : rhl < 256) :
    (toBytesBE 4 (srcBasic v mib life rhl).encodeInt).getD 1 0 = 0 ∧
    (toBytesBE 8 (commonOfRequest r mib).encodeInt).getD 0 0 % 16 = 0 ∧
    (toBytesBE 8 (commonOfRequest r mib).encodeInt).getD 3 0 % 128 = 0 ∧
    (toBytesBE 8 (commonOfRequest r mib).encodeInt).getD 7 0 = 0 ∧
    (∀ hst, hst < 2 → (toBytesBE 8 (commonLS mib hst).encodeInt).getD 0 0 % 16 = 0 ∧
      (toBytesBE 8 (commonLS mib hst).encodeInt).getD 3 0 % 128 = 0 ∧ (toBytesBE 8 (commonLS mib hst).encodeInt).getD 7 0 = 0) := by
  have ob := BasicHeader.octets_at _ (srcBasic_wf v mib hm life rhl hrhl)
  have oc := CommonHeader.octets_at _ (commonOfRequest_wf r hr mib hm)
  refine ⟨?_, ?_, ?_, ?_, ?_⟩
  · rw [ob.2.1]; rfl
  · rw [oc.1]; simp only [commonOfRequest]; omega
  · rw [oc.2.1]; simp only [commonOfRequest, mobile_shift _ hm.2.1]; omega
  · rw [oc.2.2.2.2]; rfl
  · intro hst hh
    have ol := CommonHeader.octets_at _ (commonLS_wf mib hm hst hh)
    refine ⟨?_, ?_, ?_⟩
    · rw [ol.1]; simp only [commonLS]; omega
    · rw [ol.2.1]; simp only [commonLS, mobile_shift _ hm.2.1]; omega
    · rw [ol.2.2.2.2]; rfl

/-! ## 8. Forwarding: the forwarded packet is the received conformant packet with RHL − 1 and — GUC / LS reply only — a DE
position vector refreshed from the location table; nothing else is touched; nothing is sent for a received RHL ≤ 1.

`refresh : Option ShortPV` is the forwarder's step 8 of §10.3.8.3 (`de_entry.is_neighbour` and a strictly newer PV in the
location table → `with_de_pv`): WHICH PV, if any, is the location table's business (C06 `forward_is_copy`: "a DE position
vector that is the strictly newer PV of a neighbour's location table entry"; C08); here: what goes on the wire for either
outcome.  Whether the algorithm forwards at all is C06's subject. -/

theorem forward_tsb (refresh : Option ShortPV) (bh : BasicHeader) (wb : bh.WF) (h2 : 2 ≤ bh.rhl) (ch : CommonHeader)
    (wc : ch.WF) (fc : ch.FlagsConformant) (ht : ch.ht = HeaderType_TSB ∧ ch.hst = TopoBroadcastHST_MULTI_HOP)
    (ext : TSBExt) (we : ext.WF) (payload : Bytes) :
    forwardPacket refresh (toBytesBE 4 bh.encodeInt ++ (toBytesBE 8 ch.encodeInt ++ (ext.octets [] ++ payload))) =
      .ok (some (toBytesBE 4 (decRhl bh).encodeInt ++ (toBytesBE 8 ch.encodeInt ++ (ext.octets [] ++ payload)))) := by
  apply forward_gen refresh bh wb h2 ch wc fc 28
  · simp [extLen, ht.1, ht.2, HeaderType_TSB, HeaderType_GEOUNICAST, HeaderType_GEOANYCAST, HeaderType_GEOBROADCAST,
      TopoBroadcastHST_MULTI_HOP]
  · simp [TSBExt.octets, toBytesBE_length]
  · have d := TSBExt.decode_encode ext we []
    simp only [List.append_nil] at d
    simp only [reencodeExt, ht.1, HeaderType_TSB, HeaderType_GEOUNICAST, HeaderType_GEOANYCAST, HeaderType_GEOBROADCAST,
      TSBExt.octets]
    simp [d, TSBExt.encode_eq ext we, bind, Except.bind]

theorem forward_gbc (refresh : Option ShortPV) (bh : BasicHeader) (wb : bh.WF) (h2 : 2 ≤ bh.rhl) (ch : CommonHeader)
    (wc : ch.WF) (fc : ch.FlagsConformant) (ht : ch.ht = HeaderType_GEOBROADCAST ∨ ch.ht = HeaderType_GEOANYCAST)
    (ext : GBCExt) (we : ext.WF) (payload : Bytes) :
    forwardPacket refresh (toBytesBE 4 bh.encodeInt ++ (toBytesBE 8 ch.encodeInt ++ (ext.octets [] ++ payload))) =
      .ok (some (toBytesBE 4 (decRhl bh).encodeInt ++ (toBytesBE 8 ch.encodeInt ++ (ext.octets [] ++ payload)))) := by
  apply forward_gen refresh bh wb h2 ch wc fc 44
  · rcases ht with h | h <;> simp [extLen, h, HeaderType_GEOUNICAST, HeaderType_GEOANYCAST, HeaderType_GEOBROADCAST]
  · simp [GBCExt.octets, toBytesBE_length]
  · have d := GBCExt.decode_encode ext we []
    rcases ht with h | h <;>
      simp [reencodeExt, h, HeaderType_GEOUNICAST, HeaderType_GEOANYCAST, HeaderType_GEOBROADCAST, d,
        GBCExt.encode_eq ext we, bind, Except.bind]

private theorem refreshed_wf (ext : GUCExt) (we : ext.WF) (refresh : Option ShortPV) (hw : ∀ p, refresh = some p → p.WF) :
    (ext.refreshed refresh).WF := by
  obtain ⟨w1, w2, w3, w4⟩ := we
  refine ⟨w1, w2, w3, ?_⟩
  cases refresh with
  | none => exact w4
  | some p => exact hw p rfl

/-- GUC: RHL − 1, and the DE PV is `refresh` if the location table supplied one, else the received DE PV — SN, SO PV,
payload and every other octet unchanged -/
theorem forward_guc (refresh : Option ShortPV) (hw : ∀ p, refresh = some p → p.WF) (bh : BasicHeader) (wb : bh.WF)
    (h2 : 2 ≤ bh.rhl) (ch : CommonHeader) (wc : ch.WF) (fc : ch.FlagsConformant) (ht : ch.ht = HeaderType_GEOUNICAST)
    (ext : GUCExt) (we : ext.WF) (payload : Bytes) :
    forwardPacket refresh (toBytesBE 4 bh.encodeInt ++ (toBytesBE 8 ch.encodeInt ++ (ext.octets [] ++ payload))) =
      .ok (some (toBytesBE 4 (decRhl bh).encodeInt ++ (toBytesBE 8 ch.encodeInt ++
        (({ ext with dePv := refresh.getD ext.dePv } : GUCExt).octets [] ++ payload)))) := by
  apply forward_gen refresh bh wb h2 ch wc fc 48
  · simp [extLen, ht]
  · simp [GUCExt.octets, toBytesBE_length]
  · have d := GUCExt.decode_encode ext we []
    have e := GUCExt.encode_eq _ (refreshed_wf ext we refresh hw)
    simp only [GUCExt.refreshed] at e
    simp [reencodeExt, ht, d, GUCExt.refreshed, e, bind, Except.bind]

theorem forward_ls_request (refresh : Option ShortPV) (bh : BasicHeader) (wb : bh.WF) (h2 : 2 ≤ bh.rhl) (ch : CommonHeader)
    (wc : ch.WF) (fc : ch.FlagsConformant) (ht : ch.ht = HeaderType_LS ∧ ch.hst = LocationServiceHST_LS_REQUEST)
    (ext : LSReqExt) (we : ext.WF) (payload : Bytes) :
    forwardPacket refresh (toBytesBE 4 bh.encodeInt ++ (toBytesBE 8 ch.encodeInt ++ (ext.octets [] ++ payload))) =
      .ok (some (toBytesBE 4 (decRhl bh).encodeInt ++ (toBytesBE 8 ch.encodeInt ++ (ext.octets [] ++ payload)))) := by
  apply forward_gen refresh bh wb h2 ch wc fc 36
  · simp [extLen, ht.1, ht.2, HeaderType_LS, HeaderType_TSB, HeaderType_GEOUNICAST, HeaderType_GEOANYCAST,
      HeaderType_GEOBROADCAST, LocationServiceHST_LS_REQUEST]
  · simp [LSReqExt.octets, toBytesBE_length]
  · have d := LSReqExt.decode_encode ext we []
    have l : (ext.octets []).length = 36 := by simp [LSReqExt.octets, toBytesBE_length]
    simp [reencodeExt, ht.1, HeaderType_LS, HeaderType_TSB, HeaderType_GEOUNICAST, HeaderType_GEOANYCAST,
      HeaderType_GEOBROADCAST, l, d, LSReqExt.encode_eq ext we, bind, Except.bind]

/-- LS reply: forwarded like GUC (DE PV refresh included) -/
theorem forward_ls_reply (refresh : Option ShortPV) (hw : ∀ p, refresh = some p → p.WF) (bh : BasicHeader) (wb : bh.WF)
    (h2 : 2 ≤ bh.rhl) (ch : CommonHeader) (wc : ch.WF) (fc : ch.FlagsConformant)
    (ht : ch.ht = HeaderType_LS ∧ ch.hst = LocationServiceHST_LS_REPLY) (ext : GUCExt) (we : ext.WF) (payload : Bytes) :
    forwardPacket refresh (toBytesBE 4 bh.encodeInt ++ (toBytesBE 8 ch.encodeInt ++ (ext.octets [] ++ payload))) =
      .ok (some (toBytesBE 4 (decRhl bh).encodeInt ++ (toBytesBE 8 ch.encodeInt ++
        (({ ext with dePv := refresh.getD ext.dePv } : GUCExt).octets [] ++ payload)))) := by
  apply forward_gen refresh bh wb h2 ch wc fc 48
  · simp [extLen, ht.1, ht.2, HeaderType_LS, HeaderType_TSB, HeaderType_GEOUNICAST, HeaderType_GEOANYCAST,
      HeaderType_GEOBROADCAST, LocationServiceHST_LS_REQUEST, LocationServiceHST_LS_REPLY]
  · simp [GUCExt.octets, toBytesBE_length]
  · have d := GUCExt.decode_encode ext we []
    have l : (ext.octets []).length ≠ 36 := by simp [GUCExt.octets, toBytesBE_length]
    have e := GUCExt.encode_eq _ (refreshed_wf ext we refresh hw)
    simp only [GUCExt.refreshed] at e
    simp [reencodeExt, ht.1, HeaderType_LS, HeaderType_TSB, HeaderType_GEOUNICAST, HeaderType_GEOANYCAST,
      HeaderType_GEOBROADCAST, l, d, GUCExt.refreshed, e, bind, Except.bind]

/-- a refresh changes exactly the 20 DE PV octets (28..47 of the extended header): SN, reserved and SO PV octets stay -/
theorem refresh_touches_only_de_pv (ext : GUCExt) (pv : ShortPV) :
    slice (({ ext with dePv := pv } : GUCExt).octets []) 0 28 = slice (ext.octets []) 0 28 := by
  have key : ∀ d : Bytes, slice (toBytesBE 2 ext.sn ++ (toBytesBE 2 ext.reserved ++ (toBytesBE 24 ext.soPv.encodeInt ++ d))) 0 28 =
      toBytesBE 2 ext.sn ++ toBytesBE 2 ext.reserved ++ toBytesBE 24 ext.soPv.encodeInt := by
    intro d
    rw [← List.append_assoc, ← List.append_assoc]
    exact slice_prefix _ _ _ (by simp [toBytesBE_length])
  simp only [GUCExt.octets, key]

/-- **hop limit exhausted**: a conformant packet received with RHL 0 or 1 is not put on the wire again, whatever its
type (TSB shown; the other types by the same lemma `forward_gen_exhausted`) — no forwarded packet with RHL 0, and no
wrap of RHL 0 to 255 -/
theorem forward_exhausted_tsb (refresh : Option ShortPV) (bh : BasicHeader) (wb : bh.WF) (h1 : bh.rhl ≤ 1) (ch : CommonHeader)
    (wc : ch.WF) (fc : ch.FlagsConformant) (ht : ch.ht = HeaderType_TSB ∧ ch.hst = TopoBroadcastHST_MULTI_HOP)
    (ext : TSBExt) (we : ext.WF) (payload : Bytes) :
    forwardPacket refresh (toBytesBE 4 bh.encodeInt ++ (toBytesBE 8 ch.encodeInt ++ (ext.octets [] ++ payload))) = .ok none := by
  apply forward_gen_exhausted refresh bh wb h1 ch wc fc 28 (extb := ext.octets []) (extb' := ext.octets [])
  · simp [extLen, ht.1, ht.2, HeaderType_TSB, HeaderType_GEOUNICAST, HeaderType_GEOANYCAST, HeaderType_GEOBROADCAST,
      TopoBroadcastHST_MULTI_HOP]
  · simp [TSBExt.octets, toBytesBE_length]
  · have d := TSBExt.decode_encode ext we []
    simp only [List.append_nil] at d
    simp only [reencodeExt, ht.1, HeaderType_TSB, HeaderType_GEOUNICAST, HeaderType_GEOANYCAST, HeaderType_GEOBROADCAST,
      TSBExt.octets]
    simp [d, TSBExt.encode_eq ext we, bind, Except.bind]

theorem forward_exhausted_gbc (refresh : Option ShortPV) (bh : BasicHeader) (wb : bh.WF) (h1 : bh.rhl ≤ 1) (ch : CommonHeader)
    (wc : ch.WF) (fc : ch.FlagsConformant) (ht : ch.ht = HeaderType_GEOBROADCAST ∨ ch.ht = HeaderType_GEOANYCAST)
    (ext : GBCExt) (we : ext.WF) (payload : Bytes) :
    forwardPacket refresh (toBytesBE 4 bh.encodeInt ++ (toBytesBE 8 ch.encodeInt ++ (ext.octets [] ++ payload))) = .ok none := by
  apply forward_gen_exhausted refresh bh wb h1 ch wc fc 44 (extb := ext.octets []) (extb' := ext.octets [])
  · rcases ht with h | h <;> simp [extLen, h, HeaderType_GEOUNICAST, HeaderType_GEOANYCAST, HeaderType_GEOBROADCAST]
  · simp [GBCExt.octets, toBytesBE_length]
  · have d := GBCExt.decode_encode ext we []
    rcases ht with h | h <;>
      simp [reencodeExt, h, HeaderType_GEOUNICAST, HeaderType_GEOANYCAST, HeaderType_GEOBROADCAST, d,
        GBCExt.encode_eq ext we, bind, Except.bind]

theorem forward_exhausted_guc (refresh : Option ShortPV) (hw : ∀ p, refresh = some p → p.WF) (bh : BasicHeader) (wb : bh.WF)
    (h1 : bh.rhl ≤ 1) (ch : CommonHeader) (wc : ch.WF) (fc : ch.FlagsConformant) (ht : ch.ht = HeaderType_GEOUNICAST)
    (ext : GUCExt) (we : ext.WF) (payload : Bytes) :
    forwardPacket refresh (toBytesBE 4 bh.encodeInt ++ (toBytesBE 8 ch.encodeInt ++ (ext.octets [] ++ payload))) = .ok none := by
  apply forward_gen_exhausted refresh bh wb h1 ch wc fc 48 (extb := ext.octets [])
    (extb' := ({ ext with dePv := refresh.getD ext.dePv } : GUCExt).octets [])
  · simp [extLen, ht]
  · simp [GUCExt.octets, toBytesBE_length]
  · have d := GUCExt.decode_encode ext we []
    have e := GUCExt.encode_eq _ (refreshed_wf ext we refresh hw)
    simp only [GUCExt.refreshed] at e
    simp [reencodeExt, ht, d, GUCExt.refreshed, e, bind, Except.bind]

/-! ### Forwarding of a SECURED packet (basic-header NH = 2) — known finding C02-KF3

The basic header is outside the signed part of a secured GeoNetworking packet precisely so that forwarders can decrement
RHL; the secured message behind it has to go out as received.  `forwardSecured true` (repaired) does that;
`forwardSecured false` (the code as it is) re-assembles an UNSECURED packet from the verified plain message. -/

private theorem unsec_wf (bh : BasicHeader) (wb : bh.WF) : ({ bh with nh := BasicNH_COMMON_HEADER } : BasicHeader).WF := by
  obtain ⟨h1, _, h3, h4, h5, h6⟩ := wb
  exact ⟨h1, by simp [Spec.basicNH, BasicNH_COMMON_HEADER], h3, h4, h5, h6⟩

/-- **repaired variant**: a secured GBC/GAC packet (DENM) with RHL ≥ 2 whose verified plain message is conformant is
forwarded as the received octets with RHL − 1 — every octet of the security envelope `env` untouched -/
theorem forward_secured_gbc (refresh : Option ShortPV) (bh : BasicHeader) (wb : bh.WF) (h2 : 2 ≤ bh.rhl) (ch : CommonHeader)
    (wc : ch.WF) (fc : ch.FlagsConformant) (ht : ch.ht = HeaderType_GEOBROADCAST ∨ ch.ht = HeaderType_GEOANYCAST)
    (ext : GBCExt) (we : ext.WF) (payload env : Bytes) :
    forwardSecured true refresh (toBytesBE 4 bh.encodeInt ++ env) (toBytesBE 8 ch.encodeInt ++ (ext.octets [] ++ payload)) =
      .ok (some (toBytesBE 4 (decRhl bh).encodeInt ++ env)) :=
  (forwardSecured_eq refresh bh wb env _ _
    (forward_gbc refresh _ (unsec_wf bh wb) h2 ch wc fc ht ext we payload)).1

/-- **the code as it is (witness, for EVERY such packet)**: the forwarded packet is assembled from the plain message alone
— `env` does not occur in it — and leaves with NH = 1 (first octet `version·16 + 1`) although it arrived with NH = 2
(`version·16 + 2`): signature, certificate/digest and generation time are gone, so a receiver with itsGnSecurity ENABLED
discards the forwarded copy and one with security disabled accepts an unauthenticated one -/
theorem forward_secured_gbc_witness (refresh : Option ShortPV) (bh : BasicHeader) (wb : bh.WF)
    (hsec : bh.nh = BasicNH_SECURED_PACKET) (h2 : 2 ≤ bh.rhl) (ch : CommonHeader) (wc : ch.WF) (fc : ch.FlagsConformant)
    (ht : ch.ht = HeaderType_GEOBROADCAST ∨ ch.ht = HeaderType_GEOANYCAST) (ext : GBCExt) (we : ext.WF) (payload env : Bytes) :
    ∃ out, forwardSecured false refresh (toBytesBE 4 bh.encodeInt ++ env) (toBytesBE 8 ch.encodeInt ++ (ext.octets [] ++ payload))
        = .ok (some out) ∧
      out = toBytesBE 4 (decRhl { bh with nh := BasicNH_COMMON_HEADER }).encodeInt ++
              (toBytesBE 8 ch.encodeInt ++ (ext.octets [] ++ payload)) ∧
      out.getD 0 0 = bh.version * 16 + 1 ∧ (toBytesBE 4 bh.encodeInt ++ env).getD 0 0 = bh.version * 16 + 2 := by
  refine ⟨_, (forwardSecured_eq refresh bh wb env _ _
    (forward_gbc refresh _ (unsec_wf bh wb) h2 ch wc fc ht ext we payload)).2, rfl, ?_, ?_⟩
  · have o := (BasicHeader.octets_at _ (decRhl_wf _ (unsec_wf bh wb))).1
    simp only [List.getD_eq_getElem?_getD] at o ⊢
    rw [List.getElem?_append_left (by simp [toBytesBE_length]), o]
    simp [decRhl, BasicNH_COMMON_HEADER]
  · have o := (BasicHeader.octets_at _ wb).1
    simp only [List.getD_eq_getElem?_getD] at o ⊢
    rw [List.getElem?_append_left (by simp [toBytesBE_length]), o, hsec]
    simp [BasicNH_SECURED_PACKET]

/-- the only octet of the basic header that changes is octet 3 (RHL); behind the forwarders' guard (received RHL ≥ 2) it
is a true decrement: RHL − 1 ≥ 1, no wrap — and the forwarded basic header is the standard's octets for these values -/
theorem forward_only_rhl (bh : BasicHeader) (wb : bh.WF) (h2 : 2 ≤ bh.rhl) :
    (decRhl bh).fields = basicValuesRaw bh (bh.rhl - 1) ∧ 1 ≤ (decRhl bh).rhl ∧
    toBytesBE 4 (decRhl bh).encodeInt = octets basicHeader (basicValuesRaw bh (bh.rhl - 1)) := by
  obtain ⟨r1, r2⟩ := decRhl_rhl bh wb h2
  have hr : (decRhl bh).rhl = bh.rhl - 1 := by omega
  have hf : (decRhl bh).fields = basicValuesRaw bh (bh.rhl - 1) := by
    simp only [BasicHeader.fields, basicValuesRaw, hr]; simp [decRhl]
  refine ⟨hf, r2, ?_⟩
  have e := BasicHeader.encode_eq _ (decRhl_wf bh wb)
  rw [BasicHeader.encode, toBytes?_ok (BasicHeader.encodeInt_lt _ (decRhl_wf bh wb))] at e
  injection e with e
  rw [e, hf]

/-! ## 9. Reading the emitted octets with the standard's own `unpack` gives back the header's field values -/

theorem lpv_fits (p : LongPV) (wf : p.WF) : Fits longPV p.fields := by
  obtain ⟨⟨a1, a2, a3⟩, h2, h3, h4, h5, h6⟩ := wf
  have := st_lt a2
  have := b2n_lt p.pai
  unfold inS32 at h3 h4
  unfold inS15 at h5
  simp only [Nat.reducePow] at a3 h2
  simp only [longPV, gnAddr, LongPV.fields, GNAddr.fields, List.cons_append, List.nil_append, Fits, fitsField]
  simp
  omega

/-- e.g. for the long position vector: `unpack` of the encoder's output is exactly `fields p` — signed latitude,
longitude and speed included -/
theorem lpv_wire_reads_back (p : LongPV) (wf : p.WF) :
    ∃ bs, p.encode = .ok bs ∧ unpack longPV (fromBytesBE bs) = p.fields := by
  refine ⟨_, LongPV.encode_ok p wf, ?_⟩
  rw [fromBytesBE_toBytesBE, Nat.mod_eq_of_lt (LongPV.encodeInt_lt p wf), LongPV.encodeInt_eq_pack p wf]
  exact unpack_pack _ _ (lpv_fits p wf)

/-! ## 10. Non-vacuity: the hypotheses are satisfiable, with negative coordinates and speed -/
example : LongPV.WF ⟨⟨0, 15, 1⟩, 5, -900000000, -1800000000, true, -16384, 3600⟩ := by
  simp [LongPV.WF, GNAddr.WF, inS32, inS15, Spec.stationTypes]
example : GBCExt.WF ⟨65535, 0, ⟨⟨1, 5, 1⟩, 0, -1, -1, false, -1, 0⟩, -2147483648, 2147483647, 65535, 1, 0, 0⟩ := by
  simp [GBCExt.WF, LongPV.WF, GNAddr.WF, inS32, inS15, Spec.stationTypes]
example : Mib.WF ⟨1, 1, 10, 60, 255⟩ ∧ Request.WF ⟨2, 5, 0, ⟨false, false, 2⟩, 2, [1, 2], ⟨-1, -1, 1, 1, 0⟩, 1, none⟩ := by
  simp [Mib.WF, Request.WF, Area.WF, TrafficClass.WF, inS32, Spec.commonNH, Spec.headerTypes, Spec.subTypes]
example : CommonHeader.WF ⟨2, 0, 5, 0, ⟨true, false, 63⟩, 128, 65535, 255⟩ ∧
    CommonHeader.FlagsConformant ⟨2, 0, 5, 0, ⟨true, false, 63⟩, 128, 65535, 255⟩ := by
  simp [CommonHeader.WF, CommonHeader.FlagsConformant, TrafficClass.WF, Spec.commonNH, Spec.headerTypes, Spec.subTypes]

/-- forwarding hypotheses: a basic header with RHL ≥ 2 (and one with NH = 2, secured), a refresh PV that is well formed -/
example : BasicHeader.WF ⟨1, 1, 0, ⟨26, 1⟩, 2⟩ ∧ (2 : Nat) ≤ (⟨1, 1, 0, ⟨26, 1⟩, 2⟩ : BasicHeader).rhl ∧
    BasicHeader.WF ⟨1, 2, 0, ⟨26, 1⟩, 10⟩ ∧ (⟨1, 2, 0, ⟨26, 1⟩, 10⟩ : BasicHeader).nh = BasicNH_SECURED_PACKET := by
  simp [BasicHeader.WF, Spec.basicNH, BasicNH_SECURED_PACKET]
example : ∀ p, (some (⟨⟨0, 5, 7⟩, 1000, -1, -1⟩ : ShortPV)) = some p → p.WF := by
  intro p h; cases h; simp [ShortPV.WF, GNAddr.WF, inS32, Spec.stationTypes]
/-- and one with RHL ≤ 1 for the `forward_exhausted_*` statements -/
example : BasicHeader.WF ⟨1, 1, 0, ⟨26, 1⟩, 0⟩ ∧ (⟨1, 1, 0, ⟨26, 1⟩, 0⟩ : BasicHeader).rhl ≤ 1 := by
  simp [BasicHeader.WF, Spec.basicNH]
/-- the LT octet demanded for the default lifetime of 60 s exists (octet 0x19 = 6 × 10 s) -/
example : LTSpec.IsLifetimeOctet (LTSpec.lifetimeMs none 60) (LT.setMillis true 60000).encode ∧ (LT.setMillis true 60000).encode = 26 :=
  ⟨LTLemmas.written_octet_meets_spec_partial 60000 (by decide), by decide⟩

/-! ## 11. PL counts the payload octets actually EMITTED — also for requests that enter at the BTP layer with ANY declared
length (`BTPDataRequest.length`: dataclass default 0, stale after `from_dict`, …) -/

/-- PL octets (8, 9 of the packet) and total length of a packet assembled by `cat3` -/
private theorem cat3_pl (v : Variant) (mib : Mib) (hm : mib.WF) (life : Option Nat) (rhl : Nat) (hrl : rhl < 256)
    (c : CommonHeader) (wc : c.WF) (x : Except Err Bytes) (z : Bytes) (hx : x = .ok z) (t bs : Bytes)
    (h : cat3 (srcBasic v mib life rhl).encode c.encode x t = .ok bs) :
    bs.getD 8 0 * 256 + bs.getD 9 0 = c.pl ∧ bs.length = 12 + z.length + t.length := by
  have wb := srcBasic_wf v mib hm life rhl hrl
  have e1 : (srcBasic v mib life rhl).encode = .ok (toBytesBE 4 (srcBasic v mib life rhl).encodeInt) :=
    toBytes?_ok (BasicHeader.encodeInt_lt _ wb)
  have e2 : c.encode = .ok (toBytesBE 8 c.encodeInt) := toBytes?_ok (CommonHeader.encodeInt_lt _ wc)
  rw [cat3_ok e1 e2 hx] at h
  injection h with h
  subst h
  have o2 := (CommonHeader.octets_at _ wc).2.2.1
  constructor
  · rw [← o2]
    simp only [List.getD_eq_getElem?_getD, List.append_assoc]
    rw [List.getElem?_append_right (by simp [toBytesBE_length]), List.getElem?_append_left (by simp [toBytesBE_length]),
      List.getElem?_append_right (by simp [toBytesBE_length]), List.getElem?_append_left (by simp [toBytesBE_length])]
    simp [toBytesBE_length]
  · simp [toBytesBE_length]; omega

/-- **the payload-length field equals the number of payload octets emitted**, read off the octets handed to the link layer:
octets 8..9 of the packet (PL of the common header) = the number of octets behind the GeoNetworking headers (4 basic +
8 common + 28 SHB / 44 GBC, GAC / 48 GUC extended header), for every request-built packet -/
theorem pl_counts_emitted_octets (v : Variant) (mib : Mib) (hm : mib.WF) (r : Request) (hr : r.WF) (sn : Nat) (hsn : sn < 65536)
    (ego : LongPV) (he : ego.WF) (de : ShortPV) (hde : de.WF) :
    (∀ bs, shbPacket v mib r ego = .ok bs → bs.getD 8 0 * 256 + bs.getD 9 0 = r.data.length ∧ bs.length = 40 + r.data.length) ∧
    (∀ bs, gbcPacket v mib r sn ego = .ok bs → bs.getD 8 0 * 256 + bs.getD 9 0 = r.data.length ∧ bs.length = 56 + r.data.length) ∧
    (∀ bs, gucPacket v mib r sn ego de = .ok bs → bs.getD 8 0 * 256 + bs.getD 9 0 = r.data.length ∧ bs.length = 60 + r.data.length) := by
  have hh := srcHopLimit_lt mib hm r hr
  have hr' := req_hop_wf mib hm r hr
  have h5 : r.length = r.data.length := hr.2.2.2.2.1
  obtain ⟨a1, a2, a3, a4, a5⟩ := hr.2.2.2.2.2.2.1
  refine ⟨?_, ?_, ?_⟩
  · intro bs h
    obtain ⟨k1, k2⟩ := cat3_pl v mib hm _ 1 (by omega) _ (commonOfRequest_wf r hr mib hm) _ _ (LongPV.encode_ok ego he) _ bs h
    rw [k1, k2]
    simp [commonOfRequest, h5, toBytesBE_length]; omega
  · intro bs h
    have we : GBCExt.WF (⟨sn, 0, ego, r.area.lat, r.area.lon, r.area.a, r.area.b, r.area.angle, 0⟩ : GBCExt) :=
      ⟨hsn, by simp, he, a1, a2, a3, a4, a5, by simp⟩
    obtain ⟨k1, k2⟩ := cat3_pl v mib hm _ _ hh _ (commonOfRequest_wf _ hr' mib hm) _ _ (GBCExt.encode_eq _ we) _ bs h
    rw [k1, k2]
    simp [commonOfRequest, h5, GBCExt.octets, toBytesBE_length]
  · intro bs h
    have we : GUCExt.WF (⟨sn, 0, ego, de⟩ : GUCExt) := ⟨hsn, by simp, he, hde⟩
    obtain ⟨k1, k2⟩ := cat3_pl v mib hm _ _ hh _ (commonOfRequest_wf _ hr' mib hm) _ _ (GUCExt.encode_eq _ we) _ bs h
    rw [k1, k2]
    simp [commonOfRequest, h5, GUCExt.octets, toBytesBE_length]

/-- whatever a BTP-Data.request DECLARES as its `length` (no hypothesis on `q` at all): the GN-DATA.request
`btp_data_request` builds has `length = len(data)` and `data` = 4 BTP header octets + the payload.  The clause
`length = data.length` of `Request.WF` is thereby DERIVED for every request that enters at the BTP layer (at the GN service
access point itself it remains the caller's contract: ASSUMPTIONS) -/
theorem btp_request_length (q : BtpRequest) (r : Request) (h : btpGnRequest true q = .ok r) :
    r.length = r.data.length ∧ r.data.length = 4 + q.data.length ∧ r.nh = q.btpType := by
  unfold btpGnRequest at h
  cases hh : q.header with
  | error e => simp [hh, bind, Except.bind] at h
  | ok hd =>
    cases he : hd.encode with
    | error e => simp [hh, btpWrap, he, bind, Except.bind] at h
    | ok hb =>
      have hl : hb.length = 4 := by
        unfold BTPHeader.encode toBytes? at he
        split at he
        · injection he with he; rw [← he, toBytesBE_length]
        · cases he
      simp only [hh, btpWrap, he, bind, Except.bind, pure, Except.pure, if_true] at h
      injection h with h
      subst h
      simp [hl]

/-- a well-formed BTP-Data.request (BTP-A or BTP-B, 16-bit ports; its declared length unconstrained): the GN-DATA.request is
well formed and its data are the standard's BTP header octets followed by the payload, untouched -/
theorem btp_request_conforms (q : BtpRequest) (hq : q.WF) :
    ∃ r, btpGnRequest true q = .ok r ∧ r.WF ∧ r.ht = q.ht ∧ r.hst = q.hst ∧ r.tc = q.tc ∧
      r.data = (if q.btpType = 2 then octets btpB [(q.destinationPort : Int), (q.destinationPortInfo : Int)]
                else octets btpA [(q.destinationPort : Int), (q.sourcePort : Int)]) ++ q.data := by
  obtain ⟨ht, h1, h2, h3, h4, h5, h6, h7, h8, h9⟩ := hq
  rcases ht with ht | ht
  · have wf : BTPHeader.WF ⟨q.destinationPort, q.sourcePort⟩ := ⟨h2, h1⟩
    have e := BTPHeader.encode_eq _ wf
    have o := BTPHeader.octets_eq btpA _ _ rfl _ wf
    simp only [BTPHeader.fields] at o
    refine ⟨_, by simp [btpGnRequest, BtpRequest.header, ht, CommonNH_BTP_A, CommonNH_BTP_B, btpWrap, e, bind, Except.bind, pure, Except.pure]; rfl, ?_, rfl, rfl, rfl, ?_⟩
    · refine ⟨by simp [Spec.commonNH], h4, h5, h6, by simp [toBytesBE_length], ?_, h8, h9⟩
      simp [toBytesBE_length]; omega
    · simp [ht, o]
  · have wf : BTPHeader.WF ⟨q.destinationPort, q.destinationPortInfo⟩ := ⟨h2, h3⟩
    have e := BTPHeader.encode_eq _ wf
    have o := BTPHeader.octets_eq btpB _ _ rfl _ wf
    simp only [BTPHeader.fields] at o
    refine ⟨_, by simp [btpGnRequest, BtpRequest.header, ht, CommonNH_BTP_B, btpWrap, e, bind, Except.bind, pure, Except.pure]; rfl, ?_, rfl, rfl, rfl, ?_⟩
    · refine ⟨by simp [Spec.commonNH], h4, h5, h6, by simp [toBytesBE_length], ?_, h8, h9⟩
      simp [toBytesBE_length]; omega
    · simp [ht, o]

/-- regenerated structural fact (ast pass over btp/router.py on this run): every `GNDataRequest(...)` of `btp_data_request`
is built with `length = len(<its data= expression>)`.  A source change that computes the length any other way (e.g. from
`request.length`) re-opens this obligation and with it `btp_pl_is_emitted_payload` -/
theorem btp_length_fact : codeBtpLengthFromData = true := by decide

/-- **PL for requests entering at the BTP layer, ANY declared length**: for the code as it is (`codeBtpLengthFromData`), a
well-formed BTP-Data.request yields SHB / GBC, GAC / GUC packets whose PL field is 4 + the number of payload octets of the
request = the number of octets emitted behind the GeoNetworking headers; `q.declaredLength` occurs nowhere -/
theorem btp_pl_is_emitted_payload (q : BtpRequest) (hq : q.WF) (v : Variant) (mib : Mib) (hm : mib.WF) (sn : Nat) (hsn : sn < 65536)
    (ego : LongPV) (he : ego.WF) (de : ShortPV) (hde : de.WF) :
    ∃ r, btpGnRequest codeBtpLengthFromData q = .ok r ∧
      (∀ bs, shbPacket v mib r ego = .ok bs →
        bs.getD 8 0 * 256 + bs.getD 9 0 = 4 + q.data.length ∧ bs.length = 40 + (4 + q.data.length)) ∧
      (∀ bs, gbcPacket v mib r sn ego = .ok bs →
        bs.getD 8 0 * 256 + bs.getD 9 0 = 4 + q.data.length ∧ bs.length = 56 + (4 + q.data.length)) ∧
      (∀ bs, gucPacket v mib r sn ego de = .ok bs →
        bs.getD 8 0 * 256 + bs.getD 9 0 = 4 + q.data.length ∧ bs.length = 60 + (4 + q.data.length)) := by
  rw [btp_length_fact]
  obtain ⟨r, h, wr, -⟩ := btp_request_conforms q hq
  obtain ⟨-, l2, -⟩ := btp_request_length q r h
  obtain ⟨p1, p2, p3⟩ := pl_counts_emitted_octets v mib hm r wr sn hsn ego he de hde
  refine ⟨r, h, fun bs hb => ?_, fun bs hb => ?_, fun bs hb => ?_⟩
  · rw [← l2]; exact p1 bs hb
  · rw [← l2]; exact p2 bs hb
  · rw [← l2]; exact p3 bs hb

/-- non-vacuity: a BTP-B/SHB request with 40 payload octets and `length` left at its default 0, and one with a stale
declared length 300 for 3 octets, are well formed -/
example : BtpRequest.WF ⟨2, 0, 2002, 4660, 0, List.replicate 40 7, 5, 0, ⟨false, false, 2⟩, ⟨0, 0, 0, 0, 0⟩, 1, none⟩ ∧
    BtpRequest.WF ⟨1, 5000, 2003, 0, 300, [1, 2, 3], 4, 0, ⟨false, false, 2⟩, ⟨413870000, 21120000, 100, 100, 0⟩, 5, none⟩ := by
  simp [BtpRequest.WF, Area.WF, TrafficClass.WF, inS32, Spec.headerTypes, Spec.subTypes]

/-- witness of the OTHER variant: were the GN length computed from the declared length (`len(header) + request.length`), a
BTP-B/SHB request with 3 payload octets and `length` left at its default 0 would leave with PL = 4 in a packet that carries
7 payload octets (47 = 40 + 7 octets on the wire) -/
theorem btp_declared_length_witness :
    let q : BtpRequest := ⟨2, 0, 2001, 0, 0, [1, 2, 3], 5, 0, ⟨false, false, 2⟩, ⟨0, 0, 0, 0, 0⟩, 1, none⟩
    let ego : LongPV := ⟨⟨0, 5, 1⟩, 0, 415000000, 21000000, true, 0, 0⟩
    ∃ r bs, btpGnRequest false q = .ok r ∧ shbPacket ⟨true, false, false⟩ ⟨1, 0, 10, 60, 0⟩ r ego = .ok bs ∧
      bs.getD 8 0 * 256 + bs.getD 9 0 = 4 ∧ bs.length = 40 + 7 := by
  refine ⟨_, _, rfl, rfl, ?_, ?_⟩ <;> decide +kernel

/-! ## 12. Several receive threads on one router: the forwarded PDU of a thread does not depend on what the other
threads are doing (`FlexModel/Wire/Rx.lean`; all schedules = all lists of events) -/

/-- regenerated structural facts (ast pass over geonet/router.py on this run): ONE attribute holds the secured message of the
packet being received, every binding of it is `threading.local()`, every store of a message into it is followed by
`try: … finally: <store None>`.  A context object shared by the threads re-opens this obligation and with it the
`…_any_schedule` theorems -/
theorem rx_context_facts : codeRxThreadLocal = true := by decide

/-- **non-interference, all schedules**: the PDUs thread `t` hands to the link layer in ANY interleaving with any other
threads' events are those of its own events run alone -/
theorem rx_thread_isolation (t : Nat) (evs : List RxEv) (c : RxStore) :
    (rxRun codeRxThreadLocal c evs).filter (fun o => o.1 = t) = rxRun codeRxThreadLocal c (evs.filter (fun e => e.tid = t)) := by
  rw [rx_context_facts]; exact rxRun_isolated t evs c c rfl

/-- a thread that receives an UNSECURED packet and forwards it (own events: one `_forward_pdu` call; its slot empty when the
schedule starts): in ANY schedule — in particular while another thread is inside `process_security_header` — the PDU is
`basic header ‖ tail` -/
theorem rx_unsecured_forward_any_schedule (t : Nat) (bh : BasicHeader) (tail : Bytes) (evs : List RxEv) (c : RxStore)
    (hc : c t = none) (hown : evs.filter (fun e => e.tid = t) = [.forward t bh tail]) :
    (rxRun codeRxThreadLocal c evs).filter (fun o => o.1 = t) = [(t, (do let b ← bh.encode; return b ++ tail))] := by
  rw [rx_context_facts, rxRun_isolated t evs c RxStore.empty (by rw [hc]; rfl), hown]
  simp [rxRun, rxStep, RxStore.empty, forwardPdu]

/-- … for a well-formed (updated) basic header: its four octets followed by the re-assembled `common header ‖ extended
header ‖ payload` — exactly what `forwardPacket` puts on the wire (`forward_tsb/gbc/guc/ls_*`: `decRhl bh` in front of the
received octets): the forwarded unsecured packet is the received one with RHL − 1 under EVERY interleaving -/
theorem forward_pdu_any_schedule (t : Nat) (bh : BasicHeader) (wb : bh.WF) (tail : Bytes) (evs : List RxEv) (c : RxStore)
    (hc : c t = none) (hown : evs.filter (fun e => e.tid = t) = [.forward t bh tail]) :
    (rxRun codeRxThreadLocal c evs).filter (fun o => o.1 = t) = [(t, .ok (toBytesBE 4 bh.encodeInt ++ tail))] := by
  rw [rx_unsecured_forward_any_schedule t bh tail evs c hc hown,
    show bh.encode = .ok (toBytesBE 4 bh.encodeInt) from toBytes?_ok (BasicHeader.encodeInt_lt _ wb)]
  rfl

/-- a thread that receives a SECURED packet and forwards it (own events: enter, `_forward_pdu`, leave): in any schedule the
PDU is the basic header with NH = Secured Packet followed by ITS OWN secured message (`forward_secured_gbc`), and its slot
is empty again afterwards whatever the schedule -/
theorem rx_secured_forward_any_schedule (t : Nat) (msg : Bytes) (bh : BasicHeader) (tail : Bytes) (evs : List RxEv) (c : RxStore)
    (hown : evs.filter (fun e => e.tid = t) = [.enter t msg, .forward t bh tail, .leave t]) :
    (rxRun codeRxThreadLocal c evs).filter (fun o => o.1 = t) =
      [(t, (do let b ← ({ bh with nh := BasicNH_SECURED_PACKET } : BasicHeader).encode; return b ++ msg))] := by
  rw [rx_context_facts, rxRun_isolated t evs c c rfl, hown]
  simp [rxRun, rxStep, rxSlot, RxStore.set, forwardPdu]

/-- non-vacuity: a schedule in which thread 1 forwards while thread 0 is inside a secured reception meets `hown` -/
example : ([.enter 0 [3, 129], .forward 1 ⟨1, 1, 0, ⟨26, 1⟩, 4⟩ [32], .leave 0] : List RxEv).filter (fun e => e.tid = 1) =
    [.forward 1 ⟨1, 1, 0, ⟨26, 1⟩, 4⟩ [32]] := by simp [RxEv.tid]

/-- witness for a context SHARED by the threads (`threadLocal = false`): thread 1 forwards an unsecured packet while
thread 0 is inside a secured reception — thread 1's PDU leaves with NH = 2 and thread 0's secured message behind the basic
header; with the thread-local context it is the unsecured re-assembly -/
theorem rx_shared_context_witness :
    let bh : BasicHeader := ⟨1, 1, 0, ⟨26, 1⟩, 4⟩
    let evs : List RxEv := [.enter 0 [3, 129, 0, 7], .forward 1 bh [32, 81, 2], .leave 0]
    (rxRun false RxStore.empty evs).map (fun o => (o.1, o.2.toOption)) = [(1, some [18, 0, 105, 4, 3, 129, 0, 7])] ∧
    (rxRun true RxStore.empty evs).map (fun o => (o.1, o.2.toOption)) = [(1, some [17, 0, 105, 4, 32, 81, 2])] := by
  decide +kernel

/-! ## 13. A location-table position vector copied into a header while receive threads replace it: the DE PV on the wire is
ONE vector the table held (`FlexModel/Wire/Snap.lean`; all schedules = all histories `h` and all load instants `ts`) -/

/-- regenerated structural fact (ast pass over geonet/router.py on this run, `harness/gen_wire.py: de_pv_copy_facts`): geonet.Router
has copies of a LocTE position vector into a header (`ShortPositionVector(...)` constructor calls fed from a `.position_vector`
attribute: `gn_data_request_guc`, the LS reply of `gn_data_indicate_ls_request`, the DE PV refresh of the GUC / LS-reply
forwarders), and the four fields of EVERY such copy derive from ONE load of the attribute.  Reading GN_ADDR, TST, latitude and
longitude through four loads of `de_entry.position_vector` (seeded change C02-m8) re-opens this obligation and with it the
`…_any_schedule` theorems below -/
theorem de_pv_copies_single_load : codeDePvSingleLoad = true := by decide

/-- **the copied vector is ONE vector the table held**: for every copy site of the source, whatever the history `h` of vectors
the entry holds while other threads replace it, whenever the loads happen (`ts`) and whichever load serves which field (`ld`,
below the load count of the source): the Short Position Vector written into the header is the short form of the vector held
at the instant of the load -/
theorem de_pv_is_a_table_vector (f : String) (k n : Nat) (hm : (f, k, n) ∈ Generated.WireFacts.dePvCopies)
    (ld : Nat → Nat) (hld : ∀ i, ld i < n) (h : Nat → LongPV) (ts : Nat → Nat) :
    copySeen ld h ts = (h (ts 0)).short := by
  have hall := de_pv_copies_single_load
  simp only [codeDePvSingleLoad, Bool.and_eq_true, List.all_eq_true] at hall
  have hn : n ≤ 1 := by simpa using hall.2 _ hm
  exact copySeen_of_single_load n hn ld hld h ts

/-- non-vacuity: the four copy sites are in the table, each with ONE load -/
example : ("gn_data_request_guc", 0, 1) ∈ Generated.WireFacts.dePvCopies ∧
    ("gn_data_indicate_ls_request", 0, 1) ∈ Generated.WireFacts.dePvCopies ∧
    ("gn_data_indicate_guc", 0, 1) ∈ Generated.WireFacts.dePvCopies ∧
    ("gn_data_indicate_ls_reply", 0, 1) ∈ Generated.WireFacts.dePvCopies := by decide

/-- **originated GUC packet under any concurrent reception from the destination** (`gn_data_request_guc`, 10.3.8.2 / table 28):
the emitted octets are the prescribed packet whose DE PV field is the short form of `h t` for ONE instant `t` — a position
vector the location table held as a whole -/
theorem guc_de_pv_any_schedule (v : Variant) (mib : Mib) (hv : v.versionFromMib = true ∨ mib.version = 1) (hm : mib.WF)
    (r : Request) (hr : r.WF) (hk : v.capped = false ∨ LTSpec.lifetimeMs r.lifetimeMs mib.defaultLifetimeS < 1000000)
    (hht : r.ht = HeaderType_GEOUNICAST) (sn : Nat) (hsn : sn < 65536) (ego : LongPV) (he : ego.WF)
    (f : String) (k n : Nat) (hmem : (f, k, n) ∈ Generated.WireFacts.dePvCopies)
    (ld : Nat → Nat) (hld : ∀ i, ld i < n) (h : Nat → LongPV) (hw : ∀ t, (h t).WF) (ts : Nat → Nat) :
    ∃ lt, LTSpec.IsLifetimeOctet (LTSpec.lifetimeMs r.lifetimeMs mib.defaultLifetimeS) lt ∧ ∃ t,
    gucPacket v mib r sn ego (copySeen ld h ts) = .ok (
      octets basicHeader (basicValues mib.version lt (LTSpec.hopLimit (LTSpec.requestedHops r.maxHopLimit) mib.defaultHopLimit)) ++
      octets commonHeader (commonValues r.nh 2 r.hst r.tc mib.mobile r.data.length
        (LTSpec.hopLimit (LTSpec.requestedHops r.maxHopLimit) mib.defaultHopLimit)) ++
      octets guc ([(sn : Int), 0] ++ ego.fields ++ (h t).short.fields) ++ r.data) := by
  rw [de_pv_is_a_table_vector f k n hmem ld hld h ts]
  obtain ⟨lt, hl, e⟩ := guc_conforms v mib hv hm r hr hk hht sn hsn ego he _ ((h (ts 0)).short_wf (hw _))
  exact ⟨lt, hl, ts 0, e⟩

/-- **LS reply under any concurrent reception from the requester** (`gn_data_indicate_ls_request`, 10.3.7.3): DE PV = the short form
of ONE vector the requester's entry held -/
theorem ls_reply_de_pv_any_schedule (v : Variant) (mib : Mib) (hv : v.versionFromMib = true ∨ mib.version = 1) (hm : mib.WF)
    (hk : v.capped = false ∨ LTSpec.lifetimeMs none mib.defaultLifetimeS < 1000000) (sn : Nat) (hsn : sn < 65536)
    (ego : LongPV) (he : ego.WF) (f : String) (k n : Nat) (hmem : (f, k, n) ∈ Generated.WireFacts.dePvCopies)
    (ld : Nat → Nat) (hld : ∀ i, ld i < n) (h : Nat → LongPV) (hw : ∀ t, (h t).WF) (ts : Nat → Nat) :
    ∃ lt, LTSpec.IsLifetimeOctet (LTSpec.lifetimeMs none mib.defaultLifetimeS) lt ∧ ∃ t,
    lsReplyPacket v mib sn ego (copySeen ld h ts) = .ok (
      octets basicHeader (basicValues mib.version lt mib.defaultHopLimit) ++
      octets commonHeader (commonValues 0 6 1 (tcOfOctet mib.defaultTc) mib.mobile 0 mib.defaultHopLimit) ++
      octets lsReply ([(sn : Int), 0] ++ ego.fields ++ (h t).short.fields)) := by
  rw [de_pv_is_a_table_vector f k n hmem ld hld h ts]
  obtain ⟨lt, hl, e⟩ := ls_reply_conforms v mib hv hm hk sn hsn ego he _ ((h (ts 0)).short_wf (hw _))
  exact ⟨lt, hl, ts 0, e⟩

/-- **DE PV refresh of the GUC forwarder under any concurrent reception from the destination** (`gn_data_indicate_guc`, 10.3.8.3
step 8; the LS-reply forwarder has the same shape: `forward_ls_reply`): the forwarded packet is the received one with RHL − 1
and a DE PV that is the short form of ONE vector the destination's entry held -/
theorem forward_guc_refresh_any_schedule (bh : BasicHeader) (wb : bh.WF) (h2 : 2 ≤ bh.rhl) (ch : CommonHeader) (wc : ch.WF)
    (fc : ch.FlagsConformant) (ht : ch.ht = HeaderType_GEOUNICAST) (ext : GUCExt) (we : ext.WF) (payload : Bytes)
    (f : String) (k n : Nat) (hmem : (f, k, n) ∈ Generated.WireFacts.dePvCopies)
    (ld : Nat → Nat) (hld : ∀ i, ld i < n) (h : Nat → LongPV) (hw : ∀ t, (h t).WF) (ts : Nat → Nat) :
    ∃ t, forwardPacket (some (copySeen ld h ts))
        (toBytesBE 4 bh.encodeInt ++ (toBytesBE 8 ch.encodeInt ++ (ext.octets [] ++ payload))) =
      .ok (some (toBytesBE 4 (decRhl bh).encodeInt ++ (toBytesBE 8 ch.encodeInt ++
        (({ ext with dePv := (h t).short } : GUCExt).octets [] ++ payload)))) := by
  rw [de_pv_is_a_table_vector f k n hmem ld hld h ts]
  refine ⟨ts 0, ?_⟩
  have e := forward_guc (some (h (ts 0)).short) (fun p hp => by cases hp; exact (h (ts 0)).short_wf (hw _))
    bh wb h2 ch wc fc ht ext we payload
  simpa using e

/-- **four loads (C02-m8)**: the destination moves north-east, every beacon replaces the entry's vector (`hist t`: TST, latitude
and longitude all advance).  GN_ADDR, TST, latitude, longitude read through four loads at four instants: the DE PV carries the
timestamp of the second vector, the latitude of the third and the longitude of the fourth — equal to the short form of NO vector
the table ever held -/
theorem de_pv_torn_witness :
    let a : GNAddr := ⟨0, 5, 3⟩
    let hist : Nat → LongPV := fun t => ⟨a, 1000 + 100 * t, 415500000 + 1000 * (t : Int), 21000000 + 3000 * (t : Int), true, 800, 450⟩
    copySeen id hist id = ⟨a, 1100, 415502000, 21009000⟩ ∧ ∀ t, copySeen id hist id ≠ (hist t).short := by
  refine ⟨by simp [copySeen], ?_⟩
  intro t e
  simp only [copySeen, LongPV.short, id, ShortPV.mk.injEq] at e
  omega

end Props.C02

/-
C13 — LDM queries return exactly the matching objects, identically on both back-ends.
Property theorems only.  Implementation model: FlexModel/Ldm/Filter.lean (repaired code: DictionaryDataBase.search,
TinyDB.search, LDMService.query / order_search_results); specification: FlexModel/Ldm/Query.lean;
lemmas: FlexModel/Ldm/QueryLemmas.lean.
-/
import FlexModel.Ldm.QueryLemmas

namespace Props.C13
open FlexModel.Ldm FlexModel.Ldm.Spec

/-! ## the filter part: both back-ends select exactly what the specification selects -/

/-- The dictionary back-end returns exactly the stored objects of the requested types for which the filter is
true, in store order — for every store, every type selection and every well-formed filter (any attribute paths,
operators and reference values, matching type or not). -/
theorem dict_backend_exact (rows : List Record) (types : List Nat) (f : Option Filter)
    (hwf : ∀ g, f = some g → WFFilter g) : dictSearch rows types f = select rows types f :=
  dictSearch_eq_select rows types f hwf

/-- The TinyDB back-end does the same on what it stores (the JSON image of the objects). -/
theorem tiny_backend_exact (rows : List Record) (types : List Nat) (f : Option Filter)
    (hwf : ∀ g, f = some g → WFFilter g) : tinySearch rows types f = select (rows.map Record.round) types f :=
  tinySearch_eq_select rows types f hwf

/-- Hence the two back-ends return the same objects whenever the stored messages survive JSON storage unchanged
(no tuples; messages with bytes cannot be stored by TinyDB at all — C13-KF1, C13-KF3). -/
theorem backends_agree (rows : List Record) (types : List Nat) (f : Option Filter)
    (hwf : ∀ g, f = some g → WFFilter g) (hst : ∀ r ∈ rows, noTuple r.obj = true) :
    tinySearch rows types f = dictSearch rows types f := by
  rw [tiny_backend_exact rows types f hwf, dict_backend_exact rows types f hwf, round_id_of_stable rows hst]

/-- An object lacking the attribute of a statement does not satisfy it — whatever the operator (also `!=` and
`notlike`) — and never makes the search fail. -/
theorem missing_attribute_not_matching (s : Stmt) (obj : JVal) (h : lookupPath obj s.attr = none) :
    holds s obj = false ∧ stmtMatches obj s = false := by
  have : holds s obj = false := by simp [holds, h]
  exact ⟨this, by rw [stmtMatches_eq_holds, this]⟩

/-- every returned object is of a requested type and satisfies the filter; every such stored object is returned -/
theorem result_is_exactly_the_matching (rows : List Record) (types : List Nat) (f : Filter) (hwf : WFFilter f)
    (r : Record) :
    r ∈ dictSearch rows types (some f) ↔ r ∈ rows ∧ typeSelected types r = true ∧ matchesFilter f r.obj = true := by
  rw [dict_backend_exact rows types (some f) (by intro g hg; cases hg; exact hwf)]
  simp [select, selected, List.mem_filter]

/-! ## ordering -/

/-- With order attributes that have integer values `κ` on the selected objects, the answer of the whole request path
(`LDMService.query`) is the specification's: the selection, stably sorted by the order attributes, each in its own
direction, most significant first. -/
theorem query_exact (κ : OrderKey → Record → Int) (rows : List Record) (q : Request)
    (hwf : ∀ g, q.filter = some g → WFFilter g)
    (hk : ∀ ks, q.order = some ks → ∀ r ∈ select rows q.types q.filter, ∀ k ∈ ks, orderKeyOf r k = .ok (.int (κ k r))) :
    serviceQuery rows q = .ok (query κ rows q.types q.filter q.order) := by
  unfold serviceQuery query
  rw [dict_backend_exact rows q.types q.filter hwf]
  cases ho : q.order with
  | none => rfl
  | some ks => exact orderResults_eq κ ks _ (hk ks ho)

/-- **order_sorted**: the stable sort of the specification is a permutation of the selection, sorted with respect
to the lexicographic order of the keys with their directions, and stable: any already sorted sub-sequence of the
selection (in particular any two objects whose keys are in order or equal) keeps its relative order. -/
theorem order_sorted {α : Type} (fs : List (α → Int)) (l : List α) :
    (stableSort (lexLe fs) l).Perm l ∧
    (stableSort (lexLe fs) l).Pairwise (fun a b => lexLe fs a b = true) ∧
    (∀ c : List α, c.Pairwise (fun a b => lexLe fs a b = true) → c.Sublist l → c.Sublist (stableSort (lexLe fs) l)) := by
  rw [stableSort_eq_mergeSort _ (lexLe_trans fs) (lexLe_total fs)]
  exact ⟨List.mergeSort_perm l _, List.pairwise_mergeSort (lexLe_trans fs) (lexLe_total fs) l,
    fun c hc hs => List.sublist_mergeSort (lexLe_trans fs) (lexLe_total fs) hc hs⟩

/-- a descending key orders by the negated value, an ascending one by the value: per-key direction -/
theorem effKey_direction (κ : OrderKey → Record → Int) (a : List String) (r : Record) :
    effKey κ { attr := a, dir := .asc } r = κ { attr := a, dir := .asc } r ∧
    effKey κ { attr := a, dir := .desc } r = - κ { attr := a, dir := .desc } r := ⟨rfl, rfl⟩

/-! ## witnesses: the defects repaired (F1, F3) and the known findings (KF2, KF3) -/

def msg (t : String) (sid g : Int) : JVal :=
  .dict (.cons "header" (.dict (.cons "stationId" (.int sid) .nil)) (.cons t (.dict (.cons "generationDeltaTime" (.int g) .nil)) .nil))
def loc0 : Loc := { lat := 0, lon := 0, majC := 0, minC := 0, majO := 0, alt := 0, altC := 0, radius := 0, relDist := 0, relDir := 0 }
def rec (t : String) (sid g : Int) : Record := { appId := 2, timestamp := 0, loc := loc0, obj := msg t sid g, validity := 1 }
def gdtFilter : Filter := { s1 := { attr := ["cam", "generationDeltaTime"], op := .ge, ref := .int 0 }, lop := none, s2 := none }

/-- C13-F1 (repaired): with one VAM among the CAMs the old dictionary search returned nothing for a CAM attribute;
the repaired search and the specification return the CAM -/
theorem dict_missing_attribute_witness :
    dictSearchOld [rec "cam" 1 5, rec "vam" 2 6] [2, 16] (some gdtFilter) = [] ∧
    dictSearch [rec "cam" 1 5, rec "vam" 2 6] [2, 16] (some gdtFilter) = [rec "cam" 1 5] ∧
    select [rec "cam" 1 5, rec "vam" 2 6] [2, 16] (some gdtFilter) = [rec "cam" 1 5] := by
  decide

def byStationThenGdtDesc : List OrderKey :=
  [{ attr := ["header", "stationId"], dir := .asc }, { attr := ["cam", "generationDeltaTime"], dir := .desc }]

/-- C13-F3 (repaired): mixed directions — ascending station id, descending generationDeltaTime -/
theorem order_direction_witness :
    orderResults [rec "cam" 2 5, rec "cam" 1 5, rec "cam" 1 9, rec "cam" 2 9] byStationThenGdtDesc
      = .ok [rec "cam" 1 9, rec "cam" 1 5, rec "cam" 2 9, rec "cam" 2 5] := by
  decide

/-- C13-KF2: ordering by an attribute that one selected object lacks raises TypeError (code as is) -/
theorem order_missing_attribute_witness :
    orderResults [rec "cam" 1 5, rec "vam" 2 6] [{ attr := ["cam", "generationDeltaTime"], dir := .asc }] = .error .typeError := by
  decide

def poiRec : Record :=
  { appId := 2, timestamp := 0, loc := loc0, validity := 1,
    obj := .dict (.cons "poi" (.dict (.cons "pos" (.tuple (.cons (.int 1) (.cons (.int 2) .nil))) .nil)) .nil) }
def posFilter : Filter :=
  { s1 := { attr := ["poi", "pos"], op := .eq, ref := .tuple (.cons (.int 1) (.cons (.int 2) .nil)) }, lop := none, s2 := none }

/-- C13-KF3: a tuple reference value selects the stored tuple on the dictionary back-end only
(TinyDB holds a list), so `backends_agree` needs its JSON-stability hypothesis -/
theorem tuple_reference_witness :
    dictSearch [poiRec] [3] (some posFilter) = [poiRec] ∧ tinySearch [poiRec] [3] (some posFilter) = [] := by
  decide

/-- a second statement without a joining operator is read as "or" by the dictionary back-end and as "and" by
TinyDB: such filters are outside the property (`WFFilter`) -/
theorem missing_operator_witness :
    let f : Filter := { s1 := { attr := ["cam", "generationDeltaTime"], op := .eq, ref := .int 5 }, lop := none,
                        s2 := some { attr := ["header", "stationId"], op := .eq, ref := .int 99 } }
    dictSearch [rec "cam" 1 5] [2] (some f) = [rec "cam" 1 5] ∧ tinySearch [rec "cam" 1 5] [2] (some f) = [] := by
  decide

/-- non-vacuity of `query_exact`: an ordered, filtered request on a mixed store -/
example : serviceQuery [rec "cam" 2 5, rec "vam" 7 1, rec "cam" 1 5, rec "cam" 1 9]
    { app := 2, types := [2, 16], prio := none, orderBad := false, order := some byStationThenGdtDesc,
      filterBad := false, filter := some gdtFilter } = .ok [rec "cam" 1 9, rec "cam" 1 5, rec "cam" 2 5] := by
  decide

end Props.C13

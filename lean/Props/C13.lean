/-
C13 — LDM queries return exactly the matching objects, identically on both back-ends.
Property theorems only.  Implementation model: FlexModel/Ldm/Filter.lean (repaired code: DictionaryDataBase.search,
TinyDB.search, LDMService.query / order_search_results); specification: FlexModel/Ldm/Query.lean;
lemmas: FlexModel/Ldm/QueryLemmas.lean.  Last section (round 4): histories made by several THREADS on the in-memory
back-end, FlexModel/Ldm/QueryConc.lean over the generic scheduler FlexModel/Conc/Sched.lean, lock sections read from the
source (Generated/LdmSections.lean).  Round 5: the TinyDB class under threads (`tinyUnits`, same obligation), and histories
of add / update / removal by value / removal by id on BOTH back-ends (FlexModel/Ldm/QueryBackends.lean): the TinyDB table is
the JSON image of the in-memory table after every history, equal objects stored several times included.
-/
import FlexModel.Ldm.QueryLemmas
import FlexModel.Ldm.QueryConc
import FlexModel.Ldm.QueryBackends
import Generated.LdmSections

namespace Props.C13
open FlexModel.Ldm FlexModel.Ldm.Spec

/-! ## the filter part: both back-ends select exactly what the specification selects -/

/-- The dictionary back-end returns exactly the stored objects of the requested types for which the filter is
true, in store order — for every store, every type selection and every well-formed filter (any attribute paths,
operators and reference values, matching type or not). -/
theorem dict_backend_exact (rows : List Record) (types : List Nat) (f : Option Filter)
    (hwf : ∀ g, f = some g → WFFilter g) : dictSearch rows types f = select rows types f :=
  dictSearch_eq_select rows types f hwf

/-- The TinyDB back-end does the same on what it stores (the JSON image of the objects). -/
theorem tiny_backend_exact (rows : List Record) (types : List Nat) (f : Option Filter)
    (hwf : ∀ g, f = some g → WFFilter g) : tinySearch rows types f = select (rows.map Record.round) types f :=
  tinySearch_eq_select rows types f hwf

/-- **backends_agree_mod_json** — the in-memory and the TinyDB back-end return the same objects, modulo the JSON
storage mapping (`Record.round`: tuples read back as lists), for EVERY store — in particular stores of real CAM / VAM /
DENM dictionaries, which all contain ASN.1 CHOICE tuples — every type selection and every well-formed filter whose
reference values contain no list / tuple (a list/tuple reference value is the known finding C13-KF3,
`tuple_reference_witness`; messages with bytes cannot be stored by TinyDB at all, C13-KF1). -/
theorem backends_agree_mod_json (rows : List Record) (types : List Nat) (f : Option Filter)
    (hwf : ∀ g, f = some g → WFFilter g) (href : ∀ g, f = some g → refsNoSeq g) :
    tinySearch rows types f = (dictSearch rows types f).map Record.round := by
  rw [tiny_backend_exact rows types f hwf, dict_backend_exact rows types f hwf, select_round rows types f href]

/-- the same for the whole request path (selection, then ordering of what each back-end holds) when no order is
requested; with an order both back-ends run the same `order_search_results` on their selections -/
theorem backends_agree_unordered (rows : List Record) (q : Request) (ho : q.order = none)
    (hwf : ∀ g, q.filter = some g → WFFilter g) (href : ∀ g, q.filter = some g → refsNoSeq g) :
    serviceQueryTiny rows q = (serviceQuery rows q).map (·.map Record.round) := by
  unfold serviceQueryTiny serviceQuery
  rw [ho, backends_agree_mod_json rows q.types q.filter hwf href]
  rfl

/-- corollary (stores without tuples survive JSON storage unchanged): literally the same objects -/
theorem backends_agree_json_stable (rows : List Record) (types : List Nat) (f : Option Filter)
    (hwf : ∀ g, f = some g → WFFilter g) (hst : ∀ r ∈ rows, noTuple r.obj = true) :
    tinySearch rows types f = dictSearch rows types f := by
  rw [tiny_backend_exact rows types f hwf, dict_backend_exact rows types f hwf, round_id_of_stable rows hst]

/-- An object lacking the attribute of a statement does not satisfy it — whatever the operator (also `!=` and
`notlike`) — and never makes the search fail. -/
theorem missing_attribute_not_matching (s : Stmt) (obj : JVal) (h : lookupPath obj s.attr = none) :
    holds s obj = false ∧ stmtMatches obj s = false := by
  have : holds s obj = false := by simp [holds, h]
  exact ⟨this, by rw [stmtMatches_eq_holds, this]⟩

/-- every returned object is of a requested type and satisfies the filter; every such stored object is returned -/
theorem result_is_exactly_the_matching (rows : List Record) (types : List Nat) (f : Filter) (hwf : WFFilter f)
    (r : Record) :
    r ∈ dictSearch rows types (some f) ↔ r ∈ rows ∧ ofRequestedType types r = true ∧ matchesFilter f r.obj = true := by
  rw [dict_backend_exact rows types (some f) (by intro g hg; cases hg; exact hwf)]
  simp [select, selected, List.mem_filter]

/-! ## what the eight operators mean (clause "comparisons ==, !=, <, <=, >, >=, like, notlike")

`Spec.opHolds` is defined in Query.lean without reference to the implementation model; the theorems below spell its
meaning out on the scalar classes, and `dict_backend_exact` / `tiny_backend_exact` (through `opHolds_agrees`) say that
both back-ends compute exactly it.  An operator-table mix-up in the model of the code breaks those theorems. -/

/-- numbers: the six comparisons are the integer relations -/
theorem operators_on_numbers (a b : Int) :
    opHolds .eq (.int a) (.int b) = decide (a = b) ∧ opHolds .ne (.int a) (.int b) = decide (a ≠ b) ∧
    opHolds .lt (.int a) (.int b) = decide (a < b) ∧ opHolds .le (.int a) (.int b) = decide (a ≤ b) ∧
    opHolds .gt (.int a) (.int b) = decide (a > b) ∧ opHolds .ge (.int a) (.int b) = decide (a ≥ b) := by
  refine ⟨?_, ?_, ?_, ?_, ?_, ?_⟩
  · simp [opHolds, scalar?, sHolds, sEq]
  · simp [opHolds, scalar?, sHolds, sEq]
  · simp [opHolds, scalar?, sHolds, sLt]
  · by_cases h : b < a
    · have : ¬ a ≤ b := by omega
      simp [opHolds, scalar?, sHolds, sLt, h, this]
    · have : a ≤ b := by omega
      simp [opHolds, scalar?, sHolds, sLt, h, this]
  · simp [opHolds, scalar?, sHolds, sLt]
  · by_cases h : a < b
    · have : ¬ b ≤ a := by omega
      simp [opHolds, scalar?, sHolds, sLt, h, this]
    · have : b ≤ a := by omega
      simp [opHolds, scalar?, sHolds, sLt, h, this]

/-- texts: equality, the lexicographic order of strings, and `like` = "the reference text occurs in the value" -/
theorem operators_on_texts (s t : String) :
    opHolds .eq (.str s) (.str t) = decide (s = t) ∧ opHolds .ne (.str s) (.str t) = decide (s ≠ t) ∧
    opHolds .lt (.str s) (.str t) = decide (s < t) ∧ opHolds .le (.str s) (.str t) = decide (s ≤ t) ∧
    opHolds .gt (.str s) (.str t) = decide (t < s) ∧ opHolds .ge (.str s) (.str t) = decide (t ≤ s) ∧
    (opHolds .like (.str s) (.str t) = true ↔ t.toList <:+: s.toList) ∧
    (opHolds .notlike (.str s) (.str t) = true ↔ ¬ t.toList <:+: s.toList) := by
  have hp : pyStr (JVal.str t) = t := rfl
  refine ⟨?_, ?_, ?_, ?_, ?_, ?_, ?_, ?_⟩
  · simp [opHolds, scalar?, sHolds, sEq]
  · simp [opHolds, scalar?, sHolds, sEq]
  · simp [opHolds, scalar?, sHolds, sLt]
  · by_cases h : t < s
    · have : ¬ s ≤ t := String.not_le.mpr h
      simp [opHolds, scalar?, sHolds, sLt, h, this]
    · have : s ≤ t := String.not_lt.mp h
      simp [opHolds, scalar?, sHolds, sLt, h, this]
  · simp [opHolds, scalar?, sHolds, sLt]
  · by_cases h : s < t
    · have : ¬ t ≤ s := String.not_le.mpr h
      simp [opHolds, scalar?, sHolds, sLt, h, this]
    · have : t ≤ s := String.not_lt.mp h
      simp [opHolds, scalar?, sHolds, sLt, h, this]
  · simp only [opHolds, scalar?, sHolds, occursIn, hp]; simp
  · simp only [opHolds, scalar?, sHolds, occursIn, hp]; simp

/-- reference values of non-matching type: a number and a text are never equal, never ordered, and a number
contains nothing -/
theorem operators_across_types (a : Int) (t : String) :
    opHolds .eq (.int a) (.str t) = false ∧ opHolds .ne (.int a) (.str t) = true ∧
    opHolds .lt (.int a) (.str t) = false ∧ opHolds .le (.int a) (.str t) = false ∧
    opHolds .gt (.int a) (.str t) = false ∧ opHolds .ge (.int a) (.str t) = false ∧
    opHolds .like (.int a) (.str t) = false ∧ opHolds .notlike (.int a) (.str t) = true ∧
    opHolds .eq (.str t) (.int a) = false ∧ opHolds .lt (.str t) (.int a) = false ∧ opHolds .ge (.str t) (.int a) = false := by
  simp [opHolds, scalar?, sHolds, sEq, sLt]

/-- the implementation model's operator table (`OPERATOR_MAPPING` applied to Python values) computes the
specification's comparisons, for all values -/
theorem operator_table_meets_spec (op : CmpOp) (v ref : JVal) :
    (match evalOp op v ref with | .ok b => b | .error _ => false) = opHolds op v ref :=
  (opHolds_agrees op v ref).symm

/-! ## ordering -/

/-- **query_exact**: when every order attribute has, on the selected objects, values of ONE comparable class — so that
Python's `<` between any two of them is defined and is represented by an integer scale `κ` (`Scaled`; scales exist for
integer-valued and for text-valued attributes: `query_exact_int_or_text`) — the answer of the whole request path
(`LDMService.query`) is the specification's: the selection, stably sorted by the order attributes, each in its own
direction, most significant first.  (An order attribute missing / of mixed type in the selection is C13-KF2,
`order_missing_attribute_witness`; the legacy bare-name lookup is covered as far as it yields such values.) -/
theorem query_exact (κ : OrderKey → Record → Int) (rows : List Record) (q : Request)
    (hwf : ∀ g, q.filter = some g → WFFilter g)
    (hk : ∀ ks, q.order = some ks → Scaled κ ks (select rows q.types q.filter)) :
    serviceQuery rows q = .ok (query κ rows q.types q.filter q.order) := by
  unfold serviceQuery query
  rw [dict_backend_exact rows q.types q.filter hwf]
  cases ho : q.order with
  | none => rfl
  | some ks => exact orderResults_scale κ ks _ (hk ks ho)

/-- instance: integer-valued order attributes, the scale is the value itself -/
theorem query_exact_int (κ : OrderKey → Record → Int) (rows : List Record) (q : Request)
    (hwf : ∀ g, q.filter = some g → WFFilter g)
    (hk : ∀ ks, q.order = some ks → ∀ r ∈ select rows q.types q.filter, ∀ k ∈ ks, orderKeyOf r k = .ok (.int (κ k r))) :
    serviceQuery rows q = .ok (query κ rows q.types q.filter q.order) :=
  query_exact κ rows q hwf (fun ks ho k hkk =>
    ⟨fun r => .int (κ k r), fun r hr => hk ks ho r hr k hkk, scale_int _ (κ k)⟩)

/-- instance: every order attribute is integer-valued or text-valued on the selection (the two classes the
attributes of CAM / DENM / VAM dictionaries have, e.g. `stationId` / `vehicleRole`): there is a scale — the value for
integers, the rank among the selected objects' texts for texts, which orders them exactly as the strings are ordered
(`rank_lt_iff`) — and the answer is the specification's for it. -/
theorem query_exact_int_or_text (rows : List Record) (q : Request) (ks : List OrderKey) (ho : q.order = some ks)
    (hwf : ∀ g, q.filter = some g → WFFilter g)
    (hk : ∀ k ∈ ks, (∃ g : Record → Int, ∀ r ∈ select rows q.types q.filter, orderKeyOf r k = .ok (.int (g r))) ∨
                    (∃ σ : Record → String, ∀ r ∈ select rows q.types q.filter, orderKeyOf r k = .ok (.str (σ r)))) :
    ∃ κ : OrderKey → Record → Int, Scaled κ ks (select rows q.types q.filter) ∧
      serviceQuery rows q = .ok (query κ rows q.types q.filter q.order) := by
  classical
  let sel := select rows q.types q.filter
  let κ : OrderKey → Record → Int := fun k =>
    if h : ∃ f : Record → Int, ∃ v : Record → JVal, (∀ r ∈ sel, orderKeyOf r k = .ok (v r)) ∧ Scale sel v f
    then Classical.choose h else fun _ => 0
  have hsc : Scaled κ ks sel := by
    intro k hkk
    have hex : ∃ f : Record → Int, ∃ v : Record → JVal, (∀ r ∈ sel, orderKeyOf r k = .ok (v r)) ∧ Scale sel v f := by
      rcases hk k hkk with ⟨g, hg⟩ | ⟨σ, hσ⟩
      · exact ⟨g, fun r => .int (g r), hg, scale_int _ g⟩
      · exact ⟨_, fun r => .str (σ r), hσ, scale_str sel σ⟩
    have : κ k = Classical.choose hex := by simp only [κ, dif_pos hex]
    rw [this]
    exact Classical.choose_spec hex
  refine ⟨κ, hsc, query_exact κ rows q hwf (fun ks' ho' => ?_)⟩
  rw [ho] at ho'
  injection ho' with ho'
  rw [← ho']
  exact hsc

/-- **order_sorted**: the stable sort of the specification is a permutation of the selection, sorted with respect
to the lexicographic order of the keys with their directions, and stable: any already sorted sub-sequence of the
selection (in particular any two objects whose keys are in order or equal) keeps its relative order. -/
theorem order_sorted {α : Type} (fs : List (α → Int)) (l : List α) :
    (stableSort (lexLe fs) l).Perm l ∧
    (stableSort (lexLe fs) l).Pairwise (fun a b => lexLe fs a b = true) ∧
    (∀ c : List α, c.Pairwise (fun a b => lexLe fs a b = true) → c.Sublist l → c.Sublist (stableSort (lexLe fs) l)) := by
  rw [stableSort_eq_mergeSort _ (lexLe_trans fs) (lexLe_total fs)]
  exact ⟨List.mergeSort_perm l _, List.pairwise_mergeSort (lexLe_trans fs) (lexLe_total fs) l,
    fun c hc hs => List.sublist_mergeSort (lexLe_trans fs) (lexLe_total fs) hc hs⟩

/-! ## witnesses: the defects repaired (F1, F3) and the known findings (KF2, KF3) -/

def msg (t : String) (sid g : Int) : JVal :=
  .dict (.cons "header" (.dict (.cons "stationId" (.int sid) .nil)) (.cons t (.dict (.cons "generationDeltaTime" (.int g) .nil)) .nil))
def loc0 : Loc := { lat := 0, lon := 0, majC := 0, minC := 0, majO := 0, alt := 0, altC := 0, radius := 0, relDist := 0, relDir := 0 }
def rec (t : String) (sid g : Int) : Record := { appId := 2, timestamp := 0, loc := loc0, obj := msg t sid g, validity := 1 }
def gdtFilter : Filter := { s1 := { attr := ["cam", "generationDeltaTime"], op := .ge, ref := .int 0 }, lop := none, s2 := none }

/-- C13-F1 (repaired): with one VAM among the CAMs the old dictionary search returned nothing for a CAM attribute;
the repaired search and the specification return the CAM -/
theorem dict_missing_attribute_witness :
    dictSearchOld [rec "cam" 1 5, rec "vam" 2 6] [2, 16] (some gdtFilter) = [] ∧
    dictSearch [rec "cam" 1 5, rec "vam" 2 6] [2, 16] (some gdtFilter) = [rec "cam" 1 5] ∧
    select [rec "cam" 1 5, rec "vam" 2 6] [2, 16] (some gdtFilter) = [rec "cam" 1 5] := by
  decide

def byStationThenGdtDesc : List OrderKey :=
  [{ attr := ["header", "stationId"], dir := .asc }, { attr := ["cam", "generationDeltaTime"], dir := .desc }]

/-- C13-F3 (repaired): mixed directions — ascending station id, descending generationDeltaTime -/
theorem order_direction_witness :
    orderResults [rec "cam" 2 5, rec "cam" 1 5, rec "cam" 1 9, rec "cam" 2 9] byStationThenGdtDesc
      = .ok [rec "cam" 1 9, rec "cam" 1 5, rec "cam" 2 9, rec "cam" 2 5] := by
  decide

/-- C13-KF2: ordering by an attribute that one selected object lacks raises TypeError (code as is) -/
theorem order_missing_attribute_witness :
    orderResults [rec "cam" 1 5, rec "vam" 2 6] [{ attr := ["cam", "generationDeltaTime"], dir := .asc }] = .error .typeError := by
  decide

def poiRec : Record :=
  { appId := 2, timestamp := 0, loc := loc0, validity := 1,
    obj := .dict (.cons "poi" (.dict (.cons "pos" (.tuple (.cons (.int 1) (.cons (.int 2) .nil))) .nil)) .nil) }
def posFilter : Filter :=
  { s1 := { attr := ["poi", "pos"], op := .eq, ref := .tuple (.cons (.int 1) (.cons (.int 2) .nil)) }, lop := none, s2 := none }

/-- C13-KF3: a tuple reference value selects the stored tuple on the dictionary back-end only
(TinyDB holds a list), so `backends_agree_mod_json` needs its hypothesis on the reference values -/
theorem tuple_reference_witness :
    dictSearch [poiRec] [3] (some posFilter) = [poiRec] ∧ tinySearch [poiRec] [3] (some posFilter) = [] := by
  decide

def camChoice (sid speed : Int) : JVal :=
  .dict (.cons "header" (.dict (.cons "stationId" (.int sid) .nil))
    (.cons "cam" (.dict (.cons "camParameters" (.dict (.cons "highFrequencyContainer"
      (.tuple (.cons (.str "basicVehicleContainerHighFrequency") (.cons (.dict (.cons "speedValue" (.int speed) .nil)) .nil))) .nil)) .nil)) .nil))
def camRec (sid speed : Int) : Record := { appId := 2, timestamp := 0, loc := loc0, obj := camChoice sid speed, validity := 1 }
def sidFilter : Filter := { s1 := { attr := ["header", "stationId"], op := .ne, ref := .int 1 }, lop := some .and,
                            s2 := some { attr := ["cam", "camParameters", "highFrequencyContainer"], op := .ne, ref := .null } }

/-- non-vacuity of `backends_agree_mod_json`: a store of CAMs with a CHOICE tuple (as every decoded CAM has) — the
hypotheses hold, the TinyDB answer is the JSON image (tuple → list) of the dictionary answer and differs from it -/
example : refsNoSeq sidFilter ∧ WFFilter sidFilter ∧
    noTuple (camRec 2 5).obj = false ∧
    dictSearch [camRec 1 3, camRec 2 5] [2] (some sidFilter) = [camRec 2 5] ∧
    tinySearch [camRec 1 3, camRec 2 5] [2] (some sidFilter) = [(camRec 2 5).round] ∧
    (camRec 2 5).round ≠ camRec 2 5 := by
  refine ⟨⟨by decide, ?_⟩, by intro _; rfl, by decide, by decide, by decide, by decide⟩
  intro s2 h; cases h; decide

/-- a second statement without a joining operator is read as "or" by the dictionary back-end and as "and" by
TinyDB: such filters are outside the property (`WFFilter`) -/
theorem missing_operator_witness :
    let f : Filter := { s1 := { attr := ["cam", "generationDeltaTime"], op := .eq, ref := .int 5 }, lop := none,
                        s2 := some { attr := ["header", "stationId"], op := .eq, ref := .int 99 } }
    dictSearch [rec "cam" 1 5] [2] (some f) = [rec "cam" 1 5] ∧ tinySearch [rec "cam" 1 5] [2] (some f) = [] := by
  decide

/-- non-vacuity of `query_exact`: an ordered, filtered request on a mixed store -/
example : serviceQuery [rec "cam" 2 5, rec "vam" 7 1, rec "cam" 1 5, rec "cam" 1 9]
    { app := 2, types := [2, 16], prio := none, orderBad := false, order := some byStationThenGdtDesc,
      filterBad := false, filter := some gdtFilter } = .ok [rec "cam" 1 9, rec "cam" 1 5, rec "cam" 2 5] := by
  decide

def camRole (role : String) : Record :=
  { appId := 2, timestamp := 0, loc := loc0, validity := 1,
    obj := .dict (.cons "cam" (.dict (.cons "vehicleRole" (.str role) .nil)) .nil) }
def roleKey : OrderKey := { attr := ["cam", "vehicleRole"], dir := .desc }
def roleOf (r : Record) : String :=
  match orderKeyOf r roleKey with
  | .ok (.str s) => s
  | _ => ""

/-- non-vacuity of `query_exact` for a TEXT-valued order attribute: the keys have a scale (the rank), and the code's
descending sort puts "publicTransport" before "emergency" before "default" -/
example : Scaled (fun _ r => rankIn ([camRole "default", camRole "publicTransport", camRole "emergency"].map roleOf) (roleOf r))
      [roleKey] [camRole "default", camRole "publicTransport", camRole "emergency"] ∧
    orderResults [camRole "default", camRole "publicTransport", camRole "emergency"] [roleKey]
      = .ok [camRole "publicTransport", camRole "emergency", camRole "default"] := by
  refine ⟨?_, by decide⟩
  intro k hk
  simp only [List.mem_singleton] at hk
  subst hk
  refine ⟨fun r => .str (roleOf r), ?_, scale_str _ roleOf⟩
  intro r hr
  simp only [List.mem_cons, List.mem_nil_iff, or_false] at hr
  rcases hr with h | h | h <;> subst h <;> decide

/-! ## plain order attributes on heterogeneous selections (round 6)

A PLAIN (undotted) order attribute is located by depth-first search (`findAttrD` = `Utils.find_attribute`) in EVERY
object on its own: the same name sits at different paths in different message types (`cam.generationDeltaTime` /
`vam.generationDeltaTime`, `…basicContainer.stationType` / `denm.management.stationType`). -/

/-- **plain_name_order_exact** — every store, every type selection and filter, every plain name and direction: when every
selected object has the name SOMEWHERE (at whatever path, each object its own) with an integer value `g r`, the request
answers, and the answer is the selection stably sorted by `g` in the requested direction.  (C13-KF2 is the complement:
some selected object lacks the name or the values are of mixed type.) -/
theorem plain_name_order_exact (rows : List Record) (q : Request) (a : String) (d : Dir) (g : Record → Int)
    (hwf : ∀ f, q.filter = some f → WFFilter f) (ho : q.order = some [{ attr := [a], dir := d }])
    (hg : ∀ r ∈ select rows q.types q.filter,
      ∃ kvs, r.toJVal = .dict kvs ∧ utilsGetNested (.dict kvs) (findAttrD a kvs) = .ok (.int (g r))) :
    serviceQuery rows q = .ok (query (fun _ => g) rows q.types q.filter q.order) := by
  apply query_exact_int (fun _ => g) rows q hwf
  intro ks hks r hr k hk
  rw [ho] at hks
  cases hks
  simp only [List.mem_singleton] at hk
  subst hk
  obtain ⟨kvs, h1, h2⟩ := hg r hr
  unfold orderKeyOf
  simp only [h1]
  exact h2

/-- **order_key_is_per_object** (regenerated obligation, `Generated.LdmSections.orderKeyShared`: an `ast` pass over
`LDMService.order_search_results`): the functions that compute an object's sort key read and write NO variable of the
enclosing method and nothing of `self` - the key of an object depends on the object and the order tuple alone, which is
what `orderKeyOf r k` (a function of ONE record) models.  A cache shared by the key computations of one request (the path
located in the first object) re-opens this. -/
theorem order_key_is_per_object : Generated.LdmSections.orderKeyShared = [] := by decide

def gdtPlain : OrderKey := { attr := ["generationDeltaTime"], dir := .asc }

/-- the variant that locates the path ONCE per request - in the first object compared - and reuses it for all objects -/
def sortByKeyCachedPath (rows : List Record) (k : OrderKey) : Except Err (List Record) :=
  match k.attr, rows with
  | [a], r0 :: _ =>
    match r0.toJVal with
    | .dict kvs => do
      let path := findAttrD a kvs
      let keyed ← rows.mapM (fun r => do let v ← utilsGetNested r.toJVal path; pure (r, v))
      let sorted ← pySorted keyed (k.dir == .desc)
      pure (sorted.map (·.1))
    | _ => sortByKey rows k
  | _, _ => sortByKey rows k

/-- non-vacuity of `plain_name_order_exact` and witness: CAM + VAM ordered by the plain name `generationDeltaTime` - the
code as it is answers with the objects in order; with a path located once (`cam.generationDeltaTime`, from the first
object) the VAM's key is None and the sort raises TypeError; on a homogeneous selection the two cannot be told apart -/
theorem plain_name_heterogeneous_witness :
    serviceQuery [rec "cam" 1 5, rec "vam" 2 1, rec "cam" 3 8]
      { app := 2, types := [2, 16], prio := none, orderBad := false, order := some [gdtPlain],
        filterBad := false, filter := none } = .ok [rec "vam" 2 1, rec "cam" 1 5, rec "cam" 3 8] ∧
    sortByKeyCachedPath [rec "cam" 1 5, rec "vam" 2 1, rec "cam" 3 8] gdtPlain = .error .typeError ∧
    sortByKeyCachedPath [rec "cam" 1 5, rec "cam" 2 1, rec "cam" 3 8] gdtPlain
      = sortByKey [rec "cam" 1 5, rec "cam" 2 1, rec "cam" 3 8] gdtPlain := by
  decide

/-! ## the same objects for the same history - when several threads make the history (round 4)

The in-memory back-end is used by provider threads (insert / update), the maintenance thread (remove by value, remove by
id) and consumer threads (search) at once.  "The same history of operations" then means: SOME sequential order of the
calls that respects every thread's own order; the theorems say the store, the ids and every call's result are those of
such an order, for every schedule - PROVIDED every method is one lock section, which is read from the source. -/
section Conc
open FlexModel.Ldm.QueryConc FlexModel.Conc

/-- **db_methods_single_section** (regenerated obligation, `Generated.LdmSections.dbUnits`: an `ast` pass over
dictionary_database.py): each of insert / update / remove / remove_by_id / all / search is exactly ONE `with self._lock`
section containing all its accesses to the store and the id allocator, nothing outside.  Splitting a section (lookup
under the lock, deletion under the lock again) or moving an access out re-opens this. -/
theorem db_methods_single_section : Atomic Generated.LdmSections.dbUnits := by decide

/-- **concurrent_history_is_sequential** — any number of threads, any lists of calls, ANY schedule: the state (stored
objects in store order, id allocator, results of the completed calls) is the result of executing sequential calls one
after the other; per thread, the calls executed so far followed by some rest are its calls in its order, and all of them
once the run is finished. -/
theorem concurrent_history_is_sequential {V : Type} [DecidableEq V] (s0 : St V) (threads : List (List (Call V)))
    (sched : List ThreadId) :
    ∃ tr : List (ThreadId × (St V → St V)),
      (run (sys Generated.LdmSections.dbUnits s0 threads) sched).sh = applyAll tr s0 ∧
      (∀ u, ∃ rest, tracedBy u tr ++ rest = (threads.getD u []).map blockOf) ∧
      (finished (run (sys Generated.LdmSections.dbUnits s0 threads) sched) = true →
        ∀ u, tracedBy u tr = (threads.getD u []).map blockOf) :=
  db_linearizable _ db_methods_single_section s0 threads sched

/-- **concurrent_calls_serial** — two concurrent calls end in the state of one of their two serial orders -/
theorem concurrent_calls_serial {V : Type} [DecidableEq V] (s0 : St V) (a b : Call V) (sched : List ThreadId)
    (hfin : finished (run (sys Generated.LdmSections.dbUnits s0 [[a], [b]]) sched) = true) :
    (run (sys Generated.LdmSections.dbUnits s0 [[a], [b]]) sched).sh = blockOf b (blockOf a s0) ∨
    (run (sys Generated.LdmSections.dbUnits s0 [[a], [b]]) sched).sh = blockOf a (blockOf b s0) :=
  two_calls_serial _ db_methods_single_section s0 a b sched hfin

/-- **update_racing_removal_keeps_fresh** — the maintenance thread removes the previous version of an object (by
value) while its provider stores a fresh version under the same id: under every schedule, once both calls are over,
the fresh object is stored under that id and every search whose predicate it satisfies returns it. -/
theorem update_racing_removal_keeps_fresh {V : Type} [DecidableEq V] (s0 : St V) (k : Nat) (old fresh : V) (hne : fresh ≠ old)
    (sa sb : Nat) (sched : List ThreadId)
    (hfin : finished (run (sys Generated.LdmSections.dbUnits s0 [[(sa, .remove old)], [(sb, .update k fresh)]]) sched) = true)
    (p : V → Bool) (hp : p fresh = true) :
    lookup (run (sys Generated.LdmSections.dbUnits s0 [[(sa, .remove old)], [(sb, .update k fresh)]]) sched).sh.db.rows k
      = some fresh ∧
    ∃ l, (apply (.search p)
        (run (sys Generated.LdmSections.dbUnits s0 [[(sa, .remove old)], [(sb, .update k fresh)]]) sched).sh.db).2 = .objs l ∧
      fresh ∈ l := by
  have h := fresh_survives _ db_methods_single_section s0 k old fresh hne sa sb sched hfin
  exact ⟨h, search_returns_stored _ k fresh p h hp⟩

/-- non-vacuity and witness.  One-section `remove`: the schedule "removal first, update second" is finished and keeps the
fresh object 21.  Two-section `remove` (lookup section ; deletion section that pops the key found earlier): under the
schedule lookup ; update ; deletion both calls report success and the FRESH object is gone - a state neither serial
order produces (both keep 21 under id 1). -/
theorem split_remove_loses_update :
    (finished (run (sys oneFacts demoSt demoThreads) [0, 0, 0, 1, 1, 1]) = true ∧
      lookup (run (sys oneFacts demoSt demoThreads) [0, 0, 0, 1, 1, 1]).sh.db.rows 1 = some 21) ∧
    (finished (run (sys splitFacts demoSt demoThreads) demoSched) = true ∧
      (run (sys splitFacts demoSt demoThreads) demoSched).sh.db.rows = [(0, 10)] ∧
      (run (sys splitFacts demoSt demoThreads) demoSched).sh.out = [(1, .ok true), (0, .ok true)]) ∧
    lookup (blockOf (1, .update 1 21) (blockOf (0, .remove 20) demoSt)).db.rows 1 = some 21 ∧
    lookup (blockOf (0, .remove 20) (blockOf (1, .update 1 21) demoSt)).db.rows 1 = some 21 := by decide

/-- **tinydb_methods_single_section** (round 5; regenerated obligation, `Generated.LdmSections.tinyUnits`: the same `ast`
pass over tinydb_database.py, class TinyDB): each of insert / update / remove / remove_by_id / all / search is exactly ONE
`with self._lock` section that contains every use of the tinydb handle `self.database`.  The handle's JSON storage shares
one file object between reads and writes and rewrites the file in place (write, then truncate), so a `search` that reads
outside the section can see a half-written file; taking the search out of the lock re-opens this. -/
theorem tinydb_methods_single_section : Atomic Generated.LdmSections.tinyUnits := by decide

/-- **tinydb_concurrent_history_is_sequential** — the same linearisation for the calls on the TinyDB back-end (the table
`Db V` holds the stored documents, the allocator the next document id): any number of threads, any lists of calls, ANY
schedule - the table, the ids and every call's result are those of the calls executed one after the other, every
thread's own order kept.  (`update` of an id that is not stored is outside: the real TinyDB raises KeyError there, IF.LDM.3
checks `exists` first.) -/
theorem tinydb_concurrent_history_is_sequential {V : Type} [DecidableEq V] (s0 : St V) (threads : List (List (Call V)))
    (sched : List ThreadId) :
    ∃ tr : List (ThreadId × (St V → St V)),
      (run (sys Generated.LdmSections.tinyUnits s0 threads) sched).sh = applyAll tr s0 ∧
      (∀ u, ∃ rest, tracedBy u tr ++ rest = (threads.getD u []).map blockOf) ∧
      (finished (run (sys Generated.LdmSections.tinyUnits s0 threads) sched) = true →
        ∀ u, tracedBy u tr = (threads.getD u []).map blockOf) :=
  db_linearizable _ tinydb_methods_single_section s0 threads sched

end Conc

/-! ## the same objects for the same history of operations - on both back-ends (round 5)

A history = the operations LDMMaintenance issues on its back-end: add, update of a stored id, removal BY VALUE
(`del_provider_data(container)`: the first stored container equal to the argument), removal by id.  The TinyDB class
stores JSON images under document ids that are the in-memory ids + 1. -/
section History
open FlexModel.Ldm.Backends FlexModel.Ldm.QueryConc

/-- **same_history_same_objects** — after EVERY history (any length, any operations, equal objects stored any number of
times, removals by value of stored / updated / absent objects) the objects the TinyDB back-end holds are, in store order,
the JSON images of the objects the in-memory back-end holds.  `P` delimits the objects of the history; the only
hypothesis is that the image does not identify two different ones of them. -/
theorem same_history_same_objects {V : Type} [DecidableEq V] (img : V → V) (P : V → Prop)
    (hinj : ∀ a b, P a → P b → img a = img b → a = b) (ops : List (HOp V)) (hops : ∀ op ∈ ops, ∀ v, op.value? = some v → P v) :
    Db.objs (tinyRun false img { rows := [], next := 1 } (ops.map (HOp.shift 1)))
      = (Db.objs (dictRun { rows := [], next := 0 } ops)).map img :=
  image_objs 1 img _ _ (tiny_history_image 1 img P hinj ops hops _ _ (image_empty img) (by simp)).1

/-- **same_history_same_answers** — hence a request evaluated on the TinyDB back-end after a history selects exactly
what the TinyDB search model selects from the in-memory store of the same history (`tinySearch` = the selection on the
JSON images, which `backends_agree_mod_json` relates to the in-memory answer). -/
theorem same_history_same_answers (P : Record → Prop) (hinj : ∀ a b, P a → P b → a.round = b.round → a = b)
    (ops : List (HOp Record)) (hops : ∀ op ∈ ops, ∀ v, op.value? = some v → P v)
    (types : List Nat) (f : Option Filter) (hwf : ∀ g, f = some g → WFFilter g) :
    select (Db.objs (tinyRun false Record.round { rows := [], next := 1 } (ops.map (HOp.shift 1)))) types f
      = tinySearch (Db.objs (dictRun { rows := [], next := 0 } ops)) types f := by
  rw [same_history_same_objects Record.round P hinj ops hops, tiny_backend_exact _ types f hwf]

/-- corollary for JSON-stable objects (no tuples: the image is the identity): literally the same stored objects -/
theorem same_history_same_objects_json_stable (ops : List (HOp Record))
    (hst : ∀ op ∈ ops, ∀ v, op.value? = some v → noTuple v.obj = true) :
    Db.objs (tinyRun false Record.round { rows := [], next := 1 } (ops.map (HOp.shift 1)))
      = Db.objs (dictRun { rows := [], next := 0 } ops) := by
  have hid : ∀ r : Record, noTuple r.obj = true → r.round = r := by
    intro r h
    simp [Record.round, jsonRound_id r.obj h]
  rw [same_history_same_objects Record.round (fun r => noTuple r.obj = true)
    (fun a b ha hb e => by rw [hid a ha, hid b hb] at e; exact e) ops hst]
  apply round_id_of_stable
  intro r hr
  obtain ⟨x, hx, rfl⟩ := List.mem_map.mp hr
  exact (tiny_history_image 1 Record.round (fun r => noTuple r.obj = true)
    (fun a b ha hb e => by rw [hid a ha, hid b hb] at e; exact e) ops hst _ _ (image_empty Record.round) (by simp)).2 x hx

/-- non-vacuity and witness: a container stored twice (the same message delivered twice), then ONE removal by value.
Both back-ends keep one copy; a TinyDB `remove` that collects the ids of ALL equal documents and removes them keeps
none - the back-ends then answer every request the object matches differently. -/
theorem remove_all_copies_differs :
    Db.objs (dictRun { rows := [], next := 0 } dupHistory) = [10, 20, 30] ∧
    Db.objs (tinyRun false id { rows := [], next := 1 } (dupHistory.map (HOp.shift 1))) = [10, 20, 30] ∧
    Db.objs (tinyRun true id { rows := [], next := 1 } (dupHistory.map (HOp.shift 1))) = [10, 30] := by decide

end History

end Props.C13

/-
C05 — Honestly signed messages are accepted by every station sharing the trust root.  Property theorems only.
Model: FlexModel/Sec/Sign.lean (sign_cam / sign_denm / sign_other, CAM signer alternation, P2PCD lists) composed with
FlexModel/Sec/Verify.lean; vocabulary (`HonestMsg`, `Asking`, `Owes`, traffic operations): FlexModel/Sec/Lemmas.lean;
`TrustsTicket` (the receiver hypothesis, read off the certificates): FlexModel/Sec/Groups.lean; the certificate-inclusion
rule over the observable history (`Obs`, `lastInclR`, `pendingR`, `trace`): FlexModel/Sec/SignSpec.lean.
The theorems hold for every configuration `cfg` of the repaired sites, in particular for the code as it is; the sign
service has two variants (`Station.perTicket`: repaired = per-ticket timer / requests, C05-F2).
-/
import FlexModel.Sec.Lemmas
import FlexModel.Sec.Groups
import FlexModel.Sec.SignSpec
import FlexModel.Sec.Origin
import Generated.Sec
import Generated.SecRx
import Generated.RouterRx

namespace Props.C05
open FlexModel.Sec FlexModel.Sec.Store

/-! ## Immediate acceptance -/

/-- a message carrying the certificate is accepted at once, payload unchanged, by any station that can verify the
    ticket (trusts root + AA); afterwards the ticket is known there -/
theorem accept_with_certificate (cfg : Cfg) (R : Station) (c : Cert) (ht : TrustsTicket R.store c) (m : Msg)
    (hm : HonestMsg m c) (hsg : m.signer = .certs [c]) :
    (R.verifyMsg cfg m).2 = .ok { report := .success, certId := some c.id, plain := some m.payload } ∧
    (∃ a, find (R.verifyMsg cfg m).1.store.ats c.id = some a) ∧ Ready cfg (R.verifyMsg cfg m).1.store c := by
  have hr := ready_of_trusts cfg ht
  obtain ⟨h1, h2⟩ := accept_certificate hr hm hsg
  exact ⟨h1, h2, ready_rx hr m (fun c' h _ => by rw [hsg] at h; cases h; rfl)⟩

/-- a digest-signed message is accepted at once if the ticket is known -/
theorem accept_digest_if_known (cfg : Cfg) (R : Station) (c : Cert) (ht : TrustsTicket R.store c) (m : Msg)
    (hm : HonestMsg m c) (hsg : m.signer = .digest c.id) (h37 : m.psid ≠ 37) (a : SC)
    (hk : find R.store.ats c.id = some a) :
    (R.verifyMsg cfg m).2 = .ok { report := .success, certId := some c.id, plain := some m.payload } :=
  accept_digest_known (ready_of_trusts cfg ht) hm hsg h37 hk

/-- the receiver configuration "knows root + AA" spelled out on the certificates, WITHOUT assuming anything about
    the layout of the authority's issuing permissions: the library resolves the ticket's issuer to an authority `i`
    (under a root or another authority) that signed it, and every ITS-AID of the ticket is named by SOME
    PsidGroupPermissions entry of `i` – any number of entries, any position – or `i` may issue everything.  Then a
    message carrying the certificate is accepted at once with the payload unchanged, and the ticket is known
    afterwards.  (`Ready` is derived here, not assumed.) -/
theorem accept_under_multi_group_authority (cfg : Cfg) (R : Station) (c : Cert) (i : SC)
    (hgood : CertGood c) (hct : c.ctype = 0) (hsa : c.sigP256 = true)
    (hfind : R.store.getIssuer c = .ok (some i)) (hsig : c.sigBy = some i.c.key)
    (hik : i.c.vkiVerif = true ∧ i.c.keyP256 = true ∧ i.c.keyUnc = true)
    (hperm : i.c.hasAll = true ∨
      ∀ p ∈ c.appList, ∃ g ∈ i.c.issueList, ∃ ps, g.subj = .explicit ps ∧ p ∈ ps)
    (hnew : find R.store.ats c.id = none ∨ KnownGood cfg R.store c)
    (m : Msg) (hm : HonestMsg m c) (hsg : m.signer = .certs [c]) :
    (R.verifyMsg cfg m).2 = .ok { report := .success, certId := some c.id, plain := some m.payload } ∧
    (∃ a, find (R.verifyMsg cfg m).1.store.ats c.id = some a) := by
  have hk : KnownGood cfg R.store c := by
    rcases hnew with h | h
    · exact knownGood_of_unknown h
    · exact h
  have hr : Ready cfg R.store c := ready_of_union hgood hct hsa hfind hsig hik hperm hk
  exact accept_certificate hr hm hsg

/-! ## Signer rule and profiles of emitted messages -/

/-- CAM/VAM signer rule in terms of the signer's bookkeeping (implementation level; the statement over the station's
    observable history is `cam_certificate_rule_spec`): the certificate instead of the digest iff more than 1000 ms have
    passed since the time kept for the signing ticket (`lastFor`: per ticket in the repaired code, one shared timer
    before) or a request is pending for it (`asked`) -/
theorem cam_signer_rule {S S' : Station} {now psid gt pl : Nat} {m : Msg}
    (h : S.signCam now psid gt pl = (S', .ok m)) :
    ∃ a, Station.presentAt S.store.own psid = .ok (some a) ∧
      ((m.signer = .certs [a.c]) ↔ (now - S.lastFor a.c.id > 1000 ∨ S.asked a.c.id = true)) ∧
      (m.signer = .certs [a.c] ∨ m.signer = .digest a.c.id) := by
  obtain ⟨a, hp, _, _, _, _, _, _, _, _, hw⟩ := signCam_ok h
  refine ⟨a, hp, ?_, ?_⟩
  · rcases hw with ⟨h1, h2, _⟩ | ⟨h1, h2, _⟩
    · refine ⟨fun _ => ?_, fun _ => h2⟩
      simpa [Station.wantsCert] using h1
    · refine ⟨fun hc => ?_, fun hc => ?_⟩
      · rw [h2] at hc; cases hc
      · have : S.wantsCert a.c.id now = true := by simpa [Station.wantsCert] using hc
        rw [h1] at this; cases this
  · rcases hw with ⟨_, h2, _⟩ | ⟨_, h2, _⟩
    · exact Or.inl h2
    · exact Or.inr h2

/-- timer restart: including the certificate restarts the timer of the signing ticket and serves its pending request;
    a digest leaves both (and everything else but the popped CA request) as they were -/
theorem cam_timer_restart {S S' : Station} {now psid gt pl : Nat} {m : Msg}
    (h : S.signCam now psid gt pl = (S', .ok m)) :
    ∃ a, Station.presentAt S.store.own psid = .ok (some a) ∧
      (m.signer = .certs [a.c] → S'.lastFor a.c.id = now ∧ S'.asked a.c.id = false ∧ S'.lastFull = now) ∧
      (m.signer = .digest a.c.id → S' = { S with requestedAts := S.requestedAts.tail }) := by
  obtain ⟨a, hp, _, _, _, _, _, _, _, _, hw⟩ := signCam_ok h
  refine ⟨a, hp, ?_, ?_⟩
  · rcases hw with ⟨_, _, h3, h4⟩ | ⟨_, h2, _⟩
    · intro _
      exact ⟨by rw [h4]; exact included_lastFor _ _ _, by rw [h4]; exact included_asked _ _ _, h3⟩
    · intro hc; rw [h2] at hc; cases hc
  · rcases hw with ⟨_, h2, _⟩ | ⟨_, _, _, h4⟩
    · intro hd; rw [h2] at hd; cases hd
    · intro _; exact h4

/-! ### the rule of the property text, over the station's observable history -/

/-- SPECIFICATION (repaired code, `perTicket = true`): for EVERY history of receptions and emissions of a station whose
    sign service started fresh, a CAM/VAM signed with ticket `a` carries the full certificate iff – read off the
    OBSERVABLE trace (emissions with their signing ticket, accepted inlineP2pcdRequests, messages of unknown tickets),
    not off the signer's bookkeeping – more than 1000 ms have passed since an emission signed with `a` last carried it
    (`lastInclR`, 0 = never) or a peer has asked for it since (`pendingR`).  Any number of own tickets. -/
theorem cam_certificate_rule_spec (cfg : Cfg) (S0 : Station) (hfresh : FreshSigner S0) (ops : List Op)
    (hops : ∀ op ∈ ops, op.isTraffic) {now psid gt pl : Nat} {S' : Station} {m : Msg}
    (h : (S0.run cfg ops).signCam now psid gt pl = (S', .ok m)) :
    ∃ a, Station.presentAt S0.store.own psid = .ok (some a) ∧
      (m.signer = .certs [a.c] ∨ m.signer = .digest a.c.id) ∧
      (m.signer = .certs [a.c] ↔
        (now - lastInclR (trace cfg S0 ops []) a.c.id > 1000 ∨ pendingR (trace cfg S0 ops []) a.c.id = true)) :=
  spec_rule cfg S0 hfresh ops hops h

/-- … PARTIAL for the code before repair C05-F2 (one timer and one request flag shared by all tickets,
    `perTicket = false`): the same rule holds when the sign service holds ONE ticket (the full statement above is
    false for it: `two_ticket_witness`) -/
theorem cam_certificate_rule_single_ticket_partial (cfg : Cfg) (S0 : Station) (a : SC) (hpt : S0.perTicket = false)
    (hown : S0.store.own = [a]) (h0 : S0.lastFull = 0) (hflag : S0.reqOwn = false) (hsign : S0.hasSign = true)
    (ops : List Op) (hops : ∀ op ∈ ops, op.isTraffic) {now psid gt pl : Nat} {S' : Station} {m : Msg}
    (h : (S0.run cfg ops).signCam now psid gt pl = (S', .ok m)) :
    (m.signer = .certs [a.c] ∨ m.signer = .digest a.c.id) ∧
    (m.signer = .certs [a.c] ↔
      (now - lastInclR (trace cfg S0 ops []) a.c.id > 1000 ∨ pendingR (trace cfg S0 ops []) a.c.id = true)) :=
  spec_rule_single_ticket cfg S0 a hpt hown h0 hflag hsign ops hops h

/-- CAM/VAM profile: headerInfo = {psid, generationTime} plus inlineP2pcdRequest exactly when the station's list of
    unknown tickets is non-empty (the list itself, unchanged; note that the code never prunes it when a ticket is learnt
    later, so the request is repeated – an observation outside the property text) and requestedCertificate only when a
    peer's request for a CA certificate is pending – nothing else -/
theorem cam_profile_fields {S S' : Station} {now psid gt pl : Nat} {m : Msg}
    (h : S.signCam now psid gt pl = (S', .ok m)) :
    m.psid = psid ∧ m.genTime = some gt ∧ m.genLoc = false ∧ m.p2pcdLearn = false ∧ m.missingCrl = false ∧
    m.expiry = false ∧ m.encKey = false ∧ m.payload = pl ∧
    (m.inlineReq = none ↔ S.unknownAts = []) ∧ (∀ l, m.inlineReq = some l → l = S.unknownAts) ∧
    (m.reqCert.isSome → S.requestedAts ≠ []) := by
  obtain ⟨a, _, hb, hl, hinl, hrc, _⟩ := signCam_ok h
  refine ⟨hb.psid, hb.genTime, hl, hb.noLearn, hb.noCrl, hb.noExpiry, hb.noEncKey, hb.payload, ?_, ?_, ?_⟩
  · rw [hinl]; unfold Station.inlineField
    cases hu : S.unknownAts <;> simp
  · intro l hl'; rw [hinl] at hl'; unfold Station.inlineField at hl'
    split at hl' <;> simp at hl'; exact hl'.symm
  · intro hs
    rcases hrc with h0 | ⟨x, ca, hx, _, _⟩
    · rw [h0] at hs; simp at hs
    · intro hn; rw [hn] at hx; simp at hx

/-- DENM: always the certificate; headerInfo = {psid, generationTime, generationLocation} and nothing else -/
theorem denm_always_certificate {S S' : Station} {loc : Bool} {psid gt pl : Nat} {m : Msg}
    (h : S.signDenm loc psid gt pl = (S', .ok m)) :
    (∃ a, Station.presentAt S.store.own psid = .ok (some a) ∧ m.signer = .certs [a.c]) ∧
    m.psid = psid ∧ m.genTime = some gt ∧ m.genLoc = true ∧ m.p2pcdLearn = false ∧ m.missingCrl = false ∧
    m.expiry = false ∧ m.encKey = false ∧ m.inlineReq = none ∧ m.reqCert = none ∧ m.payload = pl := by
  obtain ⟨a, hp, hb, _, hl, hi, hr, hs, _⟩ := signDenm_ok h
  exact ⟨⟨a, hp, hs⟩, hb.psid, hb.genTime, hl, hb.noLearn, hb.noCrl, hb.noExpiry, hb.noEncKey, hi, hr, hb.payload⟩

/-- generic profile: digest signer; headerInfo = {psid, generationTime} and nothing else -/
theorem other_profile_fields {S S' : Station} {psid gt pl : Nat} {m : Msg}
    (h : S.signOther psid gt pl = (S', .ok m)) :
    (∃ a, Station.presentAt S.store.own psid = .ok (some a) ∧ m.signer = .digest a.c.id) ∧
    m.psid = psid ∧ m.genTime = some gt ∧ m.genLoc = false ∧ m.p2pcdLearn = false ∧ m.missingCrl = false ∧
    m.expiry = false ∧ m.encKey = false ∧ m.inlineReq = none ∧ m.reqCert = none ∧ m.payload = pl := by
  obtain ⟨a, hp, hb, hl, hi, hr, hs, _⟩ := signOther_ok h
  exact ⟨⟨a, hp, hs⟩, hb.psid, hb.genTime, hl, hb.noLearn, hb.noCrl, hb.noExpiry, hb.noEncKey, hi, hr, hb.payload⟩

/-! ## Sign-then-verify -/

/-- what the sender's clock and library must provide for its CAM to be "honest" with ticket `a` -/
theorem cam_is_honest {S S' : Station} {now psid gt pl : Nat} {m : Msg}
    (h : S.signCam now psid gt pl = (S', .ok m)) (hpsid : psid ≠ 37) {a : SC}
    (ha : Station.presentAt S.store.own psid = .ok (some a)) (hval : Station.withinValidity a.c gt = true)
    (hrc : ∀ c', m.reqCert = some c' → c'.issuer ≠ .other) : HonestMsg m a.c := by
  obtain ⟨a', hp, hb, _, _, _, _⟩ := signCam_ok h
  rw [ha] at hp; cases hp
  exact ⟨hb.sig, hb.sigFmt, ⟨gt, hb.genTime, hval⟩, by rw [hb.psid]; exact (presentAt_some ha).2, hb.noLearn, hb.noCrl,
    fun h37 => absurd (hb.psid ▸ h37) hpsid, hrc⟩

/-- a CAM carrying the certificate is accepted by every ready receiver, whatever that receiver saw before -/
theorem sign_then_verify_cam (cfg : Cfg) {S S' : Station} {now psid gt pl : Nat} {m : Msg}
    (h : S.signCam now psid gt pl = (S', .ok m)) (hpsid : psid ≠ 37) {a : SC}
    (ha : Station.presentAt S.store.own psid = .ok (some a)) (hval : Station.withinValidity a.c gt = true)
    (hrc : ∀ c', m.reqCert = some c' → c'.issuer ≠ .other)
    (R : Station) (ht : TrustsTicket R.store a.c)
    (hkn : m.signer = .certs [a.c] ∨ ∃ k, find R.store.ats a.c.id = some k) :
    (R.verifyMsg cfg m).2 = .ok { report := .success, certId := some a.c.id, plain := some pl } := by
  have hr := ready_of_trusts cfg ht
  have hm := cam_is_honest h hpsid ha hval hrc
  obtain ⟨a', hp, hb, _, _, _, _, _, _, _, hw⟩ := signCam_ok h
  rw [ha] at hp; cases hp
  rw [← hb.payload]
  rcases hkn with hc | ⟨k, hk⟩
  · exact (accept_certificate hr hm hc).1
  · rcases hw with ⟨_, h2, _⟩ | ⟨_, h2, _⟩
    · exact (accept_certificate hr hm h2).1
    · exact accept_digest_known hr hm h2 (by rw [hb.psid]; exact hpsid) hk

/-- a DENM is accepted at once by every ready receiver (it always carries the certificate) -/
theorem sign_then_verify_denm (cfg : Cfg) {S S' : Station} {loc : Bool} {gt pl : Nat} {m : Msg}
    (h : S.signDenm loc 37 gt pl = (S', .ok m)) {a : SC}
    (ha : Station.presentAt S.store.own 37 = .ok (some a)) (hval : Station.withinValidity a.c gt = true)
    (R : Station) (ht : TrustsTicket R.store a.c) :
    (R.verifyMsg cfg m).2 = .ok { report := .success, certId := some a.c.id, plain := some pl } := by
  have hr := ready_of_trusts cfg ht
  obtain ⟨a', hp, hb, _, hl, hi, hrc, hs, _⟩ := signDenm_ok h
  rw [ha] at hp; cases hp
  have hm : HonestMsg m a.c :=
    ⟨hb.sig, hb.sigFmt, ⟨gt, hb.genTime, hval⟩, by rw [hb.psid]; exact (presentAt_some ha).2, hb.noLearn, hb.noCrl,
      fun _ => ⟨hl, hb.noExpiry, hb.noEncKey, hi, hrc⟩, fun c' hc => by rw [hrc] at hc; cases hc⟩
  rw [← hb.payload]
  exact (accept_certificate hr hm hs).1

/-- a generic-profile message (digest signer) is accepted at once by every ready receiver that knows the ticket -/
theorem sign_then_verify_other (cfg : Cfg) {S S' : Station} {psid gt pl : Nat} {m : Msg}
    (h : S.signOther psid gt pl = (S', .ok m)) (hpsid : psid ≠ 37) {a : SC}
    (ha : Station.presentAt S.store.own psid = .ok (some a)) (hval : Station.withinValidity a.c gt = true)
    (R : Station) (ht : TrustsTicket R.store a.c) {k : SC} (hk : find R.store.ats a.c.id = some k) :
    (R.verifyMsg cfg m).2 = .ok { report := .success, certId := some a.c.id, plain := some pl } := by
  have hr := ready_of_trusts cfg ht
  obtain ⟨a', hp, hb, _, hi, hrc, hs, _⟩ := signOther_ok h
  rw [ha] at hp; cases hp
  have hm : HonestMsg m a.c :=
    ⟨hb.sig, hb.sigFmt, ⟨gt, hb.genTime, hval⟩, by rw [hb.psid]; exact (presentAt_some ha).2, hb.noLearn, hb.noCrl,
      fun h37 => absurd (hb.psid ▸ h37) hpsid, fun c' hc => by rw [hrc] at hc; cases hc⟩
  rw [← hb.payload]
  exact accept_digest_known hr hm hs (by rw [hb.psid]; exact hpsid) hk

/-! ## Peer-to-peer certificate distribution: at most two further exchanges -/

/-- If R rejects S's digest-signed message because the ticket is unknown, then
    (1) R's next CAM – after any other traffic at R – carries `inlineP2pcdRequest ∋ HashedId3(S's ticket)` and R's own
        certificate;
    (2) S – after any traffic of its own – accepts that CAM;
    (3) S's next CAM after that – at ANY time, i.e. every phase of its 1-second timer, after any other traffic that
        is not a CAM of S – carries S's certificate;
    (4) R – after any other traffic – accepts it with the payload unchanged.
    Interleavings are arbitrary lists of receive / sign operations; the only side conditions are collision freedom
    of HashedId8/HashedId3 with the two tickets and that the CAMs are emitted by stations holding valid tickets. -/
theorem p2pcd_two_exchanges (cfg : Cfg) (R S : Station) (aS aR : SC)
    (hRs : R.hasSign = true) (hSs : S.hasSign = true)
    (hRtrusts : TrustsTicket R.store aS.c) (hStrusts : TrustsTicket S.store aR.c) (hSown : aS ∈ S.store.own)
    -- (0) the rejected message
    (m0 : Msg) (hm0 : m0.signer = .digest aS.c.id) (h37 : m0.psid ≠ 37) (hun : find R.store.ats aS.c.id = none)
    -- other traffic at R, then R's next CAM
    (opsR : List Op) (hopsR : ∀ op ∈ opsR, op.isTraffic ∧ op.notCam ∧ op.noCaClash (h3 aS.c.id) ∧ op.noClash aS.c)
    (nowR psidR gtR plR : Nat) (R2 : Station) (m1 : Msg)
    (hcamR : ((R.verifyMsg cfg m0).1.run cfg opsR).signCam nowR psidR gtR plR = (R2, .ok m1))
    (haR : Station.presentAt R.store.own psidR = .ok (some aR)) (hpsidR : psidR ≠ 37)
    (hvalR : Station.withinValidity aR.c gtR = true) (hrcR : ∀ c', m1.reqCert = some c' → c'.issuer ≠ .other)
    -- traffic at S before it receives R's CAM (anything) and after (anything but an own CAM), then S's next CAM
    (opsS1 : List Op) (hopsS1 : ∀ op ∈ opsS1, op.isTraffic ∧ op.noClash aR.c)
    (opsS2 : List Op) (hopsS2 : ∀ op ∈ opsS2, op.isTraffic ∧ op.notCam)
    (nowS psidS gtS plS : Nat) (S3 : Station) (m2 : Msg)
    (hcamS : ((((S.run cfg opsS1).verifyMsg cfg m1).1).run cfg opsS2).signCam nowS psidS gtS plS = (S3, .ok m2))
    (haS : Station.presentAt S.store.own psidS = .ok (some aS)) (hpsidS : psidS ≠ 37)
    (hvalS : Station.withinValidity aS.c gtS = true) (hrcS : ∀ c', m2.reqCert = some c' → c'.issuer ≠ .other)
    -- traffic at R in the meantime
    (opsR2 : List Op) (hopsR2 : ∀ op ∈ opsR2, op.isTraffic ∧ op.noClash aS.c) :
    (R.verifyMsg cfg m0).2 = .ok { report := .signerCertificateNotFound } ∧
    m1.signer = .certs [aR.c] ∧ (∃ l, m1.inlineReq = some l ∧ h3 aS.c.id ∈ l) ∧
    ((S.run cfg opsS1).verifyMsg cfg m1).2 = .ok { report := .success, certId := some aR.c.id, plain := some plR } ∧
    m2.signer = .certs [aS.c] ∧
    ((R2.run cfg opsR2).verifyMsg cfg m2).2 = .ok { report := .success, certId := some aS.c.id, plain := some plS } := by
  have hRready := ready_of_trusts cfg hRtrusts
  have hSready := ready_of_trusts cfg hStrusts
  -- (0) rejection makes R ask
  have hRown : R.store.own ≠ [] := List.ne_nil_of_mem (presentAt_some haR).1
  obtain ⟨hrej, hask0, hst0, hsign0⟩ := reject_unknown_digest (cfg := cfg) hRs hRown hm0 h37 hun
  -- R before its CAM
  have hR1traffic : ∀ op ∈ opsR, op.isTraffic := fun op h => (hopsR op h).1
  have hask1 := traffic_run_asking (cfg := cfg) opsR _ hask0 (fun op h => ⟨(hopsR op h).1, (hopsR op h).2.1, (hopsR op h).2.2.1⟩)
  obtain ⟨hown1, _⟩ := traffic_run_fixed (cfg := cfg) opsR (R.verifyMsg cfg m0).1 hR1traffic
  have hownR : ((R.verifyMsg cfg m0).1.run cfg opsR).store.own = R.store.own := by rw [hown1, hst0]
  -- (1) R's CAM
  obtain ⟨a1, hp1, hsg1, hinl1, hb1, hl1⟩ := asking_cam hask1 hcamR
  rw [hownR, haR] at hp1; cases hp1
  have haR' : Station.presentAt ((R.verifyMsg cfg m0).1.run cfg opsR).store.own psidR = .ok (some aR) := by rw [hownR]; exact haR
  have hm1 : HonestMsg m1 aR.c := cam_is_honest hcamR hpsidR haR' hvalR hrcR
  -- (2) S accepts it
  have hSready1 := traffic_run_ready (cfg := cfg) opsS1 S hSready hopsS1
  obtain ⟨hacc1, _⟩ := accept_certificate (S := S.run cfg opsS1) hSready1 hm1 hsg1
  rw [hb1.payload] at hacc1
  -- S now has its certificate requested
  obtain ⟨hownS1, hsignS1⟩ := traffic_run_fixed (cfg := cfg) opsS1 S (fun op h => (hopsS1 op h).1)
  have hreq : Owes ((S.run cfg opsS1).verifyMsg cfg m1).1 aS.c.id := by
    obtain ⟨l, hl, hx⟩ := hinl1
    -- the ticket resolved for m1 is good, so the state after verify is `onSuccess`
    have hstate : ∃ T : Station, T.hasSign = true ∧ T.store.own = S.store.own ∧
        ((S.run cfg opsS1).verifyMsg cfg m1).1 = (T.onSuccess cfg m1).1 := by
      unfold Station.verifyMsg
      simp only [hsg1]
      cases hf : find (S.run cfg opsS1).store.ats aR.c.id with
      | some known =>
        simp only [Store.verifySeq1, hf]
        obtain ⟨hk1, hk2⟩ := hSready1.known known (find_some_mem hf).1 (find_some_mem hf).2
        have hg : GoodTicket cfg known :=
          ⟨hk2, hk1 ▸ hSready1.good.isAT, hk1 ▸ hSready1.good.vki, hk1 ▸ hSready1.good.keyP256, hk1 ▸ hSready1.good.keyUnc⟩
        exact ⟨_, by simpa using hsignS1.trans hSs, by simpa using hownS1,
          (verifyWith_honest (S := { (S.run cfg opsS1) with store := (S.run cfg opsS1).store }) hg (hk1 ▸ hm1)).2⟩
      | none =>
        obtain ⟨i, hi, hv⟩ := hSready1.res
        simp only [Store.verifySeq1, hf, hi, hv, if_true, Store.addAT, find_none_has hf, Bool.false_eq_true, if_false]
        have hg : GoodTicket cfg ⟨aR.c, some i.c⟩ :=
          ⟨hv, hSready1.good.isAT, hSready1.good.vki, hSready1.good.keyP256, hSready1.good.keyUnc⟩
        exact ⟨_, by simpa using hsignS1.trans hSs, by simpa using hownS1, (verifyWith_honest hg hm1).2⟩
    obtain ⟨T, hTs, hTo, hT⟩ := hstate
    rw [hT]
    exact request_received hTs hl (hTo ▸ hSown) hx
  have hreq2 := traffic_run_owes (cfg := cfg) opsS2 _ hreq hopsS2
  -- (3) S's next CAM carries the certificate
  obtain ⟨hownS2, _⟩ := traffic_run_fixed (cfg := cfg) opsS2 ((S.run cfg opsS1).verifyMsg cfg m1).1 (fun op h => (hopsS2 op h).1)
  have hownS : ((((S.run cfg opsS1).verifyMsg cfg m1).1).run cfg opsS2).store.own = S.store.own := by
    rw [hownS2, (verifyMsg_grows cfg _ m1).own, hownS1]
  have haS' := haS
  rw [← hownS] at haS'
  obtain ⟨a2, hp2, hsg2, hb2, hl2, _⟩ :=
    requested_cam hcamS (fun a ha => by rw [haS'] at ha; cases ha; exact hreq2.1)
  rw [haS'] at hp2; cases hp2
  have hm2 : HonestMsg m2 aS.c := cam_is_honest hcamS hpsidS haS' hvalS hrcS
  -- (4) R accepts it
  have hR2store : R2.store = ((R.verifyMsg cfg m0).1.run cfg opsR).store := (signCam_ok hcamR).choose_spec.2.2.2.2.2.1
  have hRready1 : Ready cfg ((R.verifyMsg cfg m0).1.run cfg opsR).store aS.c :=
    traffic_run_ready (cfg := cfg) opsR _ (by rw [hst0]; exact hRready) (fun op h => ⟨(hopsR op h).1, (hopsR op h).2.2.2⟩)
  have hRready2 : Ready cfg (R2.run cfg opsR2).store aS.c :=
    traffic_run_ready (cfg := cfg) opsR2 R2 (by rw [hR2store]; exact hRready1) hopsR2
  obtain ⟨hacc2, _⟩ := accept_certificate (S := R2.run cfg opsR2) hRready2 hm2 hsg2
  rw [hb2.payload] at hacc2
  exact ⟨hrej, hsg1, hinl1, hacc1, hsg2, hacc2⟩

/-- regenerated facts: the threshold and comparison of `set_up_signer` (`current - last > 1` s) are the model's
    `now - lastFor ticket > 1000` ms, and `sign_request` dispatches on ITS-AIDs 36 and 37 as modelled -/
theorem cam_interval_agrees :
    Generated.Sec.camCertIntervalMs = 1000 ∧ Generated.Sec.camCertIntervalOp = "gt" ∧
    Generated.Sec.signRequestDispatch = [36, 37] ∧
    (∀ S : Station, ∀ t now,
      S.wantsCert t now = (decide (now - S.lastFor t > Generated.Sec.camCertIntervalMs) || S.asked t)) := by
  refine ⟨by decide, by decide, by decide, fun S t now => rfl⟩

/-! ## Round 4: the validity window in the units of the standard, ITS-AID entries with SSPs -/

/-- the IEEE 1609.2 Duration units in microseconds (a year is 31 556 952 s = 365.2425 days, sixtyHours = 216 000 s) -/
def standardUnitUs : List (String × Nat) :=
  [("microseconds", 1), ("milliseconds", 1000), ("seconds", 1000000), ("minutes", 60 * 1000000),
   ("hours", 3600 * 1000000), ("sixtyHours", 216000 * 1000000), ("years", 31556952 * 1000000)]

/-- the receiver's validity test accepts the WHOLE period of the standard: for a ticket whose duration is `n` units and
    whose length in microseconds is computed with the REGENERATED table of verify_service.py
    (`Generated.Sec.durationUs`, what `_generation_time_within_validity` multiplies with), every generation time from
    `start` up to and including `start + n · unit` (standard units) is within validity – so `HonestMsg.time` of the
    acceptance theorems holds for every message an honest holder signs while its ticket is valid, up to the last
    microsecond.  A table entry that is too small (e.g. a 365-day year) re-opens this proof. -/
theorem validity_window_in_standard_units (c : Cert) (unit : String) (us n : Nat)
    (hu : (unit, us) ∈ standardUnitUs)
    (hd : (Generated.Sec.durationUs.lookup unit).map (· * n) = some c.durUs) (t : Nat)
    (h1 : c.start * 1000000 ≤ t) (h2 : t ≤ c.start * 1000000 + n * us) :
    Station.withinValidity c t = true := by
  have hdur : c.durUs = us * n := by
    simp only [standardUnitUs, List.mem_cons, Prod.mk.injEq, List.mem_nil_iff, or_false] at hu
    rcases hu with ⟨rfl, rfl⟩ | ⟨rfl, rfl⟩ | ⟨rfl, rfl⟩ | ⟨rfl, rfl⟩ | ⟨rfl, rfl⟩ | ⟨rfl, rfl⟩ | ⟨rfl, rfl⟩ <;>
      · simp [Generated.Sec.durationUs, List.lookup] at hd
        omega
  unfold Station.withinValidity
  have : t ≤ c.start * 1000000 + c.durUs := by rw [hdur, Nat.mul_comm us n]; exact h2
  simp [h1, this]

/-- non-vacuity: a one-year ticket, generation time 2 h before the end of the year of the standard -/
example : Station.withinValidity { (default : Cert) with start := 100, durUs := 31556952000000 }
    (100 * 1000000 + 31556952000000 - 7200000000) = true :=
  validity_window_in_standard_units _ "years" (31556952 * 1000000) 1 (by decide) (by decide) _ (by decide) (by decide)

/-- regenerated fact (ast pass `gen_sec_rx`): the ITS-AID guard of VerifyService compares the message's ITS-AID with
    the PROJECTION `[entry["psid"] …]` of the ticket's appPermissions – the model's `a.c.appList.contains m.psid`, in
    which a PsidSsp entry is its ITS-AID whether or not it carries an `ssp` component (the abstraction of
    harness/sec_common.py drops the ssp).  Comparing whole entries (`{"psid": psid} in appPermissions`) re-opens this. -/
theorem psid_guard_compares_projection : Generated.SecRx.psidGuardShape = ["psid-vs-projection"] := by decide

/-! ## Round 5: every receiver configuration, every generation position -/

/-- CERTIFICATE THEN DIGEST, ANY RECEIVER: a station that can verify the ticket - `R.hasSign` is NOT constrained: a
    receive-only station (VerifyService built without a SignService: monitor, logger) is a receiver like any other -
    accepts a certificate-carrying message of an honest ticket holder with the payload unchanged and, from then on, the
    digest-signed messages of the same ticket (CAM / VAM between two inclusions, generic profile) -/
theorem certificate_then_digest_any_receiver (cfg : Cfg) (R : Station) (c : Cert) (ht : TrustsTicket R.store c)
    (m1 m2 : Msg) (h1 : HonestMsg m1 c) (hs1 : m1.signer = .certs [c]) (h2 : HonestMsg m2 c)
    (hs2 : m2.signer = .digest c.id) (h37 : m2.psid ≠ 37) :
    (R.verifyMsg cfg m1).2 = .ok { report := .success, certId := some c.id, plain := some m1.payload } ∧
    ((R.verifyMsg cfg m1).1.verifyMsg cfg m2).2 =
      .ok { report := .success, certId := some c.id, plain := some m2.payload } := by
  obtain ⟨ha, ⟨a, hk⟩, hr⟩ := accept_with_certificate cfg R c ht m1 h1 hs1
  exact ⟨ha, accept_digest_known hr h2 hs2 h37 hk⟩

/-- the ticket a verified in-message certificate yields is STORED by the library function that verified it, whoever the
    caller is and whatever else is wired into it (regenerated from the AST of certificate_library.py /
    verify_service.py): in `verify_sequence_of_certificates` every `return` of a certificate object built from the
    message is immediately preceded by `self.add_authorization_ticket(<it>)` (`learnSites`), and VerifyService consults the
    library through the two functions of the model only - it does no storing of its own (`libraryUses`) -/
theorem library_stores_the_ticket_it_verified :
    Generated.SecRx.learnSites ≠ [] ∧ Generated.SecRx.learnSites.all id = true ∧
    Generated.SecRx.libraryUses = ["get_authorization_ticket_by_hashedid8", "verify_sequence_of_certificates"] := by
  decide

/-- EVERY GENERATION POSITION: whatever the forwarding decision of the source operation - source inside the destination
    area, or OUTSIDE it with greedy forwarding deciding to transmit -, a frame handed to the link layer for a signed DENM
    is the secured message itself, and every receiver that can verify the sender's ticket passes it through its security
    gate with the payload unchanged -/
theorem originated_denm_accepted_from_every_position (cfg : Cfg) {S S' : Station} {gt pl : Nat} {m : Msg}
    (h : S.signDenm true 37 gt pl = (S', .ok m)) {a : SC}
    (ha : Station.presentAt S.store.own 37 = .ok (some a)) (hval : Station.withinValidity a.c gt = true)
    (d : SrcDecision) (plain : Nat) (p : Packet) (hp : originate d (some m) plain = some p)
    (R : Station) (ht : TrustsTicket R.store a.c) (en : Bool) :
    p = .secured (some m) ∧ (gate cfg en true R p).2 = .pass pl := by
  have hpm : p = .secured (some m) := originate_some hp
  refine ⟨hpm, ?_⟩
  have hv := sign_then_verify_denm cfg h ha hval R ht
  subst hpm
  unfold gate
  simp only [Bool.not_true, Bool.false_eq_true, if_false]
  cases hr : R.verifyMsg cfg m with
  | mk R' o =>
    rw [hr] at hv
    simp only at hv
    subst hv
    simp

/-- the frame is sent in both forwarding branches unless the packet is buffered or greedy forwarding holds it back -/
example (m : Msg) : originate ⟨false, .nonArea, true⟩ (some m) 0 = some (.secured (some m)) ∧
    originate ⟨false, .area, false⟩ (some m) 0 = some (.secured (some m)) := by
  constructor <;> rfl

/-- what the seeded change C05-m9 did: a source operation that assembles its frame through the forwarders' helper emits
    `NH = SECURED + plain headers` (receive context empty at a source) - a frame no receiver can decode -/
example (cfg : Cfg) (en : Bool) (R : Station) (pl : Nat) :
    (gate cfg en true R (viaForwardHelper none true pl)).2 = .raise "parse" := rfl

/-- source operations assemble their own GN-PDU: `_forward_pdu` (envelope from the RECEIVE context) is called by the
    forwarders of the receive path only - regenerated by harness/gen_router.py (C06's pass) on every run of C05 too -/
theorem source_operations_assemble_their_own_pdu :
    Generated.RouterRx.forwardPduCallers.all (fun f =>
      ["gn_area_cbf_forwarding", "gn_data_forward_gbc", "gn_data_indicate_guc", "gn_data_indicate_gac",
        "gn_data_indicate_ls_request", "gn_data_indicate_ls_reply", "gn_data_indicate_tsb"].contains f) = true := by
  decide

/-! ## Round 6: any number of unknown tickets, answered requests overheard by everybody, multi-hop reach -/

/-- ANY NUMBER OF STATIONS: the request field of a CAM / VAM names EVERY ticket (and authority) the station could not
    resolve - there is no bound on the number of entries, so the ninth unknown ticket of a late joiner is asked for in
    the same message as the first (`p2pcd_two_exchanges` then applies to each of them) -/
theorem inline_request_names_every_unknown_ticket {S S' : Station} {now psid gt pl : Nat} {m : Msg}
    (h : S.signCam now psid gt pl = (S', .ok m)) (x : Nat) (hx : x ∈ S.unknownAts) :
    ∃ l, m.inlineReq = some l ∧ x ∈ l ∧ l.length = S.unknownAts.length := by
  obtain ⟨a, _, _, _, hin, _⟩ := signCam_ok h
  refine ⟨S.unknownAts, ?_, hx, rfl⟩
  rw [hin]
  unfold Station.inlineField
  cases hl : S.unknownAts with
  | nil => rw [hl] at hx; cases hx
  | cons y ys => simp

/-- the P2PCD bookkeeping of the sign service has the shape the model takes as given (regenerated from the AST of
    sign_service.py on every run): every `self.<list>.remove(x)` is the body of `if x in self.<list>:` - so the removal
    never raises at a station whose list does not hold the entry (an uninvolved third party, the asker) and is the
    model's total `List.erase` in `notifyReceivedCa`; and the value assigned to `inlineP2pcdRequest` is the whole list
    `self.unknown_ats` (`Station.inlineField`), not a slice or a filtered copy -/
theorem p2pcd_bookkeeping_shape :
    Generated.SecRx.removeGuards ≠ [] ∧ Generated.SecRx.removeGuards.all id = true ∧
    Generated.SecRx.inlineRequestSource = ["self.unknown_ats"] := by
  decide

/-! ## Non-vacuity and the known finding C05-KF1 (executed inside the model by `decide`) -/

def yRoot : Cert :=
  { id := 10, issuer := .self, ctype := 0, vkiVerif := true, sigP256 := true, keyP256 := true, keyUnc := true,
    idNone := false, app := none, issue := some [⟨.all, 2⟩], start := 100, durUs := 1000000000, key := 10,
    sigBy := some 10 }
def yAA : Cert := { yRoot with id := 11, issuer := .digest 10, issue := some [⟨.explicit [36, 37], 1⟩], key := 11 }
def yAT (id : Nat) : Cert :=
  { yRoot with id := id, issuer := .digest 11, idNone := true, app := some [36, 37], issue := none, key := id, sigBy := some 11 }

/-- a station trusting root + AA, holding ticket `id` -/
def yStation (id : Nat) : Station :=
  ({} : Station).run Cfg.fixed [.addRoot ⟨yRoot, none⟩, .addAA ⟨yAA, some yRoot⟩, .addOwn ⟨yAT id, some yAA⟩]
/-- a station trusting the root only (its own ticket installed directly) -/
def yRootOnly (id : Nat) : Station :=
  let S := ({} : Station).run Cfg.fixed [.addRoot ⟨yRoot, none⟩]
  { S with store := { S.store with own := [⟨yAT id, some yAA⟩] } }

def report (r : Station × Except Err VOut) : Option Nat := match r.2 with | .ok o => some o.report.code | .error _ => none
def msgOf (r : Station × Except Err Msg) : Msg := match r.2 with | .ok m => m | .error _ => default
def isCert (m : Msg) : Bool := match m.signer with | .certs _ => true | _ => false

def demoP2pcd : (Bool × Bool × Option Nat × Bool) × (Option (List Nat) × Option Nat × Bool × Option Nat) :=
  let S0 := yStation 12
  let s1 := S0.signCam 5000 36 100000500 1        -- certificate (first CAM), nobody listening
  let s2 := s1.1.signCam 5100 36 100000500 2      -- digest
  let R0 := yStation 13
  let r1 := R0.verifyMsg Cfg.fixed (msgOf s2)
  let r2 := r1.1.signCam 5150 36 100000500 3
  let s3 := s2.1.verifyMsg Cfg.fixed (msgOf r2)
  let s4 := s3.1.signCam 5200 36 100000500 4
  let r3 := r2.1.verifyMsg Cfg.fixed (msgOf s4)
  ((isCert (msgOf s1), isCert (msgOf s2), report r1, isCert (msgOf r2)), ((msgOf r2).inlineReq, report s3,
    isCert (msgOf s4), report r3))

/-- late joiner R: S's digest CAM is rejected (9), R's CAM asks + carries R's certificate, S accepts (0), S's very next
    CAM – 100 ms after its previous certificate – carries the certificate again, R accepts (0) -/
example : demoP2pcd = ((true, false, some 9, true), (some [12], some 0, true, some 0)) := by decide

def demoTimer : Bool × Bool :=
  let s1 := (yStation 12).signCam 5000 36 100000500 1
  (isCert (msgOf (s1.1.signCam 6000 36 100000500 2)), isCert (msgOf (s1.1.signCam 6001 36 100000500 2)))

/-- the 1-second rule at its boundary: 1000 ms after the last inclusion still the digest, 1001 ms the certificate -/
example : demoTimer = (false, true) := by decide

def demoRootOnly : Option Nat × Option (List Nat) × Option Nat × Option Nat × Option Nat × Nat :=
  let S0 := yStation 12
  let R0 := yRootOnly 13
  let s1 := S0.signCam 5000 36 100000500 1
  let r1 := R0.verifyMsg Cfg.fixed (msgOf s1)
  let r2 := r1.1.signCam 5100 36 100000500 2          -- asks for the AA (HashedId3 11)
  let s2 := s1.1.verifyMsg Cfg.fixed (msgOf r2)
  let s3 := s2.1.signCam 5200 36 100000500 3          -- carries requestedCertificate = AA
  let r3 := r2.1.verifyMsg Cfg.fixed (msgOf s3)
  (report r1, (msgOf r2).inlineReq, report s2, ((msgOf s3).reqCert.map (·.id)), report r3, r3.1.store.aas.length)

def demoAnswerOverheard : Option Nat × Bool × Option Nat × Option Nat × List Nat × List Nat :=
  let S0 := yStation 12
  let R0 := yRootOnly 13
  let s1 := S0.signCam 5000 36 100000500 1
  let r1 := R0.verifyMsg Cfg.fixed (msgOf s1)
  let r2 := r1.1.signCam 5100 36 100000500 2          -- asks for the AA (HashedId3 11)
  let s2 := s1.1.verifyMsg Cfg.fixed (msgOf r2)
  let s3 := s2.1.signCam 6300 36 100000500 3          -- 1.3 s later: certificate + requestedCertificate = AA
  let z1 := (yStation 14).verifyMsg Cfg.fixed (msgOf s3)   -- a THIRD PARTY: asked nothing, was asked nothing
  let z2 := s1.1.verifyMsg Cfg.fixed (msgOf s3)            -- hypothetically: a station that WAS not asked either (before R's CAM)
  ((msgOf s3).reqCert.map (·.id), isCert (msgOf s3), report z1, report z2, z1.1.requestedAts, z1.1.unknownAts)

/-- non-vacuity of `accept_with_certificate` for a message that ANSWERS a peer's request: the CAM carrying
    `requestedCertificate` = AA (11) is accepted (0) by stations whose own request lists are empty, which stay empty -/
example : demoAnswerOverheard = (some 11, true, some 0, some 0, [], []) := by decide

/-- an authority whose issuing permissions are split over two groups; tickets whose ITS-AIDs lie across them -/
def yAA2 : Cert :=
  { yRoot with id := 21, issuer := .digest 10, issue := some [⟨.explicit [36, 37], 1⟩, ⟨.explicit [638], 1⟩], key := 21 }
def yAT2 (id : Nat) : Cert :=
  { yRoot with id := id, issuer := .digest 21, idNone := true, app := some [36, 638], issue := none, key := id, sigBy := some 21 }
def yStation2 (id : Nat) : Station :=
  ({} : Station).run Cfg.fixed [.addRoot ⟨yRoot, none⟩, .addAA ⟨yAA2, some yRoot⟩, .addOwn ⟨yAT2 id, some yAA2⟩]

def demoGroups : Nat × Bool × Option Nat × Option Nat :=
  let S0 := yStation2 22
  let s1 := S0.signCam 5000 36 100000500 1            -- first CAM: certificate
  let r1 := (yStation2 23).verifyMsg Cfg.fixed (msgOf s1)
  let s2 := s1.1.signCam 5100 638 100000500 2         -- VAM 100 ms later: digest, ticket now known to R
  let r2 := r1.1.verifyMsg Cfg.fixed (msgOf s2)
  (S0.store.own.length, isCert (msgOf s1), report r1, report r2)

/-- non-vacuity of `accept_under_multi_group_authority`: under an authority with groups {36,37} and {638} a ticket for
    {36, 638} – contained in NEITHER group alone – loads as own certificate, and its CAM and VAM are accepted (0, 0) -/
example : demoGroups = (1, true, some 0, some 0) := by decide

/-- a RECEIVE-ONLY station (no sign service, no own ticket) trusting root + AA -/
def yMonitor : Station :=
  { (({} : Station).run Cfg.fixed [.addRoot ⟨yRoot, none⟩, .addAA ⟨yAA, some yRoot⟩]) with hasSign := false }

def demoMonitor : Bool × Option Nat × Bool × Option Nat × Nat :=
  let s1 := (yStation 12).signCam 5000 36 100000500 1   -- certificate
  let r1 := yMonitor.verifyMsg Cfg.fixed (msgOf s1)
  let s2 := s1.1.signCam 5100 36 100000500 2            -- digest
  let r2 := r1.1.verifyMsg Cfg.fixed (msgOf s2)
  (isCert (msgOf s1), report r1, isCert (msgOf s2), report r2, r2.1.store.ats.length)

/-- non-vacuity of `certificate_then_digest_any_receiver` for `hasSign = false`: the monitor accepts the certificate
    CAM (0), stores the ticket and accepts the digest CAM 100 ms later (0) -/
example : demoMonitor = (true, some 0, false, some 0, 1) := by decide

/-- a station with SEPARATE tickets for CAMs (ITS-AID 36) and VAMs (638) under the two-group authority -/
def yAtCam : Cert :=
  { yRoot with id := 31, issuer := .digest 21, idNone := true, app := some [36], issue := none, key := 31, sigBy := some 21 }
def yAtVam : Cert :=
  { yRoot with id := 32, issuer := .digest 21, idNone := true, app := some [638], issue := none, key := 32, sigBy := some 21 }
def yTwoTickets (perTicket : Bool) : Station :=
  let S := ({} : Station).run Cfg.fixed [.addRoot ⟨yRoot, none⟩, .addAA ⟨yAA2, some yRoot⟩, .addOwn ⟨yAtCam, some yAA2⟩,
    .addOwn ⟨yAtVam, some yAA2⟩]
  { S with perTicket := perTicket }

/-- CAM at 10.0 s, VAM at 10.5 s, CAM at 11.1 s, VAM at 11.5 s -/
def twoTicketOps : List Op := [.signCam 10000 36 100000500 1, .signCam 10500 638 100000500 2, .signCam 11100 36 100000500 3]

def demoTwoTickets (perTicket : Bool) : List Bool × Bool × Bool :=
  let S0 := yTwoTickets perTicket
  let s1 := S0.signCam 10000 36 100000500 1
  let s2 := s1.1.signCam 10500 638 100000500 2
  let s3 := s2.1.signCam 11100 36 100000500 3
  let s4 := s3.1.signCam 11500 638 100000500 4
  ([isCert (msgOf s1), isCert (msgOf s2), isCert (msgOf s3), isCert (msgOf s4)],
   decide (Due (trace Cfg.fixed S0 [.signCam 10000 36 100000500 1] []) 32 10500),
   decide (Due (trace Cfg.fixed S0 twoTicketOps []) 32 11500))

/-- C05-F2 witness (code before the repair): the first VAM – signed with the VAM ticket, whose certificate was NEVER
    included – goes out with the digest because the CAM ticket restarted the one shared timer 500 ms earlier, and so
    does the second one although the rule demands the certificate both times (`Due … = true`); the repaired code
    includes it in the first VAM (and not in the second: exactly 1000 ms later) -/
theorem two_ticket_witness :
    demoTwoTickets false = ([true, false, true, false], true, true) ∧
    demoTwoTickets true = ([true, true, true, false], true, false) := by decide

/-- C05-KF1 (known, outside the property's receiver configurations): a receiver trusting only the root never
    accepts – the certificate-carrying CAM is INCONSISTENT_CHAIN (4); its request for the AA (HashedId3 11) is accepted
    by S (0) and answered with `requestedCertificate` = AA, but that field is only read after a successful
    verification, so the next CAM is rejected again (9) and no authority was learnt -/
theorem kf1_root_only_witness : demoRootOnly = (some 4, some [11], some 0, some 11, some 9, 0) := by decide

end Props.C05

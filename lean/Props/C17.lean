/-
C17 — DEN service repeats an event's DENM on schedule with a stable, unique identity.
Property theorems only.  Model: `FlexModel/Fac/Denm.lean` (mirrors the code with fixes C17-F1 / C17-F2 applied);
helper lemmas: `FlexModel/Fac/DenmLemmas.lean`.
All statements hold for EVERY interval `i > 0` and duration `T` (Python ints, also `T ≤ 0`), every clock,
every station id, every event position and every list of events — no bounds.
-/
import FlexModel.Fac.DenmLemmas

namespace Props.C17
open FlexModel.Fac.Denm

/-- `ceilDiv T i` really is ⌈T/i⌉: the least `n` with `T ≤ n·i`. -/
theorem ceilDiv_is_ceiling (T i : Nat) (hi : 0 < i) :
    T ≤ ceilDiv T i * i ∧ ∀ n, T ≤ n * i → ceilDiv T i ≤ n := ceilDiv_spec T i hi

/-- **count**: a request with interval `i > 0` and duration `T` hands exactly ⌈T/i⌉ DENMs to the transport layer
    and the repetition thread finishes.  Precisely: `T ≤ 0` → none; `i ∤ T` → ⌊T/i⌋ + 1 (the last one at
    ⌊T/i⌋·i < T). -/
theorem count (clk : Nat → Nat) (tm : TM) (start : Nat) (r : Request) (hi : 0 < r.interval) :
    (runEvent clk tm start r).2.1.length = ceilDiv r.period.toNat r.interval.toNat ∧
    (runEvent clk tm start r).2.2 = Ending.finished := by
  constructor
  · rw [runEvent_log clk tm start r hi]; simp
  · simp [runEvent, alloc, triggerOffsets_pos _ _ hi]

/-- no message at all for `T ≤ 0`, one message whenever `0 < T ≤ i` ("at once") -/
theorem count_zero (clk : Nat → Nat) (tm : TM) (start : Nat) (r : Request) (hT : r.period ≤ 0) :
    (runEvent clk tm start r).2.1 = [] := by
  simp [runEvent, alloc, triggerOffsets, hT]

/-- **cadence**: the `k`-th DENM (k = 0 is handed over at once) leaves at offset `k·i` after the request. -/
theorem cadence (clk : Nat → Nat) (tm : TM) (start : Nat) (r : Request) (hi : 0 < r.interval)
    (k : Nat) (hk : k < ceilDiv r.period.toNat r.interval.toNat) :
    ((runEvent clk tm start r).2.1[k]?).map (·.1) = some (k * r.interval.toNat) := by
  rw [runEvent_log clk tm start r hi]
  simp [hk]

/-- **schedule, as a set**: the offsets at which DENMs leave are exactly the multiples of `i` that are `< T`:
    one at once (offset 0, when `T > 0`), then every `i`, none at or after `T`. -/
theorem schedule_exact (i T o : Nat) (hi : 0 < i) : o ∈ offsets i T ↔ ∃ k, o = k * i ∧ o < T :=
  mem_offsets_iff i T o hi

/-- **sleep drift**: if each `sleep(i)` + message construction really takes `i + d k` ms (`d k ≥ 0`), the loop still
    emits the same number of DENMs (it counts nominal intervals, not elapsed time), no DENM leaves earlier than its
    nominal offset `k·i`, and with `d = 0` the nominal schedule is met exactly.  (So under real `time.sleep` the
    ⌈T/i⌉ messages are spread over `T + Σ d k` rather than `T`.) -/
theorem drift_same_count_never_early (d : Nat → Nat) (i T : Nat) :
    (loopDrift d T i T 0 0 0).length = (offsets i T).length ∧
    (∀ p ∈ List.zip (offsets i T) (loopDrift d T i T 0 0 0), p.1 ≤ p.2) ∧
    loopDrift (fun _ => 0) T i T 0 0 0 = offsets i T :=
  ⟨loopDrift_length d T i T 0 0 0, loopDrift_ge d T i T 0 0 0 (Nat.le_refl 0), loopDrift_zero T i T 0 0⟩

/-- **stable identity**: all DENMs of one event carry the same action id and the station's id
    (holds for every interval, also the degenerate ones). -/
theorem same_identity_within_event (clk : Nat → Nat) (tm : TM) (start : Nat) (r : Request) :
    ∀ m ∈ (runEvent clk tm start r).2.1,
      m.2.denm.action = ⟨tm.station, tm.next⟩ ∧ m.2.denm.stationId = tm.station ∧
      m.2.denm.action.station = m.2.denm.stationId := by
  intro m hm
  have h := runEv_action clk tm (.rep start r) m (by simpa [runEv] using hm)
  exact ⟨h.1, h.2, by rw [h.1, h.2]⟩

/-- **reference times** are non-decreasing along an event for every monotone clock. -/
theorem reference_time_monotone (clk : Nat → Nat) (hmono : ∀ a b, a ≤ b → clk a ≤ clk b)
    (tm : TM) (start : Nat) (r : Request) (hi : 0 < r.interval) :
    List.Pairwise (· ≤ ·) ((runEvent clk tm start r).2.1.map (·.2.denm.refTime)) := by
  rw [runEvent_log clk tm start r hi, List.map_map, List.pairwise_map]
  refine List.Pairwise.imp ?_ List.pairwise_lt_range
  intro a b hab
  simp only [Function.comp, mkReq, mkDenm]
  apply hmono
  have := Nat.mul_le_mul_right r.interval.toNat (Nat.le_of_lt hab)
  omega

/-- **GBC request**: every DENM is requested as a geo-broadcast to port 2002 into a circle (radius 100 m > 0) centred
    on the event position of the request, which is also the event position inside the DENM. -/
theorem gbc_circle_at_event (clk : Nat → Nat) (tm : TM) (start : Nat) (r : Request) :
    ∀ m ∈ (runEvent clk tm start r).2.1,
      m.2.shape = Shape.circle ∧ m.2.centre = r.pos ∧ m.2.denm.pos = r.pos ∧ m.2.port = 2002 ∧ 0 < m.2.a := by
  intro m hm
  simp only [runEvent, alloc, List.mem_map] at hm
  obtain ⟨o, _, rfl⟩ := hm
  simp [mkReq, mkDenm]

/-- **unique identity**: for any number of events of one station, served in any order / with any overlap (repeated
    events and one-shot collision-risk warnings mixed), two different events whose positions in the service order
    are less than 65536 apart carry different action ids. -/
theorem distinct_events_distinct_action_ids (clk : Nat → Nat) (tm : TM) (hn : tm.next < seqMod) (evs : List Ev)
    (j j' : Nat) (hjj : j < j') (hlive : j' - j < 65536)
    (l l' : List (Nat × GbcReq)) (hl : (runEvents clk tm evs)[j]? = some l) (hl' : (runEvents clk tm evs)[j']? = some l') :
    ∀ m ∈ l, ∀ m' ∈ l', m.2.denm.action ≠ m'.2.denm.action := by
  intro m hm m' hm' heq
  have h := (runEvents_action clk tm evs hn j l hl m hm).1
  have h' := (runEvents_action clk tm evs hn j' l' hl' m' hm').1
  rw [h, h'] at heq
  exact seq_distinct tm.next j j' hjj hlive (by injection heq)

/-- non-vacuity: three overlapping events, all emit, all ids differ -/
example :
    (runEvents (fun t => t) ⟨7, 65535⟩
      [.rep 0 ⟨1000, 3000, ⟨1, 2⟩⟩, .crw 500 ⟨100, 0, ⟨3, 4⟩⟩, .rep 700 ⟨100, 250, ⟨5, 6⟩⟩]).map
        (fun l => (l.length, eventAction l)) =
      [(3, some ⟨7, 65535⟩), (1, some ⟨7, 0⟩), (3, some ⟨7, 1⟩)] := by decide

/-- **reception**: a received DENM is appended to the LDM as a DENM data object located at its event position
    (circle of radius 0), nothing already stored is lost. -/
theorem received_stored_at_event_position (ldm : List LdmEntry) (ds : List (Denm × Int)) :
    (∀ e ∈ ldm, e ∈ receiveAll ldm ds) ∧
    ∀ x ∈ ds, ∃ e ∈ receiveAll ldm ds, e.obj = x.1 ∧ e.lat = x.1.pos.lat ∧ e.lon = x.1.pos.lon ∧
      e.alt = x.2 ∧ e.radius = 0 ∧ e.appId = 1 := by
  rw [receiveAll_append]
  constructor
  · intro e he; exact List.mem_append_left _ he
  · intro x hx
    refine ⟨⟨1, x.1.pos.lat, x.1.pos.lon, x.2, 0, x.1⟩, ?_, rfl, rfl, rfl, rfl, rfl, rfl⟩
    apply List.mem_append_right
    exact List.mem_map.2 ⟨x, hx, rfl⟩

/-- exactly one entry per received DENM -/
theorem received_one_entry_each (ldm : List LdmEntry) (ds : List (Denm × Int)) :
    (receiveAll ldm ds).length = ldm.length + ds.length := by
  rw [receiveAll_append]; simp

/-! ## Degenerate intervals (outside the property's range 100…10000 ms): explicit branches -/

/-- `denm_interval = 0`, `time_period > 0`: the real `while` loop never ends — for every amount of fuel the loop is
    still emitting at offset 0; the model flags `nonTerminating`. -/
theorem interval_zero_non_terminating (T : Int) (hT : 0 < T) :
    (triggerOffsets 0 T).2 = Ending.nonTerminating ∧ ∀ fuel, loop fuel 0 T.toNat 0 = List.replicate fuel 0 := by
  constructor
  · have : ¬ T ≤ 0 := by omega
    simp [triggerOffsets, this]
  · intro fuel; exact loop_stuck fuel T.toNat (by omega)

/-- negative interval: one DENM, then `time.sleep` raises ValueError and the thread dies -/
theorem interval_negative (i T : Int) (hi : i < 0) (hT : 0 < T) :
    triggerOffsets i T = ([0], Ending.sleepValueError) := by
  have : ¬ T ≤ 0 := by omega
  simp [triggerOffsets, this, hi]

/-! ## The code before the fixes -/

/-- C17-F1 witness: before the fix every DENM object started at `sequence_number = 0`, so two different events of
    one station carried the same action id. -/
theorem distinct_action_ids_old_witness :
    eventAction (runEventOld (fun t => t) ⟨4242, 0⟩ 0 ⟨1000, 3000, ⟨415000000, 21000000⟩⟩) =
    eventAction (runEventOld (fun t => t) ⟨4242, 0⟩ 500 ⟨1000, 3000, ⟨415100000, 21100000⟩⟩) := by decide

/-- C17-F1 partial: what held already before the fix — identity is stable within an event. -/
theorem same_identity_within_event_old_partial (clk : Nat → Nat) (tm : TM) (start : Nat) (r : Request) :
    ∀ m ∈ runEventOld clk tm start r, m.2.denm.action = ⟨tm.station, 0⟩ ∧ m.2.denm.stationId = tm.station := by
  intro m hm
  simp only [runEventOld, List.mem_map] at hm
  obtain ⟨o, _, rfl⟩ := hm
  simp [mkReq, mkDenm]

/-- C17-F2 witness: with the shared mutable `event_position` of the emergency-vehicle service, a repetition of the
    first event at t = 2000 (second trigger at t = 1500) was sent to the second event's position. -/
theorem aliased_event_position_old_witness :
    aliasedPos [(0, ⟨414536061, 20737073⟩), (1500, ⟨-337000000, -703000000⟩)] 2000 ⟨900000001, 1800000001⟩
      ≠ ⟨414536061, 20737073⟩ := by decide

/-- C17-F2 partial: with a single trigger (no overlap) the old code used the right position. -/
theorem aliased_event_position_old_partial (s t : Nat) (p d : Pos) (h : s ≤ t) : aliasedPos [(s, p)] t d = p := by
  simp [aliasedPos, h]

end Props.C17

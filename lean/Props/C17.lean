/-
C17 — DEN service repeats an event's DENM on schedule with a stable, unique identity.
Property theorems only.  Model: `FlexModel/Fac/Denm.lean` (mirrors the code with fixes C17-F1 / C17-F2 applied);
helper lemmas: `FlexModel/Fac/DenmLemmas.lean`.
All statements hold for EVERY interval `i > 0` and duration `T` (Python ints, also `T ≤ 0`), every clock,
every station id, every event position and every list of events — no bounds.

Round 3: failing repetitions (`count_under_faults` …, fix C17-F3), the request's position is a value taken at request
time (fix C17-F4; the by-reference behaviour is `runEventRef` with `_witness`/`_partial`), concurrent origination at
the level of the individual accesses of `allocate_sequence_number` under ALL interleavings (`concurrent_*`, tied to the
source by `alloc_section_tied : … := by decide` over `Generated/Denm.lean`), reception into the LDM WITH its reactive
maintenance (`received_stored`, `received_collected_witness`: C17-KF1 = C12-KF1 seen through reception).
`model_gbc_request_fields` / `model_feedLdm_appends` (DenmLemmas) restate definitions and are NOT claimed here.

Round 4: OVERLAPPING events at the level of the individual accesses of the repetition body (build/fill -> encode ->
circle centre -> hand-over) under ALL interleavings of the repetition threads (`overlapping_events_*`, model
`FlexModel/Fac/DenmRep.lean`), tied to the source by `repetition_message_tied : … := by decide` over the regenerated
facts "the message object handed over in a repetition is local to that repetition"; `shared_message_witness` is seeded
change C17-m5 (one `self.new_denm` refilled by every repetition of every event).

Round 5: WHERE the request's position is copied (`request_position_fixed_at_request`: caller's thread, before the
event thread exists - any thread-start latency, any writes of the caller; tied by `request_snapshot_tied`; seeded change
C17-m7 = `late_snapshot_witness`) and HOW a lock around the hand-over is released (`failed_handover_blocks_nobody`: a
failing repetition leaves nothing locked behind, whatever the faults and the order of the events' repetitions; tied by
`lock_discipline_tied`; seeded change C17-m9 = `bare_lock_witness`).  Model `FlexModel/Fac/DenmReq.lean`.
-/
import FlexModel.Fac.DenmLemmas
import FlexModel.Fac.DenmConc
import FlexModel.Fac.DenmRepLemmas
import FlexModel.Fac.DenmReq

namespace Props.C17
open FlexModel.Fac.Denm
open FlexModel.Conc (run mkSys finished ThreadId)

/-- `ceilDiv T i` really is ⌈T/i⌉: the least `n` with `T ≤ n·i`. -/
theorem ceilDiv_is_ceiling (T i : Nat) (hi : 0 < i) :
    T ≤ ceilDiv T i * i ∧ ∀ n, T ≤ n * i → ceilDiv T i ≤ n := ceilDiv_spec T i hi

/-- **count**: a request with interval `i > 0` and duration `T` hands exactly ⌈T/i⌉ DENMs to the transport layer
    and the repetition thread finishes.  Precisely: `T ≤ 0` → none; `i ∤ T` → ⌊T/i⌋ + 1 (the last one at
    ⌊T/i⌋·i < T). -/
theorem count (clk : Nat → Nat) (tm : TM) (start : Nat) (r : Request) (hi : 0 < r.interval) :
    (runEvent clk tm start r).2.1.length = ceilDiv r.period.toNat r.interval.toNat ∧
    (runEvent clk tm start r).2.2 = Ending.finished := by
  constructor
  · rw [runEvent_log clk tm start r hi]; simp
  · simp [runEvent, alloc, triggerOffsets_pos _ _ hi]

/-- no message at all for `T ≤ 0`, one message whenever `0 < T ≤ i` ("at once") -/
theorem count_zero (clk : Nat → Nat) (tm : TM) (start : Nat) (r : Request) (hT : r.period ≤ 0) :
    (runEvent clk tm start r).2.1 = [] := by
  simp [runEvent, alloc, triggerOffsets, hT]

/-- **cadence**: the `k`-th DENM (k = 0 is handed over at once) leaves at offset `k·i` after the request. -/
theorem cadence (clk : Nat → Nat) (tm : TM) (start : Nat) (r : Request) (hi : 0 < r.interval)
    (k : Nat) (hk : k < ceilDiv r.period.toNat r.interval.toNat) :
    ((runEvent clk tm start r).2.1[k]?).map (·.1) = some (k * r.interval.toNat) := by
  rw [runEvent_log clk tm start r hi]
  simp [hk]

/-- **schedule, as a set**: the offsets at which DENMs leave are exactly the multiples of `i` that are `< T`:
    one at once (offset 0, when `T > 0`), then every `i`, none at or after `T`. -/
theorem schedule_exact (i T o : Nat) (hi : 0 < i) : o ∈ offsets i T ↔ ∃ k, o = k * i ∧ o < T :=
  mem_offsets_iff i T o hi

/-- **sleep drift**: if each `sleep(i)` + message construction really takes `i + d k` ms (`d k ≥ 0`), the loop still
    emits the same number of DENMs (it counts nominal intervals, not elapsed time), no DENM leaves earlier than its
    nominal offset `k·i`, and with `d = 0` the nominal schedule is met exactly.  (So under real `time.sleep` the
    ⌈T/i⌉ messages are spread over `T + Σ d k` rather than `T`.) -/
theorem drift_same_count_never_early (d : Nat → Nat) (i T : Nat) :
    (loopDrift d T i T 0 0 0).length = (offsets i T).length ∧
    (∀ p ∈ List.zip (offsets i T) (loopDrift d T i T 0 0 0), p.1 ≤ p.2) ∧
    loopDrift (fun _ => 0) T i T 0 0 0 = offsets i T :=
  ⟨loopDrift_length d T i T 0 0 0, loopDrift_ge d T i T 0 0 0 (Nat.le_refl 0), loopDrift_zero T i T 0 0⟩

/-- **regenerated structural fact** (round 6, `harness/gen_denm.py analyse_sleep`): the repetition loop of
    `trigger_denm_messages` contains a `sleep(..)` call, and every one is a statement of its own directly in the body of
    the `while` loop (not inside the `try` that protects a repetition, not in a branch) whose only argument is the
    constant interval `<request>.denm_interval / 1000` - the wait after a repetition does not depend on how long the
    repetition took, which is what `loop` / `loopDrift` model.  Seeded change C17-m11 ('drift compensation':
    `sleep(i/1000 - (monotonic() - repetition_start))`, no clamp at 0, outside the try) makes this `decide` fail. -/
theorem repetition_sleep_tied :
    Generated.Denm.sleepArgs ≠ [] ∧ ∀ c ∈ Generated.Denm.sleepArgs, c = 0 := by decide

/-- **the repetition count does not depend on how long the hand-overs take**: whatever time `d k ≥ 0` repetition `k`
    spends building, encoding and handing over its DENM (a blocked link layer, longer than the interval or not), the
    loop hands over exactly ⌈T/i⌉ DENMs, DENM `k` not before `k·i`.  Driven by the 'slow hand-over' scenarios of
    harness/props/c17.py (the transport stub blocks for a virtual duration; the real emission times are compared with
    the model's offsets shifted by the time the earlier hand-overs took). -/
theorem count_independent_of_handover_duration (d : Nat → Nat) (i T : Nat) (hi : 0 < i) :
    (loopDrift d T i T 0 0 0).length = ceilDiv T i ∧
    (∀ p ∈ List.zip (offsets i T) (loopDrift d T i T 0 0 0), p.1 ≤ p.2) := by
  refine ⟨?_, (drift_same_count_never_early d i T).2.1⟩
  rw [(drift_same_count_never_early d i T).1, offsets_eq i T hi]
  simp

/-- **stable identity**: all DENMs of one event carry the same action id and the station's id
    (holds for every interval, also the degenerate ones). -/
theorem same_identity_within_event (clk : Nat → Nat) (tm : TM) (start : Nat) (r : Request) :
    ∀ m ∈ (runEvent clk tm start r).2.1,
      m.2.denm.action = ⟨tm.station, tm.next⟩ ∧ m.2.denm.stationId = tm.station ∧
      m.2.denm.action.station = m.2.denm.stationId := by
  intro m hm
  have h := runEv_action clk tm (.rep start r) m (by simpa [runEv] using hm)
  exact ⟨h.1, h.2, by rw [h.1, h.2]⟩

/-- **reference times** are non-decreasing along an event for every monotone clock. -/
theorem reference_time_monotone (clk : Nat → Nat) (hmono : ∀ a b, a ≤ b → clk a ≤ clk b)
    (tm : TM) (start : Nat) (r : Request) (hi : 0 < r.interval) :
    List.Pairwise (· ≤ ·) ((runEvent clk tm start r).2.1.map (·.2.denm.refTime)) := by
  rw [runEvent_log clk tm start r hi, List.map_map, List.pairwise_map]
  refine List.Pairwise.imp ?_ List.pairwise_lt_range
  intro a b hab
  simp only [Function.comp, mkReq, mkDenm]
  apply hmono
  have := Nat.mul_le_mul_right r.interval.toNat (Nat.le_of_lt hab)
  omega

/-- **until T has elapsed**: for `T > 0` the last DENM leaves at `(⌈T/i⌉ − 1)·i`, which is still before `T`, and the
    next multiple of `i` is not. -/
theorem last_offset (i T : Nat) (hi : 0 < i) (hT : 0 < T) :
    (offsets i T).getLast? = some ((ceilDiv T i - 1) * i) ∧ (ceilDiv T i - 1) * i < T ∧ T ≤ ceilDiv T i * i := by
  have hs := ceilDiv_spec T i hi
  have hpos : 0 < ceilDiv T i := by
    apply Nat.pos_of_ne_zero
    intro h0
    rw [h0] at hs
    omega
  refine ⟨by rw [offsets_eq i T hi]; exact last_offset_aux i _ hpos, ?_, hs.1⟩
  apply Nat.lt_of_not_le
  intro hle
  have := hs.2 (ceilDiv T i - 1) hle
  omega

example : (offsets 300 1000).getLast? = some 900 ∧ ceilDiv 1000 300 = 4 := by decide

/-! ## Repetitions that fail below the service (coder / transport raise) — fix C17-F3 -/

/-- **count under failures**: whatever the coder and the transport layer do at the individual repetitions, the
    repaired loop runs the whole schedule and finishes: repetition `k` (`k < ⌈T/i⌉`) is handed to the transport at
    offset `k·i` unless its DENM could not be encoded. -/
theorem count_under_faults (clk : Nat → Nat) (tm : TM) (start : Nat) (r : Request) (fk : Nat → Fault) :
    (runEventF clk tm start r fk).2.1.map (·.1) =
      ((List.range (ceilDiv r.period.toNat r.interval.toNat)).filter (fun k => fk k != .encode)).map
        (· * r.interval.toNat) ∧
    (runEventF clk tm start r fk).2.2 = Ending.finished :=
  ⟨runEventF_offsets clk tm start r fk, rfl⟩

/-- … in particular: if every DENM can be encoded, exactly ⌈T/i⌉ DENMs are handed over even if the transport raises
    at any of them. -/
theorem count_transport_faults (clk : Nat → Nat) (tm : TM) (start : Nat) (r : Request) (fk : Nat → Fault)
    (h : ∀ k, fk k ≠ .encode) :
    (runEventF clk tm start r fk).2.1.length = ceilDiv r.period.toNat r.interval.toNat := by
  simp [runEventF, alloc, attempts_all fk _ (fun k _ => h k)]

/-- non-vacuity: the transport refuses every DENM of a 1000 ms / 300 ms event - still four hand-overs, none accepted -/
example :
    ((runEventF (fun t => t) ⟨1, 0⟩ 0 ⟨300, 1000, ⟨0, 0⟩⟩ (fun _ => .transport)).2.1.map (fun m => (m.1, m.2.2))) =
      [(0, false), (300, false), (600, false), (900, false)] := by decide

/-- without failures the fault-aware run is `runEvent` (all theorems above apply), every DENM accepted -/
theorem no_fault_is_runEvent (clk : Nat → Nat) (tm : TM) (start : Nat) (r : Request) (hi : 0 < r.interval) :
    (runEventF clk tm start r (fun _ => .ok)).2.1.map (fun m => (m.1, m.2.1)) = (runEvent clk tm start r).2.1 ∧
    ∀ m ∈ (runEventF clk tm start r (fun _ => .ok)).2.1, m.2.2 = true := by
  constructor
  · rw [runEvent_log clk tm start r hi]
    simp [runEventF, alloc, attempts_all (fun _ => Fault.ok) _ (fun k _ => by simp), List.map_map, Function.comp_def]
  · intro m hm
    simp only [runEventF, alloc, List.mem_map] at hm
    obtain ⟨k, _, rfl⟩ := hm
    rfl

/-- identity is stable also across failing repetitions -/
theorem same_identity_under_faults (clk : Nat → Nat) (tm : TM) (start : Nat) (r : Request) (fk : Nat → Fault) :
    ∀ m ∈ (runEventF clk tm start r fk).2.1,
      m.2.1.denm.action = ⟨tm.station, tm.next⟩ ∧ m.2.1.denm.stationId = tm.station := by
  intro m hm
  simp only [runEventF, alloc, List.mem_map] at hm
  obtain ⟨k, _, rfl⟩ := hm
  simp [mkReq, mkDenm]

/-- C17-F3 witness (OLD loop, no `try` around the repetition): the transport raises at the second of three
    repetitions → two hand-overs, the thread dies, the third DENM (⌈3000/1000⌉ = 3) is never sent. -/
theorem abort_old_witness :
    (runEventAbort (fun t => t) ⟨11, 0⟩ 0 ⟨1000, 3000, ⟨415000000, 21000000⟩⟩
        (fun k => if k = 1 then .transport else .ok)).2.1.length = 2 ∧
    (runEventAbort (fun t => t) ⟨11, 0⟩ 0 ⟨1000, 3000, ⟨415000000, 21000000⟩⟩
        (fun k => if k = 1 then .transport else .ok)).2.2 = Ending.aborted 1 ∧
    ceilDiv 3000 1000 = 3 := by decide

/-- C17-F3 partial: what held before the fix — when nothing raises the old loop is the repaired one. -/
theorem abort_old_partial (clk : Nat → Nat) (tm : TM) (start : Nat) (r : Request) (fk : Nat → Fault)
    (h : ∀ k, k < ceilDiv r.period.toNat r.interval.toNat → fk k = .ok) :
    runEventAbort clk tm start r fk = runEventF clk tm start r fk := by
  simp only [runEventAbort, runEventF, attemptsAbort, firstFault_none fk _ h]
  rw [attempts_all fk _ (fun k hk => by rw [h k hk]; simp)]

/-! ## The event position is the one of the request — fix C17-F4 -/

/-- C17-F4 witness (OLD `request_denm_sending`: position dictionary read by reference at every repetition): the
    caller overwrites its dictionary 1.5 s after the request → the DENM at offset 2000 goes to the new position. -/
theorem event_position_ref_old_witness :
    ((runEventRef (fun t => t) ⟨13, 0⟩ 0 1000 4000
        (fun t => if t < 1500 then ⟨415000000, 21000000⟩ else ⟨-337000000, -703000000⟩))[2]?).map (·.2.centre)
      = some ⟨-337000000, -703000000⟩ := by decide

/-- C17-F4 partial: as long as the caller leaves its dictionary alone the old code used the request's position. -/
theorem event_position_ref_old_partial (clk : Nat → Nat) (tm : TM) (start : Nat) (i T : Int) (posAt : Nat → Pos)
    (p : Pos) (h : ∀ t, posAt t = p) :
    runEventRef clk tm start i T posAt = (runEvent clk tm start ⟨i, T, p⟩).2.1 := by
  simp [runEventRef, runEvent, alloc, h]

/-- **unique identity**: for any number of events of one station, served in any order / with any overlap (repeated
    events and one-shot collision-risk warnings mixed), two different events whose positions in the service order
    are less than 65536 apart carry different action ids. -/
theorem distinct_events_distinct_action_ids (clk : Nat → Nat) (tm : TM) (hn : tm.next < seqMod) (evs : List Ev)
    (j j' : Nat) (hjj : j < j') (hlive : j' - j < 65536)
    (l l' : List (Nat × GbcReq)) (hl : (runEvents clk tm evs)[j]? = some l) (hl' : (runEvents clk tm evs)[j']? = some l') :
    ∀ m ∈ l, ∀ m' ∈ l', m.2.denm.action ≠ m'.2.denm.action := by
  intro m hm m' hm' heq
  have h := (runEvents_action clk tm evs hn j l hl m hm).1
  have h' := (runEvents_action clk tm evs hn j' l' hl' m' hm').1
  rw [h, h'] at heq
  exact seq_distinct tm.next j j' hjj hlive (by injection heq)

/-- non-vacuity: three overlapping events, all emit, all ids differ -/
example :
    (runEvents (fun t => t) ⟨7, 65535⟩
      [.rep 0 ⟨1000, 3000, ⟨1, 2⟩⟩, .crw 500 ⟨100, 0, ⟨3, 4⟩⟩, .rep 700 ⟨100, 250, ⟨5, 6⟩⟩]).map
        (fun l => (l.length, eventAction l)) =
      [(3, some ⟨7, 65535⟩), (1, some ⟨7, 0⟩), (3, some ⟨7, 1⟩)] := by decide

/-- **reception** (LDM as built by `LDMFactory`, reactive maintenance running): after the reception callback the
    LDM holds the DENM as a DENM data object located at its event position (`StoredAt`: a statement about the LDM
    content, not about `feed_ldm`) — unless a collection was due at that very add AND the collection's deletion test
    selects the new record.  Nothing that the collection does not select is lost. -/
theorem received_stored (del : LdmEntry → Bool) (due : Bool) (ldm : List LdmEntry) (d : Denm) (alt : Int)
    (h : ¬ (due = true ∧ del (mkEntry d alt) = true)) :
    StoredAt (feedLdmM del due ldm d alt) d ∧
    ∀ e ∈ ldm, (due = false ∨ del e = false) → e ∈ feedLdmM del due ldm d alt := by
  unfold feedLdmM
  cases due with
  | false =>
    exact ⟨⟨mkEntry d alt, by simp, rfl, rfl, rfl, rfl⟩, fun e he _ => by simp [he]⟩
  | true =>
    have hd : del (mkEntry d alt) = false := by
      cases hdel : del (mkEntry d alt) with
      | false => rfl
      | true => exact absurd ⟨rfl, hdel⟩ h
    refine ⟨⟨mkEntry d alt, ?_, rfl, rfl, rfl, rfl⟩, fun e he hk => ?_⟩
    · simp [List.mem_filter, hd]
    · rcases hk with hk | hk
      · cases hk
      · simp [List.mem_filter, he, hk]

/-- non-vacuity / the usual case: no collection due → stored -/
example (del : LdmEntry → Bool) (ldm : List LdmEntry) (d : Denm) (alt : Int) : StoredAt (feedLdmM del false ldm d alt) d :=
  (received_stored del false ldm d alt (by simp)).1

/-- C17-KF1 witness (= C12-KF1 seen through reception): when a collection is due and its deletion test selects the
    new record — today: event positions next to the station — the DENM is gone when `reception_callback` returns. -/
theorem received_collected_witness (del : LdmEntry → Bool) (d : Denm) (alt : Int) (h : del (mkEntry d alt) = true) :
    ¬ StoredAt (feedLdmM del true [] d alt) d := by
  intro ⟨e, he, _⟩
  simp [feedLdmM, List.filter, h] at he

example (d : Denm) (alt : Int) : ¬ StoredAt (feedLdmM (fun _ => true) true [] d alt) d :=
  received_collected_witness _ d alt rfl

/-! ## Concurrent origination: `allocate_sequence_number` access by access, under ALL interleavings -/

open FlexModel.Fac.Denm.Conc (sourceLayout)

/-- **regenerated structural fact** (re-read from /repo on every run by `harness/gen_denm.py`): the counter is read
    and written back inside ONE `with self._sequence_number_lock:` section, the modulus is 65536 and no other method
    touches the counter.  Moving an access out of the section makes this `decide` fail. -/
theorem alloc_section_tied :
    sourceLayout ∈ FlexModel.Fac.Denm.Conc.okLayouts ∧ Generated.Denm.allocModulus = seqMod ∧
    Generated.Denm.strayCounterAccesses = 0 := by decide

open FlexModel.Fac.Denm.Conc in
/-- **concurrent origination is a service order**: `n` threads (application threads calling
    `send_collision_risk_warning_denm`, repetition threads started by `request_denm_sending`) run
    `allocate_sequence_number` with the source's layout, interleaved in ANY way at the level of the individual
    accesses.  When all have returned, they were served in some order: the `k`-th served holds
    `(counter + k) mod 65536` — exactly what `runEvents` (theorem `distinct_events_distinct_action_ids`) assigns to
    the `k`-th event of the service order — and the counter has advanced by `n`. -/
theorem concurrent_alloc_is_service_order (n : Nat) (x : St) (hx : x ctr < seqMod) (sched : List ThreadId)
    (hfin : finished (run (mkSys x (fineProgs sourceLayout n)) sched) = true) :
    ∃ order : List Nat, order.Perm (List.range n) ∧
      (∀ k t, order[k]? = some t →
        (run (mkSys x (fineProgs sourceLayout n)) sched).sh (reg t) = (x ctr + k) % seqMod) ∧
      (run (mkSys x (fineProgs sourceLayout n)) sched).sh ctr = (x ctr + n) % seqMod :=
  fine_serves sourceLayout alloc_section_tied.1 n x hx sched hfin

open FlexModel.Fac.Denm.Conc in
/-- **unique identity under concurrency**: fewer than 65536 events originated at the same time by one station get
    pairwise different sequence numbers, under every interleaving. -/
theorem concurrent_events_distinct_sequence_numbers (n : Nat) (hn : n ≤ 65536) (x : St) (hx : x ctr < seqMod)
    (sched : List ThreadId) (hfin : finished (run (mkSys x (fineProgs sourceLayout n)) sched) = true)
    (t u : Nat) (ht : t < n) (hu : u < n) (htu : t ≠ u) :
    (run (mkSys x (fineProgs sourceLayout n)) sched).sh (reg t) ≠
      (run (mkSys x (fineProgs sourceLayout n)) sched).sh (reg u) :=
  fine_distinct sourceLayout alloc_section_tied.1 n hn x hx sched hfin t u ht hu htu

open FlexModel.Fac.Denm.Conc in
/-- non-vacuity: complete interleaved runs exist (thread 1 is pre-empted inside the section, thread 0 spins on the
    lock) and the two events get 65535 and 0 -/
example :
    finished (run (mkSys (fun v => if v = 0 then 65535 else 7) (fineProgs sourceLayout 2)) [1, 1, 0, 0, 1, 1, 0, 0, 0, 0]) = true ∧
    (run (mkSys (fun v => if v = 0 then 65535 else 7) (fineProgs sourceLayout 2)) [1, 1, 0, 0, 1, 1, 0, 0, 0, 0]).sh (reg 1) = 65535 ∧
    (run (mkSys (fun v => if v = 0 then 65535 else 7) (fineProgs sourceLayout 2)) [1, 1, 0, 0, 1, 1, 0, 0, 0, 0]).sh (reg 0) = 0 := by
  decide

open FlexModel.Fac.Denm.Conc in
/-- seeded change C17-m1 as a witness: with the read moved in front of the `with` two overlapping events get the
    same sequence number, the counter advances by one only, and the lock-map check of the reduction fails. -/
theorem narrowed_section_witness :
    finished (run (mkSys (fun _ => 0) (fineProgs layoutNarrow 2)) narrowSched) = true ∧
    (run (mkSys (fun _ => 0) (fineProgs layoutNarrow 2)) narrowSched).sh (reg 0) =
      (run (mkSys (fun _ => 0) (fineProgs layoutNarrow 2)) narrowSched).sh (reg 1) ∧
    layoutNarrow ∉ okLayouts := by
  refine ⟨narrow_duplicates.1, narrow_duplicates.2.1, by decide⟩

/-! ## Overlapping events: the repetition body under all interleavings (round 4) -/

open FlexModel.Fac.Denm.Rep in
/-- **regenerated structural fact** (re-read from /repo on every run by `harness/gen_denm.py`): the message object
    handed over in a repetition is local to that repetition - the argument of every `self.transmit_denm(..)` is a local
    bound in the same loop body (code 0; code 1: once per event, before the loop) to a fresh
    `DecentralizedEnvironmentalNotificationMessage()` - private to the event's thread either way -, nothing reachable from
    `request_denm_sending` / `trigger_denm_messages` / `send_collision_risk_warning_denm` stores through `self`, a
    parameter or a global, and the instance attributes read there are the collaborators only. -/
theorem repetition_message_tied :
    Generated.Denm.bodySharedStores = 0 ∧ (∀ a ∈ Generated.Denm.bodySelfAttrs, a ∈ collaborators) ∧
    Generated.Denm.transmitArgs ≠ [] ∧ (∀ c ∈ Generated.Denm.transmitArgs, c ≤ 1) ∧ factsOk = true := by
  decide

open FlexModel.Fac.Denm.Rep in
/-- hence the message object of the tree under check is private to the thread of its event -/
theorem source_scope_thread_private : sourceScope.threadPrivate = true := by
  simp only [sourceScope, repetition_message_tied.2.2.2.2, if_true]
  split <;> rfl

open FlexModel.Fac.Denm.Rep in
/-- **every DENM is its event's own, whatever the overlap**: any number of events of one station, each repeated by
    its own thread, the threads interleaved in ANY way at the level of the individual accesses to the message object
    (new / fill identity / fill position / encode / read latitude / read longitude + hand-over).  Every DENM a thread
    hands to the transport layer carries the action id (station, sequence number) of THAT thread's event, the event
    position of that event, and is geo-broadcast to a circle centred on that position. -/
theorem overlapping_events_own_identity (evs : List Event) (sched : List Nat) :
    ∀ o ∈ (Rep.run sourceScope evs sched).out, Own evs o := by
  exact (inv_run sourceScope source_scope_thread_private evs sched).outs

open FlexModel.Fac.Denm.Rep in
/-- … all DENMs of one event therefore carry ONE action id, and events with different sequence numbers (what
    `concurrent_events_distinct_sequence_numbers` delivers) never share one, under every interleaving. -/
theorem overlapping_events_stable_and_distinct (evs : List Event) (sched : List Nat)
    (o₁ o₂ : Out) (h₁ : o₁ ∈ (Rep.run sourceScope evs sched).out) (h₂ : o₂ ∈ (Rep.run sourceScope evs sched).out) :
    (o₁.thread = o₂.thread → o₁.aid = o₂.aid ∧ o₁.centre = o₂.centre) ∧
    (∀ e₁ e₂, evs[o₁.thread]? = some e₁ → evs[o₂.thread]? = some e₂ → e₁.seq ≠ e₂.seq → o₁.aid ≠ o₂.aid) := by
  obtain ⟨e₁, he₁, ha₁, _, hc₁⟩ := overlapping_events_own_identity evs sched o₁ h₁
  obtain ⟨e₂, he₂, ha₂, _, hc₂⟩ := overlapping_events_own_identity evs sched o₂ h₂
  constructor
  · intro ht
    rw [ht, he₂] at he₁
    have : e₂ = e₁ := Option.some.inj he₁
    subst this
    exact ⟨by rw [ha₁, ha₂], by rw [hc₁, hc₂]⟩
  · intro f₁ f₂ hf₁ hf₂ hne
    rw [he₁] at hf₁; rw [he₂] at hf₂
    have e1 : e₁ = f₁ := Option.some.inj hf₁
    have e2 : e₂ = f₂ := Option.some.inj hf₂
    subst e1; subst e2
    rw [ha₁, ha₂]
    intro hc
    injection hc with _ hs
    exact hne hs

open FlexModel.Fac.Denm.Rep in
/-- **count under overlap**: when every repetition thread has finished, thread `t` has handed over exactly the
    `reps` (= ⌈T/i⌉, theorem `count`) DENMs of its event - none lost to, none taken over from another event. -/
theorem overlapping_events_count (evs : List Event) (sched : List Nat)
    (hfin : Rep.finished evs (Rep.run sourceScope evs sched) = true) (t : Nat) (e : Event) (he : evs[t]? = some e) :
    (outsOf (Rep.run sourceScope evs sched) t).length = e.reps := by
  rw [(inv_run sourceScope source_scope_thread_private evs sched).cnt t]
  have hle := k_le_reps sourceScope evs sched t e he
  have hlt : t < evs.length := by
    rcases Nat.lt_or_ge t evs.length with h | h
    · exact h
    · rw [List.getElem?_eq_none h] at he; cases he
  have := (List.all_eq_true.mp hfin) t (List.mem_range.mpr hlt)
  simp only [he, decide_eq_true_eq] at this
  omega

open FlexModel.Fac.Denm.Rep in
/-- non-vacuity: two overlapping events (3 and 2 repetitions); thread 1 runs a whole repetition between thread 0's
    fill and thread 0's encode, then both alternate; the run is complete, 3 + 2 hand-overs, each its event's own -/
example :
    let evs : List Event := [⟨4242, 65535, ⟨413870000, 21120000⟩, 3⟩, ⟨4242, 0, ⟨-338680000, -701234567⟩, 2⟩]
    let s := Rep.run sourceScope evs ([0, 0, 0, 1, 1, 1, 1, 1, 1, 0, 0, 0] ++ roundRobin 2 12)
    Rep.finished evs s = true ∧ (outsOf s 0).length = 3 ∧ (outsOf s 1).length = 2 ∧
    s.out.head? = some ⟨1, ⟨4242, 0⟩, ⟨-338680000, -701234567⟩, ⟨-338680000, -701234567⟩⟩ := by
  decide +kernel

open FlexModel.Fac.Denm.Rep in
/-- seeded change C17-m5 as a witness (`Scope.shared`: ONE message object refilled by every repetition of every
    event): event 1's thread refills the object between event 0's fill and event 0's encode - event 0's first DENM goes
    out with event 1's action id, to event 1's position; the same interleaving is harmless with thread-private objects. -/
theorem shared_message_witness :
    let evs : List Event := [⟨4242, 0, ⟨413870000, 21120000⟩, 1⟩, ⟨4242, 1, ⟨-338680000, -701234567⟩, 1⟩]
    let sched := [0, 0, 0, 1, 1, 1, 0, 0, 0, 1, 1, 1]
    (Rep.run .shared evs sched).out.head? = some ⟨0, ⟨4242, 1⟩, ⟨-338680000, -701234567⟩, ⟨-338680000, -701234567⟩⟩ ∧
    (Rep.run .perRepetition evs sched).out.head? = some ⟨0, ⟨4242, 0⟩, ⟨413870000, 21120000⟩, ⟨413870000, 21120000⟩⟩ ∧
    (Rep.run .perEvent evs sched).out.head? = some ⟨0, ⟨4242, 0⟩, ⟨413870000, 21120000⟩, ⟨413870000, 21120000⟩⟩ := by
  decide

/-! ## Round 5: where the request is copied, how a lock around the hand-over is released -/

open FlexModel.Fac.Denm.Req in
/-- **regenerated structural fact** (`harness/gen_denm.py analyse_request`): the private copy of the request's mutable
    `event_position` is taken in `request_denm_sending`, i.e. on the CALLER's thread, in a statement before the one that
    creates / starts the event thread, and the thread is given the copy.  Moving the copy into the event thread
    (seeded change C17-m7: first statement of `trigger_denm_messages`) makes this `decide` fail. -/
theorem request_snapshot_tied : Generated.Denm.snapshotSite = 0 ∧ sourceSite = SnapSite.caller := by decide

open FlexModel.Fac.Denm.Req in
/-- **the event position is the one of the request, whatever the caller does afterwards and however late the event
    thread starts**: for every history after `request_denm_sending` has returned - the application overwriting its
    dictionary any number of times at any point (in particular BEFORE the event thread has executed its first
    statement), the thread starting after any latency, any number of repetitions - every DENM handed over carries the
    position the dictionary held when the request was made. -/
theorem request_position_fixed_at_request (p0 : Pos) (ops : List Op) :
    ∀ p ∈ (Req.run sourceSite p0 ops).out, p = p0 := by
  rw [request_snapshot_tied.2]
  exact (caller_inv p0 ops).2

open FlexModel.Fac.Denm.Req in
/-- non-vacuity: the caller re-uses its dictionary before the thread runs and again between repetitions; three DENMs,
    all at the requested position -/
example :
    (Req.run sourceSite ⟨413851000, 21734000⟩
      [.write ⟨-338688000, -584173000⟩, .first, .rep, .write ⟨1, 2⟩, .rep, .rep]).out =
      [⟨413851000, 21734000⟩, ⟨413851000, 21734000⟩, ⟨413851000, 21734000⟩] := by decide

open FlexModel.Fac.Denm.Req in
/-- seeded change C17-m7 as a witness (copy taken by the first statement of the event thread): a write in the
    thread-start latency window relocates EVERY DENM of the event, the first one included. -/
theorem late_snapshot_witness :
    (Req.run .threadFirst ⟨413851000, 21734000⟩ [.write ⟨-338688000, -584173000⟩, .first, .rep, .rep]).out =
      [⟨-338688000, -584173000⟩, ⟨-338688000, -584173000⟩] := by decide

open FlexModel.Fac.Denm.Req in
/-- … and what still holds with the late copy: histories in which the caller leaves its dictionary alone until the
    thread has run its first statement (`quietStart`) - which is why writes BETWEEN repetitions never showed it. -/
theorem late_snapshot_partial (p0 : Pos) (ops : List Op) (h : quietStart ops = true) :
    ∀ p ∈ (Req.run .threadFirst p0 ops).out, p = p0 := by
  -- leading `rep`s before `first` are no-ops; `first` copies `p0`; from then on `snap_stable`
  suffices hgen : ∀ (ops : List Op) (s : S), quietStart ops = true → s.dict = p0 → s.started = false → s.out = [] →
      ∀ p ∈ (ops.foldl (step .threadFirst) s).out, p = p0 by
    exact hgen ops _ h rfl rfl rfl
  intro ops
  induction ops with
  | nil => intro s _ _ _ ho; simp [ho]
  | cons op rest ih =>
    intro s hq hd hst ho
    simp only [List.foldl_cons]
    cases op with
    | write p => simp [quietStart] at hq
    | rep => exact ih _ (by simpa [quietStart] using hq) (by simpa [step, hst] using hd) (by simp [step, hst]) (by simp [step, hst, ho])
    | first =>
      exact (snap_stable .threadFirst p0 rest _ (by simp [step, hst, hd]) (by intro _; simp [step, hst])
        (by simp [step, hst, ho])).2

open FlexModel.Fac.Denm.Req in
/-- **regenerated structural fact**: no bare `acquire()` / `release()` call anywhere in the transmission management -
    a lock is only ever taken with `with`, so it is released on every exit of the section, exceptions included. -/
theorem lock_discipline_tied : Generated.Denm.bareLockCalls = 0 ∧ sourceLockUse = LockUse.viaWith := by decide

open FlexModel.Fac.Denm.Req in
/-- **a failed hand-over blocks nobody**: any number of events, their repetitions entering `transmit_denm` in ANY global
    order, the coder / the transport raising at ANY of them (the loop survives that: `count_under_faults`): no
    repetition ever blocks, no lock stays held, and exactly the encodable repetitions reach the transport layer, in
    that order.  (On a tree without any lock around the hand-over this is the model of `Rep`; the statement says that
    introducing one via `with` keeps it so.) -/
theorem failed_handover_blocks_nobody (reps : List (Nat × Nat × Fault)) :
    (txRun sourceLockUse reps).blocked = [] ∧ (txRun sourceLockUse reps).held = false ∧
    (txRun sourceLockUse reps).handed = handedSpec reps := by
  rw [lock_discipline_tied.2, txRun_with]
  exact ⟨rfl, rfl, rfl⟩

open FlexModel.Fac.Denm.Req in
/-- seeded change C17-m9 as a witness (bare `acquire()` … `release()` around encode + hand-over): the transport raises
    ONCE, at repetition 2 of event 0 - the next repetition of event 0, a second event and a one-shot warning (event 2)
    all block for ever; with `with` the same history hands over all six. -/
theorem bare_lock_witness :
    let reps : List (Nat × Nat × Fault) :=
      [(0, 0, .ok), (0, 1, .ok), (0, 2, .transport), (0, 3, .ok), (1, 0, .ok), (2, 0, .ok)]
    (txRun .bare reps).handed = [(0, 0), (0, 1), (0, 2)] ∧ (txRun .bare reps).blocked = [(0, 3), (1, 0), (2, 0)] ∧
    (txRun .viaWith reps).handed.length = 6 ∧ (txRun .viaWith reps).blocked = [] := by decide

/-! ## Degenerate intervals (outside the property's range 100…10000 ms): explicit branches -/

/-- `denm_interval = 0`, `time_period > 0`: the real `while` loop never ends — for every amount of fuel the loop is
    still emitting at offset 0; the model flags `nonTerminating`. -/
theorem interval_zero_non_terminating (T : Int) (hT : 0 < T) :
    (triggerOffsets 0 T).2 = Ending.nonTerminating ∧ ∀ fuel, loop fuel 0 T.toNat 0 = List.replicate fuel 0 := by
  constructor
  · have : ¬ T ≤ 0 := by omega
    simp [triggerOffsets, this]
  · intro fuel; exact loop_stuck fuel T.toNat (by omega)

/-- negative interval: one DENM, then `time.sleep` raises ValueError and the thread dies -/
theorem interval_negative (i T : Int) (hi : i < 0) (hT : 0 < T) :
    triggerOffsets i T = ([0], Ending.sleepValueError) := by
  have : ¬ T ≤ 0 := by omega
  simp [triggerOffsets, this, hi]

/-! ## The code before the fixes -/

/-- C17-F1 witness: before the fix every DENM object started at `sequence_number = 0`, so two different events of
    one station carried the same action id. -/
theorem distinct_action_ids_old_witness :
    eventAction (runEventOld (fun t => t) ⟨4242, 0⟩ 0 ⟨1000, 3000, ⟨415000000, 21000000⟩⟩) =
    eventAction (runEventOld (fun t => t) ⟨4242, 0⟩ 500 ⟨1000, 3000, ⟨415100000, 21100000⟩⟩) := by decide

/-- C17-F1 partial: what held already before the fix — identity is stable within an event. -/
theorem same_identity_within_event_old_partial (clk : Nat → Nat) (tm : TM) (start : Nat) (r : Request) :
    ∀ m ∈ runEventOld clk tm start r, m.2.denm.action = ⟨tm.station, 0⟩ ∧ m.2.denm.stationId = tm.station := by
  intro m hm
  simp only [runEventOld, List.mem_map] at hm
  obtain ⟨o, _, rfl⟩ := hm
  simp [mkReq, mkDenm]

/-- C17-F2 witness: with the shared mutable `event_position` of the emergency-vehicle service, a repetition of the
    first event at t = 2000 (second trigger at t = 1500) was sent to the second event's position. -/
theorem aliased_event_position_old_witness :
    aliasedPos [(0, ⟨414536061, 20737073⟩), (1500, ⟨-337000000, -703000000⟩)] 2000 ⟨900000001, 1800000001⟩
      ≠ ⟨414536061, 20737073⟩ := by decide

/-- C17-F2 partial: with a single trigger (no overlap) the old code used the right position. -/
theorem aliased_event_position_old_partial (s t : Nat) (p d : Pos) (h : s ≤ t) : aliasedPos [(s, p)] t d = p := by
  simp [aliasedPos, h]

end Props.C17

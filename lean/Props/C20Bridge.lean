/-
C20 — bridge lemmas: the functions extracted from the Python AST of `/repo` on every run
(`Generated/Extracted.lean`, written by harness/py2lean.py) are equal to the hand-written model the
property theorems are about.  This module is part of the check only when the extraction succeeded
(a rewrite outside the translator's subset is logged as `extract-skipped`, never a violation by itself).
-/
import FlexModel.Geo.LT
import Generated.Extracted

namespace Props.C20Bridge
open FlexModel.Geo Generated.Extracted

/-- `LT.get_value_in_millis` as extracted = `LT.millis` of the model, for every multiplier and 2-bit base -/
theorem get_value_in_millis_eq (m b : Nat) (hb : b < 4) : LT_get_value_in_millis m b = LT.millis ⟨m, b⟩ := by
  have : b = 0 ∨ b = 1 ∨ b = 2 ∨ b = 3 := by omega
  rcases this with rfl | rfl | rfl | rfl <;> simp [LT_get_value_in_millis, LT.millis, LT.unit]

/-- `LT.set_value_in_millis` as extracted = the model's quantiser, for every request: either the variant that
writes requests ≥ 1 000 000 ms as 0 (the code as it is, known finding C20-KF1) or the repaired variant — so a
later repair of that finding does not break this obligation, while any other change of the function does. -/
theorem set_value_in_millis_eq :
    (∀ v, LT_set_value_in_millis v = ((LT.setMillis true v).mult, (LT.setMillis true v).base)) ∨
    (∀ v, LT_set_value_in_millis v = ((LT.setMillis false v).mult, (LT.setMillis false v).base)) := by
  first
  | (left; intro v
     unfold LT_set_value_in_millis LT.setMillis LT.greatest LT.stepQ
     simp only [LT.unit]
     generalize min (v / 50) 63 = a
     generalize min (v / 1000) 63 = b
     generalize min (v / 10000) 63 = c
     generalize min (v / 100000) 63 = d
     by_cases h0 : 1000000 ≤ v
     · simp [h0]
     · simp only [h0, ge_iff_le, gt_iff_lt, and_false, if_false]
       refine Prod.ext ?_ ?_ <;> (repeat' split) <;> simp_all <;> omega)
  | (right; intro v
     unfold LT_set_value_in_millis LT.setMillis LT.greatest LT.stepQ
     simp only [LT.unit, Bool.false_eq_true, false_and, if_false, ge_iff_le, gt_iff_lt]
     generalize min (v / 50) 63 = a
     generalize min (v / 1000) 63 = b
     generalize min (v / 10000) 63 = c
     generalize min (v / 100000) 63 = d
     refine Prod.ext ?_ ?_ <;> (repeat' split) <;> simp_all <;> omega)

end Props.C20Bridge

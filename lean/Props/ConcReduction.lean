/-
Reduction of the instruction-level interleaving model to the atomic-block model of `FlexModel/Conc/Sched.lean`
(the gap "a `with lock:` section is ONE atomic block" of C15 / C16).  Property theorems only; definitions and
proofs: `FlexModel/Conc/Reduction.lean` (+ `Reduction/*.lean`), notes: `design_notes/REDUCTION.md`.

Everything is generic in the state type `σ` and quantifies over ALL program lists (any number of threads, any
programs – nested sections included, no well-bracketedness needed), ALL initial shared states and ALL schedules
`sched : List ThreadId` of the FINE system (disabled choices stutter, as in `Sched`).  The systems start with no
lock held (`mkSys`).

  fine program    inside a section several consecutive `blk` micro-steps (one per bytecode-level access)
  `fuse`          every maximal run of consecutive `blk`s executed while at least one lock is held becomes ONE `blk`
                  (`pipe` = composition in program order); `acq`/`rel` end a run; unlocked blocks stay as they are
  `Discipline`    for threads t ≠ u: every non-final micro-block of a run of t commutes with every block of u whose
                  held-lock set is disjoint from the locks held at the micro-block
  `DisciplineL`   per-lock form: a block of t inside a section holding l commutes with every block of u that is not
                  inside a section holding l (implies `Discipline`)
  `Protected`     syntactic: state `V → α`, framed micro-blocks with read/write sets, every variable is protected
                  by a lock, local to one thread, or never written (implies `Discipline`)
-/
import FlexModel.Conc.Reduction

namespace Props.ConcReduction
open FlexModel.Conc FlexModel.Conc.Reduction

variable {σ : Type}

/-! ## 1. fine vs coarse programs -/

/-- a section of micro-blocks `f1 … fk, g` fuses to the one-block section `sect l (g ∘ fk ∘ … ∘ f1)` of `Sched` -/
theorem fuse_section (l : Lock) (fs : List (σ → σ)) (g : σ → σ) :
    fuse (sectN l (fs ++ [g])) = sect l (pipe (fs ++ [g])) :=
  fuse_sectN l fs g

/-- programs assembled from well-bracketed pieces (as `RouterConc`/`LdmConc` do) are fused piece by piece -/
theorem fuse_pieces (rank : Lock → Nat) (ps : List (List (Instr σ))) (h : ∀ p ∈ ps, WFp rank [] p) :
    fuse ps.flatten = (ps.map fuse).flatten :=
  fuse_flatten rank ps h

/-- unlocked micro-steps are not fused -/
theorem fuse_unlocked_id (p : List (Instr σ)) (h : ∀ i ∈ p, ∃ f, i = .blk f) : fuse p = p :=
  fuse_lockless p h

-- nested sections: three runs, the inner `acq`/`rel` are kept (the shape of `Sched.sect2`)
example (f1 f2 g1 g2 h1 h2 : Nat → Nat) :
    fuse [.acq 1, .blk f1, .blk f2, .acq 2, .blk g1, .blk g2, .rel 2, .blk h1, .blk h2, .rel 1]
      = sect2 1 2 (pipe [f1, f2]) (pipe [g1, g2]) (pipe [h1, h2]) := rfl
example : fuse (Counter.fineProgs 2)[1]! = sect Counter.lk (Counter.incr 1) := rfl
example : (sectN 0 [(· + 1), (· * 2)] ++ sectN 1 [(· + 3)] : List (Instr Nat)) = [sectN 0 [(· + 1), (· * 2)], sectN 1 [(· + 3)]].flatten ∧
    ∀ p ∈ [sectN 0 [(· + 1), (· * 2)], sectN 1 [(· + 3 : Nat → Nat)]], WFp id [] p :=
  ⟨rfl, by intro p hp; simp at hp; rcases hp with rfl | rfl <;> exact WFp_sectN _ _ _⟩

/-! ## 2. the commutation discipline and its syntactic sufficient condition -/

/-- the per-lock form implies the form the reduction theorem uses -/
theorem perLock_discipline (progs : List (List (Instr σ))) (h : DisciplineL progs) : Discipline progs :=
  discipline_of_perLock progs h

/-- protected + framed ⇒ semantic commutation discipline -/
theorem protected_discipline {V α : Type} (prot : V → Guard) (progs : List (List (Instr (V → α))))
    (h : Protected prot progs) : Discipline progs :=
  discipline_of_protected prot progs h

/-- … and, when no sections are nested, also the per-lock form -/
theorem protected_perLock {V α : Type} (prot : V → Guard) (progs : List (List (Instr (V → α))))
    (h : Protected prot progs) (hflat : ∀ t a, blocksAt progs t a → a.1.length ≤ 1) : DisciplineL progs :=
  disciplineL_of_protected_flat prot progs h hflat

/-- the Boolean lock-map check on programs that carry read/write sets establishes protection -/
theorem check_protected {V α : Type} [DecidableEq V] (prot : V → Guard) (aprogs : List (List (AInstr V α)))
    (hc : ∀ t p, aprogs[t]? = some p → lockCheck prot t [] p = true) (hf : ∀ p ∈ aprogs, AllFramed p) :
    Protected prot (aprogs.map eraseProg) :=
  protected_of_check prot aprogs hc hf

example : Protected Counter.prot (Counter.fineProgs 2) := Counter.protected_fine 2
example : DisciplineL (Counter.fineProgs 2) := by
  apply protected_perLock Counter.prot _ (Counter.protected_fine 2)
  intro t a ⟨p, hp, ha⟩
  simp only [Counter.fineProgs, List.getElem?_map, Option.map_eq_some_iff] at hp
  obtain ⟨k, _, rfl⟩ := hp
  simp only [eraseProg, Counter.aLocked, List.map_cons, List.map_nil, AInstr.erase, annot_acq, annot_blk,
    annot_rel, annot_nil, List.mem_cons, List.not_mem_nil, or_false] at ha
  rcases ha with rfl | rfl | rfl <;> simp
example : lockCheck Counter.prot 1 [] (Counter.aLocked 1) = true := by decide

/-! ## 3. the reduction theorem -/

/-- **(b) general form.** Every fine schedule is matched by a coarse schedule (a sub-list of it) such that the
reached states are related by `Sim`: thread by thread the same locks are held and the coarse program is the fused
remaining fine program; different threads never hold the same lock; and the fine shared state is the coarse shared
state with the PENDING micro-blocks (those already executed of the runs in progress) applied on top. -/
theorem reduction_general (progs : List (List (Instr σ))) (hd : Discipline progs) (x : σ) (sched : List ThreadId) :
    ∃ csched pend, csched.Sublist sched ∧
      Sim (blocksAt progs) (run (mkSys x progs) sched) (run (mkSys x (progs.map fuse)) csched) pend :=
  Reduction.reduction_general progs hd x sched

/-- (b), the shared-state part spelled out -/
theorem reduction_general_shared (progs : List (List (Instr σ))) (hd : Discipline progs) (x : σ)
    (sched : List ThreadId) :
    ∃ (csched : List ThreadId) (pend : List (List (σ → σ))),
      (run (mkSys x progs) sched).sh = pipe pend.flatten (run (mkSys x (progs.map fuse)) csched).sh ∧
      (∀ f ∈ pend.flatten, ∃ t H, blocksAt progs t (H, true, f)) ∧
      (Quiescent (run (mkSys x progs) sched) → pend.flatten = []) ∧
      (run (mkSys x (progs.map fuse)) csched).thr.map (·.held) = (run (mkSys x progs) sched).thr.map (·.held) := by
  obtain ⟨csched, pend, _, h⟩ := Reduction.reduction_general progs hd x sched
  exact ⟨csched, pend, h.sh, fun f hf => h.pending_mem f hf, fun hq => h.pending_nil_of hq, h.held_eq⟩

/-- **(a) complete executions.** If the fine run finishes all threads, a coarse run finishes all threads of the
fused system with the SAME shared state. -/
theorem reduction_complete (progs : List (List (Instr σ))) (hd : Discipline progs) (x : σ) (sched : List ThreadId)
    (hfin : finished (run (mkSys x progs) sched) = true) :
    ∃ csched, csched.Sublist sched ∧ finished (run (mkSys x (progs.map fuse)) csched) = true ∧
      (run (mkSys x (progs.map fuse)) csched).sh = (run (mkSys x progs) sched).sh :=
  Reduction.reduction_complete progs hd x sched hfin

/-- **(c1) invariants at quiescent points.** A predicate that holds in every coarse-reachable shared state holds in
every fine-reachable state in which no thread is inside a multi-step run (`Quiescent`: every thread holds no lock
or its next instruction is not a `blk`). -/
theorem reduction_quiescent (progs : List (List (Instr σ))) (hd : Discipline progs) (x : σ) (P : σ → Prop)
    (hP : ∀ csched, P (run (mkSys x (progs.map fuse)) csched).sh) (sched : List ThreadId)
    (hq : Quiescent (run (mkSys x progs) sched)) : P (run (mkSys x progs) sched).sh :=
  Reduction.reduction_quiescent progs hd x P hP sched hq

/-- **(c2) invariants insensitive to runs in progress.** A predicate that holds in every coarse-reachable shared
state and is preserved by every non-final micro-block holds in EVERY fine-reachable state. -/
theorem reduction_invariant (progs : List (List (Instr σ))) (hd : Discipline progs) (x : σ) (P : σ → Prop)
    (hP : ∀ csched, P (run (mkSys x (progs.map fuse)) csched).sh)
    (hins : ∀ t b, blocksAt progs t b → b.2.1 = true → ∀ y, P y → P (b.2.2 y))
    (sched : List ThreadId) : P (run (mkSys x progs) sched).sh :=
  Reduction.reduction_invariant progs hd x P hP hins sched

-- the hypotheses are satisfiable, complete runs exist (also with a thread blocked on the lock: stuttering), and
-- there are reachable states strictly inside a section (pending micro-blocks, not quiescent)
example : Discipline (Counter.fineProgs 2) := Counter.discipline_fine 2
example : finished (run (mkSys (fun _ => 0) (Counter.fineProgs 2)) [0, 0, 1, 1, 0, 1, 0, 0, 1, 1, 1, 1, 1]) = true := by
  decide
example : (run (mkSys (fun _ => 0) (Counter.fineProgs 2)) [0, 0, 0]).sh (Counter.reg 0) = 1
    ∧ ¬ Quiescent (run (mkSys (fun _ => 0) (Counter.fineProgs 2)) [0, 0, 0]) := by
  rw [quiescent_iff]; decide
example : Quiescent (run (mkSys (fun _ => 0) (Counter.fineProgs 2)) [0, 0, 0, 0, 1]) := by
  rw [quiescent_iff]; decide

/-! ## 4. instantiation hook and the worked example -/

/-- **The block model over-approximates the instruction-level model.** From (i) a decomposition of the sections'
blocks into micro-blocks (`fprogs.map fuse = cprogs`, by `fuse_section` / `fuse_pieces`) and (ii) the discipline
(by `protected_discipline` from the lock facts): every property of all block-model states holds at the quiescent
points of every instruction-level run, and complete instruction-level runs end in states of complete block-model
runs. -/
theorem block_model_sound (cprogs fprogs : List (List (Instr σ))) (hdec : fprogs.map fuse = cprogs)
    (hd : Discipline fprogs) (x : σ) (sched : List ThreadId) :
    (∀ P : σ → Prop, (∀ csched, P (run (mkSys x cprogs) csched).sh) →
        Quiescent (run (mkSys x fprogs) sched) → P (run (mkSys x fprogs) sched).sh) ∧
    (finished (run (mkSys x fprogs) sched) = true →
        ∃ csched, finished (run (mkSys x cprogs) csched) = true ∧
          (run (mkSys x cprogs) csched).sh = (run (mkSys x fprogs) sched).sh) :=
  Reduction.block_model_sound cprogs fprogs hdec hd x sched

example (n : Nat) : (Counter.fineProgs n).map fuse = Counter.coarseProgs n := Counter.fuse_fine n

/-- `n` threads run `with lk: c += 1` as load / add / store micro-steps with a thread-local register: under EVERY
schedule that finishes all threads the counter has grown by exactly `n` – no lost update -/
theorem counter_no_lost_update (n : Nat) (x : Nat → Nat) (sched : List ThreadId)
    (hfin : finished (run (mkSys x (Counter.fineProgs n)) sched) = true) :
    (run (mkSys x (Counter.fineProgs n)) sched).sh Counter.ctr = x Counter.ctr + n :=
  Counter.no_lost_update n x sched hfin

/-- … and at every point of every run it is at most `x ctr + n` (instance of (c2)) -/
theorem counter_bounded (n : Nat) (x : Nat → Nat) (sched : List ThreadId) :
    (run (mkSys x (Counter.fineProgs n)) sched).sh Counter.ctr ≤ x Counter.ctr + n :=
  Counter.counter_bounded n x sched

example : (run (mkSys (fun _ => 0) (Counter.fineProgs 2)) [0, 0, 1, 1, 0, 1, 0, 0, 1, 1, 1, 1, 1]).sh Counter.ctr = 2 := by
  decide

/-- negative twin: WITHOUT the lock a concrete schedule of the same micro-steps finishes with one update lost -/
theorem unlocked_lost_update :
    finished (run (mkSys (fun _ => 0) Counter.unlockedProgs) [0, 0, 1, 1, 1, 0]) = true ∧
    (run (mkSys (fun _ => 0) Counter.unlockedProgs) [0, 0, 1, 1, 1, 0]).sh Counter.ctr = 1 :=
  Counter.lost_update

/-- … the discipline cannot be established: no lock map protects the unlocked programs (Boolean check and
semantic form), and nothing is fused -/
theorem unlocked_not_protected :
    (∀ p : Nat → Guard, ¬ (lockCheck p 0 [] (Counter.aUnlocked 0) = true ∧ lockCheck p 1 [] (Counter.aUnlocked 1) = true)) ∧
    (¬ ∃ p : Nat → Guard, Protected p Counter.unlockedProgs) ∧
    Counter.unlockedProgs.map fuse = Counter.unlockedProgs :=
  ⟨Counter.check_unlocked_fails, Counter.unlocked_not_protected, Counter.fuse_unlocked⟩

/-- … and the atomic-increment block model (which always counts 2) does NOT over-approximate the unlocked
instruction-level programs -/
theorem unlocked_block_model_unsound :
    ¬ ∀ sched, finished (run (mkSys (fun _ => 0) Counter.unlockedProgs) sched) = true →
        ∃ csched, finished (run (mkSys (fun _ => 0) Counter.atomicProgs) csched) = true ∧
          (run (mkSys (fun _ => 0) Counter.atomicProgs) csched).sh
            = (run (mkSys (fun _ => 0) Counter.unlockedProgs) sched).sh :=
  Counter.atomic_model_unsound_without_lock

example (csched : List ThreadId) (h : finished (run (mkSys (fun _ => 0) Counter.atomicProgs) csched) = true) :
    (run (mkSys (fun _ => 0) Counter.atomicProgs) csched).sh Counter.ctr = 2 := Counter.atomic_counts csched h

end Props.ConcReduction

/-
C19 — DCC algorithms respect TS 102 687 state, rate and duty-cycle limits.
Property theorems only.  Models: FlexModel/Dcc/{Reactive,Adaptive,Gate}.lean; Spec: FlexModel/Dcc/Spec.lean
(transcribed from the standard); helper lemmas: FlexModel/Dcc/{ReactiveLemmas,Lemmas}.lean.
-/
import FlexModel.Dcc.ReactiveLemmas
import FlexModel.Dcc.Lemmas

namespace Props.C19
open FlexModel.Dcc FlexModel.Dcc.Spec

/-! ## Reactive approach: generated facts vs Annex A -/

/-- `_STATE_ORDER` is the enum order, so list index = enum value (the model identifies both) -/
theorem generated_state_order :
    Generated.Dcc.stateOrder = [0, 1, 2, 3, 4] ∧ Generated.Dcc.stateValues = [0, 1, 2, 3, 4] := by decide

/-- my transcription of Annex A is self-consistent: T_off is the inverse of the packet rate in every row -/
theorem spec_toff_is_inverse_rate (a2 : Bool) :
    List.zipWith (· * ·) (annex a2).rates (annex a2).toffs = [1000000, 1000000, 1000000, 1000000, 1000000] := by
  cases a2 <;> decide

/-- generated `_TABLE_A1` / `_TABLE_A2` = Tables A.1 / A.2: per-state rate and T_off, and the band lookup agrees for
every CBR in [0,1] (a changed table value re-opens this) -/
theorem generated_tables_are_annexA (a2 : Bool) :
    rowsMatchB (codeTable a2) (annex a2) = true ∧
    ∀ c : Int, 0 ≤ c → c ≤ 10000 → target (codeTable a2) c = band (annex a2) c :=
  ⟨rm_code a2, target_code a2⟩

/-- the Annex A bands partition [0,1]: every CBR lies in the band of exactly one state, namely `band` -/
theorem bands_partition (a2 : Bool) (c : Int) (h0 : 0 ≤ c) (h1 : c ≤ 10000) :
    inBand (annex a2) (band (annex a2) c) c ∧ ∀ s, inBand (annex a2) s c → s = band (annex a2) c :=
  ⟨(inBand_iff a2 c h0 h1 _).2 rfl, fun s hs => (inBand_iff a2 c h0 h1 s).1 hs⟩

example : inBand tableA2 3 6499 ∧ inBand tableA2 4 6500 ∧ inBand tableA1 3 5999 ∧ inBand tableA1 4 6000 := by
  simp [inBand, lo, hi, tableA1, tableA2]

/-! ## Reactive approach: behaviour for every CBR sequence -/

/-- at most one state step per evaluation — every table, every state, every input (also rejected ones) -/
theorem one_step (tbl : Table) (s : Nat) (c : Int) :
    (update tbl s c).1 ≤ s + 1 ∧ s ≤ (update tbl s c).1 + 1 := by
  rw [update_fst]; split
  · omega
  · exact stepIdx_adj s _

/-- … hence along every history (list of visited states, any length) -/
theorem one_step_run (tbl : Table) : ∀ (cs : List Int) (s : Nat), statesAdj (s :: states tbl s cs) = true := by
  intro cs
  induction cs with
  | nil => intro s; simp [states, statesAdj]
  | cons c cs ih =>
    intro s
    have h := one_step tbl s c
    simp only [states, statesAdj, adjacent, Bool.and_eq_true, decide_eq_true_eq]
    exact ⟨⟨h.1, h.2⟩, ih _⟩

/-- the state never leaves {0..4} (code tables) -/
theorem state_bounded (a2 : Bool) (s : Nat) (c : Int) (hs : s ≤ 4) : (update (codeTable a2) s c).1 ≤ 4 := by
  rw [update_fst]; split
  · exact hs
  · exact stepIdx_le4 s _ hs (target_le _ (rowsMatch_states (rm_code a2)) c)

/-- CBR outside [0,1] is rejected and leaves the state unchanged; inside it is accepted -/
theorem rejects_outside_unit (a2 : Bool) (s : Nat) (c : Int) (hs : s ≤ 4) :
    ((c < 0 ∨ 10000 < c) → update (codeTable a2) s c = (s, .valueError)) ∧
    (¬ (c < 0 ∨ 10000 < c) → ∃ st r t, (update (codeTable a2) s c).2 = .ok st r t) := by
  refine ⟨update_invalid _ s c, fun h => ?_⟩
  have hm := rm_code a2
  obtain ⟨r, t, hu, _, _⟩ := update_valid hm s hs c h
  exact ⟨_, r, t, by rw [hu]⟩

/-- the output of an accepted evaluation is the new state together with that state's Annex A rate and T_off -/
theorem output_is_row (a2 : Bool) (s : Nat) (c : Int) (hs : s ≤ 4) (h : ¬ (c < 0 ∨ 10000 < c)) :
    ∃ r t, (update (codeTable a2) s c).2 = .ok (update (codeTable a2) s c).1 r t ∧
      (annex a2).rates[(update (codeTable a2) s c).1]? = some r ∧
      (annex a2).toffs[(update (codeTable a2) s c).1]? = some t := by
  have hm := rm_code a2
  obtain ⟨r, t, hu, h1, h2⟩ := update_valid hm s hs c h
  exact ⟨r, t, by rw [hu], by rw [hu]; exact h1, by rw [hu]; exact h2⟩

/-- constant input: after four (or more) evaluations the state is the Annex A band of the input, from every
start state, for both tables (every n ≥ 4, so it also stays there) -/
theorem converges_4 (a2 : Bool) (s : Nat) (c : Int) (n : Nat) (hs : s ≤ 4) (h0 : 0 ≤ c) (h1 : c ≤ 10000)
    (hn : 4 ≤ n) : run (codeTable a2) s (List.replicate n c) = band (annex a2) c := by
  have ht := target_code a2 c h0 h1
  have hd := run_replicate_dist (codeTable a2) c (by omega) n s
  have h4 := dist_le4 s (band (annex a2) c) hs (band_le4 a2 c)
  rw [ht] at hd
  exact (dist_zero _ _).1 (by omega)

/-- four evaluations are needed in general (non-vacuity / tightness): from Relaxed, CBR 70 % takes exactly four -/
example : run codeA2 0 [7000, 7000, 7000] = 3 ∧ run codeA2 0 [7000, 7000, 7000, 7000] = 4 := by decide

/-- the whole reactive clause of the property, as the Spec trace checker, for every history (any inputs, valid or
not, any length) from every state, for both tables as generated from the source -/
theorem reactive_holds (a2 : Bool) (s0 : Nat) (cs : List Int) (hs : s0 ≤ 4) :
    reactiveHolds (annex a2) s0 (trace (codeTable a2) s0 cs) = true := by
  have hm := rm_code a2
  simp only [reactiveHolds, Bool.and_eq_true]
  exact ⟨⟨adj_trace hm cs s0 hs, rows_trace hm cs s0 hs⟩,
    conv_trace hm (fun _ => True) (fun c h0 h1 _ => target_code a2 c h0 h1) (band_le4 a2) cs s0 none 0 hs
      (fun _ _ => trivial) (fun _ h => by cases h)⟩

/-- non-vacuity: a concrete history with rejected inputs in between passes the checker, and the checker can fail -/
example : trace codeA2 0 [3500, -1, 3500, 10001, 9999] =
    [⟨3500, 1, 10000, 100⟩, ⟨3500, 1, 10000, 100⟩, ⟨9999, 2, 5000, 200⟩] := by decide
example : reactiveHolds tableA2 0 [⟨7000, 2, 5000, 200⟩] = false := by decide


/-! ## Adaptive approach (clause 5.4) -/

/-- `DccAdaptiveParameters()` defaults are Table 3 -/
theorem generated_defaults_are_table3 :
    [Generated.Dcc.dAlpha, Generated.Dcc.dBeta, Generated.Dcc.dCbrTarget, Generated.Dcc.dDeltaMax,
     Generated.Dcc.dDeltaMin, Generated.Dcc.dDeltaUpMax, Generated.Dcc.dDeltaDownMax] = table3 := by
  simp only [Generated.Dcc.dAlpha, Generated.Dcc.dBeta, Generated.Dcc.dCbrTarget, Generated.Dcc.dDeltaMax,
    Generated.Dcc.dDeltaMin, Generated.Dcc.dDeltaUpMax, Generated.Dcc.dDeltaDownMax, table3]
  norm_num

/-- every accepted call computes (CBR_ITS-S, δ) exactly as equations (1)–(6) prescribe — all parameter sets, all
states, all inputs (global CBR pair replaces the local one when both are present) -/
theorem adaptive_update_eq_spec (p : Params) (s : AState) (l lp : Rat) (g gp : Option Rat)
    (hl : 0 ≤ l ∧ l ≤ 1) (hlp : 0 ≤ lp ∧ lp ≤ 1) :
    aUpdate p s l lp g gp = .ok
      ⟨(limeric p.alpha p.beta p.cbrTarget p.deltaMax p.deltaMin p.deltaUpMax p.deltaDownMax s.cbrItsS s.delta
          (effective l lp g gp).1 (effective l lp g gp).2).1,
       (limeric p.alpha p.beta p.cbrTarget p.deltaMax p.deltaMin p.deltaUpMax p.deltaDownMax s.cbrItsS s.delta
          (effective l lp g gp).1 (effective l lp g gp).2).2⟩ :=
  aUpdate_ok p s l lp g gp ((outsideUnit_false_iff l).2 hl) ((outsideUnit_false_iff lp).2 hlp)

/-- local CBR values outside [0,1] are rejected (exactly those), and a rejected call leaves the state unchanged -/
theorem rejects_local_outside_unit (p : Params) (s : AState) (l lp : Rat) (g gp : Option Rat) :
    ((l < 0 ∨ 1 < l ∨ lp < 0 ∨ 1 < lp) ↔ ∃ e, aUpdate p s l lp g gp = .error e) ∧
    ((l < 0 ∨ 1 < l ∨ lp < 0 ∨ 1 < lp) → aStep p s ⟨l, lp, g, gp⟩ = s) := by
  have hiff : (l < 0 ∨ 1 < l ∨ lp < 0 ∨ 1 < lp) ↔ ∃ e, aUpdate p s l lp g gp = .error e := by
    constructor
    · intro h
      apply aUpdate_err
      rcases h with h | h | h | h
      · exact Or.inl ((outsideUnit_iff l).2 (Or.inl h))
      · exact Or.inl ((outsideUnit_iff l).2 (Or.inr h))
      · exact Or.inr ((outsideUnit_iff lp).2 (Or.inl h))
      · exact Or.inr ((outsideUnit_iff lp).2 (Or.inr h))
    · rintro ⟨e, he⟩
      by_contra hn
      simp only [not_or, not_lt] at hn
      rw [aUpdate_ok p s l lp g gp ((outsideUnit_false_iff l).2 ⟨hn.1, hn.2.1⟩)
        ((outsideUnit_false_iff lp).2 ⟨hn.2.2.1, hn.2.2.2⟩)] at he
      cases he
  refine ⟨hiff, fun h => ?_⟩
  obtain ⟨e, he⟩ := hiff.1 h
  simp only [aStep, he]

/-- δ returned by any accepted call lies in [δ_min, δ_max] whenever δ_min ≤ δ_max — all inputs, all states -/
theorem delta_in_bounds (p : Params) (s s' : AState) (l lp : Rat) (g gp : Option Rat)
    (h : p.deltaMin ≤ p.deltaMax) (hu : aUpdate p s l lp g gp = .ok s') :
    p.deltaMin ≤ s'.delta ∧ s'.delta ≤ p.deltaMax := by
  rcases aUpdate_cases p s l lp g gp with e | ⟨e, he⟩
  · rw [e] at hu
    cases hu
    exact specNext_bounds p s l lp g gp h
  · rw [he] at hu; cases hu

/-- … hence every value returned along every history (any length, rejected calls included) from any state -/
theorem delta_in_bounds_run (p : Params) (h : p.deltaMin ≤ p.deltaMax) : ∀ (is : List AIn) (s : AState),
    ∀ d ∈ aReturns p s is, p.deltaMin ≤ d ∧ d ≤ p.deltaMax := by
  intro is
  induction is with
  | nil => intro s d hd; simp [aReturns] at hd
  | cons i is ih =>
    intro s d hd
    simp only [aReturns] at hd
    split at hd
    · rename_i s' hs'
      rcases List.mem_cons.1 hd with rfl | hd
      · exact delta_in_bounds p s s' i.l i.lp i.g i.gp h hs'
      · exact ih s' d hd
    · exact ih s d hd

/-- and the stored δ is in bounds at all times, starting from `__post_init__` -/
theorem delta_state_in_bounds (p : Params) (h : p.deltaMin ≤ p.deltaMax) (is : List AIn) :
    p.deltaMin ≤ (is.foldl (aStep p) (AState.init p)).delta ∧ (is.foldl (aStep p) (AState.init p)).delta ≤ p.deltaMax := by
  have gen : ∀ (is : List AIn) (s : AState), (p.deltaMin ≤ s.delta ∧ s.delta ≤ p.deltaMax) →
      p.deltaMin ≤ (is.foldl (aStep p) s).delta ∧ (is.foldl (aStep p) s).delta ≤ p.deltaMax := by
    intro is
    induction is with
    | nil => intro s hs; exact hs
    | cons i is ih =>
      intro s hs
      refine ih _ ?_
      unfold aStep
      split
      · rename_i s' hs'
        exact delta_in_bounds p s s' i.l i.lp i.g i.gp h hs'
      · exact hs
  exact gen is _ ⟨le_refl _, h⟩

/-- non-vacuity: one default-parameter step, computed (δ rises from δ_min by β·(target − 0.25) clamped …) -/
example : aUpdate ⟨2/125, 3/2500, 17/25, 3/100, 3/5000, 1/2000, -1/4000⟩ ⟨0, 3/5000⟩ (1/2) (1/2) none none
    = .ok ⟨1/4, 1363/1250000⟩ := by decide +kernel
/-- the hypothesis δ_min ≤ δ_max is needed: with δ_min > δ_max the result exceeds δ_max -/
example : aUpdate ⟨0, 0, 0, 1, 2, 0, 0⟩ ⟨0, 0⟩ 0 0 none none = .ok ⟨0, 2⟩ := by decide +kernel

/-! ## Gate keeper (Annex B) -/

/-- obligations on the generated class constants: MIN is the double of 25 ms (not below it), MAX is 1 s,
the tolerance ε is non-negative and at most 1 µs -/
theorem gate_constants_ok :
    (1 : Rat) / 40 ≤ codeCfg.minI ∧ codeCfg.minI ≤ 1 / 40 + 1 / 1000000000000 ∧ codeCfg.maxI = 1 ∧
    0 ≤ codeCfg.eps ∧ codeCfg.eps ≤ 1 / 1000000 := by
  simp only [codeCfg, Generated.Dcc.gateMin, Generated.Dcc.gateMax, Generated.Dcc.gateEps]
  norm_num

theorem codeCfg_min_le_max : codeCfg.minI ≤ codeCfg.maxI := by
  have := gate_constants_ok; linarith [this.1, this.2.1, this.2.2.1]

/-- the gate is open iff nothing is scheduled or `t ≥ t_go − ε`: open for sure from `t_go` on, closed for sure
before `t_go − ε` -/
theorem open_iff (c : GCfg) (s : GState) (t : Rat) :
    isOpen c s t = true ↔ (s.tgo = none ∨ ∃ b, s.tgo = some b ∧ b - c.eps ≤ t) := by
  cases h : s.tgo with
  | none => simp [isOpen_none c s t h]
  | some b => simp [isOpen_some c s t b h]

/-- an admitted packet schedules `t_go` exactly by equation B.1 (and records `t_pg = t`) -/
theorem admit_eq_B1 (c : GCfg) (s : GState) (t ton : Rat) (h : (admitPkt c s t ton).2 = .admitted) :
    (admitPkt c s t ton).1 = { s with tpg := some t, tgo := some (b1 c.minI c.maxI t ton s.delta) } ∧
    isOpen c s t = true ∧ 0 < ton := by
  rcases admit_cases c s t ton with ⟨_, e⟩ | ⟨_, _, e⟩ | ⟨_, _, _, e⟩ | ⟨h1, h2, _, e⟩
  · rw [e] at h; cases h
  · rw [e] at h; cases h
  · rw [e] at h; cases h
  · rw [e]; exact ⟨rfl, h2, h1⟩

/-- a packet is admitted iff `t_on > 0`, the gate is open (and δ ≠ 0) -/
theorem admit_iff (c : GCfg) (s : GState) (t ton : Rat) (hd : s.delta ≠ 0) :
    (admitPkt c s t ton).2 = .admitted ↔ (0 < ton ∧ isOpen c s t = true) := by
  rcases admit_cases c s t ton with ⟨h1, e⟩ | ⟨_, h2, e⟩ | ⟨_, _, h0, _⟩ | ⟨h1, h2, _, e⟩
  · rw [e]; constructor
    · intro h; cases h
    · intro h; linarith [h.1]
  · rw [e]; constructor
    · intro h; cases h
    · intro h; rw [h2] at h; cases h.2
  · exact absurd h0 hd
  · rw [e]; exact ⟨fun _ => ⟨h1, h2⟩, fun _ => rfl⟩

/-- a δ update while the gate is closed reschedules `t_go` exactly by equation B.2; otherwise only δ changes -/
theorem update_eq_B2 (c : GCfg) (s : GState) (t d : Rat) (hd : 0 < d) :
    (∀ a b, s.tpg = some a → s.tgo = some b → isOpen c s t = false →
      (updDelta c s t d).1 = { s with delta := d, tgo := some (b2 c.minI c.maxI a b s.delta d) }) ∧
    ((s.tpg = none ∨ s.tgo = none ∨ isOpen c s t = true) → (updDelta c s t d).1 = { s with delta := d }) := by
  rcases upd_cases c s t d with ⟨h, _⟩ | ⟨_, a, b, ha, hb, ho, e⟩ | ⟨_, hh, e⟩
  · linarith
  · refine ⟨fun a' b' ha' hb' _ => ?_, fun h => ?_⟩
    · rw [ha] at ha'; rw [hb] at hb'; cases ha'; cases hb'
      rw [e]; rfl
    · rcases h with h | h | h
      · rw [ha] at h; cases h
      · rw [hb] at h; cases h
      · rw [ho] at h; cases h
  · refine ⟨fun a b ha hb ho => ?_, fun _ => by rw [e]⟩
    rcases hh with h | h | h
    · rw [ha] at h; cases h
    · rw [hb] at h; cases h
    · rw [ho] at h; cases h

/-- non-positive `t_on` / `delta_new` are rejected without touching the state -/
theorem gate_rejects_nonpositive (c : GCfg) (s : GState) (t x : Rat) (h : x ≤ 0) :
    admitPkt c s t x = (s, .valueError) ∧ updDelta c s t x = (s, .valueError) := by
  constructor
  · rcases admit_cases c s t x with ⟨_, e⟩ | ⟨h1, _⟩ | ⟨h1, _⟩ | ⟨h1, _⟩
    · exact e
    all_goals linarith
  · rcases upd_cases c s t x with ⟨_, e⟩ | ⟨h1, _⟩ | ⟨h1, _⟩
    · exact e
    all_goals linarith

/-- invariant over every history of admissions, δ updates and queries (any times, any order, any length):
the closed interval `t_go − t_pg` stays within [MIN, MAX] -/
theorem interval_bounds (c : GCfg) (hc : c.minI ≤ c.maxI) (d0 : Rat) (hd : d0 ≠ 0) (ops : List GOp) (a b : Rat)
    (ha : (gRun c (GState.init d0) ops).tpg = some a) (hb : (gRun c (GState.init d0) ops).tgo = some b) :
    c.minI ≤ b - a ∧ b - a ≤ c.maxI := by
  have h := ginv_run c hc ops _ (ginv_init c d0 hd)
  rcases h.2 with ⟨hp, _⟩ | ⟨a', b', hp, hg, h1, h2⟩
  · rw [ha] at hp; cases hp
  · rw [ha] at hp; rw [hb] at hg; cases hp; cases hg
    constructor <;> linarith

/-- consecutive admissions are at least MIN − ε apart, for every history -/
theorem min_spacing (c : GCfg) (hc : c.minI ≤ c.maxI) (d0 : Rat) (hd : d0 ≠ 0) (ops : List GOp) :
    spaced (c.minI - c.eps) none (admissions c (GState.init d0) ops) = true :=
  spaced_run c hc ops _ (ginv_init c d0 hd)

/-- … for the code's constants: never two admissions less than 25 ms − 1 µs apart (ε ≤ 1 µs discharged on the
generated constant) -/
theorem min_spacing_code (d0 : Rat) (hd : d0 ≠ 0) (ops : List GOp) :
    spaced (gMin - 1 / 1000000) none (admissions codeCfg (GState.init d0) ops) = true := by
  refine spaced_mono _ _ ?_ _ _ (min_spacing codeCfg codeCfg_min_le_max d0 hd ops)
  have := gate_constants_ok
  simp only [gMin]
  linarith [this.1, this.2.2.2.2]

/-- after an admission at `a` the gate is open again at every `t ≥ a + MAX`, whatever δ updates happened since -/
theorem never_closed_longer_than_max (c : GCfg) (hc : c.minI ≤ c.maxI) (he : 0 ≤ c.eps) (d0 : Rat) (hd : d0 ≠ 0)
    (ops : List GOp) (a t : Rat) (ha : (gRun c (GState.init d0) ops).tpg = some a) (ht : a + c.maxI ≤ t) :
    isOpen c (gRun c (GState.init d0) ops) t = true := by
  have h := ginv_run c hc ops _ (ginv_init c d0 hd)
  rcases h.2 with ⟨hp, _⟩ | ⟨a', b', hp, hg, _, h2⟩
  · rw [ha] at hp; cases hp
  · rw [ha] at hp; cases hp
    exact (isOpen_some c _ t b' hg).2 (by linarith)

/-- … for the code: never closed longer than 1 s after the last admission (`t_pg` is the last admission time) -/
theorem never_closed_longer_than_1s (d0 : Rat) (hd : d0 ≠ 0) (ops : List GOp) (a t : Rat)
    (ha : (admissions codeCfg (GState.init d0) ops).foldl (fun _ x => some x) none = some a) (ht : a + gMax ≤ t) :
    isOpen codeCfg (gRun codeCfg (GState.init d0) ops) t = true := by
  have hl := tpg_last codeCfg codeCfg_min_le_max ops _ (ginv_init codeCfg d0 hd)
  have hk := gate_constants_ok
  refine never_closed_longer_than_max codeCfg codeCfg_min_le_max hk.2.2.2.1 d0 hd ops a t (by rw [hl]; exact ha) ?_
  rw [hk.2.2.1]; simpa [gMax] using ht

/-- at most one packet per opening: an admission closes the gate — it stays closed at every time before
`t + MIN − ε`, in particular at `t` itself, so a second packet presented then is rejected -/
theorem one_per_opening (c : GCfg) (hc : c.minI ≤ c.maxI) (s : GState) (t ton : Rat)
    (h : (admitPkt c s t ton).2 = .admitted) (t' ton' : Rat) (ht' : t' < t + c.minI - c.eps) (hton : 0 < ton') :
    isOpen c (admitPkt c s t ton).1 t' = false ∧ (admitPkt c (admitPkt c s t ton).1 t' ton').2 = .rejected := by
  obtain ⟨e, _, _⟩ := admit_eq_B1 c s t ton h
  have hb := clampI_bounds c (ton / s.delta) hc
  have hclosed : isOpen c (admitPkt c s t ton).1 t' = false := by
    rw [e]
    cases hh : isOpen c { s with tpg := some t, tgo := some (b1 c.minI c.maxI t ton s.delta) } t' with
    | false => rfl
    | true =>
      have := (isOpen_some c _ t' _ rfl).1 hh
      simp only [b1] at this
      have h1 : c.minI ≤ min (max (ton / s.delta) c.minI) c.maxI := hb.1
      linarith
  refine ⟨hclosed, ?_⟩
  rcases admit_cases c (admitPkt c s t ton).1 t' ton' with ⟨h1, _⟩ | ⟨_, _, e2⟩ | ⟨_, h2, _⟩ | ⟨_, h2, _⟩
  · linarith
  · rw [e2]
  · rw [hclosed] at h2; cases h2
  · rw [hclosed] at h2; cases h2

/-- for the code's constants the gate is closed at the admission instant itself (ε < 25 ms) -/
theorem one_per_opening_code (s : GState) (t ton ton' : Rat) (h : (admitPkt codeCfg s t ton).2 = .admitted)
    (hton : 0 < ton') : (admitPkt codeCfg (admitPkt codeCfg s t ton).1 t ton').2 = .rejected := by
  have hk := gate_constants_ok
  exact (one_per_opening codeCfg codeCfg_min_le_max s t ton h t ton' (by linarith [hk.1, hk.2.2.2.2]) hton).2

/-- non-vacuity: the docstring scenario (δ = 0.01, T_on = 1 ms → closed for 100 ms), with exact constants -/
example : admissions ⟨1/40, 1, 0⟩ (GState.init (1/100))
    [.admitPkt 0 (1/1000), .admitPkt 0 (1/1000), .admitPkt (99/1000) (1/1000), .admitPkt (1/10) (1/1000)] = [0, 1/10] := by
  decide +kernel
example : (gRun ⟨1/40, 1, 0⟩ (GState.init (1/100)) [.admitPkt 0 (1/1000), .upd (1/100) (1/50)]).tgo = some (1/20) := by
  decide +kernel

end Props.C19

/-
C19 — DCC algorithms respect TS 102 687 state, rate and duty-cycle limits.
Property theorems only.  Models: FlexModel/Dcc/{Reactive,Adaptive,Gate}.lean; Spec: FlexModel/Dcc/Spec.lean
(transcribed from the standard, relations `Clause54`, `B1`, `B2`, `OpensAt` + Annex A); helper lemmas:
FlexModel/Dcc/{ReactiveLemmas,Lemmas}.lean.

Two clauses of the property are violated by the repository as it is; both are pinned by unit tests and recorded as
known findings, with dual-variant theorems (full strength for the repaired variant, `_partial` + `_witness` for the code
as it is; the generated facts admit exactly the two variants, so a repair raises no alarm and any other change does):
  C19-KF1  `is_open` subtracts `_T_EPSILON` = 1 ns from `t_go`: the gate opens up to 1 ns before the time of B.1/B.2 and
           two admissions can be 25 ms − 1 ns apart            (`opens_*`, `min_spacing_*`)
  C19-KF2  `_TABLE_A1` puts the Active 3 / Restrictive edge at 60 % where Table A.1 has 65 %: constant CBR in
           [60 %, 65 %) with T_on > 500 µs converges to Restrictive, not to the band's state  (`converges_4_*`, `reactive_holds_*`)
-/
import FlexModel.Dcc.ReactiveLemmas
import FlexModel.Dcc.Lemmas

namespace Props.C19
open FlexModel.Dcc FlexModel.Dcc.Spec

/-! ## Reactive approach: generated facts vs Annex A -/

/-- `_STATE_ORDER` is the enum order, so list index = enum value (the model identifies both) -/
theorem generated_state_order :
    Generated.Dcc.stateOrder = [0, 1, 2, 3, 4] ∧ Generated.Dcc.stateValues = [0, 1, 2, 3, 4] := by decide

/-- generated `_TABLE_A1` / `_TABLE_A2`: every state's packet rate and T_off are those of Tables A.1 / A.2 -/
theorem generated_rows_are_annexA (a2 : Bool) : rowsMatchB (codeTable a2) (annex a2) = true := rm_code a2

/-- generated `_TABLE_A2` = Table A.2: the band lookup agrees for every CBR in [0,1] -/
theorem generated_tableA2_is_annexA2 (c : Int) (h0 : 0 ≤ c) (h1 : c ≤ 10000) :
    target (codeTable true) c = band (annex true) c := target_code true c h0 h1 (Or.inl rfl)

/-- generated `_TABLE_A1` is one of exactly two tables: Table A.1 (repaired) or the known variant C19-KF2 -/
theorem generated_tableA1_variant : codeTable false = stdA1 ∨ codeTable false = knownA1 := codeA1_variant

/-- the repaired Table A.1 looks every CBR in [0,1] up as Annex A does (full strength) -/
theorem tableA1_lookup_repaired (c : Int) (h0 : 0 ≤ c) (h1 : c ≤ 10000) : target stdA1 c = band tableA1 c :=
  target_stdA1 c h0 h1

/-- the code's tables as they are: the lookup is the Annex A band for every CBR in [0,1], except (Table A.1 only, and
only in the known variant) CBR in [60 %, 65 %) -/
theorem generated_tables_are_annexA_partial (a2 : Bool) (c : Int) (h0 : 0 ≤ c) (h1 : c ≤ 10000) (hg : lookupOK a2 c) :
    target (codeTable a2) c = band (annex a2) c := target_code a2 c h0 h1 hg

/-- C19-KF2 witness: in the known variant 62 % is looked up as Restrictive although it lies in the band of Active 3 -/
theorem tableA1_lookup_witness : target knownA1 6200 = 4 ∧ band tableA1 6200 = 3 ∧ inBand tableA1 3 6200 := by
  refine ⟨by decide, by decide, ?_⟩
  simp [inBand, lo, hi, tableA1]

/-- `DccReactive.__init__` selects Table A.2 exactly for `t_on_max_us ≤ 500` (Annex A: Table A.2 is for T_on ≤ 500 µs) -/
theorem table_selection (v : Int) : codeTable (useA2 v) = if v ≤ 500 then codeA2 else codeA1 := by
  unfold codeTable useA2
  by_cases h : v ≤ 500 <;> simp [h]

example : inBand tableA2 3 6499 ∧ inBand tableA2 4 6500 ∧ inBand tableA1 3 6499 ∧ inBand tableA1 4 6500 := by
  simp [inBand, lo, hi, tableA1, tableA2]

/-! ## Reactive approach: behaviour for every CBR sequence -/

/-- at most one state step per evaluation — every table, every state, every input (also rejected ones) -/
theorem one_step (tbl : Table) (s : Nat) (c : Int) :
    (update tbl s c).1 ≤ s + 1 ∧ s ≤ (update tbl s c).1 + 1 := by
  rw [update_fst]; split
  · omega
  · exact stepIdx_adj s _

/-- … hence along every history (list of visited states, any length) -/
theorem one_step_run (tbl : Table) : ∀ (cs : List Int) (s : Nat), statesAdj (s :: states tbl s cs) = true := by
  intro cs
  induction cs with
  | nil => intro s; simp [states, statesAdj]
  | cons c cs ih =>
    intro s
    have h := one_step tbl s c
    simp only [states, statesAdj, adjacent, Bool.and_eq_true, decide_eq_true_eq]
    exact ⟨⟨h.1, h.2⟩, ih _⟩

/-- the state never leaves {0..4} (code tables) -/
theorem state_bounded (a2 : Bool) (s : Nat) (c : Int) (hs : s ≤ 4) : (update (codeTable a2) s c).1 ≤ 4 := by
  rw [update_fst]; split
  · exact hs
  · exact stepIdx_le4 s _ hs (target_le _ (rowsMatch_states (rm_code a2)) c)

example : (update (codeTable false) 4 10000).1 = 4 ∧ (update (codeTable true) 0 0).1 = 0 := by decide

/-- CBR outside [0,1] is rejected and leaves the state unchanged; inside it is accepted -/
theorem rejects_outside_unit (a2 : Bool) (s : Nat) (c : Int) (hs : s ≤ 4) :
    ((c < 0 ∨ 10000 < c) → update (codeTable a2) s c = (s, .valueError)) ∧
    (¬ (c < 0 ∨ 10000 < c) → ∃ st r t, (update (codeTable a2) s c).2 = .ok st r t) := by
  refine ⟨update_invalid _ s c, fun h => ?_⟩
  have hm := rm_code a2
  obtain ⟨r, t, hu, _, _⟩ := update_valid hm s hs c h
  exact ⟨_, r, t, by rw [hu]⟩

/-- the output of an accepted evaluation is the new state together with that state's Annex A rate and T_off -/
theorem output_is_row (a2 : Bool) (s : Nat) (c : Int) (hs : s ≤ 4) (h : ¬ (c < 0 ∨ 10000 < c)) :
    ∃ r t, (update (codeTable a2) s c).2 = .ok (update (codeTable a2) s c).1 r t ∧
      (annex a2).rates[(update (codeTable a2) s c).1]? = some r ∧
      (annex a2).toffs[(update (codeTable a2) s c).1]? = some t := by
  have hm := rm_code a2
  obtain ⟨r, t, hu, h1, h2⟩ := update_valid hm s hs c h
  exact ⟨r, t, by rw [hu], by rw [hu]; exact h1, by rw [hu]; exact h2⟩

/-- constant input, any table whose lookup of that input is the Annex A band: after four (or more) evaluations the
state is that band, from every start state (every n ≥ 4, so it also stays there) -/
theorem converges_4_of_lookup (tbl : Table) (a2 : Bool) (s : Nat) (c : Int) (n : Nat) (hs : s ≤ 4) (h0 : 0 ≤ c)
    (h1 : c ≤ 10000) (hn : 4 ≤ n) (ht : target tbl c = band (annex a2) c) :
    run tbl s (List.replicate n c) = band (annex a2) c := by
  have hd := run_replicate_dist tbl c (by omega) n s
  have h4 := dist_le4 s (band (annex a2) c) hs (band_le4 a2 c)
  rw [ht] at hd
  exact (dist_zero _ _).1 (by omega)

/-- full strength for Table A.2 as generated: every constant CBR in [0,1], every start state -/
theorem converges_4_A2 (s : Nat) (c : Int) (n : Nat) (hs : s ≤ 4) (h0 : 0 ≤ c) (h1 : c ≤ 10000) (hn : 4 ≤ n) :
    run (codeTable true) s (List.replicate n c) = band (annex true) c :=
  converges_4_of_lookup _ true s c n hs h0 h1 hn (target_code true c h0 h1 (Or.inl rfl))

/-- full strength for the repaired Table A.1 -/
theorem converges_4_repaired (s : Nat) (c : Int) (n : Nat) (hs : s ≤ 4) (h0 : 0 ≤ c) (h1 : c ≤ 10000) (hn : 4 ≤ n) :
    run stdA1 s (List.replicate n c) = band (annex false) c :=
  converges_4_of_lookup _ false s c n hs h0 h1 hn (target_stdA1 c h0 h1)

/-- the code as it is, both tables: every constant CBR in [0,1] outside the C19-KF2 region (nothing is excluded
for Table A.2, nor for Table A.1 once it is repaired).  Missing for full strength: Table A.1, CBR in [60 %, 65 %) -/
theorem converges_4_partial (a2 : Bool) (s : Nat) (c : Int) (n : Nat) (hs : s ≤ 4) (h0 : 0 ≤ c) (h1 : c ≤ 10000)
    (hn : 4 ≤ n) (hg : lookupOK a2 c) : run (codeTable a2) s (List.replicate n c) = band (annex a2) c :=
  converges_4_of_lookup _ a2 s c n hs h0 h1 hn (target_code a2 c h0 h1 hg)

/-- C19-KF2 witness: constant 62 % on the known Table A.1 ends (and stays) in Restrictive, the band's state is Active 3 -/
theorem converges_4_witness :
    run knownA1 3 (List.replicate 4 6200) = 4 ∧ run knownA1 0 (List.replicate 9 6200) = 4 ∧ band (annex false) 6200 = 3 := by
  decide

/-- four evaluations are needed in general (non-vacuity / tightness): from Relaxed, CBR 70 % takes exactly four;
and the partial theorem is not vacuous for Table A.1 -/
example : run codeA2 0 [7000, 7000, 7000] = 3 ∧ run codeA2 0 [7000, 7000, 7000, 7000] = 4 := by decide
example : lookupOK false 5999 ∧ lookupOK false 6500 ∧ run (codeTable false) 0 (List.replicate 4 5999) = 3 :=
  ⟨Or.inr (Or.inr (Or.inl (by decide))), Or.inr (Or.inr (Or.inr (by decide))), by decide⟩

/-- adjacency and Annex A rows hold for every history (any inputs, valid or not, any length) from every state, for
both tables as generated — these two clauses are not affected by C19-KF2 -/
theorem reactive_adj_rows (a2 : Bool) (s0 : Nat) (cs : List Int) (hs : s0 ≤ 4) :
    adjOK s0 (trace (codeTable a2) s0 cs) = true ∧ rowsOK (annex a2) (trace (codeTable a2) s0 cs) = true :=
  ⟨adj_trace (rm_code a2) cs s0 hs, rows_trace (rm_code a2) cs s0 hs⟩

/-- the whole reactive clause of the property, as the Spec trace checker, for every history whose inputs avoid the
C19-KF2 region (Table A.2: every history; repaired Table A.1: every history) -/
theorem reactive_holds_partial (a2 : Bool) (s0 : Nat) (cs : List Int) (hs : s0 ≤ 4) (hg : ∀ c ∈ cs, lookupOK a2 c) :
    reactiveHolds (annex a2) s0 (trace (codeTable a2) s0 cs) = true := by
  have hm := rm_code a2
  simp only [reactiveHolds, Bool.and_eq_true]
  exact ⟨⟨adj_trace hm cs s0 hs, rows_trace hm cs s0 hs⟩,
    conv_trace hm (lookupOK a2) (fun c h0 h1 hc => target_code a2 c h0 h1 hc) (band_le4 a2) cs s0 none 0 hs
      hg (fun _ h => by cases h)⟩

/-- full strength, Table A.2 as generated: every history -/
theorem reactive_holds_A2 (s0 : Nat) (cs : List Int) (hs : s0 ≤ 4) :
    reactiveHolds (annex true) s0 (trace (codeTable true) s0 cs) = true :=
  reactive_holds_partial true s0 cs hs (fun _ _ => Or.inl rfl)

/-- full strength, repaired Table A.1: every history -/
theorem reactive_holds_repaired (s0 : Nat) (cs : List Int) (hs : s0 ≤ 4) :
    reactiveHolds (annex false) s0 (trace stdA1 s0 cs) = true := by
  have hm : rowsMatchB stdA1 (annex false) = true := by decide
  simp only [reactiveHolds, Bool.and_eq_true]
  exact ⟨⟨adj_trace hm cs s0 hs, rows_trace hm cs s0 hs⟩,
    conv_trace hm (fun _ => True) (fun c h0 h1 _ => target_stdA1 c h0 h1) (band_le4 false) cs s0 none 0 hs
      (fun _ _ => trivial) (fun _ h => by cases h)⟩

/-- C19-KF2 witness on the trace checker: four evaluations of 62 % from Active 3 on the known Table A.1 -/
theorem reactive_holds_witness :
    reactiveHolds (annex false) 3 (trace knownA1 3 [6200, 6200, 6200, 6200]) = false := by decide

/-- non-vacuity: a concrete history with rejected inputs in between passes the checker, and the checker can fail on
each of its three parts (adjacency, row, convergence) -/
example : trace codeA2 0 [3500, -1, 3500, 10001, 9999] =
    [⟨3500, 1, 10000, 100⟩, ⟨3500, 1, 10000, 100⟩, ⟨9999, 2, 5000, 200⟩] := by decide
example : reactiveHolds tableA2 0 [⟨7000, 2, 5000, 200⟩] = false := by decide
example : rowsOK tableA2 [⟨3500, 1, 5000, 200⟩] = false ∧
    convOK tableA2 none 0 [⟨7000, 3, 4000, 250⟩, ⟨7000, 3, 4000, 250⟩, ⟨7000, 3, 4000, 250⟩, ⟨7000, 3, 4000, 250⟩] = false := by
  decide


/-! ## Adaptive approach (clause 5.4) -/

/-- `DccAdaptiveParameters()` defaults are Table 3 -/
theorem generated_defaults_are_table3 :
    [Generated.Dcc.dAlpha, Generated.Dcc.dBeta, Generated.Dcc.dCbrTarget, Generated.Dcc.dDeltaMax,
     Generated.Dcc.dDeltaMin, Generated.Dcc.dDeltaUpMax, Generated.Dcc.dDeltaDownMax] = table3 := by
  simp only [Generated.Dcc.dAlpha, Generated.Dcc.dBeta, Generated.Dcc.dCbrTarget, Generated.Dcc.dDeltaMax,
    Generated.Dcc.dDeltaMin, Generated.Dcc.dDeltaUpMax, Generated.Dcc.dDeltaDownMax, table3]
  norm_num

/-- every accepted call relates old and new (CBR_ITS-S, δ) by the five steps of clause 5.4 (`Spec.Clause54`: the
equations as conditions, division-free, without min/max) — all parameter sets, all states, all inputs; the global
CBR pair replaces the local one when both are present (NOTE of clause 5.4) -/
theorem adaptive_sat_clause54 (p : Params) (s s' : AState) (l lp : Rat) (g gp : Option Rat)
    (h : aUpdate p s l lp g gp = .ok s') :
    Clause54 (Params.toP54 p) s.cbrItsS s.delta (effective l lp g gp).1 (effective l lp g gp).2 s'.cbrItsS s'.delta := by
  rw [aUpdate_val p s s' l lp g gp h]
  exact modelNext_sat p s _ _

/-- … and clause 5.4 determines the result, so the code computes *exactly* the prescribed pair: whatever pair
satisfies the five steps is the pair the call stored (and returned) -/
theorem adaptive_exactly_clause54 (p : Params) (s s' : AState) (l lp : Rat) (g gp : Option Rat) (its' delta' : Rat)
    (h : aUpdate p s l lp g gp = .ok s')
    (hs : Clause54 (Params.toP54 p) s.cbrItsS s.delta (effective l lp g gp).1 (effective l lp g gp).2 its' delta') :
    s'.cbrItsS = its' ∧ s'.delta = delta' :=
  clause54_functional _ _ _ _ _ _ _ _ _ (adaptive_sat_clause54 p s s' l lp g gp h) hs

/-- what clause 5.4 implies by itself (steps 4 and 5 only): the new δ lies in [δ_min, δ_max] when δ_min ≤ δ_max -/
theorem clause54_bounds (P : P54) (its delta c cp its' delta' : Rat) (h : P.dmin ≤ P.dmax)
    (hc : Clause54 P its delta c cp its' delta') : P.dmin ≤ delta' ∧ delta' ≤ P.dmax := by
  obtain ⟨_, d3, d4, _, _, _, s4, s5⟩ := hc
  have h4 : d4 ≤ P.dmax := by
    by_cases hh : P.dmax < d3
    · rw [s4.1 hh]
    · rw [s4.2 (not_lt.mp hh)]; exact not_lt.mp hh
  by_cases hh : d4 < P.dmin
  · rw [s5.1 hh]; exact ⟨le_refl _, h⟩
  · rw [s5.2 (not_lt.mp hh)]; exact ⟨not_lt.mp hh, h4⟩

/-- local CBR values outside [0,1] are rejected (exactly those), and a rejected call leaves the state unchanged -/
theorem rejects_local_outside_unit (p : Params) (s : AState) (l lp : Rat) (g gp : Option Rat) :
    ((l < 0 ∨ 1 < l ∨ lp < 0 ∨ 1 < lp) ↔ ∃ e, aUpdate p s l lp g gp = .error e) ∧
    ((l < 0 ∨ 1 < l ∨ lp < 0 ∨ 1 < lp) → aStep p s ⟨l, lp, g, gp⟩ = s) := by
  have hiff : (l < 0 ∨ 1 < l ∨ lp < 0 ∨ 1 < lp) ↔ ∃ e, aUpdate p s l lp g gp = .error e := by
    constructor
    · intro h
      apply aUpdate_err
      rcases h with h | h | h | h
      · exact Or.inl ((outsideUnit_iff l).2 (Or.inl h))
      · exact Or.inl ((outsideUnit_iff l).2 (Or.inr h))
      · exact Or.inr ((outsideUnit_iff lp).2 (Or.inl h))
      · exact Or.inr ((outsideUnit_iff lp).2 (Or.inr h))
    · rintro ⟨e, he⟩
      by_contra hn
      simp only [not_or, not_lt] at hn
      rw [aUpdate_ok p s l lp g gp ((outsideUnit_false_iff l).2 ⟨hn.1, hn.2.1⟩)
        ((outsideUnit_false_iff lp).2 ⟨hn.2.2.1, hn.2.2.2⟩)] at he
      cases he
  refine ⟨hiff, fun h => ?_⟩
  obtain ⟨e, he⟩ := hiff.1 h
  simp only [aStep, he]

example : aUpdate ⟨0, 0, 0, 1, 0, 0, 0⟩ ⟨0, 0⟩ (-1/10000) 0 none none = .error .local ∧
    aUpdate ⟨0, 0, 0, 1, 0, 0, 0⟩ ⟨0, 0⟩ 1 (10001/10000) none none = .error .localPrev := by decide +kernel

/-- δ returned by any accepted call lies in [δ_min, δ_max] whenever δ_min ≤ δ_max — all inputs, all states;
obtained from the clause itself (`clause54_bounds`) through `adaptive_sat_clause54` -/
theorem delta_in_bounds (p : Params) (s s' : AState) (l lp : Rat) (g gp : Option Rat)
    (h : p.deltaMin ≤ p.deltaMax) (hu : aUpdate p s l lp g gp = .ok s') :
    p.deltaMin ≤ s'.delta ∧ s'.delta ≤ p.deltaMax :=
  clause54_bounds (Params.toP54 p) _ _ _ _ _ _ h (adaptive_sat_clause54 p s s' l lp g gp hu)

/-- … hence every value returned along every history (any length, rejected calls included) from any state -/
theorem delta_in_bounds_run (p : Params) (h : p.deltaMin ≤ p.deltaMax) : ∀ (is : List AIn) (s : AState),
    ∀ d ∈ aReturns p s is, p.deltaMin ≤ d ∧ d ≤ p.deltaMax := by
  intro is
  induction is with
  | nil => intro s d hd; simp [aReturns] at hd
  | cons i is ih =>
    intro s d hd
    simp only [aReturns] at hd
    split at hd
    · rename_i s' hs'
      rcases List.mem_cons.1 hd with rfl | hd
      · exact delta_in_bounds p s s' i.l i.lp i.g i.gp h hs'
      · exact ih s' d hd
    · exact ih s d hd

/-- and the stored δ is in bounds at all times, starting from `__post_init__` -/
theorem delta_state_in_bounds (p : Params) (h : p.deltaMin ≤ p.deltaMax) (is : List AIn) :
    p.deltaMin ≤ (is.foldl (aStep p) (AState.init p)).delta ∧ (is.foldl (aStep p) (AState.init p)).delta ≤ p.deltaMax := by
  have gen : ∀ (is : List AIn) (s : AState), (p.deltaMin ≤ s.delta ∧ s.delta ≤ p.deltaMax) →
      p.deltaMin ≤ (is.foldl (aStep p) s).delta ∧ (is.foldl (aStep p) s).delta ≤ p.deltaMax := by
    intro is
    induction is with
    | nil => intro s hs; exact hs
    | cons i is ih =>
      intro s hs
      refine ih _ ?_
      unfold aStep
      split
      · rename_i s' hs'
        exact delta_in_bounds p s s' i.l i.lp i.g i.gp h hs'
      · exact hs
  exact gen is _ ⟨le_refl _, h⟩

/-- the CBR pair a call uses in step 1 lies in [0,1] (the local pair is checked by the code; the global pair is NOT —
for global values outside [0,1] nothing is claimed about CBR_ITS-S, see design notes "input space") -/
def usedInUnit (i : AIn) : Prop :=
  (0 ≤ (effective i.l i.lp i.g i.gp).1 ∧ (effective i.l i.lp i.g i.gp).1 ≤ 1) ∧
  (0 ≤ (effective i.l i.lp i.g i.gp).2 ∧ (effective i.l i.lp i.g i.gp).2 ≤ 1)

/-- the filter state CBR_ITS-S stays in [0,1] along every history of CBR values over [0,1] (the property's input
space), rejected calls included -/
theorem its_in_unit (p : Params) : ∀ (is : List AIn) (s : AState), (0 ≤ s.cbrItsS ∧ s.cbrItsS ≤ 1) →
    (∀ i ∈ is, usedInUnit i) → 0 ≤ (is.foldl (aStep p) s).cbrItsS ∧ (is.foldl (aStep p) s).cbrItsS ≤ 1 := by
  intro is
  induction is with
  | nil => intro s hs _; exact hs
  | cons i is ih =>
    intro s hs hi
    refine ih _ ?_ (fun j hj => hi j (by simp [hj]))
    have hu := hi i (by simp)
    unfold aStep
    split
    · rename_i s' hs'
      rw [aUpdate_val p s s' i.l i.lp i.g i.gp hs']
      exact mIts_unit s _ _ hs hu.1 hu.2
    · exact hs

/-- non-vacuity: one default-parameter step, computed (δ rises from δ_min by β·(target − 0.25) clamped …) -/
example : aUpdate ⟨2/125, 3/2500, 17/25, 3/100, 3/5000, 1/2000, -1/4000⟩ ⟨0, 3/5000⟩ (1/2) (1/2) none none
    = .ok ⟨1/4, 1363/1250000⟩ := by decide +kernel
/-- the hypothesis δ_min ≤ δ_max is needed: with δ_min > δ_max the result exceeds δ_max -/
example : aUpdate ⟨0, 0, 0, 1, 2, 0, 0⟩ ⟨0, 0⟩ 0 0 none none = .ok ⟨0, 2⟩ := by decide +kernel
/-- the relation is not trivially true: a pair that skips the filter of step 1 does not satisfy it -/
example : ¬ Clause54 ⟨2/125, 3/2500, 17/25, 3/100, 3/5000, 1/2000, -1/4000⟩ (7/10) (3/5000) 1 1 (7/10) (3/5000) := by
  rintro ⟨_, _, _, h1, _⟩
  unfold Step1 at h1
  norm_num at h1
/-- three-phase history (saturate at the floor, keep varying, drop): the filter keeps following the input while δ sits
at δ_min, so the drop is seen from CBR_ITS-S = 63/64·…, not from a stale value -/
example : ((List.replicate 6 (⟨1, 1, none, none⟩ : AIn)).foldl
    (aStep ⟨2/125, 3/2500, 17/25, 3/100, 3/5000, 1/2000, -1/4000⟩) ⟨0, 3/5000⟩) = ⟨63/64, 3/5000⟩ := by decide +kernel

/-! ## Gate keeper (Annex B) -/

/-- obligations on the generated interval constants: MIN is the double of 25 ms (not below 25 ms, at most 1e-17 above),
MAX is 1 s -/
theorem gate_constants_ok :
    (1 : Rat) / 40 ≤ codeCfg.minI ∧ codeCfg.minI ≤ 1 / 40 + 1 / 100000000000000000 ∧ codeCfg.maxI = 1 := by
  simp only [codeCfg, Generated.Dcc.gateMin, Generated.Dcc.gateMax]
  norm_num

/-- generated fact with two admissible values (gen_dcc.py reads the comparison of `is_open` from the AST): the gate
compares `t >= t_go` (repaired, ε = 0) or `t >= t_go - _T_EPSILON` with `_T_EPSILON` = 1e-9 (C19-KF1); any other
tolerance re-opens this -/
theorem gate_eps_variant : codeCfg = exactCfg ∨ codeCfg = kf1Cfg := by
  have h : Generated.Dcc.gateEps = 0 ∨ Generated.Dcc.gateEps = kf1Eps := by
    simp only [Generated.Dcc.gateEps, kf1Eps]; norm_num
  rcases h with h | h
  · left; simp only [codeCfg, exactCfg, h]
  · right; simp only [codeCfg, kf1Cfg, h]

theorem kf1Eps_small : 0 < kf1Eps ∧ kf1Eps ≤ 1001 / 1000000000000 := by
  simp only [kf1Eps]; norm_num

theorem codeCfg_min_le_max : codeCfg.minI ≤ codeCfg.maxI := by
  have := gate_constants_ok; linarith [this.1, this.2.1, this.2.2]

theorem codeCfg_eps : 0 ≤ codeCfg.eps ∧ codeCfg.eps ≤ kf1Eps := by
  rcases gate_eps_variant with h | h <;> rw [h]
  · exact ⟨le_refl _, le_of_lt kf1Eps_small.1⟩
  · exact ⟨le_of_lt kf1Eps_small.1, le_refl _⟩

/-- an admitted packet records `t_pg = t` and schedules a `t_go` that satisfies equation B.1 (`Spec.B1`: T_on_pp/δ
defined by a product, limited piecewise to [MIN, MAX]); it was admitted with the gate open and `t_on > 0` -/
theorem admit_sat_B1 (c : GCfg) (hc : c.minI ≤ c.maxI) (s : GState) (t ton : Rat)
    (h : (admitPkt c s t ton).2 = .admitted) :
    (∃ tgo, (admitPkt c s t ton).1 = { s with tpg := some t, tgo := some tgo } ∧ B1 c.minI c.maxI t ton s.delta tgo) ∧
    isOpen c s t = true ∧ 0 < ton ∧ s.delta ≠ 0 := by
  refine ⟨FlexModel.Dcc.admit_sat_B1 c hc s t ton h, ?_⟩
  rcases admit_cases c s t ton with ⟨_, e⟩ | ⟨_, _, e⟩ | ⟨_, _, _, e⟩ | ⟨h1, h2, h3, _⟩
  · rw [e] at h; cases h
  · rw [e] at h; cases h
  · rw [e] at h; cases h
  · exact ⟨h2, h1, h3⟩

/-- … and B.1 determines `t_go`: the scheduled opening time is *exactly* the one the equation gives -/
theorem admit_exactly_B1 (c : GCfg) (hc : c.minI ≤ c.maxI) (s : GState) (t ton tgo : Rat)
    (h : (admitPkt c s t ton).2 = .admitted) (hb : B1 c.minI c.maxI t ton s.delta tgo) :
    (admitPkt c s t ton).1.tgo = some tgo ∧ (admitPkt c s t ton).1.tpg = some t := by
  obtain ⟨⟨tgo', e, hb'⟩, _, _, hd⟩ := admit_sat_B1 c hc s t ton h
  rw [e, B1_unique _ _ _ _ _ _ _ hd hb hb']
  exact ⟨rfl, rfl⟩

/-- a packet is admitted iff `t_on > 0`, the gate is open (and δ ≠ 0) -/
theorem admit_iff (c : GCfg) (s : GState) (t ton : Rat) (hd : s.delta ≠ 0) :
    (admitPkt c s t ton).2 = .admitted ↔ (0 < ton ∧ isOpen c s t = true) := by
  rcases admit_cases c s t ton with ⟨h1, e⟩ | ⟨_, h2, e⟩ | ⟨_, _, h0, _⟩ | ⟨h1, h2, _, e⟩
  · rw [e]; constructor
    · intro h; cases h
    · intro h; linarith [h.1]
  · rw [e]; constructor
    · intro h; cases h
    · intro h; rw [h2] at h; cases h.2
  · exact absurd h0 hd
  · rw [e]; exact ⟨fun _ => ⟨h1, h2⟩, fun _ => rfl⟩

/-- a δ update while the gate is closed reschedules `t_go` so that equation B.2 holds between the old and the new
schedule (`Spec.B2`), and B.2 determines the new `t_go`; otherwise (nothing admitted yet, or gate open) only δ changes -/
theorem update_sat_B2 (c : GCfg) (hc : c.minI ≤ c.maxI) (s : GState) (t d : Rat) (hd : 0 < d) :
    (∀ a b, s.tpg = some a → s.tgo = some b → isOpen c s t = false →
      ∃ tgo, (updDelta c s t d).1 = { s with delta := d, tgo := some tgo } ∧ B2 c.minI c.maxI a b s.delta d tgo ∧
        ∀ x, B2 c.minI c.maxI a b s.delta d x → x = tgo) ∧
    ((s.tpg = none ∨ s.tgo = none ∨ isOpen c s t = true) → (updDelta c s t d).1 = { s with delta := d }) := by
  constructor
  · intro a b ha hb ho
    obtain ⟨tgo, e, hb2⟩ := FlexModel.Dcc.update_sat_B2 c hc s t d a b hd ha hb ho
    exact ⟨tgo, e, hb2, fun x hx => B2_unique _ _ _ _ _ _ _ _ (ne_of_gt hd) hx hb2⟩
  · intro hh
    rcases upd_cases c s t d with ⟨h, _⟩ | ⟨_, a, b, ha, hb, ho, _⟩ | ⟨_, _, e⟩
    · linarith
    · rcases hh with h | h | h
      · rw [ha] at h; cases h
      · rw [hb] at h; cases h
      · rw [ho] at h; cases h
    · rw [e]

/-- non-positive `t_on` / `delta_new` are rejected without touching the state -/
theorem gate_rejects_nonpositive (c : GCfg) (s : GState) (t x : Rat) (h : x ≤ 0) :
    admitPkt c s t x = (s, .valueError) ∧ updDelta c s t x = (s, .valueError) := by
  constructor
  · rcases admit_cases c s t x with ⟨_, e⟩ | ⟨h1, _⟩ | ⟨h1, _⟩ | ⟨h1, _⟩
    · exact e
    all_goals linarith
  · rcases upd_cases c s t x with ⟨_, e⟩ | ⟨h1, _⟩ | ⟨h1, _⟩
    · exact e
    all_goals linarith

example : admitPkt codeCfg (GState.init 1) 0 0 = (GState.init 1, .valueError) ∧
    updDelta codeCfg (GState.init 1) 0 (-1) = (GState.init 1, .valueError) := by decide +kernel

/-- what B.1 and B.2 imply by themselves: the closed interval lies within [MIN, MAX] -/
theorem B_interval (mn mx tpg tgo : Rat) (h : mn ≤ mx)
    (hb : (∃ ton d, B1 mn mx tpg ton d tgo) ∨ (∃ old dO dN, B2 mn mx tpg old dO dN tgo)) :
    tpg + mn ≤ tgo ∧ tgo ≤ tpg + mx := by
  rcases hb with ⟨_, _, x, iv, _, hl, e⟩ | ⟨_, _, _, x, iv, _, hl, e⟩ <;>
  · have := limited_bounds mn mx x iv h hl
    constructor <;> linarith [this.1, this.2]

/-- invariant over every history of admissions, δ updates and queries (any times, any order, any length):
the closed interval `t_go − t_pg` stays within [MIN, MAX] -/
theorem interval_bounds (c : GCfg) (hc : c.minI ≤ c.maxI) (d0 : Rat) (hd : d0 ≠ 0) (ops : List GOp) (a b : Rat)
    (ha : (gRun c (GState.init d0) ops).tpg = some a) (hb : (gRun c (GState.init d0) ops).tgo = some b) :
    c.minI ≤ b - a ∧ b - a ≤ c.maxI := by
  have h := ginv_run c hc ops _ (ginv_init c d0 hd)
  rcases h.2 with ⟨hp, _⟩ | ⟨a', b', hp, hg, h1, h2⟩
  · rw [ha] at hp; cases hp
  · rw [ha] at hp; rw [hb] at hg; cases hp; cases hg
    constructor <;> linarith

example : (gRun codeCfg (GState.init (3/5000)) [.admitPkt 10 (1/1000), .upd (10001/1000) (1/1000)]).tgo = some (53/5) ∧
    (gRun codeCfg (GState.init (3/5000)) [.admitPkt 10 (1/1000)]).tpg = some 10 := by decide +kernel

/-! ### "opens exactly at the times given by B.1/B.2" (C19-KF1) -/

/-- full strength, repaired comparison (ε = 0): open iff nothing is scheduled or `t_go ≤ t` -/
theorem opens_exactly (c : GCfg) (he : c.eps = 0) (s : GState) (t : Rat) : OpensAt s.tgo t (isOpen c s t) := by
  unfold OpensAt
  cases h : s.tgo with
  | none => simp [isOpen_none c s t h]
  | some b => simp [isOpen_some c s t b h, he]

theorem opens_exactly_repaired (s : GState) (t : Rat) : OpensAt s.tgo t (isOpen exactCfg s t) :=
  opens_exactly exactCfg rfl s t

/-- the code as it is (any ε ≥ 0): open for sure from `t_go` on, closed for sure before `t_go − ε`.
Missing for full strength: the decisions at `t_go − ε ≤ t < t_go` -/
theorem opens_partial (c : GCfg) (he : 0 ≤ c.eps) (s : GState) (t b : Rat) (hb : s.tgo = some b) :
    (b ≤ t → isOpen c s t = true) ∧ (t < b - c.eps → isOpen c s t = false) := by
  constructor
  · intro h; exact (isOpen_some c s t b hb).2 (by linarith)
  · intro h
    cases hh : isOpen c s t with
    | false => rfl
    | true => have := (isOpen_some c s t b hb).1 hh; linarith

theorem opens_code_partial (s : GState) (t b : Rat) (hb : s.tgo = some b) :
    (b ≤ t → isOpen codeCfg s t = true) ∧ (t < b - kf1Eps → isOpen codeCfg s t = false) := by
  have h := opens_partial codeCfg codeCfg_eps.1 s t b hb
  exact ⟨h.1, fun ht => h.2 (by linarith [codeCfg_eps.2])⟩

/-- C19-KF1 witness: with the 1 ns tolerance the gate is open half a nanosecond before the B.1 time -/
theorem opens_witness : let s := (admitPkt kf1Cfg (GState.init 1) 0 (1/1000)).1
    s.tgo = some kf1Cfg.minI ∧ isOpen kf1Cfg s (1/40 - 1/2000000000) = true ∧
    ¬ OpensAt s.tgo (1/40 - 1/2000000000) (isOpen kf1Cfg s (1/40 - 1/2000000000)) := by
  have h1 : (admitPkt kf1Cfg (GState.init 1) 0 (1/1000)).1.tgo = some kf1Cfg.minI := by decide +kernel
  have h2 : isOpen kf1Cfg (admitPkt kf1Cfg (GState.init 1) 0 (1/1000)).1 (1/40 - 1/2000000000) = true := by decide +kernel
  refine ⟨h1, h2, fun h => ?_⟩
  rcases h.1 h2 with hn | ⟨b, hb, hle⟩
  · rw [h1] at hn; cases hn
  · rw [h1] at hb; cases hb
    have : (1 : Rat) / 40 ≤ kf1Cfg.minI := gate_constants_ok.1
    linarith

/-! ### "never admits two packets less than 25 ms apart" (C19-KF1) -/

/-- consecutive admissions are at least MIN − ε apart, for every history (any times, any order — no monotone-clock
assumption) -/
theorem min_spacing_partial (c : GCfg) (hc : c.minI ≤ c.maxI) (d0 : Rat) (hd : d0 ≠ 0) (ops : List GOp) :
    spaced (c.minI - c.eps) none (admissions c (GState.init d0) ops) = true :=
  spaced_run c hc ops _ (ginv_init c d0 hd)

/-- full strength for a gate without tolerance: never two admissions less than MIN apart -/
theorem min_spacing_exact (c : GCfg) (hc : c.minI ≤ c.maxI) (he : c.eps = 0) (d0 : Rat) (hd : d0 ≠ 0) (ops : List GOp) :
    spaced c.minI none (admissions c (GState.init d0) ops) = true := by
  have := min_spacing_partial c hc d0 hd ops
  rwa [he, sub_zero] at this

/-- full strength, the code's constants with the repaired comparison: never less than 25 ms apart -/
theorem min_spacing_repaired (d0 : Rat) (hd : d0 ≠ 0) (ops : List GOp) :
    spaced gMin none (admissions exactCfg (GState.init d0) ops) = true := by
  refine spaced_mono _ _ ?_ _ _ (min_spacing_exact exactCfg codeCfg_min_le_max rfl d0 hd ops)
  have := gate_constants_ok
  simp only [gMin, exactCfg]
  have h1 : (1 : Rat) / 40 ≤ Generated.Dcc.gateMin := this.1
  linarith

/-- the code as it is (either variant): never less than 25 ms − 1 ns apart (ε as generated, ≤ the double of 1e-9).
Missing for full strength: the last nanosecond -/
theorem min_spacing_code_partial (d0 : Rat) (hd : d0 ≠ 0) (ops : List GOp) :
    spaced (gMin - kf1Eps) none (admissions codeCfg (GState.init d0) ops) = true := by
  refine spaced_mono _ _ ?_ _ _ (min_spacing_partial codeCfg codeCfg_min_le_max d0 hd ops)
  have := gate_constants_ok
  simp only [gMin]
  linarith [this.1, codeCfg_eps.2]

/-- the code once the comparison is repaired (the generated ε is 0): full strength -/
theorem min_spacing_code_exact (he : codeCfg = exactCfg) (d0 : Rat) (hd : d0 ≠ 0) (ops : List GOp) :
    spaced gMin none (admissions codeCfg (GState.init d0) ops) = true := by
  rw [he]; exact min_spacing_repaired d0 hd ops

/-- C19-KF1 witness: δ = 1, packets at 0 and at 25 ms − 0.5 ns are both admitted -/
theorem min_spacing_witness :
    admissions kf1Cfg (GState.init 1) [.admitPkt 0 (1/1000), .admitPkt (1/40 - 1/2000000000) (1/1000)]
      = [0, 1/40 - 1/2000000000] ∧
    spaced gMin none (admissions kf1Cfg (GState.init 1) [.admitPkt 0 (1/1000), .admitPkt (1/40 - 1/2000000000) (1/1000)])
      = false := by
  have h : admissions kf1Cfg (GState.init 1) [.admitPkt 0 (1/1000), .admitPkt (1/40 - 1/2000000000) (1/1000)]
      = [0, 1/40 - 1/2000000000] := by decide +kernel
  refine ⟨h, ?_⟩
  rw [h]; decide +kernel

/-! ### "never stays closed longer than 1 s", "at most one packet per opening" (both variants) -/

/-- after an admission at `a` the gate is open again at every `t ≥ a + MAX`, whatever δ updates happened since -/
theorem never_closed_longer_than_max (c : GCfg) (hc : c.minI ≤ c.maxI) (he : 0 ≤ c.eps) (d0 : Rat) (hd : d0 ≠ 0)
    (ops : List GOp) (a t : Rat) (ha : (gRun c (GState.init d0) ops).tpg = some a) (ht : a + c.maxI ≤ t) :
    isOpen c (gRun c (GState.init d0) ops) t = true := by
  have h := ginv_run c hc ops _ (ginv_init c d0 hd)
  rcases h.2 with ⟨hp, _⟩ | ⟨a', b', hp, hg, _, h2⟩
  · rw [ha] at hp; cases hp
  · rw [ha] at hp; cases hp
    exact (isOpen_some c _ t b' hg).2 (by linarith)

/-- … for the code: never closed longer than 1 s after the last admission (`t_pg` is the last admission time) -/
theorem never_closed_longer_than_1s (d0 : Rat) (hd : d0 ≠ 0) (ops : List GOp) (a t : Rat)
    (ha : (admissions codeCfg (GState.init d0) ops).foldl (fun _ x => some x) none = some a) (ht : a + gMax ≤ t) :
    isOpen codeCfg (gRun codeCfg (GState.init d0) ops) t = true := by
  have hl := tpg_last codeCfg codeCfg_min_le_max ops _ (ginv_init codeCfg d0 hd)
  have hk := gate_constants_ok
  refine never_closed_longer_than_max codeCfg codeCfg_min_le_max codeCfg_eps.1 d0 hd ops a t (by rw [hl]; exact ha) ?_
  rw [hk.2.2]; simpa [gMax] using ht

/-- non-vacuity: δ_min with a 1 ms packet is limited to 1 s, a later cut of δ cannot push the opening beyond it -/
example : (admissions codeCfg (GState.init (3/5000)) [.admitPkt 10 (1/1000), .upd (101/10) (1/1000000)]).foldl
      (fun _ x => some x) none = some 10 ∧
    isOpen codeCfg (gRun codeCfg (GState.init (3/5000)) [.admitPkt 10 (1/1000), .upd (101/10) (1/1000000)]) 11 = true ∧
    isOpen codeCfg (gRun codeCfg (GState.init (3/5000)) [.admitPkt 10 (1/1000), .upd (101/10) (1/1000000)]) (109/10) = false := by
  decide +kernel

/-- at most one packet per opening: an admission closes the gate — it stays closed at every time before
`t + MIN − ε`, in particular at `t` itself, so a second packet presented then is rejected -/
theorem one_per_opening (c : GCfg) (hc : c.minI ≤ c.maxI) (s : GState) (t ton : Rat)
    (h : (admitPkt c s t ton).2 = .admitted) (t' ton' : Rat) (ht' : t' < t + c.minI - c.eps) (hton : 0 < ton') :
    isOpen c (admitPkt c s t ton).1 t' = false ∧ (admitPkt c (admitPkt c s t ton).1 t' ton').2 = .rejected := by
  obtain ⟨⟨tgo, e, hb⟩, _, _, _⟩ := admit_sat_B1 c hc s t ton h
  have hiv := B_interval c.minI c.maxI t tgo hc (Or.inl ⟨_, _, hb⟩)
  have hclosed : isOpen c (admitPkt c s t ton).1 t' = false := by
    rw [e]
    cases hh : isOpen c { s with tpg := some t, tgo := some tgo } t' with
    | false => rfl
    | true =>
      have := (isOpen_some c _ t' _ rfl).1 hh
      linarith [hiv.1]
  refine ⟨hclosed, ?_⟩
  rcases admit_cases c (admitPkt c s t ton).1 t' ton' with ⟨h1, _⟩ | ⟨_, _, e2⟩ | ⟨_, h2, _⟩ | ⟨_, h2, _⟩
  · linarith
  · rw [e2]
  · rw [hclosed] at h2; cases h2
  · rw [hclosed] at h2; cases h2

/-- for the code's constants (either variant) the gate is closed at the admission instant itself (ε < 25 ms) -/
theorem one_per_opening_code (s : GState) (t ton ton' : Rat) (h : (admitPkt codeCfg s t ton).2 = .admitted)
    (hton : 0 < ton') : (admitPkt codeCfg (admitPkt codeCfg s t ton).1 t ton').2 = .rejected := by
  have hk := gate_constants_ok
  have he := codeCfg_eps
  have hs := kf1Eps_small
  exact (one_per_opening codeCfg codeCfg_min_le_max s t ton h t ton' (by linarith [hk.1, he.2, hs.2]) hton).2

/-- non-vacuity: the docstring scenario (δ = 0.01, T_on = 1 ms → closed for 100 ms), with exact constants; the seeded
class "update after a limited interval": B.2 rescales the *limited* 1 s, not T_on/δ -/
example : admissions ⟨1/40, 1, 0⟩ (GState.init (1/100))
    [.admitPkt 0 (1/1000), .admitPkt 0 (1/1000), .admitPkt (99/1000) (1/1000), .admitPkt (1/10) (1/1000)] = [0, 1/10] := by
  decide +kernel
example : (gRun ⟨1/40, 1, 0⟩ (GState.init (1/100)) [.admitPkt 0 (1/1000), .upd (1/100) (1/50)]).tgo = some (1/20) := by
  decide +kernel
example : (gRun ⟨1/40, 1, 0⟩ (GState.init (3/5000)) [.admitPkt 10 (1/1000), .upd (10001/1000) (1/1000)]).tgo = some (53/5) ∧
    (10 : Rat) + (1/1000) / (1/1000) = 11 := by
  decide +kernel
example : (gRun ⟨1/40, 1, 0⟩ (GState.init (1/1000)) [.admitPkt 10 (1/5000), .upd (10004/1000) (3/100), .upd (10015/1000) (1/50)]).tgo
    = some (10 + 3/80) := by
  decide +kernel

end Props.C19

/-
C15 — GeoNetworking router is safe under concurrent origination, reception and timers.
Property theorems only.  Model: `FlexModel/Conc/Sched.lean` (interleaving semantics), `FlexModel/Conc/RouterConc.lean`
(the router's atomic blocks, tied to the source by `Generated/Locks.lean`); helper lemmas in
`FlexModel/Conc/RouterLemmas.lean`.

Every theorem quantifies over ALL thread lists `threads : List (List Op)` (any number of threads, any operations,
any parameters) and ALL schedules `sched : List ThreadId`.
-/
import FlexModel.Conc.RouterLemmas

namespace Props.C15
open FlexModel.Conc FlexModel.Conc.Router

/-- final shared state of the router under a schedule -/
abbrev final (threads : List (List Op)) (sched : List ThreadId) : St := (run (sys threads) sched).sh

theorem anyPurge (threads : List (List Op)) : ∀ ops ∈ threads, ∀ op ∈ ops, op.isPurge = true → true = true :=
  fun _ _ _ _ _ => rfl
theorem anyOld (threads : List (List Op)) : ∀ ops ∈ threads, ∀ op ∈ ops, op.isOld = true → true = true :=
  fun _ _ _ _ _ => rfl
theorem anyNew (threads : List (List Op)) : ∀ ops ∈ threads, ∀ op ∈ ops, op.isNew = true → true = true :=
  fun _ _ _ _ _ => rfl

/-! ## Linearisation (generic, `Conc/Sched`) -/

/-- the state reached under any schedule is the sequential composition of the executed blocks in execution order -/
theorem linearisation (threads : List (List Op)) (sched : List ThreadId) :
    final threads sched = applyAll (trace (sys threads) sched) {} :=
  run_eq_trace (sys threads) sched

/-- … and that order respects every thread's program order -/
theorem linearisation_order (threads : List (List Op)) (sched : List ThreadId) (u : ThreadId) :
    tracedBy u (trace (sys threads) sched) ++ blocksOf (progOf (run (sys threads) sched) u)
      = blocksOf (progOf (sys threads) u) :=
  trace_thread_order (sys threads) sched u

/-! ## Sequence numbers -/

/-- the values returned by get_sequence_number are a consecutive run modulo 2^16 - 1 (newest first) -/
theorem sn_consecutive_run (threads : List (List Op)) (sched : List ThreadId) (i : Nat)
    (hi : i < (final threads sched).snLog.length) :
    (final threads sched).snLog[i]? = some (((final threads sched).snLog.length - i) % 65535) :=
  (router_inv true true true SnInv threads (anyPurge threads) (anyOld threads) (anyNew threads) (by simp [SnInv, M]) (SnInv_blk true true true) sched).2 i hi

/-- any two allocations fewer than 65535 allocations apart returned different sequence numbers -/
theorem sn_distinct (threads : List (List Op)) (sched : List ThreadId) (i j : Nat) (hij : i < j)
    (hj : j < (final threads sched).snLog.length) (hw : j - i < 65535) :
    (final threads sched).snLog[i]? ≠ (final threads sched).snLog[j]? := by
  rw [sn_consecutive_run threads sched i (by omega), sn_consecutive_run threads sched j hj]
  intro h
  simp only [Option.some.injEq] at h
  omega

/-- every returned value is a 16-bit value below the modulus -/
theorem sn_range (threads : List (List Op)) (sched : List ThreadId) (v : Nat)
    (hv : v ∈ (final threads sched).snLog) : v < 65535 := by
  obtain ⟨i, hi, rfl⟩ := List.mem_iff_getElem.mp hv
  have := sn_consecutive_run threads sched i hi
  rw [List.getElem?_eq_getElem hi] at this
  simp only [Option.some.injEq] at this
  omega

example : (final [[.gbc 1, .gbc 2], [.gbc 3]] [0, 0, 0, 1, 1, 1, 0, 0, 0, 0, 0, 0, 0, 1, 1]).snLog = [3, 2, 1] := by decide +kernel

/-! ## Contention-based forwarding -/

/-- per key: packets sent + cancellations ≤ insertions – a buffered packet is transmitted at most once, a
cancelled one never -/
theorem cbf_at_most_once (threads : List (List Op)) (sched : List ThreadId) (k : Nat) :
    cbfPkts (final threads sched) k + (final threads sched).cbfCan k ≤ (final threads sched).cbfIns k := by
  have h := router_inv true true true CbfInv threads (anyPurge threads) (anyOld threads) (anyNew threads) (by intro k; simp [cbfPkts]) (CbfInv_blk true true true) sched k
  obtain ⟨h1, h2, h3⟩ := h
  simp only [final] at *
  split at h1 <;> omega

/-- every transmission was committed by an expiry block that found the key in the buffer -/
theorem cbf_sends_le_commits (threads : List (List Op)) (sched : List ThreadId) (k : Nat) :
    cbfPkts (final threads sched) k ≤ (final threads sched).cbfCom k := by
  have h := router_inv true true true CbfInv threads (anyPurge threads) (anyOld threads) (anyNew threads) (by intro k; simp [cbfPkts]) (CbfInv_blk true true true) sched k
  obtain ⟨_, h2, h3⟩ := h
  simp only [final] at *
  omega

/-- the cancel block (duplicate arrival) leaves the key absent … -/
theorem cbf_cancel_removes (o k : Nat) (x : St) (h : x.cbf k = true) : (cbfArrive o k x).cbf k = false := by
  simp [cbfArrive, h]

/-- … and an expiry block that starts while the key is absent commits nothing, so the send after it does nothing:
no transmission after a completed cancellation -/
theorem cbf_no_send_after_cancel (o k : Nat) (x : St) (h : x.cbf k = false) :
    (cbfExpire o k x).cbfCom = x.cbfCom ∧ (cbfExpire o k x).reg o 2 = 0 ∧
      cbfSend o k (cbfExpire o k x) = cbfExpire o k x := by
  simp [cbfExpire, cbfSend, h, upd2]

example : cbfPkts (final [[.cbfArrive 1 7], [.cbfArrive 2 7], [.cbfFire 3 7 1]] [0, 0, 0, 0, 0, 0, 0, 1, 1, 1, 1, 1, 1, 1, 2, 2, 2, 2, 2]) 7 = 0 := by
  decide +kernel
example : cbfPkts (final [[.cbfArrive 1 7], [.cbfFire 3 7 1]] [0, 0, 0, 0, 0, 0, 0, 1, 1, 1, 1, 1]) 7 = 1 := by decide +kernel

/-! ## Position vectors -/

/-- every emitted packet carries a PV that was the ego PV at some instant (installed by `egoSwap`, or the initial one) -/
theorem pv_was_ego (threads : List (List Op)) (sched : List ThreadId) (p : Pkt)
    (hp : p ∈ (final threads sched).sent) : p.pv ∈ (final threads sched).egoHist :=
  (router_inv true true true PvInv threads (anyPurge threads) (anyOld threads) (anyNew threads) (by simp [PvInv]) (PvInv_blk true true true) sched).2.2.2 p hp

example : ((final [[.ego 5], [.shb 1]] [1, 0, 0, 1, 0]).sent.map (·.pv)) = [0] := by decide +kernel

/-! ## Location service -/

def noPurge (threads : List (List Op)) : Prop := ∀ ops ∈ threads, ∀ op ∈ ops, op.isPurge = false
/-- every GeoUnicast request is handled by the code with the LS-order commit (a lookup in progress is recognised by
its retransmit counter even when the placeholder LocTE was purged) -/
def allFixed (threads : List (List Op)) : Prop := ∀ ops ∈ threads, ∀ op ∈ ops, op.isOld = false
def allOld (threads : List (List Op)) : Prop := ∀ ops ∈ threads, ∀ op ∈ ops, op.isNew = false

/-- conservation (both code variants, with or without LocT purges): a buffered request is, counted with multiplicity,
in exactly one place – still buffered, popped by a reply block and about to be sent by that thread, sent, dropped by
the give-up block, or lost (overwritten by a new registration) -/
theorem ls_conservation (threads : List (List Op)) (sched : List ThreadId) (d r : Nat) :
    let s := final threads sched
    (s.lsQueued d).count r =
      (s.lsBuf d).count r + (s.lsFlight d).count r + (s.lsSent d).count r + (s.lsDropped d).count r + (s.lsLost d).count r :=
  router_inv true true true LsInv threads (anyPurge threads) (anyOld threads) (anyNew threads) (by intro d r; simp) (LsInv_blk true true true) sched d r

/-- **Exactly once** for the code as it is now, under ANY interleaving with LocT purges (received frames), replies and
timer expiries: nothing is ever lost, hence each buffered request is sent exactly once after a reply block popped it,
or dropped by the give-up block, or still waiting – never both, never twice. -/
theorem ls_exactly_once (threads : List (List Op)) (hfx : allFixed threads) (sched : List ThreadId) (d r : Nat) :
    let s := final threads sched
    (s.lsQueued d).count r =
      (s.lsBuf d).count r + (s.lsFlight d).count r + (s.lsSent d).count r + (s.lsDropped d).count r := by
  have hq : ∀ ops ∈ threads, ∀ op ∈ ops, op.isOld = true → false = true := by
    intro ops ho op hop h
    rw [hfx ops ho op hop] at h
    cases h
  have h1 := ls_conservation threads sched d r
  have h2 := (router_inv true false true LsNoLossB threads (anyPurge threads) hq (anyNew threads) (by intro d; simp) (LsNoLossB_blk true) sched d).2.2.2
  simp only [final] at *
  rw [h2] at h1
  simpa using h1

/-- never both sent and dropped, never sent twice: for a request buffered once -/
theorem ls_never_both_never_twice (threads : List (List Op)) (hfx : allFixed threads) (sched : List ThreadId) (d r : Nat)
    (hq : ((final threads sched).lsQueued d).count r = 1) :
    ((final threads sched).lsSent d).count r + ((final threads sched).lsDropped d).count r ≤ 1 := by
  have := ls_exactly_once threads hfx sched d r
  simp only at this
  omega

/-- the code before the LS-order commit (known finding C15-KF1): exactly-once outside the known region, i.e. as long
as no received frame purges a placeholder LocTE during the lookup … -/
theorem ls_exactly_once_partial (threads : List (List Op)) (hnp : noPurge threads) (hold : allOld threads)
    (sched : List ThreadId) (d r : Nat) :
    let s := final threads sched
    (s.lsQueued d).count r =
      (s.lsBuf d).count r + (s.lsFlight d).count r + (s.lsSent d).count r + (s.lsDropped d).count r := by
  have hp : ∀ ops ∈ threads, ∀ op ∈ ops, op.isPurge = true → false = true := by
    intro ops ho op hop h
    rw [hnp ops ho op hop] at h
    cases h
  have hn : ∀ ops ∈ threads, ∀ op ∈ ops, op.isNew = true → false = true := by
    intro ops ho op hop h
    rw [hold ops ho op hop] at h
    cases h
  have h1 := ls_conservation threads sched d r
  have h2 := (router_inv false true false LsNoLossA threads hp (anyOld threads) hn (by intro d; simp) LsNoLossA_blk sched d).2
  simp only [final] at *
  rw [h2] at h1
  simpa using h1

/-- … and inside it a request IS lost, sequentially: request 1 to destination 9, purge of the placeholder, request 2. -/
theorem ls_exactly_once_witness :
    (final [[.guc 1 1 9 false, .purge 9, .guc 2 2 9 false]] (List.replicate 80 0)).lsLost 9 = [1] := by decide +kernel

/-- the same history on the code as it is now loses nothing -/
example : (final [[.guc 1 1 9 true, .purge 9, .guc 2 2 9 true]] (List.replicate 80 0)).lsBuf 9 = [1, 2] := by decide +kernel

/-- the window between sending the LS request and storing its timer: a reply handled in that window leaves a live,
uncancelled retransmit timer behind (spurious retransmissions; no request is lost – `ls_exactly_once`). -/
theorem ls_stale_timer_witness :
    let s := final [[.guc 1 1 9 true], [.lsReply 2 9 1 true]]
      (List.replicate 22 0 ++ List.replicate 30 1 ++ List.replicate 10 0)
    s.lsTimer 9 = some 1 ∧ s.tStarted 1 = true ∧ s.tCancelled 1 = false ∧ s.lsSent 9 = [1] ∧ s.pending 9 = false := by
  decide +kernel

example : ((final [[.guc 1 1 9 true], [.lsReply 2 9 1 true]] (List.replicate 40 0 ++ List.replicate 30 1)).lsSent 9) = [1] := by
  decide +kernel

/-! ## Deadlock freedom, exceptions -/

/-- the lock-order graph regenerated from the source is acyclic (all edges go up in `lkRank`), only RLocks are
re-acquired by their holder -/
theorem lock_order_acyclic :
    Generated.Locks.ranked lkRank = true ∧
      Generated.Locks.reentrantSelf.all (fun l => Generated.Locks.reentrant.contains l) = true :=
  ⟨order_ranked, reentrant_only⟩

/-- no reachable state is a deadlock -/
theorem no_deadlock (threads : List (List Op)) (sched : List ThreadId) : ¬ Deadlock (run (sys threads) sched) :=
  FlexModel.Conc.no_deadlock rank (sys threads) (WF_sys threads) sched

/-- no block raises (`del` only of a present key) -/
theorem no_thread_fails (threads : List (List Op)) (sched : List ThreadId) : (final threads sched).err = 0 :=
  router_inv true true true ErrInv threads (anyPurge threads) (anyOld threads) (anyNew threads) rfl (ErrInv_blk true true true) sched

/-! ## Tie to the source (re-exported obligations; see `RouterConc` for the individual block lists) -/

theorem source_lock_map :
    Generated.Locks.allUnder .Router_sequence_number .Router_sequence_number_lock = true ∧
    Generated.Locks.allUnder .Router__cbf_buffer .Router__cbf_lock = true ∧
    Generated.Locks.allUnder .Router__ls_timers .Router__ls_lock = true ∧
    Generated.Locks.allUnder .Router__ls_packet_buffers .Router__ls_lock = true ∧
    Generated.Locks.allUnder .Router__ls_retransmit_counters .Router__ls_lock = true ∧
    Generated.Locks.allUnder .ext_ls_pending .Router__ls_lock = true ∧
    Generated.Locks.allUnder .LocationTable_loc_t .LocationTable_loc_t_lock = true ∧
    Generated.Locks.allUnder .LocationTableEntry_dpl_set .LocationTableEntry_dpl_lock = true ∧
    Generated.Locks.allUnder .LocationTableEntry_dpl_deque .LocationTableEntry_dpl_lock = true := guarded

theorem source_blocks :
    Generated.Locks.shape .Router_get_sequence_number = [([.Router_sequence_number_lock], [.Router_sequence_number])] ∧
    Generated.Locks.shape .Router__cbf_timeout = [([.Router__cbf_lock], [.Router__cbf_buffer])] ∧
    Generated.Locks.shape .Router_refresh_ego_position_vector =
      [([.Router_ego_position_vector_lock], [.Router_ego_position_vector])] :=
  ⟨blocks_get_sequence_number, blocks_cbf_timeout, blocks_refresh_ego⟩

end Props.C15

/-
C15 — GeoNetworking router is safe under concurrent origination, reception and timers.
Property theorems only.  Model: `FlexModel/Conc/Sched.lean` (interleaving semantics), `FlexModel/Conc/RouterConc.lean`
(the router's atomic blocks, tied to the source by `Generated/Locks.lean`); helper lemmas in
`FlexModel/Conc/RouterLemmas.lean`.

Every theorem quantifies over ALL thread lists `threads : List (List Op)` (any number of threads, any operations,
any parameters) and ALL schedules `sched : List ThreadId`.
-/
import FlexModel.Conc.RouterLemmas
import FlexModel.Conc.RouterLocTLemmas
import FlexModel.Conc.RouterReduction

namespace Props.C15
open FlexModel.Conc FlexModel.Conc.Router

/-- final shared state of the router under a schedule -/
abbrev final (threads : List (List Op)) (sched : List ThreadId) : St := (run (sys threads) sched).sh

private theorem anyPurge (threads : List (List Op)) : ∀ ops ∈ threads, ∀ op ∈ ops, op.isPurge = true → true = true :=
  fun _ _ _ _ _ => rfl
private theorem anyOld (threads : List (List Op)) : ∀ ops ∈ threads, ∀ op ∈ ops, op.isOld = true → true = true :=
  fun _ _ _ _ _ => rfl
private theorem anyNew (threads : List (List Op)) : ∀ ops ∈ threads, ∀ op ∈ ops, op.isNew = true → true = true :=
  fun _ _ _ _ _ => rfl
private theorem anyUnl (threads : List (List Op)) : ∀ ops ∈ threads, ∀ op ∈ ops, op.isUnl = true → true = true :=
  fun _ _ _ _ _ => rfl

/-! ## Linearisation (generic, `Conc/Sched`) -/

/-- the state reached under any schedule is the sequential composition of the executed blocks in execution order -/
theorem linearisation (threads : List (List Op)) (sched : List ThreadId) :
    final threads sched = applyAll (trace (sys threads) sched) {} :=
  run_eq_trace (sys threads) sched

/-- … and that order respects every thread's program order -/
theorem linearisation_order (threads : List (List Op)) (sched : List ThreadId) (u : ThreadId) :
    tracedBy u (trace (sys threads) sched) ++ blocksOf (progOf (run (sys threads) sched) u)
      = blocksOf (progOf (sys threads) u) :=
  trace_thread_order (sys threads) sched u

/-! ## Sequence numbers -/

/-- the values returned by get_sequence_number are a consecutive run modulo 2^16 - 1 (newest first) -/
theorem sn_consecutive_run (threads : List (List Op)) (sched : List ThreadId) (i : Nat)
    (hi : i < (final threads sched).snLog.length) :
    (final threads sched).snLog[i]? = some (((final threads sched).snLog.length - i) % 65535) :=
  (router_inv true true true true SnInv threads (anyPurge threads) (anyOld threads) (anyNew threads) (anyUnl threads) (by simp [SnInv, M]) (SnInv_blk true true true true) sched).2 i hi

/-- any two allocations fewer than 65535 allocations apart returned different sequence numbers -/
theorem sn_distinct (threads : List (List Op)) (sched : List ThreadId) (i j : Nat) (hij : i < j)
    (hj : j < (final threads sched).snLog.length) (hw : j - i < 65535) :
    (final threads sched).snLog[i]? ≠ (final threads sched).snLog[j]? := by
  rw [sn_consecutive_run threads sched i (by omega), sn_consecutive_run threads sched j hj]
  intro h
  simp only [Option.some.injEq] at h
  omega

/-- every returned value is a 16-bit value below the modulus -/
theorem sn_range (threads : List (List Op)) (sched : List ThreadId) (v : Nat)
    (hv : v ∈ (final threads sched).snLog) : v < 65535 := by
  obtain ⟨i, hi, rfl⟩ := List.mem_iff_getElem.mp hv
  have := sn_consecutive_run threads sched i hi
  rw [List.getElem?_eq_getElem hi] at this
  simp only [Option.some.injEq] at this
  omega

example : (final [[.gbc 1, .gbc 2], [.gbc 3]] [0, 0, 0, 1, 1, 1, 0, 0, 0, 0, 0, 0, 0, 1, 1]).snLog = [3, 2, 1] := by decide +kernel

/-! ## Contention-based forwarding -/

/-- per key: packets sent + cancellations ≤ insertions – a buffered packet is transmitted at most once, a
cancelled one never -/
theorem cbf_at_most_once (threads : List (List Op)) (sched : List ThreadId) (k : Nat) :
    cbfPkts (final threads sched) k + (final threads sched).cbfCan k ≤ (final threads sched).cbfIns k := by
  have h := router_inv true true true true CbfInv threads (anyPurge threads) (anyOld threads) (anyNew threads) (anyUnl threads) (by intro k; simp [cbfPkts]) (CbfInv_blk true true true true) sched k
  obtain ⟨h1, h2, h3⟩ := h
  simp only [final] at *
  split at h1 <;> omega

/-- every transmission was committed by an expiry block that found the key in the buffer -/
theorem cbf_sends_le_commits (threads : List (List Op)) (sched : List ThreadId) (k : Nat) :
    cbfPkts (final threads sched) k ≤ (final threads sched).cbfCom k := by
  have h := router_inv true true true true CbfInv threads (anyPurge threads) (anyOld threads) (anyNew threads) (anyUnl threads) (by intro k; simp [cbfPkts]) (CbfInv_blk true true true true) sched k
  obtain ⟨_, h2, h3⟩ := h
  simp only [final] at *
  omega

/-- **never after its cancellation has completed**, over schedules: at every instant of every run (every schedule is
also every prefix of a longer one) each copy ever inserted for a key is in exactly ONE of four places – still buffered,
removed by a cancellation (duplicate arrival / discard), committed by an expiry block and transmitted, committed and
about to be transmitted by that timer thread.  A cancelled copy is therefore never among the transmitted ones, and an
expiry that starts after the cancel block finds nothing to commit. -/
theorem cbf_accounting (threads : List (List Op)) (sched : List ThreadId) (k : Nat) :
    let s := final threads sched
    s.cbfIns k = (if s.cbf k then 1 else 0) + s.cbfCan k + cbfPkts s k + s.cbfPend k := by
  have h := router_inv true true true true CbfInv threads (anyPurge threads) (anyOld threads) (anyNew threads) (anyUnl threads) (by intro k; simp [cbfPkts]) (CbfInv_blk true true true true) sched k
  obtain ⟨h1, h2, h3⟩ := h
  simp only [final] at *
  omega

/-- (block fact used in the explanation above, not a claim of its own) the cancel block leaves the key absent … -/
theorem cbf_cancel_removes (o k : Nat) (x : St) (h : x.cbf k = true) : (cbfArrive o k x).cbf k = false := by
  simp [cbfArrive, cbfDel, h]

/-- (block fact) … and an expiry block that starts while the key is absent commits nothing, so the send after it is the
identity -/
theorem cbf_no_send_after_cancel (o k : Nat) (x : St) (h : x.cbf k = false) :
    (cbfExpire o k x).cbfCom = x.cbfCom ∧ (cbfExpire o k x).reg o 2 = 0 ∧
      cbfSend o k (cbfExpire o k x) = cbfExpire o k x := by
  simp [cbfExpire, cbfSend, h, upd2]

example : cbfPkts (final [[.cbfArrive 1 7], [.cbfArrive 2 7], [.cbfFire 3 7 1]] [0, 0, 0, 0, 0, 0, 0, 1, 1, 1, 1, 1, 1, 1, 2, 2, 2, 2, 2]) 7 = 0 := by
  decide +kernel
example : cbfPkts (final [[.cbfArrive 1 7], [.cbfFire 3 7 1]] [0, 0, 0, 0, 0, 0, 0, 1, 1, 1, 1, 1]) 7 = 1 := by decide +kernel

/-- what the ONE `_cbf_lock` section of `_cbf_discard` buys (`source_cbf_discard_section`): with a lock-free look-up in front
of it (`discardUnlocked`: `get` without the lock, `cancel()`, then `pop(key, None)` under the lock, "discarded") the expiry
can take the entry between the look-up and the cancel - thread 1 commits after thread 0 has seen the timer, the discard
completes and reports a cancellation, the packet is transmitted AFTERWARDS: one insertion, one completed cancellation,
one transmission (`cbf_at_most_once` fails).  Same schedule on the code as it is (`discardLocked`): not transmitted. -/
theorem cbf_discard_unlocked_witness :
    let sched := List.replicate 8 0 ++ List.replicate 4 1 ++ List.replicate 3 0 ++ [1]
    let s := (run (mkSys ({} : St) [compile (.cbfArrive 1 7) ++ discardUnlocked 2 7, compile (.cbfFire 3 7 1)]) sched).sh
    let t := (run (mkSys ({} : St) [compile (.cbfArrive 1 7) ++ discardLocked 2 7, compile (.cbfFire 3 7 1)]) sched).sh
    (s.cbfIns 7 = 1 ∧ s.cbfCan 7 = 1 ∧ cbfPkts s 7 = 1 ∧ s.tCancelled 1 = true) ∧
    (t.cbfIns 7 = 1 ∧ t.cbfCan 7 = 1 ∧ cbfPkts t 7 = 0) := by decide +kernel

/-! ## Position vectors -/

/-- every emitted packet carries a PV that was the ego PV at some instant (installed by `egoSwap`, or the initial one) -/
theorem pv_was_ego (threads : List (List Op)) (sched : List ThreadId) (p : Pkt)
    (hp : p ∈ (final threads sched).sent) : p.pv ∈ (final threads sched).egoHist :=
  (router_inv true true true true PvInv threads (anyPurge threads) (anyOld threads) (anyNew threads) (anyUnl threads) (by simp [PvInv]) (PvInv_blk true true true true) sched).2.2.2 p hp

example : ((final [[.ego 5], [.shb 1]] [1, 0, 0, 1, 0]).sent.map (·.pv)) = [0] := by decide +kernel

/-- … which rests on the refresh being ONE store (`source_single_publication`): the lock of the section does not help,
the readers take none.  A refresh that stores an intermediate vector 7 and then the fix 5 inside the same
`ego_position_vector_lock` section, pre-empted between the two stores by an SHB origination: the packet carries 7, which
no refresh ever published -/
theorem pv_was_ego_witness :
    let s := (run (mkSys ({} : St) [twoStoreRefresh 7 5, compile (.shb 1)]) [0, 0, 1, 1, 0, 0]).sh
    s.sent.map (·.pv) = [7] ∧ s.egoHist = [5, 0] := by decide +kernel

/-! ## Location service -/

def noPurge (threads : List (List Op)) : Prop := ∀ ops ∈ threads, ∀ op ∈ ops, op.isPurge = false
/-- every GeoUnicast request is handled by the code with the LS-order commit (a lookup in progress is recognised by
its retransmit counter even when the placeholder LocTE was purged) -/
def allFixed (threads : List (List Op)) : Prop := ∀ ops ∈ threads, ∀ op ∈ ops, op.isOld = false
def allOld (threads : List (List Op)) : Prop := ∀ ops ∈ threads, ∀ op ∈ ops, op.isNew = false

/-- conservation (both code variants, with or without LocT purges): a buffered request is, counted with multiplicity,
in exactly one place – still buffered, popped by a reply block and about to be sent by that thread, sent, dropped by
the give-up block, or lost (overwritten by a new registration) -/
theorem ls_conservation (threads : List (List Op)) (sched : List ThreadId) (d r : Nat) :
    let s := final threads sched
    (s.lsQueued d).count r =
      (s.lsBuf d).count r + (s.lsFlight d).count r + (s.lsSent d).count r + (s.lsDropped d).count r + (s.lsLost d).count r :=
  router_inv true true true true LsInv threads (anyPurge threads) (anyOld threads) (anyNew threads) (anyUnl threads) (by intro d r; simp) (LsInv_blk true true true true) sched d r

/-- **Exactly once** for the code as it is now, under ANY interleaving with LocT purges (received frames), replies and
timer expiries: nothing is ever lost, hence each buffered request is sent exactly once after a reply block popped it,
or dropped by the give-up block, or still waiting – never both, never twice. -/
theorem ls_exactly_once (threads : List (List Op)) (hfx : allFixed threads) (sched : List ThreadId) (d r : Nat) :
    let s := final threads sched
    (s.lsQueued d).count r =
      (s.lsBuf d).count r + (s.lsFlight d).count r + (s.lsSent d).count r + (s.lsDropped d).count r := by
  have hq : ∀ ops ∈ threads, ∀ op ∈ ops, op.isOld = true → false = true := by
    intro ops ho op hop h
    rw [hfx ops ho op hop] at h
    cases h
  have h1 := ls_conservation threads sched d r
  have h2 := (router_inv true false true true LsNoLossB threads (anyPurge threads) hq (anyNew threads) (anyUnl threads) (by intro d; simp) (LsNoLossB_blk true true) sched d).2.2
  simp only [final] at *
  rw [h2] at h1
  simpa using h1

/-- never both sent and dropped, never sent twice: for a request buffered once -/
theorem ls_never_both_never_twice (threads : List (List Op)) (hfx : allFixed threads) (sched : List ThreadId) (d r : Nat)
    (hq : ((final threads sched).lsQueued d).count r = 1) :
    ((final threads sched).lsSent d).count r + ((final threads sched).lsDropped d).count r ≤ 1 := by
  have := ls_exactly_once threads hfx sched d r
  simp only at this
  omega

/-- no request is stranded: a request is buffered only while a lookup for its destination is in progress (its
retransmit counter exists), so a reply will flush it or the final retry will drop it – never "buffered behind a lookup
that no longer exists" -/
theorem ls_no_stranded_buffer (threads : List (List Op)) (hfx : allFixed threads) (sched : List ThreadId) (d : Nat)
    (h : (final threads sched).lsBuf d ≠ []) : ((final threads sched).lsCnt d).isSome = true := by
  have hq : ∀ ops ∈ threads, ∀ op ∈ ops, op.isOld = true → false = true := by
    intro ops ho op hop h
    rw [hfx ops ho op hop] at h
    cases h
  have h1 := (router_inv true false true true LsNoLossB threads (anyPurge threads) hq (anyNew threads) (anyUnl threads) (by intro d; simp) (LsNoLossB_blk true true) sched d).1
  cases hc : (final threads sched).lsCnt d with
  | none => exact absurd (h1 hc) h
  | some c => rfl

/-- "sent … after the reply": a buffered request is handed to the flush loop / counted as sent only after a reply block
for its destination has run (both code variants) -/
theorem ls_sent_after_reply (threads : List (List Op)) (sched : List ThreadId) (d : Nat)
    (h : (final threads sched).lsFlight d ≠ [] ∨ (final threads sched).lsSent d ≠ []) :
    0 < (final threads sched).lsPops d :=
  router_inv true true true true LsAfter threads (anyPurge threads) (anyOld threads) (anyNew threads) (anyUnl threads)
    (by intro d h; simp at h) (LsAfter_blk true true true true) sched d h

example : ((final [[.guc 1 1 9 true], [.lsReply 2 9 1 true]] (List.replicate 40 0 ++ List.replicate 30 1)).lsPops 9) = 1 := by
  decide +kernel

/-- the code before the LS-order commit (known finding C15-KF1): exactly-once outside the known region, i.e. as long
as no received frame purges a placeholder LocTE during the lookup … -/
theorem ls_exactly_once_partial (threads : List (List Op)) (hnp : noPurge threads) (hold : allOld threads)
    (sched : List ThreadId) (d r : Nat) :
    let s := final threads sched
    (s.lsQueued d).count r =
      (s.lsBuf d).count r + (s.lsFlight d).count r + (s.lsSent d).count r + (s.lsDropped d).count r := by
  have hp : ∀ ops ∈ threads, ∀ op ∈ ops, op.isPurge = true → false = true := by
    intro ops ho op hop h
    rw [hnp ops ho op hop] at h
    cases h
  have hn : ∀ ops ∈ threads, ∀ op ∈ ops, op.isNew = true → false = true := by
    intro ops ho op hop h
    rw [hold ops ho op hop] at h
    cases h
  have h1 := ls_conservation threads sched d r
  have h2 := (router_inv false true false true LsNoLossA threads hp (anyOld threads) hn (anyUnl threads) (by intro d; simp) (fun f hf => LsNoLossA_blk f true hf) sched d).2
  simp only [final] at *
  rw [h2] at h1
  simpa using h1

/-- … and inside it a request IS lost, sequentially: request 1 to destination 9, purge of the placeholder, request 2. -/
theorem ls_exactly_once_witness :
    (final [[.guc 1 1 9 false, .purge 9, .guc 2 2 9 false]] (List.replicate 80 0)).lsLost 9 = [1] := by decide +kernel

/-- the same history on the code as it is now loses nothing -/
example : (final [[.guc 1 1 9 true, .purge 9, .guc 2 2 9 true]] (List.replicate 80 0)).lsBuf 9 = [1, 2] := by decide +kernel

/-- what the retransmit-counter test of the registration section buys (`source_ls_guard`): WITHOUT it
(`gucNoCounter`: in-progress iff the LocTE exists and is flagged) a request is lost, sequentially, although the
placeholder is created and flagged atomically and a flagged placeholder is never purged: request 1 starts a lookup for
destination 9; a beacon of station 9 itself gives the entry a position vector; that vector ages out and refresh_table
drops the entry (`exp = [9]`) while the lookup is still running; request 2 finds no LocTE, starts a second lookup and
overwrites the buffer -/
theorem ls_exactly_once_counter_witness :
    (run (mkSys ({} : St)
      [gucNoCounter 1 1 9 ++ compile (.shbRx 5 9 true []) ++ compile (.refresh [9]) ++ gucNoCounter 2 2 9])
      (List.replicate 120 0)).sh.lsLost 9 = [1] := by
  decide +kernel

/-- the same history on the code as it is: both requests wait behind the ONE lookup -/
example :
    (final [[.guc 1 1 9 true, .shbRx 5 9 true [], .refresh [9], .guc 2 2 9 true]] (List.replicate 120 0)).lsBuf 9 = [1, 2] := by
  decide +kernel

/-- the placeholder LocTE is created AND flagged in one `loc_t_lock` block (`lsEnsure`, repair C01-F4): a refresh_table
that runs between that block and the rest of the registration (thread 1, between steps 13 and 14 of thread 0) keeps it,
and a third thread's request queues behind the lookup -/
example :
    let s := final [[.guc 1 1 9 true], [.refresh []], [.guc 2 2 9 true]]
      (List.replicate 13 0 ++ List.replicate 5 1 ++ List.replicate 40 0 ++ List.replicate 40 2)
    s.lsBuf 9 = [1, 2] ∧ s.loct 9 = true ∧ s.pending 9 = true := by
  decide +kernel

/-- **handed to exactly one reply**: the reply section REMOVES the buffer it reads (`pop`), so of two replies for the same
destination - handled by any two threads in any order - the second gets nothing to flush (block facts) … -/
theorem ls_reply_takes_buffer (o o' d : Nat) (s : St) :
    (lsReplyPop o d s).lsBuf d = [] ∧ (lsReplyPop o' d (lsReplyPop o d s)).regL o' = [] :=
  ⟨lsReplyPop_empties o d s, lsReplyPop_second_gets_nothing o o' d s⟩

/-- … and what that buys: with `get` instead of `pop` (the entry deleted only after the flush loop, `lsReplyPeekProg`) two
replies of station 9 (the answers to an LS request and to its retransmission) handled by two threads both read request 1
and both send it; on the code as it is (same schedule) it is sent once -/
theorem ls_flush_twice_witness :
    let sched := List.replicate 35 0 ++ List.replicate 60 1 ++ List.replicate 60 0
    let s := (run (mkSys ({} : St) [compile (.guc 1 1 9 true) ++ lsReplyPeekProg 2 9 true, lsReplyPeekProg 3 9 true]) sched).sh
    let t := final [[.guc 1 1 9 true, .lsReply 2 9 1 true], [.lsReply 3 9 1 true]] sched
    (s.sent.filter (·.kind == 2)).map (·.ref) = [1, 1] ∧ (t.sent.filter (·.kind == 2)).map (·.ref) = [1] ∧ t.lsSent 9 = [1] := by
  decide +kernel

/-- the window between sending the LS request and storing its timer: a reply handled in that window leaves a live,
uncancelled retransmit timer behind (spurious retransmissions; no request is lost – `ls_exactly_once`). -/
theorem ls_stale_timer_witness :
    let s := final [[.guc 1 1 9 true], [.lsReply 2 9 1 true]]
      (List.replicate 22 0 ++ List.replicate 30 1 ++ List.replicate 10 0)
    s.lsTimer 9 = some 1 ∧ s.tStarted 1 = true ∧ s.tCancelled 1 = false ∧ s.lsSent 9 = [1] ∧ s.pending 9 = false := by
  decide +kernel

example : ((final [[.guc 1 1 9 true], [.lsReply 2 9 1 true]] (List.replicate 40 0 ++ List.replicate 30 1)).lsSent 9) = [1] := by
  decide +kernel

/-! ## Duplicate detection and the LocTE life cycle

A received multi-hop packet is delivered / forwarded iff `check_duplicate_sn` of its source's LocTE accepts its sequence
number.  `srcPass a` lists the sequence numbers accepted from source `a` since its entry was last purged (oldest first),
`srcLives a` the lists closed by earlier purges; `ePass e` is the same per LocTE object. -/

/-- every frame reception is handled by the code with repair C15-locte-update-under-lock (get-or-create and entry
update in one `loc_t_lock` section) -/
def allLocked (threads : List (List Op)) : Prop := ∀ ops ∈ threads, ∀ op ∈ ops, op.isUnl = false

/-- the lives of the entry of source `a`: the acceptances since the last purge, and those closed by a purge -/
def lives (s : St) (a : Nat) : List (List Nat) := s.srcPass a :: s.srcLives a

theorem dpl_window : dplLen = Generated.Mib.itsGnDPLLength ∧ 0 < dplLen := ⟨rfl, dplLen_pos⟩

/-- the duplicate-detection invariant of the code as it is now, after ANY schedule of ANY threads -/
theorem dpl_invariant (threads : List (List Op)) (hfx : allFixed threads) (hlk : allLocked threads)
    (sched : List ThreadId) : DplInv (final threads sched) := by
  have hq : ∀ ops ∈ threads, ∀ op ∈ ops, op.isOld = true → false = true := by
    intro ops ho op hop h
    rw [hfx ops ho op hop] at h
    cases h
  have hu : ∀ ops ∈ threads, ∀ op ∈ ops, op.isUnl = true → false = true := by
    intro ops ho op hop h
    rw [hlk ops ho op hop] at h
    cases h
  exact router_inv true false true false DplInv threads (anyPurge threads) hq (anyNew threads) hu DplInv_init
    (DplInv_blk true true) sched

/-- **A data packet with a given source and sequence number passes duplicate detection at most once while the source's
LocTE lives, within the DPL window** – under every interleaving of receptions (of any sources and sequence numbers,
concurrent receptions of the same packet included), purges by refresh_table (with any set of expired entries),
location-service operations, originations and timers: in every life `l` of the entry of every source `a`, two
acceptances at most `itsGnDPLLength` acceptances apart carry different sequence numbers.
Hypotheses: the operations are those of the code as it is now (`allFixed`: location service with the LS-order commit;
`allLocked`: LocTE updated inside the `loc_t_lock` section that creates it). -/
theorem dpl_at_most_once (threads : List (List Op)) (hfx : allFixed threads) (hlk : allLocked threads)
    (sched : List ThreadId) (a : Nat) (l : List Nat) (hl : l ∈ lives (final threads sched) a)
    (i j : Nat) (hij : i < j) (hj : j < l.length) (hw : j ≤ i + dplLen) : l[i]? ≠ l[j]? := by
  obtain ⟨hobj, _, _, h3, h4, h5⟩ := dpl_invariant threads hfx hlk sched
  apply Accepts_window dplLen l _ i j hij hj hw
  rcases List.mem_cons.mp hl with rfl | hl
  · cases hla : (final threads sched).loct a
    · rw [h4 a hla]; exact Accepts_nil _
    · rw [h3 a hla]; exact (hobj _).2
  · exact h5 a l hl

/-- … and the ring stored in the table for a source is exactly the window of annex A.2: the last `itsGnDPLLength`
sequence numbers accepted from that source during the current life of its entry (`lastN` as in C06 `dpl_ring`) -/
theorem dpl_ring_is_window (threads : List (List Op)) (hfx : allFixed threads) (hlk : allLocked threads)
    (sched : List ThreadId) (a : Nat) (ha : (final threads sched).loct a = true) :
    (final threads sched).eDpl ((final threads sched).eid a) = FlexModel.Geo.lastN dplLen ((final threads sched).srcPass a) := by
  obtain ⟨hobj, _, _, h3, _, _⟩ := dpl_invariant threads hfx hlk sched
  rw [h3 a ha]; exact (hobj _).1

/-- non-vacuity: two concurrent receptions of the same GBC (source 50, SN 7) by the repaired code, the second thread
pre-empting the first between its first refresh_table and its `loc_t_lock` section – accepted exactly once -/
example :
    allFixed [[.gbcRx 1 50 7 true false []], [.gbcRx 2 50 7 true false []]] ∧
    allLocked [[.gbcRx 1 50 7 true false []], [.gbcRx 2 50 7 true false []]] ∧
    (final [[.gbcRx 1 50 7 true false []], [.gbcRx 2 50 7 true false []]]
      (List.replicate 6 0 ++ List.replicate 25 1 ++ List.replicate 20 0)).srcPass 50 = [7] := by
  refine ⟨by simp [allFixed, Op.isOld], by simp [allLocked, Op.isUnl], by decide +kernel⟩

/-- the code before the repair (known finding C15-KF2), any threads, any schedule: duplicate detection is still
correct PER LocTE OBJECT – `check_duplicate_sn` checks and appends under the object's `dpl_lock` – … -/
theorem dpl_at_most_once_partial (threads : List (List Op)) (sched : List ThreadId) (e : Nat)
    (i j : Nat) (hij : i < j) (hj : j < ((final threads sched).ePass e).length) (hw : j ≤ i + dplLen) :
    ((final threads sched).ePass e)[i]? ≠ ((final threads sched).ePass e)[j]? := by
  have h := router_inv true true true true ObjInv threads (anyPurge threads) (anyOld threads) (anyNew threads) (anyUnl threads)
    (fun e => ⟨by simp [FlexModel.Geo.lastN], Accepts_nil _⟩) (ObjInv_blk true true true true) sched
  exact Accepts_window dplLen _ (h e).2 i j hij hj hw

/-- … but a source can have TWO objects: thread 0 creates the entry of source 50 and is pre-empted before the update;
thread 1's refresh_table drops the entry (no position vector yet), thread 1 creates a second one and accepts SN 7 on
it; thread 0 then accepts SN 7 on the object it still holds: accepted twice within one life -/
theorem dpl_at_most_once_witness :
    (final [[.gbcRx 1 50 7 false false []], [.gbcRx 2 50 7 false false []]]
      (List.replicate 6 0 ++ List.replicate 25 1 ++ List.replicate 20 0)).srcPass 50 = [7, 7] := by decide +kernel

/-! ## A `with lock:` section is ONE atomic block: reduction at the level of attribute accesses

`FlexModel/Conc/RouterReduction.lean` builds, from `Generated/Locks.lean`, the instruction-level programs in which every
recorded access to a lock-guarded attribute (sequence counter, CBF buffer, LS dictionaries, `ls_pending`, `loc_t`, DPL)
is a micro-step of its own, for ANY list of threads calling ANY functions and ANY values computed by the writes.  The
mechanised reduction theorem (`Props.ConcReduction.block_model_sound`) then says that the model in which each section is
one block loses nothing: -/

open FlexModel.Conc.Reduction FlexModel.Conc.Router.Red in
/-- every thread list, every computed value (`sem`), every initial state, every schedule of the ACCESS-level system:
(1) whatever holds in all states of the block model holds whenever no thread is in the middle of a section,
(2) every complete access-level run ends in a state that a complete run of the block model produces.
The only fact about the source is `Red.sections_checked` (`decide` against the regenerated lock map). -/
theorem sections_atomic (sem : Sem) (threads : List (List Generated.Locks.Fn)) (x : Var → Nat) (sched : List ThreadId) :
    (∀ P : (Var → Nat) → Prop, (∀ csched, P (run (mkSys x (blockProgs sem threads)) csched).sh) →
        Quiescent (run (mkSys x (fineProgs sem threads)) sched) → P (run (mkSys x (fineProgs sem threads)) sched).sh) ∧
    (finished (run (mkSys x (fineProgs sem threads)) sched) = true →
        ∃ csched, finished (run (mkSys x (blockProgs sem threads)) csched) = true ∧
          (run (mkSys x (blockProgs sem threads)) csched).sh = (run (mkSys x (fineProgs sem threads)) sched).sh) :=
  block_model_sound (blockProgs sem threads) (fineProgs sem threads) rfl (access_discipline sem threads) x sched

open FlexModel.Conc.Reduction FlexModel.Conc.Router.Red in
/-- the commutation discipline behind it, and the fact about the source it rests on -/
theorem sections_discipline (sem : Sem) (threads : List (List Generated.Locks.Fn)) :
    Discipline (fineProgs sem threads) ∧
      Generated.Locks.allFns.all (fun f => (Generated.Locks.blocks f).all secOK) = true :=
  ⟨access_discipline sem threads, sections_checked⟩

open FlexModel.Conc.Reduction FlexModel.Conc.Router.Red in
/-- non-vacuity: `get_sequence_number` is a section of TWO micro-steps (read-modify-write of the counter, load of the
returned value) which fuse into the one block `sect … (pipe …)`; two threads calling it give a fine system with states
that are not quiescent -/
example (sem : Sem) :
    fuse (eraseProg (fnA sem 0 .Router_get_sequence_number)) =
      sect (lkNum .Router_sequence_number_lock)
        (pipe [(mbOf sem 0 .Router_get_sequence_number 0 .Router_sequence_number .rmw).f,
               (mbOf sem 0 .Router_get_sequence_number 1 .Router_sequence_number .read).f]) := rfl

open FlexModel.Conc.Reduction FlexModel.Conc.Router.Red in
example : quiescentB (run (mkSys (fun _ => 0) (fineProgs (fun _ _ _ => 0)
    [[.Router_get_sequence_number], [.Router_get_sequence_number]])) [0, 0]) = false := by decide +kernel

/-! ## Deadlock freedom, exceptions -/

/-- the lock-order graph regenerated from the source is acyclic (all edges go up in `lkRank`), only RLocks are
re-acquired by their holder -/
theorem lock_order_acyclic :
    Generated.Locks.ranked lkRank = true ∧
      Generated.Locks.reentrantSelf.all (fun l => Generated.Locks.reentrant.contains l) = true :=
  ⟨order_ranked, reentrant_only⟩

/-- no reachable state is a deadlock -/
theorem no_deadlock (threads : List (List Op)) (sched : List ThreadId) : ¬ Deadlock (run (sys threads) sched) :=
  FlexModel.Conc.no_deadlock rank (sys threads) (WF_sys threads) sched

/-- no thread fails: the two statements of the router that can raise on shared state – `del self._cbf_buffer[key]` in
`_cbf_timeout` and `self._cbf_buffer.pop(key)` in the duplicate branch of `gn_area_cbf_forwarding` (`cbfDel`: KeyError
when the key is absent) – run in the `_cbf_lock` section that has just seen the key, so the error branch is never taken -/
theorem no_thread_fails (threads : List (List Op)) (sched : List ThreadId) : (final threads sched).err = 0 :=
  router_inv true true true true ErrInv threads (anyPurge threads) (anyOld threads) (anyNew threads) (anyUnl threads) rfl (ErrInv_blk true true true true) sched

/-- … and this is what the one-section shape buys (`blocks_cbf_timeout`): with the membership test and the `del` in two
sections the timer thread fails – a forwarder inserts key 7 (thread 0), the timer thread sees the key (thread 1, first
section), a duplicate cancels it (thread 2), the timer thread's `del` raises KeyError -/
theorem no_thread_fails_witness :
    (run (mkSys ({} : St)
      [compile (.cbfArrive 1 7),
       [.acq lkCbf, .blk (cbfCheck 3 7), .rel lkCbf, .acq lkCbf, .blk (whenReg 3 2 1 (cbfDelCommit 7)), .rel lkCbf],
       compile (.cbfArrive 2 7)])
      (List.replicate 8 0 ++ List.replicate 3 1 ++ List.replicate 8 2 ++ List.replicate 3 1)).sh.err = 1 := by decide +kernel

/-- the third statement that can raise on shared state: the neighbour scan of `get_neighbours` (dict iterator).  Inside
its `loc_t_lock` section (`source_locte_blocks`; one atomic block by `sections_atomic`) it cannot
(`scan_in_section`); WITHOUT the lock an origination that scans the table (thread 0) fails as soon as a GeoUnicast to an
unknown destination (thread 1) lets `ensure_entry` insert the location-service placeholder between two steps of the scan -/
theorem no_thread_fails_scan_witness :
    (run (mkSys ({} : St) [scanUnlocked 1, compile (.guc 2 2 9 true)]) ([0] ++ List.replicate 40 1 ++ [0])).sh.err = 1 ∧
    (run (mkSys ({} : St) [scanLocked 1, compile (.guc 2 2 9 true)])
      ([0, 0] ++ List.replicate 40 1 ++ [0, 0] ++ List.replicate 40 1)).sh.err = 0 := by decide +kernel

/-! ## Tie to the source (re-exported obligations; see `RouterConc` for the individual block lists) -/

theorem source_lock_map :
    Generated.Locks.allUnder .Router_sequence_number .Router_sequence_number_lock = true ∧
    Generated.Locks.allUnder .Router__cbf_buffer .Router__cbf_lock = true ∧
    Generated.Locks.allUnder .Router__ls_timers .Router__ls_lock = true ∧
    Generated.Locks.allUnder .Router__ls_packet_buffers .Router__ls_lock = true ∧
    Generated.Locks.allUnder .Router__ls_retransmit_counters .Router__ls_lock = true ∧
    Generated.Locks.allUnder .ext_ls_pending .Router__ls_lock = true ∧
    Generated.Locks.allUnder .LocationTable_loc_t .LocationTable_loc_t_lock = true ∧
    Generated.Locks.allUnder .LocationTableEntry_dpl_set .LocationTableEntry_dpl_lock = true ∧
    Generated.Locks.allUnder .LocationTableEntry_dpl_deque .LocationTableEntry_dpl_lock = true := guarded

theorem source_blocks :
    Generated.Locks.shape .Router_get_sequence_number = [([.Router_sequence_number_lock], [.Router_sequence_number])] ∧
    Generated.Locks.shape .Router__cbf_timeout = [([.Router__cbf_lock], [.Router__cbf_buffer])] ∧
    Generated.Locks.shape .Router_refresh_ego_position_vector =
      [([.Router_ego_position_vector_lock], [.Router_ego_position_vector])] :=
  ⟨blocks_get_sequence_number, blocks_cbf_timeout, blocks_refresh_ego⟩

/-- `_cbf_discard` (duplicate overheard while the packet waits in the CBF buffer) looks the buffered copy up AND removes it in
ONE `_cbf_lock` section and touches the buffer nowhere else: discard and expiry (`_cbf_timeout`, same lock) exclude each
other - `cbf_discard_unlocked_witness` shows what a lock-free look-up in front of the section breaks -/
theorem source_cbf_discard_section :
    Generated.Locks.shape .Router__cbf_discard = [([.Router__cbf_lock], [.Router__cbf_buffer])] := blocks_cbf_discard

/-- the LS reply handler has ONE `_ls_lock` section and its access to the packet buffers there is a write (`pop`): the
buffered requests are handed to exactly one reply (`ls_reply_takes_buffer`, `ls_flush_twice_witness`) -/
theorem source_ls_reply_pops :
    Generated.Locks.shape .Router_gn_data_indicate_ls_reply =
      [([.Router__ls_lock], [.Router__ls_packet_buffers, .Router__ls_retransmit_counters, .Router__ls_timers, .ext_ls_pending])] ∧
    (Generated.Locks.blocks .Router_gn_data_indicate_ls_reply).map
        (fun b => (b.1, b.2.filter (fun x => x.1 == .Router__ls_packet_buffers))) =
      [([.Router__ls_lock], [(.Router__ls_packet_buffers, .write)])] :=
  ⟨blocks_ls_reply, ls_reply_pops_buffer⟩

/-- the ego position vector is published by exactly ONE store per refresh (and rebound nowhere else after construction) -/
theorem source_single_publication :
    Generated.Locks.rebindCount .Router_refresh_ego_position_vector .Router_ego_position_vector = 1 ∧
    (Generated.Locks.rebinds.all fun r => r.2.1 != .Router_ego_position_vector ||
      r.1 == .Router_refresh_ego_position_vector || r.1 == .Router_setup_gn_address) = true := ego_single_store

/-- the registration section of gn_ls_request tests the retransmit counters (a lookup in progress is recognised even when
its placeholder LocTE is not in the table) -/
theorem source_ls_guard :
    ((Generated.Locks.blocks .Router_gn_ls_request).head?.map fun b =>
      b.1 == [.Router__ls_lock] && b.2.contains (.Router__ls_retransmit_counters, .read)) = some true ∧
    ((Generated.Locks.blocks .Router_gn_ls_request).any fun b =>
      b.1 == [.Router__ls_lock] && b.2.contains (.Router__ls_retransmit_counters, .write)) = true :=
  ls_request_checks_counter

/-- gn_ls_request creates (or fetches) the placeholder LocTE and stores its `ls_pending` flag inside ONE `loc_t_lock`
section nested in the `_ls_lock` section, in both branches (`lsEnsure` is one block for every `loc_t_lock` holder) -/
theorem source_ls_placeholder :
    Generated.Locks.shape .Router_gn_ls_request =
      [([.Router__ls_lock], [.Router__ls_retransmit_counters]),
       ([.Router__ls_lock, .LocationTable_loc_t_lock], [.ext_ls_pending]),
       ([.Router__ls_lock], [.Router__ls_packet_buffers]),
       ([.Router__ls_lock, .LocationTable_loc_t_lock], [.ext_ls_pending]),
       ([.Router__ls_lock], [.Router__ls_packet_buffers, .Router__ls_retransmit_counters]),
       ([.Router__ls_lock], [.Router__ls_timers])] ∧
    ((Generated.Locks.calls .Router_gn_ls_request).filter fun c => c.2 == .LocationTable_ensure_entry) =
      [([.Router__ls_lock, .LocationTable_loc_t_lock], .LocationTable_ensure_entry),
       ([.Router__ls_lock, .LocationTable_loc_t_lock], .LocationTable_ensure_entry)] := blocks_ls_request

/-- the LocTE life cycle: refresh_table / get_neighbours / get_entry / ensure_entry are single `loc_t_lock` sections and
the seven `new_*_packet` functions have the section shape `rxProg` assumes (see `RouterConc.blocks_new_packet`) -/
theorem source_locte_blocks :
    Generated.Locks.shape .LocationTable_refresh_table = [([.LocationTable_loc_t_lock], [.LocationTable_loc_t])] ∧
    Generated.Locks.shape .LocationTable_get_neighbours = [([.LocationTable_loc_t_lock], [.LocationTable_loc_t])] ∧
    Generated.Locks.shape .LocationTable_get_entry = [([.LocationTable_loc_t_lock], [.LocationTable_loc_t])] ∧
    Generated.Locks.shape .LocationTable_ensure_entry = [([.LocationTable_loc_t_lock], [.LocationTable_loc_t])] ∧
    ((rxFns.all rxLocked && updatersUnderLocT) || (Generated.OpenFindings.C15_KF2 && rxFns.all rxUnlocked)) = true :=
  ⟨blocks_refresh_table, blocks_get_neighbours, blocks_get_entry, blocks_ensure_entry, blocks_new_packet⟩

end Props.C15

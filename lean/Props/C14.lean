/-
C14 — LDM subscriptions notify exactly the matching data, at the requested cadence.
Property theorems only.  Model: FlexModel/Ldm/Subs.lean (repaired code; variant `uniqueIds` for known finding
C14-KF1); lemmas: FlexModel/Ldm/SubsLemmas.lean; the query of a subscription is C13's (`Props.C13.query_exact`).
-/
import FlexModel.Ldm.SubsLemmas
import FlexModel.Ldm.QueryLemmas

namespace Props.C14
open FlexModel.Ldm FlexModel.Ldm.Spec Generated.Ldm

/-! ## what is notified -/

/-- **notify_exact** (all histories, every step): every callback invocation made by any operation — explicit
attendance or the reactive one inside `add` — belongs to a subscription stored before the operation, whose consumer
is registered, and carries exactly the result of that subscription's query on the store as it is after the
operation, in the query's order. -/
theorem notify_exact (cfg : Cfg) (u : Bool) (s : SSt) (op : SOp) (c : Call) (hc : c ∈ (sstep cfg u s op).2.calls) :
    ∃ x ∈ s.subs, c.cb = x.cb ∧ c.app = x.req.app ∧
      (sstep cfg u s op).1.core.consumers.contains x.req.app = true ∧
      subMatches ((sstep cfg u s op).1.core.db.rows.map (·.2)) x.req = .ok (some c.objs) :=
  sstep_calls cfg u s op c hc

theorem stableSort_lex_perm (κ : OrderKey → Record → Int) (ks : List OrderKey) (l : List Record) :
    (stableSort (lexLe (ks.map (effKey κ))) l).Perm l := by
  rw [stableSort_eq_mergeSort _ (lexLe_trans _) (lexLe_total _)]
  exact List.mergeSort_perm l _

/-- what `subMatches` yields is the specification's query (C13) whenever at least `max 1 multiplicity` objects are
selected: the selected objects of the subscribed types that satisfy the filter, stably sorted by the order keys -/
theorem notified_objects_are_the_query (κ : OrderKey → Record → Int) (rows : List Record) (r : SubReq)
    (hwf : ∀ g, r.filter = some g → WFFilter g)
    (hk : ∀ ks, r.order = some ks → ∀ x ∈ select rows r.types r.filter, ∀ k ∈ ks, orderKeyOf x k = .ok (.int (κ k x)))
    (objs : List Record) (h : subMatches rows r = .ok (some objs)) :
    objs = query κ rows r.types r.filter r.order ∧ objs.length ≥ 1 ∧
      (∀ m, r.mult = some m → (objs.length : Int) ≥ m) := by
  unfold subMatches at h
  rw [dictSearch_eq_select rows r.types r.filter hwf] at h
  simp only at h
  by_cases he : (select rows r.types r.filter).isEmpty = true
  · simp [he, pure, Except.pure] at h
  · simp only [he, Bool.false_eq_true, if_false] at h
    have hlen : (select rows r.types r.filter).length ≥ 1 := by
      cases hs : select rows r.types r.filter with
      | nil => simp [hs] at he
      | cons a t => simp
    have hmult : ∀ m, r.mult = some m → ((select rows r.types r.filter).length : Int) ≥ m := by
      intro m hmm
      by_cases hgt : m > ((select rows r.types r.filter).length : Int)
      · simp [hmm, hgt, pure, Except.pure] at h
      · omega
    have hrest : (match r.order with
        | none => (pure (some (select rows r.types r.filter)) : Except Err (Option (List Record)))
        | some ks => do
          let o ← orderResults (select rows r.types r.filter) ks
          pure (some o)) = .ok (some objs) := by
      cases hmm : r.mult with
      | none => simp only [hmm, Bool.false_eq_true, if_false] at h; exact h
      | some m =>
        have hng : ¬ m > ((select rows r.types r.filter).length : Int) := by have := hmult m hmm; omega
        simp only [hmm, hng, decide_false, Bool.false_eq_true, if_false] at h
        exact h
    cases ho : r.order with
    | none =>
      simp only [ho, pure, Except.pure] at hrest
      injection hrest with hrest; injection hrest with hrest; subst hrest
      exact ⟨by simp [query], hlen, fun m hmm => hmult m hmm⟩
    | some ks =>
      simp only [ho, orderResults_eq κ ks _ (hk ks ho), bind, Except.bind, pure, Except.pure] at hrest
      injection hrest with hrest; injection hrest with hrest; subst hrest
      have hp := (stableSort_lex_perm κ ks (select rows r.types r.filter)).length_eq
      exact ⟨by simp [query], by rw [hp]; exact hlen, fun m hmm => by rw [hp]; exact hmult m hmm⟩

/-- **notify_iff**: at an attendance a registered consumer's subscription is notified if and only if its query
yields something to notify (at least `max 1 multiplicity` matching objects) and the notification interval has
passed since its previous notification (or since the subscription), at the LDM's one-second clock — so matching
data is notified by the first attendance after the interval. -/
theorem notify_iff (s : SSt) (x : Sub) (s1 : SSt) (cs : List Call) (d : Bool) (h : attendOne s x = .ok (s1, cs, d))
    (hreg : s.core.consumers.contains x.req.app = true) :
    (cs ≠ [] ↔ (∃ objs, subMatches (s.core.db.rows.map (·.2)) x.req = .ok (some objs)) ∧ intervalElapsed s x = true) := by
  obtain ⟨_, _, _, h4, h5⟩ := attendOne_spec s x s1 cs d h
  constructor
  · intro hne
    cases cs with
    | nil => exact absurd rfl hne
    | cons c t =>
      obtain ⟨_, _, _, _, a5, a6⟩ := h4 c (by simp)
      exact ⟨⟨c.objs, a5⟩, a6⟩
  · rintro ⟨⟨objs, ho⟩, hi⟩ hnil
    rcases h5 hnil hreg with h | h
    · rw [ho] at h; cases h
    · rw [hi] at h; cases h

/-- the interval test at one-second resolution: `last + interval ≤ now`, both whole seconds in ITS milliseconds -/
theorem interval_rule (s : SSt) (x : Sub) (last n : Int) (hl : lcGet s.lastChecked x = some last)
    (hn : x.req.notify = some n) : intervalElapsed s x = true ↔ last + n ≤ nowIts s.core.utcMs := by
  simp only [intervalElapsed, hl, hn, Option.getD_some, Bool.not_eq_true', decide_eq_false_iff_not, Int.not_lt]

/-! ## after unsubscription / deregistration -/

/-- **no callback without a subscription** (all histories): once no stored subscription carries the callback, it is
never invoked again, whatever operations follow (as long as nobody subscribes with that same callback again). -/
theorem no_callback_without_subscription (cfg : Cfg) (u : Bool) (cb : Nat) (ops : List SOp) (s : SSt)
    (h : cb ∉ cbsOf s) (hr : noResubscribe cb ops) : ∀ o ∈ (srun cfg u s ops).2, ∀ c ∈ o.calls, c.cb ≠ cb :=
  no_call_without_subscription cfg u cb ops s h hr

/-- an accepted unsubscribe removes the subscription (and, id = hash(request), every equal request — C14-KF1) … -/
theorem unsubscribe_removes (cfg : Cfg) (u : Bool) (s : SSt) (app : Nat) (r : SubReq) (cb : Nat)
    (hreg : s.core.consumers.contains app = true) :
    (sstep cfg u s (.unsubscribe app (some (r, cb)))).1.subs
      = s.subs.filter (fun x => !(if u then x.cb == cb && x.req == r else x.req == r)) := by
  have key : ∀ p : Sub → Bool,
      (if (s.subs.filter p).isEmpty then (s, ({ out := .code 1, calls := [] } : SOut))
       else ((s.subs.filter p).foldl removeSub s, { out := .code 0, calls := [] })).1.subs
        = s.subs.filter (fun x => !p x) := by
    intro p
    split
    · next he =>
      symm
      apply List.filter_eq_self.mpr
      intro x hx
      have : x ∉ s.subs.filter p := by rw [List.isEmpty_iff.mp he]; simp
      simp only [List.mem_filter, not_and] at this
      simpa using this hx
    · exact remove_all p s
  cases u with
  | true =>
    simp only [sstep, hreg, Bool.not_true, Bool.false_eq_true, if_false, if_true]
    exact key (fun x => x.cb == cb && x.req == r)
  | false =>
    simp only [sstep, hreg, Bool.not_true, Bool.false_eq_true, if_false]
    exact key (fun x => x.req == r)

/-- **no callback after unsubscribe** (all histories): if the callback identifies the subscription, after an accepted
unsubscribe with its id the callback is never invoked again. -/
theorem no_callback_after_unsubscribe (cfg : Cfg) (u : Bool) (s : SSt) (app : Nat) (r : SubReq) (cb : Nat)
    (hreg : s.core.consumers.contains app = true) (huniq : ∀ y ∈ s.subs, y.cb = cb → y.req = r)
    (ops : List SOp) (hr : noResubscribe cb ops) :
    ∀ o ∈ (srun cfg u (sstep cfg u s (.unsubscribe app (some (r, cb)))).1 ops).2, ∀ c ∈ o.calls, c.cb ≠ cb := by
  apply no_call_without_subscription cfg u cb ops _ _ hr
  simp only [cbsOf, unsubscribe_removes cfg u s app r cb hreg, List.mem_map, List.mem_filter, not_exists, not_and]
  intro y hy hcb
  have hreq := huniq y hy.1 hcb
  have := hy.2
  cases u <;> simp_all

/-- deregistering a consumer removes all its subscriptions at once … -/
theorem deregister_removes (cfg : Cfg) (u : Bool) (s : SSt) (app : Nat) (hreg : s.core.consumers.contains app = true) :
    (sstep cfg u s (.core (.deregConsumer app))).1.subs = s.subs.filter (fun x => !(x.req.app == app)) := by
  simp only [sstep, hreg, if_true]
  exact remove_all (fun x => x.req.app == app) { s with core := (step cfg s.core (.deregConsumer app)).1 }

/-- **no callback after deregistration** (all histories), also when the consumer registers again later -/
theorem no_callback_after_deregister (cfg : Cfg) (u : Bool) (s : SSt) (x : Sub) (hx : x ∈ s.subs)
    (hreg : s.core.consumers.contains x.req.app = true) (huniq : ∀ y ∈ s.subs, y.cb = x.cb → y.req.app = x.req.app)
    (ops : List SOp) (hr : noResubscribe x.cb ops) :
    ∀ o ∈ (srun cfg u (sstep cfg u s (.core (.deregConsumer x.req.app))).1 ops).2, ∀ c ∈ o.calls, c.cb ≠ x.cb := by
  apply no_call_without_subscription cfg u x.cb ops _ _ hr
  simp only [cbsOf, deregister_removes cfg u s x.req.app hreg, List.mem_map, List.mem_filter, not_exists, not_and]
  intro y hy hcb
  have := huniq y hy.1 hcb
  simp_all

/-- a consumer that is not registered is not notified at an attendance, and its subscription is dropped -/
theorem unregistered_not_notified (s : SSt) (x : Sub) (h : s.core.consumers.contains x.req.app = false) :
    attendOne s x = .ok (s, [], true) := by
  unfold attendOne
  simp only [h, Bool.not_false, if_true]
  rfl

/-! ## isolation -/

/-- **isolation** (repaired variant, unique ids): unsubscribing one subscription leaves every other subscription
stored, in order, with its notification clock untouched. -/
theorem isolation (cfg : Cfg) (s : SSt) (app : Nat) (r : SubReq) (cb : Nat) (hreg : s.core.consumers.contains app = true) :
    (sstep cfg true s (.unsubscribe app (some (r, cb)))).1.subs = s.subs.filter (fun x => !(x.cb == cb && x.req == r)) ∧
    (∀ y, ¬ (y.cb = cb ∧ y.req = r) →
        lcGet (sstep cfg true s (.unsubscribe app (some (r, cb)))).1.lastChecked y = lcGet s.lastChecked y) := by
  refine ⟨by simpa using unsubscribe_removes cfg true s app r cb hreg, ?_⟩
  intro y hy
  simp only [sstep, hreg, Bool.not_true, Bool.false_eq_true, if_false, if_true]
  split
  · rfl
  · apply lcGet_remove
    simp only [List.mem_filter, Bool.and_eq_true, beq_iff_eq, not_and]
    intro _ h1 h2
    exact hy ⟨h1, h2⟩

/-- the code as it is (id = hash(request)): isolation outside the known region — subscriptions whose request
differs from the unsubscribed one are untouched -/
theorem isolation_partial (cfg : Cfg) (s : SSt) (app : Nat) (r : SubReq) (cb : Nat) (hreg : s.core.consumers.contains app = true) :
    (∀ y ∈ s.subs, y.req ≠ r → y ∈ (sstep cfg false s (.unsubscribe app (some (r, cb)))).1.subs) ∧
    (∀ y, y.req ≠ r → lcGet (sstep cfg false s (.unsubscribe app (some (r, cb)))).1.lastChecked y = lcGet s.lastChecked y) := by
  constructor
  · intro y hy hne
    rw [unsubscribe_removes cfg false s app r cb hreg]
    simp [List.mem_filter, hy, hne]
  · intro y hne
    simp only [sstep, hreg, Bool.not_true, Bool.false_eq_true, if_false]
    split
    · rfl
    · apply lcGet_remove
      simp only [List.mem_filter, beq_iff_eq, not_and]
      intro _ h1
      exact hne h1

/-- attending one subscription changes no stored subscription, nothing in the store or the registries, and no
other subscription's notification clock -/
theorem attend_isolation (s : SSt) (x y : Sub) (s1 : SSt) (cs : List Call) (d : Bool)
    (h : attendOne s x = .ok (s1, cs, d)) (hxy : y ≠ x) :
    s1.subs = s.subs ∧ s1.core = s.core ∧ lcGet s1.lastChecked y = lcGet s.lastChecked y := by
  obtain ⟨h1, h2, _⟩ := attendOne_spec s x s1 cs d h
  exact ⟨h2, h1, attendOne_others s x s1 cs d h y hxy⟩

def reqA : SubReq := { app := 2, types := [2], prio := none, filterBad := false, filter := none, notify := some 0,
                       mult := some 1, orderBad := false, order := none }
def stTwo : SSt :=
  { (SSt.init 1700000000000 1000000) with
    core := { (St.init 1700000000000 1000000) with consumers := [2] },
    subs := [{ req := reqA, cb := 0 }, { req := reqA, cb := 1 }] }
def cfg0 : Cfg := { area := { lat := 0, lon := 0, alt := 0, relDist := 4 }, areaFixed := false, gated := false }

/-- C14-KF1: two equal requests share the id; unsubscribing the first removes the second as well (code as is),
while with unique ids the second stays -/
theorem isolation_witness :
    (sstep cfg0 false stTwo (.unsubscribe 2 (some (reqA, 0)))).1.subs = [] ∧
    (sstep cfg0 true stTwo (.unsubscribe 2 (some (reqA, 0)))).1.subs = [{ req := reqA, cb := 1 }] := by
  decide

/-! ## validation -/

/-! the seven refusal causes -/
def unknownConsumer (consumers : List Nat) (r : SubReq) : Bool := !consumers.contains r.app
def badType (r : SubReq) : Bool := r.types.any (fun t => !validType t)
def badPriority (r : SubReq) : Bool := match r.prio with | some p => decide (p < 0) || decide (p > 255) | none => false
def badOrder (r : SubReq) : Bool := r.order.isSome && r.orderBad
def badFilter (r : SubReq) : Bool := r.filterBad
def badInterval (r : SubReq) : Bool := match r.notify with | some n => decide (n < 0) || decide (n > maxNotify) | none => false
def badMultiplicity (r : SubReq) : Bool := match r.mult with | some m => decide (m < 0) || decide (m > 255) | none => false

/-- the causes say what their names say -/
theorem causes_meaning (consumers : List Nat) (r : SubReq) :
    (unknownConsumer consumers r = true ↔ r.app ∉ consumers) ∧
    (badType r = true ↔ ∃ t ∈ r.types, validType t = false) ∧
    (badPriority r = true ↔ ∃ p, r.prio = some p ∧ (p < 0 ∨ p > 255)) ∧
    (badInterval r = true ↔ ∃ n, r.notify = some n ∧ (n < 0 ∨ n > 4398046511103)) ∧
    (badMultiplicity r = true ↔ ∃ m, r.mult = some m ∧ (m < 0 ∨ m > 255)) := by
  refine ⟨by simp [unknownConsumer], by simp [badType], ?_, ?_, ?_⟩
  · cases h : r.prio <;> simp [badPriority, h]
  · cases h : r.notify <;> simp [badInterval, h, maxNotify]
  · cases h : r.mult <;> simp [badMultiplicity, h]

/-- **validation_codes**: the refusal code of a subscription request, cause by cause in the order the checks are
made: 1 unknown consumer, 2 data object type, 3 priority, 7 order, 4 filter, 5 notification interval,
6 multiplicity; none of them: accepted. -/
theorem validation_codes (consumers : List Nat) (r : SubReq) :
    subscribeRefusal consumers r =
      if unknownConsumer consumers r then some 1
      else if badType r then some 2
      else if badPriority r then some 3
      else if badOrder r then some 7
      else if badFilter r then some 4
      else if badInterval r then some 5
      else if badMultiplicity r then some 6
      else none := by
  unfold subscribeRefusal unknownConsumer badType badPriority badOrder badFilter badInterval badMultiplicity
  cases r.prio <;> cases r.notify <;> cases r.mult <;> rfl

/-- accepted exactly when no cause applies -/
theorem accepted_iff_valid (consumers : List Nat) (r : SubReq) :
    subscribeRefusal consumers r = none ↔
      unknownConsumer consumers r = false ∧ badType r = false ∧ badPriority r = false ∧ badOrder r = false ∧
      badFilter r = false ∧ badInterval r = false ∧ badMultiplicity r = false := by
  rw [validation_codes]
  cases unknownConsumer consumers r <;> cases badType r <;> cases badPriority r <;> cases badOrder r <;>
    cases badFilter r <;> cases badInterval r <;> cases badMultiplicity r <;> simp

theorem lcGet_lcSet (lc : List (Sub × Int)) (x : Sub) (t : Int) : lcGet (lcSet lc x t) x = some t := by
  unfold lcGet lcSet
  split
  · next hany =>
    induction lc with
    | nil => simp at hany
    | cons q l ih =>
      simp only [List.map_cons, List.find?_cons]
      by_cases hq : q.1 = x
      · simp [hq]
      · have hb : (q.1 == x) = false := beq_eq_false_iff_ne.mpr hq
        simp only [hb, Bool.false_eq_true, if_false]
        apply ih
        simpa [hb] using hany
  · next hany =>
    rw [List.find?_append]
    have : List.find? (fun p => p.1 == x) lc = none := by
      apply List.find?_eq_none.mpr
      intro p hp
      simp only [List.any_eq_true, not_exists, not_and] at hany
      exact hany p hp
    simp [this]

/-- a refused subscription request has no effect; an accepted one is stored with its interval starting now -/
theorem subscribe_effect (cfg : Cfg) (u : Bool) (s : SSt) (r : SubReq) (cb : Nat) :
    (∀ c, subscribeRefusal s.core.consumers r = some c →
        sstep cfg u s (.subscribe r cb) = (s, { out := .code c, calls := [] })) ∧
    (subscribeRefusal s.core.consumers r = none →
        (sstep cfg u s (.subscribe r cb)).1.subs = s.subs ++ [{ req := r, cb := cb }] ∧
        lcGet (sstep cfg u s (.subscribe r cb)).1.lastChecked { req := r, cb := cb } = some (nowIts s.core.utcMs) ∧
        (sstep cfg u s (.subscribe r cb)).2 = { out := .code 0, calls := [] }) := by
  constructor
  · intro c hc; simp [sstep, hc]
  · intro hn
    simp only [sstep, hn]
    exact ⟨trivial, lcGet_lcSet _ _ _, trivial⟩

def oneCam : List (Nat × Record) :=
  [(0, { appId := 2, timestamp := 0,
         loc := { lat := 0, lon := 0, majC := 0, minC := 0, majO := 0, alt := 0, altC := 0, radius := 0, relDist := 0, relDir := 0 },
         obj := .dict (.cons "cam" (.dict .nil) .nil), validity := 1 })]
def stTwoCam : SSt :=
  { stTwo with core := { stTwo.core with db := { next := 1, rows := oneCam } } }

/-- non-vacuity: an attendance that notifies (one matching CAM, interval 0) both subscriptions -/
example : ((sstep cfg0 false stTwoCam .attend).2.calls.map (·.cb)) = [0, 1] := by
  decide

end Props.C14

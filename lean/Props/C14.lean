/-
C14 — LDM subscriptions notify exactly the matching data, at the requested cadence.
Property theorems only.  Model: FlexModel/Ldm/Subs.lean (repaired code; variant `uniqueIds` for known finding
C14-KF1); lemmas: FlexModel/Ldm/SubsLemmas.lean; the query of a subscription is C13's (`Props.C13.query_exact`).
Every theorem is for ALL callback behaviours `β` (a callback may only record, raise, or re-enter IF.LDM.4 with an
unsubscribe / a deregistration) unless it says `passive`.
The last section (round 4) is about TWO THREADS: a removal racing an in-flight attendance, model FlexModel/Ldm/SubsRace.lean,
guard positions read from the source (Generated/LdmSections.lean).
-/
import FlexModel.Ldm.SubsLemmas
import FlexModel.Ldm.QueryLemmas
import FlexModel.Ldm.SubsRace
import Generated.LdmSections

namespace Props.C14
open FlexModel.Ldm FlexModel.Ldm.Spec Generated.Ldm

/-! ## what is notified -/

/-- **notify_exact** (all histories, every step): every callback invocation made by any operation — explicit
attendance or the reactive one inside `add` — belongs to a subscription stored before the operation, whose consumer
was registered, and carries exactly the result of that subscription's query on the store as it is after the
operation, in the query's order. -/
theorem notify_exact (cfg : Cfg) (u : Bool) (β : Nat → CbAct) (s : SSt) (op : SOp) (c : Call)
    (hc : c ∈ (sstep cfg u β s op).2.calls) :
    ∃ x ∈ s.subs, c.cb = x.cb ∧ c.app = x.req.app ∧ s.core.consumers.contains x.req.app = true ∧
      subMatches ((sstep cfg u β s op).1.core.db.rows.map (·.2)) x.req = .ok (some c.objs) :=
  sstep_calls cfg u β s op c hc

theorem stableSort_lex_perm (κ : OrderKey → Record → Int) (ks : List OrderKey) (l : List Record) :
    (stableSort (lexLe (ks.map (effKey κ))) l).Perm l := by
  rw [stableSort_eq_mergeSort _ (lexLe_trans _) (lexLe_total _)]
  exact List.mergeSort_perm l _

/-- what `subMatches` yields is the specification's query (C13) whenever at least `max 1 multiplicity` objects are
selected: the selected objects of the subscribed types that satisfy the filter, stably sorted by the order keys
(keys of one comparable class with an integer scale `κ`, as in `Props.C13.query_exact`: integer- or text-valued) -/
theorem notified_objects_are_the_query (κ : OrderKey → Record → Int) (rows : List Record) (r : SubReq)
    (hwf : ∀ g, r.filter = some g → WFFilter g)
    (hk : ∀ ks, r.order = some ks → Scaled κ ks (select rows r.types r.filter))
    (objs : List Record) (h : subMatches rows r = .ok (some objs)) :
    objs = query κ rows r.types r.filter r.order ∧ objs.length ≥ 1 ∧
      (∀ m, r.mult = some m → (objs.length : Int) ≥ m) := by
  unfold subMatches at h
  rw [dictSearch_eq_select rows r.types r.filter hwf] at h
  simp only at h
  by_cases he : (select rows r.types r.filter).isEmpty = true
  · simp [he, pure, Except.pure] at h
  · simp only [he, Bool.false_eq_true, if_false] at h
    have hlen : (select rows r.types r.filter).length ≥ 1 := by
      cases hs : select rows r.types r.filter with
      | nil => simp [hs] at he
      | cons a t => simp
    have hmult : ∀ m, r.mult = some m → ((select rows r.types r.filter).length : Int) ≥ m := by
      intro m hmm
      by_cases hgt : m > ((select rows r.types r.filter).length : Int)
      · simp [hmm, hgt, pure, Except.pure] at h
      · omega
    have hrest : (match r.order with
        | none => (pure (some (select rows r.types r.filter)) : Except Err (Option (List Record)))
        | some ks => do
          let o ← orderResults (select rows r.types r.filter) ks
          pure (some o)) = .ok (some objs) := by
      cases hmm : r.mult with
      | none => simp only [hmm, Bool.false_eq_true, if_false] at h; exact h
      | some m =>
        have hng : ¬ m > ((select rows r.types r.filter).length : Int) := by have := hmult m hmm; omega
        simp only [hmm, hng, decide_false, Bool.false_eq_true, if_false] at h
        exact h
    cases ho : r.order with
    | none =>
      simp only [ho, pure, Except.pure] at hrest
      injection hrest with hrest; injection hrest with hrest; subst hrest
      exact ⟨by simp [query], hlen, fun m hmm => hmult m hmm⟩
    | some ks =>
      simp only [ho, orderResults_scale κ ks _ (hk ks ho), bind, Except.bind, pure, Except.pure] at hrest
      injection hrest with hrest; injection hrest with hrest; subst hrest
      have hp := (stableSort_lex_perm κ ks (select rows r.types r.filter)).length_eq
      exact ⟨by simp [query], by rw [hp]; exact hlen, fun m hmm => by rw [hp]; exact hmult m hmm⟩

/-- **notify_iff**: when the attendance reaches a registered consumer's subscription, it is notified if and only if
it is still stored, its query yields something to notify (at least `max 1 multiplicity` matching objects) and the
notification interval has passed since its previous notification (or since the subscription), at the LDM's one-second
clock — so matching data is notified by the first attendance after the interval. -/
theorem notify_iff (s : SSt) (x : Sub) (s1 : SSt) (cs : List Call) (d : Bool) (h : attendOne s x = .ok (s1, cs, d))
    (hreg : s.core.consumers.contains x.req.app = true) :
    (cs ≠ [] ↔ (∃ objs, subMatches (s.core.db.rows.map (·.2)) x.req = .ok (some objs)) ∧ intervalElapsed s x = true ∧
      x ∈ s.subs) := by
  obtain ⟨_, _, _, h4, h5⟩ := attendOne_spec s x s1 cs d h
  constructor
  · intro hne
    cases cs with
    | nil => exact absurd rfl hne
    | cons c t =>
      obtain ⟨_, _, _, _, a5, a6, a7⟩ := h4 c (by simp)
      exact ⟨⟨c.objs, a5⟩, a6, a7⟩
  · rintro ⟨⟨objs, ho⟩, hi, hm⟩ hnil
    rcases h5 hnil hreg with h | h | h
    · rw [ho] at h; cases h
    · rw [hi] at h; cases h
    · exact h hm

/-- **attend_complete** — an attendance notifies EVERY due subscription: each stored subscription of a registered
consumer whose query yields something to notify and whose interval has elapsed receives a callback carrying exactly
that result, whatever happens to the OTHER subscriptions of the same attendance (ordering TypeError — C13-KF2 —,
raising callbacks), provided the callbacks do not re-enter the LDM (a callback that unsubscribes / deregisters
legitimately silences later subscriptions, see `reentrant_removal_effective`).
This is the repaired code (fixes/C14-attendance-isolation); for the code before the fix see `attend_abort_witness`. -/
theorem attend_complete (cfg : Cfg) (u : Bool) (β : Nat → CbAct) (s : SSt) (hβ : ∀ y ∈ s.subs, passive β y.cb)
    (x : Sub) (hx : x ∈ s.subs) (hreg : s.core.consumers.contains x.req.app = true) (objs : List Record)
    (hm : subMatches (s.core.db.rows.map (·.2)) x.req = .ok (some objs)) (hi : intervalElapsed s x = true) :
    ∃ c ∈ (sstep cfg u β s .attend).2.calls, c.cb = x.cb ∧ c.app = x.req.app ∧ c.objs = objs := by
  simp only [sstep, attend]
  exact attendLoop_complete cfg u β x objs s.subs s [] [] hβ hx hx hreg hm hi

/-- … and it removes the subscriptions of deregistered consumers, all of them, also when some other subscription's
ordering raises (the code before the fix skipped the removals in that case) -/
theorem attend_drops_deregistered (cfg : Cfg) (u : Bool) (β : Nat → CbAct) (s : SSt) (hβ : ∀ y ∈ s.subs, passive β y.cb) :
    (sstep cfg u β s .attend).1.subs = s.subs.filter (fun y => s.core.consumers.contains y.req.app) := by
  simp only [sstep, attend]
  obtain ⟨s', a1, _, a3⟩ := attendLoop_passive_state cfg u β s.subs s [] [] hβ
  rw [a3, List.nil_append]
  have := remove_all (fun y => !s.core.consumers.contains y.req.app) s'
  rw [a1] at this
  rw [this]
  simp

/-! ## after unsubscription / deregistration -/

/-- **no callback without a subscription** (all histories): once no stored subscription carries the callback, it is
never invoked again, whatever operations follow (as long as nobody subscribes with that same callback again). -/
theorem no_callback_without_subscription (cfg : Cfg) (u : Bool) (β : Nat → CbAct) (cb : Nat) (ops : List SOp) (s : SSt)
    (h : cb ∉ cbsOf s) (hr : noResubscribe cb ops) : ∀ o ∈ (srun cfg u β s ops).2, ∀ c ∈ o.calls, c.cb ≠ cb :=
  no_call_without_subscription cfg u β cb ops s h hr

/-- what `unsubscribe_data_consumer` leaves: an accepted unsubscribe removes the subscription (and, id =
hash(request), every equal request — C14-KF1); the same function serves a callback that re-enters -/
theorem doUnsub_removes (u : Bool) (s : SSt) (app : Nat) (r : SubReq) (cb : Nat)
    (hreg : s.core.consumers.contains app = true) :
    (doUnsub u s app (some (r, cb))).1.subs
      = s.subs.filter (fun x => !(if u then x.cb == cb && x.req == r else x.req == r)) := by
  have key : ∀ p : Sub → Bool,
      (if (s.subs.filter p).isEmpty then (s, (1 : Nat)) else ((s.subs.filter p).foldl removeSub s, 0)).1.subs
        = s.subs.filter (fun x => !p x) := by
    intro p
    split
    · next he =>
      symm
      apply List.filter_eq_self.mpr
      intro x hx
      have : x ∉ s.subs.filter p := by rw [List.isEmpty_iff.mp he]; simp
      simp only [List.mem_filter, not_and] at this
      simpa using this hx
    · exact remove_all p s
  cases u with
  | true =>
    simp only [doUnsub, hreg, Bool.not_true, Bool.false_eq_true, if_false, if_true]
    exact key (fun x => x.cb == cb && x.req == r)
  | false =>
    simp only [doUnsub, hreg, Bool.not_true, Bool.false_eq_true, if_false]
    exact key (fun x => x.req == r)

theorem unsubscribe_removes (cfg : Cfg) (u : Bool) (β : Nat → CbAct) (s : SSt) (app : Nat) (r : SubReq) (cb : Nat)
    (hreg : s.core.consumers.contains app = true) :
    (sstep cfg u β s (.unsubscribe app (some (r, cb)))).1.subs
      = s.subs.filter (fun x => !(if u then x.cb == cb && x.req == r else x.req == r)) := by
  simp only [sstep]
  exact doUnsub_removes u s app r cb hreg

/-- after an accepted unsubscribe no stored subscription carries the callback (if the callback identifies it) -/
theorem doUnsub_cb_gone (u : Bool) (s : SSt) (app : Nat) (r : SubReq) (cb : Nat)
    (hreg : s.core.consumers.contains app = true) (huniq : ∀ y ∈ s.subs, y.cb = cb → y.req = r) :
    cb ∉ cbsOf (doUnsub u s app (some (r, cb))).1 := by
  simp only [cbsOf, doUnsub_removes u s app r cb hreg, List.mem_map, List.mem_filter, not_exists, not_and]
  intro y hy hcb
  have hreq := huniq y hy.1 hcb
  have := hy.2
  cases u <;> simp_all

/-- **no callback after unsubscribe** (all histories): if the callback identifies the subscription, after an accepted
unsubscribe with its id the callback is never invoked again. -/
theorem no_callback_after_unsubscribe (cfg : Cfg) (u : Bool) (β : Nat → CbAct) (s : SSt) (app : Nat) (r : SubReq) (cb : Nat)
    (hreg : s.core.consumers.contains app = true) (huniq : ∀ y ∈ s.subs, y.cb = cb → y.req = r)
    (ops : List SOp) (hr : noResubscribe cb ops) :
    ∀ o ∈ (srun cfg u β (sstep cfg u β s (.unsubscribe app (some (r, cb)))).1 ops).2, ∀ c ∈ o.calls, c.cb ≠ cb := by
  apply no_call_without_subscription cfg u β cb ops _ _ hr
  simp only [sstep]
  exact doUnsub_cb_gone u s app r cb hreg huniq

/-- **… also inside an attendance** (re-entrant callbacks): when the attendance has served subscription `x` and the
action of its callback (an unsubscribe, a deregistration) has left no stored subscription with callback `cb`, the
REST OF THE SAME ATTENDANCE does not invoke `cb` any more, although `cb`'s subscription is still in the snapshot the
loop walks over (repaired code, fixes/C14-removed-subscription-not-notified). -/
theorem reentrant_removal_effective (cfg : Cfg) (u : Bool) (β : Nat → CbAct) (s : SSt) (x : Sub) (xs : List Sub)
    (calls : List Call) (rm : List Sub) (s1 : SSt) (cs : List Call) (d : Bool) (h : attendOne s x = .ok (s1, cs, d))
    (cb : Nat) (hgone : cb ∉ cbsOf (cs.foldl (fun st c => applyAct cfg u st (β c.cb)) s1)) :
    ∀ c ∈ (attendLoop cfg u β s (x :: xs) calls rm).2, c ∈ calls ∨ c ∈ cs ∨ c.cb ≠ cb := by
  intro c hc
  simp only [attendLoop, h] at hc
  rcases (attendLoop_spec cfg u β xs _ _ _).2 c hc with h1 | ⟨y, hy, a1, _⟩
  · rcases List.mem_append.mp h1 with h1 | h1
    · exact Or.inl h1
    · exact Or.inr (Or.inl h1)
  · refine Or.inr (Or.inr ?_)
    intro e
    apply hgone
    simp only [cbsOf, List.mem_map]
    exact ⟨y, hy, by rw [← a1, e]⟩

/-- instance: the callback of `x` unsubscribes `(r, cb)` -/
theorem reentrant_unsubscribe_effective (cfg : Cfg) (u : Bool) (β : Nat → CbAct) (s : SSt) (x : Sub) (xs : List Sub)
    (calls : List Call) (rm : List Sub) (s1 : SSt) (c0 : Call) (d : Bool) (h : attendOne s x = .ok (s1, [c0], d))
    (app : Nat) (r : SubReq) (cb : Nat) (hact : β c0.cb = .unsub app (some (r, cb)))
    (hreg : s1.core.consumers.contains app = true) (huniq : ∀ y ∈ s1.subs, y.cb = cb → y.req = r) :
    ∀ c ∈ (attendLoop cfg u β s (x :: xs) calls rm).2, c ∈ calls ∨ c = c0 ∨ c.cb ≠ cb := by
  intro c hc
  have := reentrant_removal_effective cfg u β s x xs calls rm s1 [c0] d h cb
    (by simp only [List.foldl_cons, List.foldl_nil, hact, applyAct]; exact doUnsub_cb_gone u s1 app r cb hreg huniq) c hc
  simpa using this

/-- deregistering a consumer removes all its subscriptions at once … -/
theorem deregister_removes (cfg : Cfg) (u : Bool) (β : Nat → CbAct) (s : SSt) (app : Nat)
    (hreg : s.core.consumers.contains app = true) :
    (sstep cfg u β s (.core (.deregConsumer app))).1.subs = s.subs.filter (fun x => !(x.req.app == app)) := by
  simp only [sstep, doDereg, hreg, if_true]
  exact remove_all (fun x => x.req.app == app) { s with core := (step cfg s.core (.deregConsumer app)).1 }

/-- **no callback after deregistration** (all histories), also when the consumer registers again later -/
theorem no_callback_after_deregister (cfg : Cfg) (u : Bool) (β : Nat → CbAct) (s : SSt) (x : Sub) (_hx : x ∈ s.subs)
    (hreg : s.core.consumers.contains x.req.app = true) (huniq : ∀ y ∈ s.subs, y.cb = x.cb → y.req.app = x.req.app)
    (ops : List SOp) (hr : noResubscribe x.cb ops) :
    ∀ o ∈ (srun cfg u β (sstep cfg u β s (.core (.deregConsumer x.req.app))).1 ops).2, ∀ c ∈ o.calls, c.cb ≠ x.cb := by
  apply no_call_without_subscription cfg u β x.cb ops _ _ hr
  simp only [cbsOf, deregister_removes cfg u β s x.req.app hreg, List.mem_map, List.mem_filter, not_exists, not_and]
  intro y hy hcb
  have := huniq y hy.1 hcb
  simp_all

/-- a consumer that is not registered is not notified at an attendance, and its subscription is dropped
(`attend_drops_deregistered`) -/
theorem unregistered_not_notified (s : SSt) (x : Sub) (h : s.core.consumers.contains x.req.app = false) :
    attendOne s x = .ok (s, [], true) := by
  unfold attendOne
  simp only [h, Bool.not_false, if_true]
  rfl

/-! ## isolation -/

/-- **isolation** (repaired variant, unique ids): unsubscribing one subscription leaves every other subscription
stored, in order, with its notification clock untouched. -/
theorem isolation (cfg : Cfg) (β : Nat → CbAct) (s : SSt) (app : Nat) (r : SubReq) (cb : Nat)
    (hreg : s.core.consumers.contains app = true) :
    (sstep cfg true β s (.unsubscribe app (some (r, cb)))).1.subs = s.subs.filter (fun x => !(x.cb == cb && x.req == r)) ∧
    (∀ y, ¬ (y.cb = cb ∧ y.req = r) →
        lcGet (sstep cfg true β s (.unsubscribe app (some (r, cb)))).1.lastChecked y = lcGet s.lastChecked y) := by
  refine ⟨by simpa using unsubscribe_removes cfg true β s app r cb hreg, ?_⟩
  intro y hy
  simp only [sstep, doUnsub, hreg, Bool.not_true, Bool.false_eq_true, if_false, if_true]
  split
  · rfl
  · apply lcGet_remove
    simp only [List.mem_filter, Bool.and_eq_true, beq_iff_eq, not_and]
    intro _ h1 h2
    exact hy ⟨h1, h2⟩

/-- the code as it is (id = hash(request)): isolation outside the known region — subscriptions whose request
differs from the unsubscribed one are untouched -/
theorem isolation_partial (cfg : Cfg) (β : Nat → CbAct) (s : SSt) (app : Nat) (r : SubReq) (cb : Nat)
    (hreg : s.core.consumers.contains app = true) :
    (∀ y ∈ s.subs, y.req ≠ r → y ∈ (sstep cfg false β s (.unsubscribe app (some (r, cb)))).1.subs) ∧
    (∀ y, y.req ≠ r → lcGet (sstep cfg false β s (.unsubscribe app (some (r, cb)))).1.lastChecked y = lcGet s.lastChecked y) := by
  constructor
  · intro y hy hne
    rw [unsubscribe_removes cfg false β s app r cb hreg]
    simp [List.mem_filter, hy, hne]
  · intro y hne
    simp only [sstep, doUnsub, hreg, Bool.not_true, Bool.false_eq_true, if_false]
    split
    · rfl
    · apply lcGet_remove
      simp only [List.mem_filter, beq_iff_eq, not_and]
      intro _ h1
      exact hne h1

/-- attending one subscription changes no stored subscription, nothing in the store or the registries, and no
other subscription's notification clock; an attendance as a whole never touches the store, and — with callbacks that
do not re-enter — whether another subscription is notified does not depend on this one (`attend_complete`) -/
theorem attend_isolation (s : SSt) (x y : Sub) (s1 : SSt) (cs : List Call) (d : Bool)
    (h : attendOne s x = .ok (s1, cs, d)) (hxy : y ≠ x) :
    s1.subs = s.subs ∧ s1.core = s.core ∧ lcGet s1.lastChecked y = lcGet s.lastChecked y := by
  obtain ⟨h1, h2, _⟩ := attendOne_spec s x s1 cs d h
  exact ⟨h2, h1, attendOne_others s x s1 cs d h y hxy⟩

def reqA : SubReq := { app := 2, types := [2], prio := none, filterBad := false, filter := none, notify := some 0,
                       mult := some 1, orderBad := false, order := none }
def stTwo : SSt :=
  { (SSt.init 1700000000000 1000000) with
    core := { (St.init 1700000000000 1000000) with consumers := [2] },
    subs := [{ req := reqA, cb := 0 }, { req := reqA, cb := 1 }] }
def cfg0 : Cfg := { area := { lat := 0, lon := 0, alt := 0, relDist := 4 }, areaFixed := false, gated := false }
def quiet : Nat → CbAct := fun _ => .none

/-- C14-KF1: two equal requests share the id; unsubscribing the first removes the second as well (code as is),
while with unique ids the second stays -/
theorem isolation_witness :
    (sstep cfg0 false quiet stTwo (.unsubscribe 2 (some (reqA, 0)))).1.subs = [] ∧
    (sstep cfg0 true quiet stTwo (.unsubscribe 2 (some (reqA, 0)))).1.subs = [{ req := reqA, cb := 1 }] := by
  decide

/-! ## validation: invalid subscription requests are refused with the matching result code -/

/-! the seven refusal causes, written from the property text and EN 302 895 (priority and multiplicity 0..255, the
notification interval a TimestampIts 0..2^42-1) — independent of the model -/
def unknownConsumer (consumers : List Nat) (r : SubReq) : Bool := !consumers.contains r.app
def badType (r : SubReq) : Bool := r.types.any (fun t => !validType t)
def badPriority (r : SubReq) : Bool := match r.prio with | some p => decide (p < 0) || decide (p > 255) | none => false
def badOrder (r : SubReq) : Bool := r.order.isSome && r.orderBad
def badFilter (r : SubReq) : Bool := r.filterBad
def badInterval (r : SubReq) : Bool := match r.notify with | some n => decide (n < 0) || decide (n > 4398046511103) | none => false
def badMultiplicity (r : SubReq) : Bool := match r.mult with | some m => decide (m < 0) || decide (m > 255) | none => false

/-- the causes say what their names say -/
theorem causes_meaning (consumers : List Nat) (r : SubReq) :
    (unknownConsumer consumers r = true ↔ r.app ∉ consumers) ∧
    (badType r = true ↔ ∃ t ∈ r.types, validType t = false) ∧
    (badPriority r = true ↔ ∃ p, r.prio = some p ∧ (p < 0 ∨ p > 255)) ∧
    (badInterval r = true ↔ ∃ n, r.notify = some n ∧ (n < 0 ∨ n > 4398046511103)) ∧
    (badMultiplicity r = true ↔ ∃ m, r.mult = some m ∧ (m < 0 ∨ m > 255)) := by
  refine ⟨by simp [unknownConsumer], by simp [badType], ?_, ?_, ?_⟩
  · cases h : r.prio <;> simp [badPriority, h]
  · cases h : r.notify <;> simp [badInterval, h]
  · cases h : r.mult <;> simp [badMultiplicity, h]

/-- the facts re-read from if_ldm_4.py on every run (harness/gen_ldm_subs.py): the checks of
`validate_subscribe_data_consumer` in source order with the code each returns, and the accepted intervals of the
range validators probed on the real methods — equal to what the standard says.  A changed bound, a reordered or
re-coded check re-opens this obligation (and the model's `subscribeRefusal`, which is DEFINED from these facts). -/
theorem generated_bounds :
    Generated.LdmSubs.prioRange = (0, 255) ∧ Generated.LdmSubs.notifyRange = (0, 4398046511103) ∧
    Generated.LdmSubs.multRange = (0, 255) ∧ Generated.LdmSubs.noneAccepted = [true, true, true] ∧
    Generated.LdmSubs.subscribeLadder =
      [("is_valid_its_aid", 1), ("is_valid_data_object_type", 2), ("is_valid_priority", 3), ("is_valid_order", 7),
       ("is_valid_filter", 4), ("is_valid_notify_time", 5), ("is_valid_multiplicity", 6)] := by
  decide

theorem inRange_iff (lo hi : Int) (o : Option Int) :
    inRange (lo, hi) o = !(match o with | some v => decide (v < lo) || decide (v > hi) | none => false) := by
  cases o with
  | none => rfl
  | some v =>
    simp only [inRange]
    by_cases h1 : lo ≤ v <;> by_cases h2 : v ≤ hi <;>
      simp [h1, h2, show (v < lo) = ¬ (lo ≤ v) from by simp, show (v > hi) = ¬ (v ≤ hi) from by simp]

/-- **validation_codes**: the refusal code of a subscription request, cause by cause in the order the code makes
its checks: 1 unknown consumer, 2 data object type, 3 priority, 7 order, 4 filter, 5 notification interval,
6 multiplicity; none of them: accepted.  (`subscribeRefusal` walks the generated ladder; the causes are the
independent ones above.) -/
theorem validation_codes (consumers : List Nat) (r : SubReq) :
    subscribeRefusal consumers r =
      if unknownConsumer consumers r then some 1
      else if badType r then some 2
      else if badPriority r then some 3
      else if badOrder r then some 7
      else if badFilter r then some 4
      else if badInterval r then some 5
      else if badMultiplicity r then some 6
      else none := by
  obtain ⟨g1, g2, g3, _, g5⟩ := generated_bounds
  have v1 : validatorOk consumers r "is_valid_its_aid" = !unknownConsumer consumers r := by simp [validatorOk, unknownConsumer]
  have v2 : validatorOk consumers r "is_valid_data_object_type" = !badType r := by
    simp [validatorOk, badType, List.all_eq_not_any_not]
  have v3 : validatorOk consumers r "is_valid_priority" = !badPriority r := by
    simp only [validatorOk, g1, inRange_iff, badPriority]; simp
  have v7 : validatorOk consumers r "is_valid_order" = !badOrder r := by simp [validatorOk, badOrder]
  have v4 : validatorOk consumers r "is_valid_filter" = !badFilter r := by simp [validatorOk, badFilter]
  have v5 : validatorOk consumers r "is_valid_notify_time" = !badInterval r := by
    simp only [validatorOk, g2, inRange_iff, badInterval]; simp
  have v6 : validatorOk consumers r "is_valid_multiplicity" = !badMultiplicity r := by
    simp only [validatorOk, g3, inRange_iff, badMultiplicity]; simp
  simp only [subscribeRefusal, g5, List.find?, v1, v2, v3, v7, v4, v5, v6, Bool.not_not]
  cases unknownConsumer consumers r <;> cases badType r <;> cases badPriority r <;> cases badOrder r <;>
    cases badFilter r <;> cases badInterval r <;> cases badMultiplicity r <;> rfl

/-- accepted exactly when no cause applies -/
theorem accepted_iff_valid (consumers : List Nat) (r : SubReq) :
    subscribeRefusal consumers r = none ↔
      unknownConsumer consumers r = false ∧ badType r = false ∧ badPriority r = false ∧ badOrder r = false ∧
      badFilter r = false ∧ badInterval r = false ∧ badMultiplicity r = false := by
  rw [validation_codes]
  cases unknownConsumer consumers r <;> cases badType r <;> cases badPriority r <;> cases badOrder r <;>
    cases badFilter r <;> cases badInterval r <;> cases badMultiplicity r <;> simp

/-- the refusal causes and the result code the standard's enumeration `SubscribeDataobjectsResult` names for each
(independent table; the numbers come from the enum as generated from ldm_classes.py) -/
inductive Cause where
  | unknownConsumer | badType | badPriority | badOrder | badFilter | badInterval | badMultiplicity
  deriving DecidableEq, Inhabited

def Cause.all : List Cause :=
  [.unknownConsumer, .badType, .badPriority, .badOrder, .badFilter, .badInterval, .badMultiplicity]

def Cause.resultName : Cause → String
  | .unknownConsumer => "INVALID_ITSA_ID"
  | .badType => "INVALID_DATA_OBJECT_TYPE"
  | .badPriority => "INVALID_PRIORITY"
  | .badOrder => "INVALID_ORDER"
  | .badFilter => "INVALID_FILTER"
  | .badInterval => "INVALID_NOTIFICATION_INTERVAL"
  | .badMultiplicity => "INVALID_MULTIPLICITY"

def Cause.applies (consumers : List Nat) (r : SubReq) : Cause → Bool
  | .unknownConsumer => Props.C14.unknownConsumer consumers r
  | .badType => Props.C14.badType r
  | .badPriority => Props.C14.badPriority r
  | .badOrder => Props.C14.badOrder r
  | .badFilter => Props.C14.badFilter r
  | .badInterval => Props.C14.badInterval r
  | .badMultiplicity => Props.C14.badMultiplicity r

/-- the integer value of a result code, by NAME, in the enumeration of the repository -/
def codeOfName (n : String) : Option Nat :=
  (SubscribeDataobjectsResult_values.find? (fun p => p.1 == n)).map (·.2)

/-- the ladder as a function of the seven causes -/
def chain (b1 b2 b3 b4 b5 b6 b7 : Bool) : Option Nat :=
  if b1 then some 1 else if b2 then some 2 else if b3 then some 3 else if b4 then some 7 else if b5 then some 4
  else if b6 then some 5 else if b7 then some 6 else none

theorem validation_chain (consumers : List Nat) (r : SubReq) :
    subscribeRefusal consumers r = chain (unknownConsumer consumers r) (badType r) (badPriority r) (badOrder r)
      (badFilter r) (badInterval r) (badMultiplicity r) := validation_codes consumers r

theorem chain_refuses : ∀ b1 b2 b3 b4 b5 b6 b7 : Bool, (b1 || b2 || b3 || b4 || b5 || b6 || b7) = true →
    ∃ c, chain b1 b2 b3 b4 b5 b6 b7 = some c ∧ c ≠ 0 := by
  intro b1 b2 b3 b4 b5 b6 b7
  cases b1 <;> cases b2 <;> cases b3 <;> cases b4 <;> cases b5 <;> cases b6 <;> cases b7 <;> simp [chain]

theorem applies_or (consumers : List Nat) (r : SubReq) (k : Cause) (hk : k.applies consumers r = true) :
    (unknownConsumer consumers r || badType r || badPriority r || badOrder r || badFilter r || badInterval r ||
      badMultiplicity r) = true := by
  cases k <;> simp only [Cause.applies] at hk <;> simp [hk]

theorem chain_matching (consumers : List Nat) (r : SubReq) (c : Nat)
    (hc : chain (unknownConsumer consumers r) (badType r) (badPriority r) (badOrder r) (badFilter r) (badInterval r)
      (badMultiplicity r) = some c) :
    ∃ k : Cause, k.applies consumers r = true ∧ codeOfName k.resultName = some c := by
  unfold chain at hc
  cases h1 : unknownConsumer consumers r
  case true => exact ⟨.unknownConsumer, h1, by simp [h1] at hc; subst hc; decide⟩
  cases h2 : badType r
  case true => exact ⟨.badType, h2, by simp [h1, h2] at hc; subst hc; decide⟩
  cases h3 : badPriority r
  case true => exact ⟨.badPriority, h3, by simp [h1, h2, h3] at hc; subst hc; decide⟩
  cases h4 : badOrder r
  case true => exact ⟨.badOrder, h4, by simp [h1, h2, h3, h4] at hc; subst hc; decide⟩
  cases h5 : badFilter r
  case true => exact ⟨.badFilter, h5, by simp [h1, h2, h3, h4, h5] at hc; subst hc; decide⟩
  cases h6 : badInterval r
  case true => exact ⟨.badInterval, h6, by simp [h1, h2, h3, h4, h5, h6] at hc; subst hc; decide⟩
  cases h7 : badMultiplicity r
  case true => exact ⟨.badMultiplicity, h7, by simp [h1, h2, h3, h4, h5, h6, h7] at hc; subst hc; decide⟩
  simp [h1, h2, h3, h4, h5, h6, h7] at hc

/-- **refused_with_matching_code**: (1) a request to which some cause applies is refused, with a code other than
SUCCESSFUL; (2) the code of a refusal is the code the enumeration names for a cause that DOES apply to the request;
(3) when exactly one cause applies the code is that cause's; (4) a request to which no cause applies is accepted. -/
theorem refused_with_matching_code (consumers : List Nat) (r : SubReq) :
    (∀ k : Cause, k.applies consumers r = true → ∃ c, subscribeRefusal consumers r = some c ∧ codeOfName "SUCCESSFUL" ≠ some c) ∧
    (∀ c, subscribeRefusal consumers r = some c →
        ∃ k : Cause, k.applies consumers r = true ∧ codeOfName k.resultName = some c) ∧
    (∀ k : Cause, k.applies consumers r = true → (∀ k' : Cause, k'.applies consumers r = true → k' = k) →
        subscribeRefusal consumers r = codeOfName k.resultName) ∧
    ((∀ k : Cause, k.applies consumers r = false) → subscribeRefusal consumers r = none) := by
  rw [validation_chain]
  have hs : codeOfName "SUCCESSFUL" = some 0 := by decide
  refine ⟨?_, chain_matching consumers r, ?_, ?_⟩
  · intro k hk
    obtain ⟨c, h1, h2⟩ := chain_refuses _ _ _ _ _ _ _ (applies_or consumers r k hk)
    refine ⟨c, h1, ?_⟩
    rw [hs]
    intro e; injection e with e; exact h2 e.symm
  · intro k hk honly
    obtain ⟨c, hc, _⟩ := chain_refuses _ _ _ _ _ _ _ (applies_or consumers r k hk)
    obtain ⟨k', hk', hcode⟩ := chain_matching consumers r c hc
    rw [hc, ← honly k' hk', hcode]
  · intro hno
    have a1 := hno .unknownConsumer; have a2 := hno .badType; have a3 := hno .badPriority; have a4 := hno .badOrder
    have a5 := hno .badFilter; have a6 := hno .badInterval; have a7 := hno .badMultiplicity
    simp only [Cause.applies] at a1 a2 a3 a4 a5 a6 a7
    simp [chain, a1, a2, a3, a4, a5, a6, a7]

/-- non-vacuity: a priority out of range alone is refused with INVALID_PRIORITY = 3 -/
example : subscribeRefusal [2] { reqA with prio := some 256 } = some 3 ∧
    Cause.applies [2] { reqA with prio := some 256 } .badPriority = true ∧ codeOfName "INVALID_PRIORITY" = some 3 := by
  decide

theorem lcGet_lcSet (lc : List (Sub × Int)) (x : Sub) (t : Int) : lcGet (lcSet lc x t) x = some t := by
  unfold lcGet lcSet
  split
  · next hany =>
    induction lc with
    | nil => simp at hany
    | cons q l ih =>
      simp only [List.map_cons, List.find?_cons]
      by_cases hq : q.1 = x
      · simp [hq]
      · have hb : (q.1 == x) = false := beq_eq_false_iff_ne.mpr hq
        simp only [hb, Bool.false_eq_true, if_false]
        apply ih
        simpa [hb] using hany
  · next hany =>
    rw [List.find?_append]
    have : List.find? (fun p => p.1 == x) lc = none := by
      apply List.find?_eq_none.mpr
      intro p hp
      simp only [List.any_eq_true, not_exists, not_and] at hany
      exact hany p hp
    simp [this]

/-- a refused subscription request has no effect; an accepted one is stored with its interval starting now -/
theorem subscribe_effect (cfg : Cfg) (u : Bool) (β : Nat → CbAct) (s : SSt) (r : SubReq) (cb : Nat) :
    (∀ c, subscribeRefusal s.core.consumers r = some c →
        sstep cfg u β s (.subscribe r cb) = (s, { out := .code c, calls := [] })) ∧
    (subscribeRefusal s.core.consumers r = none →
        (sstep cfg u β s (.subscribe r cb)).1.subs = s.subs ++ [{ req := r, cb := cb }] ∧
        lcGet (sstep cfg u β s (.subscribe r cb)).1.lastChecked { req := r, cb := cb } = some (nowIts s.core.utcMs) ∧
        (sstep cfg u β s (.subscribe r cb)).2 = { out := .code 0, calls := [] }) := by
  constructor
  · intro c hc; simp [sstep, hc]
  · intro hn
    simp only [sstep, hn]
    exact ⟨trivial, lcGet_lcSet _ _ _, trivial⟩

/-! ## witnesses and non-vacuity -/

def locZ : Loc := { lat := 0, lon := 0, majC := 0, minC := 0, majO := 0, alt := 0, altC := 0, radius := 0, relDist := 0, relDir := 0 }
def oneCam : List (Nat × Record) :=
  [(0, { appId := 2, timestamp := 0, loc := locZ, obj := .dict (.cons "cam" (.dict .nil) .nil), validity := 1 })]
def stTwoCam : SSt :=
  { stTwo with core := { stTwo.core with db := { next := 1, rows := oneCam } } }

/-- non-vacuity: an attendance that notifies (one matching CAM, interval 0) both subscriptions -/
example : ((sstep cfg0 false quiet stTwoCam .attend).2.calls.map (·.cb)) = [0, 1] := by
  decide

/-- a CAM with and a VAM without the attribute the first subscription orders by -/
def camG (g : Int) : Record :=
  { appId := 2, timestamp := 0, loc := locZ, validity := 1,
    obj := .dict (.cons "cam" (.dict (.cons "generationDeltaTime" (.int g) .nil)) .nil) }
def vamG : Record :=
  { appId := 16, timestamp := 1, loc := locZ, validity := 1, obj := .dict (.cons "vam" (.dict .nil) .nil) }
def reqBadOrder : SubReq :=
  { app := 2, types := [2, 16], prio := none, filterBad := false, filter := none, notify := some 0, mult := some 1,
    orderBad := false, order := some [{ attr := ["cam", "generationDeltaTime"], dir := .asc }] }
def stAbort : SSt :=
  { (SSt.init 1700000000000 1000000) with
    core := { (St.init 1700000000000 1000000) with consumers := [2], db := { next := 2, rows := [(0, camG 5), (1, vamG)] } },
    subs := [{ req := reqBadOrder, cb := 0 }, { req := reqA, cb := 1 }, { req := { reqA with app := 16 }, cb := 2 }] }

/-- **attend_abort_witness** (C14-F2, repaired): the first subscription orders by an attribute one selected object
lacks (TypeError, C13-KF2).  Code before the fix: the exception stops the loop — subscription 1 (due, matching) is not
notified, the subscription of the deregistered consumer 16 is not removed, and TypeError escapes.  Repaired code:
subscription 1 is notified, the dead subscription is removed. -/
theorem attend_abort_witness :
    (attendLoopOld stAbort stAbort.subs [] []).2.1 = [] ∧
    (attendLoopOld stAbort stAbort.subs [] []).2.2 = some .typeError ∧
    (attendLoopOld stAbort stAbort.subs [] []).1.subs.length = 3 ∧
    (attend cfg0 false quiet stAbort).2.map (·.cb) = [1] ∧
    (attend cfg0 false quiet stAbort).1.subs.map (·.cb) = [0, 1] := by
  decide

/-- a callback that unsubscribes the NEXT subscription of the same attendance: that one is not called -/
def unsubNext : Nat → CbAct := fun cb => if cb = 0 then .unsub 2 (some ({ reqA with prio := some 1 }, 1)) else .none
def stReenter : SSt :=
  { stTwoCam with subs := [{ req := reqA, cb := 0 }, { req := { reqA with prio := some 1 }, cb := 1 }] }

/-- non-vacuity of `reentrant_unsubscribe_effective` (and, with callbacks that do nothing, both are called) -/
example : (attend cfg0 false unsubNext stReenter).2.map (·.cb) = [0] ∧ (attend cfg0 false quiet stReenter).2.map (·.cb) = [0, 1] ∧
    (attend cfg0 false unsubNext stReenter).1.subs.map (·.cb) = [0] := by
  decide

/-! ## a removal racing an in-flight attendance on another thread (round 4)

Model: FlexModel/Ldm/SubsRace.lean (two threads, atomic instructions, lock acquisition / release are steps; every list of
thread choices is a schedule).  "After unsubscription … its callback is not invoked again" cannot hold without exception
once threads are involved - the callback is invoked with no lock held, so a removal may return between the decision and
the invocation (known finding C14-KF2).  What IS proved: that this is the only exception when the membership test is part
of the locked decision section, and which second window (C14-KF3) the code has when the test is only made in a section
of its own right before `process_notifications`. -/
section Race
open FlexModel.Ldm.SubsRace

/-- **race_regions** (all schedules; all positions `g` of the membership test; `arm`: a missing last-checked record is
re-created; `z`: notification interval None / 0, else > 0 and elapsed).  When the code tests "still stored?" inside the
locked decision section (`g.dec`), or in a locked section directly before `process_notifications` and re-arms a missing
record (`g.mid ∧ arm`), a callback invoked AFTER the removal had returned is explained by one of two windows:
(KF2) the decision to notify was taken, under the lock, BEFORE the removal returned; or
(KF3) there is no test inside the decision section, the interval is None / 0, and the search / ordering phase of the
attendance had ENDED before the removal returned (the removal fell between the separate membership section and the
decision section).  In particular a removal that returns while the attendance is still searching or ordering is never
followed by a callback, and with an interval > 0 only window KF2 exists. -/
theorem race_regions (g : Guards) (arm z : Bool) (hg : g.dec = true ∨ (g.mid = true ∧ arm = true)) (sched : List Bool)
    (hcb : (run g arm z sched).cbAG = true) :
    (run g arm z sched).decBG = true ∨ (g.dec = false ∧ z = true ∧ (run g arm z sched).readyBG = true) := by
  have hg' : (g.dec || (g.mid && arm)) = true := by
    rcases hg with h | ⟨h1, h2⟩
    · simp [h]
    · simp [h1, h2]
  have h := (List.all_eq_true.mp (regions_table g arm z hg')) _ (run_reach g arm z sched)
  simp only [safeB, hcb, Bool.not_true, Bool.false_or, Bool.or_eq_true, Bool.and_eq_true, Bool.not_eq_true'] at h
  rcases h with h | ⟨⟨h1, h2⟩, h3⟩
  · exact Or.inl h
  · exact Or.inr ⟨h1, h2, h3⟩

/-- **race_repaired** — with the membership test inside the decision section the ONLY callback after a removal is one
whose notification had been decided before the removal returned (C14-KF2; closing it needs callbacks under the lock). -/
theorem race_repaired (g : Guards) (arm z : Bool) (hg : g.dec = true) (sched : List Bool)
    (hcb : (run g arm z sched).cbAG = true) : (run g arm z sched).decBG = true := by
  rcases race_regions g arm z (Or.inl hg) sched hcb with h | ⟨h, _⟩
  · exact h
  · rw [hg] at h; cases h

/-- one attendance invokes the callback of the subscription at most once, under every schedule -/
theorem race_at_most_one_callback (g : Guards) (arm z : Bool) (sched : List Bool) : (run g arm z sched).cbs ≤ 1 := by
  have h := (List.all_eq_true.mp (once_table g arm z)) _ (run_reach g arm z sched)
  simpa using h

/-- non-vacuity: an attendance that is not disturbed notifies (every guard position) -/
theorem race_undisturbed_notified : ∀ (g : Guards) (arm z : Bool), (run g arm z (List.replicate 13 false)).cbs = 1 := by
  intro ⟨t, m, d⟩ arm z
  cases t <;> cases m <;> cases d <;> cases arm <;> cases z <;> decide

/-- where the SOURCE tests membership (`Generated.LdmSections`, harness/gen_ldm_subs.py: an `ast` pass over
`attend_subscription` and `process_notifications`) -/
def sourceGuards : Guards := guardsOf Generated.LdmSections.attendSteps Generated.LdmSections.notifySteps
def sourceArm : Bool := armOf Generated.LdmSections.notifySteps

/-- **source_guards** (regenerated obligation): the statement lists of the source have the shape the thread programs
assume, and the membership test stands inside the decision section, or directly before `process_notifications` with a
re-armed record.  Moving the test in front of the search, dropping it, or dropping the re-arming re-opens this. -/
theorem source_guards :
    shapeOk Generated.LdmSections.attendSteps Generated.LdmSections.notifySteps = true ∧
    (sourceGuards.dec = true ∨ (sourceGuards.mid = true ∧ sourceArm = true)) := by decide

/-- **race_regions_source** — `race_regions` for the code as it is -/
theorem race_regions_source (z : Bool) (sched : List Bool) (hcb : (run sourceGuards sourceArm z sched).cbAG = true) :
    (run sourceGuards sourceArm z sched).decBG = true ∨
      (sourceGuards.dec = false ∧ z = true ∧ (run sourceGuards sourceArm z sched).readyBG = true) :=
  race_regions sourceGuards sourceArm z source_guards.2 sched hcb

/-- witness (membership test only BEFORE the search): the removal returns while the attendance is searching, and the
callback is invoked afterwards - decided after the removal, search phase not over when it returned: outside both windows -/
theorem guard_before_search_witness :
    let s := run ⟨true, false, false⟩ true true ([false, false, false] ++ [true, true, true, true] ++ List.replicate 5 false)
    s.cbAG = true ∧ s.decBG = false ∧ s.readyBG = false := by decide

/-- witness of window KF2 (any guard position): decided, lock released, removal returns, callback invoked -/
theorem decided_before_removal_witness :
    let s := run ⟨false, true, true⟩ true false (List.replicate 7 false ++ [true, true, true, true] ++ [false])
    s.cbAG = true ∧ s.decBG = true := by decide

/-- witness of window KF3 (test only in its own section, interval 0) and its absence with the test inside the decision
section (same schedule: no callback at all) -/
theorem gap_witness :
    let sch := List.replicate 4 false ++ [true, true, true, true] ++ List.replicate 4 false
    ((run ⟨false, true, false⟩ true true sch).cbAG = true ∧ (run ⟨false, true, false⟩ true true sch).decBG = false ∧
      (run ⟨false, true, false⟩ true true sch).readyBG = true) ∧
    (run ⟨false, true, true⟩ true true sch).cbs = 0 ∧ (run ⟨false, true, false⟩ true false sch).cbs = 0 := by decide

/-- witness (no re-arming of a missing record, test in its own section): interval > 0, removal in the gap, callback -/
theorem no_rearm_witness :
    let s := run ⟨false, true, false⟩ false false (List.replicate 4 false ++ [true, true, true, true] ++ List.replicate 4 false)
    s.cbAG = true ∧ s.decBG = false := by decide

end Race

end Props.C14

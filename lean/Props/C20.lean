/-
C20 — Packet lifetime and hop budget on the wire honour the request.
Property theorems only.
  Model (what the code does):        `FlexModel/Geo/LT.lean`
  Spec  (what the standard demands): `FlexModel/Geo/LTSpec.lean` — written from EN 302 636-4-1 §9.6.4, §10.3 and the
                                     property text; it uses no model function (no `LT.millis`, `LT.greatest`, `srcHops` …)
  Receive prologue (C04's model, tied by C04's correspondence): `FlexModel/Geo/RecvPath.lean`
Every clause is stated as "model meets Spec"; the tie model ↔ /repo is the correspondence of harness/props/c20.py and
the bridge `Props/C20Bridge.lean` (AST-extracted quantiser = `LT.setMillis` for all inputs).
-/
import FlexModel.Geo.LT
import FlexModel.Geo.LTSpec
import FlexModel.Geo.LTLemmas
import FlexModel.Geo.RecvPath
import FlexModel.Geo.LTOrig
import Generated.Mib
import Generated.LTSrc

namespace Props.C20
open FlexModel.Geo

/-! ## 1. Lifetime quantiser (model-level facts about `LT.greatest`, all `v : Nat`; proofs: `Geo/LTLemmas.lean`) -/

/-- never exceeds the request (all `v`, not only ≤ 7 000 000) -/
theorem greatest_le (v : Nat) : (LT.greatest v).millis ≤ v := LTLemmas.greatest_le v

/-- the written lifetime is the largest representable one not exceeding the request -/
theorem greatest_max (v : Nat) (c : LT) (hc : c.WF) (hle : c.millis ≤ v) :
    c.millis ≤ (LT.greatest v).millis := LTLemmas.greatest_max v c hc hle

/-- non-zero whenever at least 50 ms were requested -/
theorem greatest_pos (v : Nat) (h : 50 ≤ v) : 0 < (LT.greatest v).millis := LTLemmas.greatest_pos v h

/-- the result is always a well-formed (6-bit, 2-bit) code -/
theorem greatest_wf (v : Nat) : (LT.greatest v).WF := LTLemmas.greatest_wf v

/-- Full-strength statement for a quantiser without the ≥ 1 000 000 ms cap (`capped = false`). -/
theorem setMillis_spec (v : Nat) :
    let r := LT.setMillis false v
    r.WF ∧ r.millis ≤ v ∧ (∀ c : LT, c.WF → c.millis ≤ v → c.millis ≤ r.millis) ∧ (50 ≤ v → 0 < r.millis) :=
  LTLemmas.setMillis_spec v

/-- The code as it is (`capped = true`): the property outside the known region `v ≥ 1 000 000`. -/
theorem setMillis_spec_partial (v : Nat) (hv : v < 1000000) :
    let r := LT.setMillis true v
    r.WF ∧ r.millis ≤ v ∧ (∀ c : LT, c.WF → c.millis ≤ v → c.millis ≤ r.millis) ∧ (50 ≤ v → 0 < r.millis) :=
  LTLemmas.setMillis_spec_partial v hv

/-- "never exceeds" holds for the capped code for every `v` (the cap only loses lifetime). -/
theorem setMillis_le (capped : Bool) (v : Nat) : (LT.setMillis capped v).millis ≤ v := LTLemmas.setMillis_le capped v

/-- Known finding C20-KF1, machine-checked witness: 1 000 000 ms is written as 0 although
6 300 000 ms (63 × 100 s) … and in particular 1 000 000 ms itself (10 × 100 s) are representable. -/
theorem setMillis_capped_witness :
    (LT.setMillis true 1000000).millis = 0 ∧ (⟨10, 3⟩ : LT).WF ∧ (⟨10, 3⟩ : LT).millis = 1000000 := by
  decide

/-- History (not tied to the present code, no driver op): defect C20-F1 of the pinned commit, repaired by the `fix:`
commit — machine-checked witnesses against the old quantiser kept in the model file as `LT.setMillisOld`. -/
theorem setMillisOld_witness :
    (LT.setMillisOld 700).millis = 0 ∧ (LT.setMillisOld 1999).millis = 1000 ∧
    (LT.greatest 700).millis = 700 ∧ (LT.greatest 1999).millis = 1950 := by
  decide

/-! ## 2. Lifetime octet: codec round trip, and the model's reading of an octet IS the standard's (§9.6.4) -/

theorem decode_encode (c : LT) (h : c.WF) : LT.decode c.encode = c := LTLemmas.decode_encode c h

theorem encode_decode (b : Nat) (h : b < 256) : (LT.decode b).encode = b ∧ (LT.decode b).WF := LTLemmas.encode_decode b h

/-- **decoding a lifetime field yields the value the standard assigns to the octet** — for all 256 octets the
shift/mask decoder followed by `get_value_in_millis` equals `LTSpec.octetMillis` (div/mod reading of §9.6.4 Table 5) -/
theorem decode_reads_octet (b : Nat) (h : b < 256) : (LT.decode b).millis = LTSpec.octetMillis b :=
  LTLemmas.decode_reads_octet b h

/-- and the octet an encoder writes for a code stands, by the standard's table, for the code's value: together
"decoding a lifetime field yields the value its sender encoded" -/
theorem encode_octet_millis (c : LT) (h : c.WF) : LTSpec.octetMillis c.encode = c.millis ∧ c.encode < 256 ∧
    (LT.decode c.encode).millis = c.millis :=
  ⟨LTLemmas.encode_octet_millis c h, LTLemmas.encode_lt c h, LTLemmas.decode_millis c h⟩

/-! ## 3. The written lifetime octet is the one the property demands (`LTSpec.IsLifetimeOctet`) -/

/-- Spec sanity (no model function involved): an admissible octet is non-zero from 50 ms on — the third clause of the
property follows from "largest representable not exceeding" because octet 4 stands for 50 ms -/
theorem spec_nonzero_from_50 (ms b : Nat) (h : LTSpec.IsLifetimeOctet ms b) (h50 : 50 ≤ ms) :
    0 < LTSpec.octetMillis b := LTLemmas.spec_nonzero_from_50 ms b h h50

/-- Spec sanity: the demanded VALUE is unique (the octet need not be: 1000 ms = octet 0x50 = octet 0x05) -/
theorem spec_value_unique (ms b b' : Nat) (h : LTSpec.IsLifetimeOctet ms b) (h' : LTSpec.IsLifetimeOctet ms b') :
    LTSpec.octetMillis b = LTSpec.octetMillis b' := LTLemmas.spec_value_unique ms b b' h h'

/-- **clauses 1-3, repaired quantiser**: for EVERY requested lifetime the written octet is the demanded one -/
theorem written_octet_meets_spec (v : Nat) : LTSpec.IsLifetimeOctet v (LT.setMillis false v).encode :=
  LTLemmas.written_octet_meets_spec v

/-- **clauses 1-3, the code as it is**: for every requested lifetime below 1 000 000 ms (known finding C20-KF1 above) -/
theorem written_octet_meets_spec_partial (v : Nat) (hv : v < 1000000) :
    LTSpec.IsLifetimeOctet v (LT.setMillis true v).encode := LTLemmas.written_octet_meets_spec_partial v hv

/-- C20-KF1 is EXACTLY the band `v ≥ 1 000 000`: there the code as it is writes an octet standing for 0 ms, which is
never the demanded one (octet 0x2B = 10 × 100 s does not exceed `v`) -/
theorem kf1_band (v : Nat) (hv : 1000000 ≤ v) :
    LTSpec.octetMillis (LT.setMillis true v).encode = 0 ∧ ¬ LTSpec.IsLifetimeOctet v (LT.setMillis true v).encode :=
  LTLemmas.kf1_band v hv

/-- lifetime of an originated packet: the model's choice (`srcLifetime`: request if present, else MIB default) writes
the octet demanded for `LTSpec.lifetimeMs` (request if specified, else itsGnDefaultPacketLifetime) -/
theorem src_lifetime_meets_spec (capped : Bool) (req : Option Nat) (dfltS : Nat)
    (h : capped = false ∨ LTSpec.lifetimeMs req dfltS < 1000000) :
    LTSpec.IsLifetimeOctet (LTSpec.lifetimeMs req dfltS) (srcLifetime capped req dfltS).encode :=
  LTLemmas.src_lifetime_meets_spec capped req dfltS h

/-- "never exceeds" needs no restriction: also inside the KF1 band the written lifetime does not exceed the request -/
theorem src_lifetime_never_exceeds (capped : Bool) (req : Option Nat) (dfltS : Nat) :
    LTSpec.octetMillis (srcLifetime capped req dfltS).encode ≤ LTSpec.lifetimeMs req dfltS :=
  LTLemmas.src_lifetime_never_exceeds capped req dfltS

/-! ## 4. Remaining lifetime reported upward -/

/-- **the remaining lifetime a receiver reports never exceeds the lifetime on the wire**, for all 256 LT octets:
what the indication carries (`indRemainingS`, the model of the five indication sites) is admissible by the Spec -/
theorem remaining_admissible (b : Nat) (h : b < 256) : LTSpec.AdmissibleRemaining b (indRemainingS b) := by
  unfold LTSpec.AdmissibleRemaining indRemainingS LT.seconds
  rw [← LTLemmas.decode_reads_octet b h]
  omega

/-- and it loses less than one second (no rounding up, no truncation to 0 of lifetimes ≥ 1 s) -/
theorem remaining_tight (b : Nat) (h : b < 256) : LTSpec.octetMillis b < (indRemainingS b + 1) * 1000 := by
  unfold indRemainingS LT.seconds
  rw [← LTLemmas.decode_reads_octet b h]
  omega

/-! ## 5. Hop limits of originated packets -/

/-- **SHB and beacons carry hop limit 1; multi-hop packets carry RHL = MHL = the requested limit if specified, else
itsGnDefaultHopLimit; LS packets itsGnDefaultHopLimit** — the model of the six source operations (`srcHops`) is the
Spec's `hops` under the interface convention `LTSpec.requestedHops` ("0 and 1 mean: not specified") -/
theorem src_hops_meet_spec (t : Transport) (req dflt : Nat) :
    srcHops t req dflt = LTSpec.hops t (LTSpec.requestedHops req) dflt := LTLemmas.src_hops_meet_spec t req dflt

/-- §10.3.5 receiver guard: the model's guard rejects exactly the packets the standard says must be discarded -/
theorem recv_guard_meets_spec (rhl mhl : Nat) : recvHopGuard rhl mhl = false ↔ LTSpec.MustDiscard rhl mhl := by
  simp only [recvHopGuard, LTSpec.MustDiscard, decide_eq_false_iff_not]; omega

/-- no originated packet is one a receiver must discard (Spec-level, every transport, every request/default) -/
theorem originated_never_discarded (t : Transport) (req : Option Nat) (dflt : Nat) :
    ¬ LTSpec.MustDiscard (LTSpec.hops t req dflt).1 (LTSpec.hops t req dflt).2 := by
  cases t <;> simp [LTSpec.hops, LTSpec.MustDiscard]

/-! ## 6. "Discards" means: no effect at all (on C04's byte-level model of the receive prologue) -/

open FlexModel.Geo.Recv in
private theorem byteAt_drop4 (f : List Nat) (i : Nat) : byteAt (f.drop 4) i = byteAt f (4 + i) := by
  simp [byteAt, List.getD_eq_getElem?_getD, List.getElem?_drop]

open FlexModel.Geo.Recv in
private theorem commonStage_raises (rhl : Nat) (p : List Nat) (h : byteAt p 6 < rhl) :
    ∃ e, commonStage rhl p = .raised e := by
  unfold commonStage
  by_cases h0 : p.length < 8
  · exact ⟨_, by rw [if_pos h0]⟩
  · rw [if_neg h0]
    simp only
    by_cases h1 : (!Generated.Enums.CommonNH_values.contains (byteAt p 0 / 16)) = true
    · exact ⟨_, by rw [if_pos h1]⟩
    · rw [if_neg h1]
      by_cases h2 : (!Generated.Enums.HeaderType_values.contains (byteAt p 1 / 16)) = true
      · exact ⟨_, by rw [if_pos h2]⟩
      · rw [if_neg h2]
        by_cases h3 : (!hstOk (byteAt p 1 / 16) (byteAt p 1 % 16)) = true
        · exact ⟨_, by rw [if_pos h3]⟩
        · exact ⟨_, by rw [if_neg h3, if_pos h]⟩

open FlexModel.Geo.Recv in
/-- **a receiver discards packets whose remaining hop limit exceeds their maximum**: an unsecured frame (basic-header
NH = 1) whose RHL octet (3) exceeds its MHL octet (10) leaves the station's state unchanged and causes no action
(no indication, no location-table update, no transmission) — for every configuration, every state, every stateful
handler.  (A secured frame, NH = 2, reaches the same guard only after the verify service: C03/C05's path, not
modelled here.) -/
theorem discard_has_no_effect {σ α : Type} (cfg : Cfg) (handle : σ → Handler → List Nat → σ × List α × Option Exc)
    (verify : σ → List Nat → σ × List α × Option Exc) (st : σ) (f : List Nat) (hnh : byteAt f 0 % 16 = 1)
    (h : LTSpec.MustDiscard (byteAt f 3) (byteAt f 10)) :
    (recvGN cfg handle verify st f).1 = st ∧ (recvGN cfg handle verify st f).2.1 = [] := by
  have key : (∃ e, classify cfg f = .raised e) ∨ classify cfg f = .dropped := by
    unfold classify
    by_cases h0 : f.length < 4
    · exact Or.inl ⟨_, by rw [if_pos h0]⟩
    · rw [if_neg h0]
      simp only [hnh]
      by_cases h1 : (!Generated.Enums.BasicNH_values.contains 1) = true
      · exact Or.inl ⟨_, by rw [if_pos h1]⟩
      · rw [if_neg h1]
        by_cases h2 : byteAt f 0 / 16 ≠ cfg.version
        · exact Or.inl ⟨_, by rw [if_pos h2]⟩
        · rw [if_neg h2]
          simp only [if_true]
          cases cfg.securityEnabled with
          | true => exact Or.inr (by simp)
          | false =>
            obtain ⟨e, he⟩ := commonStage_raises (byteAt f 3) (f.drop 4) (by rw [byteAt_drop4]; exact h)
            exact Or.inl ⟨e, by simpa using he⟩
  unfold recvGN
  rcases key with ⟨e, he⟩ | hd
  · simp [he]
  · simp [hd]

/-! ## 7. Side conditions on the constants regenerated from `/repo`'s MIB on every run -/

/-- the MIB default lifetime is exactly representable, so packets without a requested lifetime carry it unchanged -/
theorem mib_default_exact (capped : Bool) :
    (srcLifetime capped none Generated.Mib.itsGnDefaultPacketLifetime).millis
      = Generated.Mib.itsGnDefaultPacketLifetime * 1000 := by
  cases capped <;> decide

/-- every lifetime up to `itsGnMaxPacketLifetime` lies outside the region of known finding C20-KF1 -/
theorem mib_max_below_cap : Generated.Mib.itsGnMaxPacketLifetime * 1000 < 1000000 := by decide

/-- hence, for every request up to the MIB maximum, the code as it is writes the demanded octet.  NOTE: nothing in
/repo enforces `itsGnMaxPacketLifetime` (it is read nowhere), so this hypothesis is a promise of the CALLER, not a
fact about the code — see `kf1_reachable`. -/
theorem written_octet_upto_mib_max (v : Nat) (hv : v ≤ Generated.Mib.itsGnMaxPacketLifetime * 1000) :
    LTSpec.IsLifetimeOctet v (LT.setMillis true v).encode :=
  written_octet_meets_spec_partial v (Nat.lt_of_le_of_lt hv mib_max_below_cap)

/-- the KF1 band is reachable through the public API: requests above `itsGnMaxPacketLifetime` are not rejected or
clamped anywhere, and inside the property's quantifier (… to 7 000 000 ms) there are requests ≥ 50 ms written as 0 -/
theorem kf1_reachable :
    ∃ v, Generated.Mib.itsGnMaxPacketLifetime * 1000 < v ∧ v ≤ 7000000 ∧ 50 ≤ v ∧
      LTSpec.octetMillis (srcLifetime true (some v) Generated.Mib.itsGnDefaultPacketLifetime).encode = 0 :=
  ⟨1000000, by decide, by decide, by decide, by decide⟩

/-- the MIB default hop limit fits the 8-bit field and is a hop limit a receiver accepts -/
theorem mib_default_hop_fits : Generated.Mib.itsGnDefaultHopLimit < 256 := by decide

/-! ## 8. Non-vacuity -/

example : (LT.greatest 1999) = ⟨39, 0⟩ ∧ (LT.greatest 600000) = ⟨6, 3⟩ ∧ (LT.greatest 3000) = ⟨3, 1⟩ := by decide
example : (⟨39, 0⟩ : LT).WF ∧ (⟨39, 0⟩ : LT).millis ≤ 1999 := by decide
example : srcHops .gbc 0 10 = (10, 10) ∧ srcHops .guc 7 10 = (7, 7) ∧ srcHops .gac 1 10 = (10, 10) := by decide
/-- the Spec reads as the property text: requested limit when above 1, else the MIB default -/
example : LTSpec.hops .gbc (LTSpec.requestedHops 7) 10 = (7, 7) ∧ LTSpec.hops .gbc (LTSpec.requestedHops 1) 10 = (10, 10) ∧
    LTSpec.hops .shb (LTSpec.requestedHops 7) 10 = (1, 1) ∧ LTSpec.hops .lsReply (some 7) 10 = (10, 10) := by decide
example : LTSpec.IsLifetimeOctet 1999 156 ∧ LTSpec.octetMillis 156 = 1950 :=
  ⟨by have := LTLemmas.greatest_octet 1999; have e : (LT.greatest 1999).encode = 156 := by decide
      rwa [e] at this, by decide⟩
example : LTSpec.MustDiscard 11 10 ∧ ¬ LTSpec.MustDiscard 10 10 := by decide
example : LTSpec.AdmissibleRemaining 156 1 ∧ ¬ LTSpec.AdmissibleRemaining 156 2 := by decide
/-- hypothesis of `discard_has_no_effect` is satisfiable: an SHB frame with RHL 2 > MHL 1 -/
example : FlexModel.Geo.Recv.byteAt ([0x11, 0, 5, 2] ++ [0x20, 0x50, 0, 0x80, 0, 0, 1, 0]) 0 % 16 = 1 ∧
    LTSpec.MustDiscard (FlexModel.Geo.Recv.byteAt ([0x11, 0, 5, 2] ++ [0x20, 0x50, 0, 0x80, 0, 0, 1, 0]) 3)
      (FlexModel.Geo.Recv.byteAt ([0x11, 0, 5, 2] ++ [0x20, 0x50, 0, 0x80, 0, 0, 1, 0]) 10) := by decide

/-! ## 9. Round 5: the basic header of SECURED originations, and several originating threads

`originate` (`Geo/LTOrig.lean`) models the assembly: one basic header per source operation, built from the RESOLVED hop
limit; the security branch (SHB, GBC, GAC under itsGnSecurity = ENABLED) changes NH only.  Tie: correspondence on the
packets of a security-enabled real Router (real SignService; MHL read from the signed payload by an independent parse)
for every requested hop limit 0..255 x MIB defaults x lifetimes, and the facts of `Generated/LTSrc.lean`. -/

/-- **secured or not, originated packets carry RHL (basic header, in the clear) = MHL (common header, inside the
envelope when secured) = the Spec's hop budget**: 1 for SHB/beacon, the requested limit when above 1 else
itsGnDefaultHopLimit for GBC/GAC/GUC, itsGnDefaultHopLimit for LS — for every request, default and configuration -/
theorem originate_hops_meet_spec (security capped : Bool) (t : Transport) (req dflt : Nat) (reqMs : Option Nat)
    (dfltS : Nat) :
    ((originate security capped t req dflt reqMs dfltS).hdr.rhl, (originate security capped t req dflt reqMs dfltS).mhl)
      = LTSpec.hops t (LTSpec.requestedHops req) dflt := by
  rw [← src_hops_meet_spec]
  unfold originate
  split <;> rfl

/-- **secured or not, the LT octet in the clear is the one the property demands** (outside C20-KF1 for the code as it is) -/
theorem originate_lifetime_meets_spec (security capped : Bool) (t : Transport) (req dflt : Nat) (reqMs : Option Nat)
    (dfltS : Nat) (h : capped = false ∨ LTSpec.lifetimeMs reqMs dfltS < 1000000) :
    LTSpec.IsLifetimeOctet (LTSpec.lifetimeMs reqMs dfltS)
      (originate security capped t req dflt reqMs dfltS).hdr.lt.encode := by
  have key := src_lifetime_meets_spec capped reqMs dfltS h
  unfold originate
  split <;> exact key

/-- and never exceeds the request, KF1 band included -/
theorem originate_lifetime_never_exceeds (security capped : Bool) (t : Transport) (req dflt : Nat) (reqMs : Option Nat)
    (dfltS : Nat) :
    LTSpec.octetMillis (originate security capped t req dflt reqMs dfltS).hdr.lt.encode ≤ LTSpec.lifetimeMs reqMs dfltS := by
  have key := src_lifetime_never_exceeds capped reqMs dfltS
  unfold originate
  split <;> exact key

/-- the security configuration changes NH (and where the common header travels) and NOTHING else of the hop / lifetime
budget: same LT, same RHL, same MHL as the unsecured packet of the same request -/
theorem security_changes_nh_only (capped : Bool) (t : Transport) (req dflt : Nat) (reqMs : Option Nat) (dfltS : Nat) :
    let s := originate true capped t req dflt reqMs dfltS
    let u := originate false capped t req dflt reqMs dfltS
    s.hdr.lt = u.hdr.lt ∧ s.hdr.rhl = u.hdr.rhl ∧ s.mhl = u.mhl ∧ u.hdr.nh = 1 ∧
      s.hdr.nh = (if hasSecBranch t then 2 else 1) ∧ s.secured = hasSecBranch t := by
  cases t <;> simp [originate, hasSecBranch, BasicHdr.setNh]

/-- **several originating threads**: in EVERY serialisation of the constructor calls of any number of threads (any
history `reqs`, any length) the lifetime written for the i-th call does not exceed the i-th call's OWN request (resp.
the MIB default) — whatever was requested before it or concurrently -/
theorem every_schedule_honours_each_request (capped : Bool) (dfltS : Nat) (reqs : List (Option Nat)) (i : Nat)
    (h : i < reqs.length) :
    LTSpec.octetMillis ((emitAll capped dfltS reqs)[i]'(by simpa [emitAll] using h)).encode
      ≤ LTSpec.lifetimeMs reqs[i] dfltS := by
  simp only [emitAll, List.getElem_map]
  exact src_lifetime_never_exceeds capped reqs[i] dfltS

/-- … and is the demanded octet (outside C20-KF1 for the code as it is) -/
theorem every_schedule_meets_spec (capped : Bool) (dfltS : Nat) (reqs : List (Option Nat)) (i : Nat)
    (h : i < reqs.length) (hk : capped = false ∨ LTSpec.lifetimeMs reqs[i] dfltS < 1000000) :
    LTSpec.IsLifetimeOctet (LTSpec.lifetimeMs reqs[i] dfltS)
      ((emitAll capped dfltS reqs)[i]'(by simpa [emitAll] using h)).encode := by
  simp only [emitAll, List.getElem_map]
  exact src_lifetime_meets_spec capped reqs[i] dfltS hk

/-- WHY `emitAll` may be a `map`: the constructors keep no state between calls.  A last-value memo in two shared
variables (key stored before value) is NOT schedule-independent — machine-checked witness on the negative model
`Memo`: after a 600 s request, thread A stores the key of its 1 s request and is pre-empted; thread B's complete call
for 1 s hits the memo and writes 600 s -/
theorem memo_race_witness :
    Memo.run true ⟨none, ⟨0, 0⟩⟩ [.call 600000, .storeKey 1000, .call 1000, .storeVal 1000]
      = [some ⟨6, 3⟩, none, some ⟨6, 3⟩, some ⟨1, 1⟩] ∧ (⟨6, 3⟩ : LT).millis = 600000 ∧ 1000 < (⟨6, 3⟩ : LT).millis := by
  decide

/-- sequentially (every call complete) the same memo is harmless: that is why only a schedule exposes it -/
theorem memo_sequential_ok :
    Memo.run true ⟨none, ⟨0, 0⟩⟩ [.call 600000, .call 1000, .call 1000, .call 600000]
      = [some ⟨6, 3⟩, some ⟨1, 1⟩, some ⟨1, 1⟩, some ⟨6, 3⟩] := by
  decide

/-- REGENERATED FACT (ast pass over geonet/basic_header.py, `harness/gen_lt.py`): no function of the module writes
class- or module-level state (no store to `cls.x` / `BasicHeader.x` / `LT.x` / `type(self).x`, no `global`, no
mutating call on such a container) — the premise of `emitAll` -/
theorem constructors_write_no_shared_state : Generated.LTSrc.sharedWrites = [] := by decide

/-- REGENERATED FACT (ast pass over geonet/router.py): every Router method that builds a basic header builds exactly
one (the security branches re-use it via `set_nh`) — the shape of `originate` -/
theorem one_basic_header_per_operation :
    Generated.LTSrc.headerBuilds.all (fun p => p.2 == 1) = true ∧ Generated.LTSrc.headerBuilds ≠ [] := by decide

/-- REGENERATED FACT: no Router method hands a request's RAW `max_hop_limit` (where 0 and 1 mean "not specified") to a
basic-header constructor as remaining hop limit -/
theorem no_raw_request_hop_limit : Generated.LTSrc.rawHopLimitSites = [] := by decide

example : originate true true .gbc 1 10 (some 1999) 60 = ⟨⟨2, ⟨39, 0⟩, 10⟩, 10, true⟩ ∧
    originate true true .gac 0 10 none 60 = ⟨⟨2, ⟨6, 2⟩, 10⟩, 10, true⟩ ∧
    originate true true .shb 7 10 (some 1000) 60 = ⟨⟨2, ⟨1, 1⟩, 1⟩, 1, true⟩ ∧
    originate true true .guc 7 10 (some 1000) 60 = ⟨⟨1, ⟨1, 1⟩, 7⟩, 7, false⟩ := by decide
example : emitAll true 60 [some 600000, some 1000, none] = [⟨6, 3⟩, ⟨1, 1⟩, ⟨6, 2⟩] := by decide

end Props.C20

/-
C20 — Packet lifetime and hop budget on the wire honour the request.
Property theorems only.  Model: `FlexModel/Geo/LT.lean`.
-/
import FlexModel.Geo.LT
import Generated.Mib

namespace Props.C20
open FlexModel.Geo

/-! ## Lifetime quantiser -/

private theorem unit_cases (b : Nat) (h : b < 4) : b = 0 ∨ b = 1 ∨ b = 2 ∨ b = 3 := by omega

/-- never exceeds the request (all `v`, not only ≤ 7 000 000) -/
theorem greatest_le (v : Nat) : (LT.greatest v).millis ≤ v := by
  simp only [LT.greatest, LT.stepQ, LT.unit]
  repeat' split
  all_goals (simp only [LT.millis, LT.unit] at *; omega)

/-- the written lifetime is the largest representable one not exceeding the request -/
theorem greatest_max (v : Nat) (c : LT) (hc : c.WF) (hle : c.millis ≤ v) :
    c.millis ≤ (LT.greatest v).millis := by
  obtain ⟨hm, hb⟩ := hc
  obtain ⟨m, b⟩ := c
  simp only at hm hb
  rcases unit_cases b hb with rfl | rfl | rfl | rfl <;>
  · simp only [LT.millis, LT.unit] at hle
    simp only [LT.greatest, LT.stepQ, LT.unit]
    repeat' split
    all_goals (simp only [LT.millis, LT.unit] at *; omega)

/-- non-zero whenever at least 50 ms were requested -/
theorem greatest_pos (v : Nat) (h : 50 ≤ v) : 0 < (LT.greatest v).millis := by
  simp only [LT.greatest, LT.stepQ, LT.unit]
  repeat' split
  all_goals (simp only [LT.millis, LT.unit] at *; omega)

/-- the result is always a well-formed (6-bit, 2-bit) code -/
theorem greatest_wf (v : Nat) : (LT.greatest v).WF := by
  simp only [LT.greatest, LT.stepQ, LT.unit]
  repeat' split
  all_goals (simp only [LT.WF] at *; omega)

/-- Full-strength statement for a quantiser without the ≥ 1 000 000 ms cap (`capped = false`). -/
theorem setMillis_spec (v : Nat) :
    let r := LT.setMillis false v
    r.WF ∧ r.millis ≤ v ∧ (∀ c : LT, c.WF → c.millis ≤ v → c.millis ≤ r.millis) ∧ (50 ≤ v → 0 < r.millis) := by
  simp only [LT.setMillis, Bool.false_eq_true, false_and, if_false]
  exact ⟨greatest_wf v, greatest_le v, fun c hc h => greatest_max v c hc h, greatest_pos v⟩

/-- The code as it is (`capped = true`): the property outside the known region `v ≥ 1 000 000`. -/
theorem setMillis_spec_partial (v : Nat) (hv : v < 1000000) :
    let r := LT.setMillis true v
    r.WF ∧ r.millis ≤ v ∧ (∀ c : LT, c.WF → c.millis ≤ v → c.millis ≤ r.millis) ∧ (50 ≤ v → 0 < r.millis) := by
  have : ¬ (1000000 ≤ v) := by omega
  simp only [LT.setMillis, this, and_false, if_false]
  exact ⟨greatest_wf v, greatest_le v, fun c hc h => greatest_max v c hc h, greatest_pos v⟩

/-- "never exceeds" holds for the capped code for every `v` (the cap only loses lifetime). -/
theorem setMillis_le (capped : Bool) (v : Nat) : (LT.setMillis capped v).millis ≤ v := by
  unfold LT.setMillis
  split
  · simp [LT.millis]
  · exact greatest_le v

/-- Known finding C20-KF1, machine-checked witness: 1 000 000 ms is written as 0 although
6 300 000 ms (63 × 100 s) … and in particular 1 000 000 ms itself (10 × 100 s) are representable. -/
theorem setMillis_capped_witness :
    (LT.setMillis true 1000000).millis = 0 ∧ (⟨10, 3⟩ : LT).WF ∧ (⟨10, 3⟩ : LT).millis = 1000000 := by
  decide

/-- Defect C20-F1 of the pinned commit (repaired by the `fix:` commit), machine-checked witnesses. -/
theorem setMillisOld_witness :
    (LT.setMillisOld 700).millis = 0 ∧ (LT.setMillisOld 1999).millis = 1000 ∧
    (LT.greatest 700).millis = 700 ∧ (LT.greatest 1999).millis = 1950 := by
  decide

/-! ## Lifetime code round trip -/

/-- `mult << 2 | base` is `4·mult + base` on well-formed codes -/
theorem encode_eq (c : LT) (h : c.WF) : c.encode = 4 * c.mult + c.base := by
  obtain ⟨m, b⟩ := c
  obtain ⟨hm, hb⟩ := h
  simp only at hm hb
  have : ∀ m : Fin 64, ∀ b : Fin 4, LT.encode ⟨m.1, b.1⟩ = 4 * m.1 + b.1 := by decide +kernel
  exact this ⟨m, hm⟩ ⟨b, hb⟩

theorem decode_encode (c : LT) (h : c.WF) : LT.decode c.encode = c := by
  obtain ⟨m, b⟩ := c
  obtain ⟨hm, hb⟩ := h
  simp only at hm hb
  have : ∀ m : Fin 64, ∀ b : Fin 4, LT.decode (LT.encode ⟨m.1, b.1⟩) = ⟨m.1, b.1⟩ := by decide +kernel
  exact this ⟨m, hm⟩ ⟨b, hb⟩

theorem encode_decode (b : Nat) (h : b < 256) : (LT.decode b).encode = b ∧ (LT.decode b).WF := by
  have : ∀ b : Fin 256, (LT.decode b.1).encode = b.1 ∧ (LT.decode b.1).WF := by decide +kernel
  exact this ⟨b, h⟩

/-- decoding the lifetime octet yields the value its sender encoded -/
theorem decode_millis (c : LT) (h : c.WF) : (LT.decode c.encode).millis = c.millis := by
  rw [decode_encode c h]

/-- the remaining lifetime reported upward (whole seconds) never exceeds the lifetime on the wire -/
theorem remaining_le (c : LT) : c.seconds * 1000 ≤ c.millis := by
  unfold LT.seconds; omega

/-! ## Default lifetime and hop limits -/

theorem default_used (capped : Bool) (d : Nat) :
    srcLifetime capped none d = LT.setMillis capped (d * 1000) := rfl

theorem request_used (capped : Bool) (ms d : Nat) :
    srcLifetime capped (some ms) d = LT.setMillis capped ms := rfl

theorem shb_beacon_hops (req dflt : Nat) :
    srcHops .shb req dflt = (1, 1) ∧ srcHops .beacon req dflt = (1, 1) := ⟨rfl, rfl⟩

theorem multihop_hops (t : Transport) (ht : t = .gbc ∨ t = .gac ∨ t = .guc) (req dflt : Nat) :
    (srcHops t req dflt).1 = (srcHops t req dflt).2 ∧
    (srcHops t req dflt).2 = (if 1 < req then req else dflt) := by
  rcases ht with rfl | rfl | rfl <;> (simp only [srcHops]; split <;> (split <;> first | omega | simp_all))

theorem ls_hops (req dflt : Nat) :
    srcHops .lsRequest req dflt = (dflt, dflt) ∧ srcHops .lsReply req dflt = (dflt, dflt) := ⟨rfl, rfl⟩

/-- originated packets always pass the receiver's `rhl ≤ mhl` guard -/
theorem src_passes_guard (t : Transport) (req dflt : Nat) :
    recvHopGuard (srcHops t req dflt).1 (srcHops t req dflt).2 = true := by
  cases t <;> simp [srcHops, recvHopGuard]

theorem recv_guard (rhl mhl : Nat) : mhl < rhl → recvHopGuard rhl mhl = false := by
  intro h; simp [recvHopGuard]; omega

/-! ## Side conditions on the constants regenerated from `/repo`'s MIB on every run -/

/-- the MIB default lifetime is exactly representable, so packets without a requested lifetime carry it unchanged -/
theorem mib_default_exact (capped : Bool) :
    (srcLifetime capped none Generated.Mib.itsGnDefaultPacketLifetime).millis
      = Generated.Mib.itsGnDefaultPacketLifetime * 1000 := by
  cases capped <;> decide

/-- every lifetime up to `itsGnMaxPacketLifetime` lies outside the region of known finding C20-KF1 -/
theorem mib_max_below_cap : Generated.Mib.itsGnMaxPacketLifetime * 1000 < 1000000 := by decide

/-- hence, for every request up to the MIB maximum, the code as it is satisfies the full property -/
theorem setMillis_spec_upto_mib_max (v : Nat) (hv : v ≤ Generated.Mib.itsGnMaxPacketLifetime * 1000) :
    let r := LT.setMillis true v
    r.WF ∧ r.millis ≤ v ∧ (∀ c : LT, c.WF → c.millis ≤ v → c.millis ≤ r.millis) ∧ (50 ≤ v → 0 < r.millis) :=
  setMillis_spec_partial v (Nat.lt_of_le_of_lt hv mib_max_below_cap)

/-- the MIB default hop limit fits the 8-bit field -/
theorem mib_default_hop_fits : Generated.Mib.itsGnDefaultHopLimit < 256 := by decide

/-! ## Non-vacuity -/

example : (LT.greatest 1999) = ⟨39, 0⟩ ∧ (LT.greatest 600000) = ⟨6, 3⟩ ∧ (LT.greatest 3000) = ⟨3, 1⟩ := by decide
example : (⟨39, 0⟩ : LT).WF ∧ (⟨39, 0⟩ : LT).millis ≤ 1999 := by decide
example : srcHops .gbc 0 10 = (10, 10) ∧ srcHops .guc 7 10 = (7, 7) := by decide

end Props.C20
